(* C08/Proofs.v — lemmas about the serve-loop model: the reader stack step by step,
   any handler tree against it, handleInputStream on one element, the Serve loop. *)
From XV Require Import lib.Bytes lib.Xml gen.Serve C08.Model.
From Coq Require Import ZArith Lia ZifyBool ZifyNat ZifyN.

(* ---- internal/stream/reader.go, WebSocket framing (table read from the source):
   a framing element called close ends the input, and only as a top-level element ---- *)
Lemma tbl_ws_close :
  sv_ws_eof_locals = [str "close"] /\ sv_ws_eof_top_only = true /\ sv_ws_eof_unrecognised = 0.
Proof. vm_compute. repeat split. Qed.

(* session.go Serve: the peer's close is recognised by identity with io.EOF, in
   the one switch of the loop (nil / io.EOF / default) *)
Lemma tbl_serve_eof : sv_serve_eof_identity = true /\ sv_serve_switches = 1 /\ sv_serve_clauses = 3.
Proof. vm_compute. repeat split. Qed.

Lemma ws_ends_nested d x : d <> 0%N -> ws_ends d x = false.
Proof.
  intro H. unfold ws_ends. destruct tbl_ws_close as [_ [-> _]]. cbn [negb orb].
  apply N.eqb_neq in H. rewrite H. apply andb_false_r.
Qed.

Lemma ws_ends_top x : ws_ends 0 x = in_list x sv_ws_eof_locals.
Proof. unfold ws_ends. cbn [N.eqb]. rewrite orb_true_r. apply andb_true_r. Qed.

Section Reading.
Variable ws : bool.
Notation scan := (scan ws).
Notation term_of := (term_of ws).

Definition act (pd0 : N) (c : nat) (l : list token) : rst :=
  mkr (mkp l (pd0 + N.of_nat (S c)) false) false (N.of_nat (S c)) (Some c) None.

Definition fin (pd0 : N) (l : list token) (cl : bool) : rst :=
  mkr (mkp l pd0 false) cl 0%N None None.

Lemma dec64_succ x : dec64 (N.succ x) = x.
Proof. unfold dec64. destruct (N.eqb (N.succ x) 0) eqn:E; lia. Qed.

Ltac ec_unfold :=
  unfold ec_token, ie_token, i_token, rc_token, p_token, act, fin;
  cbn [r_ecerr r_count r_closed r_p p_poison p_toks p_depth r_idepth].

Ltac ec_finish :=
  unfold set_count, set_idepth; cbn [r_p r_closed r_idepth r_count r_ecerr fst snd];
  repeat f_equal; try lia.

Lemma ec_clean_start pd0 c n a l :
  clean ws (TStart n a) = true ->
  ec_token ws (act pd0 c (TStart n a :: l)) = ((Some (TStart n a), None), act pd0 (S c) l).
Proof.
  intro Hc. cbn [clean] in Hc.
  apply andb_true_iff in Hc. destruct Hc as [H1 H2].
  apply negb_true_iff in H1. apply negb_true_iff in H2.
  ec_unfold. unfold sr_classify. rewrite H2, H1. cbn [negb].
  cbn [r_idepth r_closed r_count r_ecerr r_p set_idepth]. rewrite H2, H1. cbn [negb fst snd].
  ec_finish.
Qed.

Lemma dec64_of_S pd0 c : dec64 (pd0 + N.of_nat (S c)) = (pd0 + N.of_nat c)%N.
Proof. replace (pd0 + N.of_nat (S c))%N with (N.succ (pd0 + N.of_nat c)) by lia. apply dec64_succ. Qed.

Lemma dec64_of_S' c : dec64 (N.of_nat (S c)) = N.of_nat c.
Proof. replace (N.of_nat (S c)) with (N.succ (N.of_nat c)) by lia. apply dec64_succ. Qed.

Lemma ec_clean_end_inner pd0 c n l :
  clean ws (TEnd n) = true ->
  ec_token ws (act pd0 (S c) (TEnd n :: l)) = ((Some (TEnd n), None), act pd0 c l).
Proof.
  intro Hc. cbn [clean] in Hc. apply negb_true_iff in Hc.
  ec_unfold. unfold sr_classify. rewrite Hc. cbn [negb].
  cbn [r_idepth r_closed r_count r_ecerr r_p set_idepth]. rewrite Hc. cbn [negb fst snd].
  unfold set_count, set_idepth; cbn [r_p r_closed r_idepth r_count r_ecerr fst snd].
  rewrite dec64_of_S, dec64_of_S'. reflexivity.
Qed.

Lemma ec_clean_end_last pd0 n l :
  clean ws (TEnd n) = true ->
  ec_token ws (act pd0 0 (TEnd n :: l)) = ((Some (TEnd n), None), fin pd0 l false).
Proof.
  intro Hc. cbn [clean] in Hc. apply negb_true_iff in Hc.
  ec_unfold. unfold sr_classify. rewrite Hc. cbn [negb].
  cbn [r_idepth r_closed r_count r_ecerr r_p set_idepth]. rewrite Hc. cbn [negb fst snd].
  unfold set_count, set_idepth; cbn [r_p r_closed r_idepth r_count r_ecerr fst snd].
  rewrite dec64_of_S, dec64_of_S'. repeat f_equal; lia.
Qed.

Lemma ec_clean_char pd0 c b l :
  ec_token ws (act pd0 c (TChar b :: l)) = ((Some (TChar b), None), act pd0 c l).
Proof.
  ec_unfold. unfold sr_classify.
  assert (E1 : N.eqb (pd0 + N.of_nat (S c)) 0 = false) by lia.
  assert (E2 : N.eqb (N.of_nat (S c)) 0 = false) by lia.
  rewrite E1. cbn [andb].
  cbn [r_idepth r_closed r_count r_ecerr r_p set_idepth]. rewrite E2. cbn [andb fst snd].
  ec_finish.
Qed.

Lemma ec_fin pd0 l cl : ec_token ws (fin pd0 l cl) = ((None, Some EEOF), fin pd0 l true).
Proof. reflexivity. Qed.

Lemma ec_stuck s e : r_ecerr s = Some e -> ec_token ws s = ((None, Some e), s).
Proof. intro H. unfold ec_token. rewrite H. reflexivity. Qed.

Lemma ec_closed s :
  r_ecerr s = None -> r_closed s = true -> ec_token ws s = ((None, Some EEOF), s).
Proof.
  intros He Hc. destruct s as [p cl idp cnt ece]. cbn in He, Hc. subst.
  unfold ec_token, ie_token. cbn [r_ecerr r_count].
  destruct cnt as [c|]; [|reflexivity].
  unfold i_token, rc_token. cbn. reflexivity.
Qed.

Lemma ec_trunc pd0 c :
  exists s', ec_token ws (act pd0 c []) = ((None, Some EDecode), s') /\ r_ecerr s' = Some EDecode.
Proof. eexists. split; [reflexivity|reflexivity]. Qed.

(* a stream-level construct inside the element *)
Lemma ec_dirty pd0 c t l :
  clean ws t = false ->
  exists s', ec_token ws (act pd0 c (t :: l)) = ((None, Some (dirty_err ws t l)), s') /\
    p_poison (r_p s') = true /\
    (dirty_err ws t l <> EEOF -> r_ecerr s' = Some (dirty_err ws t l)) /\
    (dirty_err ws t l = EEOF -> r_ecerr s' = None /\ r_closed s' = true).
Proof.
  intro Hc. destruct t as [n a|n|b|k b]; cbn [clean] in Hc.
  - (* start *)
    assert (Hwe : ws_ends (pd0 + N.of_nat (S c)) (nlocal n) = false) by (apply ws_ends_nested; lia).
    ec_unfold. unfold sr_classify, dirty_err. rewrite Hwe.
    destruct (ws && bytes_eqb (nspace n) sv_ns_framing) eqn:Ef;
    destruct (bytes_eqb (nspace n) sv_ns_stream) eqn:Es;
    cbn [negb andb] in Hc; try discriminate Hc; cbn [negb].
    + eexists. split; [reflexivity|]. cbn. repeat split; try discriminate; intros; try congruence.
    + eexists. split; [reflexivity|]. cbn. repeat split; try discriminate; intros; try congruence.
    + destruct (bytes_eqb (nlocal n) s_error) eqn:Ee.
      * destruct (se_scan 0 [] l) eqn:Esc;
        (eexists; split; [reflexivity|]; cbn; repeat split; intros; try congruence; try discriminate).
      * destruct (bytes_eqb (nlocal n) s_stream) eqn:Est;
        (eexists; split; [reflexivity|]; cbn; repeat split; intros; try congruence; try discriminate).
  - (* end *)
    apply negb_false_iff in Hc.
    ec_unfold. unfold sr_classify, dirty_err. rewrite Hc. cbn [negb].
    destruct (bytes_eqb (nlocal n) s_stream) eqn:Est;
    (eexists; split; [reflexivity|]; cbn; repeat split; intros; try congruence; try discriminate).
  - discriminate.
  - ec_unfold. unfold sr_classify, dirty_err.
    destruct k as [|[|k]];
    (eexists; split; [reflexivity|]; cbn; repeat split; intros; try congruence; try discriminate).
Qed.

Inductive R (pd0 : N) : list token -> scan_end -> rst -> Prop :=
| R_act c l pre e : scan c l = (pre, e) -> R pd0 pre e (act pd0 c l)
| R_fin rest cl : R pd0 [] (SEComplete rest) (fin pd0 rest cl)
| R_stuck t r s : clean ws t = false -> dirty_err ws t r <> EEOF ->
    r_ecerr s = Some (dirty_err ws t r) -> p_poison (r_p s) = true -> R pd0 [] (SEDirty t r) s
| R_eofd t r s : clean ws t = false -> dirty_err ws t r = EEOF ->
    r_ecerr s = None -> r_closed s = true -> p_poison (r_p s) = true -> R pd0 [] (SEDirty t r) s
| R_trunc s : r_ecerr s = Some EDecode -> p_poison (r_p s) = true -> R pd0 [] SETrunc s.

Lemma err_eq_dec (a b : err) : {a = b} + {a <> b}.
Proof. decide equality; apply (list_eq_dec byte_eq_dec). Qed.

Lemma R_step pd0 pre e s : R pd0 pre e s ->
  match pre with
  | t :: pre' => exists s', ec_token ws s = (ok_res t, s') /\ R pd0 pre' e s'
  | [] => exists s', ec_token ws s = ((None, Some (term_of e)), s') /\ R pd0 [] e s'
  end.
Proof.
  intro H. destruct H as [c l pre e Hs|rest cl|t r s Hc Hne He Hp|t r s Hc Heq He Hcl Hp|s He Hp].
  - destruct l as [|t r]; cbn [scan] in Hs.
    + inversion Hs; subst. destruct (ec_trunc pd0 c) as [s' [E1 E2]].
      exists s'. split; [exact E1|]. apply R_trunc; [exact E2|].
      unfold ec_token, ie_token, i_token, rc_token, p_token, act in E1. cbn in E1. inversion E1. reflexivity.
    + destruct (clean ws t) eqn:Hc.
      * destruct t as [n a|n|b|k b].
        -- destruct (scan (S c) r) as [pre' e'] eqn:Hs'. inversion Hs; subst.
           eexists. split; [apply ec_clean_start; exact Hc|]. apply R_act. exact Hs'.
        -- destruct c as [|c'].
           ++ inversion Hs; subst. eexists. split; [apply ec_clean_end_last; exact Hc|]. apply R_fin.
           ++ destruct (scan c' r) as [pre' e'] eqn:Hs'. inversion Hs; subst.
              eexists. split; [apply ec_clean_end_inner; exact Hc|]. apply R_act. exact Hs'.
        -- destruct (scan c r) as [pre' e'] eqn:Hs'. inversion Hs; subst.
           eexists. split; [apply ec_clean_char|]. apply R_act. exact Hs'.
        -- cbn in Hc. discriminate.
      * inversion Hs; subst.
        destruct (ec_dirty pd0 c t r Hc) as [s' [E1 [E2 [E3 E4]]]].
        exists s'. split; [exact E1|].
        destruct (err_eq_dec (dirty_err ws t r) EEOF) as [Heq|Hne].
        -- destruct (E4 Heq) as [E5 E6]. apply R_eofd; assumption.
        -- apply R_stuck; auto.
  - eexists. split; [apply ec_fin|]. apply R_fin.
  - exists s. split; [apply ec_stuck; exact He|]. apply R_stuck; assumption.
  - exists s. split; [cbn [term_of]; rewrite Heq; apply ec_closed; assumption|]. apply R_eofd; assumption.
  - exists s. split; [apply ec_stuck; exact He|]. apply R_trunc; assumption.
Qed.

Lemma run_h_spec pd0 id h : forall pre e s w seen, R pd0 pre e s ->
  exists k s' ret hw,
    run_h ws id h s w seen = (ret, s', enc_all id hw w, rev seen ++ view k pre (term_of e)) /\
    R pd0 (skipn k pre) e s'.
Proof.
  induction h as [e0|kf IH|t k IH]; intros pre e s w seen HR.
  - exists 0, s, e0, []. cbn. rewrite app_nil_r. split; [reflexivity|exact HR].
  - cbn [run_h]. pose proof (R_step pd0 pre e s HR) as Hst.
    destruct pre as [|t pre'].
    + destruct Hst as [s1 [E1 R1]]. rewrite E1. cbv beta iota.
      destruct (IH (None, Some (term_of e)) [] e s1 w ((None, Some (term_of e)) :: seen) R1)
        as [k [s' [ret [hw [E2 R2]]]]].
      exists (S k), s', ret, hw. split.
      * etransitivity; [exact E2|]. cbn [rev view]. rewrite <- app_assoc. reflexivity.
      * destruct k; exact R2.
    + destruct Hst as [s1 [E1 R1]]. rewrite E1. cbv beta iota.
      destruct (IH (ok_res t) pre' e s1 w (ok_res t :: seen) R1) as [k [s' [ret [hw [E2 R2]]]]].
      exists (S k), s', ret, hw. split.
      * etransitivity; [exact E2|]. cbn [rev view]. rewrite <- app_assoc. reflexivity.
      * exact R2.
  - cbn [run_h]. destruct (IH pre e s (rc_encode id t w) seen HR) as [k0 [s' [ret [hw [E2 R2]]]]].
    exists k0, s', ret, (t :: hw). split; [|exact R2]. etransitivity; [exact E2|]. reflexivity.
Qed.

Lemma drain_spec pd0 : forall fuel pre e s, R pd0 pre e s -> length pre < fuel ->
  exists s', drain ws fuel s = ((match term_of e with EEOF => None | x => Some x end), s') /\ R pd0 [] e s'.
Proof.
  induction fuel as [|f IH]; intros pre e s HR Hl; [lia|].
  cbn [drain]. pose proof (R_step pd0 pre e s HR) as Hst.
  destruct pre as [|t pre'].
  - destruct Hst as [s1 [E1 R1]]. rewrite E1. cbv beta iota. cbn [snd].
    exists s1. split; [|exact R1]. destruct (term_of e); reflexivity.
  - destruct Hst as [s1 [E1 R1]]. rewrite E1. cbv beta iota. cbn [snd ok_res].
    apply (IH pre' e s1 R1). cbn in Hl. lia.
Qed.
End Reading.

Lemma enc_all_out id hw : forall w, w_out (enc_all id hw w) = w_out w ++ hw.
Proof.
  induction hw as [|t hw IH]; intro w; cbn [enc_all fold_left]; [rewrite app_nil_r; reflexivity|].
  fold (enc_all id hw (rc_encode id t w)). rewrite IH.
  destruct t; cbn [rc_encode]; try destruct (get_id_typ a); cbn [w_out]; rewrite <- app_assoc; reflexivity.
Qed.

Lemma scan_len ws : forall l c pre e, scan ws c l = (pre, e) -> length pre <= length l.
Proof.
  induction l as [|t r IH]; intros c pre e H; cbn [scan] in H.
  - inversion H. cbn. lia.
  - destruct (clean ws t).
    + destruct t as [n a|n|b|k b].
      * destruct (scan ws (S c) r) as [p1 e1] eqn:E. inversion H; subst. apply IH in E. cbn. lia.
      * destruct c as [|c'].
        -- inversion H; subst. cbn. lia.
        -- destruct (scan ws c' r) as [p1 e1] eqn:E. inversion H; subst. apply IH in E. cbn. lia.
      * destruct (scan ws c r) as [p1 e1] eqn:E. inversion H; subst. apply IH in E. cbn. lia.
      * destruct (scan ws c r) as [p1 e1] eqn:E. inversion H; subst. apply IH in E. cbn. lia.
    + inversion H. cbn. lia.
Qed.

Lemma skipn_len {A} k (l : list A) : length (skipn k l) <= length l.
Proof. rewrite skipn_length. lia. Qed.

Lemma R_fin_inv ws pd0 rest s : R ws pd0 [] (SEComplete rest) s -> r_p s = mkp rest pd0 false.
Proof.
  intro H. inversion H as [c0 l0 pre0 e0 Hs| | | |]; subst.
  - exfalso. clear H. revert c0 Hs. induction l0 as [|t r IH]; intros c0 Hs; cbn [scan] in Hs; [inversion Hs|].
    destruct (clean ws t); [|inversion Hs].
    destruct t as [n a|n|b|k b].
    + destruct (scan ws (S c0) r); inversion Hs.
    + destruct c0; [inversion Hs|]. destruct (scan ws c0 r); inversion Hs.
    + destruct (scan ws c0 r); inversion Hs.
    + destruct (scan ws c0 r); inversion Hs.
  - reflexivity.
Qed.

Lemma i_token_start ws pd n a l : clean ws (TStart n a) = true ->
  i_token ws (mkr (mkp (TStart n a :: l) pd false) false 0%N (Some O) None)
  = ((Some (TStart n a), None), act pd 0 l).
Proof.
  intro Hc. cbn [clean] in Hc.
  apply andb_true_iff in Hc. destruct Hc as [H1 H2].
  apply negb_true_iff in H1. apply negb_true_iff in H2.
  unfold i_token, rc_token, p_token, act. cbn [r_closed r_p p_poison p_toks p_depth].
  unfold sr_classify. rewrite H2, H1. cbn [negb].
  cbn [r_idepth r_closed r_count r_ecerr r_p set_idepth]. rewrite H2, H1. cbn [negb].
  unfold set_idepth. cbn [r_p r_closed r_idepth r_count r_ecerr]. repeat f_equal; lia.
Qed.

Section His.
Variable c : cfg.
Notation ws := (c_ws c).

(* what one invocation on the element <n a>l... looks like *)
Definition inv_spec (n : name) (a : list attr) (pd : N) (pre : list token) (e : scan_end) (v : inv) (p' : pst) : Prop :=
  let a' := shown_attrs c n a in
  let id := fst (get_id_typ a') in
  let from := attr_get s_from a' in
  v_name v = n /\ v_attrs v = a' /\
  (exists k, v_seen v = view k pre (term_of ws e)) /\
  (v_ret v = None ->
     term_of ws e = EEOF /\
     (forall rest, e = SEComplete rest -> p' = mkp rest pd false) /\
     exists j, (wanted n a' (v_hw v) = true -> from <> [] -> c_jp c from = Some j) /\
               ((wanted n a' (v_hw v) = false \/ from = []) -> j = []) /\
               v_auto v = if wanted n a' (v_hw v) then default_reply id j else []) /\
  v_ret v <> Some EEOF /\
  (term_of ws e <> EEOF -> v_ret v <> None) /\
  (wanted n a' (v_hw v) = false -> v_auto v = []).

Lemma his_elem fuel hf pd n a l pre e :
  clean ws (TStart n a) = true -> scan ws 0 l = (pre, e) -> length l < fuel ->
  exists v p', his c fuel hf (mkp (TStart n a :: l) pd false) = (HRInv v, p') /\ inv_spec n a pd pre e v p'.
Proof.
  intros Hc Hs Hl. unfold his. rewrite (i_token_start ws pd n a l Hc). cbv beta iota.
  set (a' := shown_attrs c n a). set (id := fst (get_id_typ a')). set (typ := snd (get_id_typ a')).
  destruct (run_h_spec ws pd id (hf n a') pre e (act pd 0 l) w0 [] (R_act ws pd 0 l pre e Hs))
    as [k [s2 [ret [hw [E R2]]]]].
  change (mkw [] 0%Z false) with w0. rewrite E. unfold finish_inv.
  pose proof (enc_all_out id hw w0) as Hout. cbn [w0 w_out app] in Hout. fold w0 in Hout.
  pose proof (scan_len ws l 0 pre e Hs) as Hlen.
  destruct ret as [er|].
  - eexists. eexists. split; [reflexivity|]. unfold inv_spec. cbn [v_name v_attrs v_seen v_hw v_auto v_ret].
    fold a'. fold id. rewrite Hout.
    split; [reflexivity|]. split; [reflexivity|]. split; [exists k; reflexivity|].
    split; [intro H; discriminate|]. split; [destruct er; discriminate|]. split; [intros _; discriminate|].
    intros _; reflexivity.
  - fold a'. set (from := attr_get s_from a').
    assert (Hw : is_iq n && needs_resp typ && negb (w_wrote (enc_all id hw w0)) = wanted n a' hw) by reflexivity.
    rewrite Hw.
    destruct ((if wanted n a' hw && negb (is_nil from) then c_jp c from else Some [])) as [j|] eqn:Eto.
    + destruct (c_oclosed c && (wanted n a' hw || negb (is_nil (w_out (enc_all id hw w0))))) eqn:Eoc.
      { eexists. eexists. split; [reflexivity|]. unfold inv_spec.
        cbn [v_name v_attrs v_seen v_hw v_auto v_ret]. fold a'. fold id. rewrite Hout.
        split; [reflexivity|]. split; [reflexivity|]. split; [exists k; reflexivity|].
        split; [intro H; discriminate|]. split; [discriminate|]. split; [intros _; discriminate|].
        intros _; reflexivity. }
      assert (Hf : length (skipn k pre) < fuel) by (pose proof (skipn_len k pre); lia).
      destruct (drain_spec ws pd fuel (skipn k pre) e s2 R2 Hf) as [s3 [Ed R3]].
      rewrite Ed. eexists. eexists. split; [reflexivity|]. unfold inv_spec.
      cbn [v_name v_attrs v_seen v_hw v_auto v_ret]. fold a'. fold id. fold from. rewrite Hout.
      split; [reflexivity|]. split; [reflexivity|]. split; [exists k; reflexivity|].
      split; [|split; [|split]].
      * intro Hn. assert (Ht : term_of ws e = EEOF) by (destruct (term_of ws e); try discriminate; reflexivity).
        split; [exact Ht|]. split.
        -- intros rest ->. apply (R_fin_inv ws pd rest s3 R3).
        -- exists j. split; [|split].
           ++ intros Hwant Hfrom. rewrite Hwant in Eto. destruct from; [congruence|]. exact Eto.
           ++ intros [Hwant|Hfrom].
              ** rewrite Hwant in Eto. cbn in Eto. congruence.
              ** rewrite Hfrom in Eto. cbn in Eto. rewrite andb_false_r in Eto. congruence.
           ++ reflexivity.
      * destruct (term_of ws e); discriminate.
      * intro Ht. destruct (term_of ws e); try discriminate; congruence.
      * intro Hw'. rewrite Hw'. reflexivity.
    + eexists. eexists. split; [reflexivity|]. unfold inv_spec.
      cbn [v_name v_attrs v_seen v_hw v_auto v_ret]. fold a'. fold id. rewrite Hout.
      split; [reflexivity|]. split; [reflexivity|]. split; [exists k; reflexivity|].
      split; [intro H; discriminate|]. split; [discriminate|]. split; [intros _; discriminate|].
      intros _; reflexivity.
Qed.
End His.

(* ---- the serve loop ---- *)

Section Serve.
Variable c : cfg.
Notation ws := (c_ws c).

Lemma his_top fuel hf l e : top_err ws l = Some e ->
  exists p', his c fuel hf (mkp l 0%N false) = (HREnd e, p').
Proof.
  intro H. unfold his, i_token, rc_token, p_token. cbn [r_closed r_p p_poison p_toks p_depth].
  destruct l as [|t r]; cbn [top_err] in H.
  - inversion H; subst. eexists. reflexivity.
  - destruct t as [n a|n|b|k b].
    + destruct (clean ws (TStart n a)) eqn:Hc; [discriminate|]. inversion H; subst. clear H.
      cbn [clean] in Hc. unfold sr_classify, top_dirty_err, dirty_err. rewrite ws_ends_top.
      destruct (ws && bytes_eqb (nspace n) sv_ns_framing) eqn:Ef;
      destruct (bytes_eqb (nspace n) sv_ns_stream) eqn:Es;
      cbn [negb andb] in Hc; try discriminate Hc; cbn [negb andb].
      * unfold in_list, sv_ws_eof_locals; cbn [existsb].
        match goal with |- context [bytes_eqb (nlocal n) ?x || false] => destruct (bytes_eqb (nlocal n) x) end;
        eexists; reflexivity.
      * unfold in_list, sv_ws_eof_locals; cbn [existsb].
        match goal with |- context [bytes_eqb (nlocal n) ?x || false] => destruct (bytes_eqb (nlocal n) x) end;
        eexists; reflexivity.
      * destruct (bytes_eqb (nlocal n) s_error); [eexists; reflexivity|].
        destruct (bytes_eqb (nlocal n) s_stream); eexists; reflexivity.
    + unfold sr_classify, dirty_err. cbn [clean] in H.
      destruct (bytes_eqb (nspace n) sv_ns_stream) eqn:Es; cbn [negb] in H |- *.
      * inversion H; subst. destruct (bytes_eqb (nlocal n) s_stream); eexists; reflexivity.
      * inversion H; subst. cbn [r_idepth r_closed r_count r_ecerr r_p set_idepth]. rewrite Es. cbn [negb].
        eexists; reflexivity.
    + unfold sr_classify. cbn [N.eqb andb]. destruct (is_ws b) eqn:Eb; [discriminate|].
      inversion H; subst. cbn [negb]. eexists; reflexivity.
    + inversion H; subst. unfold sr_classify, dirty_err. destruct k as [|[|k]]; eexists; reflexivity.
Qed.

Lemma his_ws fuel hf b l : is_ws b = true ->
  his c fuel hf (mkp (TChar b :: l) 0%N false) = (HRSkip, mkp l 0%N false).
Proof.
  intro H. unfold his, i_token, rc_token, p_token. cbn [r_closed r_p p_poison p_toks p_depth].
  unfold sr_classify. rewrite H. cbn [negb andb N.eqb].
  cbn [r_idepth r_closed r_count r_ecerr r_p set_idepth]. rewrite H. cbn [negb andb N.eqb]. reflexivity.
Qed.

Lemma scan_rest_len : forall l c pre rest, scan ws c l = (pre, SEComplete rest) -> length rest < length l.
Proof.
  induction l as [|t r IH]; intros c0 pre rest H; cbn [scan] in H; [inversion H|].
  destruct (clean ws t); [|inversion H].
  destruct t as [n a|n|b|k b].
  - destruct (scan ws (S c0) r) as [p1 e1] eqn:E. inversion H; subst. apply IH in E. cbn. lia.
  - destruct c0 as [|c'].
    + inversion H; subst. cbn. lia.
    + destruct (scan ws c' r) as [p1 e1] eqn:E. inversion H; subst. apply IH in E. cbn. lia.
  - destruct (scan ws c0 r) as [p1 e1] eqn:E. inversion H; subst. apply IH in E. cbn. lia.
  - destruct (scan ws c0 r) as [p1 e1] eqn:E. inversion H; subst. apply IH in E. cbn. lia.
Qed.

(* how the invocations and the result of Serve follow the script *)
Inductive follows : list token -> list inv -> option err -> Prop :=
| F_end l e : top_err ws l = Some e -> follows l [] (ret_of e)
| F_ws b l invs r : is_ws b = true -> follows l invs r -> follows (TChar b :: l) invs r
| F_stop n a l pre e v p' er :
    clean ws (TStart n a) = true -> scan ws 0 l = (pre, e) -> inv_spec c n a 0%N pre e v p' ->
    v_ret v = Some er -> follows (TStart n a :: l) [v] (Some (send_error er))
| F_go n a l pre rest v invs r :
    clean ws (TStart n a) = true -> scan ws 0 l = (pre, SEComplete rest) ->
    inv_spec c n a 0%N pre (SEComplete rest) v (mkp rest 0%N false) ->
    v_ret v = None -> follows rest invs r -> follows (TStart n a :: l) (v :: invs) r.

Definition not_stream (n : name) : Prop := bytes_eqb (nspace n) sv_ns_stream = false.

Lemma dirty_eof_is_end t r : dirty_err ws t r = EEOF -> exists n, t = TEnd n.
Proof.
  destruct t as [n a|n|b|k b]; cbn [dirty_err]; intro H.
  - destruct (ws && bytes_eqb (nspace n) sv_ns_framing); [discriminate|].
    destruct (bytes_eqb (nlocal n) s_error).
    + exfalso. clear -H. generalize dependent (@nil byte). generalize 0.
      induction r as [|t r IH]; intros d cond H; cbn [se_scan] in H; [discriminate|].
      destruct d.
      * destruct t as [n a|n|b|k b]; try discriminate; try (eapply IH; exact H).
        destruct (bytes_eqb (nspace n) sv_ns_stream_error); eapply IH; exact H.
      * destruct t; eapply IH; exact H.
    + destruct (bytes_eqb (nlocal n) s_stream); discriminate.
  - eexists; reflexivity.
  - discriminate.
  - destruct k as [|[|k]]; discriminate.
Qed.

Lemma scan_dirty_not_eof : forall l c0 inner base pre t r,
  ends_match (inner ++ base) l = true -> length inner = S c0 -> Forall not_stream inner ->
  scan ws c0 l = (pre, SEDirty t r) -> dirty_err ws t r <> EEOF.
Proof.
  induction l as [|t0 r0 IH]; intros c0 inner base pre t r Hm Hl Hf Hs; cbn [scan] in Hs; [inversion Hs|].
  destruct (clean ws t0) eqn:Hc.
  - destruct t0 as [n a|n|b|k b]; cbn [ends_match] in Hm.
    + destruct (scan ws (S c0) r0) as [p1 e1] eqn:E. inversion Hs; subst.
      apply (IH (S c0) (n :: inner) base p1 t r); [exact Hm|cbn; lia| |exact E].
      constructor; [|exact Hf]. cbn [clean] in Hc. apply andb_true_iff in Hc. destruct Hc as [H1 _].
      apply negb_true_iff in H1. exact H1.
    + destruct c0 as [|c']; [inversion Hs|].
      destruct (scan ws c' r0) as [p1 e1] eqn:E. inversion Hs; subst.
      destruct inner as [|m inner']; [cbn in Hl; lia|]. cbn [app] in Hm.
      apply andb_true_iff in Hm. destruct Hm as [_ Hm].
      apply (IH c' inner' base p1 t r); [exact Hm|cbn in Hl; lia|inversion Hf; assumption|exact E].
    + destruct (scan ws c0 r0) as [p1 e1] eqn:E. inversion Hs; subst.
      apply (IH c0 inner base p1 t r); assumption.
    + cbn in Hc. discriminate.
  - inversion Hs; subst. intro Heq. destruct (dirty_eof_is_end t r Heq) as [n ->].
    cbn [ends_match] in Hm. destruct inner as [|m inner']; [cbn in Hl; lia|]. cbn [app] in Hm.
    apply andb_true_iff in Hm. destruct Hm as [Hn _]. apply name_eqb_eq in Hn. subst m.
    inversion Hf as [|x y Hx Hy]; subst. unfold not_stream in Hx.
    cbn [clean] in Hc. rewrite Hx in Hc. discriminate.
Qed.

Lemma ends_match_rest : forall l c0 inner base pre rest,
  ends_match (inner ++ base) l = true -> length inner = S c0 ->
  scan ws c0 l = (pre, SEComplete rest) -> ends_match base rest = true.
Proof.
  induction l as [|t0 r0 IH]; intros c0 inner base pre rest Hm Hl Hs; cbn [scan] in Hs; [inversion Hs|].
  destruct (clean ws t0) eqn:Hc; [|inversion Hs].
  destruct t0 as [n a|n|b|k b]; cbn [ends_match] in Hm.
  - destruct (scan ws (S c0) r0) as [p1 e1] eqn:E. inversion Hs; subst.
    apply (IH (S c0) (n :: inner) base p1 rest); [exact Hm|cbn; lia|exact E].
  - destruct inner as [|m inner']; [cbn in Hl; lia|]. cbn [app] in Hm.
    apply andb_true_iff in Hm. destruct Hm as [_ Hm].
    destruct c0 as [|c'].
    + inversion Hs; subst. destruct inner'; [exact Hm|cbn in Hl; lia].
    + destruct (scan ws c' r0) as [p1 e1] eqn:E. inversion Hs; subst.
      apply (IH c' inner' base p1 rest); [exact Hm|cbn in Hl; lia|exact E].
  - destruct (scan ws c0 r0) as [p1 e1] eqn:E. inversion Hs; subst.
    apply (IH c0 inner base p1 rest); assumption.
  - cbn in Hc. discriminate.
Qed.

Lemma serve_follows hf : forall fuel idx l base,
  ends_match base l = true -> length l < fuel ->
  let r := serve c fuel hf idx (mkp l 0%N false) in follows l (s_invs r) (s_ret r).
Proof.
  induction fuel as [|f IH]; intros idx l base Hm Hl; [lia|].
  cbn [serve p_toks]. cbv zeta.
  destruct (top_err ws l) as [e|] eqn:Et.
  - destruct (his_top (S (length l)) (hf idx) l e Et) as [p' E]. rewrite E.
    destruct e; cbn [s_invs s_ret]; apply (F_end l _ Et).
  - destruct l as [|t r]; [cbn in Et; discriminate|].
    destruct t as [n a|n|b|k b]; cbn [top_err] in Et.
    + destruct (clean ws (TStart n a)) eqn:Hc; [|discriminate].
      destruct (scan ws 0 r) as [pre e] eqn:Hs.
      assert (Hfu : length r < S (length (TStart n a :: r))) by (cbn; lia).
      destruct (his_elem c (S (length (TStart n a :: r))) (hf idx) 0%N n a r pre e Hc Hs Hfu) as [v [p' [E Hv]]].
      rewrite E. destruct (v_ret v) as [er|] eqn:Er.
      * cbn [s_invs s_ret]. eapply F_stop; eassumption.
      * pose proof Hv as Hv'. destruct Hv' as [_ [_ [_ [H4 [_ [H6 _]]]]]].
        destruct (H4 Er) as [Ht [Hrest _]].
        assert (Hn : not_stream n).
        { cbn [clean] in Hc. apply andb_true_iff in Hc. destruct Hc as [H1 _]. apply negb_true_iff in H1. exact H1. }
        cbn [ends_match] in Hm.
        destruct e as [rest|t r'|].
        -- pose proof (Hrest rest eq_refl) as Hp. subst p'.
           cbn [s_invs s_ret]. eapply F_go; try eassumption.
           apply (IH (S idx) rest base).
           ++ apply (ends_match_rest r 0 [n] base pre rest); [exact Hm|reflexivity|exact Hs].
           ++ pose proof (scan_rest_len r 0 pre rest Hs). cbn in Hl. lia.
        -- exfalso. apply (scan_dirty_not_eof r 0 [n] base pre t r' Hm eq_refl); [constructor; [exact Hn|constructor]|exact Hs|exact Ht].
        -- cbn in Ht. discriminate.
    + destruct (clean ws (TEnd n)); discriminate.
    + destruct (is_ws b) eqn:Eb; [|discriminate].
      rewrite (his_ws _ _ b r Eb). apply F_ws; [exact Eb|].
      apply (IH idx r base); [exact Hm|cbn in Hl; lia].
    + discriminate.
Qed.

End Serve.

(* ---- scan against plain depth counting ---- *)

Lemma scan_split ws : forall l c pre e, scan ws c l = (pre, e) ->
  Forall (fun t => clean ws t = true) pre /\
  match e with
  | SEComplete rest => l = pre ++ rest /\ elem_body c l = Some (pre, rest)
  | SEDirty t r => l = pre ++ t :: r /\ clean ws t = false
  | SETrunc => l = pre /\ elem_body c l = None
  end.
Proof.
  induction l as [|t r IH]; intros c pre e H; cbn [scan] in H.
  - inversion H; subst. split; [constructor|]. split; reflexivity.
  - destruct (clean ws t) eqn:Hc.
    + destruct t as [n a|n|b|k b].
      * destruct (scan ws (S c) r) as [p1 e1] eqn:E. inversion H; subst. destruct (IH _ _ _ E) as [F1 F2].
        split; [constructor; assumption|]. cbn [elem_body].
        destruct e as [rest|t' r'|].
        -- destruct F2 as [-> ->]. split; reflexivity.
        -- destruct F2 as [-> F3]. split; [reflexivity|exact F3].
        -- destruct F2 as [-> ->]. split; reflexivity.
      * destruct c as [|c'].
        -- inversion H; subst. split; [constructor; [assumption|constructor]|]. split; reflexivity.
        -- destruct (scan ws c' r) as [p1 e1] eqn:E. inversion H; subst. destruct (IH _ _ _ E) as [F1 F2].
           split; [constructor; assumption|]. cbn [elem_body].
           destruct e as [rest|t' r'|].
           ++ destruct F2 as [-> ->]. split; reflexivity.
           ++ destruct F2 as [-> F3]. split; [reflexivity|exact F3].
           ++ destruct F2 as [-> ->]. split; reflexivity.
      * destruct (scan ws c r) as [p1 e1] eqn:E. inversion H; subst. destruct (IH _ _ _ E) as [F1 F2].
        split; [constructor; assumption|]. cbn [elem_body].
        destruct e as [rest|t' r'|].
        -- destruct F2 as [-> ->]. split; reflexivity.
        -- destruct F2 as [-> F3]. split; [reflexivity|exact F3].
        -- destruct F2 as [-> ->]. split; reflexivity.
      * cbn in Hc. discriminate.
    + inversion H; subst. split; [constructor|]. split; [reflexivity|exact Hc].
Qed.

(* an element without stream-level constructs is readable to its end tag, exactly *)
Lemma scan_of_body ws : forall l c b rest, elem_body c l = Some (b, rest) ->
  Forall (fun t => clean ws t = true) b -> scan ws c l = (b, SEComplete rest).
Proof.
  induction l as [|t r IH]; intros c b rest H Hf; cbn [elem_body] in H; [discriminate|].
  destruct t as [n a|n|bb|k bb].
  - destruct (elem_body (S c) r) as [[b1 r1]|] eqn:E; [|discriminate]. inversion H; subst.
    inversion Hf as [|x y Hx Hy]; subst. cbn [scan]. rewrite Hx. rewrite (IH _ _ _ E Hy). reflexivity.
  - destruct c as [|c'].
    + inversion H; subst. inversion Hf as [|x y Hx Hy]; subst. cbn [scan]. rewrite Hx. reflexivity.
    + destruct (elem_body c' r) as [[b1 r1]|] eqn:E; [|discriminate]. inversion H; subst.
      inversion Hf as [|x y Hx Hy]; subst. cbn [scan]. rewrite Hx. rewrite (IH _ _ _ E Hy). reflexivity.
  - destruct (elem_body c r) as [[b1 r1]|] eqn:E; [|discriminate]. inversion H; subst.
    inversion Hf as [|x y Hx Hy]; subst. cbn [scan]. rewrite Hx. rewrite (IH _ _ _ E Hy). reflexivity.
  - destruct (elem_body c r) as [[b1 r1]|] eqn:E; [|discriminate]. inversion H; subst.
    inversion Hf as [|x y Hx Hy]; subst. cbn in Hx. discriminate.
Qed.

(* the view never holds anything but the readable tokens, in order, then the same error for ever *)
Lemma view_tokens : forall k pre term t e, In (Some t, e) (view k pre term) -> In t pre /\ e = None.
Proof.
  induction k as [|k IH]; intros pre term t e H; cbn [view] in H; [destruct H|].
  destruct pre as [|x pre'].
  - destruct H as [H|H]; [inversion H|]. destruct (IH _ _ _ _ H) as [[] _].
  - destruct H as [H|H].
    + unfold ok_res in H. inversion H; subst. split; [left; reflexivity|reflexivity].
    + destruct (IH _ _ _ _ H) as [H1 H2]. split; [right; exact H1|exact H2].
Qed.

Lemma view_short : forall k pre term, k <= length pre -> view k pre term = map ok_res (firstn k pre).
Proof.
  induction k as [|k IH]; intros pre term H; [reflexivity|].
  destruct pre as [|x pre']; [cbn in H; lia|]. cbn [view firstn map]. rewrite IH; [reflexivity|cbn in H; lia].
Qed.

Lemma view_long : forall k pre term, length pre <= k ->
  view k pre term = map ok_res pre ++ repeat (None, Some term) (k - length pre).
Proof.
  induction k as [|k IH]; intros pre term H.
  - destruct pre; [reflexivity|cbn in H; lia].
  - destruct pre as [|x pre'].
    + cbn [view length map app]. rewrite (IH [] term); [|cbn; lia]. cbn [length map app].
      replace (S k - 0) with (S (k - 0)) by lia. reflexivity.
    + cbn [view length map app]. rewrite IH; [|cbn in H; lia]. reflexivity.
Qed.


(* ---- from normalisation ---- *)

Definition is_from (x : attr) : bool := is_nil (nspace (aname x)) && bytes_eqb (nlocal (aname x)) s_from.

(* attribute for attribute: same name; same value, except that the first unqualified from
   is emptied when it is the session's own bare address *)
Lemma norm_from_spec own : forall a,
  Forall2 (fun x y => aname y = aname x /\ (aval y = aval x \/ (is_from x = true /\ aval x = own /\ aval y = [])))
          a (norm_from own a).
Proof.
  induction a as [|x a IH]; cbn [norm_from]; [constructor|].
  destruct (is_nil (nspace (aname x)) && bytes_eqb (nlocal (aname x)) s_from) eqn:E.
  - constructor.
    + destruct (bytes_eqb (aval x) own) eqn:Eo.
      * cbn. split; [reflexivity|]. right. apply bytes_eqb_eq in Eo. auto.
      * split; [reflexivity|left; reflexivity].
    + clear. induction a; constructor; auto.
  - constructor; [split; [reflexivity|left; reflexivity]|exact IH].
Qed.

Lemma norm_from_get own : forall a,
  attr_get s_from (norm_from own a) = if bytes_eqb (attr_get s_from a) own then [] else attr_get s_from a.
Proof.
  induction a as [|x a IH]; cbn [norm_from attr_get].
  - destruct (bytes_eqb [] own); reflexivity.
  - destruct (is_nil (nspace (aname x)) && bytes_eqb (nlocal (aname x)) s_from) eqn:E.
    + destruct (bytes_eqb (aval x) own) eqn:Eo; cbn [attr_get aname aval]; rewrite E; reflexivity.
    + cbn [attr_get]. rewrite E. exact IH.
Qed.

(* normalisation does not touch id and type *)
Lemma norm_from_id_typ own : forall a id typ fi ft,
  get_id_typ_from (norm_from own a) id typ fi ft = get_id_typ_from a id typ fi ft.
Proof.
  induction a as [|x a IH]; intros id typ fi ft; cbn [norm_from]; [reflexivity|].
  destruct (is_nil (nspace (aname x)) && bytes_eqb (nlocal (aname x)) s_from) eqn:E.
  - destruct (bytes_eqb (aval x) own); [|reflexivity].
    apply andb_true_iff in E. destruct E as [E1 E2]. apply bytes_eqb_eq in E2.
    cbn [get_id_typ_from aname aval]. rewrite E1. cbn [negb]. rewrite E2.
    replace (bytes_eqb s_from s_id) with false by reflexivity.
    replace (bytes_eqb s_from s_type) with false by reflexivity. reflexivity.
  - cbn [get_id_typ_from]. destruct (negb (is_nil (nspace (aname x)))); [apply IH|].
    destruct ((fi || bytes_eqb (nlocal (aname x)) s_id) && (ft || bytes_eqb (nlocal (aname x)) s_type)); [reflexivity|apply IH].
Qed.

(* ---- a well-formed stream error ---- *)

(* <stream:error><cond xmlns='urn:ietf:params:xml:ns:xmpp-streams'/></stream:error>: the condition is read *)
Lemma se_scan_simple cond a n1 n2 rest :
  bytes_eqb cond s_text = false ->
  se_scan 0 [] (TStart (mkname sv_ns_stream_error cond) a :: TEnd n1 :: TEnd n2 :: rest) = EStreamErr cond.
Proof.
  intro H. cbn [se_scan nspace nlocal].
  replace (bytes_eqb sv_ns_stream_error sv_ns_stream_error) with true by reflexivity.
  rewrite H. reflexivity.
Qed.

Lemma se_scan_never_eof : forall l d cond, se_scan d cond l <> EEOF /\ se_scan d cond l <> EPoison /\ se_scan d cond l <> EFuel.
Proof.
  induction l as [|t r IH]; intros d cond; cbn [se_scan]; [repeat split; discriminate|].
  destruct d.
  - destruct t as [n a|n|b|k b]; try apply IH; [|repeat split; discriminate].
    destruct (bytes_eqb (nspace n) sv_ns_stream_error); apply IH.
  - destruct t; apply IH.
Qed.

(* the distinguished model-only errors never come out of the reader stack *)
Lemma term_of_real ws e : term_of ws e <> EPoison /\ term_of ws e <> EFuel.
Proof.
  destruct e as [rest|t r|]; cbn [term_of]; try (split; discriminate).
  destruct t as [n a|n|b|k b]; cbn [dirty_err].
  - destruct (ws && bytes_eqb (nspace n) sv_ns_framing); [split; discriminate|].
    destruct (bytes_eqb (nlocal n) s_error); [destruct (se_scan_never_eof r 0 []) as [_ [? ?]]; split; assumption|].
    destruct (bytes_eqb (nlocal n) s_stream); split; discriminate.
  - destruct (bytes_eqb (nlocal n) s_stream); split; discriminate.
  - split; discriminate.
  - destruct k as [|[|k]]; split; discriminate.
Qed.

(* ---- how Serve ends at a stream-level construct between elements ---- *)

Lemma serve_top c hf fuel idx l e : top_err (c_ws c) l = Some e -> 0 < fuel ->
  s_invs (serve c fuel hf idx (mkp l 0%N false)) = [] /\
  s_ret (serve c fuel hf idx (mkp l 0%N false)) = ret_of e.
Proof.
  intros Ht Hf. destruct fuel as [|f]; [lia|]. cbn [serve p_toks].
  destruct (his_top c (S (length l)) (hf idx) l e Ht) as [p' E]. rewrite E.
  destruct e; cbn [s_invs s_ret ret_of]; split; reflexivity.
Qed.

(* ---- the clauses of C08 as they are stated in Properties.v ---- *)

Lemma c08_view c fuel hf pd n a l pre e :
  clean (c_ws c) (TStart n a) = true -> scan (c_ws c) 0 l = (pre, e) -> length l < fuel ->
  exists v p', his c fuel hf (mkp (TStart n a :: l) pd false) = (HRInv v, p') /\
    (exists k, v_seen v = view k pre (term_of (c_ws c) e)) /\
    (forall t x, In (Some t, x) (v_seen v) -> In t pre /\ x = None).
Proof.
  intros Hc Hs Hl. destruct (his_elem c fuel hf pd n a l pre e Hc Hs Hl) as [v [p' [E Hv]]].
  exists v, p'. split; [exact E|]. destruct Hv as [_ [_ [[k Hk] _]]].
  split; [exists k; exact Hk|]. intros t x Hin. rewrite Hk in Hin. apply (view_tokens _ _ _ _ _ Hin).
Qed.

Lemma c08_resync c fuel hf pd n a l pre e :
  clean (c_ws c) (TStart n a) = true -> scan (c_ws c) 0 l = (pre, e) -> length l < fuel ->
  exists v p', his c fuel hf (mkp (TStart n a :: l) pd false) = (HRInv v, p') /\
    (forall rest, e = SEComplete rest -> v_ret v = None -> p' = mkp rest pd false) /\
    (term_of (c_ws c) e <> EEOF -> v_ret v <> None) /\
    v_ret v <> Some EEOF.
Proof.
  intros Hc Hs Hl. destruct (his_elem c fuel hf pd n a l pre e Hc Hs Hl) as [v [p' [E Hv]]].
  exists v, p'. split; [exact E|]. destruct Hv as [_ [_ [_ [H4 [H5 [H6 _]]]]]].
  split; [|split; assumption]. intros rest He Hr. destruct (H4 Hr) as [_ [H _]]. apply H. exact He.
Qed.

Lemma c08_from c fuel hf pd n a l :
  clean (c_ws c) (TStart n a) = true -> length l < fuel ->
  exists v p', his c fuel hf (mkp (TStart n a :: l) pd false) = (HRInv v, p') /\
    v_name v = n /\ v_attrs v = (if stanza_is n (c_ns c) then norm_from (c_own c) a else a).
Proof.
  intros Hc Hl. destruct (scan (c_ws c) 0 l) as [pre e] eqn:Hs.
  destruct (his_elem c fuel hf pd n a l pre e Hc Hs Hl) as [v [p' [E Hv]]].
  exists v, p'. split; [exact E|]. destruct Hv as [H1 [H2 _]]. split; assumption.
Qed.

(* a stream-level construct inside an element: whatever the handler does, the invocation fails *)
Lemma c08_nested_fatal c fuel hf pd n a l pre t r base :
  clean (c_ws c) (TStart n a) = true -> scan (c_ws c) 0 l = (pre, SEDirty t r) -> length l < fuel ->
  ends_match (n :: base) l = true ->
  exists v p', his c fuel hf (mkp (TStart n a :: l) pd false) = (HRInv v, p') /\ v_ret v <> None /\
    (forall tk x, In (Some tk, x) (v_seen v) -> clean (c_ws c) tk = true).
Proof.
  intros Hc Hs Hl Hm. destruct (his_elem c fuel hf pd n a l pre _ Hc Hs Hl) as [v [p' [E Hv]]].
  exists v, p'. split; [exact E|]. destruct Hv as [_ [_ [[k Hk] [_ [_ [H6 _]]]]]]. split.
  - apply H6. cbn [term_of].
    apply (scan_dirty_not_eof c l 0 [n] base pre t r Hm eq_refl); [|exact Hs].
    constructor; [|constructor]. cbn [clean] in Hc. apply andb_true_iff in Hc. destruct Hc as [H1 _].
    apply negb_true_iff in H1. exact H1.
  - intros tk x Hin. rewrite Hk in Hin. destruct (view_tokens _ _ _ _ _ Hin) as [Hp _].
    destruct (scan_split (c_ws c) l 0 pre _ Hs) as [Hf _].
    rewrite Forall_forall in Hf. apply Hf. exact Hp.
Qed.

Lemma c08_serve_follows c hf toks base :
  ends_match base toks = true ->
  follows c toks (s_invs (serve_all c hf toks)) (s_ret (serve_all c hf toks)).
Proof. intro Hm. unfold serve_all. apply (serve_follows c hf (S (length toks)) 0 toks base Hm). lia. Qed.

Lemma c08_top c hf toks e : top_err (c_ws c) toks = Some e ->
  s_invs (serve_all c hf toks) = [] /\ s_ret (serve_all c hf toks) = ret_of e.
Proof. intro H. unfold serve_all. apply serve_top; [exact H|lia]. Qed.

(* the received stream error is Serve's return value *)
Lemma c08_stream_error_returned c hf cond a a1 n1 n2 rest :
  bytes_eqb cond s_text = false ->
  let toks := TStart (mkname sv_ns_stream s_error) a
              :: TStart (mkname sv_ns_stream_error cond) a1 :: TEnd n1 :: TEnd n2 :: rest in
  s_invs (serve_all c hf toks) = [] /\ s_ret (serve_all c hf toks) = Some (EStreamErr cond).
Proof.
  intros Ht toks.
  assert (H : top_err (c_ws c) toks = Some (EStreamErr cond)).
  { unfold toks. cbn [top_err clean nspace].
    replace (bytes_eqb sv_ns_stream sv_ns_stream) with true by reflexivity. cbn [negb andb].
    unfold top_dirty_err, dirty_err. cbn [nspace nlocal].
    replace (bytes_eqb sv_ns_stream sv_ns_framing) with false by reflexivity. rewrite !andb_false_r. cbn [andb].
    replace (bytes_eqb s_error s_error) with true by reflexivity.
    rewrite (se_scan_simple cond a1 n1 n2 rest Ht). reflexivity. }
  destruct (c08_top c hf toks _ H) as [E1 E2]. split; [exact E1|]. rewrite E2.
  reflexivity.
Qed.

Lemma c08_close c hf n rest :
  bytes_eqb (nspace n) sv_ns_stream = true -> bytes_eqb (nlocal n) s_stream = true ->
  s_invs (serve_all c hf (TEnd n :: rest)) = [] /\ s_ret (serve_all c hf (TEnd n :: rest)) = None.
Proof.
  intros H1 H2.
  assert (H : top_err (c_ws c) (TEnd n :: rest) = Some EEOF).
  { cbn [top_err clean]. rewrite H1. cbn [negb]. unfold dirty_err. rewrite H2. reflexivity. }
  apply (c08_top c hf _ _ H).
Qed.

(* WebSocket framing: the peer's top-level <close/> ends Serve like </stream:stream> *)
Lemma c08_ws_close c hf n a rest :
  c_ws c = true -> bytes_eqb (nspace n) sv_ns_framing = true -> nlocal n = str "close" ->
  s_invs (serve_all c hf (TStart n a :: rest)) = [] /\ s_ret (serve_all c hf (TStart n a :: rest)) = None.
Proof.
  intros Hw Hf Hl.
  assert (H : top_err (c_ws c) (TStart n a :: rest) = Some EEOF).
  { cbn [top_err clean]. rewrite Hw, Hf. cbn [andb negb]. rewrite andb_false_r.
    unfold top_dirty_err. rewrite Hf, Hl. destruct tbl_ws_close as [-> _]. reflexivity. }
  apply (c08_top c hf _ _ H).
Qed.

(* any other framing element (<open/>) on an established stream ends it with an error *)
Lemma c08_ws_restart c hf n a rest :
  c_ws c = true -> bytes_eqb (nspace n) sv_ns_framing = true -> in_list (nlocal n) sv_ws_eof_locals = false ->
  s_invs (serve_all c hf (TStart n a :: rest)) = [] /\ s_ret (serve_all c hf (TStart n a :: rest)) = Some ERestart.
Proof.
  intros Hw Hf Hl.
  assert (H : top_err (c_ws c) (TStart n a :: rest) = Some ERestart).
  { cbn [top_err clean]. rewrite Hw, Hf. cbn [andb negb]. rewrite andb_false_r.
    unfold top_dirty_err, dirty_err. rewrite Hf, Hl. reflexivity. }
  apply (c08_top c hf _ _ H).
Qed.

(* inside an element every framing element, <close/> included, is a stream-level
   construct whose error is the unexpected restart, never the end of the input *)
Lemma c08_ws_nested ws n a r :
  ws && bytes_eqb (nspace n) sv_ns_framing = true ->
  clean ws (TStart n a) = false /\ dirty_err ws (TStart n a) r = ERestart.
Proof.
  intro H. split.
  - cbn [clean]. rewrite H. apply andb_false_r.
  - unfold dirty_err. rewrite H. reflexivity.
Qed.

(* a stream error without a defined condition is returned as such too *)
Lemma c08_stream_error_no_condition c hf a n2 rest :
  let toks := TStart (mkname sv_ns_stream s_error) a :: TEnd n2 :: rest in
  s_invs (serve_all c hf toks) = [] /\ s_ret (serve_all c hf toks) = Some (EStreamErr []).
Proof.
  intro toks.
  assert (H : top_err (c_ws c) toks = Some (EStreamErr [])).
  { unfold toks. cbn [top_err clean nspace].
    replace (bytes_eqb sv_ns_stream sv_ns_stream) with true by reflexivity. cbn [negb andb].
    unfold top_dirty_err, dirty_err. cbn [nspace nlocal].
    replace (bytes_eqb sv_ns_stream sv_ns_framing) with false by reflexivity. rewrite !andb_false_r. cbn [andb].
    replace (bytes_eqb s_error s_error) with true by reflexivity. reflexivity. }
  destruct (c08_top c hf toks _ H) as [E1 E2]. split; [exact E1|]. rewrite E2. reflexivity.
Qed.

(* ---- Serve returns nil exactly when the peer closed the stream ---- *)

Section Nil.
Variable c : cfg.
Notation ws := (c_ws c).

(* the script leads to the peer's close: keep-alives and complete clean elements, then the closing tag *)
Inductive reaches_close : list token -> Prop :=
| RC_end l : top_err ws l = Some EEOF -> reaches_close l
| RC_ws b l : is_ws b = true -> reaches_close l -> reaches_close (TChar b :: l)
| RC_elem n a l pre rest : clean ws (TStart n a) = true -> scan ws 0 l = (pre, SEComplete rest) ->
    reaches_close rest -> reaches_close (TStart n a :: l).

Lemma ret_of_none e : ret_of e = None -> e = EEOF.
Proof. destruct e; cbn; intro H; try discriminate; reflexivity. Qed.

Lemma follows_nil l invs : follows c l invs None ->
  reaches_close l /\ Forall (fun v => v_ret v = None) invs.
Proof.
  intro H. remember (@None err) as r eqn:Hr. revert Hr.
  induction H as [l e Ht|b l invs r Hb Hf IH|n a l pre e v p' er Hc Hs Hv Her|n a l pre rest v invs r Hc Hs Hv Her Hf IH]; intro Hr.
  - apply ret_of_none in Hr. subst e. split; [apply RC_end; exact Ht|constructor].
  - subst r. destruct (IH eq_refl) as [I1 I2]. split; [apply RC_ws; assumption|exact I2].
  - discriminate.
  - subst r. destruct (IH eq_refl) as [I1 I2]. split; [eapply RC_elem; eauto|constructor; auto].
Qed.

Lemma follows_nil_conv l invs r : follows c l invs r ->
  reaches_close l -> Forall (fun v => v_ret v = None) invs -> r = None.
Proof.
  induction 1 as [l e Ht|b l invs r Hb Hf IH|n a l pre e v p' er Hc Hs Hv Her|n a l pre rest v invs r Hc Hs Hv Her Hf IH];
    intros Hrc Hall.
  - inversion Hrc as [l0 Ht0|b l0 Hb Hr0|n a l0 pre rest Hc Hs Hr0]; subst.
    + rewrite Ht in Ht0. inversion Ht0; subst. reflexivity.
    + cbn [top_err] in Ht. rewrite Hb in Ht. discriminate.
    + cbn [top_err] in Ht. rewrite Hc in Ht. discriminate.
  - inversion Hrc as [l0 Ht0|b0 l0 Hb0 Hr0|n a l0 pre rest Hc Hs Hr0]; subst.
    + cbn [top_err] in Ht0. rewrite Hb in Ht0. discriminate.
    + apply IH; assumption.
  - inversion Hall as [|x y Hx Hy]; subst. congruence.
  - inversion Hall as [|x y Hx Hy]; subst.
    inversion Hrc as [l0 Ht0|b0 l0 Hb0 Hr0|n0 a0 l0 pre0 rest0 Hc0 Hs0 Hr0]; subst.
    + cbn [top_err] in Ht0. rewrite Hc in Ht0. discriminate.
    + rewrite Hs in Hs0. inversion Hs0; subst. apply IH; assumption.
Qed.

(* what reads as the peer's close between elements: </stream:stream>, or on a
   WebSocket stream a framing element whose name ends the input (<close/>) *)
Lemma top_err_eof l : top_err ws l = Some EEOF ->
  (exists n r, l = TEnd n :: r /\ bytes_eqb (nspace n) sv_ns_stream = true /\ bytes_eqb (nlocal n) s_stream = true) \/
  (exists n a r, l = TStart n a :: r /\ ws = true /\ bytes_eqb (nspace n) sv_ns_framing = true /\
                 in_list (nlocal n) sv_ws_eof_locals = true).
Proof.
  destruct l as [|t r]; cbn [top_err]; [discriminate|].
  destruct t as [n a|n|b|k b].
  - destruct (clean ws (TStart n a)); [discriminate|]. unfold top_dirty_err.
    destruct (ws && bytes_eqb (nspace n) sv_ns_framing && in_list (nlocal n) sv_ws_eof_locals) eqn:E.
    + intros _. right. apply andb_true_iff in E. destruct E as [E E3]. apply andb_true_iff in E. destruct E as [E1 E2].
      exists n, a, r. repeat split; assumption.
    + intro H. inversion H as [H1]. destruct (dirty_eof_is_end c (TStart n a) r H1) as [m Hm]. discriminate.
  - destruct (clean ws (TEnd n)) eqn:Hc; [discriminate|]. cbn [clean] in Hc. apply negb_false_iff in Hc.
    unfold dirty_err. destruct (bytes_eqb (nlocal n) s_stream) eqn:E; [|discriminate].
    intros _. left. exists n, r. repeat split; assumption.
  - destruct (is_ws b); discriminate.
  - intro H. inversion H as [H1]. destruct (dirty_eof_is_end c (TMisc k b) r H1) as [m Hm]. discriminate.
Qed.

End Nil.

Lemma c08_nil_iff_close c hf toks base : ends_match base toks = true ->
  (s_ret (serve_all c hf toks) = None <->
   reaches_close c toks /\ Forall (fun v => v_ret v = None) (s_invs (serve_all c hf toks))).
Proof.
  intro Hm. pose proof (c08_serve_follows c hf toks base Hm) as Hf. split.
  - intro Hr. rewrite Hr in Hf. apply (follows_nil c toks _ Hf).
  - intros [H1 H2]. apply (follows_nil_conv c toks _ _ Hf H1 H2).
Qed.

(* a handler that returns an error wrapping io.EOF: the invocation fails with that error *)
Lemma c08_wrapped_eof c fuel hf pd n a l :
  clean (c_ws c) (TStart n a) = true -> length l < fuel -> (forall a', hf n a' = HRet (Some EWrapEOF)) ->
  exists v p', his c fuel hf (mkp (TStart n a :: l) pd false) = (HRInv v, p') /\ v_ret v = Some EWrapEOF.
Proof.
  intros Hc Hl Hh. unfold his. rewrite (i_token_start (c_ws c) pd n a l Hc). cbv beta iota.
  rewrite Hh. cbn [run_h finish_inv]. eexists. eexists. split; reflexivity.
Qed.

Lemma c08_scan_clean ws l c0 pre e : scan ws c0 l = (pre, e) -> Forall (fun t => clean ws t = true) pre.
Proof. intro H. apply (scan_split ws l c0 pre e H). Qed.

Lemma c08_readable :
  forall (ws : bool) (l : list token),
  (forall b rest, elem_body 0 l = Some (b, rest) -> Forall (fun t => clean ws t = true) b ->
                  scan ws 0 l = (b, SEComplete rest)) /\
  (forall pre rest, scan ws 0 l = (pre, SEComplete rest) -> l = pre ++ rest /\ elem_body 0 l = Some (pre, rest)) /\
  (forall pre t r, scan ws 0 l = (pre, SEDirty t r) -> l = pre ++ t :: r /\ clean ws t = false) /\
  (forall k pre term, k <= length pre -> view k pre term = map ok_res (firstn k pre)) /\
  (forall k pre term, length pre <= k ->
      view k pre term = map ok_res pre ++ repeat (None, Some term) (k - length pre)).
Proof.
  intros ws l. split; [intros b rest; apply scan_of_body|].
  split; [intros pre rest H; apply (scan_split ws l 0 pre _ H)|].
  split; [intros pre t r H; apply (scan_split ws l 0 pre _ H)|].
  split; [apply view_short|apply view_long].
Qed.
