(* C08/Examples.v — non-vacuity: concrete instances of the hypotheses of the C08
   theorems, and worked runs of the model (serveTests-like inputs). *)
From XV Require Import lib.Bytes lib.Xml gen.Serve C08.Model C08.Case C08.Proofs.

Definition cl (l : string) : name := mkname sv_ns_client (str l).
Definition at' (l v : string) : attr := mk_attr (str l) (str v).

Definition ex_c : cfg := mkcfg false sv_ns_client (str "me@example.net") (fun s => Some s) false.

(* <message from='me@example.net'><body>hi</body></message> <a/><!-- c --><b/> *)
Definition ex_script : list token :=
  [TStart (cl "message") [at' "from" "me@example.net"]; TStart (cl "body") []; TChar (str "hi");
   TEnd (cl "body"); TEnd (cl "message"); TChar (str " ");
   TStart (cl "a") []; TEnd (cl "a"); TMisc 0 (str " c "); TStart (cl "b") []; TEnd (cl "b")].

Example ex_ends_match : ends_match [stream_root] ex_script = true.
Proof. vm_compute. reflexivity. Qed.

Example ex_clean_start : clean false (TStart (cl "message") [at' "from" "me@example.net"]) = true.
Proof. vm_compute. reflexivity. Qed.

(* the readable part of the first element, and what follows *)
Example ex_scan_complete :
  scan false 0 (tl ex_script) =
  ([TStart (cl "body") []; TChar (str "hi"); TEnd (cl "body"); TEnd (cl "message")],
   SEComplete (skipn 5 ex_script)).
Proof. vm_compute. reflexivity. Qed.

(* a comment inside an element *)
Example ex_scan_dirty :
  scan false 0 [TStart (cl "body") []; TMisc 0 (str "c"); TEnd (cl "body"); TEnd (cl "message")] =
  ([TStart (cl "body") []], SEDirty (TMisc 0 (str "c")) [TEnd (cl "body"); TEnd (cl "message")])
  /\ term_of false (SEDirty (TMisc 0 (str "c")) []) = EComment.
Proof. vm_compute. split; reflexivity. Qed.

Example ex_scan_trunc : scan false 0 [TStart (cl "body") []] = ([TStart (cl "body") []], SETrunc).
Proof. vm_compute. reflexivity. Qed.

(* a handler that reads two tokens of the first element and seven of the second *)
Definition ex_handlers (idx : nat) : handlers :=
  prog_handlers [[ORead 2 false]; [ORead 7 false]] idx.

Definition ex_run : sres := serve_all ex_c ex_handlers ex_script.

(* two invocations in order; the from of the first is emptied; the second sees its end tag and
   then EOF for ever, never the comment or <b/>; the comment ends Serve with an error *)
Example ex_run_result :
  map v_name (s_invs ex_run) = [cl "message"; cl "a"] /\
  map v_attrs (s_invs ex_run) = [[at' "from" ""]; []] /\
  map v_seen (s_invs ex_run) =
    [[ok_res (TStart (cl "body") []); ok_res (TChar (str "hi"))];
     ok_res (TEnd (cl "a")) :: repeat (None, Some EEOF) 6] /\
  s_ret ex_run = Some EComment.
Proof. vm_compute. repeat split; reflexivity. Qed.

(* a handler that ignores read errors cannot read past a comment inside its element *)
Example ex_swallow :
  let r := serve_all ex_c (prog_handlers [[ORead 6 false]])
             [TStart (cl "message") []; TMisc 0 (str "c"); TStart (cl "body") []; TEnd (cl "body");
              TEnd (cl "message"); TEnd stream_root] in
  map v_seen (s_invs r) = [repeat (None, Some EComment) 6] /\ s_ret r = Some EComment.
Proof. vm_compute. split; reflexivity. Qed.

(* the peer's closing tag: nil; a received stream error: returned as such *)
Example ex_close : s_ret (serve_all ex_c ex_handlers [TChar (str " "); TEnd stream_root]) = None.
Proof. vm_compute. reflexivity. Qed.

Example ex_stream_error :
  s_ret (serve_all ex_c ex_handlers
           [TStart (mkname sv_ns_stream s_error) [];
            TStart (mkname sv_ns_stream_error (str "host-gone")) []; TEnd (mkname sv_ns_stream_error (str "host-gone"));
            TEnd (mkname sv_ns_stream s_error)]) = Some (EStreamErr (str "host-gone")).
Proof. vm_compute. reflexivity. Qed.

(* hypotheses of the stream-error clause *)
Example ex_cond : bytes_eqb (str "host-gone") s_text = false /\ str "host-gone" <> [].
Proof. split; [reflexivity|discriminate]. Qed.

(* the byte encoding of cases: a case the harness wrote parses and agrees *)
Example ex_parse_fails_on_garbage : case_ok8 [x01; x02] = false.
Proof. vm_compute. reflexivity. Qed.

(* ---- WebSocket framing: the hypotheses of the ws clauses of
   C08_stream_level_never_delivered are satisfiable, and a worked run ---- *)
Definition ex_ws : cfg := mkcfg true sv_ns_client (str "me@example.net") (fun s => Some s) false.
Definition fr (l : string) : name := mkname sv_ns_framing (str l).

Example ex_ws_hyps :
  c_ws ex_ws = true /\ bytes_eqb (nspace (fr "close")) sv_ns_framing = true /\ nlocal (fr "close") = str "close" /\
  in_list (nlocal (fr "open")) sv_ws_eof_locals = false /\
  true && bytes_eqb (nspace (fr "close")) sv_ns_framing = true.
Proof. vm_compute. repeat split; reflexivity. Qed.

(* <message from='me@example.net'/> <close/> : one invocation (from emptied), Serve returns nil;
   <a/><open/> : an unexpected restart; <a><close/></a> : the invocation fails with the restart error *)
Example ex_ws_runs :
  let r1 := serve_all ex_ws ex_handlers [TStart (cl "message") [at' "from" "me@example.net"]; TEnd (cl "message");
                                         TChar (str " "); TStart (fr "close") []; TEnd (fr "close")] in
  let r2 := serve_all ex_ws ex_handlers [TStart (cl "a") []; TEnd (cl "a"); TStart (fr "open") []; TEnd (fr "open")] in
  let r3 := serve_all ex_ws ex_handlers [TStart (cl "a") []; TStart (fr "close") []; TEnd (fr "close"); TEnd (cl "a");
                                         TStart (fr "close") []; TEnd (fr "close")] in
  (s_ret r1 = None /\ map v_attrs (s_invs r1) = [[at' "from" ""]]) /\
  (s_ret r2 = Some ERestart /\ length (s_invs r2) = 1) /\
  (s_ret r3 = Some ERestart /\ map v_ret (s_invs r3) = [Some ERestart]).
Proof. vm_compute. repeat split; reflexivity. Qed.

(* ---- only the peer's close ends Serve with nil; closed output; condition-less stream error ---- *)
Definition ex_closed : cfg := mkcfg false sv_ns_client (str "me@example.net") (fun s => Some s) true.

Example ex_nil_only_at_close :
  (* a handler error that wraps io.EOF: Serve returns it, the next element is not served *)
  (let r := serve_all ex_c (fun _ _ _ => HRet (Some EWrapEOF)) [TStart (cl "a") []; TEnd (cl "a"); TStart (cl "b") []; TEnd (cl "b"); TEnd stream_root] in
   s_ret r = Some EWrapEOF /\ length (s_invs r) = 1) /\
  (* output already closed: a comment still ends Serve with its error, a request cannot be answered, the close gives nil *)
  s_ret (serve_all ex_closed ex_handlers [TStart (cl "a") []; TEnd (cl "a"); TMisc 0 (str " c ")]) = Some EComment /\
  s_ret (serve_all ex_closed ex_handlers [TStart (cl "iq") [at' "type" "get"; at' "id" "x"]; TEnd (cl "iq"); TEnd stream_root]) = Some EOutClosed /\
  s_ret (serve_all ex_closed ex_handlers [TStart (cl "a") []; TEnd (cl "a"); TEnd stream_root]) = None /\
  (* <stream:error><text>..</text></stream:error>: returned as a stream error without condition *)
  s_ret (serve_all ex_c ex_handlers [TStart (mkname sv_ns_stream s_error) []; TStart (mkname sv_ns_stream_error s_text) [];
                                     TChar (str "bye"); TEnd (mkname sv_ns_stream_error s_text); TEnd (mkname sv_ns_stream s_error)])
    = Some (EStreamErr []).
Proof. vm_compute. repeat split; reflexivity. Qed.
