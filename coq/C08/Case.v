(* C08/Case.v — harness-side programs and the decoder of harness-written cases.
   Only computable definitions. A case is one byte string (compact: case files
   are elaborated at ~1 us per byte); its layout is documented next to each
   parser and mirrored by harness/c07/sv/serve.go. *)
From XV Require Import lib.Bytes lib.Xml gen.Serve C08.Model.
From Coq Require Import ZArith.

(* ---- handler programs the harness runs on both sides ---- *)

Inductive hret := RNil | REOF | RStream (c : bytes) | ROther | RWrapEOF.

Inductive hop :=
| ORead (n : nat) (stop : bool)  (* n Token() calls, results ignored; with stop: the op ends at the first error *)
| OReadRet (n : nat)             (* n Token() calls; EOF ends the op, any other error is returned by the handler *)
| OReadSkip (n : nat)            (* at most n calls: read to the end tag that closes the current level (like Decoder.Skip); an error ends the op *)
| OWrite (ts : list token)       (* EncodeToken for each *)
| ORet (r : hret).               (* return *)

Definition ret_err (r : hret) : option err :=
  match r with
  | RNil => None
  | REOF => Some EEOF
  | RStream c => Some (EStreamErr c)
  | ROther => Some EHandler
  | RWrapEOF => Some EWrapEOF
  end.

Fixpoint c_read (n : nat) (stop : bool) (k : handler) : handler :=
  match n with
  | O => k
  | S n' => HRd (fun r => match snd r with
                          | Some _ => if stop then k else c_read n' stop k
                          | None => c_read n' stop k
                          end)
  end.

Fixpoint c_readret (n : nat) (k : handler) : handler :=
  match n with
  | O => k
  | S n' => HRd (fun r => match snd r with
                          | Some EEOF => k
                          | Some e => HRet (Some e)
                          | None => c_readret n' k
                          end)
  end.

Fixpoint c_skip (n : nat) (d : nat) (k : handler) : handler :=
  match n with
  | O => k
  | S n' => HRd (fun r => match snd r with
                          | Some _ => k
                          | None =>
                              match fst r with
                              | Some (TStart _ _) => c_skip n' (S d) k
                              | Some (TEnd _) => match d with O => k | S d' => c_skip n' d' k end
                              | _ => c_skip n' d k
                              end
                          end)
  end.

Fixpoint compile (p : list hop) : handler :=
  match p with
  | [] => HRet None
  | ORead n s :: r => c_read n s (compile r)
  | OReadRet n :: r => c_readret n (compile r)
  | OReadSkip n :: r => c_skip n 0 (compile r)
  | OWrite ts :: r => fold_right HWr (compile r) ts
  | ORet x :: _ => HRet (ret_err x)
  end.

(* ---- parser combinators over bytes ---- *)

Definition P (A : Type) := bytes -> option (A * bytes).
Definition pret {A} (a : A) : P A := fun s => Some (a, s).
Definition pbind {A B} (p : P A) (f : A -> P B) : P B :=
  fun s => match p s with Some (a, s') => f a s' | None => None end.
Notation "x <- p ;; q" := (pbind p (fun x => q)) (at level 61, p at next level, right associativity).
Definition pfail {A} : P A := fun _ => None.

Definition pbyte : P nat :=
  fun s => match s with c :: r => Some (N.to_nat (bN c), r) | [] => None end.

Fixpoint ptake (n : nat) : P bytes :=
  match n with
  | O => pret []
  | S n' => fun s => match s with
                     | c :: r => match ptake n' r with Some (b, r') => Some (c :: b, r') | None => None end
                     | [] => None
                     end
  end.

Fixpoint prep {A} (n : nat) (p : P A) : P (list A) :=
  match n with
  | O => pret []
  | S n' => x <- p ;; xs <- prep n' p ;; pret (x :: xs)
  end.

Definition pu16 : P nat := h <- pbyte ;; l <- pbyte ;; pret (h * 256 + l).

Definition pbool : P bool := b <- pbyte ;; pret (negb (Nat.eqb b 0)).

(* strings that recur in every case are sent as an index into this table *)
Definition dict : list bytes := [
  sv_ns_client; sv_ns_server; sv_ns_stream; sv_ns_stream_error; sv_ns_stanza_error; sv_ns_framing;
  s_iq; s_message; s_presence; s_id; s_type; s_from; s_to;
  sv_iq_get; sv_iq_set; sv_iq_result; sv_iq_error;
  s_error; s_stream; s_text; s_xmlns; str "query"; str "body"; str "urn:example:q"; str "urn:example:other";
  sv_cond_service_unavailable; sv_err_cancel; str "ping"; str "urn:xmpp:ping"; str "x"; str "y";
  str "a@example.net/r"; str "b@example.org"; str "me@example.net"; str "me@example.net/res"; str "example.net" ].

(* str := L data[L] (L <= 253) | 254 hi lo data | 255 idx *)
Definition pstr : P bytes :=
  l <- pbyte ;;
  if Nat.eqb l 255 then (i <- pbyte ;; pret (nth i dict []))
  else if Nat.eqb l 254 then (n <- pu16 ;; ptake n)
  else ptake l.

Definition pname : P name := s <- pstr ;; l <- pstr ;; pret (mkname s l).
Definition pattr : P attr := n <- pname ;; v <- pstr ;; pret (mkattr n v).

(* tok := 1 name n attr^n | 2 name | 3 str | 4 k str *)
Definition ptok : P token :=
  k <- pbyte ;;
  match k with
  | 1 => n <- pname ;; c <- pbyte ;; a <- prep c pattr ;; pret (TStart n a)
  | 2 => n <- pname ;; pret (TEnd n)
  | 3 => b <- pstr ;; pret (TChar b)
  | 4 => m <- pbyte ;; b <- pstr ;; pret (TMisc m b)
  | _ => pfail
  end.

Definition ptoks : P (list token) := n <- pu16 ;; prep n ptok.

(* errc := 0 (nil) | code [str] *)
Definition perr : P (option err) :=
  k <- pbyte ;;
  match k with
  | 0 => pret None
  | 1 => pret (Some EEOF)
  | 2 => pret (Some EUnexpectedEOF)
  | 3 => c <- pstr ;; pret (Some (EStreamErr c))
  | 4 => pret (Some ERestart)
  | 5 => pret (Some EUnknownElem)
  | 6 => pret (Some EProcInst)
  | 7 => pret (Some EComment)
  | 8 => pret (Some EDirective)
  | 9 => pret (Some EChardata)
  | 10 => pret (Some EDecode)
  | 11 => pret (Some EBadState)
  | 12 => pret (Some EInvalidPayload)
  | 13 => pret (Some EHandler)
  | 14 => pret (Some EOther)
  | 15 => pret (Some EWrapEOF)
  | 16 => pret (Some EOutClosed)
  | _ => pfail
  end.

(* rres := (0 | 1 tok) errc *)
Definition prres : P rres :=
  k <- pbyte ;;
  match k with
  | 0 => e <- perr ;; pret (None, e)
  | 1 => t <- ptok ;; e <- perr ;; pret (Some t, e)
  | _ => pfail
  end.

(* hop := 1 n stop | 2 n | 3 toks | 4 ret | 5 n ; ret := 0 | 1 | 2 str | 3 *)
Definition phret : P hret :=
  k <- pbyte ;;
  match k with
  | 0 => pret RNil
  | 1 => pret REOF
  | 2 => c <- pstr ;; pret (RStream c)
  | 3 => pret ROther
  | 4 => pret RWrapEOF
  | _ => pfail
  end.

Definition phop : P hop :=
  k <- pbyte ;;
  match k with
  | 1 => n <- pbyte ;; s <- pbool ;; pret (ORead n s)
  | 2 => n <- pbyte ;; pret (OReadRet n)
  | 3 => ts <- ptoks ;; pret (OWrite ts)
  | 4 => r <- phret ;; pret (ORet r)
  | 5 => n <- pbyte ;; pret (OReadSkip n)
  | _ => pfail
  end.

Definition pprog : P (list hop) := n <- pbyte ;; prep n phop.

(* observed invocation := name n attr^n  k(u16) rres^k *)
Record oinv := mkoinv { oi_name : name; oi_attrs : list attr; oi_seen : list rres }.

Definition poinv : P oinv :=
  n <- pname ;; c <- pbyte ;; a <- prep c pattr ;; k <- pu16 ;; rs <- prep k prres ;; pret (mkoinv n a rs).

(* jid.Parse observations: n (str ok str)^n *)
Definition pjid : P (bytes * option bytes) :=
  s <- pstr ;; ok <- pbool ;; c <- pstr ;; pret (s, if ok then Some c else None).

Fixpoint jp_of (tbl : list (bytes * option bytes)) (s : bytes) : option bytes :=
  match tbl with
  | [] => None
  | (k, v) :: r => if bytes_eqb k s then v else jp_of r s
  end.

(* a registered IQ handler of the multiplexer: type, payload name, program *)
Record mreg := mkmreg { mr_type : bytes; mr_payload : name; mr_prog : list hop }.
Definition pmreg : P mreg := t <- pstr ;; n <- pname ;; p <- pprog ;; pret (mkmreg t n p).

(* case :=
     ws oclosed ns own from  njid jid^n  script:toks
     mode (0 programs | 1 mux)
       mode 0: nprog prog^n
       mode 1: fixed nreg mreg^n
     ret:errc  closed:bool  ninv oinv^n  wire:toks *)
Record scase := mkscase {
  k_cfg : cfg; k_from : bytes; k_script : list token;
  k_mode : nat; k_progs : list (list hop); k_mux_fixed : bool; k_mux_regs : list mreg;
  o_ret : option err; o_closed : bool; o_invs : list oinv; o_wire : list token }.

Definition pcase : P scase :=
  ws <- pbool ;; oc <- pbool ;; ns <- pstr ;; own <- pstr ;; from <- pstr ;;
  nj <- pbyte ;; jids <- prep nj pjid ;;
  script <- ptoks ;;
  mode <- pbyte ;;
  np <- pbyte ;; progs <- prep np pprog ;;
  fixed <- pbool ;; nr <- pbyte ;; regs <- prep nr pmreg ;;
  ret <- perr ;; closed <- pbool ;;
  ni <- pbyte ;; invs <- prep ni poinv ;;
  wire <- ptoks ;;
  pret (mkscase (mkcfg ws ns own (jp_of jids) oc) from script mode progs fixed regs ret closed invs wire).

Definition parse_case (b : bytes) : option scase :=
  match pcase b with
  | Some (c, []) => Some c
  | _ => None
  end.

(* handler of invocation idx: its own program, the last one repeated *)
Definition prog_handlers (progs : list (list hop)) (idx : nat) : handlers :=
  fun _ _ => compile (nth idx progs (last progs [])).

Definition inv_match (m : inv) (o : oinv) : bool :=
  name_eqb (v_name m) (oi_name o) && list_eqb attr_eqb (v_attrs m) (oi_attrs o)
  && list_eqb rres_match (v_seen m) (oi_seen o).

(* the model's outcome against the observed one *)
Definition outcome_ok (c : scase) (r : sres) : bool :=
  oerr_match (s_ret r) (o_ret c)
  && o_closed c
  && list_eqb inv_match (s_invs r) (o_invs c)
  && list_eqb token_match (if c_oclosed (k_cfg c) then [] else wire_of (c_ns (k_cfg c)) (k_from c) (written r)) (o_wire c).

Definition case_ok8 (b : bytes) : bool :=
  match parse_case b with
  | Some c =>
      match k_mode c with
      | 0 => outcome_ok c (serve_all (k_cfg c) (prog_handlers (k_progs c)) (k_script c))
      | _ => false
      end
  | None => false
  end.

(* ---- cases with outstanding requests (C07 harness) ----
   case_p := case  npend (id name live prog)^n  ndiv (taken id k(u16) rres^k)^n
   The waiters' programs only read; [ndiv] lists the elements the session offered
   to a waiter, in order (for one not taken only that flag is observed). *)
Definition ppe : P pentry :=
  id <- pstr ;; n <- pname ;; live <- pbool ;; pr <- pprog ;; pret (mkpe id n live (compile pr)).

Record odiv := mkodiv { od_taken : bool; od_id : bytes; od_seen : list rres }.

Definition podiv : P odiv :=
  t <- pbool ;; id <- pstr ;; k <- pu16 ;; rs <- prep k prres ;; pret (mkodiv t id rs).

Definition pcase_p : P (scase * ptable * list odiv) :=
  c <- pcase ;; np <- pbyte ;; pe <- prep np ppe ;; nd <- pbyte ;; ds <- prep nd podiv ;; pret (c, pe, ds).

Definition parse_case_p (b : bytes) : option (scase * ptable * list odiv) :=
  match pcase_p b with
  | Some (x, []) => Some x
  | _ => None
  end.

Definition div_match (m : dinv) (o : odiv) : bool :=
  Bool.eqb (d_taken m) (od_taken o) &&
  (if od_taken o then bytes_eqb (d_id m) (od_id o) && list_eqb rres_match (d_seen m) (od_seen o) else true).

Definition outcome_ok_p (c : scase) (divs : list odiv) (r : sres_p) : bool :=
  oerr_match (sp_ret r) (o_ret c)
  && o_closed c
  && list_eqb inv_match (invs_of (sp_events r)) (o_invs c)
  && list_eqb div_match (divs_of (sp_events r)) divs
  && list_eqb token_match (if c_oclosed (k_cfg c) then [] else wire_of (c_ns (k_cfg c)) (k_from c) (written_p r)) (o_wire c).

(* in a harness run nobody else touches the table while Serve runs *)
Definition env_id (k : nat) (tb : ptable) : ptable := tb.

(* ---- function-level tie of the stream reader alone (VerifStreamReader) ----
   case := ws toks k(u16) rres^k : the reader is called until its first error *)
Fixpoint p_run (ws : bool) (fuel : nat) (p : pst) : list rres :=
  match fuel with
  | O => []
  | S f => let '(r, p') := p_token ws p in
           match snd r with
           | Some _ => [r]
           | None => r :: p_run ws f p'
           end
  end.

Definition reader_ok (b : bytes) : bool :=
  match (ws <- pbool ;; ts <- ptoks ;; k <- pu16 ;; rs <- prep k prres ;; pret (ws, ts, rs)) b with
  | Some ((ws, ts, rs), []) => list_eqb rres_match (p_run ws (S (length ts)) (mkp ts 0%N false)) rs
  | _ => false
  end.
