(* C08/Model.v — executable token-level model of the serve loop
   (session.go: Serve, handleInputStream, earlyCloser, responseChecker, getIDTyp;
    internal/stream/reader.go: reader.Token; mellium.im/xmlstream: InnerElement, Copy).

   The input is the list of tokens encoding/xml's Decoder yields for what the
   peer sent after the stream header (name spaces resolved, end tags matched by
   the tokenizer); when the list is exhausted the tokenizer reports an error
   (malformed XML or the connection ended inside the open stream) and keeps
   reporting it.

   Readers are stacked as in the code:
     decoder <- P (the stream reader negotiateSession installs, depth persists)
             <- rc (Session.TokenReader: EOF once closed)
             <- I (the fresh stream reader of each handleInputStream call)
             <- InnerElement (stops after the end tag of the element)
             <- earlyCloser (closes rc on EOF; keeps the first other error)
   The handler is a strategy tree: every deterministic terminating handler is
   such a tree, so theorems quantified over [handler] cover all of them.

   Shared by C07 (reply rule) and C08 (one element at a time). Correlated
   requests awaiting a response (Session.sentStanzas, property C06) are not
   modelled: the model is of a session with no outstanding request. *)
From XV Require Import lib.Bytes lib.Xml gen.Serve.
From Coq Require Import ZArith.

(* ---- errors (classes of Go error values) ---- *)

Inductive err :=
| EEOF                      (* io.EOF *)
| EUnexpectedEOF            (* io.ErrUnexpectedEOF *)
| EStreamErr (cond : bytes) (* a stream.Error value *)
| ERestart                  (* stream.ErrUnexpectedRestart *)
| EUnknownElem              (* stream.ErrUnknownStreamElement *)
| EProcInst | EComment | EDirective
| EChardata                 (* non-whitespace text between elements *)
| EDecode                   (* tokenizer / unmarshalling error *)
| EBadState                 (* first token of an element is neither start nor text *)
| EJid                      (* jid.Parse failed *)
| EInvalidPayload           (* mux: first child of an IQ is not an element *)
| EEncode                   (* the encoder rejected a token *)
| EHandler                  (* an error value of the handler's own *)
| EWrapEOF                  (* an error value that wraps io.EOF, or claims to be it (errors.Is), but is not io.EOF itself *)
| EOutClosed                (* xmpp.ErrOutputStreamClosed: a write after the output stream was closed *)
| EOther                    (* any other error value *)
| EPoison                   (* model only: P was read again after it returned an error *)
| EFuel.                    (* model only: out of fuel *)

Definition err_eqb (a b : err) : bool :=
  match a, b with
  | EEOF, EEOF | EUnexpectedEOF, EUnexpectedEOF | ERestart, ERestart | EUnknownElem, EUnknownElem
  | EProcInst, EProcInst | EComment, EComment | EDirective, EDirective | EChardata, EChardata
  | EDecode, EDecode | EBadState, EBadState | EJid, EJid | EInvalidPayload, EInvalidPayload
  | EEncode, EEncode | EHandler, EHandler | EOther, EOther | EPoison, EPoison | EFuel, EFuel
  | EWrapEOF, EWrapEOF | EOutClosed, EOutClosed => true
  | EStreamErr x, EStreamErr y => bytes_eqb x y
  | _, _ => false
  end.

(* result of a Token() call: (token or nil, error or nil) *)
Definition rres := (option token * option err)%type.

(* ---- small helpers ---- *)

Definition is_ws_byte (c : byte) : bool :=
  byte_eqb c " "%byte || byte_eqb c x09 || byte_eqb c x0d || byte_eqb c x0a.

Definition is_ws (b : bytes) : bool := forallb is_ws_byte b.

Definition s_error : bytes := str "error".
Definition s_stream : bytes := str "stream".
Definition s_text : bytes := str "text".
Definition s_iq : bytes := str "iq".
Definition s_message : bytes := str "message".
Definition s_presence : bytes := str "presence".
Definition s_id : bytes := str "id".
Definition s_type : bytes := str "type".
Definition s_from : bytes := str "from".
Definition s_to : bytes := str "to".

Definition in_list (x : bytes) (l : list bytes) : bool := existsb (bytes_eqb x) l.

(* ---- internal/stream/reader.go: reader.Token on one underlying token ---- *)

Inductive sr_out :=
| SOTok (t : token)                (* return tok, nil *)
| SOErr (t : option token) (e : err)
| SODecode.                        (* <stream:error>: decode it from the underlying reader *)

Definition max64 : N := 18446744073709551615%N.
Definition dec64 (d : N) : N := if N.eqb d 0 then max64 else N.pred d.

(* a framing element that ends the input of a WebSocket stream: <close/>, and
   (table read from the source) only as a top-level element; every other framing
   element on an established stream is an unexpected restart *)
Definition ws_ends (depth : N) (local : bytes) : bool :=
  in_list local sv_ws_eof_locals && (negb sv_ws_eof_top_only || N.eqb depth 0).

Definition sr_classify (ws : bool) (depth : N) (t : token) : sr_out * N :=
  match t with
  | TChar b =>
      if N.eqb depth 0 && negb (is_ws b) then (SOErr (Some t) EChardata, depth) else (SOTok t, depth)
  | TStart n _ =>
      let d := N.succ depth in
      if ws && bytes_eqb (nspace n) sv_ns_framing
      then (SOErr None (if ws_ends depth (nlocal n) then EEOF else ERestart), d)
      else if negb (bytes_eqb (nspace n) sv_ns_stream) then (SOTok t, d)
      else if bytes_eqb (nlocal n) s_error then (SODecode, d)
      else if bytes_eqb (nlocal n) s_stream then (SOErr None ERestart, d)
      else (SOErr None EUnknownElem, d)
  | TEnd n =>
      let d := dec64 depth in
      if negb (bytes_eqb (nspace n) sv_ns_stream) then (SOTok t, d)
      else if bytes_eqb (nlocal n) s_stream then (SOErr None EEOF, d)
      else (SOErr None (EStreamErr sv_cond_bad_format), d)
  | TMisc k _ =>
      match k with
      | 0 => (SOErr None EComment, depth)
      | 1 => (SOErr None EProcInst, depth)
      | _ => (SOErr None EDirective, depth)
      end
  end.

(* stream.Error.UnmarshalXML through Decoder.DecodeElement, on the tokens that
   follow <stream:error>: the condition is the local name of the last child in
   the stream-error name space other than <text/>; a child in another name
   space (an application-specific condition) is skipped whole (fix ac97115 of
   stream/error.go). [d] is the depth inside a child being skipped. *)
Fixpoint se_scan (d : nat) (cond : bytes) (l : list token) : err :=
  match l with
  | [] => EDecode
  | t :: r =>
      match d with
      | O =>
          match t with
          | TEnd _ => EStreamErr cond
          | TStart n _ =>
              if bytes_eqb (nspace n) sv_ns_stream_error
              then se_scan 1 (if bytes_eqb (nlocal n) s_text then cond else nlocal n) r
              else se_scan 1 cond r
          | _ => se_scan O cond r
          end
      | S d' =>
          match t with
          | TStart _ _ => se_scan (S d) cond r
          | TEnd _ => se_scan d' cond r
          | _ => se_scan d cond r
          end
      end
  end.

(* ---- P: the persistent stream reader over the decoder ---- *)

Record pst := mkp { p_toks : list token; p_depth : N; p_poison : bool }.

Definition p_token (ws : bool) (p : pst) : rres * pst :=
  if p_poison p then ((None, Some EPoison), p)
  else match p_toks p with
       | [] => ((None, Some EDecode), mkp [] (p_depth p) true)
       | t :: rest =>
           match sr_classify ws (p_depth p) t with
           | (SOTok t', d) => ((Some t', None), mkp rest d false)
           | (SOErr ot e, d) => ((ot, Some e), mkp rest d true)
           | (SODecode, d) => ((None, Some (se_scan 0 [] rest)), mkp rest d true)
           end
       end.

(* ---- rc, I, InnerElement, earlyCloser: the per-element reader stack ---- *)

Record rst := mkr {
  r_p : pst;
  r_closed : bool;          (* lockReadCloser closed *)
  r_idepth : N;             (* depth of the per-element stream reader *)
  r_count : option nat;     (* InnerElement: None once the end tag was returned *)
  r_ecerr : option err      (* earlyCloser: remembered error *)
}.

Definition rc_token (ws : bool) (s : rst) : rres * rst :=
  if r_closed s then ((None, Some EEOF), s)
  else let '(r, p') := p_token ws (r_p s) in
       (r, mkr p' (r_closed s) (r_idepth s) (r_count s) (r_ecerr s)).

Definition set_idepth (s : rst) (d : N) : rst :=
  mkr (r_p s) (r_closed s) d (r_count s) (r_ecerr s).

Definition i_token (ws : bool) (s : rst) : rres * rst :=
  let '(r, s1) := rc_token ws s in
  match r with
  | (_, Some e) => ((None, Some e), s1)
  | (None, None) => ((None, None), s1)
  | (Some t, None) =>
      match sr_classify ws (r_idepth s1) t with
      | (SOTok t', d) => ((Some t', None), set_idepth s1 d)
      | (SOErr ot e, d) => ((ot, Some e), set_idepth s1 d)
      | (SODecode, d) => ((None, Some EPoison), set_idepth s1 d)  (* P never passes a stream-namespace start *)
      end
  end.

Definition set_count (s : rst) (c : option nat) : rst :=
  mkr (r_p s) (r_closed s) (r_idepth s) c (r_ecerr s).

Definition ie_token (ws : bool) (s : rst) : rres * rst :=
  match r_count s with
  | None => ((None, Some EEOF), s)
  | Some c =>
      let '(r, s1) := i_token ws s in
      match fst r with
      | Some (TStart _ _) => (r, set_count s1 (Some (S c)))
      | Some (TEnd _) => (r, set_count s1 (match c with O => None | S c' => Some c' end))
      | _ => (r, s1)
      end
  end.

Definition ec_token (ws : bool) (s : rst) : rres * rst :=
  match r_ecerr s with
  | Some e => ((None, Some e), s)
  | None =>
      let '(r, s1) := ie_token ws s in
      match snd r with
      | Some EEOF => (r, mkr (r_p s1) true (r_idepth s1) (r_count s1) None)
      | Some e => (r, mkr (r_p s1) (r_closed s1) (r_idepth s1) (r_count s1) (Some e))
      | None => (r, s1)
      end
  end.

(* ---- getIDTyp ---- *)

Fixpoint get_id_typ_from (a : list attr) (id typ : bytes) (fi ft : bool) : bytes * bytes :=
  match a with
  | [] => (id, typ)
  | x :: r =>
      if negb (is_nil (nspace (aname x))) then get_id_typ_from r id typ fi ft
      else
      let l := nlocal (aname x) in
      let isid := bytes_eqb l s_id in
      let isty := bytes_eqb l s_type in
      let id' := if isid then aval x else id in
      let typ' := if isty then aval x else typ in
      let fi' := fi || isid in
      let ft' := ft || isty in
      if fi' && ft' then (id', typ') else get_id_typ_from r id' typ' fi' ft'
  end.

Definition get_id_typ (a : list attr) : bytes * bytes := get_id_typ_from a [] [] false false.

Definition is_iq (n : name) : bool :=
  in_list (nlocal n) sv_is_iq_locals && in_list (nspace n) sv_is_iq_spaces.

Definition is_iq_empty (n : name) : bool :=
  in_list (nlocal n) sv_is_iq_empty_locals && in_list (nspace n) sv_is_iq_empty_spaces.

Definition needs_resp (typ : bytes) : bool := bytes_eqb typ sv_iq_get || bytes_eqb typ sv_iq_set.

(* stanza.Is *)
Definition stanza_is (n : name) (ns : bytes) : bool :=
  (bytes_eqb (nlocal n) s_iq || bytes_eqb (nlocal n) s_message || bytes_eqb (nlocal n) s_presence)
  && (is_nil ns || bytes_eqb (nspace n) ns).

(* unqualified attribute with the given local name ("" when absent) *)
Fixpoint attr_get (local : bytes) (a : list attr) : bytes :=
  match a with
  | [] => []
  | x :: r => if is_nil (nspace (aname x)) && bytes_eqb (nlocal (aname x)) local then aval x
              else attr_get local r
  end.

(* from-normalisation: the first unqualified from attribute, if it equals the
   session's own bare address, is emptied *)
Fixpoint norm_from (own : bytes) (a : list attr) : list attr :=
  match a with
  | [] => []
  | x :: r =>
      if is_nil (nspace (aname x)) && bytes_eqb (nlocal (aname x)) s_from
      then (if bytes_eqb (aval x) own then mkattr (aname x) [] else x) :: r
      else x :: norm_from own r
  end.

(* ---- responseChecker ---- *)

Record wst := mkw { w_out : list token; w_level : Z; w_wrote : bool }.

Definition rc_encode (id : bytes) (t : token) (w : wst) : wst :=
  match t with
  | TStart n a =>
      let '(i, ty) := get_id_typ a in
      let hit := (w_level w <? 1)%Z && is_iq_empty n && bytes_eqb i id && negb (needs_resp ty) in
      mkw (w_out w ++ [t]) (w_level w + 1)%Z (w_wrote w || hit)
  | TEnd _ => mkw (w_out w ++ [t]) (w_level w - 1)%Z (w_wrote w)
  | _ => mkw (w_out w ++ [t]) (w_level w) (w_wrote w)
  end.

(* ---- handlers ---- *)

Inductive handler :=
| HRet (e : option err)            (* return e *)
| HRd (k : rres -> handler)        (* call Token() and go on according to what it returned *)
| HWr (t : token) (k : handler).   (* call EncodeToken(t), go on *)

Fixpoint run_h (ws : bool) (id : bytes) (h : handler) (s : rst) (w : wst) (seen : list rres)
  : option err * rst * wst * list rres :=
  match h with
  | HRet e => (e, s, w, rev seen)
  | HRd k => let '(r, s') := ec_token ws s in run_h ws id (k r) s' w (r :: seen)
  | HWr t k => run_h ws id k s (rc_encode id t w) seen
  end.

(* xmlstream.Copy(discard, rw): read to the end of the element *)
Fixpoint drain (ws : bool) (fuel : nat) (s : rst) : option err * rst :=
  match fuel with
  | O => (Some EFuel, s)
  | S f =>
      let '(r, s') := ec_token ws s in
      match snd r with
      | Some EEOF => (None, s')
      | Some e => (Some e, s')
      | None => drain ws f s'
      end
  end.

(* ---- handleInputStream ---- *)

Record cfg := mkcfg {
  c_ws : bool;                       (* websocket framing *)
  c_ns : bytes;                      (* content name space of the input stream *)
  c_own : bytes;                     (* LocalAddr().Bare().String() *)
  c_jp : bytes -> option bytes;      (* jid.Parse(s) then String(): None = error *)
  c_oclosed : bool                   (* the output stream was closed (a local Close()) before Serve runs *)
}.

Definition mk_attr (l v : bytes) : attr := mkattr (mkname [] l) v.

(* stanza.IQ{ID, Type: error, To}.Wrap(stanza.Error{cancel, service-unavailable}.TokenReader()) *)
Definition su_error : list token :=
  [TStart (mkname [] s_error) [mk_attr s_type sv_err_cancel];
   TStart (mkname sv_ns_stanza_error sv_cond_service_unavailable) [];
   TEnd (mkname sv_ns_stanza_error sv_cond_service_unavailable);
   TEnd (mkname [] s_error)].

Definition default_reply (id : bytes) (to : bytes) : list token :=
  let n := mkname [] s_iq in
  TStart n ([mk_attr s_type sv_iq_error]
            ++ (if is_nil to then [] else [mk_attr s_to to])
            ++ (if is_nil id then [] else [mk_attr s_id id]))
  :: su_error ++ [TEnd n].

(* one handler invocation, as observable *)
Record inv := mkinv {
  v_name : name; v_attrs : list attr;   (* the start element shown to the handler *)
  v_seen : list rres;                   (* what its Token() calls returned, in order *)
  v_hw : list token;                    (* what it wrote *)
  v_auto : list token;                  (* what the session added *)
  v_ret : option err                    (* what handleInputStream returned *)
}.

Inductive hres :=
| HREnd (e : err)      (* the first read failed (EOF: the peer closed the stream) *)
| HRSkip               (* whitespace keep-alive *)
| HRInv (v : inv).

Definition handlers := name -> list attr -> handler.

(* what handleInputStream does once the handler has returned *)
Definition finish_inv (c : cfg) (fuel : nat) (n : name) (a' : list attr) (id typ : bytes)
  (res : option err * rst * wst * list rres) : hres * pst :=
  let '(ret, s2, w, seen) := res in
  match ret with
  | Some e =>
      (HRInv (mkinv n a' seen (w_out w) []
                    (Some (match e with EEOF => EUnexpectedEOF | _ => e end))), r_p s2)
  | None =>
      let from := attr_get s_from a' in
      let want := is_iq n && needs_resp typ && negb (w_wrote w) in
      let to := if want && negb (is_nil from) then c_jp c from else Some [] in
      match to with
      | None => (HRInv (mkinv n a' seen (w_out w) [] (Some EJid)), r_p s2)
      | Some j =>
          (* with the output closed the default reply cannot be written, and the
             flush fails once the handler has asked for the writer *)
          if c_oclosed c && (want || negb (is_nil (w_out w)))
          then (HRInv (mkinv n a' seen (w_out w) [] (Some EOutClosed)), r_p s2)
          else
          let auto := if want then default_reply id j else [] in
          let '(e, s3) := drain (c_ws c) fuel s2 in
          (HRInv (mkinv n a' seen (w_out w) auto e), r_p s3)
      end
  end.

(* the start element as the handler is shown it *)
Definition shown_attrs (c : cfg) (n : name) (a : list attr) : list attr :=
  if stanza_is n (c_ns c) then norm_from (c_own c) a else a.

Definition his (c : cfg) (fuel : nat) (hf : handlers) (p : pst) : hres * pst :=
  let s0 := mkr p false 0%N (Some O) None in
  let '(r, s1) := i_token (c_ws c) s0 in
  match r with
  | (_, Some e) => (HREnd e, r_p s1)
  | (Some (TChar _), None) => (HRSkip, r_p s1)
  | (Some (TStart n a), None) =>
      let a' := shown_attrs c n a in
      finish_inv c fuel n a' (fst (get_id_typ a')) (snd (get_id_typ a'))
        (run_h (c_ws c) (fst (get_id_typ a')) (hf n a') s1 (mkw [] 0%Z false) [])
  | (_, None) => (HREnd EBadState, r_p s1)
  end.

(* ---- Serve ---- *)

Record sres := mksres {
  s_ret : option err;      (* what Serve returns (None: nil) *)
  s_invs : list inv;       (* handler invocations in order *)
  s_rest : pst             (* input left unread *)
}.

(* sendError: whatever it puts on the wire (the stream error itself, undefined-
   condition for any other error or for a stream error without a condition,
   nothing when the output is already closed), it returns the error it was given *)
Definition send_error (e : err) : err := e.

Fixpoint serve (c : cfg) (fuel : nat) (hf : nat -> handlers) (idx : nat) (p : pst) : sres :=
  match fuel with
  | O => mksres (Some EFuel) [] p
  | S f =>
      match his c (S (length (p_toks p))) (hf idx) p with
      | (HREnd EEOF, p') => mksres None [] p'
      | (HREnd e, p') => mksres (Some (send_error e)) [] p'
      | (HRSkip, p') => serve c f hf idx p'
      | (HRInv v, p') =>
          match v_ret v with
          | Some e => mksres (Some (send_error e)) [v] p'
          | None => let r := serve c f hf (S idx) p' in mksres (s_ret r) (v :: s_invs r) (s_rest r)
          end
      end
  end.

Definition serve_all (c : cfg) (hf : nat -> handlers) (toks : list token) : sres :=
  serve c (S (length toks)) hf 0 (mkp toks 0%N false).

(* ---- outstanding correlated requests (Session.sentStanzas, handleInputStream's
   lookup, iqResponder; xmlstream.Inner / Wrap / MultiReader) ----

   SendIQ, SendMessage and SendPresence register the id and the name of the
   element they send and wait for the element that answers it. The table of
   these registrations is an input of the history: other goroutines change it
   between any two elements ([env] of [serve_p]). An entry also says how its
   waiter behaves: whether its context is still live (it takes the response it
   is offered) and what it reads of the response before closing it. *)

Record pentry := mkpe {
  pe_id : bytes;          (* key of the map *)
  pe_name : name;         (* tokenReadChan.stanzaName: name of the element that was sent *)
  pe_live : bool;         (* false: its context is done, the offer is not taken *)
  pe_prog : handler       (* what the waiter reads of the response (its writes do not go here) *)
}.

Definition ptable := list pentry.

(* when the table is consulted at all: the condition is read from the source *)
Definition consults (iq_ok : bool) (typ : bytes) : bool :=
  (sv_lookup_any_iq && iq_ok) || in_list typ sv_lookup_types.

(* s.sentStanzas[id] *)
Fixpoint pt_find (id : bytes) (tb : ptable) : option pentry :=
  match tb with
  | [] => None
  | e :: r => if bytes_eqb (pe_id e) id then Some e else pt_find id r
  end.

(* delete(s.sentStanzas, id) *)
Fixpoint pt_remove (id : bytes) (tb : ptable) : ptable :=
  match tb with
  | [] => []
  | e :: r => if bytes_eqb (pe_id e) id then r else e :: pt_remove id r
  end.

(* readerChan.stanzaName == start.Name || readerChan.stanzaName == xml.Name{Local: start.Name.Local} *)
Definition name_accepts (pn n : name) : bool := name_eqb pn n || name_eqb pn (mkname [] (nlocal n)).

(* the waiter the element <n a'> is handed to, if any *)
Definition diverted_to (tb : ptable) (n : name) (a' : list attr) : option pentry :=
  if consults (is_iq n) (snd (get_id_typ a')) then
    match pt_find (fst (get_id_typ a')) tb with
    | Some e => if name_accepts (pe_name e) n then Some e else None
    | None => None
    end
  else None.

(* xmlstream.Inner over the per-element stream reader: like InnerElement, but
   the end tag of the element itself is swallowed *)
Definition in_token (ws : bool) (s : rst) : rres * rst :=
  let '(r, s') := ie_token ws s in
  match fst r, r_count s' with
  | Some (TEnd _), None => ((None, Some EEOF), s')
  | _, _ => (r, s')
  end.

(* earlyCloser over it (the reader handed to a waiter keeps its first error, as
   the handler's does) *)
Definition wt_token (ws : bool) (s : rst) : rres * rst :=
  match r_ecerr s with
  | Some e => ((None, Some e), s)
  | None =>
      let '(r, s1) := in_token ws s in
      match snd r with
      | Some EEOF => (r, mkr (r_p s1) true (r_idepth s1) (r_count s1) None)
      | Some e => (r, mkr (r_p s1) (r_closed s1) (r_idepth s1) (r_count s1) (Some e))
      | None => (r, s1)
      end
  end.

(* xmlstream.Wrap(inner, start) = MultiReader(Token(start), inner, Token(start.End())):
   phase 0 before the start tag, 1 inside, 2 after the end tag. The end tag comes
   together with io.EOF (the last reader of a MultiReader). *)
Definition wr_token (ws : bool) (n : name) (a' : list attr) (ph : nat) (s : rst) : rres * nat * rst :=
  match ph with
  | 0 => ((Some (TStart n a'), None), 1, s)
  | 1 => let '(r, s1) := wt_token ws s in
         match r with
         | (None, Some EEOF) => ((Some (TEnd n), Some EEOF), 2, s1)
         | _ => (r, 1, s1)
         end
  | _ => ((None, Some EEOF), 2, s)
  end.

(* the waiter reads the response and closes it *)
Fixpoint run_w (ws : bool) (n : name) (a' : list attr) (h : handler) (ph : nat) (s : rst) (seen : list rres)
  : rst * list rres :=
  match h with
  | HRet _ => (s, rev seen)
  | HRd k => let '(r, ph', s') := wr_token ws n a' ph s in run_w ws n a' (k r) ph' s' (r :: seen)
  | HWr _ k => run_w ws n a' k ph s seen
  end.

(* xmlstream.Copy(discard, inner) *)
Fixpoint drain_in (ws : bool) (fuel : nat) (s : rst) : option err * rst :=
  match fuel with
  | O => (Some EFuel, s)
  | S f =>
      let '(r, s') := wt_token ws s in
      match snd r with
      | Some EEOF => (None, s')
      | Some e => (Some e, s')
      | None => drain_in ws f s'
      end
  end.

(* an element handed to a waiter instead of the handler *)
Record dinv := mkdinv {
  d_name : name; d_attrs : list attr;
  d_id : bytes;            (* the table entry used *)
  d_taken : bool;          (* the waiter took it (false: its context was done; nobody sees the element) *)
  d_seen : list rres;      (* what the waiter's Token() calls returned *)
  d_ret : option err       (* what handleInputStream returned *)
}.

Inductive pres :=
| PH (h : hres)            (* not diverted: as [his] *)
| PDiv (d : dinv).

(* handleInputStream with the table of outstanding requests *)
Definition his_p (c : cfg) (fuel : nat) (tb : ptable) (hf : handlers) (p : pst) : pres * pst * ptable :=
  let s0 := mkr p false 0%N (Some O) None in
  let '(r, s1) := i_token (c_ws c) s0 in
  let plain := let '(h, p') := his c fuel hf p in (PH h, p', tb) in
  match r with
  | (Some (TStart n a), None) =>
      let a' := shown_attrs c n a in
      match diverted_to tb n a' with
      | Some e =>
          let '(s2, seen) := if pe_live e then run_w (c_ws c) n a' (pe_prog e) 0 s1 [] else (s1, []) in
          let '(er, s3) := drain_in (c_ws c) fuel s2 in
          (PDiv (mkdinv n a' (pe_id e) (pe_live e) seen er), r_p s3,
           (* a waiter that took the response has returned from sendResp, which
              unregisters it, before it can close the response *)
           if pe_live e then pt_remove (pe_id e) tb else tb)
      | None => plain
      end
  | _ => plain
  end.

Inductive event := EvInv (v : inv) | EvDiv (d : dinv).

Record sres_p := mksp {
  sp_ret : option err;
  sp_events : list event;    (* handler invocations and diverted elements in order *)
  sp_rest : pst
}.

Definition sp_cons (ev : event) (r : sres_p) : sres_p := mksp (sp_ret r) (ev :: sp_events r) (sp_rest r).

(* Serve with outstanding requests. [env k] is what the other goroutines did to
   the table before iteration k of the loop. *)
Fixpoint serve_p (c : cfg) (fuel : nat) (env : nat -> ptable -> ptable) (hf : nat -> handlers)
  (idx k : nat) (tb : ptable) (p : pst) : sres_p :=
  match fuel with
  | O => mksp (Some EFuel) [] p
  | S f =>
      match his_p c (S (length (p_toks p))) (env k tb) (hf idx) p with
      | (PH (HREnd EEOF), p', _) => mksp None [] p'
      | (PH (HREnd e), p', _) => mksp (Some (send_error e)) [] p'
      | (PH HRSkip, p', tb') => serve_p c f env hf idx (S k) tb' p'
      | (PH (HRInv v), p', tb') =>
          match v_ret v with
          | Some e => mksp (Some (send_error e)) [EvInv v] p'
          | None => sp_cons (EvInv v) (serve_p c f env hf (S idx) (S k) tb' p')
          end
      | (PDiv d, p', tb') =>
          match d_ret d with
          | Some e => mksp (Some (send_error e)) [EvDiv d] p'
          | None => sp_cons (EvDiv d) (serve_p c f env hf idx (S k) tb' p')
          end
      end
  end.

Definition serve_all_p (c : cfg) (env : nat -> ptable -> ptable) (hf : nat -> handlers) (tb : ptable)
  (toks : list token) : sres_p :=
  serve_p c (S (length toks)) env hf 0 0 tb (mkp toks 0%N false).

Fixpoint invs_of (evs : list event) : list inv :=
  match evs with
  | [] => []
  | EvInv v :: r => v :: invs_of r
  | EvDiv _ :: r => invs_of r
  end.

Fixpoint divs_of (evs : list event) : list dinv :=
  match evs with
  | [] => []
  | EvDiv d :: r => d :: divs_of r
  | EvInv _ :: r => divs_of r
  end.

Definition written_p (r : sres_p) : list token := flat_map (fun v => v_hw v ++ v_auto v) (invs_of (sp_events r)).

(* everything written to the session's token writer during Serve ([v_hw] is what
   the handler asked to write; with the output closed none of it goes out) *)
Definition written (r : sres) : list token := flat_map (fun v => v_hw v ++ v_auto v) (s_invs r).

(* ---- specification-side vocabulary (used by the theorems, not by the model) ---- *)

(* a token the stream readers let through inside an element *)
Definition clean (ws : bool) (t : token) : bool :=
  match t with
  | TStart n _ => negb (bytes_eqb (nspace n) sv_ns_stream) && negb (ws && bytes_eqb (nspace n) sv_ns_framing)
  | TEnd n => negb (bytes_eqb (nspace n) sv_ns_stream)
  | TChar _ => true
  | TMisc _ _ => false
  end.

(* the error a stream-level construct raises; [rest] are the tokens after it *)
Definition dirty_err (ws : bool) (t : token) (rest : list token) : err :=
  match t with
  | TStart n _ =>
      if ws && bytes_eqb (nspace n) sv_ns_framing then ERestart
      else if bytes_eqb (nlocal n) s_error then se_scan 0 [] rest
      else if bytes_eqb (nlocal n) s_stream then ERestart
      else EUnknownElem
  | TEnd n => if bytes_eqb (nlocal n) s_stream then EEOF else EStreamErr sv_cond_bad_format
  | TMisc 0 _ => EComment
  | TMisc 1 _ => EProcInst
  | TMisc _ _ => EDirective
  | TChar _ => EChardata
  end.

(* [elem_body d l]: the tokens of [l] up to and including the end tag that
   closes the element opened [S d] levels up, and what follows; None when [l]
   ends before *)
Fixpoint elem_body (d : nat) (l : list token) : option (list token * list token) :=
  match l with
  | [] => None
  | t :: r =>
      match t with
      | TEnd _ =>
          match d with
          | O => Some ([t], r)
          | S d' => match elem_body d' r with Some (b, rest) => Some (t :: b, rest) | None => None end
          end
      | TStart _ _ => match elem_body (S d) r with Some (b, rest) => Some (t :: b, rest) | None => None end
      | _ => match elem_body d r with Some (b, rest) => Some (t :: b, rest) | None => None end
      end
  end.

Definition ok_res (t : token) : rres := (Some t, None).

(* how the readable part of an element ends *)
Inductive scan_end :=
| SEComplete (rest : list token)            (* at its end tag; [rest] follows *)
| SEDirty (t : token) (rest : list token)   (* at a stream-level construct [t] *)
| SETrunc.                                  (* the input ends inside the element *)

(* [scan ws c l]: the tokens of [l] a handler can be given when [S c] elements
   are open (the element itself and c of its descendants), and how they end *)
Fixpoint scan (ws : bool) (c : nat) (l : list token) : list token * scan_end :=
  match l with
  | [] => ([], SETrunc)
  | t :: r =>
      if clean ws t then
        match t with
        | TEnd _ => match c with
                    | O => ([t], SEComplete r)
                    | S c' => let '(pre, e) := scan ws c' r in (t :: pre, e)
                    end
        | TStart _ _ => let '(pre, e) := scan ws (S c) r in (t :: pre, e)
        | _ => let '(pre, e) := scan ws c r in (t :: pre, e)
        end
      else ([], SEDirty t r)
  end.

(* the error every read returns once the readable part is used up *)
Definition term_of (ws : bool) (e : scan_end) : err :=
  match e with
  | SEComplete _ => EEOF
  | SEDirty t r => dirty_err ws t r
  | SETrunc => EDecode
  end.

(* what k Token() calls return on an element whose readable part is [pre] *)
Fixpoint view (k : nat) (pre : list token) (term : err) : list rres :=
  match k with
  | O => []
  | S k' => match pre with
            | t :: pre' => ok_res t :: view k' pre' term
            | [] => (None, Some term) :: view k' [] term
            end
  end.

(* the same between two elements: there the peer's <close/> on a WebSocket
   stream reads as the end of the input, like </stream:stream> *)
Definition top_dirty_err (ws : bool) (t : token) (rest : list token) : err :=
  match t with
  | TStart n _ => if ws && bytes_eqb (nspace n) sv_ns_framing && in_list (nlocal n) sv_ws_eof_locals then EEOF
                  else dirty_err ws t rest
  | _ => dirty_err ws t rest
  end.

(* the error with which the serve loop ends when [l] is what it reads next
   between two elements (None: it goes on with an element or a keep-alive) *)
Definition top_err (ws : bool) (l : list token) : option err :=
  match l with
  | [] => Some EDecode
  | TChar b :: _ => if is_ws b then None else Some EChardata
  | TStart n a :: r => if clean ws (TStart n a) then None else Some (top_dirty_err ws (TStart n a) r)
  | TEnd n :: r => if clean ws (TEnd n) then Some EBadState else Some (dirty_err ws (TEnd n) r)
  | TMisc k b :: r => Some (dirty_err ws (TMisc k b) r)
  end.

(* Serve's return value for that error: the peer's closing tag gives nil *)
Definition ret_of (e : err) : option err := match e with EEOF => None | _ => Some (send_error e) end.

(* the tokenizer's guarantee: every end tag carries the name of the innermost
   open start tag ([stk]: the open elements, innermost first; the list may stop
   anywhere) *)
Fixpoint ends_match (stk : list name) (l : list token) : bool :=
  match l with
  | [] => true
  | TStart n _ :: r => ends_match (n :: stk) r
  | TEnd n :: r => match stk with
                   | m :: stk' => name_eqb m n && ends_match stk' r
                   | [] => false
                   end
  | _ :: r => ends_match stk r
  end.

Definition stream_root : name := mkname sv_ns_stream s_stream.

(* the response checker run over everything a handler wrote *)
Definition enc_all (id : bytes) (hw : list token) (w : wst) : wst :=
  fold_left (fun w t => rc_encode id t w) hw w.

Definition w0 : wst := mkw [] 0%Z false.

(* the session owes a default reply: a get/set IQ whose handler wrote [hw] without a reply among it *)
Definition wanted (n : name) (a' : list attr) (hw : list token) : bool :=
  is_iq n && needs_resp (snd (get_id_typ a')) && negb (w_wrote (enc_all (fst (get_id_typ a')) hw w0)).

(* ---- the wire: stanzaEncoder, xml.Encoder, and the tokenizer of the observer ---- *)

Definition rand_id : bytes := [x00].   (* stands for a generated id *)

Definition is_stanza_empty (n : name) : bool :=
  (bytes_eqb (nlocal n) s_iq || bytes_eqb (nlocal n) s_message || bytes_eqb (nlocal n) s_presence)
  && (is_nil (nspace n) || bytes_eqb (nspace n) sv_ns_client || bytes_eqb (nspace n) sv_ns_server).

Definition attr_is (l : bytes) (x : attr) : bool := bytes_eqb (nlocal (aname x)) l.

Definition se_attrs (from : bytes) (a : list attr) : list attr :=
  let kept := filter (fun x => negb ((attr_is s_id x || attr_is s_from x) && is_nil (aval x))) a in
  let found_id := existsb (attr_is s_id) kept in
  let found_from := existsb (attr_is s_from) kept in
  kept ++ (if negb (is_nil from) && negb found_from then [mk_attr s_from from] else [])
       ++ (if found_id then [] else [mk_attr s_id rand_id]).

Definition s_xmlns : bytes := str "xmlns".

Definition drop_xmlns (a : list attr) : list attr := filter (fun x => negb (attr_is s_xmlns x)) a.

(* stanzaEncoder.EncodeToken; [depth] before the token *)
Definition se_token (ns from : bytes) (depth : Z) (t : token) : token * Z :=
  match t with
  | TStart n a =>
      let d := (depth + 1)%Z in
      if (d =? 1)%Z && is_stanza_empty n
      then (TStart (if is_nil (nspace n) then mkname ns (nlocal n) else n) (se_attrs from a), d)
      else (t, d)
  | TEnd n =>
      ((if (depth =? 1)%Z && is_nil (nspace n) && is_stanza_empty n then TEnd (mkname ns (nlocal n)) else t),
       (depth - 1)%Z)
  | _ => (t, depth)
  end.

Fixpoint se_all (ns from : bytes) (depth : Z) (l : list token) : list token :=
  match l with
  | [] => []
  | t :: r => let '(t', d) := se_token ns from depth t in t' :: se_all ns from d r
  end.

(* what the observer's tokenizer reports for what xml.Encoder printed: an
   element without a name space inherits the innermost enclosing one *)
Fixpoint resolve (stk : list bytes) (dflt : bytes) (l : list token) : list token :=
  match l with
  | [] => []
  | TStart n a :: r =>
      let cur := match stk with s :: _ => s | [] => dflt end in
      let sp := if is_nil (nspace n) then cur else nspace n in
      TStart (mkname sp (nlocal n)) (drop_xmlns a) :: resolve (sp :: stk) dflt r
  | TEnd n :: r =>
      match stk with
      | s :: stk' => TEnd (mkname s (nlocal n)) :: resolve stk' dflt r
      | [] => TEnd n :: resolve [] dflt r
      end
  | t :: r => t :: resolve stk dflt r
  end.

Fixpoint merge_chars (l : list token) : list token :=
  match l with
  | TChar a :: r =>
      match merge_chars r with
      | TChar b :: r' => TChar (a ++ b) :: r'
      | r' => if is_nil a then r' else TChar a :: r'
      end
  | t :: r => t :: merge_chars r
  | [] => []
  end.

Definition wire_of (ns from : bytes) (l : list token) : list token :=
  merge_chars (resolve [] ns (se_all ns from 0%Z l)).

(* ---- comparison with observations ---- *)

Definition attr_eqb (x y : attr) : bool := name_eqb (aname x) (aname y) && bytes_eqb (aval x) (aval y).

(* model attribute against observed one: a generated id matches any non-empty value *)
Definition attr_match (m o : attr) : bool :=
  name_eqb (aname m) (aname o) &&
  (if bytes_eqb (aval m) rand_id then negb (is_nil (aval o)) else bytes_eqb (aval m) (aval o)).

Fixpoint list_eqb {A B} (eq : A -> B -> bool) (a : list A) (b : list B) : bool :=
  match a, b with
  | [], [] => true
  | x :: a', y :: b' => eq x y && list_eqb eq a' b'
  | _, _ => false
  end.

Definition token_match (m o : token) : bool :=
  match m, o with
  | TStart n a, TStart n' a' => name_eqb n n' && list_eqb attr_match a a'
  | TEnd n, TEnd n' => name_eqb n n'
  | TChar b, TChar b' => bytes_eqb b b'
  | TMisc k b, TMisc k' b' => Nat.eqb k k' && bytes_eqb b b'
  | _, _ => false
  end.

Definition token_eqb (m o : token) : bool :=
  match m, o with
  | TStart n a, TStart n' a' => name_eqb n n' && list_eqb attr_eqb a a'
  | TEnd n, TEnd n' => name_eqb n n'
  | TChar b, TChar b' => bytes_eqb b b'
  | TMisc k b, TMisc k' b' => Nat.eqb k k' && bytes_eqb b b'
  | _, _ => false
  end.

(* error classes the harness can tell apart: a jid or encoder error is just
   "some other error" there *)
Definition err_obs (e : err) : err := match e with EJid | EEncode => EOther | _ => e end.

Definition oerr_match (m o : option err) : bool :=
  match m, o with
  | None, None => true
  | Some a, Some b => err_eqb (err_obs a) (err_obs b)
  | _, _ => false
  end.

Definition rres_match (m o : rres) : bool :=
  (match fst m, fst o with
   | None, None => true
   | Some a, Some b => token_eqb a b
   | _, _ => false
   end) && oerr_match (snd m) (snd o).

Fixpoint failing {A} (ok : A -> bool) (i : nat) (l : list A) : list nat :=
  match l with
  | [] => []
  | x :: r => if ok x then failing ok (S i) r else i :: failing ok (S i) r
  end.
