(* C06/Properties.v — the property theorems of C06 and nothing else.
   "Every correlated wait ends exactly once with its own reply or its context error."

   Core mechanism (session.go sendResp / handleInputStream / iqResponder): the
   theorems quantify over every label sequence of the transition system of
   C06/Model.v — any number of calls, any ids and names (duplicates included),
   any arrival order and content of the peer's elements, any placement of
   cancellations, closes, send failures and select choices.  The only premise is
   [forallb wf_label tr = true]: the XML tokenizer never yields an element with an
   empty local name ([C06_precedence_hazard] shows what that premise excludes).
   [step true] is the repaired code, [step false] the pinned code. *)
From Coq Require Import List Arith NArith Bool.
Import ListNotations.
From XV Require Import lib.Lts C06.Model C06.Proofs.

(* A call that has returned has exactly one outcome, and it is legitimate: a
   response carries the call's id, the call's element kind and type
   result/error; the context error is returned only after the caller's context
   was cancelled. *)
Theorem C06_outcome_is_own_reply_or_ctx_error : forall fx tr s i r o c,
  forallb wf_label tr = true -> run (step fx) init tr = Some s ->
  nth_error (reqs s) i = Some r -> r_pc r = RRet o c ->
  match o with
  | OReply st => s_id st = r_id r /\ n_local (s_name st) = n_local (r_name r) /\ s_resp st = true
  | OCtxErr => r_canc r = true
  | OSendErr => True
  end.
Proof. exact outcome_valid_run. Qed.
Print Assumptions C06_outcome_is_own_reply_or_ctx_error.

(* At most one outcome: whatever happens after a call has returned — later,
   duplicate or unknown replies, cancellation, other calls with the same id —
   its recorded outcome stays the same (only "response closed" can turn true). *)
Theorem C06_at_most_one_outcome : forall fx tr s s' i r o c,
  run (step fx) s tr = Some s' ->
  nth_error (reqs s) i = Some r -> r_pc r = RRet o c ->
  exists r' c', nth_error (reqs s') i = Some r' /\ r_pc r' = RRet o c' /\
                r_id r' = r_id r /\ r_name r' = r_name r /\ (c = true -> c' = true).
Proof. intros fx tr. exact (outcome_stable_run fx tr). Qed.
Print Assumptions C06_at_most_one_outcome.

(* The life of a call is a line: registered, sent, {received | context done |
   send failed}, deregistered-and-returned, closed.  Every step of the system
   leaves every call where it is or moves it one position along that line. *)
Theorem C06_call_life_is_linear : forall fx s l s' j r,
  step fx s l = Some s' -> nth_error (reqs s) j = Some r ->
  exists r', nth_error (reqs s') j = Some r' /\
    r_id r' = r_id r /\ r_name r' = r_name r /\ (r_canc r = true -> r_canc r' = true) /\
    (r_pc r' = r_pc r \/ pc_next (r_pc r) (r_pc r')).
Proof. intros fx s l s' j r H Hj. exact (step_succ fx s l s' H j r Hj). Qed.
Print Assumptions C06_call_life_is_linear.

(* Every arrived element has exactly one fate: handed to one call, passed to the
   handler, or drained because the registered call's context was done at the
   hand-off.  A hand-off is exactly what that call holds/returned, and an element
   is never handed to two calls. *)
Theorem C06_reply_reaches_at_most_one : forall fx tr s,
  forallb wf_label tr = true -> run (step fx) init tr = Some s ->
  (forall e e', In e (hist s) -> In e' (hist s) -> ev_seq e = ev_seq e' -> e = e') /\
  (forall e, In e (hist s) -> ev_seq e < arrived s) /\
  (serve s = SIdle -> forall q, q < arrived s -> exists e, In e (hist s) /\ ev_seq e = q) /\
  (forall q i, In (EDeliver q i) (hist s) ->
     exists r st, nth_error (reqs s) i = Some r /\ s_seq st = q /\ has (r_pc r) st) /\
  (forall i r st, nth_error (reqs s) i = Some r -> has (r_pc r) st ->
     In (EDeliver (s_seq st) i) (hist s)) /\
  (forall q i, In (EDrop q i) (hist s) ->
     exists r, nth_error (reqs s) i = Some r /\ ctx_done fx r = true).
Proof. exact accounting_run. Qed.
Print Assumptions C06_reply_reaches_at_most_one.

(* Elements nobody waits for — not a reply, unknown/late/duplicate id (no table
   entry), or an entry of a different element kind — go to the handler, once. *)
Theorem C06_unmatched_goes_to_handler : forall fx s st,
  serve s = SRead st -> no_waiter s st ->
  exists s', run (step fx) s (handler_path st) = Some s' /\ serve s' = SIdle /\
             hist s' = hist s ++ [EHandle (s_seq st)] /\ reqs s' = reqs s /\ pend s' = pend s.
Proof. exact unmatched_to_handler. Qed.
Print Assumptions C06_unmatched_goes_to_handler.

(* Deregistration on return: every table entry belongs to a call that has not
   returned and that registered that id. *)
Theorem C06_deregistered_on_return : forall fx tr s id i,
  forallb wf_label tr = true -> run (step fx) init tr = Some s -> In (id, i) (pend s) ->
  exists r, nth_error (reqs s) i = Some r /\ r_id r = id /\ is_ret (r_pc r) = false.
Proof. exact pending_live_run. Qed.
Print Assumptions C06_deregistered_on_return.

(* No panic of the serve goroutine in the hand-off. *)
Theorem C06_no_panic : forall fx tr s,
  forallb wf_label tr = true -> run (step fx) init tr = Some s -> serve s <> SPanic.
Proof. exact no_panic_run. Qed.
Print Assumptions C06_no_panic.

(* No permanent stall (repaired code): in every reachable state the serve
   goroutine is idle (waiting for the peer), can take a step, or waits for a
   call that can itself take a step: a call that still has to send, a call
   that has to leave (after which serve is released, next theorem), or a call
   holding an unclosed response (the documented obligation of the caller). *)
Theorem C06_serve_progress : forall tr s,
  forallb wf_label tr = true -> run (step true) init tr = Some s -> serve_waits true s.
Proof. exact (serve_waits_run true). Qed.
Print Assumptions C06_serve_progress.

(* ... once the caller closes the response the serve loop continues. *)
Theorem C06_close_releases_serve : forall fx tr s i s1,
  forallb wf_label tr = true -> run (step fx) init tr = Some s ->
  step fx s (LClose i) = Some s1 ->
  (exists st, serve s = SAwait st i) /\ enabled fx s1 LAwaitDone.
Proof. intros fx tr s i s1 W R. exact (close_releases_serve fx s i s1 (Inv_run fx tr s W R)). Qed.
Print Assumptions C06_close_releases_serve.

(* ... a call that leaves without a response releases a pending offer; a call
   that completes its send can take the offer. *)
Theorem C06_return_releases_serve : forall tr s i s1 st,
  forallb wf_label tr = true -> run (step true) init tr = Some s ->
  serve s = SOffer st i -> step true s (LDereg i) = Some s1 -> enabled true s1 LOfferCtx.
Proof. intros tr s i s1 st W R. exact (return_releases_serve s i s1 st (Inv_run true tr s W R)). Qed.
Print Assumptions C06_return_releases_serve.

Theorem C06_send_then_receive : forall fx s i s1 st,
  serve s = SOffer st i -> step fx s (LSendOk i) = Some s1 -> enabled fx s1 (LRecv i).
Proof. exact send_then_recv. Qed.
Print Assumptions C06_send_then_receive.

(* A call never gets stuck on its own: it is at its select (waiting for the
   reply or its context; cancelled => can leave) or has an enabled step. *)
Theorem C06_call_progress : forall fx s i r,
  nth_error (reqs s) i = Some r ->
  match r_pc r with
  | RReg => enabled fx s (LSendOk i) /\ enabled fx s (LSendFail i)
  | RSelect => r_canc r = true -> enabled fx s (LCtxDone i)
  | RGot _ | RCtx | RSendErr => enabled fx s (LDereg i)
  | RRet _ _ => True
  end.
Proof. exact requester_waits. Qed.
Print Assumptions C06_call_progress.

(* The pinned code violates "no permanent stall": a reply that is looked up
   while the call is between registration and a failing SendElement leaves the
   serve goroutine offering to a call that has returned; unless that caller's
   context happens to be cancelled later, serve never moves again. *)
Theorem C06_serve_progress_pinned_refuted :
  exists s st, run (step false) init stall_trace = Some s /\ stalled s st 0 /\
    forall tr s', ~ In (LCancel 0) tr -> run (step false) s tr = Some s' ->
                  serve s' = SOffer st 0.
Proof. exact pinned_stall. Qed.
Print Assumptions C06_serve_progress_pinned_refuted.

(* What the well-formedness premise excludes: the condition
   `ok && a == b || a == c` is true for a missing entry when the element's local
   name is empty, and the zero-value entry (nil channel, nil context) is used. *)
Theorem C06_precedence_hazard :
  exists s, run (step true) init [LArrive 5 (mkname 1 0) true; LLookup; LDecide] = Some s /\
            serve s = SPanic.
Proof. exact panic_hazard. Qed.
Print Assumptions C06_precedence_hazard.
