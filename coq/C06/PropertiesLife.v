(* C06/PropertiesLife.v — property theorems of C06 about (1) the life of a
   response after the hand-off and (2) an in-band bytestream writer waiting for
   its acknowledgement while the peer's close request is handled.  Nothing else.

   (1) quantifies over every sequence of reader operations — reads that
   succeed, reads that fail at any position (truncated or ill-formed reply),
   explicit closes, in any order and number: a caller that reads everything,
   stops early, reads past an error, or closes twice.  (2) quantifies over
   every interleaving of writes, acknowledgements, write deadlines and a close
   request. *)
From Coq Require Import List Arith NArith Bool.
Import ListNotations.
From XV Require Import lib.Lts C06.Model C06.ModelLife C06.ProofsLife.

(* ====================================================================== *)
(* The response handed to IterIQ / IterIQElement (errCloser)               *)
(* ====================================================================== *)

(* Whatever the library and the caller do with the reader: no close of a closed
   channel, the serve loop is released at most once, and it is released
   exactly once as soon as a read has failed or Close was called. *)
Theorem C06_response_closed_exactly_once : forall ridem tr s,
  run (rl_step (cfg_iter TCGuarded ridem)) rl_init tr = Some s ->
  rl_panic s = false /\ rl_released s <= 1 /\
  (In RTokErr tr \/ In RClose tr -> rl_released s = 1 /\ rl_uclosed s = true).
Proof. exact guarded_exactly_once. Qed.
Print Assumptions C06_response_closed_exactly_once.

(* iterIQ returning an error (reply ill-formed while it is being parsed, or an
   error reply): the response has been closed, once, when it returns. *)
Theorem C06_iter_error_path_closes_once : forall ridem reads s,
  run (rl_step (cfg_iter TCGuarded ridem)) rl_init (iter_parse_prog reads true) = Some s ->
  rl_panic s = false /\ rl_released s = 1.
Proof. exact iter_parse_error_closes_once. Qed.
Print Assumptions C06_iter_error_path_closes_once.

(* What the table lemma [errcloser_routes_through_guard] excludes: a failing
   Token that closes the embedded responder directly (second close by the
   deferred Close: panic), or that closes nothing (serve loop never released). *)
Theorem C06_response_direct_close_refuted :
  exists s, run (rl_step (cfg_iter TCDirect false)) rl_init [RTokErr; RClose] = Some s /\ rl_panic s = true.
Proof. exact direct_close_panics. Qed.
Print Assumptions C06_response_direct_close_refuted.

Theorem C06_response_no_close_on_error_refuted :
  exists s, run (rl_step (cfg_iter TCNone false)) rl_init [RTokOk; RTokErr] = Some s /\ rl_released s = 0.
Proof. exact no_close_on_error_stalls. Qed.
Print Assumptions C06_response_no_close_on_error_refuted.

(* ====================================================================== *)
(* The response returned by Send* / Encode*, and inside Unmarshal*         *)
(* ====================================================================== *)

(* UnmarshalIQ / UnmarshalIQElement: any reads, any failures, then the
   deferred Close: exactly one close, no panic. *)
Theorem C06_unmarshal_closes_once : forall ridem reads s,
  forallb (fun l => negb (is_close l)) reads = true ->
  run (rl_step (cfg_raw ridem)) rl_init (unmarshal_prog reads) = Some s ->
  rl_panic s = false /\ rl_released s = 1.
Proof. exact unmarshal_closes_once. Qed.
Print Assumptions C06_unmarshal_closes_once.

(* The responder returned to the caller: full statement (no panic, released
   at most once, whatever the caller does) ... *)
Definition C06_raw_response_statement (ridem : bool) : Prop :=
  forall tr s, run (rl_step (cfg_raw ridem)) rl_init tr = Some s -> rl_panic s = false /\ rl_released s <= 1.

(* ... holds for a responder whose Close tolerates a second call, *)
Theorem C06_raw_response_idempotent : C06_raw_response_statement true.
Proof. exact raw_idem_run. Qed.
Print Assumptions C06_raw_response_idempotent.

(* ... is false of a responder that closes its channel unconditionally
   (iqResponder.Close as it is): a caller that closes twice panics, *)
Theorem C06_raw_response_refuted :
  exists s, run (rl_step (cfg_raw false)) rl_init [RTokOk; RClose; RClose] = Some s /\ rl_panic s = true.
Proof. exact raw_double_close_panics. Qed.
Print Assumptions C06_raw_response_refuted.

(* ... and holds for it when the caller closes at most once; exactly one
   Close releases the serve loop exactly once. *)
Theorem C06_raw_response_partial : forall tr s,
  run (rl_step (cfg_raw false)) rl_init tr = Some s -> count_close tr <= 1 -> rl_panic s = false.
Proof. exact raw_at_most_one_close. Qed.
Print Assumptions C06_raw_response_partial.

Theorem C06_raw_response_one_close : forall tr ridem s,
  run (rl_step (cfg_raw ridem)) rl_init tr = Some s -> count_close tr = 1 ->
  rl_panic s = false /\ rl_released s = 1.
Proof. exact raw_one_close. Qed.
Print Assumptions C06_raw_response_one_close.

(* ====================================================================== *)
(* IBB: a writer waiting for its acknowledgement vs. the peer's close      *)
(* ====================================================================== *)

(* The serve goroutine is never blocked on the write lock ... *)
Theorem C06_ibb_close_never_blocks_serve : forall tr s,
  run (iw_step false false) iw_init tr = Some s -> iw_v s <> VBlocked.
Proof. exact iw_never_blocked_run. Qed.
Print Assumptions C06_ibb_close_never_blocks_serve.

(* ... serve progress on every schedule: free, or its next step is enabled *)
Theorem C06_ibb_close_serve_progress : forall tr s,
  run (iw_step false false) iw_init tr = Some s -> iw_serve_waits false s.
Proof. exact iw_serve_progress_run. Qed.
Print Assumptions C06_ibb_close_serve_progress.

(* ... the close request is answered whatever the writer is doing or has suffered *)
Theorem C06_ibb_close_completes : forall s,
  iw_v s = VClose ->
  exists s1, iw_step false false s VTry = Some s1 /\
    (iw_v s1 = VIdle /\ iw_closed s1 = true \/
     exists s2, iw_step false false s1 VFlushDone = Some s2 /\ iw_v s2 = VIdle /\ iw_closed s2 = true).
Proof. exact iw_close_completes. Qed.
Print Assumptions C06_ibb_close_completes.

(* ... and Serve never ends in the close handler *)
Theorem C06_ibb_close_never_ends_serve : forall tr s,
  run (iw_step false false) iw_init tr = Some s -> iw_v s <> VEnded.
Proof. exact iw_never_ended_run. Qed.
Print Assumptions C06_ibb_close_never_ends_serve.

(* The pinned design let the stale error of a refused data packet escape from
   the close handler: Serve ended, the close request was not answered
   (repaired by 02a6c9c). *)
Theorem C06_ibb_close_stale_error_pinned_refuted :
  exists s, run (iw_step false true) iw_init [WStart; WSend; WAck false; VCloseArrive; VTry; VFlushDone] = Some s /\
    iw_v s = VEnded /\ iw_closed s = false.
Proof. exact iw_stale_error_ends_serve_pinned. Qed.
Print Assumptions C06_ibb_close_stale_error_pinned_refuted.

(* ... the writer can always go on, or waits for a reply the free serve goroutine can deliver *)
Theorem C06_ibb_writer_progress : forall b s, iw_writer_waits b s.
Proof. exact iw_writer_progress. Qed.
Print Assumptions C06_ibb_writer_progress.

Theorem C06_ibb_overtaken_writer_is_aborted : forall s s1,
  iw_v s = VClose -> writer_holds s = true -> iw_step false false s VTry = Some s1 ->
  iw_aborted s1 = true /\ iw_w s1 = iw_w s.
Proof. exact iw_aborted_after_overtaking. Qed.
Print Assumptions C06_ibb_overtaken_writer_is_aborted.

(* What the table lemma [ibb_serve_close_never_waits_for_writer] excludes: a
   blocking Lock in the close path; when the close overtakes the
   acknowledgement only the writer's own deadline gets anybody out. *)
Theorem C06_ibb_blocking_close_refuted :
  exists s, run (iw_step true false) iw_init overtake_trace = Some s /\
    iw_w s = WWait /\ iw_v s = VBlocked /\
    forall l, iw_enabled true s l -> l = WDeadline.
Proof. exact iw_blocking_deadlock. Qed.
Print Assumptions C06_ibb_blocking_close_refuted.

(* ====================================================================== *)
(* IBB: the table of expected sessions (Expect / handleOpen)               *)
(* ====================================================================== *)

(* For every history of Expect calls for one session — take-overs,
   cancellations, give-ups in any order — and open requests: the entry of an
   Expect call that is waiting with a live context is never removed by another
   call; it stays in the table until an open request takes it for that call. *)
Theorem C06_ibb_expect_entry_is_kept : forall tr s i,
  run (ex_step true) ex_init tr = Some s -> ex_live s i -> ex_tab s = Some i \/ ex_h s = OOffer i.
Proof. exact ex_live_entry_run. Qed.
Print Assumptions C06_ibb_expect_entry_is_kept.

(* ... and an open request is delivered to it: the serve goroutine is not left
   waiting for an Accept call *)
Theorem C06_ibb_expect_open_is_delivered : forall tr s i,
  run (ex_step true) ex_init tr = Some s -> ex_live s i -> ex_h s = OIdle ->
  exists s1 s2, ex_step true s OArrive = Some s1 /\ ex_h s1 = OOffer i /\
                ex_step true s1 (ODeliver i) = Some s2 /\ ex_h s2 = OIdle /\
                exists c, nth_error (ex_calls s2) i = Some c /\ e_pc c = ERet EConn.
Proof. exact ex_open_is_delivered. Qed.
Print Assumptions C06_ibb_expect_open_is_delivered.

(* a call that gives up removes its own entry *)
Theorem C06_ibb_expect_cleanup_removes_own : forall s i c,
  nth_error (ex_calls s) i = Some c -> e_pc c = EGiveUp -> ex_tab s = Some i ->
  exists s', ex_step true s (ECleanup i) = Some s' /\ ex_tab s' = None.
Proof. exact ex_cleanup_removes_own. Qed.
Print Assumptions C06_ibb_expect_cleanup_removes_own.

(* What the table lemma [ibb_expect_removes_only_its_own_entry] excludes: a
   cleanup without the ownership test.  The cancelled first call removes the
   entry of the second one that took over; the open request finds nobody, the
   serve goroutine waits for an Accept call (and nothing else releases it)
   while the second Expect is still waiting. *)
Theorem C06_ibb_expect_no_owner_check_refuted :
  exists s, run (ex_step false) ex_init takeover_trace = Some s /\
    ex_live s 1 /\ ex_tab s = None /\ ex_h s = OAccept /\
    forall l s', ex_step false s l = Some s' -> l <> AAccept -> ex_h s' = OAccept.
Proof. exact ex_no_owner_check_loses_entry. Qed.
Print Assumptions C06_ibb_expect_no_owner_check_refuted.

(* ====================================================================== *)
(* The id a blocking call registers is the id on the wire                  *)
(* ====================================================================== *)

(* For every start element — no id attribute, id="", a caller-chosen id, only a
   namespace-qualified id, in any attribute order — the key under which
   Send* registers the call equals the id the peer sees, and it is not
   empty: a reply that carries the id from the wire is looked up under the
   call's key. *)
Theorem C06_registered_id_is_wire_id : forall attrs fresh fresh2,
  fresh <> 0%N ->
  let (key, wire) := send_ids GenWhenEmpty attrs fresh fresh2 in key = wire /\ key <> 0%N.
Proof. exact key_is_wire_id. Qed.
Print Assumptions C06_registered_id_is_wire_id.

Theorem C06_chosen_id_is_kept : forall attrs fresh fresh2 k v,
  find_id attrs 0 = Some (k, v) -> v <> 0%N -> send_ids GenWhenEmpty attrs fresh fresh2 = (v, v).
Proof. exact chosen_id_is_kept. Qed.
Print Assumptions C06_chosen_id_is_kept.

(* What the table lemma [send_generates_id_whenever_empty] excludes. *)
Theorem C06_id_generated_only_when_absent_refuted :
  send_ids GenWhenAbsent (id_shape 1 0) 1000 2000 = (0%N, 2000%N).
Proof. exact absent_only_breaks_empty_id. Qed.
Print Assumptions C06_id_generated_only_when_absent_refuted.

(* ====================================================================== *)
(* Receipts behind the multiplexer (receipts.Handle)                       *)
(* ====================================================================== *)
From XV Require Import C06.ModelExt C06.ProofsRx.

(* With the handler registered for every message type (table lemma
   [receipts_registered_for_every_message_type]) no receipt is lost in the
   multiplexer, and every schedule of the routed system is a schedule of the
   receipts system, so the receipts theorems of PropertiesExt.v hold behind the
   multiplexer for every message type. *)
Theorem C06_receipts_routed_for_every_type : forall s ty id,
  rxr_step routes_all s (RUnrouted ty id) = None.
Proof. exact rxr_never_unrouted. Qed.
Print Assumptions C06_receipts_routed_for_every_type.

Theorem C06_receipts_routed_refines : forall tr s s',
  run (rxr_step routes_all) s tr = Some s' -> run (rx_step true) s (rxr_project tr) = Some s'.
Proof. exact rxr_projects. Qed.
Print Assumptions C06_receipts_routed_refines.

Theorem C06_receipts_routed_outcome : forall tr s i x o,
  run (rxr_step routes_all) rx_init tr = Some s -> nth_error (rx_snd s) i = Some x -> x_pc x = XRet o ->
  match o with
  | XOk => exists q, In (RNotified q (x_id x) i) (rx_hist s)
  | XCtxErr => x_canc x = true
  | XSendErr => True
  end.
Proof. exact rxr_outcome_run. Qed.
Print Assumptions C06_receipts_routed_outcome.

(* a receipt of any message type brings its sender back with nil *)
Theorem C06_receipts_receipt_of_any_type_returns : forall ty,
  exists s, run (rxr_step routes_all) rx_init
              [RL (XStart 1); RL (XSendOk 0); RArrive ty 1; RL XLookup; RL XNotify; RL (XRecv 0)] = Some s /\
            map snd_code (rx_snd s) = [XCOk].
Proof. exact rxr_receipt_reaches_sender. Qed.
Print Assumptions C06_receipts_receipt_of_any_type_returns.

(* What the table lemma excludes: a registration without "headline". *)
Theorem C06_receipts_missing_type_refuted :
  exists s x, run (rxr_step routes_without_headline) rx_init
                [RL (XStart 1); RL (XSendOk 0); RUnrouted 3 1] = Some s /\
    nth_error (rx_snd s) 0 = Some x /\ x_pc x = XWait /\ x_tok x = false /\ rx_h s = HIdle /\ rx_hist s = [] /\
    rxr_step routes_without_headline s (RArrive 3 1) = None /\
    rxr_step routes_without_headline s (RL (XRecv 0)) = None /\
    rxr_step routes_without_headline s (RL (XCtxDone 0)) = None.
Proof. exact rxr_missing_type_loses_receipt. Qed.
Print Assumptions C06_receipts_missing_type_refuted.
