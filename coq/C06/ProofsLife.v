(* C06/ProofsLife.v — lemmas about the transition systems of C06/ModelLife.v. *)
From Coq Require Import List Arith NArith Bool Lia.
Import ListNotations.
From XV Require Import lib.Lts C06.Model C06.ModelLife C06.Proofs.

(* ====================================================================== *)
(* 1. The life of a response                                               *)
(* ====================================================================== *)

Ltac rl_break H := repeat match type of H with
  | context [match ?x with _ => _ end] => destruct x eqn:?; try discriminate
  end.

(* "released" counts exactly the first underlying close *)
Definition rl_consistent (s : rlstate) : Prop :=
  rl_released s = (if rl_uclosed s then 1 else 0) /\ (rl_once s = true -> rl_uclosed s = true).

Lemma rl_consistent_init : rl_consistent rl_init.
Proof. split; [reflexivity|discriminate]. Qed.

Lemma uclose_consistent c s : rl_consistent s -> rl_consistent (uclose c s).
Proof.
  intros [A B]. unfold uclose, rl_consistent. destruct (rl_uclosed s) eqn:E.
  - destruct (rl_ridem c); cbn; rewrite ?E; auto.
  - cbn. split; [lia|auto].
Qed.

Lemma gclose_consistent c s : rl_consistent s -> rl_consistent (gclose c s).
Proof.
  intros [A B]. unfold gclose. destruct (rl_once s) eqn:E; [split; auto|].
  unfold uclose, rl_consistent. cbn. destruct (rl_uclosed s) eqn:Eu.
  - destruct (rl_ridem c); cbn; rewrite ?Eu; auto.
  - cbn. split; [lia|auto].
Qed.

Lemma rl_step_consistent c s l s' : rl_consistent s -> rl_step c s l = Some s' -> rl_consistent s'.
Proof.
  intros I H. unfold rl_step in H. destruct (rl_panic s); [discriminate|].
  destruct l.
  - destruct (rl_uclosed s); [discriminate|]. injection H as <-. exact I.
  - destruct (rl_guard c); [|injection H as <-; exact I].
    destruct (rl_tokclose c); injection H as <-; auto using uclose_consistent, gclose_consistent.
  - destruct (rl_guard c); injection H as <-; auto using uclose_consistent, gclose_consistent.
Qed.

Lemma rl_consistent_run c tr s : run (rl_step c) rl_init tr = Some s -> rl_consistent s.
Proof.
  apply (invariant_run _ _ (rl_step c) rl_consistent rl_init rl_consistent_init).
  intros s0 l s1 I H. exact (rl_step_consistent c s0 l s1 I H).
Qed.

(* ---- the guarded reader (IterIQ): whatever the caller does ---- *)

(* every underlying close goes through the guard *)
Definition guarded_inv (s : rlstate) : Prop :=
  rl_panic s = false /\ (rl_uclosed s = true -> rl_once s = true).

Lemma guarded_step ridem s l s' :
  guarded_inv s -> rl_step (cfg_iter TCGuarded ridem) s l = Some s' -> guarded_inv s'.
Proof.
  intros [P U] H. unfold rl_step in H. rewrite P in H. cbn [rl_guard rl_tokclose cfg_iter] in H.
  assert (G : guarded_inv (gclose (cfg_iter TCGuarded ridem) s)).
  { unfold gclose. destruct (rl_once s) eqn:E; [split; auto|].
    unfold uclose. cbn. destruct (rl_uclosed s) eqn:Eu; [discriminate (U eq_refl)|].
    cbn. split; auto. }
  destruct l.
  - destruct (rl_uclosed s) eqn:Eu; [discriminate|]. injection H as <-. split; [exact P|intro X; congruence].
  - injection H as <-. exact G.
  - injection H as <-. exact G.
Qed.

Lemma guarded_run ridem tr s :
  run (rl_step (cfg_iter TCGuarded ridem)) rl_init tr = Some s -> guarded_inv s.
Proof.
  apply (invariant_run _ _ (rl_step (cfg_iter TCGuarded ridem)) guarded_inv rl_init).
  - split; [reflexivity|discriminate].
  - intros s0 l s1 I H. exact (guarded_step ridem s0 l s1 I H).
Qed.

(* a failing Token or a Close releases the serve loop, for good *)
Lemma guarded_closes_step ridem s l s' :
  rl_step (cfg_iter TCGuarded ridem) s l = Some s' ->
  (rl_once s = true -> rl_once s' = true) /\ (l = RTokErr \/ l = RClose -> rl_once s' = true).
Proof.
  intro H. unfold rl_step in H. destruct (rl_panic s); [discriminate|]. cbn [rl_guard rl_tokclose cfg_iter] in H.
  assert (G : rl_once (gclose (cfg_iter TCGuarded ridem) s) = true).
  { unfold gclose. destruct (rl_once s) eqn:E; [exact E|]. unfold uclose. cbn.
    destruct (rl_uclosed s); [destruct ridem|]; reflexivity. }
  destruct l.
  - destruct (rl_uclosed s); [discriminate|]. injection H as <-. split; [auto|intros [X|X]; discriminate].
  - injection H as <-. split; auto.
  - injection H as <-. split; auto.
Qed.

Lemma guarded_closes_run ridem tr : forall s s',
  run (rl_step (cfg_iter TCGuarded ridem)) s tr = Some s' ->
  (rl_once s = true -> rl_once s' = true) /\ (In RTokErr tr \/ In RClose tr -> rl_once s' = true).
Proof.
  induction tr as [|l tr IH]; intros s s' R; cbn [run] in R.
  - injection R as <-. split; [auto|intros [[]|[]]].
  - destruct (rl_step (cfg_iter TCGuarded ridem) s l) as [s1|] eqn:E; [|discriminate].
    destruct (guarded_closes_step ridem s l s1 E) as [A B]. destruct (IH s1 s' R) as [C D].
    split; [auto|]. intros [[E1|X]|[E1|X]];
      [apply C, B; left; auto|apply D; left; exact X|apply C, B; right; auto|apply D; right; exact X].
Qed.

Lemma guarded_exactly_once ridem tr s :
  run (rl_step (cfg_iter TCGuarded ridem)) rl_init tr = Some s ->
  rl_panic s = false /\ rl_released s <= 1 /\
  (In RTokErr tr \/ In RClose tr -> rl_released s = 1 /\ rl_uclosed s = true).
Proof.
  intro R. destruct (guarded_run ridem tr s R) as [P U].
  destruct (rl_consistent_run _ tr s R) as [C O]. destruct (guarded_closes_run ridem tr _ s R) as [_ D].
  split; [exact P|]. split; [rewrite C; destruct (rl_uclosed s); lia|].
  intro X. specialize (D X). rewrite (O D) in C. auto.
Qed.

(* ---- the raw responder (Send, Encode and Unmarshal helpers) ---- *)

Fixpoint count_close (tr : list rllabel) : nat :=
  match tr with
  | [] => 0
  | RClose :: r => S (count_close r)
  | _ :: r => count_close r
  end.

Lemma count_close_app a b : count_close (a ++ b) = count_close a + count_close b.
Proof. induction a as [|x a IH]; cbn; [reflexivity|]. destruct x; rewrite IH; reflexivity. Qed.

(* raw, idempotent responder: never a panic *)
Lemma raw_idem_step s l s' :
  rl_panic s = false -> rl_step (cfg_raw true) s l = Some s' -> rl_panic s' = false.
Proof.
  intros P H. unfold rl_step in H. rewrite P in H. cbn [rl_guard cfg_raw] in H. destruct l.
  - destruct (rl_uclosed s); [discriminate|]. injection H as <-. exact P.
  - injection H as <-. exact P.
  - injection H as <-. unfold uclose. cbn. destruct (rl_uclosed s); cbn; exact P.
Qed.

Lemma raw_idem_run tr s :
  run (rl_step (cfg_raw true)) rl_init tr = Some s ->
  rl_panic s = false /\ rl_released s <= 1.
Proof.
  intro R. split.
  - revert R. apply (invariant_run _ _ (rl_step (cfg_raw true)) (fun s => rl_panic s = false) rl_init eq_refl).
    intros s0 l s1 I H. exact (raw_idem_step s0 l s1 I H).
  - destruct (rl_consistent_run _ tr s R) as [C _]. rewrite C. destruct (rl_uclosed s); lia.
Qed.

(* raw responder, any [ridem]: the number of underlying closes is the number of Close calls *)
Definition raw_inv (ridem : bool) (n : nat) (s : rlstate) : Prop :=
  (n = 0 -> rl_uclosed s = false /\ rl_panic s = false) /\
  (n = 1 -> rl_uclosed s = true /\ rl_panic s = false) /\
  (2 <= n -> rl_uclosed s = true /\ rl_panic s = negb ridem).

Lemma raw_count_run ridem tr : forall s s' n,
  raw_inv ridem n s -> run (rl_step (cfg_raw ridem)) s tr = Some s' -> raw_inv ridem (n + count_close tr) s'.
Proof.
  induction tr as [|l tr IH]; intros s s' n I R; cbn [run] in R.
  - injection R as <-. cbn. rewrite Nat.add_0_r. exact I.
  - destruct (rl_step (cfg_raw ridem) s l) as [s1|] eqn:E; [|discriminate].
    unfold rl_step in E. destruct (rl_panic s) eqn:P; [discriminate|]. cbn [rl_guard cfg_raw] in E.
    destruct I as (I0 & I1 & I2).
    destruct l; cbn [count_close].
    + destruct (rl_uclosed s) eqn:Eu; [discriminate|]. injection E as <-.
      apply (IH s s' n); [unfold raw_inv; rewrite Eu; exact (conj I0 (conj I1 I2))|exact R].
    + injection E as <-. apply (IH s s' n); [exact (conj I0 (conj I1 I2))|exact R].
    + injection E as <-. replace (n + S (count_close tr)) with (S n + count_close tr) by lia.
      apply (IH (uclose (cfg_raw ridem) s) s' (S n)); [|exact R].
      unfold uclose. cbn [rl_ridem cfg_raw]. destruct n as [|[|n]].
      * destruct (I0 eq_refl) as [U _]. rewrite U. repeat split; intros; try lia; cbn; auto.
      * destruct (I1 eq_refl) as [U _]. rewrite U. destruct ridem; repeat split; intros; try lia; cbn; auto.
      * destruct (I2 ltac:(lia)) as [U Pn]. rewrite U. rewrite P in Pn.
        destruct ridem; [|discriminate]. repeat split; intros; try lia; auto.
Qed.

Lemma raw_one_close tr ridem s :
  run (rl_step (cfg_raw ridem)) rl_init tr = Some s -> count_close tr = 1 ->
  rl_panic s = false /\ rl_released s = 1.
Proof.
  intros R C.
  assert (I0 : raw_inv ridem 0 rl_init) by (repeat split; intros; try lia; reflexivity).
  pose proof (raw_count_run ridem tr rl_init s 0 I0 R) as (_ & I1 & _). cbn in I1. destruct (I1 C) as [U P].
  split; [exact P|]. destruct (rl_consistent_run _ tr s R) as [K _]. rewrite K, U. reflexivity.
Qed.

Lemma raw_at_most_one_close tr s :
  run (rl_step (cfg_raw false)) rl_init tr = Some s -> count_close tr <= 1 -> rl_panic s = false.
Proof.
  intros R C.
  assert (I0 : raw_inv false 0 rl_init) by (repeat split; intros; try lia; reflexivity).
  pose proof (raw_count_run false tr rl_init s 0 I0 R) as (J0 & J1 & _). cbn in J0, J1.
  destruct (count_close tr) as [|[|n]]; [apply J0|apply J1|lia]; reflexivity.
Qed.

(* the helpers close exactly once on every path *)
Lemma no_close_count reads : forallb (fun l => negb (is_close l)) reads = true -> count_close reads = 0.
Proof.
  induction reads as [|x r IH]; cbn; [reflexivity|]. intro H. apply andb_prop in H. destruct H as [A B].
  destruct x; try discriminate; auto.
Qed.

Lemma unmarshal_closes_once ridem reads s :
  forallb (fun l => negb (is_close l)) reads = true ->
  run (rl_step (cfg_raw ridem)) rl_init (unmarshal_prog reads) = Some s ->
  rl_panic s = false /\ rl_released s = 1.
Proof.
  intros N R. apply (raw_one_close _ ridem s R). unfold unmarshal_prog.
  rewrite count_close_app, (no_close_count reads N). reflexivity.
Qed.

Lemma iter_parse_error_closes_once ridem reads s :
  run (rl_step (cfg_iter TCGuarded ridem)) rl_init (iter_parse_prog reads true) = Some s ->
  rl_panic s = false /\ rl_released s = 1.
Proof.
  intro R. destruct (guarded_exactly_once ridem _ s R) as (P & _ & C). split; [exact P|].
  apply C. right. unfold iter_parse_prog. apply in_or_app. right. left. reflexivity.
Qed.

(* ---- what the table lemmas exclude ---- *)

(* a failing Token that closes the embedded responder directly, then the
   deferred Close of iterIQ: close of closed channel *)
Lemma direct_close_panics :
  exists s, run (rl_step (cfg_iter TCDirect false)) rl_init [RTokErr; RClose] = Some s /\ rl_panic s = true.
Proof. eexists. split; [vm_compute; reflexivity|reflexivity]. Qed.

(* a failing Token that closes nothing, and a caller that then stops: the serve loop is never released *)
Lemma no_close_on_error_stalls :
  exists s, run (rl_step (cfg_iter TCNone false)) rl_init [RTokOk; RTokErr] = Some s /\ rl_released s = 0.
Proof. eexists. split; [vm_compute; reflexivity|reflexivity]. Qed.

(* the raw responder closed twice by its caller *)
Lemma raw_double_close_panics :
  exists s, run (rl_step (cfg_raw false)) rl_init [RTokOk; RClose; RClose] = Some s /\ rl_panic s = true.
Proof. eexists. split; [vm_compute; reflexivity|reflexivity]. Qed.

(* ====================================================================== *)
(* 2. IBB writer vs. the peer's close                                      *)
(* ====================================================================== *)

Definition iw_enabled (b : bool) (s : iwstate) (l : iwlabel) : Prop := iw_step b false s l <> None.

Ltac iw_break H := repeat match type of H with
  | context [match ?x with _ => _ end] => destruct x eqn:?; try discriminate
  end.

(* the serve goroutine never waits for the write lock *)
Lemma iw_never_blocked_step s l s' : iw_v s <> VBlocked -> iw_step false false s l = Some s' -> iw_v s' <> VBlocked.
Proof.
  intros N H. destruct l; cbn [iw_step] in H; iw_break H; injection H as <-; cbn; congruence.
Qed.

Lemma iw_never_blocked_run tr s : run (iw_step false false) iw_init tr = Some s -> iw_v s <> VBlocked.
Proof.
  apply (invariant_run _ _ (iw_step false false) (fun s => iw_v s <> VBlocked) iw_init).
  - discriminate.
  - intros s0 l s1 I H. exact (iw_never_blocked_step s0 l s1 I H).
Qed.

(* ... and never ends in the close handler *)
Lemma iw_never_ended_step s l s' : iw_v s <> VEnded -> iw_step false false s l = Some s' -> iw_v s' <> VEnded.
Proof.
  intros N H. destruct l; cbn [iw_step] in H; iw_break H; injection H as <-; cbn; congruence.
Qed.

Lemma iw_never_ended_run tr s : run (iw_step false false) iw_init tr = Some s -> iw_v s <> VEnded.
Proof.
  apply (invariant_run _ _ (iw_step false false) (fun s => iw_v s <> VEnded) iw_init).
  - discriminate.
  - intros s0 l s1 I H. exact (iw_never_ended_step s0 l s1 I H).
Qed.

(* serve progress: in every reachable state the serve goroutine is free or its next step is enabled *)
Definition iw_serve_waits (b : bool) (s : iwstate) : Prop :=
  match iw_v s with
  | VIdle => True
  | VClose => iw_enabled b s VTry
  | VFlush => iw_enabled b s VFlushDone
  | VBlocked => False
  | VEnded => False
  end.

Lemma iw_serve_progress_run tr s : run (iw_step false false) iw_init tr = Some s -> iw_serve_waits false s.
Proof.
  intro R. pose proof (iw_never_blocked_run tr s R) as N. pose proof (iw_never_ended_run tr s R) as N2.
  unfold iw_serve_waits, iw_enabled.
  destruct (iw_v s) eqn:E; auto; cbn [iw_step]; rewrite ?E; try discriminate.
  destruct (writer_holds s); discriminate.
Qed.

(* writer progress: it can always go on, or waits for a reply that the (free) serve goroutine can deliver *)
Definition iw_writer_waits (b : bool) (s : iwstate) : Prop :=
  match iw_w s with
  | WIdle => True
  | WHold => iw_enabled b s WSend
  | WWait => iw_v s = VIdle -> iw_enabled b s (WAck true)
  | WRet _ => iw_enabled b s WAgain
  end.

Lemma iw_writer_progress b s : iw_writer_waits b s.
Proof.
  unfold iw_writer_waits, iw_enabled. destruct (iw_w s) eqn:E; auto; cbn [iw_step]; rewrite E; try discriminate.
  - intros ->. discriminate.
Qed.

(* the close request is always answered, whatever the writer does *)
Lemma iw_close_completes s :
  iw_v s = VClose ->
  exists s1, iw_step false false s VTry = Some s1 /\
    (iw_v s1 = VIdle /\ iw_closed s1 = true \/
     exists s2, iw_step false false s1 VFlushDone = Some s2 /\ iw_v s2 = VIdle /\ iw_closed s2 = true).
Proof.
  intros E. cbn [iw_step]. rewrite E. destruct (writer_holds s).
  - eexists. split; [reflexivity|]. left. split; reflexivity.
  - eexists. split; [reflexivity|]. right. cbn. eexists. split; [reflexivity|]. split; reflexivity.
Qed.

(* the pinned design: a refused data packet, then the peer's close: the stale
   write error escapes from the close handler, Serve ends, the request is not answered *)
Lemma iw_stale_error_ends_serve_pinned :
  exists s, run (iw_step false true) iw_init [WStart; WSend; WAck false; VCloseArrive; VTry; VFlushDone] = Some s /\
    iw_v s = VEnded /\ iw_closed s = false.
Proof. eexists. split; [vm_compute; reflexivity|]. split; reflexivity. Qed.

(* the same schedule on the code *)
Lemma iw_stale_error_code :
  exists s, run (iw_step false false) iw_init [WStart; WSend; WAck false; VCloseArrive; VTry; VFlushDone] = Some s /\
    iw_v s = VIdle /\ iw_closed s = true /\ iw_broken s = true.
Proof. eexists. split; [vm_compute; reflexivity|]. repeat split. Qed.

(* a writer overtaken by the close is told to stop: its next packet fails *)
Lemma iw_aborted_after_overtaking s s1 :
  iw_v s = VClose -> writer_holds s = true -> iw_step false false s VTry = Some s1 -> iw_aborted s1 = true /\ iw_w s1 = iw_w s.
Proof.
  intros E W H. cbn [iw_step] in H. rewrite E, W in H. injection H as <-. split; reflexivity.
Qed.

(* a blocking Lock on the serve goroutine: close overtakes the acknowledgement
   and nothing but the writer's own deadline gets anybody out *)
Definition overtake_trace : list iwlabel := [WStart; WSend; VCloseArrive; VTry].

Lemma iw_blocking_deadlock :
  exists s, run (iw_step true false) iw_init overtake_trace = Some s /\
    iw_w s = WWait /\ iw_v s = VBlocked /\
    forall l, iw_enabled true s l -> l = WDeadline.
Proof.
  eexists. split; [vm_compute; reflexivity|]. repeat split.
  intros l E. unfold iw_enabled in E. destruct l; cbn in E; try congruence; try (destruct ok; congruence).
Qed.

(* the same schedule on the code *)
Lemma iw_code_overtake :
  exists s, run (iw_step false false) iw_init (overtake_trace ++ [WAck true]) = Some s /\
    iw_w s = WRet true /\ iw_v s = VIdle /\ iw_closed s = true /\ iw_aborted s = true.
Proof. eexists. split; [vm_compute; reflexivity|]. repeat split. Qed.

(* ====================================================================== *)
(* 3. IBB: the table of expected sessions                                  *)
(* ====================================================================== *)

Ltac ex_break H := repeat match type of H with
  | context [match ?x with _ => _ end] => destruct x eqn:?; try discriminate
  end.

(* an Expect call that is waiting and whose context is alive *)
Definition ex_live (s : exstate) (i : nat) : Prop :=
  exists c, nth_error (ex_calls s) i = Some c /\ e_pc c = EWait /\ e_canc c = false.

Record ExInv (s : exstate) : Prop := {
  xi_tab : forall j, ex_tab s = Some j -> j < length (ex_calls s);
  xi_offer : forall j, ex_h s = OOffer j -> j < length (ex_calls s);
  xi_live : forall i, ex_live s i -> ex_tab s = Some i \/ ex_h s = OOffer i
}.

Lemma ExInv_init : ExInv ex_init.
Proof.
  constructor; cbn; try discriminate. intros i (c & H & _). destruct i; discriminate.
Qed.

Lemma cancel_call_length l j : length (cancel_call l j) = length l.
Proof. unfold cancel_call. destruct (nth_error l j); [apply upd_length|reflexivity]. Qed.

Lemma cancel_call_nth l j i c :
  nth_error (cancel_call l j) i = Some c ->
  exists c0, nth_error l i = Some c0 /\ e_pc c = e_pc c0 /\ (e_canc c0 = true -> e_canc c = true) /\
             (i = j -> e_canc c = true) /\ (i <> j -> c = c0).
Proof.
  unfold cancel_call. destruct (nth_error l j) as [cj|] eqn:Ej.
  - intro H. destruct (Nat.eq_dec i j) as [->|N].
    + rewrite (nth_upd_eq _ _ _ _ Ej) in H. injection H as <-. exists cj. cbn. repeat split; auto; congruence.
    + rewrite nth_upd_neq in H by congruence. exists c. repeat split; auto; congruence.
  - intro H. exists c. repeat split; auto; intros; subst; congruence.
Qed.

(* a step never makes a call live again, except the call it starts *)
Lemma ex_live_back own s l s' i :
  ex_step own s l = Some s' -> ex_live s' i ->
  ex_live s i \/ (l = EStart /\ i = length (ex_calls s)).
Proof.
  intros H (c & Hc & Hp & Hn).
  assert (Call : forall k f, ecall_step s k f = Some s' ->
            (forall x x', f x = Some x' -> e_pc x' = EWait -> e_canc x' = false -> e_pc x = EWait /\ e_canc x = false) ->
            ex_live s i).
  { intros k f Hs Hf. unfold ecall_step in Hs. destruct (nth_error (ex_calls s) k) as [x|] eqn:Hk; [|discriminate].
    destruct (f x) as [x'|] eqn:Hx; [|discriminate]. injection Hs as <-. cbn in Hc.
    destruct (nth_upd_inv _ _ _ _ _ _ Hk Hc) as [[Ei Ec]|[N Hy]].
    - subst. destruct (Hf x _ Hx Hp Hn) as [A B]. exists x. auto.
    - exists c. auto. }
  destruct l; cbn [ex_step] in H.
  - injection H as <-. cbn in Hc.
    assert (L : length (match ex_tab s with Some j => cancel_call (ex_calls s) j | None => ex_calls s end) = length (ex_calls s))
      by (destruct (ex_tab s); [apply cancel_call_length|reflexivity]).
    apply nth_app_inv in Hc. destruct Hc as [[_ Hc]|[E _]].
    + left. destruct (ex_tab s) as [j|].
      * destruct (cancel_call_nth _ _ _ _ Hc) as (c0 & H0 & P0 & C0 & Cj & Cn).
        exists c0. split; [exact H0|]. split; [congruence|].
        destruct (e_canc c0) eqn:E; [|reflexivity]. rewrite (C0 eq_refl) in Hn. discriminate.
      * exists c. auto.
    + right. split; [reflexivity|]. rewrite E, L. reflexivity.
  - left. eapply Call; eauto. intros x x' Hf _ Hc'. injection Hf as <-. discriminate.
  - left. eapply Call; eauto. intros x x' Hf Hp' _. cbv beta in Hf. destruct (e_pc x); try discriminate.
    destruct (e_canc x); try discriminate. injection Hf as <-. discriminate.
  - left. destruct (nth_error (ex_calls s) i0) as [x|] eqn:Hk; [|discriminate].
    destruct (e_pc x) eqn:Ex; try discriminate. injection H as <-. cbn in Hc.
    destruct (nth_upd_inv _ _ _ _ _ _ Hk Hc) as [[-> ->]|[N Hy]]; [discriminate|exists c; auto].
  - left. ex_break H; injection H as <-; exists c; auto.
  - left. ex_break H. injection H as <-. cbn in Hc. apply Nat.eqb_eq in Heqb. subst.
    destruct (nth_upd_inv _ _ _ _ _ _ Heqo0 Hc) as [[-> ->]|[N Hy]]; [discriminate|exists c; auto].
  - left. ex_break H; injection H as <-; exists c; auto.
  - left. ex_break H; injection H as <-; exists c; auto.
Qed.

Lemma ex_live_not_cancelled_by_start s i :
  ex_live (mkex (match ex_tab s with Some j => cancel_call (ex_calls s) j | None => ex_calls s end ++ [mkecall false EWait])
                (Some (length (ex_calls s))) (ex_h s) (ex_accepted s)) i ->
  i < length (ex_calls s) -> ex_tab s <> Some i.
Proof.
  intros (c & Hc & Hp & Hn) Lt E. cbn in Hc. rewrite E in Hc.
  apply nth_app_inv in Hc. destruct Hc as [[_ Hc]|[E2 _]].
  - destruct (cancel_call_nth _ _ _ _ Hc) as (c0 & _ & _ & _ & Cj & _). rewrite (Cj eq_refl) in Hn. discriminate.
  - rewrite cancel_call_length in E2. lia.
Qed.

Theorem ExInv_step s l s' : ExInv s -> ex_step true s l = Some s' -> ExInv s'.
Proof.
  intros [It Io Il] H.
  assert (Back := fun i => ex_live_back true s l s' i H).
  assert (Len : length (ex_calls s) <= length (ex_calls s')).
  { destruct l; cbn [ex_step] in H; unfold ecall_step in H; ex_break H; injection H as <-; cbn;
      rewrite ?upd_length, ?app_length; try lia.
    destruct (ex_tab s); rewrite ?cancel_call_length; cbn; lia. }
  destruct l; cbn [ex_step] in H.
  - (* EStart *)
    assert (H' := H). injection H as <-. constructor; cbn [ex_tab ex_h ex_calls].
    + intros j E. injection E as <-. rewrite app_length. cbn.
      destruct (ex_tab s); rewrite ?cancel_call_length; lia.
    + intros j E. specialize (Io j E). cbn in Len. lia.
    + intros i L. destruct (Back i L) as [L0|[_ ->]]; [|left; reflexivity].
      right. destruct (Il i L0) as [A|A]; [|exact A].
      exfalso. destruct L0 as (c0 & H0 & _). apply (ex_live_not_cancelled_by_start s i L); [|exact A].
      apply nth_error_Some. congruence.
  - (* ECancel *)
    unfold ecall_step in H. ex_break H. injection H as <-. constructor; cbn [ex_tab ex_h ex_calls]; rewrite ?upd_length; auto.
    intros k L. destruct (Back k L) as [L0|[X _]]; [auto|discriminate].
  - (* ECtx *)
    unfold ecall_step in H. ex_break H. injection H as <-. constructor; cbn [ex_tab ex_h ex_calls]; rewrite ?upd_length; auto.
    intros k L. destruct (Back k L) as [L0|[X _]]; [auto|discriminate].
  - (* ECleanup: only its own entry *)
    destruct (nth_error (ex_calls s) i) as [x|] eqn:Hk; [|discriminate].
    destruct (e_pc x) eqn:Ex; try discriminate. injection H as <-.
    constructor; cbn [ex_tab ex_h ex_calls]; rewrite ?upd_length; auto.
    + intros j E. destruct (ex_tab s) as [j0|]; [|discriminate]. destruct (Nat.eqb j0 i); [discriminate|].
      injection E as <-. apply It. reflexivity.
    + intros k L. destruct (Back k L) as [L0|[X _]]; [|discriminate].
      destruct (Il k L0) as [A|A]; [|right; exact A]. left. rewrite A.
      destruct (Nat.eqb k i) eqn:E; [|reflexivity]. apply Nat.eqb_eq in E. subst k.
      destruct L0 as (c0 & H0 & P0 & _). rewrite Hk in H0. injection H0 as <-. congruence.
  - (* OArrive *)
    destruct (ex_h s) eqn:Eh; try discriminate.
    destruct (ex_tab s) as [j|] eqn:Et; injection H as <-; constructor; cbn [ex_tab ex_h ex_calls]; try discriminate.
    + intros k E. injection E as <-. apply It. reflexivity.
    + intros k L. destruct (Back k L) as [L0|[X _]]; [|discriminate].
      destruct (Il k L0) as [A|A]; [right; congruence|discriminate].
    + intros k L. destruct (Back k L) as [L0|[X _]]; [|discriminate].
      destruct (Il k L0) as [A|A]; discriminate.
  - (* ODeliver *)
    destruct (ex_h s) as [|j'|] eqn:Eh; try discriminate. destruct (Nat.eqb j j') eqn:Ej; [|discriminate].
    apply Nat.eqb_eq in Ej. subst j'.
    destruct (nth_error (ex_calls s) j) as [x|] eqn:Hk; [|discriminate].
    destruct (e_pc x) eqn:Ex; try discriminate. assert (H' := H). injection H as <-.
    constructor; cbn [ex_tab ex_h ex_calls]; rewrite ?upd_length; auto; try discriminate.
    intros k L. assert (L' := L). destruct (Back k L) as [L0|[X _]]; [|discriminate].
    destruct (Il k L0) as [A|A]; [left; exact A|]. injection A as <-.
    destruct L' as (c & Hc & Hp & _). cbn in Hc. rewrite (nth_upd_eq _ _ _ _ Hk) in Hc. injection Hc as <-. discriminate.
  - (* OGiveUp *)
    destruct (ex_h s) as [|j|] eqn:Eh; try discriminate.
    destruct (nth_error (ex_calls s) j) as [x|] eqn:Hk; [|discriminate].
    destruct (e_canc x) eqn:Ec; [|discriminate]. injection H as <-.
    constructor; cbn [ex_tab ex_h ex_calls]; auto; try discriminate.
    intros k L. destruct (Back k L) as [L0|[X _]]; [|discriminate].
    destruct (Il k L0) as [A|A]; [left; exact A|]. injection A as <-.
    destruct L0 as (c & Hc & _ & Hn). congruence.
  - (* AAccept *)
    destruct (ex_h s) eqn:Eh; try discriminate. injection H as <-.
    constructor; cbn [ex_tab ex_h ex_calls]; auto; try discriminate.
    intros k L. destruct (Back k L) as [L0|[X _]]; [|discriminate].
    destruct (Il k L0) as [A|A]; [left; exact A|discriminate].
Qed.

Theorem ExInv_run tr s : run (ex_step true) ex_init tr = Some s -> ExInv s.
Proof.
  apply (invariant_run _ _ (ex_step true) ExInv ex_init ExInv_init).
  intros s0 l s1 I H. exact (ExInv_step s0 l s1 I H).
Qed.

(* the entry of a live Expect call is never removed by another call: it is in
   the table until an open request takes it for that very call *)
Lemma ex_live_entry_run tr s i :
  run (ex_step true) ex_init tr = Some s -> ex_live s i -> ex_tab s = Some i \/ ex_h s = OOffer i.
Proof. intros R. apply (xi_live _ (ExInv_run tr s R)). Qed.

(* ... and an open request is delivered to it *)
Lemma ex_open_is_delivered tr s i :
  run (ex_step true) ex_init tr = Some s -> ex_live s i -> ex_h s = OIdle ->
  exists s1 s2, ex_step true s OArrive = Some s1 /\ ex_h s1 = OOffer i /\
                ex_step true s1 (ODeliver i) = Some s2 /\ ex_h s2 = OIdle /\
                exists c, nth_error (ex_calls s2) i = Some c /\ e_pc c = ERet EConn.
Proof.
  intros R L Eh. destruct (ex_live_entry_run tr s i R L) as [Et|Eo]; [|congruence].
  destruct L as (c & Hc & Hp & Hn).
  cbn [ex_step]. rewrite Eh, Et. eexists. eexists. split; [reflexivity|]. split; [reflexivity|].
  cbn. rewrite Nat.eqb_refl, Hc, Hp. split; [reflexivity|]. split; [reflexivity|].
  eexists. split; [eapply nth_upd_eq; eauto|reflexivity].
Qed.

(* a call that gives up removes its own entry: no entry outlives its call *)
Lemma ex_cleanup_removes_own s i c :
  nth_error (ex_calls s) i = Some c -> e_pc c = EGiveUp -> ex_tab s = Some i ->
  exists s', ex_step true s (ECleanup i) = Some s' /\ ex_tab s' = None.
Proof.
  intros Hc Hp Et. cbn [ex_step]. rewrite Hc, Hp, Et, Nat.eqb_refl. eexists. split; reflexivity.
Qed.

(* while the hand-off to Accept is pending only an Accept call releases the serve goroutine *)
Lemma ex_accept_step own s l s' :
  ex_h s = OAccept -> ex_step own s l = Some s' -> l <> AAccept -> ex_h s' = OAccept.
Proof.
  intros Eh H N. destruct l; cbn [ex_step] in H; unfold ecall_step in H; rewrite ?Eh in H;
    ex_break H; try (injection H as <-; cbn; auto); congruence.
Qed.

(* what the ownership test excludes: a cancelled first Expect removes the entry
   of the second one that took over; the open request then finds nobody and the
   serve goroutine waits for an Accept call, with the second Expect still waiting *)
Definition takeover_trace : list exlabel := [EStart; EStart; ECtx 0; ECleanup 0; OArrive].

Lemma ex_no_owner_check_loses_entry :
  exists s, run (ex_step false) ex_init takeover_trace = Some s /\
    ex_live s 1 /\ ex_tab s = None /\ ex_h s = OAccept /\
    forall l s', ex_step false s l = Some s' -> l <> AAccept -> ex_h s' = OAccept.
Proof.
  eexists. split; [vm_compute; reflexivity|]. split; [eexists; repeat split|]. split; [reflexivity|].
  split; [reflexivity|]. intros l s' H N. eapply ex_accept_step; eauto. reflexivity.
Qed.

(* the same history on the code: the second Expect gets the stream *)
Lemma ex_takeover_code :
  exists s, run (ex_step true) ex_init (takeover_trace ++ [ODeliver 1]) = Some s /\
    map ecode (ex_calls s) = [2; 1] /\ ex_h s = OIdle.
Proof. eexists. split; [vm_compute; reflexivity|]. split; reflexivity. Qed.

(* ====================================================================== *)
(* 4. The id a blocking call registers is the id on the wire               *)
(* ====================================================================== *)

Lemma find_id_bound attrs : forall k j v, find_id attrs k = Some (j, v) -> k <= j /\ j - k < length attrs.
Proof.
  induction attrs as [|a rest IH]; intros k j v H; cbn in H; [discriminate|].
  destruct (is_id a).
  - injection H as <- <-. cbn. lia.
  - destruct (IH _ _ _ H). cbn. lia.
Qed.

Lemma find_id_set attrs : forall k j v w,
  find_id attrs k = Some (j, v) -> find_id (set_val attrs (j - k) w) k = Some (j, w).
Proof.
  induction attrs as [|a rest IH]; intros k j v w H; cbn in H; [discriminate|].
  destruct (is_id a) eqn:E.
  - injection H as <- <-. rewrite Nat.sub_diag. cbn. unfold is_id in *. cbn. rewrite E. reflexivity.
  - destruct (find_id_bound _ _ _ _ H) as [A _].
    replace (j - k) with (S (j - S k)) by lia. cbn. rewrite E. apply (IH _ _ _ _ H).
Qed.

Lemma find_id_app_none attrs x : forall k,
  find_id attrs k = None -> is_id x = true -> find_id (attrs ++ [x]) k = Some (k + length attrs, a_val x).
Proof.
  induction attrs as [|a rest IH]; intros k H E; cbn.
  - rewrite E. rewrite Nat.add_0_r. reflexivity.
  - cbn in H. destruct (is_id a); [discriminate|]. rewrite (IH _ H E). f_equal. f_equal. lia.
Qed.

(* the code: the registration key is the id the peer sees, and it is not empty *)
Lemma key_is_wire_id attrs fresh fresh2 :
  fresh <> 0%N ->
  let (key, wire) := send_ids GenWhenEmpty attrs fresh fresh2 in key = wire /\ key <> 0%N.
Proof.
  intro F. unfold send_ids, complete_id.
  destruct (find_id attrs 0) as [[k v]|] eqn:E.
  - destruct (N.eqb v 0) eqn:Ev.
    + pose proof (find_id_set attrs 0 k v fresh E) as S. rewrite Nat.sub_0_r in S.
      unfold encoder_id, wire_id. rewrite S. destruct (N.eqb fresh 0) eqn:Ef; [apply N.eqb_eq in Ef; congruence|].
      rewrite S. auto.
    + unfold encoder_id, wire_id. rewrite E, Ev, E. split; [reflexivity|]. intro X. rewrite X in Ev. discriminate.
  - pose proof (find_id_app_none attrs (mkattr 0 1 fresh) 0 E eq_refl) as S. cbn in S.
    unfold encoder_id, wire_id. rewrite S. destruct (N.eqb fresh 0) eqn:Ef; [apply N.eqb_eq in Ef; congruence|].
    rewrite S. auto.
Qed.

(* a caller-chosen id is kept *)
Lemma chosen_id_is_kept attrs fresh fresh2 k v :
  find_id attrs 0 = Some (k, v) -> v <> 0%N -> send_ids GenWhenEmpty attrs fresh fresh2 = (v, v).
Proof.
  intros E V. unfold send_ids, complete_id. rewrite E.
  destruct (N.eqb v 0) eqn:Ev; [apply N.eqb_eq in Ev; congruence|].
  unfold encoder_id, wire_id. rewrite E, Ev, E. reflexivity.
Qed.

(* what the table lemma excludes: an id generated only when the attribute is
   absent: with id="" the call registers the empty id while the encoder puts a
   fresh one on the wire *)
Lemma absent_only_breaks_empty_id :
  send_ids GenWhenAbsent (id_shape 1 0) 1000 2000 = (0%N, 2000%N).
Proof. vm_compute. reflexivity. Qed.

(* ====================================================================== *)
(* 5. Receipts behind the multiplexer                                      *)
(* ====================================================================== *)

From XV Require Import C06.ModelExt C06.ProofsRx.

(* with every type routed, a schedule of the routed system is a schedule of the
   receipts system: everything proved about [rx_step true] carries over *)
Lemma rxr_projects tr : forall s s',
  run (rxr_step routes_all) s tr = Some s' -> run (rx_step true) s (rxr_project tr) = Some s'.
Proof.
  induction tr as [|l tr IH]; intros s s' R; cbn [run] in R; cbn [rxr_project].
  - exact R.
  - destruct (rxr_step routes_all s l) as [s1|] eqn:E; [|discriminate].
    destruct l as [l'|ty id|ty id]; cbn [rxr_step routes_all] in E.
    + destruct l'; try discriminate; cbn [run]; rewrite E; apply IH; exact R.
    + cbn [run]. rewrite E. apply IH. exact R.
    + discriminate.
Qed.

(* no receipt is lost in the multiplexer *)
Lemma rxr_never_unrouted s ty id : rxr_step routes_all s (RUnrouted ty id) = None.
Proof. reflexivity. Qed.

(* a sender whose receipt arrives, of whatever message type, returns nil *)
Lemma rxr_receipt_reaches_sender ty :
  exists s, run (rxr_step routes_all) rx_init
              [RL (XStart 1); RL (XSendOk 0); RArrive ty 1; RL XLookup; RL XNotify; RL (XRecv 0)] = Some s /\
            map snd_code (rx_snd s) = [XCOk].
Proof.
  unfold rxr_step, routes_all. cbn [run]. eexists. split; [vm_compute; reflexivity|reflexivity].
Qed.

Lemma rxr_outcome_run tr s i x o :
  run (rxr_step routes_all) rx_init tr = Some s -> nth_error (rx_snd s) i = Some x -> x_pc x = XRet o ->
  match o with
  | XOk => exists q, In (RNotified q (x_id x) i) (rx_hist s)
  | XCtxErr => x_canc x = true
  | XSendErr => True
  end.
Proof. intro R. exact (rx_outcome_run _ s i x o (rxr_projects tr _ _ R)). Qed.

Lemma rxr_handler_progress_run tr s :
  run (rxr_step routes_all) rx_init tr = Some s ->
  match rx_h s with
  | HIdle => True
  | HRead _ _ => rx_enabled s XLookup
  | HNotify _ _ _ => rx_enabled s XNotify
  | HUnh _ _ => rx_enabled s XUnhandled
  | HPanic => False
  end.
Proof. intro R. exact (rx_handler_progress_run _ s (rxr_projects tr _ _ R)). Qed.

(* a registration that leaves a type out: the receipt of that type vanishes,
   the sender keeps waiting and only its own context ends the call *)
Lemma rxr_missing_type_loses_receipt :
  exists s x, run (rxr_step routes_without_headline) rx_init
                [RL (XStart 1); RL (XSendOk 0); RUnrouted 3 1] = Some s /\
    nth_error (rx_snd s) 0 = Some x /\ x_pc x = XWait /\ x_tok x = false /\ rx_h s = HIdle /\ rx_hist s = [] /\
    rxr_step routes_without_headline s (RArrive 3 1) = None /\
    rxr_step routes_without_headline s (RL (XRecv 0)) = None /\
    rxr_step routes_without_headline s (RL (XCtxDone 0)) = None.
Proof. eexists. eexists. split; [vm_compute; reflexivity|]. repeat split. Qed.
