(* C06/ProofsRx.v — lemmas about the receipts transition system (ModelExt.v). *)
From Coq Require Import List Arith NArith Bool Lia.
Import ListNotations.
From XV Require Import lib.Lts C06.Model C06.ModelExt C06.Proofs.

(* ====================================================================== *)
(* Receipts (repaired code, fx = true)                                     *)
(* ====================================================================== *)

Definition rx_seqs (s : rxstate) : list nat := map rx_seq (rx_hist s).

Definition rx_cur (h : hpc) : option nat :=
  match h with HRead _ q | HNotify _ _ q | HUnh _ q => Some q | _ => None end.

Record RxInv (s : rxstate) : Prop := {
  rxi_tab : forall id i, In (id, i) (rx_tab s) ->
    exists x, nth_error (rx_snd s) i = Some x /\ x_id x = id /\ x_taken x = false /\
              is_xret (x_pc x) = false;
  rxi_tok : forall i x, nth_error (rx_snd s) i = Some x -> x_tok x = true -> x_taken x = true;
  rxi_taken : forall i x, nth_error (rx_snd s) i = Some x -> x_taken x = true -> x_tok x = false ->
    exists id q, rx_h s = HNotify i id q;
  rxi_h : match rx_h s with
    | HNotify i id q => exists x, nth_error (rx_snd s) i = Some x /\ x_id x = id /\
                                  x_taken x = true /\ x_tok x = false
    | HPanic => False
    | _ => True
    end;
  rxi_ok : forall i x, nth_error (rx_snd s) i = Some x -> x_pc x = XRet XOk -> x_tok x = true;
  rxi_ctx : forall i x, nth_error (rx_snd s) i = Some x ->
    (x_pc x = XCtxP \/ x_pc x = XRet XCtxErr) -> x_canc x = true;
  rxi_nodup : NoDup (rx_seqs s);
  rxi_lt : forall q, In q (rx_seqs s) -> q < rx_arrived s;
  rxi_acct : match rx_cur (rx_h s) with
    | Some q => S q = rx_arrived s /\ ~ In q (rx_seqs s) /\ forall n, n < q -> In n (rx_seqs s)
    | None => rx_h s = HPanic \/ forall n, n < rx_arrived s -> In n (rx_seqs s)
    end;
  rxi_notif : forall q id i, In (RNotified q id i) (rx_hist s) ->
    exists x, nth_error (rx_snd s) i = Some x /\ x_id x = id /\ x_tok x = true;
  rxi_tokev : forall i x, nth_error (rx_snd s) i = Some x -> x_tok x = true ->
    exists q, In (RNotified q (x_id x) i) (rx_hist s);
  rxi_one : forall q q' id id' i, In (RNotified q id i) (rx_hist s) ->
    In (RNotified q' id' i) (rx_hist s) -> q = q'
}.

Lemma RxInv_init : RxInv rx_init.
Proof.
  constructor; cbn.
  - intros ? ? [].
  - intros i x H. destruct (nth_nil _ _ H).
  - intros i x H. destruct (nth_nil _ _ H).
  - exact I.
  - intros i x H. destruct (nth_nil _ _ H).
  - intros i x H. destruct (nth_nil _ _ H).
  - constructor.
  - intros ? [].
  - right. intros n H. lia.
  - intros ? ? ? [].
  - intros i x H. destruct (nth_nil _ _ H).
  - intros ? ? ? ? ? [].
Qed.

(* a step of sender i that keeps id, taken and tok, and does not return *)
Lemma RxInv_snd_update s i x x' :
  RxInv s -> nth_error (rx_snd s) i = Some x ->
  x_id x' = x_id x -> x_taken x' = x_taken x -> x_tok x' = x_tok x ->
  (is_xret (x_pc x') = true -> is_xret (x_pc x) = true \/ x_taken x = true) ->
  (x_pc x' = XRet XOk -> x_tok x = true) ->
  ((x_pc x' = XCtxP \/ x_pc x' = XRet XCtxErr) -> x_canc x' = true) ->
  RxInv (rx_set_snd s (upd (rx_snd s) i x')).
Proof.
  intros I Hi Hid Htk Hto Hret Hok Hctx.
  assert (Hnew : nth_error (upd (rx_snd s) i x') i = Some x') by (eapply nth_upd_eq; eauto).
  destruct I as [It Ik Ita Ih Io Ic Ind Il Ia In1 In2 In3].
  constructor; unfold rx_seqs in *; cbn [rx_set_snd rx_snd rx_tab rx_h rx_arrived rx_hist] in *; auto.
  - intros id j Hin. destruct (It id j Hin) as [y [Hy [A [B C]]]].
    destruct (Nat.eq_dec j i) as [->|N].
    + rewrite Hy in Hi. injection Hi as ->. exists x'. repeat split; try congruence.
      destruct (is_xret (x_pc x')) eqn:E; [|reflexivity]. destruct (Hret eq_refl); congruence.
    + exists y. rewrite nth_upd_neq by congruence. auto.
  - intros j y Hy Ht. destruct (nth_upd_inv _ _ _ _ _ _ Hi Hy) as [[-> ->]|[N Hy']].
    + rewrite Htk. apply (Ik i x Hi). congruence.
    + eapply Ik; eauto.
  - intros j y Hy A B. destruct (nth_upd_inv _ _ _ _ _ _ Hi Hy) as [[-> ->]|[N Hy']].
    + apply (Ita i x Hi); congruence.
    + eapply Ita; eauto.
  - destruct (rx_h s) as [| |j id q| |]; auto.
    destruct Ih as [y [Hy [A [B C]]]].
    destruct (Nat.eq_dec j i) as [->|N].
    + rewrite Hy in Hi. injection Hi as ->. exists x'. repeat split; congruence.
    + exists y. rewrite nth_upd_neq by congruence. auto.
  - intros j y Hy A. destruct (nth_upd_inv _ _ _ _ _ _ Hi Hy) as [[-> ->]|[N Hy']].
    + rewrite Hto. auto.
    + eapply Io; eauto.
  - intros j y Hy A. destruct (nth_upd_inv _ _ _ _ _ _ Hi Hy) as [[-> ->]|[N Hy']].
    + auto.
    + eapply Ic; eauto.
  - intros q id j Hin. destruct (In1 q id j Hin) as [y [Hy [A B]]].
    destruct (Nat.eq_dec j i) as [->|N].
    + rewrite Hy in Hi. injection Hi as ->. exists x'. repeat split; congruence.
    + exists y. rewrite nth_upd_neq by congruence. auto.
  - intros j y Hy A. destruct (nth_upd_inv _ _ _ _ _ _ Hi Hy) as [[-> ->]|[N Hy']].
    + rewrite Hid. apply (In2 i x Hi). congruence.
    + eapply In2; eauto.
Qed.

Lemma rx_snd_labels s l s' :
  match l with XSendOk _ | XSendFail _ | XCancel _ | XCtxDone _ | XRecv _ => True | _ => False end ->
  RxInv s -> rx_step true s l = Some s' -> RxInv s'.
Proof.
  intros Hl I H. destruct l; try contradiction; cbn [rx_step] in H; unfold snd_step in H;
    destruct (nth_error (rx_snd s) i) as [x|] eqn:Hi; try discriminate.
  - destruct (x_pc x) eqn:E; try discriminate. injection H as <-.
    eapply RxInv_snd_update; eauto; cbn; try discriminate. intros [A|A]; discriminate.
  - destruct (x_pc x) eqn:E; try discriminate. injection H as <-.
    eapply RxInv_snd_update; eauto; cbn; try discriminate. intros [A|A]; discriminate.
  - destruct (x_pc x) eqn:E; try discriminate. cbn in H.
    destruct (x_tok x) eqn:Et; try discriminate. injection H as <-.
    eapply RxInv_snd_update; eauto; cbn; auto.
    + intros _. right. eapply rxi_tok; eauto.
    + intros [A|A]; discriminate.
  - destruct (x_pc x) eqn:E; try discriminate.
    destruct (x_canc x) eqn:Ec; try discriminate. injection H as <-.
    eapply RxInv_snd_update; eauto; cbn; auto; discriminate.
  - injection H as <-.
    eapply RxInv_snd_update; eauto; cbn; auto.
    intros A. eapply rxi_ok; eauto.
Qed.

Lemma rx_no_taker s :
  RxInv s -> (forall i id q, rx_h s <> HNotify i id q) ->
  forall i x, nth_error (rx_snd s) i = Some x -> x_taken x = true -> x_tok x = true.
Proof.
  intros I N i x Hi Ht. destruct (x_tok x) eqn:E; [reflexivity|].
  destruct (rxi_taken _ I i x Hi Ht E) as [id [q A]]. destruct (N _ _ _ A).
Qed.

Lemma rx_step_start s id s' : RxInv s -> rx_step true s (XStart id) = Some s' -> RxInv s'.
Proof.
  intros I H. cbn [rx_step] in H. injection H as <-.
  set (x0 := mksnd id false XReg false false false).
  destruct I as [It Ik Ita Ih Io Ic Ind Il Ia In1 In2 In3].
  constructor; unfold rx_seqs in *; cbn [rx_snd rx_tab rx_h rx_arrived rx_hist] in *; auto.
  - intros k j Hin. apply in_insert in Hin. destruct Hin as [[-> ->]|Hin].
    + exists x0. split; [|auto]. rewrite nth_error_app2 by lia. rewrite Nat.sub_diag. reflexivity.
    + destruct (It k j Hin) as [y [Hy R]]. exists y. split; [apply nth_app_old; exact Hy|exact R].
  - intros j y Hy A. apply nth_app_inv in Hy. destruct Hy as [[_ Hy]|[_ ->]]; [eauto|discriminate].
  - intros j y Hy A B. apply nth_app_inv in Hy. destruct Hy as [[_ Hy]|[_ ->]]; [eauto|discriminate].
  - destruct (rx_h s) as [| |j k q| |]; auto.
    destruct Ih as [y [Hy R]]. exists y. split; [apply nth_app_old; exact Hy|exact R].
  - intros j y Hy A. apply nth_app_inv in Hy. destruct Hy as [[_ Hy]|[_ ->]]; [eauto|discriminate].
  - intros j y Hy A. apply nth_app_inv in Hy. destruct Hy as [[_ Hy]|[_ ->]]; [eauto|].
    destruct A; discriminate.
  - intros q k j Hin. destruct (In1 q k j Hin) as [y [Hy R]]. exists y.
    split; [apply nth_app_old; exact Hy|exact R].
  - intros j y Hy A. apply nth_app_inv in Hy. destruct Hy as [[_ Hy]|[_ ->]]; [eauto|discriminate].
Qed.

Lemma rx_step_dereg s i s' : RxInv s -> rx_step true s (XDereg i) = Some s' -> RxInv s'.
Proof.
  intros I H. cbn [rx_step] in H.
  destruct (nth_error (rx_snd s) i) as [x|] eqn:Hi; [|discriminate].
  assert (G : forall x', x_id x' = x_id x -> x_taken x' = x_taken x -> x_tok x' = x_tok x ->
              x_pc x' <> XRet XOk -> x_pc x' <> XCtxP -> (x_pc x' = XRet XCtxErr -> x_canc x' = true) ->
              RxInv (mkrx (upd (rx_snd s) i x') (remove_id (x_id x) (rx_tab s)) (rx_h s) (rx_arrived s) (rx_hist s))).
  { intros x' Hid Htk Hto Hnok Hnc Hcc.
    assert (Hnew : nth_error (upd (rx_snd s) i x') i = Some x') by (eapply nth_upd_eq; eauto).
    destruct I as [It Ik Ita Ih Io Ic Ind Il Ia In1 In2 In3].
    constructor; unfold rx_seqs in *; cbn [rx_snd rx_tab rx_h rx_arrived rx_hist] in *; auto.
    - intros k j Hin. apply in_remove_id in Hin. destruct Hin as [Hin Hne].
      destruct (It k j Hin) as [y [Hy [A R]]].
      destruct (Nat.eq_dec j i) as [->|N].
      + rewrite Hy in Hi. injection Hi as ->. congruence.
      + exists y. rewrite nth_upd_neq by congruence. auto.
    - intros j y Hy A. destruct (nth_upd_inv _ _ _ _ _ _ Hi Hy) as [[-> ->]|[N Hy']].
      + rewrite Htk. apply (Ik i x Hi). congruence.
      + eapply Ik; eauto.
    - intros j y Hy A B. destruct (nth_upd_inv _ _ _ _ _ _ Hi Hy) as [[-> ->]|[N Hy']].
      + apply (Ita i x Hi); congruence.
      + eapply Ita; eauto.
    - destruct (rx_h s) as [| |j k q| |]; auto.
      destruct Ih as [y [Hy [A [B C]]]].
      destruct (Nat.eq_dec j i) as [->|N].
      + rewrite Hy in Hi. injection Hi as ->. exists x'. repeat split; congruence.
      + exists y. rewrite nth_upd_neq by congruence. auto.
    - intros j y Hy A. destruct (nth_upd_inv _ _ _ _ _ _ Hi Hy) as [[-> ->]|[N Hy']].
      + contradiction.
      + eapply Io; eauto.
    - intros j y Hy A. destruct (nth_upd_inv _ _ _ _ _ _ Hi Hy) as [[-> ->]|[N Hy']].
      + destruct A as [A|A]; [contradiction|auto].
      + eapply Ic; eauto.
    - intros q k j Hin. destruct (In1 q k j Hin) as [y [Hy [A B]]].
      destruct (Nat.eq_dec j i) as [->|N].
      + rewrite Hy in Hi. injection Hi as ->. exists x'. repeat split; congruence.
      + exists y. rewrite nth_upd_neq by congruence. auto.
    - intros j y Hy A. destruct (nth_upd_inv _ _ _ _ _ _ Hi Hy) as [[-> ->]|[N Hy']].
      + rewrite Hid. apply (In2 i x Hi). congruence.
      + eapply In2; eauto. }
  destruct (x_pc x) eqn:E; try discriminate; injection H as <-; apply G; cbn; auto; try discriminate.
  intros _. apply (rxi_ctx _ I i x Hi). left. exact E.
Qed.

Lemma rx_step_arrive s id s' : RxInv s -> rx_step true s (XArrive id) = Some s' -> RxInv s'.
Proof.
  intros I H. cbn [rx_step] in H. destruct (rx_h s) eqn:Eh; try discriminate. injection H as <-.
  assert (NT := rx_no_taker s I ltac:(intros; rewrite Eh; discriminate)).
  pose proof (rxi_acct _ I) as Ia0. rewrite Eh in Ia0. cbn in Ia0. destruct Ia0 as [Ia0|Ia0]; [discriminate|].
  destruct I as [It Ik Ita Ih Io Ic Ind Il Ia In1 In2 In3].
  constructor; unfold rx_seqs in *; cbn [rx_snd rx_tab rx_h rx_arrived rx_hist rx_cur] in *; auto.
  - intros i x Hi A B. rewrite (NT i x Hi A) in B. discriminate.
  - intros q Hq. apply Il in Hq. lia.
  - split; [reflexivity|]. split; [|exact Ia0]. intro Hq. apply Il in Hq. lia.
Qed.

Lemma rx_step_lookup s s' : RxInv s -> rx_step true s XLookup = Some s' -> RxInv s'.
Proof.
  intros I H. cbn [rx_step] in H. destruct (rx_h s) as [|id q| | |] eqn:Eh; try discriminate.
  assert (NT := rx_no_taker s I ltac:(intros; rewrite Eh; discriminate)).
  pose proof (rxi_acct _ I) as Ia0. rewrite Eh in Ia0. cbn in Ia0.
  destruct (lookup id (rx_tab s)) as [i|] eqn:El.
  - destruct (nth_error (rx_snd s) i) as [x|] eqn:Hi; [|discriminate]. injection H as <-.
    apply lookup_in in El. destruct (rxi_tab _ I id i El) as [x0 [Hx0 [Hid [Htk Hnr]]]].
    rewrite Hi in Hx0. injection Hx0 as <-.
    assert (Hto : x_tok x = false).
    { destruct (x_tok x) eqn:E; [|reflexivity]. rewrite (rxi_tok _ I i x Hi E) in Htk. discriminate. }
    set (x' := mksnd (x_id x) (x_canc x) (x_pc x) true (x_tok x) (x_closed x)).
    assert (Hnew : nth_error (upd (rx_snd s) i x') i = Some x') by (eapply nth_upd_eq; eauto).
    destruct I as [It Ik Ita Ih Io Ic Ind Il Ia In1 In2 In3].
    constructor; unfold rx_seqs in *; cbn [rx_snd rx_tab rx_h rx_arrived rx_hist rx_cur] in *; auto.
    + intros k j Hin. apply in_remove_id in Hin. destruct Hin as [Hin Hne].
      destruct (It k j Hin) as [y [Hy [A R]]].
      destruct (Nat.eq_dec j i) as [->|N].
      * rewrite Hy in Hi. injection Hi as ->. congruence.
      * exists y. rewrite nth_upd_neq by congruence. auto.
    + intros j y Hy A. destruct (nth_upd_inv _ _ _ _ _ _ Hi Hy) as [[-> ->]|[N Hy']]; [reflexivity|eauto].
    + intros j y Hy A B. destruct (nth_upd_inv _ _ _ _ _ _ Hi Hy) as [[-> ->]|[N Hy']]; [eauto|].
      rewrite (NT j y Hy' A) in B. discriminate.
    + exists x'. repeat split; auto.
    + intros j y Hy A. destruct (nth_upd_inv _ _ _ _ _ _ Hi Hy) as [[-> ->]|[N Hy']]; [|eauto].
      cbn in A. apply (Io i x Hi A).
    + intros j y Hy A. destruct (nth_upd_inv _ _ _ _ _ _ Hi Hy) as [[-> ->]|[N Hy']]; [|eauto].
      cbn in *. apply (Ic i x Hi A).
    + intros q0 k j Hin. destruct (In1 q0 k j Hin) as [y [Hy [A B]]].
      destruct (Nat.eq_dec j i) as [->|N].
      * rewrite Hy in Hi. injection Hi as ->. congruence.
      * exists y. rewrite nth_upd_neq by congruence. auto.
    + intros j y Hy A. destruct (nth_upd_inv _ _ _ _ _ _ Hi Hy) as [[-> ->]|[N Hy']]; [|eauto].
      cbn in A. congruence.
  - injection H as <-.
    destruct I as [It Ik Ita Ih Io Ic Ind Il Ia In1 In2 In3].
    constructor; unfold rx_seqs in *; cbn [rx_snd rx_tab rx_h rx_arrived rx_hist rx_cur] in *; auto.
    intros i x Hi A B. rewrite (NT i x Hi A) in B. discriminate.
Qed.

Lemma rx_seqs_app s e : map rx_seq (rx_hist s ++ [e]) = rx_seqs s ++ [rx_seq e].
Proof. unfold rx_seqs. rewrite map_app. reflexivity. Qed.

Lemma rx_step_unhandled s s' : RxInv s -> rx_step true s XUnhandled = Some s' -> RxInv s'.
Proof.
  intros I H. cbn [rx_step] in H. destruct (rx_h s) as [| | |id q|] eqn:Eh; try discriminate.
  injection H as <-.
  assert (NT := rx_no_taker s I ltac:(intros; rewrite Eh; discriminate)).
  pose proof (rxi_acct _ I) as Ia0. rewrite Eh in Ia0. cbn in Ia0. destruct Ia0 as [A1 [A2 A3]].
  destruct I as [It Ik Ita Ih Io Ic Ind Il Ia In1 In2 In3].
  constructor; unfold rx_seqs in *; cbn [rx_snd rx_tab rx_h rx_arrived rx_hist rx_cur] in *; auto.
  - intros i x Hi A B. rewrite (NT i x Hi A) in B. discriminate.
  - rewrite map_app. cbn. apply nodup_snoc; auto.
  - rewrite map_app. cbn. intros q0 Hq. apply in_app_or in Hq. destruct Hq as [Hq|[<-|[]]]; [auto|lia].
  - right. rewrite map_app. cbn. intros n Hn. apply in_or_app.
    destruct (Nat.eq_dec n q) as [->|Ne]; [right; left; reflexivity|left; apply A3; lia].
  - intros q0 k j Hin. apply in_app_or in Hin. destruct Hin as [Hin|[Hin|[]]]; [eauto|discriminate].
  - intros i x Hi A. destruct (In2 i x Hi A) as [q0 B]. exists q0. apply in_or_app. left. exact B.
  - intros q1 q2 k1 k2 i A B. apply in_app_or in A, B.
    destruct A as [A|[A|[]]], B as [B|[B|[]]]; try discriminate. eauto.
Qed.

Lemma rx_step_notify s s' : RxInv s -> rx_step true s XNotify = Some s' -> RxInv s'.
Proof.
  intros I H. cbn [rx_step] in H. destruct (rx_h s) as [| |i id q| |] eqn:Eh; try discriminate.
  destruct (nth_error (rx_snd s) i) as [x|] eqn:Hi; [|discriminate].
  destruct (x_tok x) eqn:Hto; [discriminate|]. injection H as <-.
  pose proof (rxi_h _ I) as Ih0. rewrite Eh in Ih0. destruct Ih0 as [x0 [Hx0 [Hid [Htk _]]]].
  rewrite Hi in Hx0. injection Hx0 as <-.
  pose proof (rxi_acct _ I) as Ia0. rewrite Eh in Ia0. cbn in Ia0. destruct Ia0 as [A1 [A2 A3]].
  set (x' := mksnd (x_id x) (x_canc x) (x_pc x) (x_taken x) true (x_closed x)).
  assert (Hnew : nth_error (upd (rx_snd s) i x') i = Some x') by (eapply nth_upd_eq; eauto).
  assert (Hnoev : forall q0 k, ~ In (RNotified q0 k i) (rx_hist s)).
  { intros q0 k Hin. destruct (rxi_notif _ I q0 k i Hin) as [y [Hy [_ B]]]. congruence. }
  destruct I as [It Ik Ita Ih Io Ic Ind Il Ia In1 In2 In3].
  constructor; unfold rx_seqs in *; cbn [rx_snd rx_tab rx_h rx_arrived rx_hist rx_cur] in *; auto.
  - intros k j Hin. destruct (It k j Hin) as [y [Hy [A [B C]]]].
    destruct (Nat.eq_dec j i) as [->|N].
    + rewrite Hy in Hi. injection Hi as ->. congruence.
    + exists y. rewrite nth_upd_neq by congruence. auto.
  - intros j y Hy A. destruct (nth_upd_inv _ _ _ _ _ _ Hi Hy) as [[-> ->]|[N Hy']]; [exact Htk|eauto].
  - intros j y Hy A B. destruct (nth_upd_inv _ _ _ _ _ _ Hi Hy) as [[-> ->]|[N Hy']]; [discriminate|].
    destruct (Ita j y Hy' A B) as [k [q0 E]]. rewrite Eh in E. injection E as <- _ _. congruence.
  - intros j y Hy A. destruct (nth_upd_inv _ _ _ _ _ _ Hi Hy) as [[-> ->]|[N Hy']]; [reflexivity|eauto].
  - intros j y Hy A. destruct (nth_upd_inv _ _ _ _ _ _ Hi Hy) as [[-> ->]|[N Hy']]; [|eauto].
    cbn in *. apply (Ic i x Hi A).
  - rewrite map_app. cbn. apply nodup_snoc; auto.
  - rewrite map_app. cbn. intros q0 Hq. apply in_app_or in Hq. destruct Hq as [Hq|[<-|[]]]; [auto|lia].
  - right. rewrite map_app. cbn. intros n Hn. apply in_or_app.
    destruct (Nat.eq_dec n q) as [->|Ne]; [right; left; reflexivity|left; apply A3; lia].
  - intros q0 k j Hin. apply in_app_or in Hin. destruct Hin as [Hin|[Hin|[]]].
    + destruct (In1 q0 k j Hin) as [y [Hy [A B]]].
      destruct (Nat.eq_dec j i) as [->|N].
      * exists x'. rewrite Hy in Hi. injection Hi as ->. auto.
      * exists y. rewrite nth_upd_neq by congruence. auto.
    + injection Hin as <- <- <-. exists x'. auto.
  - intros j y Hy A. destruct (nth_upd_inv _ _ _ _ _ _ Hi Hy) as [[-> ->]|[N Hy']].
    + exists q. apply in_or_app. right. left. cbn. rewrite Hid. reflexivity.
    + destruct (In2 j y Hy' A) as [q0 B]. exists q0. apply in_or_app. left. exact B.
  - intros q1 q2 k1 k2 j A B. apply in_app_or in A, B.
    destruct A as [A|[A|[]]], B as [B|[B|[]]].
    + eauto.
    + injection B as <- <- <-. destruct (Hnoev _ _ A).
    + injection A as <- <- <-. destruct (Hnoev _ _ B).
    + injection A as <- _ _. injection B as <- _ _. reflexivity.
Qed.

Theorem RxInv_step s l s' : RxInv s -> rx_step true s l = Some s' -> RxInv s'.
Proof.
  intros I H. destruct l.
  - eapply rx_step_start; eauto.
  - eapply rx_snd_labels; eauto; exact Logic.I.
  - eapply rx_snd_labels; eauto; exact Logic.I.
  - eapply rx_snd_labels; eauto; exact Logic.I.
  - eapply rx_snd_labels; eauto; exact Logic.I.
  - eapply rx_step_dereg; eauto.
  - eapply rx_snd_labels; eauto; exact Logic.I.
  - eapply rx_step_arrive; eauto.
  - eapply rx_step_lookup; eauto.
  - eapply rx_step_notify; eauto.
  - eapply rx_step_unhandled; eauto.
Qed.

Theorem RxInv_run tr s : run (rx_step true) rx_init tr = Some s -> RxInv s.
Proof.
  apply (invariant_run _ _ (rx_step true) RxInv rx_init RxInv_init).
  intros s0 l s1 I H. exact (RxInv_step s0 l s1 I H).
Qed.

Lemma snd_step_ret s i f s' j x o :
  snd_step s i f = Some s' ->
  (forall y y', f y = Some y' -> x_id y' = x_id y /\ (forall o, x_pc y = XRet o -> x_pc y' = XRet o)) ->
  nth_error (rx_snd s) j = Some x -> x_pc x = XRet o ->
  exists x', nth_error (rx_snd s') j = Some x' /\ x_pc x' = XRet o /\ x_id x' = x_id x.
Proof.
  unfold snd_step. intros H Hf Hj Hp.
  destruct (nth_error (rx_snd s) i) as [y|] eqn:Hi; [|discriminate].
  destruct (f y) as [y'|] eqn:Hy; [|discriminate]. injection H as <-. cbn.
  destruct (Nat.eq_dec j i) as [->|N].
  - rewrite Hi in Hj. injection Hj as <-. exists y'. destruct (Hf y y' Hy) as [A B].
    split; [eapply nth_upd_eq; eauto|auto].
  - exists x. rewrite nth_upd_neq by congruence. auto.
Qed.

Lemma rx_ret_stable fx s l s' j x o :
  rx_step fx s l = Some s' -> nth_error (rx_snd s) j = Some x -> x_pc x = XRet o ->
  exists x', nth_error (rx_snd s') j = Some x' /\ x_pc x' = XRet o /\ x_id x' = x_id x.
Proof.
  intros H Hj Hp.
  assert (Same : rx_snd s' = rx_snd s ->
                 exists x', nth_error (rx_snd s') j = Some x' /\ x_pc x' = XRet o /\ x_id x' = x_id x)
    by (intro E; rewrite E; eauto).
  destruct l; cbn [rx_step] in H.
  - injection H as <-. cbn. exists x. split; [apply nth_app_old; exact Hj|auto].
  - eapply snd_step_ret; eauto. intros y y' Hf. cbv beta in Hf. destruct (x_pc y); try discriminate.
    injection Hf as <-. cbn. split; [reflexivity|intros ? A; discriminate].
  - eapply snd_step_ret; eauto. intros y y' Hf. cbv beta in Hf. destruct (x_pc y); try discriminate.
    injection Hf as <-. cbn. split; [reflexivity|intros ? A; discriminate].
  - eapply snd_step_ret; eauto. intros y y' Hf. cbv beta in Hf. destruct (x_pc y); try discriminate.
    destruct (fx && x_tok y); try discriminate.
    injection Hf as <-. cbn. split; [reflexivity|intros ? A; discriminate].
  - eapply snd_step_ret; eauto. intros y y' Hf. cbv beta in Hf. destruct (x_pc y); try discriminate.
    destruct (x_canc y); try discriminate.
    injection Hf as <-. cbn. split; [reflexivity|intros ? A; discriminate].
  - destruct (nth_error (rx_snd s) i) as [y|] eqn:Hi; [|discriminate].
    destruct (x_pc y) eqn:E; try discriminate; injection H as <-; cbn;
      (destruct (Nat.eq_dec j i) as [->|N];
       [rewrite Hi in Hj; injection Hj as <-; congruence
       |exists x; rewrite nth_upd_neq by congruence; auto]).
  - eapply snd_step_ret; eauto. intros y y' Hf. injection Hf as <-. cbn. auto.
  - destruct (rx_h s); try discriminate. injection H as <-. apply Same. reflexivity.
  - destruct (rx_h s) as [|id q| | |]; try discriminate.
    destruct (lookup id (rx_tab s)) as [i|].
    + destruct (nth_error (rx_snd s) i) as [y|] eqn:Hi; [|discriminate]. injection H as <-. cbn.
      destruct (Nat.eq_dec j i) as [->|N].
      * rewrite Hi in Hj. injection Hj as <-. eexists. split; [eapply nth_upd_eq; eauto|cbn; auto].
      * exists x. rewrite nth_upd_neq by congruence. auto.
    + injection H as <-. apply Same. reflexivity.
  - destruct (rx_h s) as [| |i id q| |]; try discriminate.
    destruct (nth_error (rx_snd s) i) as [y|] eqn:Hi; [|discriminate].
    destruct fx.
    + destruct (x_tok y); [discriminate|]. injection H as <-. cbn.
      destruct (Nat.eq_dec j i) as [->|N].
      * rewrite Hi in Hj. injection Hj as <-. eexists. split; [eapply nth_upd_eq; eauto|cbn; auto].
      * exists x. rewrite nth_upd_neq by congruence. auto.
    + destruct (x_closed y); [injection H as <-; apply Same; reflexivity|].
      destruct (x_pc y) eqn:E; try discriminate. injection H as <-. cbn.
      destruct (Nat.eq_dec j i) as [->|N].
      * rewrite Hi in Hj. injection Hj as <-. congruence.
      * exists x. rewrite nth_upd_neq by congruence. auto.
  - destruct (rx_h s); try discriminate. injection H as <-. apply Same. reflexivity.
Qed.

Lemma rx_ret_stable_run fx tr : forall s s' j x o,
  run (rx_step fx) s tr = Some s' -> nth_error (rx_snd s) j = Some x -> x_pc x = XRet o ->
  exists x', nth_error (rx_snd s') j = Some x' /\ x_pc x' = XRet o /\ x_id x' = x_id x.
Proof.
  induction tr as [|l tr IH]; intros s s' j x o R Hj Hp; cbn in R.
  - injection R as <-. eauto.
  - destruct (rx_step fx s l) as [s1|] eqn:E; [|discriminate].
    destruct (rx_ret_stable fx s l s1 j x o E Hj Hp) as [x1 [H1 [P1 I1]]].
    destruct (IH s1 s' j x1 o R H1 P1) as [x' [A [B C]]]. exists x'. repeat split; congruence.
Qed.

Lemma rx_outcome_run tr s i x o :
  run (rx_step true) rx_init tr = Some s -> nth_error (rx_snd s) i = Some x -> x_pc x = XRet o ->
  match o with
  | XOk => exists q, In (RNotified q (x_id x) i) (rx_hist s)
  | XCtxErr => x_canc x = true
  | XSendErr => True
  end.
Proof.
  intros R Hi Hp. pose proof (RxInv_run tr s R) as I. destruct o; auto.
  - apply (rxi_tokev _ I i x Hi). apply (rxi_ok _ I i x Hi Hp).
  - apply (rxi_ctx _ I i x Hi). right. exact Hp.
Qed.

Definition rx_enabled (s : rxstate) (l : rxlabel) : Prop := rx_step true s l <> None.

Lemma rx_handler_progress_run tr s :
  run (rx_step true) rx_init tr = Some s ->
  match rx_h s with
  | HIdle => True
  | HRead _ _ => rx_enabled s XLookup
  | HNotify _ _ _ => rx_enabled s XNotify
  | HUnh _ _ => rx_enabled s XUnhandled
  | HPanic => False
  end.
Proof.
  intro R. pose proof (RxInv_run tr s R) as I. pose proof (rxi_h _ I) as Ih.
  unfold rx_enabled. destruct (rx_h s) as [|id q|i id q|id q|] eqn:Eh; auto; cbn [rx_step]; rewrite Eh.
  - destruct (lookup id (rx_tab s)) as [i|] eqn:El; [|discriminate].
    apply lookup_in in El. destruct (rxi_tab _ I id i El) as [x [Hx _]]. rewrite Hx. discriminate.
  - destruct Ih as [x [Hx [_ [_ Ht]]]]. rewrite Hx, Ht. discriminate.
  - discriminate.
Qed.

Lemma rx_accounting_run tr s :
  run (rx_step true) rx_init tr = Some s ->
  (forall e e', In e (rx_hist s) -> In e' (rx_hist s) -> rx_seq e = rx_seq e' -> e = e') /\
  (rx_h s = HIdle -> forall q, q < rx_arrived s -> exists e, In e (rx_hist s) /\ rx_seq e = q) /\
  (forall q id i, In (RNotified q id i) (rx_hist s) ->
     exists x, nth_error (rx_snd s) i = Some x /\ x_id x = id /\ x_tok x = true) /\
  (forall q q' id id' i, In (RNotified q id i) (rx_hist s) -> In (RNotified q' id' i) (rx_hist s) -> q = q').
Proof.
  intro R. pose proof (RxInv_run tr s R) as I. repeat split.
  - intros e e' He He' E. eapply nodup_map_inj; eauto. exact (rxi_nodup _ I).
  - intros Eh q Hq. pose proof (rxi_acct _ I) as Ia. rewrite Eh in Ia. cbn in Ia.
    destruct Ia as [Ia|Ia]; [discriminate|]. specialize (Ia q Hq). unfold rx_seqs in Ia.
    apply in_map_iff in Ia. destruct Ia as [e [A B]]. eauto.
  - exact (rxi_notif _ I).
  - exact (rxi_one _ I).
Qed.

Lemma rx_sender_progress s i x :
  nth_error (rx_snd s) i = Some x ->
  match x_pc x with
  | XReg => rx_enabled s (XSendOk i) /\ rx_enabled s (XSendFail i)
  | XWait => (x_canc x = true -> rx_enabled s (XCtxDone i)) /\ (x_tok x = true -> rx_enabled s (XRecv i))
  | XCtxP | XSendErrP => rx_enabled s (XDereg i)
  | XRet _ => True
  end.
Proof.
  intro Hi. unfold rx_enabled. destruct (x_pc x) eqn:Ep; cbn [rx_step]; unfold snd_step; rewrite ?Hi, ?Ep;
    try discriminate; auto.
  - split; discriminate.
  - split; intros ->; cbn; discriminate.
Qed.

(* ---- the pinned receipts code ---- *)

Lemma rx_pinned_panic :
  exists s, run (rx_step false) rx_init
              [XStart 1; XSendOk 0; XArrive 1; XLookup; XCancel 0; XCtxDone 0; XDereg 0; XNotify] = Some s /\
            rx_h s = HPanic.
Proof. eexists. split; [vm_compute; reflexivity|reflexivity]. Qed.

Lemma rx_pinned_stall :
  exists s x, run (rx_step false) rx_init [XStart 1; XSendFail 0; XDereg 0; XArrive 1; XLookup] = Some s /\
    rx_h s = HNotify 0 1 0 /\ nth_error (rx_snd s) 0 = Some x /\ x_pc x = XRet XSendErr /\
    rx_step false s XNotify = None /\
    forall tr s', run (rx_step false) s tr = Some s' ->
      exists x', nth_error (rx_snd s') 0 = Some x' /\ x_pc x' = XRet XSendErr.
Proof.
  eexists. eexists. split; [vm_compute; reflexivity|]. repeat split.
  intros tr s' R.
  destruct (rx_ret_stable_run false tr _ s' 0 _ XSendErr R eq_refl eq_refl) as [x' [A [B _]]]. eauto.
Qed.

Lemma rx_fixed_same_schedules :
  (exists s, run (rx_step true) rx_init
               [XStart 1; XSendOk 0; XArrive 1; XLookup; XCancel 0; XCtxDone 0; XDereg 0; XNotify] = Some s /\
             rx_h s = HIdle) /\
  (exists s, run (rx_step true) rx_init
               [XStart 1; XSendFail 0; XDereg 0; XArrive 1; XLookup; XUnhandled] = Some s /\
             rx_h s = HIdle).
Proof. split; eexists; (split; [vm_compute; reflexivity|reflexivity]). Qed.
