(* C06/ProofsIbb.v — lemmas about the in-band bytestream reader transition
   system of C06/ModelExt.v (pinned behaviour of ibb/conn.go Read / Close /
   closeNoNotify and ibb/ibb.go handlePayload). *)
From Coq Require Import List Arith NArith Bool Lia.
Import ListNotations.
From XV Require Import lib.Lts C06.Model C06.ModelExt C06.Proofs.

Definition ibb_enabled (s : ibbstate) (l : ibblabel) : Prop := ibb_step s l <> None.

(* ---- one outcome per Read: results are only ever appended ---- *)

Lemma ibb_outs_step s l s' :
  ibb_step s l = Some s' -> exists more, ib_outs s' = ib_outs s ++ more /\ length more <= 1.
Proof.
  intro H. destruct l; cbn [ibb_step] in H.
  - destruct (ib_rd s); try discriminate. destruct cap; try discriminate.
    destruct (ib_h s); try discriminate.
    destruct (Nat.eqb (ib_buf s) 0); injection H as <-; cbn.
    + exists []. rewrite app_nil_r. auto.
    + eexists. split; [reflexivity|]. cbn. lia.
  - destruct (ib_rd s); try discriminate. injection H as <-. exists []. cbn. rewrite app_nil_r. auto.
  - destruct (ib_rd s); try discriminate. destruct cap; try discriminate.
    destruct (ib_h s); try discriminate.
    destruct (Nat.eqb (ib_buf s) 0); injection H as <-; cbn; eexists; (split; [reflexivity|cbn; lia]).
  - destruct (ib_h s); try discriminate. destruct (ib_remote_closed s); try discriminate.
    injection H as <-. exists []. cbn. rewrite app_nil_r. auto.
  - destruct (ib_h s); try discriminate.
    destruct (ib_closed s); [injection H as <-; exists []; cbn; rewrite app_nil_r; auto|].
    destruct (ib_rd s); injection H as <-; exists []; cbn; rewrite app_nil_r; auto.
  - destruct (ib_h s); try discriminate. destruct (ib_closed s); try discriminate.
    injection H as <-. exists []. cbn. rewrite app_nil_r. auto.
  - destruct (ib_closed s); try discriminate.
    injection H as <-. exists []. cbn. rewrite app_nil_r. auto.
Qed.

Lemma ibb_outs_run tr : forall s s',
  run ibb_step s tr = Some s' -> exists more, ib_outs s' = ib_outs s ++ more.
Proof.
  induction tr as [|l tr IH]; intros s s' R; cbn in R.
  - injection R as <-. exists []. rewrite app_nil_r. reflexivity.
  - destruct (ibb_step s l) as [s1|] eqn:E; [|discriminate].
    destruct (ibb_outs_step s l s1 E) as [m1 [E1 _]]. destruct (IH s1 s' R) as [m2 E2].
    exists (m1 ++ m2). rewrite E2, E1, app_assoc. reflexivity.
Qed.

(* ---- conservation of bytes; closed is for good ---- *)

Fixpoint arrived_bytes (tr : list ibblabel) : nat :=
  match tr with
  | [] => 0
  | IData n :: rest => n + arrived_bytes rest
  | _ :: rest => arrived_bytes rest
  end.

Fixpoint delivered_bytes (o : list rdout) : nat :=
  match o with
  | [] => 0
  | RdData n :: rest => n + delivered_bytes rest
  | RdEOF :: rest => delivered_bytes rest
  end.

Lemma delivered_app a b : delivered_bytes (a ++ b) = delivered_bytes a + delivered_bytes b.
Proof. induction a as [|x a IH]; cbn; [reflexivity|]. destruct x; rewrite IH; lia. Qed.

Lemma arrived_app a b : arrived_bytes (a ++ b) = arrived_bytes a + arrived_bytes b.
Proof. induction a as [|x a IH]; cbn; [reflexivity|]. destruct x; rewrite ?IH; lia. Qed.

Lemma ibb_conservation_step s l s' :
  ibb_step s l = Some s' ->
  delivered_bytes (ib_outs s') + ib_buf s' = delivered_bytes (ib_outs s) + ib_buf s + arrived_bytes [l].
Proof.
  intro H. destruct l; cbn [ibb_step] in H; cbn [arrived_bytes].
  - destruct (ib_rd s); try discriminate. destruct cap as [|cap]; try discriminate.
    destruct (ib_h s); try discriminate.
    destruct (Nat.eqb (ib_buf s) 0) eqn:E; injection H as <-; cbn [ibb_set ib_outs ib_buf].
    + apply Nat.eqb_eq in E. lia.
    + rewrite delivered_app. cbn [delivered_bytes].
      apply Nat.eqb_neq in E. destruct (ib_buf s) as [|m]; [congruence|].
      pose proof (Nat.le_min_r cap m). lia.
  - destruct (ib_rd s); try discriminate. injection H as <-. cbn [ibb_set ib_outs ib_buf]. lia.
  - destruct (ib_rd s); try discriminate. destruct cap as [|cap]; try discriminate.
    destruct (ib_h s); try discriminate.
    destruct (Nat.eqb (ib_buf s) 0) eqn:E; injection H as <-; cbn [ibb_set ib_outs ib_buf];
      rewrite delivered_app; cbn [delivered_bytes].
    + apply Nat.eqb_eq in E. lia.
    + apply Nat.eqb_neq in E. destruct (ib_buf s) as [|m]; [congruence|].
      pose proof (Nat.le_min_r cap m). lia.
  - destruct (ib_h s); try discriminate. destruct (ib_remote_closed s); try discriminate.
    injection H as <-. cbn [ibb_set ib_outs ib_buf]. lia.
  - destruct (ib_h s); try discriminate.
    destruct (ib_closed s); [injection H as <-; cbn [ibb_set ib_outs ib_buf]; lia|].
    destruct (ib_rd s); injection H as <-; cbn [ibb_set ib_outs ib_buf]; lia.
  - destruct (ib_h s); try discriminate. destruct (ib_closed s); try discriminate.
    injection H as <-. cbn [ib_outs ib_buf]. lia.
  - destruct (ib_closed s); try discriminate. injection H as <-. cbn [ib_outs ib_buf]. lia.
Qed.

Lemma ibb_conservation_run tr : forall s s',
  run ibb_step s tr = Some s' ->
  delivered_bytes (ib_outs s') + ib_buf s' = delivered_bytes (ib_outs s) + ib_buf s + arrived_bytes tr.
Proof.
  induction tr as [|l tr IH]; intros s s' R; cbn [run] in R.
  - injection R as <-. cbn. lia.
  - destruct (ibb_step s l) as [s1|] eqn:E; [|discriminate].
    pose proof (ibb_conservation_step s l s1 E) as C1. pose proof (IH s1 s' R) as C2.
    change (l :: tr) with ([l] ++ tr). rewrite arrived_app. lia.
Qed.

Lemma ibb_closed_step s l s' : ibb_step s l = Some s' -> ib_closed s = true -> ib_closed s' = true.
Proof.
  intros H C. destruct l; cbn [ibb_step] in H.
  - destruct (ib_rd s); try discriminate. destruct cap; try discriminate.
    destruct (ib_h s); try discriminate.
    destruct (Nat.eqb (ib_buf s) 0); injection H as <-; exact C.
  - destruct (ib_rd s); try discriminate. injection H as <-. exact C.
  - destruct (ib_rd s); try discriminate. destruct cap; try discriminate.
    destruct (ib_h s); try discriminate.
    destruct (Nat.eqb (ib_buf s) 0); injection H as <-; exact C.
  - destruct (ib_h s); try discriminate. destruct (ib_remote_closed s); try discriminate.
    injection H as <-. exact C.
  - destruct (ib_h s); try discriminate. rewrite C in H. injection H as <-. exact C.
  - destruct (ib_h s); try discriminate. rewrite C in H. discriminate.
  - rewrite C in H. discriminate.
Qed.

(* ---- structural invariant, on every schedule ---- *)

Record IbbInv (s : ibbstate) : Prop := {
  ii_remote : ib_remote_closed s = true -> ib_closed s = true;
  ii_waiting : ib_rd s = RdWaiting -> ib_closed s = false;
  ii_notify : ib_h s = IHNotify -> ib_remote_closed s = false;
  ii_panic : ib_h s = IHPanic -> ib_closed s = true /\ ib_remote_closed s = false
}.

Lemma IbbInv_init : IbbInv ibb_init.
Proof. constructor; cbn; discriminate. Qed.

Lemma IbbInv_step s l s' : IbbInv s -> ibb_step s l = Some s' -> IbbInv s'.
Proof.
  intros [Ir Iw In Ip] H. destruct l; cbn [ibb_step] in H.
  - destruct (ib_rd s) eqn:Er; try discriminate. destruct cap; try discriminate.
    destruct (ib_h s) eqn:Eh; try discriminate.
    destruct (Nat.eqb (ib_buf s) 0); injection H as <-; constructor; cbn; auto; try discriminate;
      rewrite ?Eh; discriminate.
  - destruct (ib_rd s) eqn:Er; try discriminate. injection H as <-. constructor; cbn; auto.
    destruct (ib_closed s); [discriminate|reflexivity].
  - destruct (ib_rd s) eqn:Er; try discriminate. destruct cap; try discriminate.
    destruct (ib_h s) eqn:Eh; try discriminate.
    destruct (Nat.eqb (ib_buf s) 0); injection H as <-; constructor; cbn; auto; try discriminate;
      rewrite ?Eh; discriminate.
  - destruct (ib_h s) eqn:Eh; try discriminate. destruct (ib_remote_closed s) eqn:Erc; try discriminate.
    injection H as <-. constructor; cbn; rewrite ?Erc; auto; try discriminate.
  - destruct (ib_h s) eqn:Eh; try discriminate.
    destruct (ib_closed s) eqn:Ec.
    + injection H as <-. constructor; cbn; rewrite ?Ec; auto; try discriminate.
    + destruct (ib_rd s) eqn:Er; injection H as <-; constructor; cbn; rewrite ?Ec; auto; discriminate.
  - destruct (ib_h s) eqn:Eh; try discriminate. destruct (ib_closed s) eqn:Ec; try discriminate.
    injection H as <-. constructor; cbn; auto; try discriminate.
    destruct (ib_rd s); discriminate.
  - destruct (ib_closed s) eqn:Ec; try discriminate.
    injection H as <-. constructor; cbn; auto.
    + destruct (ib_rd s); discriminate.
    + intros E. destruct (Ip E) as [A _]. discriminate.
Qed.

Theorem IbbInv_run tr s : run ibb_step ibb_init tr = Some s -> IbbInv s.
Proof.
  apply (invariant_run _ _ ibb_step IbbInv ibb_init IbbInv_init).
  intros s0 l s1 I H. exact (IbbInv_step s0 l s1 I H).
Qed.

(* a Read call never gets stuck on its own; the handler always completes *)
Lemma ibb_local_progress s :
  (ib_rd s = RdChecked -> ibb_enabled s IWait) /\
  (ib_rd s = RdWoken -> ib_h s = IHIdle -> forall cap, ibb_enabled s (IWake (S cap))) /\
  (ib_h s = IHNotify -> ibb_enabled s INotify).
Proof.
  unfold ibb_enabled. repeat split.
  - intros E. cbn [ibb_step]. rewrite E. discriminate.
  - intros E Eh cap. cbn [ibb_step]. rewrite E, Eh. destruct (Nat.eqb (ib_buf s) 0); discriminate.
  - intros E. cbn [ibb_step]. rewrite E. destruct (ib_closed s); [discriminate|].
    destruct (ib_rd s); discriminate.
Qed.

Ltac fin := repeat match goal with |- _ /\ _ => split end; intros;
  try assumption; try reflexivity; try discriminate; try congruence; auto.

(* ---- the handler's panic: only after a local Close ---- *)

Definition no_local_close (s : ibbstate) : Prop :=
  (ib_closed s = true -> ib_remote_closed s = true) /\
  (ib_h s = IHNotify -> ib_remote_closed s = false) /\
  ib_h s <> IHPanic.

Lemma no_local_close_step s l s' :
  no_local_close s -> l <> ICloseLocal -> ibb_step s l = Some s' -> no_local_close s'.
Proof.
  intros (A & B & C) N H. unfold no_local_close. destruct l; cbn [ibb_step] in H.
  - destruct (ib_rd s); try discriminate. destruct cap; try discriminate.
    destruct (ib_h s) eqn:Eh; try discriminate.
    destruct (Nat.eqb (ib_buf s) 0); injection H as <-; cbn; rewrite ?Eh; fin.
  - destruct (ib_rd s); try discriminate. injection H as <-. cbn. auto.
  - destruct (ib_rd s); try discriminate. destruct cap; try discriminate.
    destruct (ib_h s) eqn:Eh; try discriminate.
    destruct (Nat.eqb (ib_buf s) 0); injection H as <-; cbn; rewrite ?Eh; fin.
  - destruct (ib_h s) eqn:Eh; try discriminate. destruct (ib_remote_closed s) eqn:Erc; try discriminate.
    injection H as <-. cbn. rewrite ?Erc. fin.
  - destruct (ib_h s) eqn:Eh; try discriminate.
    destruct (ib_closed s) eqn:Ec.
    + rewrite (A eq_refl) in B. discriminate (B eq_refl).
    + destruct (ib_rd s); injection H as <-; cbn; fin.
  - destruct (ib_h s) eqn:Eh; try discriminate. destruct (ib_closed s) eqn:Ec; try discriminate.
    injection H as <-. cbn. fin.
  - congruence.
Qed.

Lemma no_panic_without_local_close tr : forall s s',
  no_local_close s -> ~ In ICloseLocal tr -> run ibb_step s tr = Some s' -> ib_h s' <> IHPanic.
Proof.
  induction tr as [|l tr IH]; intros s s' P N R; cbn [run] in R.
  - injection R as <-. apply P.
  - destruct (ibb_step s l) as [s1|] eqn:E; [|discriminate].
    apply (IH s1 s'); auto.
    + eapply no_local_close_step; eauto. intros ->. apply N. left. reflexivity.
    + intro X. apply N. right. exact X.
Qed.

Lemma ibb_no_panic_partial tr s :
  ~ In ICloseLocal tr -> run ibb_step ibb_init tr = Some s -> ib_h s <> IHPanic.
Proof.
  apply no_panic_without_local_close. unfold no_local_close. cbn. repeat split; discriminate.
Qed.

Lemma ibb_panic_after_local_close :
  exists s, run ibb_step ibb_init [ICloseLocal; IData 3; INotify] = Some s /\ ib_h s = IHPanic.
Proof. eexists. split; [vm_compute; reflexivity|reflexivity]. Qed.

(* ---- io.EOF on an open stream: only through an empty data packet ---- *)

Definition eof_inv (s : ibbstate) : Prop :=
  (In RdEOF (ib_outs s) -> ib_closed s = true) /\
  (ib_rd s = RdWoken -> ib_closed s = true \/ 0 < ib_buf s) /\
  (ib_h s = IHNotify -> 0 < ib_buf s).

Definition nonempty_data (l : ibblabel) : Prop := match l with IData 0 => False | _ => True end.

Ltac eof_snoc :=
  match goal with
  | X : In RdEOF (_ ++ [_]) |- _ => apply in_app_or in X; destruct X as [X|[X|[]]]; [auto|try discriminate]
  end.

Lemma eof_inv_step s l s' :
  IbbInv s -> eof_inv s -> nonempty_data l -> ibb_step s l = Some s' -> eof_inv s'.
Proof.
  intros I (A & B & C) N H. unfold eof_inv. destruct l; cbn [ibb_step] in H.
  - destruct (ib_rd s) eqn:Er; try discriminate. destruct cap; try discriminate.
    destruct (ib_h s) eqn:Eh; try discriminate.
    destruct (Nat.eqb (ib_buf s) 0) eqn:E0; injection H as <-; cbn [ibb_set ib_outs ib_closed ib_rd ib_h ib_buf];
      rewrite ?Eh; fin.
    eof_snoc.
  - destruct (ib_rd s) eqn:Er; try discriminate. injection H as <-.
    cbn [ibb_set ib_outs ib_closed ib_rd ib_h ib_buf]. fin.
    destruct (ib_closed s); [auto|discriminate].
  - destruct (ib_rd s) eqn:Er; try discriminate. destruct cap; try discriminate.
    destruct (ib_h s) eqn:Eh; try discriminate.
    destruct (Nat.eqb (ib_buf s) 0) eqn:E0; injection H as <-; cbn [ibb_set ib_outs ib_closed ib_rd ib_h ib_buf];
      rewrite ?Eh; fin.
    + eof_snoc. apply Nat.eqb_eq in E0. destruct (B eq_refl) as [Y|Y]; [exact Y|lia].
    + eof_snoc.
  - destruct (ib_h s) eqn:Eh; try discriminate. destruct (ib_remote_closed s) eqn:Erc; try discriminate.
    injection H as <-. cbn [ibb_set ib_outs ib_closed ib_rd ib_h ib_buf]. fin.
    + destruct (B H) as [Y|Y]; [left; exact Y|right; lia].
    + destruct n; [destruct N|lia].
  - destruct (ib_h s) eqn:Eh; try discriminate.
    destruct (ib_closed s) eqn:Ec.
    + injection H as <-. cbn [ibb_set ib_outs ib_closed ib_rd ib_h ib_buf]. rewrite ?Ec. fin.
    + destruct (ib_rd s) eqn:Er; injection H as <-; cbn [ibb_set ib_outs ib_closed ib_rd ib_h ib_buf];
        rewrite ?Ec, ?Er; fin.
  - destruct (ib_h s) eqn:Eh; try discriminate. destruct (ib_closed s) eqn:Ec; try discriminate.
    injection H as <-. cbn [ib_outs ib_closed ib_rd ib_h ib_buf]. fin.
  - destruct (ib_closed s) eqn:Ec; try discriminate.
    injection H as <-. cbn [ib_outs ib_closed ib_rd ib_h ib_buf]. fin.
Qed.

Lemma eof_only_when_closed_run tr : forall s s',
  IbbInv s -> eof_inv s -> Forall nonempty_data tr -> run ibb_step s tr = Some s' -> eof_inv s'.
Proof.
  induction tr as [|l tr IH]; intros s s' I Q F R; cbn [run] in R.
  - injection R as <-. exact Q.
  - destruct (ibb_step s l) as [s1|] eqn:E; [|discriminate]. inversion F as [|? ? F1 F2]; subst.
    apply (IH s1 s'); auto.
    + eapply IbbInv_step; eauto.
    + eapply eof_inv_step; eauto.
Qed.

Lemma ibb_eof_partial tr s :
  Forall nonempty_data tr -> run ibb_step ibb_init tr = Some s ->
  In RdEOF (ib_outs s) -> ib_closed s = true.
Proof.
  intros F R. apply (eof_only_when_closed_run tr ibb_init s IbbInv_init); auto.
  unfold eof_inv. cbn. repeat split; try discriminate. intros [].
Qed.

Lemma ibb_eof_on_empty_packet :
  exists s, run ibb_step ibb_init [IRead 4; IWait; IData 0; INotify; IWake 4] = Some s /\
            ib_outs s = [RdEOF] /\ ib_closed s = false.
Proof. eexists. split; [vm_compute; reflexivity|]. split; reflexivity. Qed.

(* ---- the lost wake-up ---- *)

(* the property: a reader is never left blocked while bytes are buffered and
   the handler is outside its critical section *)
Definition no_lost_wakeup (s : ibbstate) : Prop :=
  ib_rd s = RdWaiting -> ib_h s = IHIdle -> ib_buf s = 0.

Definition lost_wakeup_trace : list ibblabel := [IRead 4; IData 3; INotify; IWait].

Lemma ibb_lost_wakeup :
  exists s, run ibb_step ibb_init lost_wakeup_trace = Some s /\
    ib_rd s = RdWaiting /\ ib_h s = IHIdle /\ ib_buf s = 3 /\ ib_closed s = false /\ ib_lost s = 1 /\
    forall l, ibb_enabled s l -> (exists n, l = IData n) \/ l = ICloseRemote \/ l = ICloseLocal.
Proof.
  eexists. split; [vm_compute; reflexivity|]. repeat split.
  intros l E. unfold ibb_enabled in E. destruct l; cbn in E; try congruence; eauto.
Qed.

(* the transition system without the window: no data packet is handled
   between the reader's empty-buffer check and its wait *)
Definition ibb_step_nw (s : ibbstate) (l : ibblabel) : option ibbstate :=
  match l, ib_rd s with
  | IData _, RdChecked => None
  | _, _ => ibb_step s l
  end.

Definition nw_inv (s : ibbstate) : Prop :=
  (ib_rd s = RdChecked -> ib_buf s = 0 /\ ib_h s = IHIdle) /\ no_lost_wakeup s.

Lemma nw_inv_step s l s' : nw_inv s -> ibb_step_nw s l = Some s' -> nw_inv s'.
Proof.
  intros (A & B) H. unfold nw_inv, no_lost_wakeup in *. unfold ibb_step_nw in H.
  destruct l; cbn [ibb_step] in H.
  - destruct (ib_rd s) eqn:Er; try discriminate. destruct cap; try discriminate.
    destruct (ib_h s) eqn:Eh; try discriminate.
    destruct (Nat.eqb (ib_buf s) 0) eqn:E0; injection H as <-; cbn; rewrite ?Eh; fin.
  - destruct (ib_rd s) eqn:Er; try discriminate. injection H as <-. cbn.
    destruct (A eq_refl) as [A1 A2]. split; [destruct (ib_closed s); discriminate|auto].
  - destruct (ib_rd s) eqn:Er; try discriminate. destruct cap; try discriminate.
    destruct (ib_h s) eqn:Eh; try discriminate.
    destruct (Nat.eqb (ib_buf s) 0) eqn:E0; injection H as <-; cbn; rewrite ?Eh; fin.
  - destruct (ib_rd s) eqn:Er; try discriminate;
      (destruct (ib_h s) eqn:Eh; try discriminate; destruct (ib_remote_closed s); try discriminate;
       injection H as <-; cbn; rewrite ?Er; split; intros; discriminate).
  - destruct (ib_h s) eqn:Eh; try discriminate.
    destruct (ib_closed s) eqn:Ec.
    + injection H as <-. cbn. split; [intro X; destruct (A X); discriminate|intros; discriminate].
    + destruct (ib_rd s) eqn:Er; injection H as <-; cbn; rewrite ?Er; split; intros; try discriminate.
      destruct (A eq_refl). discriminate.
  - destruct (ib_h s) eqn:Eh; try discriminate. destruct (ib_closed s) eqn:Ec; try discriminate.
    injection H as <-. cbn. split.
    + intro X. destruct (ib_rd s) eqn:Er; try discriminate. auto.
    + intro X. destruct (ib_rd s); discriminate.
  - destruct (ib_closed s) eqn:Ec; try discriminate.
    injection H as <-. cbn. split.
    + intro X. destruct (ib_rd s) eqn:Er; try discriminate. auto.
    + intro X. destruct (ib_rd s); discriminate.
Qed.

Lemma ibb_no_lost_wakeup_partial tr s :
  run ibb_step_nw ibb_init tr = Some s -> no_lost_wakeup s.
Proof.
  intro R. apply (invariant_run _ _ ibb_step_nw nw_inv ibb_init) with (tr := tr) (s := s).
  - unfold nw_inv, no_lost_wakeup. cbn. split; intros; discriminate.
  - exact nw_inv_step.
  - exact R.
Qed.

(* the restricted system is a sub-system of the full one *)
Lemma ibb_step_nw_sub s l s' : ibb_step_nw s l = Some s' -> ibb_step s l = Some s'.
Proof.
  unfold ibb_step_nw. destruct l; auto. destruct (ib_rd s); auto. discriminate.
Qed.
