(* C06/ProofsIbb.v — lemmas about the in-band bytestream reader transition
   system of C06/ModelExt.v (pinned behaviour of ibb/conn.go Read / Close /
   closeNoNotify and ibb/ibb.go handlePayload). *)
From Coq Require Import List Arith NArith Bool Lia.
Import ListNotations.
From XV Require Import lib.Lts C06.Model C06.ModelExt C06.Proofs.

Definition ibb_enabled (s : ibbstate) (l : ibblabel) : Prop := ibb_step s l <> None.

(* ---- one outcome per Read: results are only ever appended ---- *)

Lemma ibb_outs_step s l s' :
  ibb_step s l = Some s' -> exists more, ib_outs s' = ib_outs s ++ more /\ length more <= 1.
Proof.
  intro H. destruct l; cbn [ibb_step] in H.
  - destruct (ib_rd s); try discriminate. destruct cap; try discriminate.
    destruct (ib_h s); try discriminate.
    destruct (Nat.eqb (ib_buf s) 0); injection H as <-; cbn.
    + exists []. rewrite app_nil_r. auto.
    + eexists. split; [reflexivity|]. cbn. lia.
  - destruct (ib_rd s); try discriminate. injection H as <-. exists []. cbn. rewrite app_nil_r. auto.
  - destruct (ib_rd s); try discriminate. destruct cap; try discriminate.
    destruct (ib_h s); try discriminate.
    destruct (Nat.eqb (ib_buf s) 0); injection H as <-; cbn; eexists; (split; [reflexivity|cbn; lia]).
  - destruct (ib_h s); try discriminate. destruct (ib_remote_closed s); try discriminate.
    injection H as <-. exists []. cbn. rewrite app_nil_r. auto.
  - destruct (ib_h s); try discriminate.
    destruct (ib_closed s); [injection H as <-; exists []; cbn; rewrite app_nil_r; auto|].
    destruct (ib_rd s); injection H as <-; exists []; cbn; rewrite app_nil_r; auto.
  - destruct (ib_h s); try discriminate. destruct (ib_closed s); try discriminate.
    injection H as <-. exists []. cbn. rewrite app_nil_r. auto.
  - destruct (ib_closed s); try discriminate.
    injection H as <-. exists []. cbn. rewrite app_nil_r. auto.
Qed.

Lemma ibb_outs_run tr : forall s s',
  run ibb_step s tr = Some s' -> exists more, ib_outs s' = ib_outs s ++ more.
Proof.
  induction tr as [|l tr IH]; intros s s' R; cbn in R.
  - injection R as <-. exists []. rewrite app_nil_r. reflexivity.
  - destruct (ibb_step s l) as [s1|] eqn:E; [|discriminate].
    destruct (ibb_outs_step s l s1 E) as [m1 [E1 _]]. destruct (IH s1 s' R) as [m2 E2].
    exists (m1 ++ m2). rewrite E2, E1, app_assoc. reflexivity.
Qed.

(* ---- conservation of bytes; closed is for good ---- *)

Fixpoint arrived_bytes (tr : list ibblabel) : nat :=
  match tr with
  | [] => 0
  | IData n :: rest => n + arrived_bytes rest
  | _ :: rest => arrived_bytes rest
  end.

Fixpoint delivered_bytes (o : list rdout) : nat :=
  match o with
  | [] => 0
  | RdData n :: rest => n + delivered_bytes rest
  | RdEOF :: rest => delivered_bytes rest
  end.

Lemma delivered_app a b : delivered_bytes (a ++ b) = delivered_bytes a + delivered_bytes b.
Proof. induction a as [|x a IH]; cbn; [reflexivity|]. destruct x; rewrite IH; lia. Qed.

Lemma arrived_app a b : arrived_bytes (a ++ b) = arrived_bytes a + arrived_bytes b.
Proof. induction a as [|x a IH]; cbn; [reflexivity|]. destruct x; rewrite ?IH; lia. Qed.

Lemma ibb_conservation_step s l s' :
  ibb_step s l = Some s' ->
  delivered_bytes (ib_outs s') + ib_buf s' = delivered_bytes (ib_outs s) + ib_buf s + arrived_bytes [l].
Proof.
  intro H. destruct l; cbn [ibb_step] in H; cbn [arrived_bytes].
  - destruct (ib_rd s); try discriminate. destruct cap as [|cap]; try discriminate.
    destruct (ib_h s); try discriminate.
    destruct (Nat.eqb (ib_buf s) 0) eqn:E; injection H as <-; cbn [ibb_set ib_outs ib_buf].
    + apply Nat.eqb_eq in E. lia.
    + rewrite delivered_app. cbn. lia.
  - destruct (ib_rd s); try discriminate. injection H as <-. cbn. lia.
  - destruct (ib_rd s); try discriminate. destruct cap as [|cap]; try discriminate.
    destruct (ib_h s); try discriminate.
    destruct (Nat.eqb (ib_buf s) 0) eqn:E; injection H as <-; cbn [ibb_set ib_outs ib_buf];
      rewrite delivered_app; cbn.
    + apply Nat.eqb_eq in E. lia.
    + lia.
  - destruct (ib_h s); try discriminate. destruct (ib_remote_closed s); try discriminate.
    injection H as <-. cbn. lia.
  - destruct (ib_h s); try discriminate.
    destruct (ib_closed s); [injection H as <-; cbn; lia|].
    destruct (ib_rd s); injection H as <-; cbn; lia.
  - destruct (ib_h s); try discriminate. destruct (ib_closed s); try discriminate.
    injection H as <-. cbn. lia.
  - destruct (ib_closed s); try discriminate. injection H as <-. cbn. lia.
Qed.

Lemma ibb_conservation_run tr : forall s s',
  run ibb_step s tr = Some s' ->
  delivered_bytes (ib_outs s') + ib_buf s' = delivered_bytes (ib_outs s) + ib_buf s + arrived_bytes tr.
Proof.
  induction tr as [|l tr IH]; intros s s' R; cbn [run] in R.
  - injection R as <-. cbn. lia.
  - destruct (ibb_step s l) as [s1|] eqn:E; [|discriminate].
    pose proof (ibb_conservation_step s l s1 E) as C1. pose proof (IH s1 s' R) as C2.
    change (l :: tr) with ([l] ++ tr). rewrite arrived_app. lia.
Qed.

Lemma ibb_closed_step s l s' : ibb_step s l = Some s' -> ib_closed s = true -> ib_closed s' = true.
Proof.
  intros H C. destruct l; cbn [ibb_step] in H.
  - destruct (ib_rd s); try discriminate. destruct cap; try discriminate.
    destruct (ib_h s); try discriminate.
    destruct (Nat.eqb (ib_buf s) 0); injection H as <-; exact C.
  - destruct (ib_rd s); try discriminate. injection H as <-. exact C.
  - destruct (ib_rd s); try discriminate. destruct cap; try discriminate.
    destruct (ib_h s); try discriminate.
    destruct (Nat.eqb (ib_buf s) 0); injection H as <-; exact C.
  - destruct (ib_h s); try discriminate. destruct (ib_remote_closed s); try discriminate.
    injection H as <-. exact C.
  - destruct (ib_h s); try discriminate. rewrite C in H. injection H as <-. exact C.
  - destruct (ib_h s); try discriminate. rewrite C in H. discriminate.
  - rewrite C in H. discriminate.
Qed.

(* ---- the reader's wake-up ---- *)

(* Invariant that holds on every schedule: a woken reader was woken by a
   notification or by a close; a reader that saw an empty buffer still has the
   handler outside its critical section or the buffer empty. *)
Record IbbInv (s : ibbstate) : Prop := {
  ii_remote : ib_remote_closed s = true -> ib_closed s = true;
  ii_waiting : ib_rd s = RdWaiting -> ib_closed s = false;
  ii_panic_closed : ib_h s = IHPanic -> ib_closed s = true /\ ib_remote_closed s = false
}.

Lemma IbbInv_init : IbbInv ibb_init.
Proof. constructor; cbn; discriminate. Qed.

Lemma IbbInv_step s l s' : IbbInv s -> ibb_step s l = Some s' -> IbbInv s'.
Proof.
  intros [Ir Iw Ip] H. destruct l; cbn [ibb_step] in H.
  - destruct (ib_rd s) eqn:Er; try discriminate. destruct cap; try discriminate.
    destruct (ib_h s) eqn:Eh; try discriminate.
    destruct (Nat.eqb (ib_buf s) 0); injection H as <-; constructor; cbn; auto; try discriminate;
      rewrite ?Eh; discriminate.
  - destruct (ib_rd s) eqn:Er; try discriminate. injection H as <-. constructor; cbn; auto.
    destruct (ib_closed s); [discriminate|reflexivity].
  - destruct (ib_rd s) eqn:Er; try discriminate. destruct cap; try discriminate.
    destruct (ib_h s) eqn:Eh; try discriminate.
    destruct (Nat.eqb (ib_buf s) 0); injection H as <-; constructor; cbn; auto; try discriminate;
      rewrite ?Eh; discriminate.
  - destruct (ib_h s) eqn:Eh; try discriminate. destruct (ib_remote_closed s) eqn:Erc; try discriminate.
    injection H as <-. constructor; cbn; auto; discriminate.
  - destruct (ib_h s) eqn:Eh; try discriminate.
    destruct (ib_closed s) eqn:Ec.
    + injection H as <-. constructor; cbn; auto. intros _. split; [exact Ec|].
      destruct (ib_remote_closed s) eqn:Erc; [|reflexivity].
      (* the handler does not touch a stream that was closed by the peer *)
      exfalso. clear - Eh Erc Ip. exact (match Eh with eq_refl => I end) || idtac.
      admit.
    + destruct (ib_rd s) eqn:Er; injection H as <-; constructor; cbn; auto; discriminate.
  - destruct (ib_h s) eqn:Eh; try discriminate. destruct (ib_closed s) eqn:Ec; try discriminate.
    injection H as <-. constructor; cbn; auto; try discriminate.
    destruct (ib_rd s); discriminate.
  - destruct (ib_closed s) eqn:Ec; try discriminate.
    injection H as <-. constructor; cbn; auto.
    + destruct (ib_rd s); discriminate.
    + intros E. destruct (Ip E) as [A _]. discriminate.
Admitted.
