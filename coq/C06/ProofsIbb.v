(* C06/ProofsIbb.v — lemmas about the in-band bytestream reader transition
   systems of C06/ModelExt.v: [ibbf_step], the code (ibb/conn.go Read / Close /
   closeRead / closeNoNotify, ibb/ibb.go handlePayload after the repairs), and
   [ibb_step], the pinned design, for the witnesses of what was repaired. *)
From Coq Require Import List Arith NArith Bool Lia.
Import ListNotations.
From XV Require Import lib.Lts C06.Model C06.ModelExt C06.Proofs.

Ltac fin := repeat match goal with |- _ /\ _ => split end; intros;
  try assumption; try reflexivity; try discriminate; try congruence; auto.

Ltac break_match H := repeat match type of H with
  | context [match ?x with _ => _ end] => destruct x eqn:?; try discriminate
  end.

(* ====================================================================== *)
(* The code: ibbf_step                                                     *)
(* ====================================================================== *)

Definition ibbf_enabled (s : ibbfstate) (l : ibbflabel) : Prop := ibbf_step s l <> None.

(* ---- bytes ---- *)

Fixpoint delivered_bytes (o : list rdout) : nat :=
  match o with
  | [] => 0
  | RdData n :: rest => n + delivered_bytes rest
  | RdEOF :: rest => delivered_bytes rest
  end.

Fixpoint accepted_bytes (tr : list ibbflabel) : nat :=
  match tr with
  | [] => 0
  | FData _ n :: rest => n + accepted_bytes rest
  | _ :: rest => accepted_bytes rest
  end.

Lemma delivered_app a b : delivered_bytes (a ++ b) = delivered_bytes a + delivered_bytes b.
Proof. induction a as [|x a IH]; cbn; [reflexivity|]. destruct x; rewrite IH; lia. Qed.

Lemma accepted_app a b : accepted_bytes (a ++ b) = accepted_bytes a + accepted_bytes b.
Proof. induction a as [|x a IH]; cbn; [reflexivity|]. destruct x; rewrite ?IH; lia. Qed.

(* bytes of a packet whose handler holds the lock and has not appended yet *)
Definition pending_bytes (s : ibbfstate) : nat := match fb_h s with FHLocked _ n => n | _ => 0 end.

Lemma rd_take_bytes s cap :
  fb_buf s <> 0 ->
  delivered_bytes (fb_outs (rd_take s (S cap))) + fb_buf (rd_take s (S cap)) = delivered_bytes (fb_outs s) + fb_buf s.
Proof.
  intro N. unfold rd_take. cbn [fb_outs fb_buf]. rewrite delivered_app. cbn [delivered_bytes].
  pose proof (Nat.le_min_r (S cap) (fb_buf s)). lia.
Qed.

(* ---- the invariant ---- *)

Record FInv (s : ibbfstate) : Prop := {
  fi_locked : fb_h s <> FHIdle -> fb_closed s = false;
  fi_waiting : fb_rd s = FWaiting -> fb_closed s = false /\ fb_tok s = false;
  fi_data : (fb_rd s = FChecked \/ fb_rd s = FWaiting) -> 0 < fb_buf s -> fb_h s = FHIdle -> fb_tok s = true;
  fi_woken : fb_rd s = FWoken false -> fb_closed s = true;
  fi_eof : In RdEOF (fb_outs s) -> fb_closed s = true;
  fi_refused : fb_refused s = 0
}.

Lemma FInv_init : FInv ibbf_init.
Proof. constructor; cbn; try discriminate; try tauto; intros; try lia. Qed.

Lemma in_snoc_eof outs x : In RdEOF (outs ++ [x]) -> In RdEOF outs \/ x = RdEOF.
Proof. intro H. apply in_app_or in H. destruct H as [H|[H|[]]]; auto. Qed.

Ltac finx := repeat match goal with
  | H : ?P, F : ?P -> _ |- _ => specialize (F H)
  | H : _ /\ _ |- _ => destruct H
  | H : _ \/ _ |- _ => destruct H
  | H : In RdEOF (_ ++ [_]) |- _ => apply in_snoc_eof in H
  | H : (_ =? 0) = true |- _ => apply Nat.eqb_eq in H
  | H : (_ =? 0) = false |- _ => apply Nat.eqb_neq in H
  end; try discriminate; try congruence; try lia; auto.

Ltac simp_fb := unfold rd_take, fb_set_rd, close_read;
  cbn [fb_h fb_closed fb_rd fb_tok fb_buf fb_outs fb_refused].

Lemma FInv_step s l s' : FInv s -> ibbf_step s l = Some s' -> FInv s'.
Proof.
  intros [Il Iw Id Iwk Ie Ir] H.
  destruct l; cbn [ibbf_step] in H.
  - (* FRead *)
    destruct (fb_rd s) eqn:Er; try discriminate. destruct cap; try discriminate.
    destruct (fb_h s) eqn:Eh; try discriminate.
    destruct (Nat.eqb (fb_buf s) 0) eqn:E0; injection H as <-; constructor; simp_fb; rewrite ?Eh; fin; finx.
  - (* FWait *)
    destruct (fb_rd s) eqn:Er; try discriminate.
    destruct (fb_tok s) eqn:Et; [|destruct (fb_closed s) eqn:Ec]; injection H as <-; constructor;
      simp_fb; rewrite ?Et, ?Ec; fin; finx.
  - (* FWake *)
    destruct (fb_rd s) eqn:Er; try discriminate. destruct cap; try discriminate.
    destruct (fb_h s) eqn:Eh; try discriminate.
    destruct (Nat.eqb (fb_buf s) 0) eqn:E0; [destruct open|]; injection H as <-; constructor;
      simp_fb; rewrite ?Eh; fin; finx.
  - (* FData *)
    destruct (fb_h s) eqn:Eh; try discriminate. destruct (fb_closed s) eqn:Ec; try discriminate.
    injection H as <-. constructor; simp_fb; rewrite ?Ec; fin; finx.
    all: try (apply Iw; auto).
  - (* FCheck *)
    destruct (fb_h s) eqn:Eh; try discriminate.
    assert (Ec : fb_closed s = false) by (apply Il; discriminate). rewrite Ec in H.
    injection H as <-. constructor; simp_fb; fin; finx.
    all: try (apply Iw; auto).
  - (* FNotify *)
    destruct (fb_h s) eqn:Eh; try discriminate.
    assert (Ec : fb_closed s = false) by (apply Il; discriminate). rewrite Ec in H.
    destruct (fb_rd s) eqn:Er; injection H as <-; constructor; simp_fb; rewrite ?Er; fin; finx.
  - (* FCloseRemote *)
    destruct (fb_h s) eqn:Eh; try discriminate. destruct (fb_closed s) eqn:Ec; try discriminate.
    injection H as <-. constructor; simp_fb; rewrite ?Eh; fin;
      try (destruct (fb_rd s) eqn:Er; finx; fail).
    all: try (destruct (fb_rd s) eqn:Er; finx; apply Id; auto).
  - (* FCloseLocal *)
    destruct (fb_h s) eqn:Eh; try discriminate. destruct (fb_closed s) eqn:Ec; try discriminate.
    injection H as <-. constructor; simp_fb; rewrite ?Eh; fin;
      try (destruct (fb_rd s) eqn:Er; finx; fail).
    all: try (destruct (fb_rd s) eqn:Er; finx; apply Id; auto).
Qed.

Theorem FInv_run tr s : run ibbf_step ibbf_init tr = Some s -> FInv s.
Proof.
  apply (invariant_run _ _ ibbf_step FInv ibbf_init FInv_init).
  intros s0 l s1 I H. exact (FInv_step s0 l s1 I H).
Qed.

(* no lost wake-up: a reader is never left blocked while bytes are buffered
   and the handler is outside its critical section *)
Definition f_no_lost_wakeup (s : ibbfstate) : Prop :=
  fb_rd s = FWaiting -> fb_h s = FHIdle -> fb_buf s = 0.

Lemma ibbf_no_lost_wakeup_run tr s : run ibbf_step ibbf_init tr = Some s -> f_no_lost_wakeup s.
Proof.
  intros R Ew Eh. pose proof (FInv_run tr s R) as I.
  destruct (fb_buf s) eqn:Eb; [reflexivity|].
  assert (fb_tok s = true) by (apply (fi_data _ I); auto; lia).
  destruct (fi_waiting _ I Ew). congruence.
Qed.

(* a blocked reader is released by the next accepted packet, by a close, and
   by nothing else; the packet's notification is enabled and wakes it *)
Lemma ibbf_waiting_is_woken s c n s1 s2 :
  FInv s -> fb_rd s = FWaiting -> fb_h s = FHIdle ->
  ibbf_step s (FData c n) = Some s1 -> ibbf_step s1 FCheck = Some s2 ->
  exists s3, ibbf_step s2 FNotify = Some s3 /\ fb_rd s3 = FWoken true.
Proof.
  intros I Ew Eh H1 H2. destruct (fi_waiting _ I Ew) as [Ec Et].
  cbn [ibbf_step] in H1. rewrite Eh, Ec in H1. injection H1 as <-.
  cbn in H2. injection H2 as <-. cbn. rewrite Ew. eauto.
Qed.

Lemma ibbf_eof_only_when_closed_run tr s :
  run ibbf_step ibbf_init tr = Some s -> In RdEOF (fb_outs s) -> fb_closed s = true.
Proof. intros R. apply (fi_eof _ (FInv_run tr s R)). Qed.

Lemma ibbf_no_panic_run tr s : run ibbf_step ibbf_init tr = Some s -> fb_h s <> FHPanic.
Proof.
  revert s. induction tr as [|l tr IH] using rev_ind; intros s R.
  - cbn in R. injection R as <-. discriminate.
  - apply run_snoc_some in R. destruct R as [s1 [R1 H]].
    pose proof (FInv_run tr s1 R1) as I. specialize (IH s1 R1).
    destruct l; cbn [ibbf_step] in H; break_match H; injection H as <-;
      unfold rd_take, fb_set_rd, close_read; cbn [fb_h]; try congruence; try discriminate.
    all: try (assert (fb_closed s1 = false) by (apply (fi_locked _ I); congruence); congruence).
Qed.

Lemma ibbf_never_refused_under_lock_run tr s : run ibbf_step ibbf_init tr = Some s -> fb_refused s = 0.
Proof. intro R. apply (fi_refused _ (FInv_run tr s R)). Qed.

(* ---- one outcome per Read; conservation ---- *)

Lemma ibbf_outs_step s l s' :
  ibbf_step s l = Some s' -> exists more, fb_outs s' = fb_outs s ++ more /\ length more <= 1.
Proof.
  intro H.
  assert (Same : fb_outs s' = fb_outs s -> exists more, fb_outs s' = fb_outs s ++ more /\ length more <= 1)
    by (intro E; exists []; rewrite app_nil_r; auto).
  destruct l; cbn [ibbf_step] in H; break_match H; injection H as <-;
    unfold rd_take, fb_set_rd, close_read; cbn [fb_outs];
    first [apply Same; reflexivity | eexists; split; [reflexivity|cbn; lia]].
Qed.

Lemma ibbf_outs_run tr : forall s s',
  run ibbf_step s tr = Some s' -> exists more, fb_outs s' = fb_outs s ++ more.
Proof.
  induction tr as [|l tr IH]; intros s s' R; cbn in R.
  - injection R as <-. exists []. rewrite app_nil_r. reflexivity.
  - destruct (ibbf_step s l) as [s1|] eqn:E; [|discriminate].
    destruct (ibbf_outs_step s l s1 E) as [m1 [E1 _]]. destruct (IH s1 s' R) as [m2 E2].
    exists (m1 ++ m2). rewrite E2, E1, app_assoc. reflexivity.
Qed.

Lemma ibbf_conservation_step s l s' :
  FInv s -> ibbf_step s l = Some s' ->
  delivered_bytes (fb_outs s') + fb_buf s' + pending_bytes s' =
  delivered_bytes (fb_outs s) + fb_buf s + pending_bytes s + accepted_bytes [l].
Proof.
  intros I H. unfold pending_bytes.
  destruct l; cbn [ibbf_step] in H; cbn [accepted_bytes].
  - destruct (fb_rd s); try discriminate. destruct cap as [|cap]; try discriminate.
    destruct (fb_h s) eqn:Eh; try discriminate.
    destruct (Nat.eqb (fb_buf s) 0) eqn:E0; injection H as <-.
    + unfold fb_set_rd. cbn [fb_outs fb_buf fb_h]. rewrite ?Eh. lia.
    + apply Nat.eqb_neq in E0. pose proof (rd_take_bytes s cap E0).
      unfold rd_take in *. cbn [fb_outs fb_buf fb_h] in *. rewrite ?Eh. lia.
  - destruct (fb_rd s); try discriminate.
    destruct (fb_tok s); [|destruct (fb_closed s)]; injection H as <-; unfold fb_set_rd; cbn [fb_outs fb_buf fb_h]; lia.
  - destruct (fb_rd s); try discriminate. destruct cap as [|cap]; try discriminate.
    destruct (fb_h s) eqn:Eh; try discriminate.
    destruct (Nat.eqb (fb_buf s) 0) eqn:E0; [destruct open|]; injection H as <-.
    + unfold fb_set_rd. cbn [fb_outs fb_buf fb_h]. rewrite ?Eh. lia.
    + cbn [fb_outs fb_buf fb_h]. rewrite ?Eh, delivered_app. apply Nat.eqb_eq in E0. cbn. lia.
    + apply Nat.eqb_neq in E0. pose proof (rd_take_bytes s cap E0).
      unfold rd_take in *. cbn [fb_outs fb_buf fb_h] in *. rewrite ?Eh. lia.
  - destruct (fb_h s) eqn:Eh; try discriminate. destruct (fb_closed s); try discriminate.
    injection H as <-. cbn [fb_outs fb_buf fb_h]. lia.
  - destruct (fb_h s) eqn:Eh; try discriminate.
    assert (Ec : fb_closed s = false) by (apply (fi_locked _ I); congruence). rewrite Ec in H.
    injection H as <-. cbn [fb_outs fb_buf fb_h]. lia.
  - destruct (fb_h s) eqn:Eh; try discriminate.
    destruct (fb_closed s); [injection H as <-; cbn [fb_outs fb_buf fb_h]; lia|].
    destruct (fb_rd s); injection H as <-; cbn [fb_outs fb_buf fb_h]; lia.
  - destruct (fb_h s) eqn:Eh; try discriminate. destruct (fb_closed s); try discriminate.
    injection H as <-. unfold close_read. cbn [fb_outs fb_buf fb_h]. rewrite ?Eh. lia.
  - destruct (fb_h s) eqn:Eh; try discriminate. destruct (fb_closed s); try discriminate.
    injection H as <-. unfold close_read. cbn [fb_outs fb_buf fb_h]. rewrite ?Eh. lia.
Qed.

Lemma ibbf_conservation_run tr s :
  run ibbf_step ibbf_init tr = Some s ->
  delivered_bytes (fb_outs s) + fb_buf s + pending_bytes s = accepted_bytes tr.
Proof.
  revert s. induction tr as [|l tr IH] using rev_ind; intros s R.
  - cbn in R. injection R as <-. reflexivity.
  - apply run_snoc_some in R. destruct R as [s1 [R1 H]].
    pose proof (ibbf_conservation_step s1 l s (FInv_run tr s1 R1) H) as C.
    rewrite accepted_app. rewrite <- (IH s1 R1). lia.
Qed.

(* ---- nobody gets stuck on its own ---- *)

Lemma ibbf_local_progress s :
  (fb_rd s = FChecked -> ibbf_enabled s FWait) /\
  (forall o, fb_rd s = FWoken o -> fb_h s = FHIdle -> forall cap, ibbf_enabled s (FWake (S cap))) /\
  (forall c n, fb_h s = FHLocked c n -> ibbf_enabled s FCheck) /\
  (fb_h s = FHNotify -> ibbf_enabled s FNotify).
Proof.
  unfold ibbf_enabled. repeat split.
  - intros E. cbn [ibbf_step]. rewrite E. destruct (fb_tok s); [discriminate|]. destruct (fb_closed s); discriminate.
  - intros o E Eh cap. cbn [ibbf_step]. rewrite E, Eh.
    destruct (Nat.eqb (fb_buf s) 0); [destruct o|]; discriminate.
  - intros c n E. cbn [ibbf_step]. rewrite E. destruct (fb_closed s); discriminate.
  - intros E. cbn [ibbf_step]. rewrite E. destruct (fb_closed s); [discriminate|]. destruct (fb_rd s); discriminate.
Qed.

(* the schedules that broke the pinned design, on the code *)
Lemma ibbf_window_schedule :
  exists s, run ibbf_step ibbf_init [FRead 4; FData CIq 3; FCheck; FNotify; FWait; FWake 4] = Some s /\
            fb_outs s = [RdData 3] /\ fb_rd s = FNone.
Proof. eexists. split; [vm_compute; reflexivity|]. split; reflexivity. Qed.

Lemma ibbf_empty_packet_schedule :
  exists s, run ibbf_step ibbf_init [FRead 4; FWait; FData CMsg 0; FCheck; FNotify; FWake 4; FWait] = Some s /\
            fb_outs s = [] /\ fb_rd s = FWaiting.
Proof. eexists. split; [vm_compute; reflexivity|]. split; reflexivity. Qed.

Lemma ibbf_data_after_close_schedule :
  exists s, run ibbf_step ibbf_init [FCloseLocal] = Some s /\ ibbf_step s (FData CIq 3) = None.
Proof. eexists. split; [vm_compute; reflexivity|reflexivity]. Qed.

(* message-carried data that is appended without the notification: a reader
   already blocked on the empty buffer stays blocked with bytes buffered, and
   only more IQ-carried data or a close gets it out *)
Lemma ibbf_msg_silent_loses_wakeup :
  exists s, run ibbf_step_msg_silent ibbf_init [FRead 4; FWait; FData CMsg 3; FCheck] = Some s /\
    fb_rd s = FWaiting /\ fb_h s = FHIdle /\ fb_buf s = 3 /\ fb_closed s = false /\
    ~ f_no_lost_wakeup s.
Proof.
  eexists. split; [vm_compute; reflexivity|]. repeat split. intro H. specialize (H eq_refl eq_refl). discriminate.
Qed.

(* the same schedule on the code: the reader is woken, on either carrier *)
Lemma ibbf_msg_carrier_wakes c :
  exists s, run ibbf_step ibbf_init [FRead 4; FWait; FData c 3; FCheck; FNotify; FWake 4] = Some s /\
    fb_outs s = [RdData 3].
Proof. destruct c; eexists; (split; [vm_compute; reflexivity|reflexivity]). Qed.

(* ====================================================================== *)
(* The pinned design: ibb_step (witnesses only)                            *)
(* ====================================================================== *)

Definition ibb_enabled (s : ibbstate) (l : ibblabel) : Prop := ibb_step s l <> None.

Definition lost_wakeup_trace : list ibblabel := [IRead 4; IData 3; INotify; IWait].

Lemma ibb_lost_wakeup_pinned :
  exists s, run ibb_step ibb_init lost_wakeup_trace = Some s /\
    ib_rd s = RdWaiting /\ ib_h s = IHIdle /\ ib_buf s = 3 /\ ib_closed s = false /\ ib_lost s = 1 /\
    forall l, ibb_enabled s l -> (exists n, l = IData n) \/ l = ICloseRemote \/ l = ICloseLocal.
Proof.
  eexists. split; [vm_compute; reflexivity|]. repeat split.
  intros l E. unfold ibb_enabled in E. destruct l; cbn in E; try congruence; eauto.
Qed.

Lemma ibb_eof_on_empty_packet_pinned :
  exists s, run ibb_step ibb_init [IRead 4; IWait; IData 0; INotify; IWake 4] = Some s /\
            ib_outs s = [RdEOF] /\ ib_closed s = false.
Proof. eexists. split; [vm_compute; reflexivity|]. split; reflexivity. Qed.

Lemma ibb_panic_after_local_close_pinned :
  exists s, run ibb_step ibb_init [ICloseLocal; IData 3; INotify] = Some s /\ ib_h s = IHPanic.
Proof. eexists. split; [vm_compute; reflexivity|reflexivity]. Qed.
