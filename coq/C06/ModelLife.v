(* C06/ModelLife.v — two more sibling transition systems of C06.

   1. The life of a response after the hand-off (session.go iqResponder,
      session_iq.go errCloser / iterIQ / unmarshalIQ): which reader operations
      close the response, how often the underlying channel is closed, and when
      that is a panic ("close of closed channel").
   2. The writer side of an in-band bytestream (ibb/conn.go Write / Flush /
      stanzaWriter.Write holding writeLock while it waits for the
      acknowledgement of a data packet) against a close request of the peer
      handled on the serve goroutine (closeNoNotify).

   Same conventions as C06/Model.v: executable definitions only, labelled
   transition systems of lib/Lts.v, case records and boolean checkers. *)
From Coq Require Import List Arith NArith Bool.
Import ListNotations.
From XV Require Import lib.Lts C06.Model.

(* ====================================================================== *)
(* 1. The life of a response                                               *)
(* ====================================================================== *)

(* What a failing Token() of the reader that was handed out closes. *)
Inductive tokclose :=
| TCNone       (* nothing: the raw iqResponder *)
| TCGuarded    (* errCloser.Close: the once-guarded close *)
| TCDirect.    (* the embedded responder, bypassing the guard *)

Record rlcfg := mkrlcfg {
  rl_guard : bool;          (* the reader handed out is an errCloser around the responder *)
  rl_tokclose : tokclose;
  rl_ridem : bool }.        (* iqResponder.Close itself tolerates a second call *)

(* Send* / Encode* / Unmarshal*: the responder itself *)
Definition cfg_raw (ridem : bool) : rlcfg := mkrlcfg false TCNone ridem.
(* IterIQ / IterIQElement: errCloser around the responder *)
Definition cfg_iter (tc : tokclose) (ridem : bool) : rlcfg := mkrlcfg true tc ridem.

Record rlstate := mkrl {
  rl_uclosed : bool;        (* close(r.c) has run: the serve loop's wait is over *)
  rl_once : bool;           (* errCloser.once has fired *)
  rl_panic : bool;          (* close of closed channel *)
  rl_released : nat }.      (* how many times the serve loop was released *)

Definition rl_init : rlstate := mkrl false false false 0.

Inductive rllabel :=
| RTokOk      (* Token() returned a token or io.EOF *)
| RTokErr     (* Token() returned another error *)
| RClose.     (* Close() on the reader that was handed out *)

(* iqResponder.Close *)
Definition uclose (c : rlcfg) (s : rlstate) : rlstate :=
  if rl_uclosed s then (if rl_ridem c then s else mkrl true (rl_once s) true (rl_released s))
  else mkrl true (rl_once s) (rl_panic s) (S (rl_released s)).

(* errCloser.Close *)
Definition gclose (c : rlcfg) (s : rlstate) : rlstate :=
  if rl_once s then s else uclose c (mkrl (rl_uclosed s) true (rl_panic s) (rl_released s)).

Definition rl_step (c : rlcfg) (s : rlstate) (l : rllabel) : option rlstate :=
  if rl_panic s then None
  else match l with
       | RTokOk => if rl_uclosed s then None else Some s   (* no tokens from a released response *)
       | RTokErr =>
           if rl_guard c then
             match rl_tokclose c with
             | TCNone => Some s
             | TCGuarded => Some (gclose c s)
             | TCDirect => Some (uclose c s)
             end
           else Some s
       | RClose => if rl_guard c then Some (gclose c s) else Some (uclose c s)
       end.

(* what the helpers do with the reader before they return *)
Definition is_tokerr (l : rllabel) : bool := match l with RTokErr => true | _ => false end.
Definition is_close (l : rllabel) : bool := match l with RClose => true | _ => false end.

(* unmarshalIQ: some reads, then the deferred Close, whatever happened *)
Definition unmarshal_prog (reads : list rllabel) : list rllabel := reads ++ [RClose].
(* iterIQ: some reads; the deferred Close only when it returns an error *)
Definition iter_parse_prog (reads : list rllabel) (fails : bool) : list rllabel :=
  reads ++ (if fails then [RClose] else []).

Record rlcase := mkrlcase {
  lc_cfg : rlcfg; lc_trace : list rllabel; lc_panic : bool; lc_released : nat }.

Definition rl_case_ok (c : rlcase) : bool :=
  match run (rl_step (lc_cfg c)) rl_init (lc_trace c) with
  | Some s => Bool.eqb (rl_panic s) (lc_panic c) && Nat.eqb (rl_released s) (lc_released c)
  | None => false
  end.

(* ====================================================================== *)
(* 2. IBB: a writer waiting for its acknowledgement vs. the peer's close   *)
(* ====================================================================== *)

(* [blocking = false]: the code — closeNoNotify tries the write lock and, if a
   writer holds it, only sets the abort flag.  [blocking = true]: a close path
   that waits for the lock on the serve goroutine (what must not be there).
   [escape = false]: the code after 02a6c9c — the close request is answered
   whatever the writer's state.  [escape = true]: the pinned design, in which
   the stale error of an earlier failed data packet, returned by the flush,
   escaped from the close handler and ended Session.Serve. *)

Inductive wpc :=
| WIdle
| WHold            (* Write/Flush holds writeLock; the data IQ is registered, not yet sent *)
| WWait            (* data IQ sent; waiting for its acknowledgement, still holding writeLock *)
| WRet (ok : bool).

Inductive vpc :=
| VIdle            (* the serve goroutine is free to process the next element *)
| VClose           (* close request: closeNoNotify, before the lock attempt *)
| VFlush           (* lock obtained: flushing what is buffered *)
| VBlocked         (* waiting for writeLock on the serve goroutine *)
| VEnded.          (* pinned design: the close handler returned the writer's stale error, Serve has returned *)

Record iwstate := mkiw {
  iw_w : wpc; iw_v : vpc;
  iw_aborted : bool;       (* stanzaWriter.aborted *)
  iw_closed : bool;        (* the close request was answered *)
  iw_broken : bool }.      (* a data packet failed: the buffered writer keeps that error *)

Definition iw_init : iwstate := mkiw WIdle VIdle false false false.

Inductive iwlabel :=
| WStart           (* Write/Flush takes writeLock; closed or aborted: it fails at once; else the data IQ is registered *)
| WSend            (* the data IQ is sent *)
| WAck (ok : bool) (* the serve goroutine hands the reply to the data IQ to the writer *)
| WDeadline        (* the writer's write deadline ends its wait *)
| WAgain           (* the call has returned; the next Write/Flush may start *)
| VCloseArrive     (* the peer's close request reaches the handler *)
| VTry             (* the lock attempt of closeNoNotify *)
| VUnblock         (* a blocked Lock() obtains the lock *)
| VFlushDone       (* flushed; lock released; request answered *)
| CLocalClose.     (* Conn.Close by the application: flush under the lock, close handshake (a blocking call
                      whose response is closed on every path: section 1), stream closed *)

Definition writer_holds (s : iwstate) : bool :=
  match iw_w s with WHold | WWait => true | _ => false end.

Definition iw_step (blocking escape : bool) (s : iwstate) (l : iwlabel) : option iwstate :=
  match l with
  | WStart =>
      match iw_w s, iw_v s with
      | WIdle, VFlush => None                    (* the serve goroutine holds the lock *)
      | WIdle, _ => if iw_closed s || iw_aborted s || iw_broken s   (* Conn.Write: isClosed; stanzaWriter.Write: aborted; bufio: sticky error *)
                    then Some (mkiw (WRet false) (iw_v s) (iw_aborted s) (iw_closed s) (iw_broken s))
                    else Some (mkiw WHold (iw_v s) (iw_aborted s) (iw_closed s) (iw_broken s))
      | _, _ => None
      end
  | WSend =>
      match iw_w s with
      | WHold => Some (mkiw WWait (iw_v s) (iw_aborted s) (iw_closed s) (iw_broken s))
      | _ => None
      end
  | WAck ok =>
      (* replies are delivered by the serve goroutine, one element at a time *)
      match iw_w s, iw_v s with
      | WWait, VIdle => Some (mkiw (WRet ok) VIdle (iw_aborted s) (iw_closed s) (iw_broken s || negb ok))
      | _, _ => None
      end
  | WDeadline =>
      match iw_w s with
      | WWait => Some (mkiw (WRet false) (iw_v s) (iw_aborted s) (iw_closed s) true)
      | _ => None
      end
  | WAgain =>
      match iw_w s with
      | WRet _ => Some (mkiw WIdle (iw_v s) (iw_aborted s) (iw_closed s) (iw_broken s))
      | _ => None
      end
  | VCloseArrive =>
      match iw_v s with
      | VIdle => if iw_closed s then None else Some (mkiw (iw_w s) VClose (iw_aborted s) (iw_closed s) (iw_broken s))
      | _ => None
      end
  | VTry =>
      match iw_v s with
      | VClose =>
          if writer_holds s then
            if blocking then Some (mkiw (iw_w s) VBlocked true (iw_closed s) (iw_broken s))
            else Some (mkiw (iw_w s) VIdle true true (iw_broken s))
          else Some (mkiw (iw_w s) VFlush (iw_aborted s) (iw_closed s) (iw_broken s))
      | _ => None
      end
  | VUnblock =>
      match iw_v s with
      | VBlocked => if writer_holds s then None else Some (mkiw (iw_w s) VFlush (iw_aborted s) (iw_closed s) (iw_broken s))
      | _ => None
      end
  | CLocalClose =>
      (* takes writeLock for the flush: not while a writer holds it; the handshake needs the serve goroutine *)
      if writer_holds s || iw_closed s then None
      else match iw_v s with
           | VIdle => Some (mkiw (iw_w s) VIdle (iw_aborted s) true (iw_broken s))
           | _ => None
           end
  | VFlushDone =>
      match iw_v s with
      | VFlush => if escape && iw_broken s   (* writeBuf.Flush returns the sticky error *)
                  then Some (mkiw (iw_w s) VEnded (iw_aborted s) (iw_closed s) true)
                  else Some (mkiw (iw_w s) VIdle (iw_aborted s) true (iw_broken s))
      | _ => None
      end
  end.

Definition wpc_code (p : wpc) : nat :=
  match p with WIdle => 0 | WHold => 1 | WWait => 2 | WRet true => 3 | WRet false => 4 end.
Definition vpc_code (p : vpc) : nat :=
  match p with VIdle => 0 | VClose => 1 | VFlush => 2 | VBlocked => 3 | VEnded => 4 end.

Record iwcase := mkiwcase { wc_trace : list iwlabel; wc_w : nat; wc_v : nat; wc_closed : bool }.

Definition iw_case_ok (c : iwcase) : bool :=
  match run (iw_step false false) iw_init (wc_trace c) with
  | Some s => Nat.eqb (wpc_code (iw_w s)) (wc_w c) && Nat.eqb (vpc_code (iw_v s)) (wc_v c) &&
              Bool.eqb (iw_closed s) (wc_closed c)
  | None => false
  end.

(* ====================================================================== *)
(* 3. IBB: the table of expected sessions (ibb/listen.go Expect,           *)
(*    ibb/ibb.go handleOpen), for one key (from, sid)                      *)
(* ====================================================================== *)

(* [own = true]: the code — an Expect call that gives up removes the entry
   under its key only if it is still its own.  [own = false]: it removes
   whatever is there (what must not be). *)

Inductive eout := EConn | ECtxErr.
Inductive epc :=
| EWait               (* entry stored; in the select on ctx.Done / its channel *)
| EGiveUp             (* took ctx.Done; before locking and removing its entry *)
| ERet (o : eout).

Record ecall := mkecall { e_canc : bool; e_pc : epc }.

Inductive ohpc :=
| OIdle
| OOffer (j : nat)    (* open request: entry of call j taken and deleted; offering the connection to j *)
| OAccept.            (* handing the connection to Accept on the unbuffered channel *)

Record exstate := mkex {
  ex_calls : list ecall;
  ex_tab : option nat;       (* the entry under the key: index of the call that stored it *)
  ex_h : ohpc;
  ex_accepted : nat }.       (* connections handed to Accept *)

Definition ex_init : exstate := mkex [] None OIdle 0.

Inductive exlabel :=
| EStart              (* Expect: cancels the call whose entry is there, stores its own *)
| ECancel (i : nat)   (* the caller's context ends *)
| ECtx (i : nat)      (* call i's select takes ctx.Done *)
| ECleanup (i : nat)  (* lock; remove the entry (if own); return ctx.Err() *)
| OArrive             (* open request for the key: lock, take and delete the entry, unlock *)
| ODeliver (j : nat)  (* rendezvous: call j receives the connection *)
| OGiveUp             (* the offer's other case: j's context is done; fall back to Accept *)
| AAccept.            (* an Accept call takes the connection *)

Definition ecall_step (s : exstate) (i : nat) (f : ecall -> option ecall) : option exstate :=
  match nth_error (ex_calls s) i with
  | Some c => match f c with
              | Some c' => Some (mkex (upd (ex_calls s) i c') (ex_tab s) (ex_h s) (ex_accepted s))
              | None => None
              end
  | None => None
  end.

Definition cancel_call (l : list ecall) (j : nat) : list ecall :=
  match nth_error l j with
  | Some c => upd l j (mkecall true (e_pc c))
  | None => l
  end.

Definition ex_step (own : bool) (s : exstate) (l : exlabel) : option exstate :=
  match l with
  | EStart =>
      let calls := match ex_tab s with Some j => cancel_call (ex_calls s) j | None => ex_calls s end in
      Some (mkex (calls ++ [mkecall false EWait]) (Some (length (ex_calls s))) (ex_h s) (ex_accepted s))
  | ECancel i => ecall_step s i (fun c => Some (mkecall true (e_pc c)))
  | ECtx i => ecall_step s i (fun c => match e_pc c with
                                       | EWait => if e_canc c then Some (mkecall true EGiveUp) else None
                                       | _ => None
                                       end)
  | ECleanup i =>
      match nth_error (ex_calls s) i with
      | Some c =>
          match e_pc c with
          | EGiveUp =>
              let tab := match ex_tab s with
                         | Some j => if own then (if Nat.eqb j i then None else Some j) else None
                         | None => None
                         end in
              Some (mkex (upd (ex_calls s) i (mkecall (e_canc c) (ERet ECtxErr))) tab (ex_h s) (ex_accepted s))
          | _ => None
          end
      | None => None
      end
  | OArrive =>
      match ex_h s with
      | OIdle => match ex_tab s with
                 | Some j => Some (mkex (ex_calls s) None (OOffer j) (ex_accepted s))
                 | None => Some (mkex (ex_calls s) None OAccept (ex_accepted s))
                 end
      | _ => None
      end
  | ODeliver j =>
      match ex_h s with
      | OOffer j' =>
          if Nat.eqb j j' then
            match nth_error (ex_calls s) j with
            | Some c => match e_pc c with
                        | EWait => Some (mkex (upd (ex_calls s) j (mkecall (e_canc c) (ERet EConn))) (ex_tab s) OIdle (ex_accepted s))
                        | _ => None
                        end
            | None => None
            end
          else None
      | _ => None
      end
  | OGiveUp =>
      match ex_h s with
      | OOffer j =>
          match nth_error (ex_calls s) j with
          | Some c => if e_canc c then Some (mkex (ex_calls s) (ex_tab s) OAccept (ex_accepted s)) else None
          | None => None
          end
      | _ => None
      end
  | AAccept =>
      match ex_h s with
      | OAccept => Some (mkex (ex_calls s) (ex_tab s) OIdle (S (ex_accepted s)))
      | _ => None
      end
  end.

Definition ecode (c : ecall) : nat :=
  match e_pc c with ERet EConn => 1 | ERet ECtxErr => 2 | _ => 0 end.

Record excase := mkexcase { xc_trace : list exlabel; xc_codes : list nat; xc_h : nat; xc_accepted : nat }.

Definition ex_case_ok (c : excase) : bool :=
  match run (ex_step true) ex_init (xc_trace c) with
  | Some s => list_eqb Nat.eqb (map ecode (ex_calls s)) (xc_codes c) &&
              Nat.eqb (match ex_h s with OIdle => 0 | OOffer _ => 1 | OAccept => 2 end) (xc_h c) &&
              Nat.eqb (ex_accepted s) (xc_accepted c)
  | None => false
  end.

(* ====================================================================== *)
(* 4. The id a blocking call registers and the id on the wire              *)
(*    (session_iq.go SendIQ, session_message.go SendMessage,               *)
(*    session_presence.go SendPresence: id completion; session.go          *)
(*    getIDTyp; the stanza encoder's id completion)                        *)
(* ====================================================================== *)

(* An attribute: name space (0 = none), local name (1 = "id", 2 = "type",
   other numbers other names), value (0 = the empty string). *)
Record xattr := mkattr { a_space : N; a_local : N; a_val : N }.

Definition is_id (a : xattr) : bool := N.eqb (a_space a) 0 && N.eqb (a_local a) 1.

(* getIDTyp, id part: index and value of the first unqualified id attribute *)
Fixpoint find_id (attrs : list xattr) (k : nat) : option (nat * N) :=
  match attrs with
  | [] => None
  | a :: rest => if is_id a then Some (k, a_val a) else find_id rest (S k)
  end.

Fixpoint set_val (attrs : list xattr) (k : nat) (v : N) : list xattr :=
  match attrs, k with
  | [], _ => []
  | a :: rest, O => mkattr (a_space a) (a_local a) v :: rest
  | a :: rest, S k' => a :: set_val rest k' v
  end.

(* When an id is generated. *)
Inductive gencond :=
| GenWhenEmpty     (* the code: whenever the element has no id value (no attribute, or id="") *)
| GenWhenAbsent.   (* only when there is no id attribute at all *)

(* Send*: (registration key, start element that is sent) *)
Definition complete_id (g : gencond) (attrs : list xattr) (fresh : N) : N * list xattr :=
  match find_id attrs 0 with
  | None => (fresh, attrs ++ [mkattr 0 1 fresh])
  | Some (k, v) =>
      if N.eqb v 0 then
        match g with
        | GenWhenEmpty => (fresh, set_val attrs k fresh)
        | GenWhenAbsent => (0%N, attrs)
        end
      else (v, attrs)
  end.

(* the stanza encoder: an element that goes out with an empty id gets a fresh one *)
Definition encoder_id (attrs : list xattr) (fresh2 : N) : list xattr :=
  match find_id attrs 0 with
  | None => attrs ++ [mkattr 0 1 fresh2]
  | Some (k, v) => if N.eqb v 0 then set_val attrs k fresh2 else attrs
  end.

(* the id the peer sees *)
Definition wire_id (attrs : list xattr) : N :=
  match find_id attrs 0 with Some (_, v) => v | None => 0%N end.

Definition send_ids (g : gencond) (attrs : list xattr) (fresh fresh2 : N) : N * N :=
  let (key, sent) := complete_id g attrs fresh in (key, wire_id (encoder_id sent fresh2)).

(* the four shapes of a request's id: 0 none, 1 id="", 2 chosen, 3 qualified only *)
Definition id_shape (form : nat) (v : N) : list xattr :=
  match form with
  | 0 => [mkattr 0 2 5]
  | 1 => [mkattr 0 1 0; mkattr 0 2 5]
  | 2 => [mkattr 0 2 5; mkattr 0 1 v]
  | _ => [mkattr 7 1 v; mkattr 0 2 5]
  end.

Record idcase := mkidcase { ic_form : nat; ic_chosen : N; ic_key_is_wire : bool; ic_wire_is_chosen : bool }.

(* the harness reports whether a reply carrying the wire id reached the call
   (key = wire id) and whether the wire id is the caller's own *)
Definition id_case_ok (g : gencond) (c : idcase) : bool :=
  let (key, wire) := send_ids g (id_shape (ic_form c) (ic_chosen c)) 1000 2000 in
  Bool.eqb (N.eqb key wire) (ic_key_is_wire c) &&
  Bool.eqb (N.eqb wire (ic_chosen c)) (ic_wire_is_chosen c).

(* ====================================================================== *)
(* 5. Receipts behind the multiplexer: receipts.Handle registers the        *)
(*    handler per message type; a receipt reaches HandleMessage only if     *)
(*    its (normalised) type is registered                                   *)
(* ====================================================================== *)

From XV Require Import C06.ModelExt.

(* message types as numbers: 0 normal (also: absent / unknown, which the mux
   maps to normal), 1 chat, 2 groupchat, 3 headline, 4 error *)
Definition norm_mtype (t : N) : N := if N.ltb t 5 then t else 0%N.

Inductive rxrlabel :=
| RL (l : rxlabel)                 (* a step of the receipts system other than an arrival *)
| RArrive (ty : N) (id : N)        (* a receipt of message type ty is routed to HandleMessage *)
| RUnrouted (ty : N) (id : N).     (* ... has no handler registered: it reaches neither HandleMessage nor Unhandled *)

Definition rxr_step (routed : N -> bool) (s : rxstate) (l : rxrlabel) : option rxstate :=
  match l with
  | RL (XArrive _) => None
  | RL l' => rx_step true s l'
  | RArrive ty id => if routed (norm_mtype ty) then rx_step true s (XArrive id) else None
  | RUnrouted ty id => if routed (norm_mtype ty) then None else Some s
  end.

(* forget the routing: the underlying schedule of the receipts system *)
Fixpoint rxr_project (tr : list rxrlabel) : list rxlabel :=
  match tr with
  | [] => []
  | RL l :: r => l :: rxr_project r
  | RArrive _ id :: r => XArrive id :: rxr_project r
  | RUnrouted _ _ :: r => rxr_project r
  end.

Definition routes_all (t : N) : bool := true.
(* the registration with headline left out *)
Definition routes_without_headline (t : N) : bool := negb (N.eqb t 3).

Record rxrcase := mkrxrcase { rr_trace : list rxrlabel; rr_codes : list xcode; rr_unhandled : nat }.

Definition rxr_case_ok (routed : N -> bool) (c : rxrcase) : bool :=
  match run (rxr_step routed) rx_init (rr_trace c) with
  | Some s => list_eqb xcode_eqb (map snd_code (rx_snd s)) (rr_codes c) && Nat.eqb (rx_unhandled s) (rr_unhandled c)
  | None => false
  end.
