(* C06/PropertiesExt.v — the property theorems of C06 for the extension helpers
   that block on a correlated reply, and nothing else.

   Receipts (receipts/receipts.go: [rx_step true]; pinned design: [rx_step
   false]), MUC join/leave (muc/muc.go, muc/room.go: [muc_step true]; pinned
   design: [muc_step false]) and the in-band bytestream reader (ibb/conn.go,
   ibb/ibb.go: [ibbf_step]; pinned design: [ibb_step]).  The
   theorems quantify over every label sequence of the transition systems of
   C06/ModelExt.v: any number of senders / Leave calls / Read calls, any order
   and content of the peer's elements, any placement of cancellation. *)
From Coq Require Import List Arith NArith Bool.
Import ListNotations.
From XV Require Import lib.Lts C06.Model C06.ModelExt C06.ProofsRx C06.ProofsMuc C06.ProofsIbb.

(* ====================================================================== *)
(* Receipts                                                                *)
(* ====================================================================== *)

(* A sender that has returned keeps its outcome, whatever happens later. *)
Theorem C06_receipts_at_most_one_outcome : forall fx tr s s' j x o,
  run (rx_step fx) s tr = Some s' -> nth_error (rx_snd s) j = Some x -> x_pc x = XRet o ->
  exists x', nth_error (rx_snd s') j = Some x' /\ x_pc x' = XRet o /\ x_id x' = x_id x.
Proof. intros fx tr. exact (rx_ret_stable_run fx tr). Qed.
Print Assumptions C06_receipts_at_most_one_outcome.

(* The outcome is legitimate: success only after a receipt for the sender's own
   id was matched to this sender; the context error only after cancellation. *)
Theorem C06_receipts_outcome_is_own_receipt_or_ctx_error : forall tr s i x o,
  run (rx_step true) rx_init tr = Some s -> nth_error (rx_snd s) i = Some x -> x_pc x = XRet o ->
  match o with
  | XOk => exists q, In (RNotified q (x_id x) i) (rx_hist s)
  | XCtxErr => x_canc x = true
  | XSendErr => True
  end.
Proof. exact rx_outcome_run. Qed.
Print Assumptions C06_receipts_outcome_is_own_receipt_or_ctx_error.

(* Every receipt has exactly one fate (matched to one sender, or passed to
   Unhandled); a sender is matched with at most one receipt, and a matched
   receipt carries that sender's id. *)
Theorem C06_receipts_receipt_reaches_at_most_one : forall tr s,
  run (rx_step true) rx_init tr = Some s ->
  (forall e e', In e (rx_hist s) -> In e' (rx_hist s) -> rx_seq e = rx_seq e' -> e = e') /\
  (rx_h s = HIdle -> forall q, q < rx_arrived s -> exists e, In e (rx_hist s) /\ rx_seq e = q) /\
  (forall q id i, In (RNotified q id i) (rx_hist s) ->
     exists x, nth_error (rx_snd s) i = Some x /\ x_id x = id /\ x_tok x = true) /\
  (forall q q' id id' i, In (RNotified q id i) (rx_hist s) -> In (RNotified q' id' i) (rx_hist s) -> q = q').
Proof. exact rx_accounting_run. Qed.
Print Assumptions C06_receipts_receipt_reaches_at_most_one.

(* No panic and no stall of the handler (and with it the serve loop): in every
   reachable state the handler is idle or its next step is enabled, whatever
   the senders do or have done. *)
Theorem C06_receipts_handler_progress : forall tr s,
  run (rx_step true) rx_init tr = Some s ->
  match rx_h s with
  | HIdle => True
  | HRead _ _ => rx_enabled s XLookup
  | HNotify _ _ _ => rx_enabled s XNotify
  | HUnh _ _ => rx_enabled s XUnhandled
  | HPanic => False
  end.
Proof. exact rx_handler_progress_run. Qed.
Print Assumptions C06_receipts_handler_progress.

(* A sender never gets stuck on its own. *)
Theorem C06_receipts_sender_progress : forall s i x,
  nth_error (rx_snd s) i = Some x ->
  match x_pc x with
  | XReg => rx_enabled s (XSendOk i) /\ rx_enabled s (XSendFail i)
  | XWait => (x_canc x = true -> rx_enabled s (XCtxDone i)) /\ (x_tok x = true -> rx_enabled s (XRecv i))
  | XCtxP | XSendErrP => rx_enabled s (XDereg i)
  | XRet _ => True
  end.
Proof. exact rx_sender_progress. Qed.
Print Assumptions C06_receipts_sender_progress.

(* The pinned code: a cancellation between the handler's lookup and its send
   is a send on a closed channel ... *)
Theorem C06_receipts_no_panic_pinned_refuted :
  exists s, run (rx_step false) rx_init
              [XStart 1; XSendOk 0; XArrive 1; XLookup; XCancel 0; XCtxDone 0; XDereg 0; XNotify] = Some s /\
            rx_h s = HPanic.
Proof. exact rx_pinned_panic. Qed.
Print Assumptions C06_receipts_no_panic_pinned_refuted.

(* ... and a sender whose SendElement failed leaves its entry behind: the
   handler then blocks for good on a channel nobody will ever receive from. *)
Theorem C06_receipts_handler_progress_pinned_refuted :
  exists s x, run (rx_step false) rx_init [XStart 1; XSendFail 0; XDereg 0; XArrive 1; XLookup] = Some s /\
    rx_h s = HNotify 0 1 0 /\ nth_error (rx_snd s) 0 = Some x /\ x_pc x = XRet XSendErr /\
    rx_step false s XNotify = None /\
    forall tr s', run (rx_step false) s tr = Some s' ->
      exists x', nth_error (rx_snd s') 0 = Some x' /\ x_pc x' = XRet XSendErr.
Proof. exact rx_pinned_stall. Qed.
Print Assumptions C06_receipts_handler_progress_pinned_refuted.

(* ====================================================================== *)
(* MUC join / leave                                                        *)
(* ====================================================================== *)

Theorem C06_muc_at_most_one_outcome : forall fx tr s s' i c o,
  run (muc_step fx) s tr = Some s' -> nth_error (mu_calls s) i = Some c -> m_pc c = MRet o ->
  exists c', nth_error (mu_calls s') i = Some c' /\ m_pc c' = MRet o /\ m_kind c' = m_kind c.
Proof. intros fx tr. exact (muc_ret_stable_run fx tr). Qed.
Print Assumptions C06_muc_at_most_one_outcome.

(* joined: only the join attempt; left: only a Leave call and only after the
   room's unavailable presence was handled; a stanza error only when an error
   reply was handed to the call; the context error only after cancellation *)
Theorem C06_muc_outcome_is_own_presence_or_ctx_error : forall fx tr s i c o,
  run (muc_step fx) muc_init tr = Some s -> nth_error (mu_calls s) i = Some c -> m_pc c = MRet o ->
  match o with
  | MCtxErr => m_canc c = true
  | MErr => m_err c = true
  | MJoined => m_kind c = MJoin /\ i = 0
  | MLeft => m_kind c = MLeave /\ mu_gone s = true
  end.
Proof. exact muc_outcome_run. Qed.
Print Assumptions C06_muc_outcome_is_own_presence_or_ctx_error.

(* The presence handler never stalls the serve loop for good: it is idle, can
   step, or waits for the join call, which can step (enter its select, after
   which the hand-off is enabled) or whose context is done (skip). *)
Theorem C06_muc_handler_progress : forall fx tr s,
  run (muc_step fx) muc_init tr = Some s -> muc_handler_waits fx s.
Proof. exact muc_handler_waits_run. Qed.
Print Assumptions C06_muc_handler_progress.

Theorem C06_muc_call_progress : forall fx s i c,
  nth_error (mu_calls s) i = Some c ->
  match m_pc c with
  | MSpawned => muc_enabled fx s (MEnter i)
  | MWait => (m_canc c = true -> muc_enabled fx s (MCtx i)) /\ (m_err c = true -> muc_enabled fx s (MErrRecv i))
  | MRet _ => True
  end.
Proof. exact muc_call_progress. Qed.
Print Assumptions C06_muc_call_progress.

(* The departure notification is never dropped by the code ... *)
Theorem C06_muc_depart_never_dropped : forall tr s,
  run (muc_step true) muc_init tr = Some s -> mu_lost s = 0.
Proof. exact muc_never_lost_run. Qed.
Print Assumptions C06_muc_depart_never_dropped.

(* ... and it is in exactly one place: once the room's unavailable presence
   has been handled, the notification is buffered (and nobody has left yet), or
   exactly one Leave call has returned with it, or a Leave call that started
   after the departure discarded it as stale.  For any number of Leave calls. *)
Theorem C06_muc_leave : forall tr s,
  run (muc_step true) muc_init tr = Some s -> settled s ->
  (mu_dtok s = true /\ noleft s) \/
  (exists l c, nth_error (mu_calls s) l = Some c /\ m_pc c = MRet MLeft /\ m_kind c = MLeave /\
               forall j c', nth_error (mu_calls s) j = Some c' -> m_pc c' = MRet MLeft -> j = l) \/
  (mu_drained s = 1 /\ late_leave s).
Proof. exact muc_leave_run. Qed.
Print Assumptions C06_muc_leave.

(* A buffered notification can be taken by any Leave call in its select. *)
Theorem C06_muc_leave_take_enabled : forall s l c,
  nth_error (mu_calls s) l = Some c -> waiting_leave c = true -> mu_dtok s = true ->
  muc_step true s (MDepartRecv l) <> None.
Proof. exact muc_depart_recv_enabled. Qed.
Print Assumptions C06_muc_leave_take_enabled.

(* The claim of the property for one Leave call at a time: a Leave call that
   was in progress when the room's unavailable presence was handled has
   returned, or the notification waits for it. *)
Theorem C06_muc_single_leave : forall tr s c,
  run (muc_step true) muc_init tr = Some s -> settled s ->
  length (mu_calls s) = 2 -> nth_error (mu_calls s) 1 = Some c -> m_pre c = true ->
  m_pc c = MRet MLeft \/ mu_dtok s = true.
Proof. exact muc_single_leave_run. Qed.
Print Assumptions C06_muc_single_leave.

(* The third case of C06_muc_leave is real: with two overlapping Leave calls,
   the second one, starting after the departure was handled, discards the
   notification the first one has not taken yet; then only their own contexts
   or error replies end the two calls. *)
Theorem C06_muc_leave_drained_by_later_leave :
  exists s, run (muc_step true) muc_init drained_trace = Some s /\ leave_stuck s 1 /\ leave_stuck s 2 /\
    mu_drained s = 1 /\
    forall tr s', ~ In (MCancel 1) tr -> ~ In (MErrReply 1) tr -> run (muc_step true) s tr = Some s' ->
      exists c, nth_error (mu_calls s') 1 = Some c /\ m_pc c = MWait.
Proof. exact muc_drained_by_later_leave. Qed.
Print Assumptions C06_muc_leave_drained_by_later_leave.

(* The pinned design (unbuffered depart channel) dropped the notification when
   the caller had not reached its select; the same schedule is not a schedule
   of the code, where the notification is kept and then taken. *)
Theorem C06_muc_leave_pinned_refuted :
  exists s, run (muc_step false) muc_init lost_depart_trace = Some s /\ leave_stuck s 1 /\ mu_lost s = 1 /\
    forall tr s', ~ In (MCancel 1) tr -> ~ In (MErrReply 1) tr -> run (muc_step false) s tr = Some s' ->
      exists c, nth_error (mu_calls s') 1 = Some c /\ m_pc c = MWait.
Proof. exact muc_lost_depart_pinned. Qed.
Print Assumptions C06_muc_leave_pinned_refuted.

(* ====================================================================== *)
(* IBB reader                                                              *)
(* ====================================================================== *)

(* one outcome per Read: results are only appended *)
Theorem C06_ibb_read_at_most_one_outcome : forall tr s s',
  run ibbf_step s tr = Some s' -> exists more, fb_outs s' = fb_outs s ++ more.
Proof. exact ibbf_outs_run. Qed.
Print Assumptions C06_ibb_read_at_most_one_outcome.

(* bytes are neither lost nor invented: delivered + buffered (+ the packet
   being appended) = accepted *)
Theorem C06_ibb_read_conservation : forall tr s,
  run ibbf_step ibbf_init tr = Some s ->
  delivered_bytes (fb_outs s) + fb_buf s + pending_bytes s = accepted_bytes tr.
Proof. exact ibbf_conservation_run. Qed.
Print Assumptions C06_ibb_read_conservation.

(* no permanent stall of a Read while bytes are buffered: on every schedule,
   empty packets, stale tokens and the check-to-wait window included *)
Theorem C06_ibb_read_progress : forall tr s,
  run ibbf_step ibbf_init tr = Some s -> f_no_lost_wakeup s.
Proof. exact ibbf_no_lost_wakeup_run. Qed.
Print Assumptions C06_ibb_read_progress.

(* ... and a blocked reader is woken by the next accepted packet *)
Theorem C06_ibb_waiting_reader_is_woken : forall tr s c n s1 s2,
  run ibbf_step ibbf_init tr = Some s -> fb_rd s = FWaiting -> fb_h s = FHIdle ->
  ibbf_step s (FData c n) = Some s1 -> ibbf_step s1 FCheck = Some s2 ->
  exists s3, ibbf_step s2 FNotify = Some s3 /\ fb_rd s3 = FWoken true.
Proof. intros tr s c n s1 s2 R. exact (ibbf_waiting_is_woken s c n s1 s2 (FInv_run tr s R)). Qed.
Print Assumptions C06_ibb_waiting_reader_is_woken.

(* What the table lemma [ibb_payload_always_notifies] excludes: message-carried
   data appended without the notification leaves a blocked reader blocked. *)
Theorem C06_ibb_msg_data_without_notify_refuted :
  exists s, run ibbf_step_msg_silent ibbf_init [FRead 4; FWait; FData CMsg 3; FCheck] = Some s /\
    fb_rd s = FWaiting /\ fb_h s = FHIdle /\ fb_buf s = 3 /\ fb_closed s = false /\
    ~ f_no_lost_wakeup s.
Proof. exact ibbf_msg_silent_loses_wakeup. Qed.
Print Assumptions C06_ibb_msg_data_without_notify_refuted.

(* io.EOF only on a closed stream *)
Theorem C06_ibb_read_eof : forall tr s,
  run ibbf_step ibbf_init tr = Some s -> In RdEOF (fb_outs s) -> fb_closed s = true.
Proof. exact ibbf_eof_only_when_closed_run. Qed.
Print Assumptions C06_ibb_read_eof.

(* no panic of the serve goroutine: the handler never sends on the closed
   channel (the close needs the lock the handler holds) *)
Theorem C06_ibb_no_panic : forall tr s,
  run ibbf_step ibbf_init tr = Some s -> fb_h s <> FHPanic.
Proof. exact ibbf_no_panic_run. Qed.
Print Assumptions C06_ibb_no_panic.

(* the reader and the handler never get stuck on their own *)
Theorem C06_ibb_local_progress : forall s,
  (fb_rd s = FChecked -> ibbf_enabled s FWait) /\
  (forall o, fb_rd s = FWoken o -> fb_h s = FHIdle -> forall cap, ibbf_enabled s (FWake (S cap))) /\
  (forall c n, fb_h s = FHLocked c n -> ibbf_enabled s FCheck) /\
  (fb_h s = FHNotify -> ibbf_enabled s FNotify).
Proof. exact ibbf_local_progress. Qed.
Print Assumptions C06_ibb_local_progress.

(* The pinned design (unbuffered readReady, one test in Read, local Close
   leaves the stream registered): the three defects that were repaired. *)
Theorem C06_ibb_read_progress_pinned_refuted :
  exists s, run ibb_step ibb_init lost_wakeup_trace = Some s /\
    ib_rd s = RdWaiting /\ ib_h s = IHIdle /\ ib_buf s = 3 /\ ib_closed s = false /\ ib_lost s = 1 /\
    forall l, ibb_enabled s l -> (exists n, l = IData n) \/ l = ICloseRemote \/ l = ICloseLocal.
Proof. exact ibb_lost_wakeup_pinned. Qed.
Print Assumptions C06_ibb_read_progress_pinned_refuted.

Theorem C06_ibb_read_eof_pinned_refuted :
  exists s, run ibb_step ibb_init [IRead 4; IWait; IData 0; INotify; IWake 4] = Some s /\
            ib_outs s = [RdEOF] /\ ib_closed s = false.
Proof. exact ibb_eof_on_empty_packet_pinned. Qed.
Print Assumptions C06_ibb_read_eof_pinned_refuted.

Theorem C06_ibb_no_panic_pinned_refuted :
  exists s, run ibb_step ibb_init [ICloseLocal; IData 3; INotify] = Some s /\ ib_h s = IHPanic.
Proof. exact ibb_panic_after_local_close_pinned. Qed.
Print Assumptions C06_ibb_no_panic_pinned_refuted.
