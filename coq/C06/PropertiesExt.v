(* C06/PropertiesExt.v — the property theorems of C06 for the extension helpers
   that block on a correlated reply, and nothing else.

   Receipts (receipts/receipts.go, repaired: [rx_step true]; pinned: [rx_step
   false]), MUC join/leave (muc/muc.go, muc/room.go, pinned behaviour) and the
   in-band bytestream reader (ibb/conn.go, ibb/ibb.go, pinned behaviour).  The
   theorems quantify over every label sequence of the transition systems of
   C06/ModelExt.v: any number of senders / Leave calls / Read calls, any order
   and content of the peer's elements, any placement of cancellation. *)
From Coq Require Import List Arith NArith Bool.
Import ListNotations.
From XV Require Import lib.Lts C06.Model C06.ModelExt C06.ProofsRx C06.ProofsMuc C06.ProofsIbb.

(* ====================================================================== *)
(* Receipts                                                                *)
(* ====================================================================== *)

(* A sender that has returned keeps its outcome, whatever happens later. *)
Theorem C06_receipts_at_most_one_outcome : forall fx tr s s' j x o,
  run (rx_step fx) s tr = Some s' -> nth_error (rx_snd s) j = Some x -> x_pc x = XRet o ->
  exists x', nth_error (rx_snd s') j = Some x' /\ x_pc x' = XRet o /\ x_id x' = x_id x.
Proof. intros fx tr. exact (rx_ret_stable_run fx tr). Qed.
Print Assumptions C06_receipts_at_most_one_outcome.

(* The outcome is legitimate: success only after a receipt for the sender's own
   id was matched to this sender; the context error only after cancellation. *)
Theorem C06_receipts_outcome_is_own_receipt_or_ctx_error : forall tr s i x o,
  run (rx_step true) rx_init tr = Some s -> nth_error (rx_snd s) i = Some x -> x_pc x = XRet o ->
  match o with
  | XOk => exists q, In (RNotified q (x_id x) i) (rx_hist s)
  | XCtxErr => x_canc x = true
  | XSendErr => True
  end.
Proof. exact rx_outcome_run. Qed.
Print Assumptions C06_receipts_outcome_is_own_receipt_or_ctx_error.

(* Every receipt has exactly one fate (matched to one sender, or passed to
   Unhandled); a sender is matched with at most one receipt, and a matched
   receipt carries that sender's id. *)
Theorem C06_receipts_receipt_reaches_at_most_one : forall tr s,
  run (rx_step true) rx_init tr = Some s ->
  (forall e e', In e (rx_hist s) -> In e' (rx_hist s) -> rx_seq e = rx_seq e' -> e = e') /\
  (rx_h s = HIdle -> forall q, q < rx_arrived s -> exists e, In e (rx_hist s) /\ rx_seq e = q) /\
  (forall q id i, In (RNotified q id i) (rx_hist s) ->
     exists x, nth_error (rx_snd s) i = Some x /\ x_id x = id /\ x_tok x = true) /\
  (forall q q' id id' i, In (RNotified q id i) (rx_hist s) -> In (RNotified q' id' i) (rx_hist s) -> q = q').
Proof. exact rx_accounting_run. Qed.
Print Assumptions C06_receipts_receipt_reaches_at_most_one.

(* No panic and no stall of the handler (and with it the serve loop): in every
   reachable state the handler is idle or its next step is enabled, whatever
   the senders do or have done. *)
Theorem C06_receipts_handler_progress : forall tr s,
  run (rx_step true) rx_init tr = Some s ->
  match rx_h s with
  | HIdle => True
  | HRead _ _ => rx_enabled s XLookup
  | HNotify _ _ _ => rx_enabled s XNotify
  | HUnh _ _ => rx_enabled s XUnhandled
  | HPanic => False
  end.
Proof. exact rx_handler_progress_run. Qed.
Print Assumptions C06_receipts_handler_progress.

(* A sender never gets stuck on its own. *)
Theorem C06_receipts_sender_progress : forall s i x,
  nth_error (rx_snd s) i = Some x ->
  match x_pc x with
  | XReg => rx_enabled s (XSendOk i) /\ rx_enabled s (XSendFail i)
  | XWait => (x_canc x = true -> rx_enabled s (XCtxDone i)) /\ (x_tok x = true -> rx_enabled s (XRecv i))
  | XCtxP | XSendErrP => rx_enabled s (XDereg i)
  | XRet _ => True
  end.
Proof. exact rx_sender_progress. Qed.
Print Assumptions C06_receipts_sender_progress.

(* The pinned code: a cancellation between the handler's lookup and its send
   is a send on a closed channel ... *)
Theorem C06_receipts_no_panic_pinned_refuted :
  exists s, run (rx_step false) rx_init
              [XStart 1; XSendOk 0; XArrive 1; XLookup; XCancel 0; XCtxDone 0; XDereg 0; XNotify] = Some s /\
            rx_h s = HPanic.
Proof. exact rx_pinned_panic. Qed.
Print Assumptions C06_receipts_no_panic_pinned_refuted.

(* ... and a sender whose SendElement failed leaves its entry behind: the
   handler then blocks for good on a channel nobody will ever receive from. *)
Theorem C06_receipts_handler_progress_pinned_refuted :
  exists s x, run (rx_step false) rx_init [XStart 1; XSendFail 0; XDereg 0; XArrive 1; XLookup] = Some s /\
    rx_h s = HNotify 0 1 0 /\ nth_error (rx_snd s) 0 = Some x /\ x_pc x = XRet XSendErr /\
    rx_step false s XNotify = None /\
    forall tr s', run (rx_step false) s tr = Some s' ->
      exists x', nth_error (rx_snd s') 0 = Some x' /\ x_pc x' = XRet XSendErr.
Proof. exact rx_pinned_stall. Qed.
Print Assumptions C06_receipts_handler_progress_pinned_refuted.

(* ====================================================================== *)
(* MUC join / leave (pinned behaviour)                                     *)
(* ====================================================================== *)

Theorem C06_muc_at_most_one_outcome : forall tr s s' i c o,
  run muc_step s tr = Some s' -> nth_error (mu_calls s) i = Some c -> m_pc c = MRet o ->
  exists c', nth_error (mu_calls s') i = Some c' /\ m_pc c' = MRet o /\ m_kind c' = m_kind c.
Proof. exact muc_ret_stable_run. Qed.
Print Assumptions C06_muc_at_most_one_outcome.

(* joined: only the join attempt; left: only a Leave call and only after the
   room's unavailable presence was handled; a stanza error only when an error
   reply was handed to the call; the context error only after cancellation *)
Theorem C06_muc_outcome_is_own_presence_or_ctx_error : forall tr s i c o,
  run muc_step muc_init tr = Some s -> nth_error (mu_calls s) i = Some c -> m_pc c = MRet o ->
  match o with
  | MCtxErr => m_canc c = true
  | MErr => m_err c = true
  | MJoined => m_kind c = MJoin /\ i = 0
  | MLeft => m_kind c = MLeave /\ mu_gone s = true
  end.
Proof. exact muc_outcome_run. Qed.
Print Assumptions C06_muc_outcome_is_own_presence_or_ctx_error.

(* The presence handler never stalls the serve loop for good: it is idle, can
   step, or waits for the join call, which can step (enter its select, after
   which the hand-off is enabled) or whose context is done (skip). *)
Theorem C06_muc_handler_progress : forall tr s,
  run muc_step muc_init tr = Some s -> muc_handler_waits s.
Proof. exact muc_handler_waits_run. Qed.
Print Assumptions C06_muc_handler_progress.

Theorem C06_muc_call_progress : forall s i c,
  nth_error (mu_calls s) i = Some c ->
  match m_pc c with
  | MSpawned => muc_enabled s (MEnter i)
  | MWait => (m_canc c = true -> muc_enabled s (MCtx i)) /\ (m_err c = true -> muc_enabled s (MErrRecv i))
  | MRet _ => True
  end.
Proof. exact muc_call_progress. Qed.
Print Assumptions C06_muc_call_progress.

(* The full claim for Leave — "the call ends with the room's unavailable
   presence or its context error, whichever comes first" — in the form: a Leave
   call in progress when the room's unavailable presence is handled returns
   without needing its context. *)
Definition C06_muc_leave_statement : Prop :=
  forall tr s i c, run muc_step muc_init tr = Some s ->
    nth_error (mu_calls s) i = Some c -> m_kind c = MLeave -> m_pc c = MWait ->
    mu_gone s = true -> mu_h s = MHIdle -> m_canc c = true \/ m_err c = true.

(* It is false of the pinned code: the notification is a non-blocking send on
   an unbuffered channel, dropped when the caller has not reached its select;
   from then on only the call's own context or an error reply ends the call. *)
Theorem C06_muc_leave_refuted :
  exists s, run muc_step muc_init lost_depart_trace = Some s /\ leave_stuck s 1 /\ mu_lost s = 1 /\
    forall tr s', ~ In (MCancel 1) tr -> ~ In (MErrReply 1) tr -> run muc_step s tr = Some s' ->
      exists c, nth_error (mu_calls s') 1 = Some c /\ m_pc c = MWait.
Proof. exact muc_lost_depart. Qed.
Print Assumptions C06_muc_leave_refuted.

Theorem C06_muc_leave_statement_false : ~ C06_muc_leave_statement.
Proof.
  intro S. destruct muc_lost_depart as [s [R [(Eh & Eg & c & Hc & Ek & Ep & Ec & Ee) _]]].
  destruct (S _ s 1 c R Hc Ek Ep Eg Eh); congruence.
Qed.
Print Assumptions C06_muc_leave_statement_false.

(* What does hold: the notification is dropped only when no Leave call is in
   its select at that moment. *)
Theorem C06_muc_leave_partial : forall s s',
  muc_step s MDepartLost = Some s' -> forall i c, nth_error (mu_calls s) i = Some c -> waiting_leave c = false.
Proof. exact muc_depart_lost_only_without_waiter. Qed.
Print Assumptions C06_muc_leave_partial.

(* ====================================================================== *)
(* IBB reader (pinned behaviour)                                           *)
(* ====================================================================== *)

(* one outcome per Read: results are only appended, one at a time *)
Theorem C06_ibb_read_at_most_one_outcome : forall tr s s',
  run ibb_step s tr = Some s' -> exists more, ib_outs s' = ib_outs s ++ more.
Proof. exact ibb_outs_run. Qed.
Print Assumptions C06_ibb_read_at_most_one_outcome.

(* bytes are neither lost nor invented: delivered + buffered = arrived *)
Theorem C06_ibb_read_conservation : forall tr s,
  run ibb_step ibb_init tr = Some s ->
  delivered_bytes (ib_outs s) + ib_buf s = arrived_bytes tr.
Proof. intros tr s R. pose proof (ibb_conservation_run tr ibb_init s R) as C. cbn in C. exact C. Qed.
Print Assumptions C06_ibb_read_conservation.

(* "no permanent stall of a Read while bytes are buffered" *)
Definition C06_ibb_read_progress_statement : Prop :=
  forall tr s, run ibb_step ibb_init tr = Some s -> no_lost_wakeup s.

Theorem C06_ibb_read_progress_refuted :
  exists s, run ibb_step ibb_init lost_wakeup_trace = Some s /\
    ib_rd s = RdWaiting /\ ib_h s = IHIdle /\ ib_buf s = 3 /\ ib_closed s = false /\ ib_lost s = 1 /\
    forall l, ibb_enabled s l -> (exists n, l = IData n) \/ l = ICloseRemote \/ l = ICloseLocal.
Proof. exact ibb_lost_wakeup. Qed.
Print Assumptions C06_ibb_read_progress_refuted.

Theorem C06_ibb_read_progress_statement_false : ~ C06_ibb_read_progress_statement.
Proof.
  intro S. destruct ibb_lost_wakeup as [s [R (A & B & C & _)]].
  specialize (S _ s R A B). congruence.
Qed.
Print Assumptions C06_ibb_read_progress_statement_false.

(* It holds on every schedule in which no data packet is handled between the
   reader's empty-buffer check and its wait. *)
Theorem C06_ibb_read_progress_partial : forall tr s,
  run ibb_step_nw ibb_init tr = Some s -> no_lost_wakeup s.
Proof. exact ibb_no_lost_wakeup_partial. Qed.
Print Assumptions C06_ibb_read_progress_partial.

(* "io.EOF only on a closed stream" *)
Definition C06_ibb_read_eof_statement : Prop :=
  forall tr s, run ibb_step ibb_init tr = Some s -> In RdEOF (ib_outs s) -> ib_closed s = true.

Theorem C06_ibb_read_eof_refuted :
  exists s, run ibb_step ibb_init [IRead 4; IWait; IData 0; INotify; IWake 4] = Some s /\
            ib_outs s = [RdEOF] /\ ib_closed s = false.
Proof. exact ibb_eof_on_empty_packet. Qed.
Print Assumptions C06_ibb_read_eof_refuted.

Theorem C06_ibb_read_eof_partial : forall tr s,
  Forall nonempty_data tr -> run ibb_step ibb_init tr = Some s ->
  In RdEOF (ib_outs s) -> ib_closed s = true.
Proof. exact ibb_eof_partial. Qed.
Print Assumptions C06_ibb_read_eof_partial.

(* "no panic of the serve goroutine" *)
Definition C06_ibb_no_panic_statement : Prop :=
  forall tr s, run ibb_step ibb_init tr = Some s -> ib_h s <> IHPanic.

Theorem C06_ibb_no_panic_refuted :
  exists s, run ibb_step ibb_init [ICloseLocal; IData 3; INotify] = Some s /\ ib_h s = IHPanic.
Proof. exact ibb_panic_after_local_close. Qed.
Print Assumptions C06_ibb_no_panic_refuted.

Theorem C06_ibb_no_panic_partial : forall tr s,
  ~ In ICloseLocal tr -> run ibb_step ibb_init tr = Some s -> ib_h s <> IHPanic.
Proof. exact ibb_no_panic_partial. Qed.
Print Assumptions C06_ibb_no_panic_partial.

(* the reader and the handler never get stuck on their own *)
Theorem C06_ibb_local_progress : forall s,
  (ib_rd s = RdChecked -> ibb_enabled s IWait) /\
  (ib_rd s = RdWoken -> ib_h s = IHIdle -> forall cap, ibb_enabled s (IWake (S cap))) /\
  (ib_h s = IHNotify -> ibb_enabled s INotify).
Proof. exact ibb_local_progress. Qed.
Print Assumptions C06_ibb_local_progress.
