(* C06/ProofsMuc.v — lemmas about the MUC join/leave transition system of
   C06/ModelExt.v (pinned behaviour of muc/muc.go HandlePresence and
   muc/room.go JoinPresence / LeavePresence). *)
From Coq Require Import List Arith NArith Bool Lia.
Import ListNotations.
From XV Require Import lib.Lts C06.Model C06.ModelExt C06.Proofs.

Lemma mcall_step_calls s i f s' :
  mcall_step s i f = Some s' ->
  exists c c', nth_error (mu_calls s) i = Some c /\ f c = Some c' /\
               mu_calls s' = upd (mu_calls s) i c' /\ mu_h s' = mu_h s /\
               mu_joinbuf s' = mu_joinbuf s /\ mu_gone s' = mu_gone s.
Proof.
  unfold mcall_step. destruct (nth_error (mu_calls s) i) as [c|] eqn:Hi; [|discriminate].
  destruct (f c) as [c'|] eqn:Hf; [|discriminate]. intro H. injection H as <-.
  exists c, c'. cbn. repeat split; auto.
Qed.

(* how one step can change a call: kind fixed, cancellation and the error
   offer only ever turn true, the program counter stays or moves forward *)
Definition mcall_succ (l : muclabel) (i : nat) (c c' : mcall) : Prop :=
  m_kind c' = m_kind c /\
  (m_canc c = true -> m_canc c' = true) /\
  (m_err c = true -> m_err c' = true) /\
  (m_pc c' = m_pc c \/
   (m_pc c = MSpawned /\ m_pc c' = MWait) \/
   (m_pc c = MWait /\ m_pc c' = MRet MCtxErr /\ m_canc c = true) \/
   (m_pc c = MWait /\ m_pc c' = MRet MErr /\ m_err c = true) \/
   (m_pc c = MWait /\ m_pc c' = MRet MJoined /\ l = MJoinRecv i) \/
   (m_pc c = MWait /\ m_pc c' = MRet MLeft /\ l = MDepartTo i /\ m_kind c = MLeave)).

Lemma mcall_succ_refl l i c : mcall_succ l i c c.
Proof. unfold mcall_succ. auto. Qed.

(* the shape of a step on the list of calls *)
Lemma muc_step_shape s l s' :
  muc_step s l = Some s' ->
  mu_calls s' = mu_calls s \/
  (exists i c c', nth_error (mu_calls s) i = Some c /\ mu_calls s' = upd (mu_calls s) i c' /\
                  mcall_succ l i c c') \/
  (exists c0, mu_calls s' = mu_calls s ++ [c0] /\ m_pc c0 = MSpawned /\
              (m_kind c0 = MJoin <-> mu_calls s = [])).
Proof.
  intro H.
  assert (Upd : forall k f, mcall_step s k f = Some s' ->
            (forall x x', f x = Some x' -> mcall_succ l k x x') ->
            exists i c c', nth_error (mu_calls s) i = Some c /\ mu_calls s' = upd (mu_calls s) i c' /\
                           mcall_succ l i c c').
  { intros k f Hs Hf. destruct (mcall_step_calls s k f s' Hs) as [x [x' [Hk [Hfx [Hc _]]]]].
    exists k, x, x'. auto. }
  destruct l; cbn [muc_step] in H.
  - destruct (mu_calls s) eqn:E; [|discriminate]. destruct (mu_joinbuf s); [discriminate|].
    injection H as <-. right. right. eexists. cbn. split; [reflexivity|]. split; [reflexivity|]. split; reflexivity.
  - destruct (mu_calls s) eqn:E; [discriminate|]. injection H as <-. right. right. cbn. rewrite <- E.
    eexists. split; [reflexivity|]. cbn. split; [reflexivity|]. rewrite E. split; discriminate.
  - right. left. eapply Upd; eauto. intros x x' Hf. cbv beta in Hf. destruct (m_pc x) eqn:E; try discriminate.
    injection Hf as <-. unfold mcall_succ. cbn. rewrite E. repeat split; auto 12.
  - right. left. eapply Upd; eauto. intros x x' Hf. injection Hf as <-. unfold mcall_succ. cbn. repeat split; auto 12.
  - right. left. eapply Upd; eauto. intros x x' Hf. cbv beta in Hf. destruct (m_pc x) eqn:E; try discriminate.
    destruct (m_canc x) eqn:Ec; try discriminate.
    injection Hf as <-. unfold mcall_succ. cbn. rewrite E. repeat split; auto 12.
  - right. left. eapply Upd; eauto. intros x x' Hf. cbv beta in Hf.
    destruct (is_mret (m_pc x) || m_err x); try discriminate.
    injection Hf as <-. unfold mcall_succ. cbn. repeat split; auto 12.
  - right. left. eapply Upd; eauto. intros x x' Hf. cbv beta in Hf. destruct (m_pc x) eqn:E; try discriminate.
    destruct (m_err x) eqn:Ee; try discriminate.
    injection Hf as <-. unfold mcall_succ. cbn. rewrite E. repeat split; auto 12.
  - destruct (mu_h s); try discriminate. destruct (mu_calls s) eqn:E; try discriminate.
    destruct (mu_gone s); try discriminate. injection H as <-. left. cbn. auto.
  - destruct (mu_h s); try discriminate.
    destruct (mu_joinbuf s); injection H as <-; left; reflexivity.
  - destruct (mu_h s) as [| |j'|]; try discriminate. destruct (Nat.eqb j j'); [|discriminate].
    destruct (nth_error (mu_calls s) j) as [x|] eqn:Hj; [|discriminate].
    destruct (m_pc x) eqn:E; try discriminate. injection H as <-. cbn.
    right. left. exists j, x. eexists. split; [exact Hj|]. split; [reflexivity|].
    unfold mcall_succ. cbn. rewrite E. repeat split; auto 12.
  - destruct (mu_h s) as [| |j'|]; try discriminate.
    destruct (nth_error (mu_calls s) j') as [x|]; [|discriminate].
    destruct (mctx_done x); [|discriminate]. injection H as <-. left. reflexivity.
  - destruct (mu_h s); try discriminate. destruct (mu_calls s) eqn:E; try discriminate.
    destruct (mu_gone s); try discriminate. injection H as <-. left. cbn. auto.
  - destruct (mu_h s); try discriminate.
    destruct (nth_error (mu_calls s) l) as [x|] eqn:Hl; [|discriminate].
    destruct (waiting_leave x) eqn:Ew; [|discriminate]. injection H as <-. cbn.
    unfold waiting_leave in Ew. destruct (m_kind x) eqn:Ek; try discriminate.
    destruct (m_pc x) eqn:E; try discriminate.
    right. left. exists l, x. eexists. split; [exact Hl|]. split; [reflexivity|].
    unfold mcall_succ. cbn. rewrite E. repeat split; auto 12.
  - destruct (mu_h s); try discriminate. destruct (existsb waiting_leave (mu_calls s)); [discriminate|].
    injection H as <-. left. reflexivity.
Qed.

(* forward: every call survives a step and moves by [mcall_succ] *)
Lemma muc_step_succ s l s' i c :
  muc_step s l = Some s' -> nth_error (mu_calls s) i = Some c ->
  exists c', nth_error (mu_calls s') i = Some c' /\ mcall_succ l i c c'.
Proof.
  intros H Hi. destruct (muc_step_shape s l s' H) as [E|[[k [x [x' [Hk [E S]]]]]|[c0 [E _]]]]; rewrite E.
  - exists c. split; [exact Hi|apply mcall_succ_refl].
  - destruct (Nat.eq_dec i k) as [->|N].
    + rewrite Hk in Hi. injection Hi as <-. exists x'. split; [eapply nth_upd_eq; eauto|exact S].
    + exists c. split; [rewrite nth_upd_neq by congruence; exact Hi|apply mcall_succ_refl].
  - exists c. split; [apply nth_app_old; exact Hi|apply mcall_succ_refl].
Qed.

(* backward: every call of the new state is an old one moved by
   [mcall_succ], or a freshly spawned one *)
Lemma muc_step_pred s l s' i c' :
  muc_step s l = Some s' -> nth_error (mu_calls s') i = Some c' ->
  (exists c, nth_error (mu_calls s) i = Some c /\ mcall_succ l i c c') \/
  (m_pc c' = MSpawned /\ i = length (mu_calls s) /\ (m_kind c' = MJoin <-> mu_calls s = [])).
Proof.
  intros H Hi. destruct (muc_step_shape s l s' H) as [E|[[k [x [x' [Hk [E S]]]]]|[c0 [E [P K]]]]]; rewrite E in Hi.
  - left. exists c'. split; [exact Hi|apply mcall_succ_refl].
  - destruct (nth_upd_inv _ _ _ _ _ _ Hk Hi) as [[-> ->]|[N Hy]].
    + left. exists x. auto.
    + left. exists c'. split; [exact Hy|apply mcall_succ_refl].
  - apply nth_app_inv in Hi. destruct Hi as [[_ Hi]|[-> ->]].
    + left. exists c'. split; [exact Hi|apply mcall_succ_refl].
    + right. auto.
Qed.

(* one outcome per call *)
Lemma mcall_succ_ret l i c c' o : mcall_succ l i c c' -> m_pc c = MRet o -> m_pc c' = MRet o.
Proof.
  intros (K & _ & _ & P) Hp.
  destruct P as [P|[P|[P|[P|[P|P]]]]]; try congruence; destruct P as [P _]; congruence.
Qed.

Lemma muc_ret_stable_run tr : forall s s' i c o,
  run muc_step s tr = Some s' -> nth_error (mu_calls s) i = Some c -> m_pc c = MRet o ->
  exists c', nth_error (mu_calls s') i = Some c' /\ m_pc c' = MRet o /\ m_kind c' = m_kind c.
Proof.
  induction tr as [|l tr IH]; intros s s' i c o R Hi Hp; cbn in R.
  - injection R as <-. eauto.
  - destruct (muc_step s l) as [s1|] eqn:E; [|discriminate].
    destruct (muc_step_succ s l s1 i c E Hi) as [c1 [H1 S]].
    pose proof (mcall_succ_ret _ _ _ _ _ S Hp) as P1. destruct S as (K & _).
    destruct (IH s1 s' i c1 o R H1 P1) as [c' [A [B C]]]. exists c'. repeat split; congruence.
Qed.

(* outcomes are legitimate *)
Definition mout_ok (gone : bool) (c : mcall) : Prop :=
  match m_pc c with
  | MRet MCtxErr => m_canc c = true
  | MRet MErr => m_err c = true
  | MRet MJoined => m_kind c = MJoin
  | MRet MLeft => m_kind c = MLeave /\ gone = true
  | _ => True
  end.

Record MucInv (s : mucstate) : Prop := {
  mi_head : forall c, nth_error (mu_calls s) 0 = Some c -> m_kind c = MJoin;
  mi_tail : forall i c, nth_error (mu_calls s) (S i) = Some c -> m_kind c = MLeave;
  mi_buf : forall j, mu_joinbuf s = Some j -> j = 0 /\ mu_calls s <> [];
  mi_taken : forall j, mu_h s = MHTaken j -> j = 0 /\ mu_calls s <> [];
  mi_unavail : mu_h s = MHUnavail -> mu_gone s = true;
  mi_out : forall i c, nth_error (mu_calls s) i = Some c -> mout_ok (mu_gone s) c
}.

Lemma MucInv_init : MucInv muc_init.
Proof.
  constructor; cbn; try discriminate; intros; try (destruct (nth_nil _ _ H)).
Qed.

Lemma mout_ok_succ l i c c' g g' :
  mcall_succ l i c c' -> mout_ok g c -> (g = true -> g' = true) ->
  (l = MJoinRecv i -> m_kind c = MJoin) -> (l = MDepartTo i -> g' = true) ->
  mout_ok g' c'.
Proof.
  intros (K & Cc & Ce & P) O G J D. unfold mout_ok in *.
  destruct P as [P|[P|[P|[P|[P|P]]]]].
  - rewrite P. destruct (m_pc c) as [| |o]; auto. destruct o; auto.
    + congruence.
    + destruct O as [A B]. split; [congruence|auto].
  - destruct P as (_ & P). rewrite P. exact I.
  - destruct P as (_ & P & A). rewrite P. auto.
  - destruct P as (_ & P & A). rewrite P. auto.
  - destruct P as (_ & P & L). rewrite P. rewrite K. auto.
  - destruct P as (_ & P & L & Kl). rewrite P. split; [congruence|auto].
Qed.

Lemma muc_step_gone s l s' : muc_step s l = Some s' -> mu_gone s = true -> mu_gone s' = true.
Proof.
  intros H G. destruct l; cbn [muc_step] in H;
    try (destruct (mcall_step_calls _ _ _ _ H) as [? [? [_ [_ [_ [_ [_ E]]]]]]]; congruence).
  - destruct (mu_calls s); [|discriminate]. destruct (mu_joinbuf s); [discriminate|]. injection H as <-. exact G.
  - destruct (mu_calls s); [discriminate|]. injection H as <-. exact G.
  - destruct (mu_h s); try discriminate. destruct (mu_calls s); try discriminate.
    rewrite G in H. discriminate.
  - destruct (mu_h s); try discriminate. destruct (mu_joinbuf s); injection H as <-; exact G.
  - destruct (mu_h s) as [| |j'|]; try discriminate. destruct (Nat.eqb j j'); [|discriminate].
    destruct (nth_error (mu_calls s) j) as [x|]; [|discriminate].
    destruct (m_pc x); try discriminate. injection H as <-. exact G.
  - destruct (mu_h s) as [| |j'|]; try discriminate.
    destruct (nth_error (mu_calls s) j') as [x|]; [|discriminate].
    destruct (mctx_done x); [|discriminate]. injection H as <-. exact G.
  - destruct (mu_h s); try discriminate. destruct (mu_calls s); try discriminate.
    rewrite G in H. discriminate.
  - destruct (mu_h s); try discriminate.
    destruct (nth_error (mu_calls s) l) as [x|]; [|discriminate].
    destruct (waiting_leave x); [|discriminate]. injection H as <-. exact G.
  - destruct (mu_h s); try discriminate. destruct (existsb waiting_leave (mu_calls s)); [discriminate|].
    injection H as <-. exact G.
Qed.

Lemma upd_nonnil {A} (a : list A) k (b : A) : a <> [] -> upd a k b <> [].
Proof. intros N E. apply N. destruct a; [reflexivity|destruct k; discriminate]. Qed.

(* the parts of the state other than the calls *)
Lemma muc_step_ctl s l s' :
  MucInv s -> muc_step s l = Some s' ->
  (forall j, mu_joinbuf s' = Some j -> j = 0 /\ mu_calls s' <> []) /\
  (forall j, mu_h s' = MHTaken j -> j = 0 /\ mu_calls s' <> []) /\
  (mu_h s' = MHUnavail -> mu_gone s' = true) /\
  (forall i, l = MJoinRecv i -> i = 0) /\
  (forall i, l = MDepartTo i -> mu_gone s = true).
Proof.
  intros [Ih Itl Ib It Iu Io] H.
  assert (Call : forall k f, mcall_step s k f = Some s' ->
            (forall j, mu_joinbuf s' = Some j -> j = 0 /\ mu_calls s' <> []) /\
            (forall j, mu_h s' = MHTaken j -> j = 0 /\ mu_calls s' <> []) /\
            (mu_h s' = MHUnavail -> mu_gone s' = true)).
  { intros k f Hs. destruct (mcall_step_calls s k f s' Hs) as [x [x' [Hk [_ [Ec [Eh [Eb Eg]]]]]]].
    rewrite Ec, Eh, Eb, Eg. split; [|split].
    - intros j Hj. destruct (Ib j Hj) as [A N]. split; [exact A|apply upd_nonnil; exact N].
    - intros j Hj. destruct (It j Hj) as [A N]. split; [exact A|apply upd_nonnil; exact N].
    - exact Iu. }
  assert (App : forall c0, mu_calls s ++ [c0] <> []) by (intros c0 E; destruct (mu_calls s); discriminate).
  destruct l; cbn [muc_step] in H;
    try (destruct (Call _ _ H) as (A & B & C);
         split; [exact A|split; [exact B|split; [exact C|split; intros; discriminate]]]).
  - destruct (mu_calls s) eqn:E; [|discriminate]. destruct (mu_joinbuf s); [discriminate|].
    injection H as <-. cbn.
    split; [|split; [|split; [|split; intros; discriminate]]].
    + intros j Hj. injection Hj as <-. split; [reflexivity|discriminate].
    + intros j Hj. destruct (It j Hj) as [_ N]. congruence.
    + exact Iu.
  - destruct (mu_calls s) eqn:E; [discriminate|]. rewrite <- E in H. injection H as <-. cbn.
    split; [|split; [|split; [|split; intros; discriminate]]].
    + intros j Hj. destruct (Ib j Hj) as [A N]. split; [exact A|intro X; destruct (mu_calls s); discriminate].
    + intros j Hj. destruct (It j Hj) as [A N]. split; [exact A|intro X; destruct (mu_calls s); discriminate].
    + exact Iu.
  - destruct (mu_h s) eqn:Eh; try discriminate. destruct (mu_calls s) eqn:E; try discriminate.
    destruct (mu_gone s); try discriminate. injection H as <-. cbn. rewrite ?E.
    split; [|split; [|split; [|split; intros; discriminate]]]; try (intros; discriminate).
    exact Ib.
  - destruct (mu_h s) eqn:Eh; try discriminate.
    destruct (mu_joinbuf s) as [j|] eqn:Eb; injection H as <-; cbn;
      (split; [|split; [|split; [|split; intros; discriminate]]]); try (intros; discriminate).
    intros j0 Hj. injection Hj as <-. apply Ib. reflexivity.
  - destruct (mu_h s) as [| |j'|] eqn:Eh; try discriminate. destruct (Nat.eqb j j') eqn:Ej; [|discriminate].
    apply Nat.eqb_eq in Ej. subst j'.
    destruct (nth_error (mu_calls s) j) as [x|] eqn:Hj; [|discriminate].
    destruct (m_pc x); try discriminate. injection H as <-. cbn.
    destruct (It j eq_refl) as [-> N].
    split; [|split; [|split; [|split]]]; try (intros; discriminate).
    + intros j Hb. destruct (Ib j Hb) as [A N']. split; [exact A|apply upd_nonnil; exact N'].
    + intros i Hi. injection Hi as <-. reflexivity.
  - destruct (mu_h s) as [| |j'|] eqn:Eh; try discriminate.
    destruct (nth_error (mu_calls s) j') as [x|]; [|discriminate].
    destruct (mctx_done x); [|discriminate]. injection H as <-. cbn.
    split; [|split; [|split; [|split; intros; discriminate]]]; try (intros; discriminate).
    exact Ib.
  - destruct (mu_h s) eqn:Eh; try discriminate. destruct (mu_calls s) eqn:E; try discriminate.
    destruct (mu_gone s); try discriminate. injection H as <-. cbn. rewrite ?E.
    split; [|split; [|split; [|split; intros; discriminate]]]; try (intros; discriminate).
    + exact Ib.
    + reflexivity.
  - destruct (mu_h s) eqn:Eh; try discriminate.
    destruct (nth_error (mu_calls s) l) as [x|] eqn:Hl; [|discriminate].
    destruct (waiting_leave x); [|discriminate]. injection H as <-. cbn.
    split; [|split; [|split; [|split]]]; try (intros; discriminate).
    + intros j Hb. destruct (Ib j Hb) as [A N']. split; [exact A|apply upd_nonnil; exact N'].
    + intros _ _. apply Iu. reflexivity.
  - destruct (mu_h s) eqn:Eh; try discriminate. destruct (existsb waiting_leave (mu_calls s)); [discriminate|].
    injection H as <-. cbn.
    split; [|split; [|split; [|split; intros; discriminate]]]; try (intros; discriminate).
    exact Ib.
Qed.

Theorem MucInv_step s l s' : MucInv s -> muc_step s l = Some s' -> MucInv s'.
Proof.
  intros I H. destruct (muc_step_ctl s l s' I H) as (Cb & Ct & Cu & Cj & Cd).
  pose proof (muc_step_gone s l s' H) as G.
  destruct I as [Ih Itl Ib It Iu Io].
  constructor; auto.
  - intros c' Hc. destruct (muc_step_pred s l s' 0 c' H Hc) as [[c [Hc0 (K & _)]]|[_ [L Kn]]].
    + rewrite K. auto.
    + apply Kn. destruct (mu_calls s); [reflexivity|discriminate].
  - intros i c' Hc. destruct (muc_step_pred s l s' (S i) c' H Hc) as [[c [Hc0 (K & _)]]|[_ [L Kn]]].
    + rewrite K. eauto.
    + destruct (m_kind c') eqn:Ek; [|reflexivity]. destruct Kn as [Kn _]. specialize (Kn eq_refl).
      rewrite Kn in L. discriminate.
  - intros i c' Hc. destruct (muc_step_pred s l s' i c' H Hc) as [[c [Hc0 S]]|[P _]].
    + apply (mout_ok_succ l i c c' (mu_gone s) (mu_gone s') S (Io i c Hc0) G).
      * intros ->. specialize (Cj i eq_refl). subst i. auto.
      * intros ->. apply G. apply (Cd i eq_refl).
    + unfold mout_ok. rewrite P. exact Logic.I.
Qed.

Theorem MucInv_run tr s : run muc_step muc_init tr = Some s -> MucInv s.
Proof.
  apply (invariant_run _ _ muc_step MucInv muc_init MucInv_init).
  intros s0 l s1 I H. exact (MucInv_step s0 l s1 I H).
Qed.

Lemma muc_outcome_run tr s i c o :
  run muc_step muc_init tr = Some s -> nth_error (mu_calls s) i = Some c -> m_pc c = MRet o ->
  match o with
  | MCtxErr => m_canc c = true
  | MErr => m_err c = true
  | MJoined => m_kind c = MJoin /\ i = 0
  | MLeft => m_kind c = MLeave /\ mu_gone s = true
  end.
Proof.
  intros R Hi Hp. pose proof (MucInv_run tr s R) as I.
  pose proof (mi_out _ I i c Hi) as O. unfold mout_ok in O. rewrite Hp in O.
  destruct o; auto. split; [exact O|].
  destruct i; [reflexivity|]. pose proof (mi_tail _ I i c Hi). congruence.
Qed.

(* ---- progress of the presence handler (and with it the serve loop) ---- *)

Definition muc_enabled (s : mucstate) (l : muclabel) : Prop := muc_step s l <> None.

Definition muc_handler_waits (s : mucstate) : Prop :=
  match mu_h s with
  | MHIdle => True
  | MHAvail => muc_enabled s MTake
  | MHTaken j =>
      exists c, nth_error (mu_calls s) j = Some c /\
      match m_pc c with
      | MSpawned => if m_canc c then muc_enabled s MSkip else muc_enabled s (MEnter j)
      | MWait => muc_enabled s (MJoinRecv j)
      | MRet _ => muc_enabled s MSkip
      end
  | MHUnavail => muc_enabled s MDepartLost \/ exists l, muc_enabled s (MDepartTo l)
  end.

Lemma muc_handler_waits_inv s : MucInv s -> muc_handler_waits s.
Proof.
  intro I. unfold muc_handler_waits, muc_enabled.
  destruct (mu_h s) as [| |j|] eqn:Eh; auto; cbn [muc_step]; rewrite ?Eh.
  - destruct (mu_joinbuf s); discriminate.
  - destruct (mi_taken _ I j Eh) as [-> N].
    destruct (mu_calls s) as [|c rest] eqn:E; [congruence|]. exists c. split; [reflexivity|].
    destruct (m_pc c) eqn:Ep.
    + destruct (m_canc c) eqn:Ec.
      * cbn [muc_step]. rewrite ?Eh, ?E. cbn. unfold mctx_done. rewrite Ec. discriminate.
      * cbn [muc_step]. unfold mcall_step. rewrite ?E. cbn. rewrite Ep. discriminate.
    + cbn [muc_step]. rewrite ?Eh, ?E. cbn. rewrite Ep. discriminate.
    + cbn [muc_step]. rewrite ?Eh, ?E. cbn. unfold mctx_done. rewrite Ep. cbn.
      rewrite orb_true_r. discriminate.
  - destruct (existsb waiting_leave (mu_calls s)) eqn:Ex.
    + right. apply existsb_exists in Ex. destruct Ex as [x [Hin Hw]].
      apply In_nth_error in Hin. destruct Hin as [l Hl]. exists l.
      cbn [muc_step]. rewrite ?Eh, Hl, Hw. discriminate.
    + left. discriminate.
Qed.

Lemma muc_handler_waits_run tr s : run muc_step muc_init tr = Some s -> muc_handler_waits s.
Proof. intro R. apply muc_handler_waits_inv. exact (MucInv_run tr s R). Qed.

(* a call never gets stuck on its own *)
Lemma muc_call_progress s i c :
  nth_error (mu_calls s) i = Some c ->
  match m_pc c with
  | MSpawned => muc_enabled s (MEnter i)
  | MWait => (m_canc c = true -> muc_enabled s (MCtx i)) /\ (m_err c = true -> muc_enabled s (MErrRecv i))
  | MRet _ => True
  end.
Proof.
  intro Hi. unfold muc_enabled. destruct (m_pc c) eqn:Ep; auto; cbn [muc_step]; unfold mcall_step; rewrite Hi, Ep.
  - discriminate.
  - split; intros ->; discriminate.
Qed.

(* ---- the lost depart notification (pinned behaviour) ---- *)

Definition lost_depart_trace : list muclabel :=
  [MStartJoin; MEnter 0; MAvailArrive; MTake; MJoinRecv 0; MStartLeave; MUnavailArrive; MDepartLost; MEnter 1].

(* Leave call i sits in its select, the room's entry is gone, the handler is
   idle: nothing but the call's own context or an error reply ends the call *)
Definition leave_stuck (s : mucstate) (i : nat) : Prop :=
  mu_h s = MHIdle /\ mu_gone s = true /\
  exists c, nth_error (mu_calls s) i = Some c /\ m_kind c = MLeave /\ m_pc c = MWait /\
            m_canc c = false /\ m_err c = false.

Lemma leave_stuck_step s l s' i :
  leave_stuck s i -> l <> MCancel i -> l <> MErrReply i -> muc_step s l = Some s' -> leave_stuck s' i.
Proof.
  intros (Eh & Eg & c & Hi & Ek & Ep & Ec & Ee) N1 N2 H.
  assert (Call : forall k f, mcall_step s k f = Some s' ->
            (forall x x', f x = Some x' -> k = i -> m_kind x' = m_kind x /\ (m_pc x = MWait -> m_canc x = false -> m_err x = false ->
                                             m_pc x' = MWait /\ m_canc x' = false /\ m_err x' = false)) ->
            leave_stuck s' i).
  { intros k f Hs Hf. destruct (mcall_step_calls s k f s' Hs) as [x [x' [Hk [Hfx [Ecs [Eh' [_ Eg']]]]]]].
    split; [congruence|]. split; [congruence|]. rewrite Ecs.
    destruct (Nat.eq_dec k i) as [->|Nk].
    - rewrite Hk in Hi. injection Hi as ->. destruct (Hf c x' Hfx eq_refl) as [K P].
      destruct (P Ep Ec Ee) as (A & B & C). exists x'. split; [eapply nth_upd_eq; eauto|].
      repeat split; congruence.
    - exists c. split; [rewrite nth_upd_neq by congruence; exact Hi|auto]. }
  destruct l; cbn [muc_step] in H; try (rewrite Eh in H; discriminate).
  - destruct (mu_calls s); [destruct (nth_nil _ _ Hi)|discriminate].
  - destruct (mu_calls s) eqn:E; [discriminate|]. rewrite <- E in *. injection H as <-. cbn.
    split; [exact Eh|]. split; [exact Eg|]. exists c. split; [apply nth_app_old; exact Hi|auto].
  - eapply Call; eauto. intros x x' Hf ->. cbv beta in Hf. destruct (m_pc x) eqn:E; try discriminate.
    injection Hf as <-. cbn. split; [reflexivity|]. intros. discriminate.
  - eapply Call; eauto. intros x x' Hf ->. congruence.
  - eapply Call; eauto. intros x x' Hf ->. cbv beta in Hf. destruct (m_pc x) eqn:E; try discriminate.
    destruct (m_canc x) eqn:Ecx; try discriminate. injection Hf as <-. cbn.
    split; [reflexivity|]. intros. discriminate.
  - eapply Call; eauto. intros x x' Hf ->. congruence.
  - eapply Call; eauto. intros x x' Hf ->. cbv beta in Hf. destruct (m_pc x) eqn:E; try discriminate.
    destruct (m_err x) eqn:Eex; try discriminate. injection Hf as <-. cbn.
    split; [reflexivity|]. intros. discriminate.
  - rewrite Eh in H. destruct (mu_calls s); try discriminate. rewrite Eg in H. discriminate.
  - rewrite Eh in H. destruct (mu_calls s); try discriminate. rewrite Eg in H. discriminate.
Qed.

Lemma leave_stuck_run tr : forall s s' i,
  leave_stuck s i -> ~ In (MCancel i) tr -> ~ In (MErrReply i) tr ->
  run muc_step s tr = Some s' -> leave_stuck s' i.
Proof.
  induction tr as [|l tr IH]; intros s s' i St N1 N2 R; cbn in R.
  - injection R as <-. exact St.
  - destruct (muc_step s l) as [s1|] eqn:E; [|discriminate].
    apply (IH s1 s' i); auto.
    + eapply leave_stuck_step; eauto; intros ->; [apply N1|apply N2]; left; reflexivity.
    + intro A. apply N1. right. exact A.
    + intro A. apply N2. right. exact A.
Qed.

Lemma muc_lost_depart :
  exists s, run muc_step muc_init lost_depart_trace = Some s /\ leave_stuck s 1 /\ mu_lost s = 1 /\
    forall tr s', ~ In (MCancel 1) tr -> ~ In (MErrReply 1) tr -> run muc_step s tr = Some s' ->
      exists c, nth_error (mu_calls s') 1 = Some c /\ m_pc c = MWait.
Proof.
  eexists. split; [vm_compute; reflexivity|]. split.
  - repeat split. eexists. split; [reflexivity|]. repeat split.
  - split; [reflexivity|]. intros tr s' N1 N2 R.
    assert (St : leave_stuck (mkmuc [mkmcall MJoin false (MRet MJoined) false; mkmcall MLeave false MWait false]
                                    None MHIdle 0 1 true) 1).
    { repeat split. eexists. split; [reflexivity|]. repeat split. }
    destruct (leave_stuck_run tr _ s' 1 St N1 N2 R) as (_ & _ & c & Hc & _ & Hp & _). eauto.
Qed.

(* in the ordinary order (the caller is in its select when the presence is
   handled) the same Leave call returns *)
Lemma muc_depart_delivered :
  exists s c, run muc_step muc_init
    [MStartJoin; MEnter 0; MAvailArrive; MTake; MJoinRecv 0; MStartLeave; MEnter 1; MUnavailArrive; MDepartTo 1] = Some s /\
    nth_error (mu_calls s) 1 = Some c /\ m_pc c = MRet MLeft.
Proof. eexists. eexists. split; [vm_compute; reflexivity|]. split; reflexivity. Qed.

(* the notification is lost only when no Leave call is in its select *)
Lemma muc_depart_lost_only_without_waiter s s' :
  muc_step s MDepartLost = Some s' -> forall i c, nth_error (mu_calls s) i = Some c -> waiting_leave c = false.
Proof.
  intros H i c Hi. cbn [muc_step] in H. destruct (mu_h s); try discriminate.
  destruct (existsb waiting_leave (mu_calls s)) eqn:Ex; [discriminate|].
  destruct (waiting_leave c) eqn:Ew; [|reflexivity].
  assert (existsb waiting_leave (mu_calls s) = true).
  { apply existsb_exists. exists c. split; [eapply nth_error_In; eauto|exact Ew]. }
  congruence.
Qed.
