(* C06/ProofsMuc.v — lemmas about the MUC join/leave transition system of
   C06/ModelExt.v (muc/muc.go HandlePresence, muc/room.go JoinPresence /
   LeavePresence; [muc_step true] is the code, [muc_step false] the pinned
   design with an unbuffered depart channel). *)
From Coq Require Import List Arith NArith Bool Lia.
Import ListNotations.
From XV Require Import lib.Lts C06.Model C06.ModelExt C06.Proofs.

Lemma mcall_step_calls s i f s' :
  mcall_step s i f = Some s' ->
  exists c c', nth_error (mu_calls s) i = Some c /\ f c = Some c' /\
               mu_calls s' = upd (mu_calls s) i c' /\ mu_h s' = mu_h s /\
               mu_joinbuf s' = mu_joinbuf s /\ mu_gone s' = mu_gone s /\
               mu_dtok s' = mu_dtok s /\ mu_drained s' = mu_drained s /\ mu_lost s' = mu_lost s.
Proof.
  unfold mcall_step. destruct (nth_error (mu_calls s) i) as [c|] eqn:Hi; [|discriminate].
  destruct (f c) as [c'|] eqn:Hf; [|discriminate]. intro H. injection H as <-.
  exists c, c'. cbn. repeat split; auto.
Qed.

(* how one step can change a call: kind fixed, cancellation and the error
   offer only ever turn true, the program counter stays or moves forward *)
Definition mcall_succ (l : muclabel) (i : nat) (c c' : mcall) : Prop :=
  (m_kind c' = m_kind c /\ m_pre c' = m_pre c) /\
  (m_canc c = true -> m_canc c' = true) /\
  (m_err c = true -> m_err c' = true) /\
  (m_pc c' = m_pc c \/
   (m_pc c = MSpawned /\ m_pc c' = MWait) \/
   (m_pc c = MWait /\ m_pc c' = MRet MCtxErr /\ m_canc c = true) \/
   (m_pc c = MWait /\ m_pc c' = MRet MErr /\ m_err c = true) \/
   (m_pc c = MWait /\ m_pc c' = MRet MJoined /\ l = MJoinRecv i) \/
   (m_pc c = MWait /\ m_pc c' = MRet MLeft /\ (l = MDepartTo i \/ l = MDepartRecv i) /\ m_kind c = MLeave)).

Lemma mcall_succ_refl l i c : mcall_succ l i c c.
Proof. unfold mcall_succ. auto. Qed.

Section Fx.
Variable fx : bool.

(* the shape of a step on the list of calls *)
Lemma muc_step_shape s l s' :
  muc_step fx s l = Some s' ->
  mu_calls s' = mu_calls s \/
  (exists i c c', nth_error (mu_calls s) i = Some c /\ mu_calls s' = upd (mu_calls s) i c' /\
                  mcall_succ l i c c') \/
  (exists c0, mu_calls s' = mu_calls s ++ [c0] /\ m_pc c0 = MSpawned /\
              (m_kind c0 = MJoin <-> mu_calls s = [])).
Proof.
  intro H.
  assert (Upd : forall k f, mcall_step s k f = Some s' ->
            (forall x x', f x = Some x' -> mcall_succ l k x x') ->
            exists i c c', nth_error (mu_calls s) i = Some c /\ mu_calls s' = upd (mu_calls s) i c' /\
                           mcall_succ l i c c').
  { intros k f Hs Hf. destruct (mcall_step_calls s k f s' Hs) as [x [x' [Hk [Hfx [Hc _]]]]].
    exists k, x, x'. auto. }
  destruct l; cbn [muc_step] in H.
  - destruct (mu_calls s) eqn:E; [|discriminate]. destruct (mu_joinbuf s); [discriminate|].
    injection H as <-. right. right. eexists. cbn. split; [reflexivity|]. split; [reflexivity|]. split; reflexivity.
  - destruct (mu_calls s) eqn:E; [discriminate|]. injection H as <-. right. right. cbn. rewrite <- E.
    eexists. split; [reflexivity|]. cbn. split; [reflexivity|]. rewrite E. split; discriminate.
  - right. left. eapply Upd; eauto. intros x x' Hf. cbv beta in Hf. destruct (m_pc x) eqn:E; try discriminate.
    injection Hf as <-. unfold mcall_succ. cbn. rewrite E. repeat split; auto 12.
  - right. left. eapply Upd; eauto. intros x x' Hf. injection Hf as <-. unfold mcall_succ. cbn. repeat split; auto 12.
  - right. left. eapply Upd; eauto. intros x x' Hf. cbv beta in Hf. destruct (m_pc x) eqn:E; try discriminate.
    destruct (m_canc x) eqn:Ec; try discriminate.
    injection Hf as <-. unfold mcall_succ. cbn. rewrite E. repeat split; auto 12.
  - right. left. eapply Upd; eauto. intros x x' Hf. cbv beta in Hf.
    destruct (is_mret (m_pc x) || m_err x); try discriminate.
    injection Hf as <-. unfold mcall_succ. cbn. repeat split; auto 12.
  - right. left. eapply Upd; eauto. intros x x' Hf. cbv beta in Hf. destruct (m_pc x) eqn:E; try discriminate.
    destruct (m_err x) eqn:Ee; try discriminate.
    injection Hf as <-. unfold mcall_succ. cbn. rewrite E. repeat split; auto 12.
  - destruct (mu_h s); try discriminate. destruct (mu_calls s) eqn:E; try discriminate.
    destruct (mu_gone s); try discriminate. injection H as <-. left. cbn. auto.
  - destruct (mu_h s); try discriminate.
    destruct (mu_joinbuf s); injection H as <-; left; reflexivity.
  - destruct (mu_h s) as [| |j'|]; try discriminate. destruct (Nat.eqb j j'); [|discriminate].
    destruct (nth_error (mu_calls s) j) as [x|] eqn:Hj; [|discriminate].
    destruct (m_pc x) eqn:E; try discriminate. injection H as <-. cbn.
    right. left. exists j, x. eexists. split; [exact Hj|]. split; [reflexivity|].
    unfold mcall_succ. cbn. rewrite E. repeat split; auto 12.
  - destruct (mu_h s) as [| |j'|]; try discriminate.
    destruct (nth_error (mu_calls s) j') as [x|]; [|discriminate].
    destruct (mctx_done x); [|discriminate]. injection H as <-. left. reflexivity.
  - destruct (mu_h s); try discriminate. destruct (mu_calls s) eqn:E; try discriminate.
    destruct (mu_gone s); try discriminate. injection H as <-. left. cbn. auto.
  - destruct (mu_h s); try discriminate.
    destruct (nth_error (mu_calls s) l) as [x|] eqn:Hl; [|discriminate].
    destruct (waiting_leave x) eqn:Ew; [|discriminate]. destruct (mu_dtok s); [discriminate|].
    injection H as <-. cbn.
    unfold waiting_leave in Ew. destruct (m_kind x) eqn:Ek; try discriminate.
    destruct (m_pc x) eqn:E; try discriminate.
    right. left. exists l, x. eexists. split; [exact Hl|]. split; [reflexivity|].
    unfold mcall_succ. cbn. rewrite E. repeat split; auto 12.
  - destruct (mu_h s); try discriminate.
    destruct (fx && negb (mu_dtok s) && negb (existsb waiting_leave (mu_calls s))); [|discriminate].
    injection H as <-. left. reflexivity.
  - destruct (mu_h s); try discriminate.
    destruct (if fx then mu_dtok s else negb (existsb waiting_leave (mu_calls s))); [|discriminate].
    injection H as <-. left. reflexivity.
  - destruct (nth_error (mu_calls s) l) as [x|] eqn:Hl; [|discriminate].
    destruct (waiting_leave x) eqn:Ew; [|discriminate]. destruct (mu_dtok s); [|discriminate].
    injection H as <-. cbn.
    unfold waiting_leave in Ew. destruct (m_kind x) eqn:Ek; try discriminate.
    destruct (m_pc x) eqn:E; try discriminate.
    right. left. exists l, x. eexists. split; [exact Hl|]. split; [reflexivity|].
    unfold mcall_succ. cbn. rewrite E. repeat split; auto 12.
Qed.

(* forward: every call survives a step and moves by [mcall_succ] *)
Lemma muc_step_succ s l s' i c :
  muc_step fx s l = Some s' -> nth_error (mu_calls s) i = Some c ->
  exists c', nth_error (mu_calls s') i = Some c' /\ mcall_succ l i c c'.
Proof.
  intros H Hi. destruct (muc_step_shape s l s' H) as [E|[[k [x [x' [Hk [E S]]]]]|[c0 [E _]]]]; rewrite E.
  - exists c. split; [exact Hi|apply mcall_succ_refl].
  - destruct (Nat.eq_dec i k) as [->|N].
    + rewrite Hk in Hi. injection Hi as <-. exists x'. split; [eapply nth_upd_eq; eauto|exact S].
    + exists c. split; [rewrite nth_upd_neq by congruence; exact Hi|apply mcall_succ_refl].
  - exists c. split; [apply nth_app_old; exact Hi|apply mcall_succ_refl].
Qed.

(* backward: every call of the new state is an old one moved by
   [mcall_succ], or a freshly spawned one *)
Lemma muc_step_pred s l s' i c' :
  muc_step fx s l = Some s' -> nth_error (mu_calls s') i = Some c' ->
  (exists c, nth_error (mu_calls s) i = Some c /\ mcall_succ l i c c') \/
  (m_pc c' = MSpawned /\ i = length (mu_calls s) /\ (m_kind c' = MJoin <-> mu_calls s = [])).
Proof.
  intros H Hi. destruct (muc_step_shape s l s' H) as [E|[[k [x [x' [Hk [E S]]]]]|[c0 [E [P K]]]]]; rewrite E in Hi.
  - left. exists c'. split; [exact Hi|apply mcall_succ_refl].
  - destruct (nth_upd_inv _ _ _ _ _ _ Hk Hi) as [[-> ->]|[N Hy]].
    + left. exists x. auto.
    + left. exists c'. split; [exact Hy|apply mcall_succ_refl].
  - apply nth_app_inv in Hi. destruct Hi as [[_ Hi]|[-> ->]].
    + left. exists c'. split; [exact Hi|apply mcall_succ_refl].
    + right. auto.
Qed.

(* one outcome per call *)
Lemma mcall_succ_ret l i c c' o : mcall_succ l i c c' -> m_pc c = MRet o -> m_pc c' = MRet o.
Proof.
  intros (K & _ & _ & P) Hp.
  destruct P as [P|[P|[P|[P|[P|P]]]]]; try congruence; destruct P as [P _]; congruence.
Qed.

Lemma muc_ret_stable_run tr : forall s s' i c o,
  run (muc_step fx) s tr = Some s' -> nth_error (mu_calls s) i = Some c -> m_pc c = MRet o ->
  exists c', nth_error (mu_calls s') i = Some c' /\ m_pc c' = MRet o /\ m_kind c' = m_kind c.
Proof.
  induction tr as [|l tr IH]; intros s s' i c o R Hi Hp; cbn in R.
  - injection R as <-. eauto.
  - destruct (muc_step fx s l) as [s1|] eqn:E; [|discriminate].
    destruct (muc_step_succ s l s1 i c E Hi) as [c1 [H1 S]].
    pose proof (mcall_succ_ret _ _ _ _ _ S Hp) as P1. destruct S as ((K & _) & _).
    destruct (IH s1 s' i c1 o R H1 P1) as [c' [A [B C]]]. exists c'. repeat split; congruence.
Qed.

(* outcomes are legitimate *)
Definition mout_ok (gone : bool) (c : mcall) : Prop :=
  match m_pc c with
  | MRet MCtxErr => m_canc c = true
  | MRet MErr => m_err c = true
  | MRet MJoined => m_kind c = MJoin
  | MRet MLeft => m_kind c = MLeave /\ gone = true
  | _ => True
  end.

Record MucInv (s : mucstate) : Prop := {
  mi_head : forall c, nth_error (mu_calls s) 0 = Some c -> m_kind c = MJoin;
  mi_tail : forall i c, nth_error (mu_calls s) (S i) = Some c -> m_kind c = MLeave;
  mi_buf : forall j, mu_joinbuf s = Some j -> j = 0 /\ mu_calls s <> [];
  mi_taken : forall j, mu_h s = MHTaken j -> j = 0 /\ mu_calls s <> [];
  mi_unavail : mu_h s = MHUnavail -> mu_gone s = true;
  mi_tok : mu_dtok s = true -> mu_gone s = true;
  mi_fx : mu_dtok s = true -> fx = true;
  mi_out : forall i c, nth_error (mu_calls s) i = Some c -> mout_ok (mu_gone s) c
}.

Lemma MucInv_init : MucInv muc_init.
Proof.
  constructor; cbn; try discriminate; intros; try (destruct (nth_nil _ _ H)).
Qed.

Lemma mout_ok_succ l i c c' g g' :
  mcall_succ l i c c' -> mout_ok g c -> (g = true -> g' = true) ->
  (l = MJoinRecv i -> m_kind c = MJoin) -> ((l = MDepartTo i \/ l = MDepartRecv i) -> g' = true) ->
  mout_ok g' c'.
Proof.
  intros ((K & Kp) & Cc & Ce & P) O G J D. unfold mout_ok in *.
  destruct P as [P|[P|[P|[P|[P|P]]]]].
  - rewrite P. destruct (m_pc c) as [| |o]; auto. destruct o; auto.
    + congruence.
    + destruct O as [A B]. split; [congruence|auto].
  - destruct P as (_ & P). rewrite P. exact I.
  - destruct P as (_ & P & A). rewrite P. auto.
  - destruct P as (_ & P & A). rewrite P. auto.
  - destruct P as (_ & P & L). rewrite P. rewrite K. auto.
  - destruct P as (_ & P & L & Kl). rewrite P. split; [congruence|auto].
Qed.

Ltac break_step H := repeat match type of H with
  | context [match ?x with _ => _ end] => destruct x eqn:?; try discriminate
  end.

Ltac fin_fields := cbn; repeat match goal with |- _ /\ _ => split | |- _ <-> _ => split end;
  intros;
  repeat match goal with
  | H : _ && _ = true |- _ => apply andb_prop in H; destruct H
  | H : negb _ = true |- _ => apply negb_true_iff in H
  | E : fx = true, H : context [if fx then _ else _] |- _ => rewrite E in H
  end;
  try reflexivity; try assumption; try discriminate; try congruence.

(* what a step does to the parts of the state other than the calls *)
Lemma muc_step_fields s l s' :
  muc_step fx s l = Some s' ->
  match l with
  | MUnavailArrive =>
      mu_h s = MHIdle /\ mu_gone s = false /\ mu_h s' = MHUnavail /\ mu_gone s' = true /\
      mu_dtok s' = mu_dtok s /\ mu_drained s' = mu_drained s /\ mu_lost s' = mu_lost s
  | MDepartTo _ =>
      mu_h s = MHUnavail /\ mu_h s' = MHIdle /\ mu_gone s' = mu_gone s /\ mu_dtok s = false /\
      mu_dtok s' = false /\ mu_drained s' = mu_drained s /\ mu_lost s' = mu_lost s
  | MDepartKept =>
      fx = true /\ mu_h s = MHUnavail /\ mu_h s' = MHIdle /\ mu_gone s' = mu_gone s /\ mu_dtok s = false /\
      mu_dtok s' = true /\ mu_drained s' = mu_drained s /\ mu_lost s' = mu_lost s
  | MDepartLost =>
      mu_h s = MHUnavail /\ mu_h s' = MHIdle /\ mu_gone s' = mu_gone s /\ (fx = true -> mu_dtok s = true) /\
      mu_dtok s' = mu_dtok s /\ mu_drained s' = mu_drained s /\ mu_lost s' = S (mu_lost s)
  | MDepartRecv _ =>
      mu_h s' = mu_h s /\ mu_gone s' = mu_gone s /\ mu_dtok s = true /\ mu_dtok s' = false /\
      mu_drained s' = mu_drained s /\ mu_lost s' = mu_lost s
  | MStartLeave =>
      mu_h s' = mu_h s /\ mu_gone s' = mu_gone s /\ mu_dtok s' = false /\
      mu_drained s' = (if mu_dtok s then S (mu_drained s) else mu_drained s) /\ mu_lost s' = mu_lost s
  | _ =>
      mu_gone s' = mu_gone s /\ mu_dtok s' = mu_dtok s /\ mu_drained s' = mu_drained s /\
      mu_lost s' = mu_lost s /\ (mu_h s' = MHUnavail <-> mu_h s = MHUnavail)
  end.
Proof.
  intro H. destruct l; cbn [muc_step] in H;
    try (destruct (mcall_step_calls _ _ _ _ H) as [? [? [_ [_ [_ [Eh [_ [Eg [Et [Ed El]]]]]]]]]];
         rewrite Eh; fin_fields);
    break_step H; injection H as <-; fin_fields.
Qed.

Lemma muc_step_gone s l s' : muc_step fx s l = Some s' -> mu_gone s = true -> mu_gone s' = true.
Proof.
  intros H G. pose proof (muc_step_fields s l s' H) as F.
  destruct l; decompose [and] F; congruence.
Qed.

Lemma upd_nonnil {A} (a : list A) k (b : A) : a <> [] -> upd a k b <> [].
Proof. intros N E. apply N. destruct a; [reflexivity|destruct k; discriminate]. Qed.

(* join buffer, taken joinCtx, non-emptiness of the list of calls *)
Lemma muc_step_join s l s' :
  muc_step fx s l = Some s' ->
  (forall j, mu_joinbuf s' = Some j -> mu_joinbuf s = Some j \/ (l = MStartJoin /\ j = 0)) /\
  (forall j, mu_h s' = MHTaken j -> mu_h s = MHTaken j \/ (l = MTake /\ mu_joinbuf s = Some j)) /\
  (mu_calls s <> [] -> mu_calls s' <> []) /\ (l = MStartJoin -> mu_calls s' <> []) /\
  (forall j, l = MJoinRecv j -> mu_h s = MHTaken j).
Proof.
  intro H.
  assert (App : forall (a : list mcall) x, a ++ [x] <> []) by (intros a x E; destruct a; discriminate).
  destruct l; cbn [muc_step] in H;
    try (destruct (mcall_step_calls _ _ _ _ H) as [? [? [_ [_ [Ec [Eh [Eb _]]]]]]];
         rewrite Ec, Eh, Eb; repeat split; intros; auto; try discriminate; apply upd_nonnil; assumption);
    break_step H; injection H as <-; cbn;
    repeat match goal with |- _ /\ _ => split end; intros;
    repeat match goal with
    | E : Nat.eqb _ _ = true |- _ => apply Nat.eqb_eq in E; subst
    end;
    auto; try discriminate; try congruence;
    try (apply upd_nonnil; congruence); try apply App;
    try (left; congruence); try (right; split; congruence).
Qed.

Theorem MucInv_step s l s' : MucInv s -> muc_step fx s l = Some s' -> MucInv s'.
Proof.
  intros I H.
  pose proof (muc_step_fields s l s' H) as F.
  destruct (muc_step_join s l s' H) as (Jb & Jt & Jn & Js & Jr).
  pose proof (muc_step_gone s l s' H) as G.
  destruct I as [Ih Itl Ib It Iu Ik Ifx Io].
  assert (Cj : forall i, l = MJoinRecv i -> i = 0).
  { intros i ->. destruct (It i (Jr i eq_refl)) as [A _]. exact A. }
  assert (Cd : forall i, l = MDepartTo i \/ l = MDepartRecv i -> mu_gone s = true).
  { intros i [->| ->]; decompose [and] F; auto. }
  constructor.
  - intros c' Hc. destruct (muc_step_pred s l s' 0 c' H Hc) as [[c [Hc0 ((K & _) & _)]]|[_ [L Kn]]].
    + rewrite K. auto.
    + apply Kn. destruct (mu_calls s); [reflexivity|discriminate].
  - intros i c' Hc. destruct (muc_step_pred s l s' (S i) c' H Hc) as [[c [Hc0 ((K & _) & _)]]|[_ [L Kn]]].
    + rewrite K. eauto.
    + destruct (m_kind c') eqn:Ek; [|reflexivity]. destruct Kn as [Kn _]. specialize (Kn eq_refl).
      rewrite Kn in L. discriminate.
  - intros j Hj. destruct (Jb j Hj) as [A|[-> ->]].
    + destruct (Ib j A) as [B N]. auto.
    + split; [reflexivity|apply Js; reflexivity].
  - intros j Hj. destruct (Jt j Hj) as [A|[-> A]].
    + destruct (It j A) as [B N]. auto.
    + destruct (Ib j A) as [B N]. auto.
  - intro Hu. destruct l; decompose [and] F;
      first [congruence | apply G; apply Iu; first [congruence | tauto]].
  - intro Ht. destruct l; decompose [and] F;
      first [congruence | apply G; apply Ik; congruence | apply G; apply Iu; congruence].
  - intro Ht. destruct l; decompose [and] F; first [congruence | apply Ifx; congruence].
  - intros i c' Hc. destruct (muc_step_pred s l s' i c' H Hc) as [[c [Hc0 S]]|[P _]].
    + apply (mout_ok_succ l i c c' (mu_gone s) (mu_gone s') S (Io i c Hc0) G).
      * intros ->. specialize (Cj i eq_refl). subst i. auto.
      * intros X. apply G. apply (Cd i X).
    + unfold mout_ok. rewrite P. exact Logic.I.
Qed.

Theorem MucInv_run tr s : run (muc_step fx) muc_init tr = Some s -> MucInv s.
Proof.
  apply (invariant_run _ _ (muc_step fx) MucInv muc_init MucInv_init).
  intros s0 l s1 I H. exact (MucInv_step s0 l s1 I H).
Qed.

Lemma muc_outcome_run tr s i c o :
  run (muc_step fx) muc_init tr = Some s -> nth_error (mu_calls s) i = Some c -> m_pc c = MRet o ->
  match o with
  | MCtxErr => m_canc c = true
  | MErr => m_err c = true
  | MJoined => m_kind c = MJoin /\ i = 0
  | MLeft => m_kind c = MLeave /\ mu_gone s = true
  end.
Proof.
  intros R Hi Hp. pose proof (MucInv_run tr s R) as I.
  pose proof (mi_out _ I i c Hi) as O. unfold mout_ok in O. rewrite Hp in O.
  destruct o; auto. split; [exact O|].
  destruct i; [reflexivity|]. pose proof (mi_tail _ I i c Hi). congruence.
Qed.

(* ---- progress of the presence handler (and with it the serve loop) ---- *)

Definition muc_enabled (s : mucstate) (l : muclabel) : Prop := muc_step fx s l <> None.

Definition muc_handler_waits (s : mucstate) : Prop :=
  match mu_h s with
  | MHIdle => True
  | MHAvail => muc_enabled s MTake
  | MHTaken j =>
      exists c, nth_error (mu_calls s) j = Some c /\
      match m_pc c with
      | MSpawned => if m_canc c then muc_enabled s MSkip else muc_enabled s (MEnter j)
      | MWait => muc_enabled s (MJoinRecv j)
      | MRet _ => muc_enabled s MSkip
      end
  | MHUnavail => muc_enabled s MDepartLost \/ muc_enabled s MDepartKept \/ exists l, muc_enabled s (MDepartTo l)
  end.

Lemma muc_handler_waits_inv s : MucInv s -> muc_handler_waits s.
Proof.
  intro I. unfold muc_handler_waits, muc_enabled.
  destruct (mu_h s) as [| |j|] eqn:Eh; auto; cbn [muc_step]; rewrite ?Eh.
  - destruct (mu_joinbuf s); discriminate.
  - destruct (mi_taken _ I j Eh) as [-> N].
    destruct (mu_calls s) as [|c rest] eqn:E; [congruence|]. exists c. split; [reflexivity|].
    destruct (m_pc c) eqn:Ep.
    + destruct (m_canc c) eqn:Ec.
      * cbn [muc_step]. rewrite ?Eh, ?E. cbn. unfold mctx_done. rewrite Ec. discriminate.
      * cbn [muc_step]. unfold mcall_step. rewrite ?E. cbn. rewrite Ep. discriminate.
    + cbn [muc_step]. rewrite ?Eh, ?E. cbn. rewrite Ep. discriminate.
    + cbn [muc_step]. rewrite ?Eh, ?E. cbn. unfold mctx_done. rewrite Ep. cbn.
      rewrite orb_true_r. discriminate.
  - destruct (mu_dtok s) eqn:Et.
    + left. rewrite (mi_fx _ I Et). discriminate.
    + destruct (existsb waiting_leave (mu_calls s)) eqn:Ex.
      * right. right. apply existsb_exists in Ex. destruct Ex as [x [Hin Hw]].
        apply In_nth_error in Hin. destruct Hin as [l Hl]. exists l.
        cbn [muc_step]. rewrite ?Eh, Hl, Hw, ?Et. discriminate.
      * destruct fx; [right; left|left]; cbn; discriminate.
Qed.

Lemma muc_handler_waits_run tr s : run (muc_step fx) muc_init tr = Some s -> muc_handler_waits s.
Proof. intro R. apply muc_handler_waits_inv. exact (MucInv_run tr s R). Qed.

(* a call never gets stuck on its own *)
Lemma muc_call_progress s i c :
  nth_error (mu_calls s) i = Some c ->
  match m_pc c with
  | MSpawned => muc_enabled s (MEnter i)
  | MWait => (m_canc c = true -> muc_enabled s (MCtx i)) /\ (m_err c = true -> muc_enabled s (MErrRecv i))
  | MRet _ => True
  end.
Proof.
  intro Hi. unfold muc_enabled. destruct (m_pc c) eqn:Ep; auto; cbn [muc_step]; unfold mcall_step; rewrite Hi, Ep.
  - discriminate.
  - split; intros ->; discriminate.
Qed.

(* ---- a Leave call that nothing but its own context or an error reply can end ---- *)

(* Leave call i sits in its select, the room's entry is gone, the handler is
   idle and no notification is buffered *)
Definition leave_stuck (s : mucstate) (i : nat) : Prop :=
  mu_h s = MHIdle /\ mu_gone s = true /\ mu_dtok s = false /\
  exists c, nth_error (mu_calls s) i = Some c /\ m_kind c = MLeave /\ m_pc c = MWait /\
            m_canc c = false /\ m_err c = false.

Lemma leave_stuck_step s l s' i :
  leave_stuck s i -> l <> MCancel i -> l <> MErrReply i -> muc_step fx s l = Some s' -> leave_stuck s' i.
Proof.
  intros (Eh & Eg & Et & c & Hi & Ek & Ep & Ec & Ee) N1 N2 H.
  pose proof (muc_step_fields s l s' H) as F.
  destruct (muc_step_succ s l s' i c H Hi) as [c' [Hi' ((K & _) & Cc & Ce & P)]].
  assert (Hh : mu_h s' = MHIdle /\ mu_gone s' = true /\ mu_dtok s' = false /\
               m_pc c' = MWait /\ m_canc c' = false /\ m_err c' = false).
  { destruct l; cbn [muc_step] in H;
      try (destruct (mcall_step_calls _ _ _ _ H) as [x [x' [Hk [Hf [Ecs [Eh' [_ [Eg' [Et' _]]]]]]]]];
           rewrite Ecs in Hi';
           split; [congruence|]; split; [congruence|]; split; [congruence|];
           destruct (nth_upd_inv _ _ _ _ _ _ Hk Hi') as [[-> ->]|[Nk Hy]];
           [rewrite Hk in Hi; injection Hi as ->; cbv beta in Hf;
            repeat match type of Hf with context [match ?y with _ => _ end] => destruct y eqn:?; try discriminate end;
            try (injection Hf as <-; cbn; repeat split; congruence); congruence
           |rewrite Hi in Hy; injection Hy as <-; repeat split; assumption]);
      try (rewrite Eh in H; discriminate).
    - destruct (mu_calls s); [destruct (nth_nil _ _ Hi)|discriminate].
    - destruct (mu_calls s) eqn:E; [discriminate|]. rewrite <- E in *. injection H as <-. cbn in *.
      rewrite (nth_app_old _ _ _ _ Hi) in Hi'. injection Hi' as <-. repeat split; assumption.
    - rewrite Eh in H. destruct (mu_calls s); try discriminate. rewrite Eg in H. discriminate.
    - rewrite Eh in H. destruct (mu_calls s); try discriminate. rewrite Eg in H. discriminate.
    - destruct (nth_error (mu_calls s) l) as [x|]; [|discriminate].
      rewrite Et, andb_false_r in H. discriminate. }
  destruct Hh as (A & B & C & D & E & G).
  repeat split; auto. exists c'. repeat split; auto. congruence.
Qed.

Lemma leave_stuck_run tr : forall s s' i,
  leave_stuck s i -> ~ In (MCancel i) tr -> ~ In (MErrReply i) tr ->
  run (muc_step fx) s tr = Some s' -> leave_stuck s' i.
Proof.
  induction tr as [|l tr IH]; intros s s' i St N1 N2 R; cbn in R.
  - injection R as <-. exact St.
  - destruct (muc_step fx s l) as [s1|] eqn:E; [|discriminate].
    apply (IH s1 s' i); auto.
    + eapply leave_stuck_step; eauto; intros ->; [apply N1|apply N2]; left; reflexivity.
    + intro A. apply N1. right. exact A.
    + intro A. apply N2. right. exact A.
Qed.

(* where a Leave call becomes "left" *)
Lemma left_origin s l s' i c' :
  muc_step fx s l = Some s' -> nth_error (mu_calls s') i = Some c' -> m_pc c' = MRet MLeft ->
  (exists c, nth_error (mu_calls s) i = Some c /\ m_pc c = MRet MLeft) \/ l = MDepartTo i \/ l = MDepartRecv i.
Proof.
  intros H Hi Hp. destruct (muc_step_pred s l s' i c' H Hi) as [[c [Hc (_ & _ & _ & P)]]|[P _]]; [|congruence].
  destruct P as [P|[P|[P|[P|[P|P]]]]].
  - left. exists c. split; [exact Hc|congruence].
  - destruct P as (_ & P). congruence.
  - destruct P as (_ & P & _). congruence.
  - destruct P as (_ & P & _). congruence.
  - destruct P as (_ & P & _). congruence.
  - destruct P as (_ & _ & L & _). right. exact L.
Qed.

Lemma left_persist s l s' i c :
  muc_step fx s l = Some s' -> nth_error (mu_calls s) i = Some c -> m_pc c = MRet MLeft ->
  exists c', nth_error (mu_calls s') i = Some c' /\ m_pc c' = MRet MLeft /\ m_kind c' = m_kind c.
Proof.
  intros H Hi Hp. destruct (muc_step_succ s l s' i c H Hi) as [c' [Hc S]].
  exists c'. split; [exact Hc|]. split; [eapply mcall_succ_ret; eauto|apply S].
Qed.

Lemma depart_step_calls s l s' i :
  muc_step fx s l = Some s' -> l = MDepartTo i \/ l = MDepartRecv i ->
  exists x, nth_error (mu_calls s) i = Some x /\ waiting_leave x = true /\
            mu_calls s' = upd (mu_calls s) i (set_mpc x (MRet MLeft)).
Proof.
  intros H [->| ->]; cbn [muc_step] in H; break_step H; injection H as <-; cbn;
    match goal with E : _ && _ = true |- _ => apply andb_prop in E; destruct E end; eauto.
Qed.

Lemma startleave_calls s s' :
  muc_step fx s MStartLeave = Some s' ->
  mu_calls s' = mu_calls s ++ [mkmcall MLeave false MSpawned false (negb (mu_gone s))].
Proof.
  intro H. cbn [muc_step] in H. destruct (mu_calls s) eqn:E; [discriminate|]. rewrite <- E in H |- *.
  injection H as <-. reflexivity.
Qed.

End Fx.

(* ---- the pinned design loses the notification ---- *)

Definition lost_depart_trace : list muclabel :=
  [MStartJoin; MEnter 0; MAvailArrive; MTake; MJoinRecv 0; MStartLeave; MUnavailArrive; MDepartLost; MEnter 1].

Lemma muc_lost_depart_pinned :
  exists s, run (muc_step false) muc_init lost_depart_trace = Some s /\ leave_stuck s 1 /\ mu_lost s = 1 /\
    forall tr s', ~ In (MCancel 1) tr -> ~ In (MErrReply 1) tr -> run (muc_step false) s tr = Some s' ->
      exists c, nth_error (mu_calls s') 1 = Some c /\ m_pc c = MWait.
Proof.
  eexists. split; [vm_compute; reflexivity|]. split.
  - repeat split. eexists. split; [reflexivity|]. repeat split.
  - split; [reflexivity|]. intros tr s' N1 N2 R.
    assert (St : leave_stuck (mkmuc [mkmcall MJoin false (MRet MJoined) false true; mkmcall MLeave false MWait false true]
                                    None MHIdle 0 1 true false 0) 1).
    { repeat split. eexists. split; [reflexivity|]. repeat split. }
    destruct (leave_stuck_run false tr _ s' 1 St N1 N2 R) as (_ & _ & _ & c & Hc & _ & Hp & _). eauto.
Qed.

(* the same schedule on the code: the notification is kept and taken *)
Lemma muc_depart_kept_then_taken :
  exists s c, run (muc_step true) muc_init
    [MStartJoin; MEnter 0; MAvailArrive; MTake; MJoinRecv 0; MStartLeave; MUnavailArrive; MDepartKept; MEnter 1; MDepartRecv 1] = Some s /\
    nth_error (mu_calls s) 1 = Some c /\ m_pc c = MRet MLeft /\
    run (muc_step true) muc_init lost_depart_trace = None.
Proof. eexists. eexists. split; [vm_compute; reflexivity|]. repeat split. Qed.

(* ---- the code never loses the notification (fx = true) ---- *)

Definition noleft (s : mucstate) : Prop :=
  forall i c, nth_error (mu_calls s) i = Some c -> m_pc c <> MRet MLeft.

(* the room's unavailable presence has been handled completely *)
Definition settled (s : mucstate) : Prop := mu_gone s = true /\ mu_h s <> MHUnavail.

(* a Leave call that started after the departure was handled *)
Definition late_leave (s : mucstate) : Prop :=
  exists j c, nth_error (mu_calls s) j = Some c /\ m_kind c = MLeave /\ m_pre c = false.

(* there is exactly one notification, and it is in exactly one place *)
Inductive tok_state (s : mucstate) : Prop :=
| TPending : ~ settled s -> mu_dtok s = false -> noleft s -> mu_drained s = 0 -> tok_state s
| TKept : settled s -> mu_dtok s = true -> noleft s -> mu_drained s = 0 -> tok_state s
| TLeft l c : settled s -> mu_dtok s = false -> mu_drained s = 0 ->
    nth_error (mu_calls s) l = Some c -> m_pc c = MRet MLeft -> m_kind c = MLeave ->
    (forall j c', nth_error (mu_calls s) j = Some c' -> m_pc c' = MRet MLeft -> j = l) -> tok_state s
| TDrained : settled s -> mu_dtok s = false -> noleft s -> mu_drained s = 1 -> late_leave s -> tok_state s.

Definition TokInv (s : mucstate) : Prop := MucInv true s /\ mu_lost s = 0 /\ tok_state s.

Lemma TokInv_init : TokInv muc_init.
Proof.
  split; [apply MucInv_init|]. split; [reflexivity|].
  apply TPending; cbn; auto.
  - intros [A _]. discriminate.
  - intros i c H. destruct (nth_nil _ _ H).
Qed.

Lemma noleft_step s l s' :
  muc_step true s l = Some s' -> noleft s -> (forall i, l <> MDepartTo i /\ l <> MDepartRecv i) -> noleft s'.
Proof.
  intros H N L i c' Hi Hp. destruct (left_origin true s l s' i c' H Hi Hp) as [[c [Hc Hl]]|[E|E]].
  - exact (N i c Hc Hl).
  - exact (proj1 (L i) E).
  - exact (proj2 (L i) E).
Qed.

Lemma late_leave_step s l s' : muc_step true s l = Some s' -> late_leave s -> late_leave s'.
Proof.
  intros H (j & c & Hj & K & P). destruct (muc_step_succ true s l s' j c H Hj) as [c' [Hc ((K' & P') & _)]].
  exists j, c'. repeat split; congruence.
Qed.

(* a step that is neither the handling of the unavailable presence nor a take *)
Lemma tok_frame s l s' :
  muc_step true s l = Some s' -> tok_state s ->
  (forall i, l <> MDepartTo i /\ l <> MDepartRecv i) ->
  (settled s' <-> settled s) -> mu_dtok s' = mu_dtok s -> mu_drained s' = mu_drained s ->
  tok_state s'.
Proof.
  intros H T L Es Et Ed. destruct T as [A B C D|A B C D|l0 c A B D Hl Hp Hk U|A B C D E].
  - apply TPending; try congruence; [tauto|eapply noleft_step; eauto].
  - apply TKept; try congruence; [tauto|eapply noleft_step; eauto].
  - destruct (left_persist true s l s' l0 c H Hl Hp) as [c' [Hc [Hp' Hk']]].
    apply (TLeft s' l0 c'); try congruence; [tauto|].
    intros j c2 Hj Hp2. destruct (left_origin true s l s' j c2 H Hj Hp2) as [[c3 [Hc3 Hl3]]|[E|E]].
    + exact (U j c3 Hc3 Hl3).
    + destruct (proj1 (L j) E).
    + destruct (proj2 (L j) E).
  - apply TDrained; try congruence; [tauto|eapply noleft_step; eauto|eapply late_leave_step; eauto].
Qed.

Lemma tok_take s l s' i :
  muc_step true s l = Some s' -> l = MDepartTo i \/ l = MDepartRecv i ->
  noleft s -> settled s' -> mu_dtok s' = false -> mu_drained s' = 0 -> tok_state s'.
Proof.
  intros H L N A B D. destruct (depart_step_calls true s l s' i H L) as [x [Hx [Hw Ec]]].
  assert (Hk : m_kind x = MLeave) by (unfold waiting_leave in Hw; destruct (m_kind x); [discriminate|reflexivity]).
  apply (TLeft s' i (set_mpc x (MRet MLeft))); auto.
  - rewrite Ec. eapply nth_upd_eq; eauto.
  - intros j c2 Hj Hp2. destruct (left_origin true s l s' j c2 H Hj Hp2) as [[c3 [Hc3 Hl3]]|[E|E]].
    + destruct (N j c3 Hc3 Hl3).
    + destruct L as [L|L]; congruence.
    + destruct L as [L|L]; congruence.
Qed.

Theorem TokInv_step s l s' : TokInv s -> muc_step true s l = Some s' -> TokInv s'.
Proof.
  intros (I & Lo & T) H.
  pose proof (muc_step_fields true s l s' H) as F.
  pose proof (MucInv_step true s l s' I H) as I'.
  assert (Frame : (forall i, l <> MDepartTo i /\ l <> MDepartRecv i) ->
                  mu_gone s' = mu_gone s -> (mu_h s' = MHUnavail <-> mu_h s = MHUnavail) ->
                  (settled s' <-> settled s)).
  { intros _ Eg Eh. unfold settled. rewrite Eg. tauto. }
  split; [exact I'|].
  destruct l; decompose [and] F; clear F;
    try (split; [congruence|];
         apply (tok_frame s _ s' H T); [intros; split; discriminate|apply Frame; [intros; split; discriminate|congruence|tauto]|congruence|congruence]).
  - (* MStartLeave *)
    split; [congruence|].
    assert (Es : settled s' <-> settled s) by (unfold settled; replace (mu_gone s') with (mu_gone s) by congruence; replace (mu_h s') with (mu_h s) by congruence; tauto).
    pose proof (startleave_calls true s s' H) as Ec.
    destruct (mu_dtok s) eqn:Et.
    + destruct T as [A B C D|A B C D|l0 c A B D Hl Hp Hk U|A B C D E]; try congruence.
      apply TDrained; try tauto; try congruence.
      * eapply noleft_step; eauto. intros; split; discriminate.
      * exists (length (mu_calls s)). eexists. rewrite Ec. split.
        -- rewrite nth_error_app2 by apply Nat.le_refl. rewrite Nat.sub_diag. reflexivity.
        -- cbn. split; [reflexivity|]. destruct A as [A _]. rewrite A. reflexivity.
    + apply (tok_frame s _ s' H T); [intros; split; discriminate|exact Es|congruence|congruence].
  - (* MUnavailArrive *)
    split; [congruence|].
    destruct T as [A B C D|[A _] B C D|l0 c [A _] B D Hl Hp Hk U|[A _] B C D E]; try congruence.
    apply TPending; try congruence.
    + intros [_ X]. congruence.
    + eapply noleft_step; eauto. intros; split; discriminate.
  - (* MDepartTo *)
    split; [congruence|].
    assert (Ns : ~ settled s) by (intros [_ X]; congruence).
    destruct T as [A B C D|A B C D|l0 c A B D Hl Hp Hk U|A B C D E]; try tauto.
    eapply (tok_take s _ s' _ H); [left; reflexivity|..]; auto; try congruence.
    split; [replace (mu_gone s') with (mu_gone s) by congruence; apply (mi_unavail _ _ I); assumption|congruence].
  - (* MDepartKept *)
    split; [congruence|].
    assert (Ns : ~ settled s) by (intros [_ X]; congruence).
    destruct T as [A B C D|A B C D|l0 c A B D Hl Hp Hk U|A B C D E]; try tauto.
    apply TKept; try congruence.
    + split; [replace (mu_gone s') with (mu_gone s) by congruence; apply (mi_unavail _ _ I); assumption|congruence].
    + eapply noleft_step; eauto. intros; split; discriminate.
  - (* MDepartLost: not enabled, the buffer is empty while the presence is being handled *)
    exfalso. assert (Ns : ~ settled s) by (intros [_ X]; congruence).
    destruct T as [A B C D|A B C D|l0 c A B D Hl Hp Hk U|A B C D E]; try tauto.
    match goal with X : true = true -> mu_dtok s = true |- _ => rewrite (X eq_refl) in B end. discriminate.
  - (* MDepartRecv *)
    split; [congruence|].
    destruct T as [A B C D|A B C D|l0 c A B D Hl Hp Hk U|A B C D E]; try congruence.
    eapply (tok_take s _ s' _ H); [right; reflexivity|..]; auto; try congruence.
    destruct A as [A1 A2]. split; congruence.
Qed.

Theorem TokInv_run tr s : run (muc_step true) muc_init tr = Some s -> TokInv s.
Proof.
  apply (invariant_run _ _ (muc_step true) TokInv muc_init TokInv_init).
  intros s0 l s1 I H. exact (TokInv_step s0 l s1 I H).
Qed.

Lemma muc_never_lost_run tr s : run (muc_step true) muc_init tr = Some s -> mu_lost s = 0.
Proof. intro R. apply (TokInv_run tr s R). Qed.

(* Once the room's unavailable presence has been handled, the notification is
   buffered (any Leave call in its select can take it), or exactly one Leave
   call has returned with it, or a Leave call that started afterwards discarded
   it as stale. *)
Lemma muc_leave_run tr s :
  run (muc_step true) muc_init tr = Some s -> settled s ->
  (mu_dtok s = true /\ noleft s) \/
  (exists l c, nth_error (mu_calls s) l = Some c /\ m_pc c = MRet MLeft /\ m_kind c = MLeave /\
               forall j c', nth_error (mu_calls s) j = Some c' -> m_pc c' = MRet MLeft -> j = l) \/
  (mu_drained s = 1 /\ late_leave s).
Proof.
  intros R St. destruct (TokInv_run tr s R) as (_ & _ & T).
  destruct T as [A B C D|A B C D|l0 c A B D Hl Hp Hk U|A B C D E]; [tauto|auto| |auto].
  right. left. exists l0, c. auto.
Qed.

(* with a single Leave call, started before the departure: it has returned, or
   the notification waits for it *)
Lemma muc_single_leave_run tr s c :
  run (muc_step true) muc_init tr = Some s -> settled s ->
  length (mu_calls s) = 2 -> nth_error (mu_calls s) 1 = Some c -> m_pre c = true ->
  m_pc c = MRet MLeft \/ mu_dtok s = true.
Proof.
  intros R St Len Hc Hp. destruct (muc_leave_run tr s R St) as [[A _]|[[l [c' [Hl [Hpc [Hk _]]]]]|[_ (j & c2 & Hj & Hk & Hpre)]]].
  - right. exact A.
  - left. destruct (TokInv_run tr s R) as (I & _).
    destruct l as [|[|l]].
    + rewrite (mi_head _ _ I c' Hl) in Hk. discriminate.
    + congruence.
    + assert (nth_error (mu_calls s) (S (S l)) = None) by (apply nth_error_None; lia). congruence.
  - exfalso. destruct (TokInv_run tr s R) as (I & _).
    destruct j as [|[|j]].
    + rewrite (mi_head _ _ I c2 Hj) in Hk. discriminate.
    + congruence.
    + assert (nth_error (mu_calls s) (S (S j)) = None) by (apply nth_error_None; lia). congruence.
Qed.

Lemma muc_depart_recv_enabled s l c :
  nth_error (mu_calls s) l = Some c -> waiting_leave c = true -> mu_dtok s = true ->
  muc_step true s (MDepartRecv l) <> None.
Proof. intros Hl Hw Ht. cbn [muc_step]. rewrite Hl, Hw, Ht. discriminate. Qed.

(* the notification is taken away from a waiting call only by a second,
   overlapping Leave call that starts after the departure was handled *)
Definition drained_trace : list muclabel :=
  [MStartJoin; MEnter 0; MAvailArrive; MTake; MJoinRecv 0; MStartLeave; MUnavailArrive; MDepartKept;
   MStartLeave; MEnter 1; MEnter 2].

Lemma muc_drained_by_later_leave :
  exists s, run (muc_step true) muc_init drained_trace = Some s /\ leave_stuck s 1 /\ leave_stuck s 2 /\
    mu_drained s = 1 /\
    forall tr s', ~ In (MCancel 1) tr -> ~ In (MErrReply 1) tr -> run (muc_step true) s tr = Some s' ->
      exists c, nth_error (mu_calls s') 1 = Some c /\ m_pc c = MWait.
Proof.
  eexists. split; [vm_compute; reflexivity|].
  assert (St : forall i, i = 1 \/ i = 2 ->
    leave_stuck (mkmuc [mkmcall MJoin false (MRet MJoined) false true; mkmcall MLeave false MWait false true;
                        mkmcall MLeave false MWait false false] None MHIdle 0 0 true false 1) i).
  { intros i [->| ->]; repeat split; eexists; (split; [reflexivity|]); repeat split. }
  split; [apply St; auto|]. split; [apply St; auto|]. split; [reflexivity|].
  intros tr s' N1 N2 R.
  destruct (leave_stuck_run true tr _ s' 1 (St 1 (or_introl eq_refl)) N1 N2 R) as (_ & _ & _ & c & Hc & _ & Hp & _). eauto.
Qed.
