(* C06/ModelExt.v — executable models of the extension helpers that block on a
   correlated reply: delivery receipts (receipts/receipts.go), MUC join/leave
   (muc/muc.go, muc/room.go) and the in-band bytestream reader
   (ibb/conn.go, ibb/ibb.go, ibb/listen.go).  Same shape as C06/Model.v:
   labelled transition systems whose steps are at least as fine as the yield
   points, plus the case records the harness writes. *)
From Coq Require Import List Arith NArith Bool.
Import ListNotations.
From XV Require Import lib.Lts C06.Model.

(* ====================================================================== *)
(* Receipts: Handler.SendMessageElement / Handler.HandleMessage            *)
(* ====================================================================== *)

(* [fx = true]: the repaired code (channel of capacity 1, never closed, entry
   removed on every return path).  [fx = false]: the pinned code (unbuffered
   channel, blocking send by the handler, close by a cancelled sender, entry
   left behind when SendElement fails). *)

Inductive xout := XOk | XCtxErr | XSendErr.

Inductive xpc :=
| XReg               (* entry stored; before SendElement *)
| XWait              (* sent; at the select on the channel / ctx.Done *)
| XCtxP              (* chose ctx.Done; entry not yet removed *)
| XSendErrP          (* SendElement failed; before returning *)
| XRet (o : xout).

Record snd := mksnd {
  x_id : N; x_canc : bool; x_pc : xpc;
  x_taken : bool;     (* the handler removed this sender's entry (ghost) *)
  x_tok : bool;       (* the handler has sent on this sender's channel *)
  x_closed : bool }.  (* the channel was closed (pinned code only) *)

Inductive hpc :=
| HIdle
| HRead (id : N) (q : nat)      (* a <received id=.../> element is being handled *)
| HNotify (i : nat) (id : N) (q : nat)   (* entry of sender i taken; before the channel send *)
| HUnh (id : N) (q : nat)       (* no entry; before calling Unhandled *)
| HPanic.                       (* send on closed channel *)

Inductive rxev :=
| RNotified (q : nat) (id : N) (i : nat)
| RUnhandled (q : nat) (id : N).

Definition rx_seq (e : rxev) : nat := match e with RNotified q _ _ => q | RUnhandled q _ => q end.

Record rxstate := mkrx {
  rx_snd : list snd;
  rx_tab : list (N * nat);
  rx_h : hpc;
  rx_arrived : nat;
  rx_hist : list rxev }.

Definition rx_init : rxstate := mkrx [] [] HIdle 0 [].

Inductive rxlabel :=
| XStart (id : N)
| XSendOk (i : nat) | XSendFail (i : nat)
| XRecv (i : nat)          (* the sender's select takes the channel; it returns nil *)
| XCtxDone (i : nat)       (* the sender's select takes ctx.Done *)
| XDereg (i : nat)         (* remove the entry (and, pinned, close the channel); return *)
| XCancel (i : nat)
| XArrive (id : N)         (* a receipt for id is passed to HandleMessage *)
| XLookup                  (* lookup and delete under the mutex *)
| XNotify                  (* the channel send *)
| XUnhandled.              (* Unhandled callback; handler returns *)

Definition is_xret (p : xpc) : bool := match p with XRet _ => true | _ => false end.

Definition set_xpc (s : snd) (p : xpc) : snd :=
  mksnd (x_id s) (x_canc s) p (x_taken s) (x_tok s) (x_closed s).

Definition rx_set_snd (s : rxstate) (l : list snd) : rxstate :=
  mkrx l (rx_tab s) (rx_h s) (rx_arrived s) (rx_hist s).

Definition snd_step (s : rxstate) (i : nat) (f : snd -> option snd) : option rxstate :=
  match nth_error (rx_snd s) i with
  | Some x => match f x with
              | Some x' => Some (rx_set_snd s (upd (rx_snd s) i x'))
              | None => None
              end
  | None => None
  end.

Definition rx_step (fx : bool) (s : rxstate) (l : rxlabel) : option rxstate :=
  match l with
  | XStart id =>
      Some (mkrx (rx_snd s ++ [mksnd id false XReg false false false])
                 (insert id (length (rx_snd s)) (rx_tab s))
                 (rx_h s) (rx_arrived s) (rx_hist s))
  | XSendOk i => snd_step s i (fun x => match x_pc x with XReg => Some (set_xpc x XWait) | _ => None end)
  | XSendFail i => snd_step s i (fun x => match x_pc x with XReg => Some (set_xpc x XSendErrP) | _ => None end)
  | XCancel i => snd_step s i (fun x => Some (mksnd (x_id x) true (x_pc x) (x_taken x) (x_tok x) (x_closed x)))
  | XCtxDone i =>
      snd_step s i (fun x => match x_pc x with
                             | XWait => if x_canc x then Some (set_xpc x XCtxP) else None
                             | _ => None
                             end)
  | XRecv i =>
      (* only the repaired code has a buffered token to take; in the pinned
         code the receive is the rendezvous performed by XNotify *)
      snd_step s i (fun x => match x_pc x with
                             | XWait => if fx && x_tok x then Some (set_xpc x (XRet XOk)) else None
                             | _ => None
                             end)
  | XDereg i =>
      match nth_error (rx_snd s) i with
      | Some x =>
          match x_pc x with
          | XCtxP =>
              Some (mkrx (upd (rx_snd s) i
                              (mksnd (x_id x) (x_canc x) (XRet XCtxErr) (x_taken x) (x_tok x) (negb fx)))
                         (remove_id (x_id x) (rx_tab s)) (rx_h s) (rx_arrived s) (rx_hist s))
          | XSendErrP =>
              Some (mkrx (upd (rx_snd s) i (set_xpc x (XRet XSendErr)))
                         (if fx then remove_id (x_id x) (rx_tab s) else rx_tab s)
                         (rx_h s) (rx_arrived s) (rx_hist s))
          | _ => None
          end
      | None => None
      end
  | XArrive id =>
      match rx_h s with
      | HIdle => Some (mkrx (rx_snd s) (rx_tab s) (HRead id (rx_arrived s)) (S (rx_arrived s)) (rx_hist s))
      | _ => None
      end
  | XLookup =>
      match rx_h s with
      | HRead id q =>
          match lookup id (rx_tab s) with
          | Some i =>
              match nth_error (rx_snd s) i with
              | Some x =>
                  Some (mkrx (upd (rx_snd s) i (mksnd (x_id x) (x_canc x) (x_pc x) true (x_tok x) (x_closed x)))
                             (remove_id id (rx_tab s)) (HNotify i id q) (rx_arrived s) (rx_hist s))
              | None => None
              end
          | None => Some (mkrx (rx_snd s) (rx_tab s) (HUnh id q) (rx_arrived s) (rx_hist s))
          end
      | _ => None
      end
  | XUnhandled =>
      match rx_h s with
      | HUnh id q => Some (mkrx (rx_snd s) (rx_tab s) HIdle (rx_arrived s) (rx_hist s ++ [RUnhandled q id]))
      | _ => None
      end
  | XNotify =>
      match rx_h s with
      | HNotify i id q =>
          match nth_error (rx_snd s) i with
          | Some x =>
              if fx then
                (* capacity 1: the send blocks only when a token is already there *)
                if x_tok x then None
                else Some (mkrx (upd (rx_snd s) i (mksnd (x_id x) (x_canc x) (x_pc x) (x_taken x) true (x_closed x)))
                                (rx_tab s) HIdle (rx_arrived s) (rx_hist s ++ [RNotified q id i]))
              else
                if x_closed x then Some (mkrx (rx_snd s) (rx_tab s) HPanic (rx_arrived s) (rx_hist s))
                else match x_pc x with
                     | XWait =>   (* rendezvous with the sender's select *)
                         Some (mkrx (upd (rx_snd s) i (mksnd (x_id x) (x_canc x) (XRet XOk) (x_taken x) true (x_closed x)))
                                    (rx_tab s) HIdle (rx_arrived s) (rx_hist s ++ [RNotified q id i]))
                     | _ => None   (* blocked: nobody receives *)
                     end
          | None => None
          end
      | _ => None
      end
  end.

(* observables *)
Inductive xcode := XNone | XCOk | XCCtx | XCSend.

Definition xcode_eqb (a b : xcode) : bool :=
  match a, b with
  | XNone, XNone | XCOk, XCOk | XCCtx, XCCtx | XCSend, XCSend => true
  | _, _ => false
  end.

Definition snd_code (x : snd) : xcode :=
  match x_pc x with
  | XRet XOk => XCOk | XRet XCtxErr => XCCtx | XRet XSendErr => XCSend | _ => XNone
  end.

Definition rx_unhandled (s : rxstate) : nat :=
  length (filter (fun e => match e with RUnhandled _ _ => true | _ => false end) (rx_hist s)).

Definition rx_hcode (s : rxstate) : nat := match rx_h s with HIdle => 0 | _ => 1 end.

Record rxcase := mkrxcase {
  rc_trace : list rxlabel; rc_codes : list xcode; rc_unhandled : nat; rc_handler : nat }.

Definition rx_case_ok (c : rxcase) : bool :=
  match run (rx_step true) rx_init (rc_trace c) with
  | Some s =>
      list_eqb xcode_eqb (map snd_code (rx_snd s)) (rc_codes c) &&
      Nat.eqb (rx_unhandled s) (rc_unhandled c) &&
      Nat.eqb (rx_hcode s) (rc_handler c)
  | None => false
  end.
