(* C06/ModelExt.v — executable models of the extension helpers that block on a
   correlated reply: delivery receipts (receipts/receipts.go), MUC join/leave
   (muc/muc.go, muc/room.go) and the in-band bytestream reader
   (ibb/conn.go, ibb/ibb.go, ibb/listen.go).  Same shape as C06/Model.v:
   labelled transition systems whose steps are at least as fine as the yield
   points, plus the case records the harness writes. *)
From Coq Require Import List Arith NArith Bool.
Import ListNotations.
From XV Require Import lib.Lts C06.Model.

(* ====================================================================== *)
(* Receipts: Handler.SendMessageElement / Handler.HandleMessage            *)
(* ====================================================================== *)

(* [fx = true]: the repaired code (channel of capacity 1, never closed, entry
   removed on every return path).  [fx = false]: the pinned code (unbuffered
   channel, blocking send by the handler, close by a cancelled sender, entry
   left behind when SendElement fails). *)

Inductive xout := XOk | XCtxErr | XSendErr.

Inductive xpc :=
| XReg               (* entry stored; before SendElement *)
| XWait              (* sent; at the select on the channel / ctx.Done *)
| XCtxP              (* chose ctx.Done; entry not yet removed *)
| XSendErrP          (* SendElement failed; before returning *)
| XRet (o : xout).

Record snd := mksnd {
  x_id : N; x_canc : bool; x_pc : xpc;
  x_taken : bool;     (* the handler removed this sender's entry (ghost) *)
  x_tok : bool;       (* the handler has sent on this sender's channel *)
  x_closed : bool }.  (* the channel was closed (pinned code only) *)

Inductive hpc :=
| HIdle
| HRead (id : N) (q : nat)      (* a <received id=.../> element is being handled *)
| HNotify (i : nat) (id : N) (q : nat)   (* entry of sender i taken; before the channel send *)
| HUnh (id : N) (q : nat)       (* no entry; before calling Unhandled *)
| HPanic.                       (* send on closed channel *)

Inductive rxev :=
| RNotified (q : nat) (id : N) (i : nat)
| RUnhandled (q : nat) (id : N).

Definition rx_seq (e : rxev) : nat := match e with RNotified q _ _ => q | RUnhandled q _ => q end.

Record rxstate := mkrx {
  rx_snd : list snd;
  rx_tab : list (N * nat);
  rx_h : hpc;
  rx_arrived : nat;
  rx_hist : list rxev }.

Definition rx_init : rxstate := mkrx [] [] HIdle 0 [].

Inductive rxlabel :=
| XStart (id : N)
| XSendOk (i : nat) | XSendFail (i : nat)
| XRecv (i : nat)          (* the sender's select takes the channel; it returns nil *)
| XCtxDone (i : nat)       (* the sender's select takes ctx.Done *)
| XDereg (i : nat)         (* remove the entry (and, pinned, close the channel); return *)
| XCancel (i : nat)
| XArrive (id : N)         (* a receipt for id is passed to HandleMessage *)
| XLookup                  (* lookup and delete under the mutex *)
| XNotify                  (* the channel send *)
| XUnhandled.              (* Unhandled callback; handler returns *)

Definition is_xret (p : xpc) : bool := match p with XRet _ => true | _ => false end.

Definition set_xpc (s : snd) (p : xpc) : snd :=
  mksnd (x_id s) (x_canc s) p (x_taken s) (x_tok s) (x_closed s).

Definition rx_set_snd (s : rxstate) (l : list snd) : rxstate :=
  mkrx l (rx_tab s) (rx_h s) (rx_arrived s) (rx_hist s).

Definition snd_step (s : rxstate) (i : nat) (f : snd -> option snd) : option rxstate :=
  match nth_error (rx_snd s) i with
  | Some x => match f x with
              | Some x' => Some (rx_set_snd s (upd (rx_snd s) i x'))
              | None => None
              end
  | None => None
  end.

Definition rx_step (fx : bool) (s : rxstate) (l : rxlabel) : option rxstate :=
  match l with
  | XStart id =>
      Some (mkrx (rx_snd s ++ [mksnd id false XReg false false false])
                 (insert id (length (rx_snd s)) (rx_tab s))
                 (rx_h s) (rx_arrived s) (rx_hist s))
  | XSendOk i => snd_step s i (fun x => match x_pc x with XReg => Some (set_xpc x XWait) | _ => None end)
  | XSendFail i => snd_step s i (fun x => match x_pc x with XReg => Some (set_xpc x XSendErrP) | _ => None end)
  | XCancel i => snd_step s i (fun x => Some (mksnd (x_id x) true (x_pc x) (x_taken x) (x_tok x) (x_closed x)))
  | XCtxDone i =>
      snd_step s i (fun x => match x_pc x with
                             | XWait => if x_canc x then Some (set_xpc x XCtxP) else None
                             | _ => None
                             end)
  | XRecv i =>
      (* only the repaired code has a buffered token to take; in the pinned
         code the receive is the rendezvous performed by XNotify *)
      snd_step s i (fun x => match x_pc x with
                             | XWait => if fx && x_tok x then Some (set_xpc x (XRet XOk)) else None
                             | _ => None
                             end)
  | XDereg i =>
      match nth_error (rx_snd s) i with
      | Some x =>
          match x_pc x with
          | XCtxP =>
              Some (mkrx (upd (rx_snd s) i
                              (mksnd (x_id x) (x_canc x) (XRet XCtxErr) (x_taken x) (x_tok x) (negb fx)))
                         (remove_id (x_id x) (rx_tab s)) (rx_h s) (rx_arrived s) (rx_hist s))
          | XSendErrP =>
              Some (mkrx (upd (rx_snd s) i (set_xpc x (XRet XSendErr)))
                         (if fx then remove_id (x_id x) (rx_tab s) else rx_tab s)
                         (rx_h s) (rx_arrived s) (rx_hist s))
          | _ => None
          end
      | None => None
      end
  | XArrive id =>
      match rx_h s with
      | HIdle => Some (mkrx (rx_snd s) (rx_tab s) (HRead id (rx_arrived s)) (S (rx_arrived s)) (rx_hist s))
      | _ => None
      end
  | XLookup =>
      match rx_h s with
      | HRead id q =>
          match lookup id (rx_tab s) with
          | Some i =>
              match nth_error (rx_snd s) i with
              | Some x =>
                  Some (mkrx (upd (rx_snd s) i (mksnd (x_id x) (x_canc x) (x_pc x) true (x_tok x) (x_closed x)))
                             (remove_id id (rx_tab s)) (HNotify i id q) (rx_arrived s) (rx_hist s))
              | None => None
              end
          | None => Some (mkrx (rx_snd s) (rx_tab s) (HUnh id q) (rx_arrived s) (rx_hist s))
          end
      | _ => None
      end
  | XUnhandled =>
      match rx_h s with
      | HUnh id q => Some (mkrx (rx_snd s) (rx_tab s) HIdle (rx_arrived s) (rx_hist s ++ [RUnhandled q id]))
      | _ => None
      end
  | XNotify =>
      match rx_h s with
      | HNotify i id q =>
          match nth_error (rx_snd s) i with
          | Some x =>
              if fx then
                (* capacity 1: the send blocks only when a token is already there *)
                if x_tok x then None
                else Some (mkrx (upd (rx_snd s) i (mksnd (x_id x) (x_canc x) (x_pc x) (x_taken x) true (x_closed x)))
                                (rx_tab s) HIdle (rx_arrived s) (rx_hist s ++ [RNotified q id i]))
              else
                if x_closed x then Some (mkrx (rx_snd s) (rx_tab s) HPanic (rx_arrived s) (rx_hist s))
                else match x_pc x with
                     | XWait =>   (* rendezvous with the sender's select *)
                         Some (mkrx (upd (rx_snd s) i (mksnd (x_id x) (x_canc x) (XRet XOk) (x_taken x) true (x_closed x)))
                                    (rx_tab s) HIdle (rx_arrived s) (rx_hist s ++ [RNotified q id i]))
                     | _ => None   (* blocked: nobody receives *)
                     end
          | None => None
          end
      | _ => None
      end
  end.

(* observables *)
Inductive xcode := XNone | XCOk | XCCtx | XCSend.

Definition xcode_eqb (a b : xcode) : bool :=
  match a, b with
  | XNone, XNone | XCOk, XCOk | XCCtx, XCCtx | XCSend, XCSend => true
  | _, _ => false
  end.

Definition snd_code (x : snd) : xcode :=
  match x_pc x with
  | XRet XOk => XCOk | XRet XCtxErr => XCCtx | XRet XSendErr => XCSend | _ => XNone
  end.

Definition rx_unhandled (s : rxstate) : nat :=
  length (filter (fun e => match e with RUnhandled _ _ => true | _ => false end) (rx_hist s)).

Definition rx_hcode (s : rxstate) : nat := match rx_h s with HIdle => 0 | _ => 1 end.

Record rxcase := mkrxcase {
  rc_trace : list rxlabel; rc_codes : list xcode; rc_unhandled : nat; rc_handler : nat }.

Definition rx_case_ok (c : rxcase) : bool :=
  match run (rx_step true) rx_init (rc_trace c) with
  | Some s =>
      list_eqb xcode_eqb (map snd_code (rx_snd s)) (rc_codes c) &&
      Nat.eqb (rx_unhandled s) (rc_unhandled c) &&
      Nat.eqb (rx_hcode s) (rc_handler c)
  | None => false
  end.

(* ====================================================================== *)
(* MUC: Channel.JoinPresence / LeavePresence and Client.HandlePresence     *)
(* ====================================================================== *)

(* [fx = true]: the code after "fix: muc: do not lose the departure
   notification when it arrives before Leave waits for it" (the depart channel
   has capacity 1, LeavePresence drops a stale token when it starts).
   [fx = false]: the pinned design (unbuffered depart channel).

   One Channel: its single join attempt (Client.JoinPresence creates the
   channel and calls Channel.JoinPresence once) and any number of Leave calls.
   The goroutine each call starts to send its presence and to wait for an
   error reply is a call of C06/Model.v; here it appears only through
   [MErrReply c]: "an error reply for c's presence was handed to that
   goroutine, which now offers it on errChan (or gives up on ctx.Done)". *)

Inductive mkind := MJoin | MLeave.
Inductive mout := MJoined | MLeft | MErr | MCtxErr.
Inductive mpc :=
| MSpawned          (* goroutine started; before the final select (yield point) *)
| MWait             (* in the final select: errChan / joinChan or depart / ctx.Done *)
| MRet (o : mout).

Record mcall := mkmcall {
  m_kind : mkind; m_canc : bool; m_pc : mpc;
  m_err : bool;    (* error reply offered on errChan *)
  m_pre : bool }.  (* ghost: the call started before the room's unavailable presence was handled *)

Inductive mhpc :=
| MHIdle
| MHAvail            (* available presence of a managed room: at `select { case c := <-channel.join` *)
| MHTaken (j : nat)  (* joinCtx of call j taken from the buffer; at the inner select *)
| MHUnavail.         (* unavailable presence: entry deleted; before the non-blocking depart send *)

Record mucstate := mkmuc {
  mu_calls : list mcall;
  mu_joinbuf : option nat;     (* channel.join, capacity 1: the joinCtx of call j, if any *)
  mu_h : mhpc;
  mu_user : nat;               (* HandleUserPresence invocations *)
  mu_lost : nat;               (* depart notifications that were dropped *)
  mu_gone : bool;              (* the room's entry was deleted (unavailable presence handled) *)
  mu_dtok : bool;              (* a notification is buffered in channel.depart (fx only) *)
  mu_drained : nat }.          (* buffered notifications discarded by a starting Leave call *)

Definition muc_init : mucstate := mkmuc [] None MHIdle 0 0 false false 0.

Inductive muclabel :=
| MStartJoin            (* JoinPresence: joinCtx put into the buffer, goroutine started *)
| MStartLeave           (* LeavePresence: (fx: stale token dropped,) goroutine started *)
| MEnter (c : nat)      (* the call enters its final select *)
| MCancel (c : nat)
| MCtx (c : nat)        (* the call's select takes ctx.Done *)
| MErrReply (c : nat)   (* an error reply reached the call's goroutine *)
| MErrRecv (c : nat)    (* the call's select takes errChan *)
| MAvailArrive          (* the handler is called with an available presence of the room *)
| MTake                 (* `case c := <-channel.join` or `default` *)
| MJoinRecv (j : nat)   (* rendezvous on joinChan *)
| MSkip                 (* inner select takes c.done: goto selectJoin *)
| MUnavailArrive
| MDepartTo (l : nat)   (* the non-blocking send finds Leave call l in its select *)
| MDepartKept           (* ... finds nobody but room in the buffer (fx) *)
| MDepartLost           (* ... is dropped: default branch *)
| MDepartRecv (l : nat). (* Leave call l, in its select, takes the buffered notification *)

Definition is_mret (p : mpc) : bool := match p with MRet _ => true | _ => false end.

Definition set_mpc (c : mcall) (p : mpc) : mcall := mkmcall (m_kind c) (m_canc c) p (m_err c) (m_pre c).

Definition muc_set_calls (s : mucstate) (l : list mcall) : mucstate :=
  mkmuc l (mu_joinbuf s) (mu_h s) (mu_user s) (mu_lost s) (mu_gone s) (mu_dtok s) (mu_drained s).
Definition muc_set_h (s : mucstate) (h : mhpc) : mucstate :=
  mkmuc (mu_calls s) (mu_joinbuf s) h (mu_user s) (mu_lost s) (mu_gone s) (mu_dtok s) (mu_drained s).

Definition mcall_step (s : mucstate) (i : nat) (f : mcall -> option mcall) : option mucstate :=
  match nth_error (mu_calls s) i with
  | Some c => match f c with
              | Some c' => Some (muc_set_calls s (upd (mu_calls s) i c'))
              | None => None
              end
  | None => None
  end.

(* the derived context of a call is done when the caller's context is
   cancelled or the call has returned (deferred cancel) *)
Definition mctx_done (c : mcall) : bool := m_canc c || is_mret (m_pc c).

Definition waiting_leave (c : mcall) : bool :=
  match m_kind c, m_pc c with MLeave, MWait => true | _, _ => false end.

Definition muc_step (fx : bool) (s : mucstate) (l : muclabel) : option mucstate :=
  match l with
  | MStartJoin =>
      match mu_calls s, mu_joinbuf s with
      | [], None => Some (mkmuc [mkmcall MJoin false MSpawned false true] (Some 0) (mu_h s) (mu_user s)
                                (mu_lost s) (mu_gone s) (mu_dtok s) (mu_drained s))
      | _, _ => None           (* one join attempt per channel in this model *)
      end
  | MStartLeave =>
      match mu_calls s with
      | [] => None             (* a Channel exists only through a join attempt *)
      | _ => Some (mkmuc (mu_calls s ++ [mkmcall MLeave false MSpawned false (negb (mu_gone s))])
                         (mu_joinbuf s) (mu_h s) (mu_user s) (mu_lost s) (mu_gone s)
                         false (if mu_dtok s then S (mu_drained s) else mu_drained s))
      end
  | MEnter c => mcall_step s c (fun x => match m_pc x with MSpawned => Some (set_mpc x MWait) | _ => None end)
  | MCancel c => mcall_step s c (fun x => Some (mkmcall (m_kind x) true (m_pc x) (m_err x) (m_pre x)))
  | MCtx c => mcall_step s c (fun x => match m_pc x with
                                       | MWait => if m_canc x then Some (set_mpc x (MRet MCtxErr)) else None
                                       | _ => None
                                       end)
  | MErrReply c =>
      mcall_step s c (fun x => if is_mret (m_pc x) || m_err x then None
                               else Some (mkmcall (m_kind x) (m_canc x) (m_pc x) true (m_pre x)))
  | MErrRecv c => mcall_step s c (fun x => match m_pc x with
                                           | MWait => if m_err x then Some (set_mpc x (MRet MErr)) else None
                                           | _ => None
                                           end)
  | MAvailArrive =>
      (* presences of a room that is not (or no longer) managed are ignored *)
      match mu_h s, mu_calls s with
      | MHIdle, _ :: _ => if mu_gone s then None else Some (muc_set_h s MHAvail)
      | _, _ => None
      end
  | MTake =>
      match mu_h s with
      | MHAvail =>
          match mu_joinbuf s with
          | Some j => Some (mkmuc (mu_calls s) None (MHTaken j) (mu_user s) (mu_lost s) (mu_gone s) (mu_dtok s) (mu_drained s))
          | None => Some (mkmuc (mu_calls s) None MHIdle (S (mu_user s)) (mu_lost s) (mu_gone s) (mu_dtok s) (mu_drained s))
          end
      | _ => None
      end
  | MJoinRecv j =>
      match mu_h s with
      | MHTaken j' =>
          if Nat.eqb j j' then
            match nth_error (mu_calls s) j with
            | Some x => match m_pc x with
                        | MWait => Some (mkmuc (upd (mu_calls s) j (set_mpc x (MRet MJoined)))
                                               (mu_joinbuf s) MHIdle (mu_user s) (mu_lost s) (mu_gone s) (mu_dtok s) (mu_drained s))
                        | _ => None
                        end
            | None => None
            end
          else None
      | _ => None
      end
  | MSkip =>
      match mu_h s with
      | MHTaken j =>
          match nth_error (mu_calls s) j with
          | Some x => if mctx_done x then Some (muc_set_h s MHAvail) else None
          | None => None
          end
      | _ => None
      end
  | MUnavailArrive =>
      match mu_h s, mu_calls s with
      | MHIdle, _ :: _ =>
          if mu_gone s then None
          else Some (mkmuc (mu_calls s) (mu_joinbuf s) MHUnavail (mu_user s) (mu_lost s) true (mu_dtok s) (mu_drained s))
      | _, _ => None
      end
  | MDepartTo l =>
      (* a receiver blocked in its select: the buffer is empty *)
      match mu_h s with
      | MHUnavail =>
          match nth_error (mu_calls s) l with
          | Some x => if waiting_leave x && negb (mu_dtok s)
                      then Some (mkmuc (upd (mu_calls s) l (set_mpc x (MRet MLeft)))
                                       (mu_joinbuf s) MHIdle (mu_user s) (mu_lost s) (mu_gone s) (mu_dtok s) (mu_drained s))
                      else None
          | None => None
          end
      | _ => None
      end
  | MDepartKept =>
      match mu_h s with
      | MHUnavail =>
          if fx && negb (mu_dtok s) && negb (existsb waiting_leave (mu_calls s))
          then Some (mkmuc (mu_calls s) (mu_joinbuf s) MHIdle (mu_user s) (mu_lost s) (mu_gone s) true (mu_drained s))
          else None
      | _ => None
      end
  | MDepartLost =>
      match mu_h s with
      | MHUnavail =>
          (* pinned: nobody is receiving; repaired: the buffer is already full *)
          if (if fx then mu_dtok s else negb (existsb waiting_leave (mu_calls s)))
          then Some (mkmuc (mu_calls s) (mu_joinbuf s) MHIdle (mu_user s) (S (mu_lost s)) (mu_gone s) (mu_dtok s) (mu_drained s))
          else None
      | _ => None
      end
  | MDepartRecv l =>
      match nth_error (mu_calls s) l with
      | Some x => if waiting_leave x && mu_dtok s
                  then Some (mkmuc (upd (mu_calls s) l (set_mpc x (MRet MLeft)))
                                   (mu_joinbuf s) (mu_h s) (mu_user s) (mu_lost s) (mu_gone s) false (mu_drained s))
                  else None
      | None => None
      end
  end.

Inductive mcode := MCNone | MCJoined | MCLeft | MCErr | MCCtx.
Definition mcode_eqb (a b : mcode) : bool :=
  match a, b with
  | MCNone, MCNone | MCJoined, MCJoined | MCLeft, MCLeft | MCErr, MCErr | MCCtx, MCCtx => true
  | _, _ => false
  end.
Definition mcall_code (c : mcall) : mcode :=
  match m_pc c with
  | MRet MJoined => MCJoined | MRet MLeft => MCLeft | MRet MErr => MCErr | MRet MCtxErr => MCCtx
  | _ => MCNone
  end.

Record muccase := mkmuccase { mc_trace : list muclabel; mc_codes : list mcode; mc_user : nat; mc_handler : nat }.

Definition muc_case_ok (c : muccase) : bool :=
  match run (muc_step true) muc_init (mc_trace c) with
  | Some s => list_eqb mcode_eqb (map mcall_code (mu_calls s)) (mc_codes c) &&
              Nat.eqb (mu_user s) (mc_user c) &&
              Nat.eqb (match mu_h s with MHIdle => 0 | _ => 1 end) (mc_handler c)
  | None => false
  end.

(* ====================================================================== *)
(* IBB, pinned design: Conn.Read / handlePayload / Conn.Close /            *)
(* closeNoNotify as they were before the repairs (unbuffered readReady,    *)
(* single test in Read, local Close leaves the stream registered).  Kept   *)
(* for the _pinned_refuted witnesses; the code is modelled by [ibbf_step]. *)
(* ====================================================================== *)

(* One Conn.  Only what the reader's wait depends on is modelled: the number
   of buffered bytes, whether readReady is closed, where the (single) reader
   is, and where the handler is. *)

Inductive rdpc :=
| RdNone                     (* no Read call in progress *)
| RdChecked                  (* saw an empty buffer, released the lock; before `<-c.readReady` *)
| RdWaiting                  (* blocked in `<-c.readReady` *)
| RdWoken.                   (* received; before re-locking and readBuf.Read *)

Inductive rdout := RdData (n : nat) | RdEOF.

Inductive ihpc :=
| IHIdle
| IHNotify                   (* data appended; before the non-blocking send on readReady *)
| IHPanic.                   (* send on closed channel *)

Record ibbstate := mkibb {
  ib_buf : nat;
  ib_closed : bool;            (* readReady closed *)
  ib_remote_closed : bool;     (* closed by the peer (closeNoNotify): stream removed from the table *)
  ib_rd : rdpc;
  ib_h : ihpc;
  ib_outs : list rdout;        (* results of completed Read calls, in order *)
  ib_lost : nat }.             (* notifications that found no waiting reader *)

Definition ibb_init : ibbstate := mkibb 0 false false RdNone IHIdle [] 0.

Inductive ibblabel :=
| IRead (cap : nat)      (* Read(b) with len(b) = cap > 0 begins: returns at once if data is buffered *)
| IWait                  (* the reader blocks on readReady (or passes if it is closed) *)
| IWake (cap : nat)      (* the woken reader re-locks and reads *)
| IData (n : nat)        (* a data packet of n decoded bytes is appended by the handler *)
| INotify                (* the handler's non-blocking send *)
| ICloseRemote           (* close element from the peer: closeNoNotify *)
| ICloseLocal.           (* Conn.Close by the application: readReady closed, stream stays registered *)

Definition ibb_set (s : ibbstate) buf rd h outs lost : ibbstate :=
  mkibb buf (ib_closed s) (ib_remote_closed s) rd h outs lost.

Definition ibb_step (s : ibbstate) (l : ibblabel) : option ibbstate :=
  match l with
  | IRead cap =>
      (* Read takes readLock, which the handler holds from IData to INotify *)
      match ib_rd s, cap, ib_h s with
      | RdNone, S _, IHIdle =>
          if Nat.eqb (ib_buf s) 0 then Some (ibb_set s 0 RdChecked (ib_h s) (ib_outs s) (ib_lost s))
          else let n := Nat.min cap (ib_buf s) in
               Some (ibb_set s (ib_buf s - n) RdNone (ib_h s) (ib_outs s ++ [RdData n]) (ib_lost s))
      | _, _, _ => None
      end
  | IWait =>
      match ib_rd s with
      | RdChecked => Some (ibb_set s (ib_buf s) (if ib_closed s then RdWoken else RdWaiting)
                                   (ib_h s) (ib_outs s) (ib_lost s))
      | _ => None
      end
  | IWake cap =>
      match ib_rd s, cap, ib_h s with
      | RdWoken, S _, IHIdle =>
          (* bytes.Buffer.Read: (0, io.EOF) on an empty buffer *)
          if Nat.eqb (ib_buf s) 0 then Some (ibb_set s 0 RdNone (ib_h s) (ib_outs s ++ [RdEOF]) (ib_lost s))
          else let n := Nat.min cap (ib_buf s) in
               Some (ibb_set s (ib_buf s - n) RdNone (ib_h s) (ib_outs s ++ [RdData n]) (ib_lost s))
      | _, _, _ => None
      end
  | IData n =>
      match ib_h s with
      | IHIdle => if ib_remote_closed s then None   (* stream unknown: item-not-found, nothing happens *)
                  else Some (ibb_set s (ib_buf s + n) (ib_rd s) IHNotify (ib_outs s) (ib_lost s))
      | _ => None
      end
  | INotify =>
      match ib_h s with
      | IHNotify =>
          if ib_closed s then Some (ibb_set s (ib_buf s) (ib_rd s) IHPanic (ib_outs s) (ib_lost s))
          else match ib_rd s with
               | RdWaiting => Some (ibb_set s (ib_buf s) RdWoken IHIdle (ib_outs s) (ib_lost s))
               | _ => Some (ibb_set s (ib_buf s) (ib_rd s) IHIdle (ib_outs s) (S (ib_lost s)))
               end
      | _ => None
      end
  | ICloseRemote =>
      match ib_h s with
      | IHIdle => if ib_closed s then None
                  else Some (mkibb (ib_buf s) true true
                                   (match ib_rd s with RdWaiting => RdWoken | p => p end)
                                   IHIdle (ib_outs s) (ib_lost s))
      | _ => None
      end
  | ICloseLocal =>
      if ib_closed s then None
      else Some (mkibb (ib_buf s) true (ib_remote_closed s)
                       (match ib_rd s with RdWaiting => RdWoken | p => p end)
                       (ib_h s) (ib_outs s) (ib_lost s))
  end.

Definition rdout_eqb (a b : rdout) : bool :=
  match a, b with
  | RdData n, RdData m => Nat.eqb n m
  | RdEOF, RdEOF => true
  | _, _ => false
  end.

Definition rd_code (p : rdpc) : nat :=
  match p with RdNone => 0 | RdChecked => 1 | RdWaiting => 2 | RdWoken => 3 end.

Record ibbcase := mkibbcase { ic_trace : list ibblabel; ic_outs : list rdout; ic_rd : nat; ic_buf : nat }.

Definition ibb_case_ok (c : ibbcase) : bool :=
  match run ibb_step ibb_init (ic_trace c) with
  | Some s => list_eqb rdout_eqb (ib_outs s) (ic_outs c) && Nat.eqb (rd_code (ib_rd s)) (ic_rd c) &&
              Nat.eqb (ib_buf s) (ic_buf c)
  | None => false
  end.

(* ====================================================================== *)
(* IBB, the code as it is now (after the repairs 97bbeef, 74610ee,         *)
(* 3ea7094, c371b95): Conn.Read / handlePayload / closeRead                *)
(* ====================================================================== *)

(* readReady has capacity 1 and is notified by a non-blocking send, so a
   token may be stale; Read loops: while the buffer is empty it releases the
   lock, receives from readReady and re-tests, leaving the loop when the
   channel is closed.  handlePayload holds readLock from its first statement
   after the lookup to its return and refuses data when readClosed is set;
   closeRead (both kinds of close) unregisters the stream and, under readLock,
   sets readClosed and closes the channel. *)

Inductive frd :=
| FNone                      (* no Read call in progress *)
| FChecked                   (* saw an empty buffer, released the lock; before the receive *)
| FWaiting                   (* blocked in the receive *)
| FWoken (open : bool).      (* received (open = false: channel closed); before re-locking *)

(* the stanza that carries a data packet: an IQ (acknowledged) or a message *)
Inductive carrier := CIq | CMsg.

Inductive fhpc :=
| FHIdle
| FHLocked (c : carrier) (n : nat)  (* a data packet of n bytes: readLock taken; before the readClosed test *)
| FHNotify                   (* data appended; before the non-blocking send *)
| FHPanic.                   (* send on closed channel *)

Record ibbfstate := mkibbf {
  fb_buf : nat;
  fb_tok : bool;               (* a token is buffered in readReady *)
  fb_closed : bool;            (* readClosed: channel closed, stream unregistered *)
  fb_rd : frd;
  fb_h : fhpc;
  fb_outs : list rdout;
  fb_refused : nat }.          (* data packets refused under the lock because the stream was closed *)

Definition ibbf_init : ibbfstate := mkibbf 0 false false FNone FHIdle [] 0.

Inductive ibbflabel :=
| FRead (cap : nat)      (* Read(b), len(b) = cap > 0: takes the lock; returns at once if data is buffered *)
| FWait                  (* the receive from readReady *)
| FWake (cap : nat)      (* re-lock; leave the loop (closed), read, or test again *)
| FData (c : carrier) (n : nat)  (* handlePayload (data carried by c) finds the stream and takes readLock *)
| FCheck                 (* readClosed test; sequence number, decoding, append; acknowledgement if carried by an IQ *)
| FNotify                (* the non-blocking send: on every successful path, whatever the carrier *)
| FCloseRemote           (* close element from the peer: closeNoNotify -> closeRead *)
| FCloseLocal.           (* Conn.Close by the application -> closeRead *)

Definition rd_take (s : ibbfstate) (cap : nat) : ibbfstate :=
  let n := Nat.min cap (fb_buf s) in
  mkibbf (fb_buf s - n) (fb_tok s) (fb_closed s) FNone (fb_h s) (fb_outs s ++ [RdData n]) (fb_refused s).

Definition fb_set_rd (s : ibbfstate) (r : frd) : ibbfstate :=
  mkibbf (fb_buf s) (fb_tok s) (fb_closed s) r (fb_h s) (fb_outs s) (fb_refused s).

Definition close_read (s : ibbfstate) : ibbfstate :=
  mkibbf (fb_buf s) (fb_tok s) true
         (match fb_rd s with FWaiting => FWoken false | p => p end)
         (fb_h s) (fb_outs s) (fb_refused s).

Definition ibbf_step (s : ibbfstate) (l : ibbflabel) : option ibbfstate :=
  match l with
  | FRead cap =>
      match fb_rd s, cap, fb_h s with
      | FNone, S _, FHIdle =>
          if Nat.eqb (fb_buf s) 0 then Some (fb_set_rd s FChecked) else Some (rd_take s cap)
      | _, _, _ => None
      end
  | FWait =>
      match fb_rd s with
      | FChecked =>
          if fb_tok s then Some (mkibbf (fb_buf s) false (fb_closed s) (FWoken true) (fb_h s) (fb_outs s) (fb_refused s))
          else if fb_closed s then Some (fb_set_rd s (FWoken false))
          else Some (fb_set_rd s FWaiting)
      | _ => None
      end
  | FWake cap =>
      match fb_rd s, cap, fb_h s with
      | FWoken o, S _, FHIdle =>
          if Nat.eqb (fb_buf s) 0 then
            if o then Some (fb_set_rd s FChecked)   (* stale token or empty packet: test again *)
            else Some (mkibbf 0 (fb_tok s) (fb_closed s) FNone (fb_h s) (fb_outs s ++ [RdEOF]) (fb_refused s))
          else Some (rd_take s cap)
      | _, _, _ => None
      end
  | FData c n =>
      match fb_h s with
      | FHIdle => if fb_closed s then None   (* stream unknown: item-not-found, nothing happens *)
                  else Some (mkibbf (fb_buf s) (fb_tok s) (fb_closed s) (fb_rd s) (FHLocked c n) (fb_outs s) (fb_refused s))
      | _ => None
      end
  | FCheck =>
      match fb_h s with
      | FHLocked _ n =>
          if fb_closed s
          then Some (mkibbf (fb_buf s) (fb_tok s) (fb_closed s) (fb_rd s) FHIdle (fb_outs s) (S (fb_refused s)))
          else Some (mkibbf (fb_buf s + n) (fb_tok s) (fb_closed s) (fb_rd s) FHNotify (fb_outs s) (fb_refused s))
      | _ => None
      end
  | FNotify =>
      match fb_h s with
      | FHNotify =>
          if fb_closed s then Some (mkibbf (fb_buf s) (fb_tok s) (fb_closed s) (fb_rd s) FHPanic (fb_outs s) (fb_refused s))
          else match fb_rd s with
               | FWaiting => Some (mkibbf (fb_buf s) (fb_tok s) (fb_closed s) (FWoken true) FHIdle (fb_outs s) (fb_refused s))
               | _ => Some (mkibbf (fb_buf s) true (fb_closed s) (fb_rd s) FHIdle (fb_outs s) (fb_refused s))
               end
      | _ => None
      end
  | FCloseRemote | FCloseLocal =>
      (* closeRead takes readLock, which the handler holds from FData to FNotify *)
      match fb_h s with
      | FHIdle => if fb_closed s then None else Some (close_read s)
      | _ => None
      end
  end.

(* what must not be: data carried by a message is appended but the reader is
   not notified (the acknowledgement step returning early for that carrier) *)
Definition ibbf_step_msg_silent (s : ibbfstate) (l : ibbflabel) : option ibbfstate :=
  match l, fb_h s with
  | FCheck, FHLocked CMsg n =>
      if fb_closed s then ibbf_step s l
      else Some (mkibbf (fb_buf s + n) (fb_tok s) (fb_closed s) (fb_rd s) FHIdle (fb_outs s) (fb_refused s))
  | _, _ => ibbf_step s l
  end.

Definition frd_code (p : frd) : nat :=
  match p with FNone => 0 | FChecked => 1 | FWaiting => 2 | FWoken _ => 3 end.

Record ibbfcase := mkibbfcase { fc_trace : list ibbflabel; fc_outs : list rdout; fc_rd : nat; fc_buf : nat }.

Definition ibbf_case_ok (c : ibbfcase) : bool :=
  match run ibbf_step ibbf_init (fc_trace c) with
  | Some s => list_eqb rdout_eqb (fb_outs s) (fc_outs c) && Nat.eqb (frd_code (fb_rd s)) (fc_rd c) &&
              Nat.eqb (fb_buf s) (fc_buf c)
  | None => false
  end.
