(* C06/Proofs.v — lemmas about the correlated-wait transition system. *)
From Coq Require Import List Arith NArith Bool Lia.
Import ListNotations.
From XV Require Import lib.Lts C06.Model.

(* ---- lists ---- *)

Lemma upd_length {A} (l : list A) i x : length (upd l i x) = length l.
Proof. revert i; induction l as [|y l IH]; intros [|i]; cbn [upd length]; auto. Qed.

Lemma nth_upd_eq {A} (l : list A) i x y :
  nth_error l i = Some y -> nth_error (upd l i x) i = Some x.
Proof.
  revert i; induction l as [|z l IH]; intros [|i] H; cbn in *; try discriminate; auto.
Qed.

Lemma nth_upd_neq {A} (l : list A) i j x : i <> j -> nth_error (upd l i x) j = nth_error l j.
Proof.
  revert i j; induction l as [|z l IH]; intros [|i] [|j] H; cbn; auto; try congruence.
Qed.

Lemma nth_upd_inv {A} (l : list A) i j x y z :
  nth_error l i = Some z ->
  nth_error (upd l i x) j = Some y ->
  (j = i /\ y = x) \/ (j <> i /\ nth_error l j = Some y).
Proof.
  intros Hi H. destruct (Nat.eq_dec j i) as [->|N].
  - rewrite (nth_upd_eq _ _ _ _ Hi) in H. left. split; congruence.
  - rewrite nth_upd_neq in H by congruence. right. auto.
Qed.

Lemma nth_app_inv {A} (l : list A) x j y :
  nth_error (l ++ [x]) j = Some y ->
  (j < length l /\ nth_error l j = Some y) \/ (j = length l /\ y = x).
Proof.
  intro H. destruct (Nat.lt_ge_cases j (length l)) as [L|G].
  - rewrite nth_error_app1 in H by exact L. left; auto.
  - rewrite nth_error_app2 in H by exact G.
    destruct (j - length l) as [|k] eqn:E; cbn in H.
    + right. split; [lia|congruence].
    + destruct k; discriminate.
Qed.

Lemma nth_app_old {A} (l : list A) x j y :
  nth_error l j = Some y -> nth_error (l ++ [x]) j = Some y.
Proof.
  intro H. rewrite nth_error_app1; [exact H|]. apply nth_error_Some. congruence.
Qed.

Lemma nth_len_none {A} (l : list A) : nth_error l (length l) = None.
Proof. apply nth_error_None. lia. Qed.

(* ---- the table ---- *)

Lemma in_remove_id id p k v : In (k, v) (remove_id id p) -> In (k, v) p /\ k <> id.
Proof.
  induction p as [|[k' v'] p IH]; cbn; [tauto|].
  destruct (N.eqb k' id) eqn:E.
  - intro H. destruct (IH H). auto.
  - intros [H|H].
    + injection H as -> ->. apply N.eqb_neq in E. auto.
    + destruct (IH H). auto.
Qed.

Lemma lookup_in id p v : lookup id p = Some v -> In (id, v) p.
Proof.
  induction p as [|[k' v'] p IH]; cbn; [discriminate|].
  destruct (N.eqb k' id) eqn:E.
  - intro H. injection H as ->. apply N.eqb_eq in E. subst. auto.
  - auto.
Qed.

Lemma in_insert id n p k v : In (k, v) (insert id n p) -> (k = id /\ v = n) \/ In (k, v) p.
Proof.
  unfold insert. intros [H|H].
  - injection H as -> ->. auto.
  - right. apply in_remove_id in H. tauto.
Qed.

Lemma lookup_remove_id id p : lookup id (remove_id id p) = None.
Proof.
  induction p as [|[k v] p IH]; cbn; [reflexivity|].
  destruct (N.eqb k id) eqn:E; [exact IH|]. cbn. rewrite E. exact IH.
Qed.

(* ---- names ---- *)

Lemma name_eqb_eq a b : name_eqb a b = true <-> a = b.
Proof.
  destruct a as [a1 a2], b as [b1 b2]. unfold name_eqb. cbn.
  rewrite andb_true_iff, !N.eqb_eq. split; [intros [-> ->]; reflexivity|intro H; injection H; auto].
Qed.

Lemma name_match_local e n : name_match e n = true -> n_local e = n_local n.
Proof.
  unfold name_match. rewrite orb_true_iff, !name_eqb_eq. intros [->| ->]; reflexivity.
Qed.

(* ---- run with well-formed labels ---- *)

Lemma invariant_run_wf (fx : bool) (P : state -> Prop) :
  P init ->
  (forall s l s', wf_label l = true -> P s -> step fx s l = Some s' -> P s') ->
  forall tr s, forallb wf_label tr = true -> run (step fx) init tr = Some s -> P s.
Proof.
  intros H0 Hs tr. generalize init H0. clear H0.
  induction tr as [|l tr IH]; intros s0 H0 s W R; cbn in *.
  - injection R as <-. exact H0.
  - apply andb_true_iff in W. destruct W as [W1 W2].
    destruct (step fx s0 l) as [s1|] eqn:E; [|discriminate].
    exact (IH s1 (Hs _ _ _ W1 H0 E) s W2 R).
Qed.

(* ---- the invariant ---- *)

Definition holds (p : rpc) (st : stanza) : Prop := p = RGot st \/ p = RRet (OReply st) false.
Definition has (p : rpc) (st : stanza) : Prop := p = RGot st \/ exists c, p = RRet (OReply st) c.

Lemma holds_has p st : holds p st -> has p st.
Proof. intros [H|H]; [left; exact H|right; eauto]. Qed.

Lemma has_fun p st st' : has p st -> has p st' -> st = st'.
Proof. intros [->|[c ->]] [H|[c' H]]; congruence. Qed.

Definition cur_stanza (p : spc) : option stanza :=
  match p with
  | SRead st | SLooked st _ | SOffer st _ | SHandler st => Some st
  | _ => None
  end.

Definition seqs (s : state) : list nat := map ev_seq (hist s).

Record Inv (fx : bool) (s : state) : Prop := {
  inv_pend : forall id i, In (id, i) (pend s) ->
    exists r, nth_error (reqs s) i = Some r /\ r_id r = id /\ is_ret (r_pc r) = false;
  inv_serve : match serve s with
    | SLooked st (Some i) =>
        s_resp st = true /\ exists r, nth_error (reqs s) i = Some r /\ r_id r = s_id st
    | SOffer st i =>
        s_resp st = true /\ exists r, nth_error (reqs s) i = Some r /\ r_id r = s_id st /\
                                      name_match (r_name r) (s_name st) = true
    | SAwait st i => exists r, nth_error (reqs s) i = Some r /\ has (r_pc r) st
    | SPanic => False
    | _ => True
    end;
  inv_wf : forall st, cur_stanza (serve s) = Some st -> n_local (s_name st) <> 0%N;
  inv_holder : forall i r st, nth_error (reqs s) i = Some r -> holds (r_pc r) st -> serve s = SAwait st i;
  inv_out : forall i r st, nth_error (reqs s) i = Some r -> has (r_pc r) st ->
    s_id st = r_id r /\ name_match (r_name r) (s_name st) = true /\ s_resp st = true /\
    In (EDeliver (s_seq st) i) (hist s);
  inv_ctx : forall i r, nth_error (reqs s) i = Some r ->
    (r_pc r = RCtx \/ exists c, r_pc r = RRet OCtxErr c) -> r_canc r = true;
  inv_nodup : NoDup (seqs s);
  inv_lt : forall q, In q (seqs s) -> q < arrived s;
  inv_acct : match cur_stanza (serve s) with
    | Some st => S (s_seq st) = arrived s /\ ~ In (s_seq st) (seqs s) /\
                 forall n, n < s_seq st -> In n (seqs s)
    | None => serve s = SPanic \/ forall n, n < arrived s -> In n (seqs s)
    end;
  inv_deliv : forall q i, In (EDeliver q i) (hist s) ->
    exists r st, nth_error (reqs s) i = Some r /\ s_seq st = q /\ has (r_pc r) st;
  inv_drop : forall q i, In (EDrop q i) (hist s) ->
    exists r, nth_error (reqs s) i = Some r /\ ctx_done fx r = true
}.

Lemma nth_nil {A} i (x : A) : nth_error [] i = Some x -> False.
Proof. destruct i; discriminate. Qed.

Lemma Inv_init fx : Inv fx init.
Proof.
  constructor; cbn.
  - intros ? ? [].
  - exact I.
  - intros; discriminate.
  - intros i r st H. destruct (nth_nil _ _ H).
  - intros i r st H. destruct (nth_nil _ _ H).
  - intros i r H. destruct (nth_nil _ _ H).
  - constructor.
  - intros ? [].
  - right. intros n H. lia.
  - intros ? ? [].
  - intros ? ? [].
Qed.

(* A step of call i that changes only its own record, keeps id and name, and
   neither returns nor acquires a response. *)
Lemma Inv_req_update fx s i r r' :
  Inv fx s ->
  nth_error (reqs s) i = Some r ->
  r_id r' = r_id r -> r_name r' = r_name r ->
  is_ret (r_pc r') = is_ret (r_pc r) ->
  (r_canc r = true -> r_canc r' = true) ->
  (forall st, has (r_pc r') st <-> has (r_pc r) st) ->
  (forall st, holds (r_pc r') st -> holds (r_pc r) st) ->
  ((r_pc r' = RCtx \/ exists c, r_pc r' = RRet OCtxErr c) -> r_canc r' = true) ->
  Inv fx (set_reqs s (upd (reqs s) i r')).
Proof.
  intros I Hi Hid Hnm Hret Hcanc Hhas Hholds Hctx.
  assert (Hnew : nth_error (upd (reqs s) i r') i = Some r') by (eapply nth_upd_eq; eauto).
  assert (Hold : forall j x, j <> i -> nth_error (reqs s) j = Some x ->
                 nth_error (upd (reqs s) i r') j = Some x)
    by (intros j x N H; rewrite nth_upd_neq by congruence; exact H).
  destruct I as [Ip Is Iw Ih Io Ic Ind Il Ia Idl Idr].
  constructor; cbn [set_reqs reqs pend serve arrived hist seqs] in *; auto.
  - intros id j Hin. destruct (Ip id j Hin) as [x [Hx [Hxid Hxr]]].
    destruct (Nat.eq_dec j i) as [->|N].
    + exists r'. rewrite Hx in Hi. injection Hi as ->. repeat split; congruence.
    + exists x. auto.
  - destruct (serve s) as [|st|st [j|]|st j|st j|st|st|]; auto.
    + destruct Is as [Hr [x [Hx Hxid]]]. split; [exact Hr|].
      destruct (Nat.eq_dec j i) as [->|N].
      * exists r'. rewrite Hx in Hi. injection Hi as ->. split; congruence.
      * exists x. auto.
    + destruct Is as [Hr [x [Hx [Hxid Hxn]]]]. split; [exact Hr|].
      destruct (Nat.eq_dec j i) as [->|N].
      * exists r'. rewrite Hx in Hi. injection Hi as ->. repeat split; congruence.
      * exists x. auto.
    + destruct Is as [x [Hx Hxh]].
      destruct (Nat.eq_dec j i) as [->|N].
      * exists r'. rewrite Hx in Hi. injection Hi as ->. split; [exact Hnew|apply Hhas; exact Hxh].
      * exists x. auto.
  - intros j x st Hx Hh. destruct (nth_upd_inv _ _ _ _ _ _ Hi Hx) as [[-> ->]|[N Hx']].
    + apply (Ih i r st Hi). apply Hholds. exact Hh.
    + eapply Ih; eauto.
  - intros j x st Hx Hh. destruct (nth_upd_inv _ _ _ _ _ _ Hi Hx) as [[-> ->]|[N Hx']].
    + rewrite Hid, Hnm. apply (Io i r st Hi). apply Hhas. exact Hh.
    + eapply Io; eauto.
  - intros j x Hx Hc. destruct (nth_upd_inv _ _ _ _ _ _ Hi Hx) as [[-> ->]|[N Hx']].
    + auto.
    + eapply Ic; eauto.
  - intros q j Hin. destruct (Idl q j Hin) as [x [st [Hx [Hq Hh]]]].
    destruct (Nat.eq_dec j i) as [->|N].
    + exists r', st. rewrite Hx in Hi. injection Hi as ->. repeat split; auto. apply Hhas. exact Hh.
    + exists x, st. auto.
  - intros q j Hin. destruct (Idr q j Hin) as [x [Hx Hd]].
    destruct (Nat.eq_dec j i) as [->|N].
    + exists r'. rewrite Hx in Hi. injection Hi as ->. split; [exact Hnew|].
      unfold ctx_done in *. rewrite Hret.
      destruct (r_canc r) eqn:Ec; [rewrite (Hcanc eq_refl); reflexivity|].
      cbn in Hd. rewrite Hd. apply orb_true_r.
    + exists x. auto.
Qed.

Definition ok_upd (r r' : req) : Prop :=
  r_id r' = r_id r /\ r_name r' = r_name r /\ is_ret (r_pc r') = is_ret (r_pc r) /\
  (r_canc r = true -> r_canc r' = true) /\
  (forall st, has (r_pc r') st <-> has (r_pc r) st) /\
  (forall st, holds (r_pc r') st -> holds (r_pc r) st) /\
  ((r_pc r' = RCtx \/ exists c, r_pc r' = RRet OCtxErr c) -> r_canc r' = true).

Lemma Inv_req_step fx s i f s' :
  Inv fx s -> req_step s i f = Some s' ->
  (forall r r', nth_error (reqs s) i = Some r -> Inv fx s -> f r = Some r' -> ok_upd r r') ->
  Inv fx s'.
Proof.
  unfold req_step. intros I H Hok.
  destruct (nth_error (reqs s) i) as [r|] eqn:Hi; [|discriminate].
  destruct (f r) as [r'|] eqn:Hf; [|discriminate]. injection H as <-.
  destruct (Hok r r' eq_refl I Hf) as (A & B & C & D & E & F & G).
  eapply Inv_req_update; eauto.
Qed.

Ltac no_has :=
  unfold has, holds; intros; split; intros [?H|?H]; try discriminate;
  try (destruct H as [? H]; discriminate).

Lemma step_req_labels fx s l s' :
  match l with LSendOk _ | LSendFail _ | LCancel _ | LCtxDone _ | LClose _ => True | _ => False end ->
  Inv fx s -> step fx s l = Some s' -> Inv fx s'.
Proof.
  intros Hl I H. destruct l; try contradiction; cbn [step] in H;
    (eapply Inv_req_step; [exact I|exact H|]); clear H; intros r r' Hi _ Hf; cbv beta in Hf; unfold ok_upd.
  - revert Hf; destruct (r_pc r) eqn:E; intro Hf; try discriminate. injection Hf as <-. cbn.
    repeat split; auto; try (intros [H|[c H]]; discriminate); try (intros [H|H]; discriminate);
      try (intros ? [H|H]; discriminate).
  - revert Hf; destruct (r_pc r) eqn:E; intro Hf; try discriminate. injection Hf as <-. cbn.
    repeat split; auto; try (intros [H|[c H]]; discriminate); try (intros [H|H]; discriminate);
      try (intros ? [H|H]; discriminate).
  - revert Hf; destruct (r_pc r) eqn:E; intro Hf; try discriminate.
    destruct (r_canc r) eqn:Ec; try discriminate. injection Hf as <-. cbn.
    repeat split; auto; try (intros [H|[c H]]; discriminate); try (intros [H|H]; discriminate);
      try (intros ? [H|H]; discriminate).
  - revert Hf; destruct (r_pc r) as [| | | | |o c] eqn:E; intro Hf; try discriminate.
    destruct o as [st| |]; try discriminate. destruct c; try discriminate.
    injection Hf as <-. cbn.
    repeat split; auto.
    + intros [H|[c H]]; [discriminate|]. injection H as <- <-. right. eauto.
    + intros [H|[c H]]; [discriminate|]. injection H as <- <-. right. eauto.
    + intros ? [H|H]; discriminate.
    + intros [H|[c H]]; discriminate.
  - injection Hf as <-. cbn. repeat split; auto; tauto.
Qed.

(* A step that only moves the serve goroutine. *)
Lemma Inv_serve_update fx s p :
  Inv fx s ->
  match p with
  | SLooked st (Some i) =>
      s_resp st = true /\ exists r, nth_error (reqs s) i = Some r /\ r_id r = s_id st
  | SOffer st i =>
      s_resp st = true /\ exists r, nth_error (reqs s) i = Some r /\ r_id r = s_id st /\
                                    name_match (r_name r) (s_name st) = true
  | SAwait st i => exists r, nth_error (reqs s) i = Some r /\ has (r_pc r) st
  | SPanic => False
  | _ => True
  end ->
  (forall st, cur_stanza p = Some st -> n_local (s_name st) <> 0%N) ->
  (forall i r st, nth_error (reqs s) i = Some r -> holds (r_pc r) st -> p = SAwait st i) ->
  match cur_stanza p with
  | Some st => S (s_seq st) = arrived s /\ ~ In (s_seq st) (seqs s) /\
               forall n, n < s_seq st -> In n (seqs s)
  | None => p = SPanic \/ forall n, n < arrived s -> In n (seqs s)
  end ->
  Inv fx (set_serve s p).
Proof.
  intros [Ip Is Iw Ih Io Ic Ind Il Ia Idl Idr] A B C D.
  constructor; cbn [set_serve reqs pend serve arrived hist seqs] in *; auto.
Qed.

Lemma no_holder_unless_await fx s :
  Inv fx s -> (forall st i, serve s <> SAwait st i) ->
  forall i r st, nth_error (reqs s) i = Some r -> holds (r_pc r) st -> False.
Proof.
  intros I N i r st Hi Hh. exact (N st i (inv_holder _ _ I i r st Hi Hh)).
Qed.

Lemma step_lookup fx s s' : Inv fx s -> step fx s LLookup = Some s' -> Inv fx s'.
Proof.
  intros I H. cbn [step] in H. destruct (serve s) as [|st| | | | | |] eqn:Es; try discriminate.
  assert (NH := no_holder_unless_await fx s I ltac:(intros; rewrite Es; discriminate)).
  pose proof (inv_wf _ _ I) as Iw. pose proof (inv_acct _ _ I) as Ia. rewrite Es in Iw, Ia. cbn in Iw, Ia.
  destruct (s_resp st) eqn:Er; injection H as <-; apply Inv_serve_update; auto; cbn.
  - destruct (lookup (s_id st) (pend s)) as [i|] eqn:El; [|exact Logic.I].
    apply lookup_in in El. destruct (inv_pend _ _ I _ _ El) as [r [Hr [Hid _]]]. eauto.
  - intros i r st0 Hi Hh. destruct (NH i r st0 Hi Hh).
  - intros i r st0 Hi Hh. destruct (NH i r st0 Hi Hh).
Qed.

Lemma name_zero_empty nm : name_eqb zero_name (empty_space nm) = true -> n_local nm = 0%N.
Proof. intro H. apply name_eqb_eq in H. unfold zero_name, empty_space in H. injection H as H. auto. Qed.

Lemma step_decide fx s s' : Inv fx s -> step fx s LDecide = Some s' -> Inv fx s'.
Proof.
  intros I H. cbn [step] in H. destruct (serve s) as [| |st e| | | | |] eqn:Es; try discriminate.
  assert (NH := no_holder_unless_await fx s I ltac:(intros; rewrite Es; discriminate)).
  pose proof (inv_wf _ _ I) as Iw. pose proof (inv_acct _ _ I) as Ia.
  pose proof (inv_serve _ _ I) as Is. rewrite Es in Iw, Ia, Is. cbn in Iw, Ia, Is.
  destruct e as [i|].
  - destruct Is as [Hresp [r [Hr Hid]]]. rewrite Hr in H.
    destruct (name_match (r_name r) (s_name st)) eqn:En; injection H as <-;
      apply Inv_serve_update; auto; cbn; eauto 8;
      intros j x st0 Hj Hh; destruct (NH j x st0 Hj Hh).
  - destruct (name_eqb zero_name (empty_space (s_name st))) eqn:En.
    + apply name_zero_empty in En. destruct (Iw st eq_refl En).
    + injection H as <-. apply Inv_serve_update; auto; cbn; auto.
      intros j x st0 Hj Hh; destruct (NH j x st0 Hj Hh).
Qed.

Lemma step_drain fx s s' : Inv fx s -> step fx s LDrain = Some s' -> Inv fx s'.
Proof.
  intros I H. cbn [step] in H. destruct (serve s) as [| | | | |st| |] eqn:Es; try discriminate.
  assert (NH := no_holder_unless_await fx s I ltac:(intros; rewrite Es; discriminate)).
  pose proof (inv_acct _ _ I) as Ia. rewrite Es in Ia. cbn in Ia.
  injection H as <-. apply Inv_serve_update; auto; cbn; auto.
  - intros; discriminate.
  - intros j x st0 Hj Hh; destruct (NH j x st0 Hj Hh).
  - destruct Ia as [Ia|Ia]; [discriminate|auto].
Qed.

Lemma step_awaitdone fx s s' : Inv fx s -> step fx s LAwaitDone = Some s' -> Inv fx s'.
Proof.
  intros I H. cbn [step] in H. destruct (serve s) as [| | | |st i| | |] eqn:Es; try discriminate.
  destruct (nth_error (reqs s) i) as [r|] eqn:Hi; [|discriminate].
  destruct (r_pc r) as [| | | | |o c] eqn:Ep; try discriminate.
  destruct o as [st1| |]; try discriminate. destruct c; try discriminate.
  pose proof (inv_acct _ _ I) as Ia. rewrite Es in Ia. cbn in Ia.
  injection H as <-. apply Inv_serve_update; auto; cbn; auto.
  - intros; discriminate.
  - intros j x st0 Hj Hh. pose proof (inv_holder _ _ I j x st0 Hj Hh) as E.
    rewrite Es in E. injection E as <- <-. rewrite Hi in Hj. injection Hj as <-.
    rewrite Ep in Hh. destruct Hh as [Hh|Hh]; discriminate.
  - destruct Ia as [Ia|Ia]; [discriminate|auto].
Qed.

Lemma seqs_app s e : map ev_seq (hist s ++ [e]) = seqs s ++ [ev_seq e].
Proof. unfold seqs. rewrite map_app. reflexivity. Qed.

Lemma nodup_snoc (l : list nat) x : NoDup l -> ~ In x l -> NoDup (l ++ [x]).
Proof.
  intros N H. induction N as [|y l Hy N IH]; cbn.
  - constructor; [intros []|constructor].
  - constructor.
    + rewrite in_app_iff. cbn. intros [A|[A|[]]]; [contradiction|]. subst. apply H. left. reflexivity.
    + apply IH. intro A. apply H. right. exact A.
Qed.

Lemma step_arrive fx s id nm resp s' :
  wf_label (LArrive id nm resp) = true ->
  Inv fx s -> step fx s (LArrive id nm resp) = Some s' -> Inv fx s'.
Proof.
  intros W I H. cbn [step] in H. destruct (serve s) eqn:Es; try discriminate.
  assert (NH := no_holder_unless_await fx s I ltac:(intros; rewrite Es; discriminate)).
  pose proof (inv_acct _ _ I) as Ia. rewrite Es in Ia. cbn in Ia.
  destruct Ia as [Ia|Ia]; [discriminate|].
  injection H as <-.
  destruct I as [Ip Is Iw Ih Io Ic Ind Il _ Idl Idr].
  constructor; cbn [reqs pend serve arrived hist seqs cur_stanza s_seq s_name] in *; auto.
  - intros st E. injection E as <-. cbn. cbn in W. apply negb_true_iff, N.eqb_neq in W. exact W.
  - intros i r st Hi Hh. destruct (NH i r st Hi Hh).
  - intros q Hq. apply Il in Hq. lia.
  - split; [reflexivity|]. split; [|exact Ia]. intro Hq. apply Il in Hq. lia.
Qed.

Lemma step_handler fx s s' : Inv fx s -> step fx s LHandler = Some s' -> Inv fx s'.
Proof.
  intros I H. cbn [step] in H. destruct (serve s) as [| | | | | |st|] eqn:Es; try discriminate.
  assert (NH := no_holder_unless_await fx s I ltac:(intros; rewrite Es; discriminate)).
  pose proof (inv_acct _ _ I) as Ia. rewrite Es in Ia. cbn in Ia. destruct Ia as [Ia1 [Ia2 Ia3]].
  injection H as <-.
  destruct I as [Ip Is Iw Ih Io Ic Ind Il _ Idl Idr].
  constructor; unfold seqs in *;
    cbn [add_hist set_serve reqs pend serve arrived hist cur_stanza] in *; auto.
  - intros; discriminate.
  - intros i r st0 Hi Hh. destruct (NH i r st0 Hi Hh).
  - intros i r st0 Hi Hh. destruct (Io i r st0 Hi Hh) as (A & B & C & D).
    repeat split; auto. apply in_or_app. left. exact D.
  - rewrite map_app. cbn. apply nodup_snoc; auto.
  - rewrite map_app. cbn. intros q Hq. apply in_app_or in Hq. destruct Hq as [Hq|[<-|[]]]; [auto|lia].
  - right. rewrite map_app. cbn. intros n Hn. apply in_or_app.
    destruct (Nat.eq_dec n (s_seq st)) as [->|Ne]; [right; left; reflexivity|left; apply Ia3; lia].
  - intros q i Hq. apply in_app_or in Hq. destruct Hq as [Hq|[Hq|[]]]; [eauto|discriminate].
  - intros q i Hq. apply in_app_or in Hq. destruct Hq as [Hq|[Hq|[]]]; [eauto|discriminate].
Qed.

Lemma step_offerctx fx s s' : Inv fx s -> step fx s LOfferCtx = Some s' -> Inv fx s'.
Proof.
  intros I H. cbn [step] in H. destruct (serve s) as [| | |st i| | | |] eqn:Es; try discriminate.
  destruct (nth_error (reqs s) i) as [r|] eqn:Hi; [|discriminate].
  destruct (ctx_done fx r) eqn:Hd; [|discriminate].
  assert (NH := no_holder_unless_await fx s I ltac:(intros; rewrite Es; discriminate)).
  pose proof (inv_acct _ _ I) as Ia. rewrite Es in Ia. cbn in Ia. destruct Ia as [Ia1 [Ia2 Ia3]].
  injection H as <-.
  destruct I as [Ip Is Iw Ih Io Ic Ind Il _ Idl Idr].
  constructor; unfold seqs in *;
    cbn [add_hist set_serve reqs pend serve arrived hist cur_stanza] in *; auto.
  - intros; discriminate.
  - intros j x st0 Hj Hh. destruct (NH j x st0 Hj Hh).
  - intros j x st0 Hj Hh. destruct (Io j x st0 Hj Hh) as (A & B & C & D).
    repeat split; auto. apply in_or_app. left. exact D.
  - rewrite map_app. cbn. apply nodup_snoc; auto.
  - rewrite map_app. cbn. intros q Hq. apply in_app_or in Hq. destruct Hq as [Hq|[<-|[]]]; [auto|lia].
  - right. rewrite map_app. cbn. intros n Hn. apply in_or_app.
    destruct (Nat.eq_dec n (s_seq st)) as [->|Ne]; [right; left; reflexivity|left; apply Ia3; lia].
  - intros q j Hq. apply in_app_or in Hq. destruct Hq as [Hq|[Hq|[]]]; [eauto|discriminate].
  - intros q j Hq. apply in_app_or in Hq. destruct Hq as [Hq|[Hq|[]]]; [eauto|].
    injection Hq as <- <-. eauto.
Qed.

Lemma step_recv fx s i s' : Inv fx s -> step fx s (LRecv i) = Some s' -> Inv fx s'.
Proof.
  intros I H. cbn [step] in H. destruct (serve s) as [| | |st j| | | |] eqn:Es; try discriminate.
  destruct (Nat.eqb i j) eqn:Eij; [|discriminate]. apply Nat.eqb_eq in Eij. subst j.
  destruct (nth_error (reqs s) i) as [r|] eqn:Hi; [|discriminate].
  destruct (r_pc r) eqn:Ep; try discriminate.
  assert (NH := no_holder_unless_await fx s I ltac:(intros; rewrite Es; discriminate)).
  pose proof (inv_acct _ _ I) as Ia. rewrite Es in Ia. cbn in Ia. destruct Ia as [Ia1 [Ia2 Ia3]].
  pose proof (inv_serve _ _ I) as Is0. rewrite Es in Is0. destruct Is0 as [Hresp [r0 [Hr0 [Hid Hnm]]]].
  rewrite Hi in Hr0. injection Hr0 as <-.
  injection H as <-.
  set (r' := set_pc r (RGot st)).
  assert (Hnew : nth_error (upd (reqs s) i r') i = Some r') by (eapply nth_upd_eq; eauto).
  assert (Hnohas : forall st0, ~ has (r_pc r) st0)
    by (intros st0 [A|[c A]]; rewrite Ep in A; discriminate).
  destruct I as [Ip Is Iw Ih Io Ic Ind Il _ Idl Idr].
  constructor; unfold seqs in *; cbn [reqs pend serve arrived hist cur_stanza] in *.
  - intros id j Hin. destruct (Ip id j Hin) as [x [Hx [Hxid Hxr]]].
    destruct (Nat.eq_dec j i) as [->|N].
    + exists r'. rewrite Hx in Hi. injection Hi as ->. repeat split; auto.
    + exists x. rewrite nth_upd_neq by congruence. auto.
  - exists r'. split; [exact Hnew|]. left. reflexivity.
  - intros; discriminate.
  - intros j x st0 Hx Hh. destruct (nth_upd_inv _ _ _ _ _ _ Hi Hx) as [[-> ->]|[N Hx']].
    + destruct Hh as [Hh|Hh]; cbn in Hh; [|discriminate]. injection Hh as <-. reflexivity.
    + destruct (NH j x st0 Hx' Hh).
  - intros j x st0 Hx Hh. destruct (nth_upd_inv _ _ _ _ _ _ Hi Hx) as [[-> ->]|[N Hx']].
    + destruct Hh as [Hh|[c Hh]]; cbn in Hh; [|discriminate]. injection Hh as <-.
      cbn. repeat split; auto. apply in_or_app. right. left. reflexivity.
    + destruct (Io j x st0 Hx' Hh) as (A & B & C & D). repeat split; auto.
      apply in_or_app. left. exact D.
  - intros j x Hx Hc. destruct (nth_upd_inv _ _ _ _ _ _ Hi Hx) as [[-> ->]|[N Hx']].
    + cbn in Hc. destruct Hc as [Hc|[c Hc]]; discriminate.
    + eapply Ic; eauto.
  - rewrite map_app. cbn. apply nodup_snoc; auto.
  - rewrite map_app. cbn. intros q Hq. apply in_app_or in Hq. destruct Hq as [Hq|[<-|[]]]; [auto|lia].
  - right. rewrite map_app. cbn. intros n Hn. apply in_or_app.
    destruct (Nat.eq_dec n (s_seq st)) as [->|Ne]; [right; left; reflexivity|left; apply Ia3; lia].
  - intros q j Hq. apply in_app_or in Hq. destruct Hq as [Hq|[Hq|[]]].
    + destruct (Idl q j Hq) as [x [st0 [Hx [Hs Hh]]]].
      destruct (Nat.eq_dec j i) as [->|N].
      * rewrite Hx in Hi. injection Hi as ->. destruct (Hnohas _ Hh).
      * exists x, st0. rewrite nth_upd_neq by congruence. auto.
    + injection Hq as <- <-. exists r', st. repeat split; auto. left. reflexivity.
  - intros q j Hq. apply in_app_or in Hq. destruct Hq as [Hq|[Hq|[]]]; [|discriminate].
    destruct (Idr q j Hq) as [x [Hx Hd]].
    destruct (Nat.eq_dec j i) as [->|N].
    + exists r'. split; [exact Hnew|]. rewrite Hx in Hi. injection Hi as ->.
      unfold ctx_done in *. cbn. rewrite Ep in Hd. cbn in Hd. rewrite andb_false_r in *. exact Hd.
    + exists x. rewrite nth_upd_neq by congruence. auto.
Qed.

Lemma step_start fx s id nm s' : Inv fx s -> step fx s (LStart id nm) = Some s' -> Inv fx s'.
Proof.
  intros I H. cbn [step] in H. injection H as <-.
  set (r0 := mkreq id nm false RReg).
  assert (Hnohas : forall st, ~ has (r_pc r0) st) by (intros st [A|[c A]]; discriminate).
  destruct I as [Ip Is Iw Ih Io Ic Ind Il Ia Idl Idr].
  constructor; unfold seqs in *; cbn [reqs pend serve arrived hist cur_stanza] in *; auto.
  - intros k j Hin. apply in_insert in Hin. destruct Hin as [[-> ->]|Hin].
    + exists r0. split; [|auto]. rewrite nth_error_app2 by lia. rewrite Nat.sub_diag. reflexivity.
    + destruct (Ip k j Hin) as [x [Hx Hr]]. exists x. split; [apply nth_app_old; exact Hx|exact Hr].
  - destruct (serve s) as [|st|st [j|]|st j|st j|st|st|]; auto.
    + destruct Is as [Hr [x [Hx Hxid]]]. split; [exact Hr|]. exists x. split; [apply nth_app_old; exact Hx|exact Hxid].
    + destruct Is as [Hr [x [Hx Hxid]]]. split; [exact Hr|]. exists x. split; [apply nth_app_old; exact Hx|exact Hxid].
    + destruct Is as [x [Hx Hxh]]. exists x. split; [apply nth_app_old; exact Hx|exact Hxh].
  - intros j x st Hx Hh. apply nth_app_inv in Hx. destruct Hx as [[_ Hx]|[_ ->]].
    + eapply Ih; eauto.
    + destruct (Hnohas st (holds_has _ _ Hh)).
  - intros j x st Hx Hh. apply nth_app_inv in Hx. destruct Hx as [[_ Hx]|[_ ->]].
    + eapply Io; eauto.
    + destruct (Hnohas st Hh).
  - intros j x Hx Hc. apply nth_app_inv in Hx. destruct Hx as [[_ Hx]|[_ ->]].
    + eapply Ic; eauto.
    + destruct Hc as [Hc|[c Hc]]; discriminate.
  - intros q j Hq. destruct (Idl q j Hq) as [x [st [Hx Hr]]]. exists x, st.
    split; [apply nth_app_old; exact Hx|exact Hr].
  - intros q j Hq. destruct (Idr q j Hq) as [x [Hx Hr]]. exists x.
    split; [apply nth_app_old; exact Hx|exact Hr].
Qed.

Lemma step_dereg fx s i s' : Inv fx s -> step fx s (LDereg i) = Some s' -> Inv fx s'.
Proof.
  intros I H. cbn [step] in H.
  destruct (nth_error (reqs s) i) as [r|] eqn:Hi; [|discriminate].
  destruct (match r_pc r with RGot st => Some (OReply st) | RCtx => Some OCtxErr
            | RSendErr => Some OSendErr | _ => None end) as [o|] eqn:Eo; [|discriminate].
  injection H as <-.
  set (r' := set_pc r (RRet o false)).
  assert (Hnew : nth_error (upd (reqs s) i r') i = Some r') by (eapply nth_upd_eq; eauto).
  assert (Hlive : is_ret (r_pc r) = false) by (destruct (r_pc r); try discriminate; reflexivity).
  assert (Hhas : forall st, has (r_pc r') st <-> has (r_pc r) st).
  { intro st. unfold r'. cbn. destruct (r_pc r) eqn:Ep; try discriminate; injection Eo as <-; split;
      intros [A|[c A]]; try discriminate.
    - injection A as <- _. left. reflexivity.
    - injection A as <-. right. eauto. }
  assert (Hholds : forall st, holds (r_pc r') st <-> holds (r_pc r) st).
  { intro st. unfold r'. cbn. destruct (r_pc r) eqn:Ep; try discriminate; injection Eo as <-; split;
      intros [A|A]; try discriminate.
    - injection A as <-. left. reflexivity.
    - injection A as <-. right. reflexivity. }
  destruct I as [Ip Is Iw Ih Io Ic Ind Il Ia Idl Idr].
  constructor; unfold seqs in *; cbn [reqs pend serve arrived hist cur_stanza] in *; auto.
  - intros k j Hin. apply in_remove_id in Hin. destruct Hin as [Hin Hne].
    destruct (Ip k j Hin) as [x [Hx [Hxid Hxr]]].
    destruct (Nat.eq_dec j i) as [->|N].
    + rewrite Hx in Hi. injection Hi as ->. congruence.
    + exists x. rewrite nth_upd_neq by congruence. auto.
  - destruct (serve s) as [|st|st [j|]|st j|st j|st|st|]; auto.
    + destruct Is as [Hr [x [Hx Hxid]]]. split; [exact Hr|].
      destruct (Nat.eq_dec j i) as [->|N].
      * exists r'. rewrite Hx in Hi. injection Hi as ->. split; auto.
      * exists x. rewrite nth_upd_neq by congruence. auto.
    + destruct Is as [Hr [x [Hx [Hxid Hxn]]]]. split; [exact Hr|].
      destruct (Nat.eq_dec j i) as [->|N].
      * exists r'. rewrite Hx in Hi. injection Hi as ->. repeat split; auto.
      * exists x. rewrite nth_upd_neq by congruence. auto.
    + destruct Is as [x [Hx Hxh]].
      destruct (Nat.eq_dec j i) as [->|N].
      * exists r'. rewrite Hx in Hi. injection Hi as ->. split; [exact Hnew|apply Hhas; exact Hxh].
      * exists x. rewrite nth_upd_neq by congruence. auto.
  - intros j x st Hx Hh. destruct (nth_upd_inv _ _ _ _ _ _ Hi Hx) as [[-> ->]|[N Hx']].
    + apply (Ih i r st Hi). apply Hholds. exact Hh.
    + eapply Ih; eauto.
  - intros j x st Hx Hh. destruct (nth_upd_inv _ _ _ _ _ _ Hi Hx) as [[-> ->]|[N Hx']].
    + apply (Io i r st Hi). apply Hhas. exact Hh.
    + eapply Io; eauto.
  - intros j x Hx Hc. destruct (nth_upd_inv _ _ _ _ _ _ Hi Hx) as [[-> ->]|[N Hx']].
    + cbn. apply (Ic i r Hi). cbn in Hc. destruct Hc as [Hc|[c Hc]]; [discriminate|].
      injection Hc as -> _. destruct (r_pc r); try discriminate. left. reflexivity.
    + eapply Ic; eauto.
  - intros q j Hin. destruct (Idl q j Hin) as [x [st [Hx [Hq Hh]]]].
    destruct (Nat.eq_dec j i) as [->|N].
    + exists r', st. rewrite Hx in Hi. injection Hi as ->. repeat split; auto. apply Hhas. exact Hh.
    + exists x, st. rewrite nth_upd_neq by congruence. auto.
  - intros q j Hin. destruct (Idr q j Hin) as [x [Hx Hd]].
    destruct (Nat.eq_dec j i) as [->|N].
    + exists r'. rewrite Hx in Hi. injection Hi as ->. split; [exact Hnew|].
      unfold ctx_done in *. cbn. rewrite Hlive in Hd. rewrite andb_false_r, orb_false_r in Hd.
      rewrite Hd. reflexivity.
    + exists x. rewrite nth_upd_neq by congruence. auto.
Qed.

Theorem Inv_step fx s l s' :
  wf_label l = true -> Inv fx s -> step fx s l = Some s' -> Inv fx s'.
Proof.
  intros W I H. destruct l.
  - eapply step_start; eauto.
  - eapply step_req_labels; eauto; exact Logic.I.
  - eapply step_req_labels; eauto; exact Logic.I.
  - eapply step_recv; eauto.
  - eapply step_req_labels; eauto; exact Logic.I.
  - eapply step_dereg; eauto.
  - eapply step_req_labels; eauto; exact Logic.I.
  - eapply step_req_labels; eauto; exact Logic.I.
  - eapply step_arrive; eauto.
  - eapply step_lookup; eauto.
  - eapply step_decide; eauto.
  - eapply step_offerctx; eauto.
  - eapply step_awaitdone; eauto.
  - eapply step_drain; eauto.
  - eapply step_handler; eauto.
Qed.

Theorem Inv_run fx tr s :
  forallb wf_label tr = true -> run (step fx) init tr = Some s -> Inv fx s.
Proof.
  apply (invariant_run_wf fx (Inv fx)); [apply Inv_init|].
  intros s0 l s1 W I H. exact (Inv_step fx s0 l s1 W I H).
Qed.

(* ---- the life of one call is linear: its outcome is decided once ---- *)

Inductive pc_next : rpc -> rpc -> Prop :=
| pn_send : pc_next RReg RSelect
| pn_sendfail : pc_next RReg RSendErr
| pn_recv st : pc_next RSelect (RGot st)
| pn_ctx : pc_next RSelect RCtx
| pn_ret_reply st : pc_next (RGot st) (RRet (OReply st) false)
| pn_ret_ctx : pc_next RCtx (RRet OCtxErr false)
| pn_ret_send : pc_next RSendErr (RRet OSendErr false)
| pn_close st : pc_next (RRet (OReply st) false) (RRet (OReply st) true).

Definition req_succ (r r' : req) : Prop :=
  r_id r' = r_id r /\ r_name r' = r_name r /\ (r_canc r = true -> r_canc r' = true) /\
  (r_pc r' = r_pc r \/ pc_next (r_pc r) (r_pc r')).

Lemma req_succ_refl r : req_succ r r.
Proof. unfold req_succ. auto. Qed.

Lemma req_step_succ s i f s' :
  req_step s i f = Some s' ->
  (forall r r', f r = Some r' -> req_succ r r') ->
  forall j r, nth_error (reqs s) j = Some r ->
  exists r', nth_error (reqs s') j = Some r' /\ req_succ r r'.
Proof.
  unfold req_step. intros H Hf j r Hj.
  destruct (nth_error (reqs s) i) as [x|] eqn:Hi; [|discriminate].
  destruct (f x) as [x'|] eqn:Hx; [|discriminate]. injection H as <-. cbn.
  destruct (Nat.eq_dec j i) as [->|N].
  - rewrite Hi in Hj. injection Hj as <-. exists x'. split; [eapply nth_upd_eq; eauto|auto].
  - exists r. split; [rewrite nth_upd_neq by congruence; exact Hj|apply req_succ_refl].
Qed.

Lemma step_succ fx s l s' :
  step fx s l = Some s' ->
  forall j r, nth_error (reqs s) j = Some r ->
  exists r', nth_error (reqs s') j = Some r' /\ req_succ r r'.
Proof.
  intros H j r Hj.
  assert (Same : reqs s' = reqs s -> exists r', nth_error (reqs s') j = Some r' /\ req_succ r r')
    by (intro E; rewrite E; exists r; split; [exact Hj|apply req_succ_refl]).
  destruct l; cbn [step] in H.
  - injection H as <-. cbn. exists r. split; [apply nth_app_old; exact Hj|apply req_succ_refl].
  - eapply req_step_succ; eauto. intros x x' Hf. cbv beta in Hf.
    destruct (r_pc x) eqn:E; try discriminate. injection Hf as <-. unfold req_succ. cbn.
    rewrite E. repeat split; auto. right. constructor.
  - eapply req_step_succ; eauto. intros x x' Hf. cbv beta in Hf.
    destruct (r_pc x) eqn:E; try discriminate. injection Hf as <-. unfold req_succ. cbn.
    rewrite E. repeat split; auto. right. constructor.
  - destruct (serve s) as [| | |st k| | | |]; try discriminate.
    destruct (Nat.eqb i k); [|discriminate].
    destruct (nth_error (reqs s) i) as [x|] eqn:Hi; [|discriminate].
    destruct (r_pc x) eqn:E; try discriminate. injection H as <-. cbn.
    destruct (Nat.eq_dec j i) as [->|N].
    + rewrite Hi in Hj. injection Hj as <-. exists (set_pc x (RGot st)).
      split; [eapply nth_upd_eq; eauto|]. unfold req_succ. cbn. rewrite E.
      repeat split; auto. right. constructor.
    + exists r. split; [rewrite nth_upd_neq by congruence; exact Hj|apply req_succ_refl].
  - eapply req_step_succ; eauto. intros x x' Hf. cbv beta in Hf.
    destruct (r_pc x) eqn:E; try discriminate. destruct (r_canc x); try discriminate.
    injection Hf as <-. unfold req_succ. cbn. rewrite E. repeat split; auto. right. constructor.
  - destruct (nth_error (reqs s) i) as [x|] eqn:Hi; [|discriminate].
    destruct (r_pc x) eqn:E; try discriminate; injection H as <-; cbn;
      (destruct (Nat.eq_dec j i) as [->|N];
       [rewrite Hi in Hj; injection Hj as <-; eexists; split; [eapply nth_upd_eq; eauto|];
        unfold req_succ; cbn; rewrite E; repeat split; auto; right; constructor
       |exists r; split; [rewrite nth_upd_neq by congruence; exact Hj|apply req_succ_refl]]).
  - eapply req_step_succ; eauto. intros x x' Hf. cbv beta in Hf.
    destruct (r_pc x) as [| | | | |o c] eqn:E; try discriminate.
    destruct o; try discriminate. destruct c; try discriminate.
    injection Hf as <-. unfold req_succ. cbn. rewrite E. repeat split; auto. right. constructor.
  - eapply req_step_succ; eauto. intros x x' Hf. injection Hf as <-. unfold req_succ. cbn. auto.
  - destruct (serve s); try discriminate. injection H as <-. apply Same. reflexivity.
  - destruct (serve s); try discriminate. destruct (s_resp st); injection H as <-; apply Same; reflexivity.
  - destruct (serve s) as [| |st [k|]| | | | |]; try discriminate.
    + destruct (nth_error (reqs s) k); [|discriminate].
      destruct (name_match _ _); injection H as <-; apply Same; reflexivity.
    + destruct (name_eqb _ _); injection H as <-; apply Same; reflexivity.
  - destruct (serve s) as [| | |st k| | | |]; try discriminate.
    destruct (nth_error (reqs s) k) as [x|]; [|discriminate].
    destruct (ctx_done fx x); [|discriminate]. injection H as <-. apply Same. reflexivity.
  - destruct (serve s) as [| | | |st k| | |]; try discriminate.
    destruct (nth_error (reqs s) k) as [x|]; [|discriminate].
    destruct (r_pc x) as [| | | | |o c]; try discriminate. destruct o; try discriminate.
    destruct c; try discriminate. injection H as <-. apply Same. reflexivity.
  - destruct (serve s); try discriminate. injection H as <-. apply Same. reflexivity.
  - destruct (serve s); try discriminate. injection H as <-. apply Same. reflexivity.
Qed.

(* Once a call has returned its outcome never changes (only the closed flag
   of a response can go from false to true). *)
Lemma returned_succ r r' o c :
  req_succ r r' -> r_pc r = RRet o c ->
  exists c', r_pc r' = RRet o c' /\ (c = true -> c' = true).
Proof.
  intros (_ & _ & _ & [E|N]) Hp.
  - exists c. rewrite E. auto.
  - rewrite Hp in N. inversion N; subst. exists true. auto.
Qed.

Lemma outcome_stable_run fx tr : forall s s' i r o c,
  run (step fx) s tr = Some s' ->
  nth_error (reqs s) i = Some r -> r_pc r = RRet o c ->
  exists r' c', nth_error (reqs s') i = Some r' /\ r_pc r' = RRet o c' /\
                r_id r' = r_id r /\ r_name r' = r_name r /\ (c = true -> c' = true).
Proof.
  induction tr as [|l tr IH]; intros s s' i r o c R Hi Hp; cbn in R.
  - injection R as <-. exists r, c. auto.
  - destruct (step fx s l) as [s1|] eqn:E; [|discriminate].
    destruct (step_succ fx s l s1 E i r Hi) as [r1 [H1 S1]].
    destruct (returned_succ _ _ _ _ S1 Hp) as [c1 [Hp1 Hc1]].
    destruct (IH s1 s' i r1 o c1 R H1 Hp1) as [r' [c' (A & B & C & D & F)]].
    destruct S1 as (S1a & S1b & _).
    exists r', c'. repeat split; auto; congruence.
Qed.

(* ---- statements used in Properties.v ---- *)

Definition outcome_valid (r : req) (o : outcome) : Prop :=
  match o with
  | OReply st => s_id st = r_id r /\ n_local (s_name st) = n_local (r_name r) /\ s_resp st = true
  | OCtxErr => r_canc r = true
  | OSendErr => True
  end.

Lemma outcome_valid_run fx tr s i r o c :
  forallb wf_label tr = true -> run (step fx) init tr = Some s ->
  nth_error (reqs s) i = Some r -> r_pc r = RRet o c -> outcome_valid r o.
Proof.
  intros W R Hi Hp. pose proof (Inv_run fx tr s W R) as I.
  destruct o as [st| |]; cbn; auto.
  - destruct (inv_out _ _ I i r st Hi) as (A & B & C & _); [right; eauto|].
    repeat split; auto. symmetry. apply name_match_local. exact B.
  - apply (inv_ctx _ _ I i r Hi). right. eauto.
Qed.

(* ---- every arrived element has exactly one fate ---- *)

Lemma nodup_map_inj {A} (f : A -> nat) (l : list A) a b :
  NoDup (map f l) -> In a l -> In b l -> f a = f b -> a = b.
Proof.
  induction l as [|x l IH]; cbn; [tauto|]. intros N Ha Hb E. inversion N as [|? ? Hx N']; subst.
  destruct Ha as [->|Ha], Hb as [->|Hb]; auto.
  - exfalso. apply Hx. rewrite E. apply in_map. exact Hb.
  - exfalso. apply Hx. rewrite <- E. apply in_map. exact Ha.
Qed.

Lemma accounting_run fx tr s :
  forallb wf_label tr = true -> run (step fx) init tr = Some s ->
  (forall e e', In e (hist s) -> In e' (hist s) -> ev_seq e = ev_seq e' -> e = e') /\
  (forall e, In e (hist s) -> ev_seq e < arrived s) /\
  (serve s = SIdle -> forall q, q < arrived s -> exists e, In e (hist s) /\ ev_seq e = q) /\
  (forall q i, In (EDeliver q i) (hist s) ->
     exists r st, nth_error (reqs s) i = Some r /\ s_seq st = q /\ has (r_pc r) st) /\
  (forall i r st, nth_error (reqs s) i = Some r -> has (r_pc r) st ->
     In (EDeliver (s_seq st) i) (hist s)) /\
  (forall q i, In (EDrop q i) (hist s) ->
     exists r, nth_error (reqs s) i = Some r /\ ctx_done fx r = true).
Proof.
  intros W R. pose proof (Inv_run fx tr s W R) as I. repeat split.
  - intros e e' He He' E. eapply nodup_map_inj; eauto. exact (inv_nodup _ _ I).
  - intros e He. apply (inv_lt _ _ I). unfold seqs. apply in_map. exact He.
  - intros Es q Hq. pose proof (inv_acct _ _ I) as Ia. rewrite Es in Ia. cbn in Ia.
    destruct Ia as [Ia|Ia]; [discriminate|]. specialize (Ia q Hq). unfold seqs in Ia.
    apply in_map_iff in Ia. destruct Ia as [e [A B]]. eauto.
  - exact (inv_deliv _ _ I).
  - intros i r st Hi Hh. apply (inv_out _ _ I i r st Hi Hh).
  - exact (inv_drop _ _ I).
Qed.

(* What the serve goroutine does with an element nobody is registered for. *)
Definition no_waiter (s : state) (st : stanza) : Prop :=
  s_resp st = false \/
  (lookup (s_id st) (pend s) = None /\ n_local (s_name st) <> 0%N) \/
  (exists i r, lookup (s_id st) (pend s) = Some i /\ nth_error (reqs s) i = Some r /\
               name_match (r_name r) (s_name st) = false).

Definition handler_path (st : stanza) : list label :=
  if s_resp st then [LLookup; LDecide; LHandler] else [LLookup; LHandler].

Lemma unmatched_to_handler fx s st :
  serve s = SRead st -> no_waiter s st ->
  exists s', run (step fx) s (handler_path st) = Some s' /\ serve s' = SIdle /\
             hist s' = hist s ++ [EHandle (s_seq st)] /\ reqs s' = reqs s /\ pend s' = pend s.
Proof.
  intros Es H. unfold handler_path. destruct H as [H|[[H1 H2]|[i [r [H1 [H2 H3]]]]]].
  - rewrite H. cbn [run step]. rewrite Es, H. cbn. eauto 6.
  - destruct (s_resp st) eqn:Er; cbn [run step]; rewrite Es, Er; cbn; [|eauto 6].
    rewrite H1. destruct (n_local (s_name st)); [congruence|]. cbn. eauto 6.
  - destruct (s_resp st) eqn:Er; cbn [run step]; rewrite Es, Er; cbn; [|eauto 6].
    rewrite H1, H2, H3. cbn. eauto 6.
Qed.

(* ---- progress ---- *)

Definition enabled (fx : bool) (s : state) (l : label) : Prop := step fx s l <> None.

Definition serve_waits (fx : bool) (s : state) : Prop :=
  match serve s with
  | SIdle => True
  | SRead _ => enabled fx s LLookup
  | SLooked _ _ => enabled fx s LDecide
  | SDrain _ => enabled fx s LDrain
  | SHandler _ => enabled fx s LHandler
  | SOffer st i =>
      exists r, nth_error (reqs s) i = Some r /\
      match r_pc r with
      | RSelect => enabled fx s (LRecv i)
      | RReg => enabled fx s (LSendOk i) /\ enabled fx s (LSendFail i)
      | RSendErr => enabled fx s (LDereg i)
      | RCtx => enabled fx s LOfferCtx
      | RRet _ _ => fx = true -> enabled fx s LOfferCtx
      | RGot _ => False
      end
  | SAwait st i =>
      exists r, nth_error (reqs s) i = Some r /\
      match r_pc r with
      | RGot st' => st' = st /\ enabled fx s (LDereg i)
      | RRet (OReply st') false => st' = st /\ enabled fx s (LClose i)
      | RRet (OReply st') true => st' = st /\ enabled fx s LAwaitDone
      | _ => False
      end
  | SPanic => False
  end.

Lemma serve_waits_inv fx s : Inv fx s -> serve_waits fx s.
Proof.
  intro I. unfold serve_waits, enabled. pose proof (inv_serve _ _ I) as Is.
  destruct (serve s) as [|st|st e|st i|st i|st|st|] eqn:Es; auto; cbn [step]; rewrite ?Es; try discriminate.
  - destruct (s_resp st); discriminate.
  - destruct e as [i|].
    + destruct Is as [_ [r [Hr _]]]. rewrite Hr. destruct (name_match _ _); discriminate.
    + destruct (name_eqb _ _); discriminate.
  - destruct Is as [_ [r [Hr _]]]. exists r. split; [exact Hr|].
    destruct (r_pc r) as [| |st'| | |o c] eqn:Ep.
    + unfold req_step. rewrite Hr, Ep. split; discriminate.
    + rewrite Nat.eqb_refl, Hr, Ep. discriminate.
    + assert (Hh : holds (r_pc r) st') by (left; exact Ep).
      pose proof (inv_holder _ _ I i r st' Hr Hh) as E. rewrite Es in E. discriminate.
    + rewrite Hr. unfold ctx_done.
      rewrite (inv_ctx _ _ I i r Hr (or_introl Ep)). cbn. discriminate.
    + rewrite Hr, Ep. discriminate.
    + intros ->. rewrite Hr. unfold ctx_done. rewrite Ep. cbn. rewrite orb_true_r. discriminate.
  - destruct Is as [r [Hr Hh]]. exists r. split; [exact Hr|].
    destruct Hh as [Hh|[c Hh]]; rewrite Hh.
    + split; [reflexivity|]. rewrite Hr, Hh. discriminate.
    + destruct c; (split; [reflexivity|]).
      * rewrite Hr, Hh. discriminate.
      * unfold req_step. rewrite Hr, Hh. discriminate.
Qed.

(* "once the caller closes the response the serve loop continues" *)
Lemma close_releases_serve fx s i s1 :
  Inv fx s -> step fx s (LClose i) = Some s1 ->
  (exists st, serve s = SAwait st i) /\ enabled fx s1 LAwaitDone.
Proof.
  intros I H. cbn [step] in H. unfold req_step in H.
  destruct (nth_error (reqs s) i) as [r|] eqn:Hi; [|discriminate].
  destruct (r_pc r) as [| | | | |o c] eqn:Ep; try discriminate.
  destruct o as [st| |]; try discriminate. destruct c; try discriminate.
  injection H as <-.
  assert (Es : serve s = SAwait st i) by (apply (inv_holder _ _ I i r st Hi); right; exact Ep).
  split; [eauto|]. unfold enabled. cbn [step set_reqs serve reqs]. rewrite Es.
  rewrite (nth_upd_eq _ _ _ _ Hi). cbn. discriminate.
Qed.

(* After the repair, a call that leaves without a response releases the serve
   goroutine that is offering to it. *)
Lemma return_releases_serve s i s1 st :
  Inv true s -> serve s = SOffer st i -> step true s (LDereg i) = Some s1 ->
  enabled true s1 LOfferCtx.
Proof.
  intros I Es H. cbn [step] in H.
  destruct (nth_error (reqs s) i) as [r|] eqn:Hi; [|discriminate].
  destruct (match r_pc r with RGot st => Some (OReply st) | RCtx => Some OCtxErr
            | RSendErr => Some OSendErr | _ => None end) as [o|] eqn:Eo; [|discriminate].
  injection H as <-. unfold enabled. cbn [step serve reqs]. rewrite Es.
  rewrite (nth_upd_eq _ _ _ _ Hi). unfold ctx_done. cbn. rewrite orb_true_r. discriminate.
Qed.

Lemma send_then_recv fx s i s1 st :
  serve s = SOffer st i -> step fx s (LSendOk i) = Some s1 -> enabled fx s1 (LRecv i).
Proof.
  intros Es H. cbn [step] in H. unfold req_step in H.
  destruct (nth_error (reqs s) i) as [r|] eqn:Hi; [|discriminate].
  destruct (r_pc r) eqn:Ep; try discriminate. injection H as <-.
  unfold enabled. cbn [step set_reqs serve reqs]. rewrite Es, Nat.eqb_refl.
  rewrite (nth_upd_eq _ _ _ _ Hi). cbn. discriminate.
Qed.

(* A call that has not returned is at its select (waiting for the reply or for
   its context) or can take a step of its own. *)
Lemma requester_waits fx s i r :
  nth_error (reqs s) i = Some r ->
  match r_pc r with
  | RReg => enabled fx s (LSendOk i) /\ enabled fx s (LSendFail i)
  | RSelect => r_canc r = true -> enabled fx s (LCtxDone i)
  | RGot _ | RCtx | RSendErr => enabled fx s (LDereg i)
  | RRet _ _ => True
  end.
Proof.
  intro Hi. unfold enabled. destruct (r_pc r) eqn:Ep; cbn [step]; unfold req_step; rewrite ?Hi, ?Ep;
    try discriminate; auto.
  - split; discriminate.
  - intros ->. discriminate.
Qed.

(* ---- table hygiene: deregistration on return ---- *)

Lemma pending_live_run fx tr s id i :
  forallb wf_label tr = true -> run (step fx) init tr = Some s -> In (id, i) (pend s) ->
  exists r, nth_error (reqs s) i = Some r /\ r_id r = id /\ is_ret (r_pc r) = false.
Proof. intros W R. apply (inv_pend _ _ (Inv_run fx tr s W R)). Qed.

Lemma no_panic_run fx tr s :
  forallb wf_label tr = true -> run (step fx) init tr = Some s -> serve s <> SPanic.
Proof.
  intros W R E. pose proof (inv_serve _ _ (Inv_run fx tr s W R)) as Is. rewrite E in Is. exact Is.
Qed.

Lemma serve_waits_run fx tr s :
  forallb wf_label tr = true -> run (step fx) init tr = Some s -> serve_waits fx s.
Proof. intros W R. apply serve_waits_inv. exact (Inv_run fx tr s W R). Qed.

(* ---- the pinned code (fx = false): a permanent stall of the serve loop ---- *)

Lemma req_step_canc s i f s' j r :
  req_step s i f = Some s' -> nth_error (reqs s) j = Some r ->
  (i <> j \/ forall x x', f x = Some x' -> r_canc x' = r_canc x) ->
  exists r', nth_error (reqs s') j = Some r' /\ r_canc r' = r_canc r.
Proof.
  unfold req_step. intros H Hj Hf.
  destruct (nth_error (reqs s) i) as [x|] eqn:Hi; [|discriminate].
  destruct (f x) as [x'|] eqn:Hx; [|discriminate]. injection H as <-. cbn.
  destruct (Nat.eq_dec i j) as [->|N].
  - rewrite Hi in Hj. injection Hj as <-. exists x'. split; [eapply nth_upd_eq; eauto|].
    destruct Hf as [Hf|Hf]; [congruence|eauto].
  - exists r. split; [rewrite nth_upd_neq by congruence; exact Hj|reflexivity].
Qed.

Lemma step_canc fx s l s' j r :
  step fx s l = Some s' -> nth_error (reqs s) j = Some r -> l <> LCancel j ->
  exists r', nth_error (reqs s') j = Some r' /\ r_canc r' = r_canc r.
Proof.
  intros H Hj Hl.
  assert (Same : reqs s' = reqs s -> exists r', nth_error (reqs s') j = Some r' /\ r_canc r' = r_canc r)
    by (intro E; rewrite E; eauto).
  destruct l; cbn [step] in H.
  - injection H as <-. cbn. exists r. split; [apply nth_app_old; exact Hj|reflexivity].
  - eapply req_step_canc; eauto. right. intros x x' Hf.
    destruct (r_pc x); try discriminate. injection Hf as <-. reflexivity.
  - eapply req_step_canc; eauto. right. intros x x' Hf.
    destruct (r_pc x); try discriminate. injection Hf as <-. reflexivity.
  - destruct (serve s) as [| | |st k| | | |]; try discriminate.
    destruct (Nat.eqb i k); [|discriminate].
    destruct (nth_error (reqs s) i) as [x|] eqn:Hi; [|discriminate].
    destruct (r_pc x); try discriminate. injection H as <-. cbn.
    destruct (Nat.eq_dec j i) as [->|N].
    + rewrite Hi in Hj. injection Hj as <-. eexists. split; [eapply nth_upd_eq; eauto|reflexivity].
    + exists r. split; [rewrite nth_upd_neq by congruence; exact Hj|reflexivity].
  - eapply req_step_canc; eauto. right. intros x x' Hf.
    destruct (r_pc x); try discriminate. destruct (r_canc x) eqn:Ec; try discriminate.
    injection Hf as <-. cbn. auto.
  - destruct (nth_error (reqs s) i) as [x|] eqn:Hi; [|discriminate].
    destruct (r_pc x); try discriminate; injection H as <-; cbn;
      (destruct (Nat.eq_dec j i) as [->|N];
       [rewrite Hi in Hj; injection Hj as <-; eexists; split; [eapply nth_upd_eq; eauto|reflexivity]
       |exists r; split; [rewrite nth_upd_neq by congruence; exact Hj|reflexivity]]).
  - eapply req_step_canc; eauto. right. intros x x' Hf.
    destruct (r_pc x) as [| | | | |o c]; try discriminate. destruct o; try discriminate.
    destruct c; try discriminate. injection Hf as <-. reflexivity.
  - eapply req_step_canc; eauto; left; congruence.
  - destruct (serve s); try discriminate. injection H as <-. apply Same. reflexivity.
  - destruct (serve s); try discriminate. destruct (s_resp st); injection H as <-; apply Same; reflexivity.
  - destruct (serve s) as [| |st [k|]| | | | |]; try discriminate.
    + destruct (nth_error (reqs s) k); [|discriminate].
      destruct (name_match _ _); injection H as <-; apply Same; reflexivity.
    + destruct (name_eqb _ _); injection H as <-; apply Same; reflexivity.
  - destruct (serve s) as [| | |st k| | | |]; try discriminate.
    destruct (nth_error (reqs s) k) as [x|]; [|discriminate].
    destruct (ctx_done fx x); [|discriminate]. injection H as <-. apply Same. reflexivity.
  - destruct (serve s) as [| | | |st k| | |]; try discriminate.
    destruct (nth_error (reqs s) k) as [x|]; [|discriminate].
    destruct (r_pc x) as [| | | | |o c]; try discriminate. destruct o; try discriminate.
    destruct c; try discriminate. injection H as <-. apply Same. reflexivity.
  - destruct (serve s); try discriminate. injection H as <-. apply Same. reflexivity.
  - destruct (serve s); try discriminate. injection H as <-. apply Same. reflexivity.
Qed.

(* serve offers to call i, which has returned and whose context is not cancelled *)
Definition stalled (s : state) (st : stanza) (i : nat) : Prop :=
  serve s = SOffer st i /\
  exists r o c, nth_error (reqs s) i = Some r /\ r_pc r = RRet o c /\ r_canc r = false.

Lemma req_step_serve s i f s' : req_step s i f = Some s' -> serve s' = serve s.
Proof.
  unfold req_step. destruct (nth_error (reqs s) i) as [r|]; [|discriminate].
  destruct (f r); [|discriminate]. intro H. injection H as <-. reflexivity.
Qed.

Lemma serve_unchanged_by_calls fx s l s' :
  match l with
  | LStart _ _ | LSendOk _ | LSendFail _ | LCtxDone _ | LDereg _ | LClose _ | LCancel _ => True
  | _ => False
  end -> step fx s l = Some s' -> serve s' = serve s.
Proof.
  intros Hl H. destruct l; try contradiction; cbn [step] in H;
    try (eapply req_step_serve; exact H).
  - injection H as <-. reflexivity.
  - destruct (nth_error (reqs s) i) as [x|]; [|discriminate].
    destruct (r_pc x); try discriminate; injection H as <-; reflexivity.
Qed.

Lemma stalled_step s l s' st i :
  stalled s st i -> l <> LCancel i -> step false s l = Some s' -> stalled s' st i.
Proof.
  intros [Es [r [o [c [Hi [Hp Hc]]]]]] Hl H.
  destruct (step_succ false s l s' H i r Hi) as [r1 [H1 S1]].
  destruct (returned_succ _ _ _ _ S1 Hp) as [c1 [Hp1 _]].
  destruct (step_canc false s l s' i r H Hi Hl) as [r2 [H2 Hc2]].
  rewrite H1 in H2. injection H2 as <-.
  assert (Hr : exists r o c, nth_error (reqs s') i = Some r /\ r_pc r = RRet o c /\ r_canc r = false)
    by (exists r1, o, c1; repeat split; congruence).
  split; [|exact Hr].
  destruct l;
    try (match type of H with step _ _ ?l0 = _ =>
           rewrite (serve_unchanged_by_calls false s l0 s' Logic.I H) end; exact Es);
    cbn [step] in H; rewrite Es in H; try discriminate.
  - destruct (Nat.eqb i0 i) eqn:E; [|discriminate]. apply Nat.eqb_eq in E. subst i0.
    rewrite Hi, Hp in H. discriminate.
  - rewrite Hi in H. unfold ctx_done in H. rewrite Hc in H. cbn in H. discriminate.
Qed.

Lemma stalled_run tr : forall s s' st i,
  stalled s st i -> ~ In (LCancel i) tr -> run (step false) s tr = Some s' -> stalled s' st i.
Proof.
  induction tr as [|l tr IH]; intros s s' st i Hs Hn R; cbn in R.
  - injection R as <-. exact Hs.
  - destruct (step false s l) as [s1|] eqn:E; [|discriminate].
    apply (IH s1 s' st i); auto.
    + apply (stalled_step s l s1 st i Hs); auto. intros ->. apply Hn. left. reflexivity.
    + intro A. apply Hn. right. exact A.
Qed.

Definition iq : name := mkname 1 1.
Definition stall_trace : list label :=
  [LStart 7 iq; LArrive 7 iq true; LLookup; LDecide; LSendFail 0; LDereg 0].

Lemma pinned_stall :
  exists s st, run (step false) init stall_trace = Some s /\ stalled s st 0 /\
    forall tr s', ~ In (LCancel 0) tr -> run (step false) s tr = Some s' ->
                  serve s' = SOffer st 0.
Proof.
  eexists. exists (mkst 0 7 iq true). split; [vm_compute; reflexivity|].
  assert (St : stalled (mkstate [mkreq 7 iq false (RRet OSendErr false)] [] (SOffer (mkst 0 7 iq true) 0) 1 [])
                       (mkst 0 7 iq true) 0).
  { split; [reflexivity|]. exists (mkreq 7 iq false (RRet OSendErr false)), OSendErr, false. auto. }
  split; [exact St|]. intros tr s' Hn R. exact (proj1 (stalled_run tr _ s' _ 0 St Hn R)).
Qed.

(* The same schedule on the repaired code releases the serve goroutine. *)
Lemma fixed_no_stall :
  exists s, run (step true) init (stall_trace ++ [LOfferCtx; LDrain]) = Some s /\ serve s = SIdle.
Proof. eexists. split; [vm_compute; reflexivity|reflexivity]. Qed.

(* The operator-precedence hazard: with an empty local name (which the
   tokenizer never produces) the zero-value entry would be dereferenced. *)
Lemma panic_hazard :
  exists s, run (step true) init [LArrive 5 (mkname 1 0) true; LLookup; LDecide] = Some s /\
            serve s = SPanic.
Proof. eexists. split; [vm_compute; reflexivity|reflexivity]. Qed.
