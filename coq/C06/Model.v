(* C06/Model.v — executable model of the correlated-wait hand-off of
   mellium.im/xmpp: session.go sendResp (requester side) and the response
   branch of handleInputStream (serve side), with iqResponder.Close.

   The model is a labelled transition system (lib/Lts.v).  Actors:
     requester i   one call of Session.sendResp (SendIQ/SendMessage/SendPresence
                   and the Encode*/Unmarshal*/Iter* helpers built on them);
     serve         the goroutine running Session.Serve -> handleInputStream;
     peer          decides which stanza arrives next (any id, name, type);
     env           cancels contexts.
   Every lock-protected region of the code is one step; the steps are at least
   as fine as the `verif` yield points, so every schedule the harness can force
   on the real code is a label sequence of the model.

   Names, ids: only equality matters, so both are numbers.  A stanza name is
   (space, local); space 0 is the empty name space and local 0 the empty local
   name (which the XML tokenizer never produces).

   The parameter [fx] selects the code that is modelled: [true] is the tree
   after the repair "fix: release the serve loop when a correlated request
   returns without a response" (sendResp registers a context that is cancelled
   when it returns), [false] the pinned tree (the registered context is the
   caller's). *)
From Coq Require Import List Arith NArith Bool.
Import ListNotations.
From XV Require Import lib.Lts.

(* ---- data ---- *)

Record name := mkname { n_space : N; n_local : N }.

Definition name_eqb (a b : name) : bool :=
  N.eqb (n_space a) (n_space b) && N.eqb (n_local a) (n_local b).

(* the zero value of xml.Name and `xml.Name{Local: start.Name.Local}` *)
Definition zero_name : name := mkname 0 0.
Definition empty_space (n : name) : name := mkname 0 (n_local n).

(* session.go: `readerChan.stanzaName == start.Name || readerChan.stanzaName == emptySpace` *)
Definition name_match (entry incoming : name) : bool :=
  name_eqb entry incoming || name_eqb entry (empty_space incoming).

(* An arrived top-level element: arrival number, id attribute, name, and
   whether its type attribute is "result" or "error". *)
Record stanza := mkst { s_seq : nat; s_id : N; s_name : name; s_resp : bool }.

Inductive outcome :=
| OReply (st : stanza)   (* returned (response, nil) *)
| OCtxErr                (* returned (nil, ctx.Err()) *)
| OSendErr.              (* returned (nil, err) from SendElement *)

(* Program counter of one sendResp call. *)
Inductive rpc :=
| RReg                   (* entry stored in sentStanzas; before SendElement *)
| RSelect                (* element sent; at the select on reply / ctx.Done *)
| RGot (st : stanza)     (* received the response; deferred delete not yet run *)
| RCtx                   (* chose ctx.Done; deferred delete not yet run *)
| RSendErr               (* SendElement failed; deferred delete not yet run *)
| RRet (o : outcome) (closed : bool).  (* returned; closed: response closed *)

Record req := mkreq { r_id : N; r_name : name; r_canc : bool; r_pc : rpc }.

(* Program counter of the serve goroutine inside handleInputStream. *)
Inductive spc :=
| SIdle                              (* waiting for the next top-level element *)
| SRead (st : stanza)                (* start element read *)
| SLooked (st : stanza) (e : option nat)  (* after the table lookup *)
| SOffer (st : stanza) (i : nat)     (* at the select: offer to i / i's ctx.Done *)
| SAwait (st : stanza) (i : nat)     (* handed off; waiting for the close *)
| SDrain (st : stanza)               (* consuming the rest of the element *)
| SHandler (st : stanza)             (* about to pass the element to the handler *)
| SPanic.                            (* nil dereference of the zero-value entry *)

(* Ghost history: what happened to each arrived element. *)
Inductive event :=
| EDeliver (seq i : nat)   (* handed to requester i *)
| EHandle (seq : nat)      (* passed to the handler *)
| EDrop (seq i : nat).     (* entry of i found but i's context was done: drained *)

Definition ev_seq (e : event) : nat :=
  match e with EDeliver q _ => q | EHandle q => q | EDrop q _ => q end.

Record state := mkstate {
  reqs : list req;             (* all sendResp calls so far, by index *)
  pend : list (N * nat);       (* sentStanzas: id -> index of the registering call *)
  serve : spc;
  arrived : nat;               (* number of elements read so far *)
  hist : list event }.

Definition init : state := mkstate [] [] SIdle 0 [].

(* ---- the pending table (a Go map: insert overwrites, delete by key) ---- *)

Fixpoint remove_id (id : N) (p : list (N * nat)) : list (N * nat) :=
  match p with
  | [] => []
  | (k, v) :: rest => if N.eqb k id then remove_id id rest else (k, v) :: remove_id id rest
  end.

Fixpoint lookup (id : N) (p : list (N * nat)) : option nat :=
  match p with
  | [] => None
  | (k, v) :: rest => if N.eqb k id then Some v else lookup id rest
  end.

Definition insert (id : N) (v : nat) (p : list (N * nat)) : list (N * nat) :=
  (id, v) :: remove_id id p.

Fixpoint upd {A} (l : list A) (i : nat) (x : A) : list A :=
  match l, i with
  | [], _ => []
  | _ :: rest, O => x :: rest
  | y :: rest, S i' => y :: upd rest i' x
  end.

(* ---- labels ---- *)

Inductive label :=
| LStart (id : N) (nm : name)        (* a new call registers; its index is the number of calls so far *)
| LSendOk (i : nat)                  (* SendElement succeeded *)
| LSendFail (i : nat)                (* SendElement returned an error *)
| LRecv (i : nat)                    (* rendezvous on the channel of call i *)
| LCtxDone (i : nat)                 (* call i's select takes ctx.Done *)
| LDereg (i : nat)                   (* deferred delete, then return *)
| LClose (i : nat)                   (* the caller closes the response *)
| LCancel (i : nat)                  (* the caller's context is cancelled *)
| LArrive (id : N) (nm : name) (resp : bool)   (* serve reads the next start element *)
| LLookup                            (* table lookup under the mutex (or none: not a reply) *)
| LDecide                            (* the name test *)
| LOfferCtx                          (* serve's select takes the entry's ctx.Done *)
| LAwaitDone                         (* serve sees the channel closed *)
| LDrain                             (* rest of the element consumed *)
| LHandler.                          (* element passed to the handler *)

(* The tokenizer never yields an empty local name. *)
Definition wf_label (l : label) : bool :=
  match l with
  | LArrive _ nm _ => negb (N.eqb (n_local nm) 0)
  | _ => true
  end.

(* ---- steps ---- *)

Definition is_ret (p : rpc) : bool := match p with RRet _ _ => true | _ => false end.

(* Is the context stored in the table entry of call r done? *)
Definition ctx_done (fx : bool) (r : req) : bool := r_canc r || (fx && is_ret (r_pc r)).

Definition set_reqs (s : state) (rs : list req) : state :=
  mkstate rs (pend s) (serve s) (arrived s) (hist s).
Definition set_serve (s : state) (p : spc) : state :=
  mkstate (reqs s) (pend s) p (arrived s) (hist s).
Definition add_hist (s : state) (e : event) : state :=
  mkstate (reqs s) (pend s) (serve s) (arrived s) (hist s ++ [e]).
Definition set_pc (r : req) (p : rpc) : req := mkreq (r_id r) (r_name r) (r_canc r) p.

(* a step of call i that only changes its own record *)
Definition req_step (s : state) (i : nat) (f : req -> option req) : option state :=
  match nth_error (reqs s) i with
  | Some r => match f r with
              | Some r' => Some (set_reqs s (upd (reqs s) i r'))
              | None => None
              end
  | None => None
  end.

Definition step (fx : bool) (s : state) (l : label) : option state :=
  match l with
  | LStart id nm =>
      Some (mkstate (reqs s ++ [mkreq id nm false RReg])
                    (insert id (length (reqs s)) (pend s))
                    (serve s) (arrived s) (hist s))
  | LSendOk i =>
      req_step s i (fun r => match r_pc r with RReg => Some (set_pc r RSelect) | _ => None end)
  | LSendFail i =>
      req_step s i (fun r => match r_pc r with RReg => Some (set_pc r RSendErr) | _ => None end)
  | LCancel i =>
      req_step s i (fun r => Some (mkreq (r_id r) (r_name r) true (r_pc r)))
  | LCtxDone i =>
      req_step s i (fun r => match r_pc r with
                             | RSelect => if r_canc r then Some (set_pc r RCtx) else None
                             | _ => None
                             end)
  | LClose i =>
      req_step s i (fun r => match r_pc r with
                             | RRet (OReply st) false => Some (set_pc r (RRet (OReply st) true))
                             | _ => None
                             end)
  | LDereg i =>
      match nth_error (reqs s) i with
      | Some r =>
          match (match r_pc r with
                 | RGot st => Some (OReply st)
                 | RCtx => Some OCtxErr
                 | RSendErr => Some OSendErr
                 | _ => None
                 end) with
          | Some o => Some (mkstate (upd (reqs s) i (set_pc r (RRet o false)))
                                    (remove_id (r_id r) (pend s))
                                    (serve s) (arrived s) (hist s))
          | None => None
          end
      | None => None
      end
  | LRecv i =>
      match serve s with
      | SOffer st j =>
          if Nat.eqb i j then
            match nth_error (reqs s) i with
            | Some r =>
                match r_pc r with
                | RSelect =>
                    Some (mkstate (upd (reqs s) i (set_pc r (RGot st))) (pend s)
                                  (SAwait st i) (arrived s)
                                  (hist s ++ [EDeliver (s_seq st) i]))
                | _ => None
                end
            | None => None
            end
          else None
      | _ => None
      end
  | LArrive id nm resp =>
      match serve s with
      | SIdle => Some (mkstate (reqs s) (pend s) (SRead (mkst (arrived s) id nm resp))
                               (S (arrived s)) (hist s))
      | _ => None
      end
  | LLookup =>
      match serve s with
      | SRead st =>
          if s_resp st then Some (set_serve s (SLooked st (lookup (s_id st) (pend s))))
          else Some (set_serve s (SHandler st))
      | _ => None
      end
  | LDecide =>
      match serve s with
      | SLooked st (Some i) =>
          match nth_error (reqs s) i with
          | Some r => if name_match (r_name r) (s_name st)
                      then Some (set_serve s (SOffer st i))
                      else Some (set_serve s (SHandler st))
          | None => None
          end
      | SLooked st None =>
          (* `ok && a == b || a == c` with the zero-value entry: a is the zero name *)
          if name_eqb zero_name (empty_space (s_name st))
          then Some (set_serve s SPanic)
          else Some (set_serve s (SHandler st))
      | _ => None
      end
  | LOfferCtx =>
      match serve s with
      | SOffer st i =>
          match nth_error (reqs s) i with
          | Some r => if ctx_done fx r
                      then Some (add_hist (set_serve s (SDrain st)) (EDrop (s_seq st) i))
                      else None
          | None => None
          end
      | _ => None
      end
  | LAwaitDone =>
      match serve s with
      | SAwait st i =>
          match nth_error (reqs s) i with
          | Some r => match r_pc r with
                      | RRet (OReply _) true => Some (set_serve s (SDrain st))
                      | _ => None
                      end
          | None => None
          end
      | _ => None
      end
  | LDrain =>
      match serve s with
      | SDrain st => Some (set_serve s SIdle)
      | _ => None
      end
  | LHandler =>
      match serve s with
      | SHandler st => Some (add_hist (set_serve s SIdle) (EHandle (s_seq st)))
      | _ => None
      end
  end.

(* ---- observables compared with the implementation ---- *)

Inductive ocode :=
| CNone                  (* the call has not returned *)
| CReply (seq : nat) (closed : bool)
| CCtx
| CSend.

Definition ocode_eqb (a b : ocode) : bool :=
  match a, b with
  | CNone, CNone | CCtx, CCtx | CSend, CSend => true
  | CReply x c, CReply y d => Nat.eqb x y && Bool.eqb c d
  | _, _ => false
  end.

Definition req_code (r : req) : ocode :=
  match r_pc r with
  | RRet (OReply st) c => CReply (s_seq st) c
  | RRet OCtxErr _ => CCtx
  | RRet OSendErr _ => CSend
  | _ => CNone
  end.

Definition handled (s : state) : list nat :=
  flat_map (fun e => match e with EHandle q => [q] | _ => [] end) (hist s).

(* where the serve goroutine is: 0 idle, 1 offering, 2 awaiting close, 3 other, 4 panic *)
Definition serve_code (s : state) : nat :=
  match serve s with
  | SIdle => 0 | SOffer _ _ => 1 | SAwait _ _ => 2 | SPanic => 4 | _ => 3
  end.

Fixpoint list_eqb {A} (eqb : A -> A -> bool) (a b : list A) : bool :=
  match a, b with
  | [], [] => true
  | x :: a', y :: b' => eqb x y && list_eqb eqb a' b'
  | _, _ => false
  end.

(* One forced schedule: the labels the harness observed on the real code, and
   the observables at the end. *)
Record tcase := mkcase {
  c_fx : bool;
  c_trace : list label;
  o_codes : list ocode;        (* per call *)
  o_handled : list nat;        (* arrival numbers passed to the handler, in order *)
  o_pending : nat;             (* Session.VerifPending() *)
  o_serve : nat }.

Definition case_ok (c : tcase) : bool :=
  forallb wf_label (c_trace c) &&
  match run (step (c_fx c)) init (c_trace c) with
  | Some s =>
      list_eqb ocode_eqb (map req_code (reqs s)) (o_codes c) &&
      list_eqb Nat.eqb (handled s) (o_handled c) &&
      Nat.eqb (length (pend s)) (o_pending c) &&
      Nat.eqb (serve_code s) (o_serve c)
  | None => false      (* the implementation did something the model does not allow *)
  end.

(* Free-running (unforced) executions: only the end state is observed.  The
   checker is the conjunction of what the theorems of Properties.v imply for a
   quiescent state; see Proofs.v [final_ok_sound]. *)
Record fcall := mkfcall { f_id : N; f_local : N; f_code : ocode; f_canc : bool }.
Record farr := mkfarr { a_id : N; a_local : N; a_resp : bool }.
Record fcase := mkfcase {
  fc_calls : list fcall;
  fc_arrivals : list farr;      (* in arrival order *)
  fc_handled : list nat;
  fc_pending : nat }.

Definition count_nat (x : nat) (l : list nat) : nat := length (filter (Nat.eqb x) l).

Definition delivered_seqs (c : fcase) : list nat :=
  flat_map (fun f => match f_code f with CReply q _ => [q] | _ => [] end) (fc_calls c).

Definition fcall_ok (c : fcase) (f : fcall) : bool :=
  match f_code f with
  | CReply q _ =>
      match nth_error (fc_arrivals c) q with
      | Some a => N.eqb (a_id a) (f_id f) && N.eqb (a_local a) (f_local f) && a_resp a
      | None => false
      end
  | CCtx => f_canc f
  | _ => true
  end.

Definition final_ok (c : fcase) : bool :=
  forallb (fcall_ok c) (fc_calls c) &&
  forallb (fun q => Nat.leb (count_nat q (delivered_seqs c) + count_nat q (fc_handled c)) 1)
          (seq 0 (length (fc_arrivals c))) &&
  forallb (fun q => Nat.ltb q (length (fc_arrivals c))) (fc_handled c) &&
  (* an element that is not a reply always reaches the handler *)
  forallb (fun q => match nth_error (fc_arrivals c) q with
                    | Some a => a_resp a || Nat.eqb (count_nat q (fc_handled c)) 1
                    | None => true
                    end) (seq 0 (length (fc_arrivals c))) &&
  (* every call that returned has deregistered *)
  Nat.leb (fc_pending c) (length (filter (fun f => ocode_eqb (f_code f) CNone) (fc_calls c))).

Fixpoint failing {A} (ok : A -> bool) (i : nat) (l : list A) : list nat :=
  match l with
  | [] => []
  | x :: r => if ok x then failing ok (S i) r else i :: failing ok (S i) r
  end.
