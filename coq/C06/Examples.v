(* C06/Examples.v — non-vacuity: concrete, non-trivial instances of every
   hypothesis used by the theorems of Properties.v / PropertiesExt.v, and a
   few worked schedules. *)
From Coq Require Import List Arith NArith Bool.
Import ListNotations.
From XV Require Import lib.Lts C06.Model C06.ModelExt C06.ModelLife C06.Proofs C06.ProofsRx C06.ProofsMuc C06.ProofsIbb C06.ProofsLife.

Definition msg : name := mkname 0 2.

(* ---- core ---- *)

(* a full round trip: registered, sent, reply looked up, offered, received,
   returned, closed, serve released; then a duplicate reply goes to the handler *)
Definition round_trip : list label :=
  [LStart 7 iq; LSendOk 0; LArrive 7 iq true; LLookup; LDecide; LRecv 0; LDereg 0; LClose 0;
   LAwaitDone; LDrain; LArrive 7 iq true; LLookup; LDecide; LHandler].

Example ex_round_trip_wf : forallb wf_label round_trip = true.
Proof. reflexivity. Qed.

Example ex_round_trip :
  exists s, run (step true) init round_trip = Some s /\
    map req_code (reqs s) = [CReply 0 true] /\ handled s = [1] /\ pend s = [] /\ serve s = SIdle /\
    hist s = [EDeliver 0 0; EHandle 1].
Proof. eexists. split; [vm_compute; reflexivity|]. repeat split. Qed.

(* the same on the pinned code (the two differ only in [ctx_done]) *)
Example ex_round_trip_pinned : exists s, run (step false) init round_trip = Some s /\ serve s = SIdle.
Proof. eexists. split; [vm_compute; reflexivity|reflexivity]. Qed.

(* hypotheses of C06_outcome_is_own_reply_or_ctx_error with a context error:
   cancelled while the reply is offered; the reply is drained *)
Example ex_ctx_error :
  exists s r, run (step true) init
      [LStart 7 iq; LSendOk 0; LArrive 7 iq true; LLookup; LDecide; LCancel 0; LCtxDone 0; LOfferCtx; LDereg 0; LDrain] = Some s /\
    nth_error (reqs s) 0 = Some r /\ r_pc r = RRet OCtxErr false /\ r_canc r = true /\
    hist s = [EDrop 0 0] /\ serve s = SIdle.
Proof. eexists. eexists. split; [vm_compute; reflexivity|]. repeat split. Qed.

(* hypotheses of C06_unmatched_goes_to_handler: the three kinds of "nobody waits" *)
Example ex_no_waiter_not_reply :
  exists s st, run (step true) init [LArrive 7 iq false] = Some s /\ serve s = SRead st /\ no_waiter s st.
Proof. eexists. eexists. split; [vm_compute; reflexivity|]. split; [reflexivity|]. left. reflexivity. Qed.

Example ex_no_waiter_unknown_id :
  exists s st, run (step true) init [LStart 7 iq; LArrive 8 iq true] = Some s /\ serve s = SRead st /\ no_waiter s st.
Proof.
  eexists. eexists. split; [vm_compute; reflexivity|]. split; [reflexivity|].
  right. left. split; [reflexivity|discriminate].
Qed.

Example ex_no_waiter_wrong_kind :
  exists s st, run (step true) init [LStart 7 iq; LArrive 7 (mkname 1 2) true] = Some s /\ serve s = SRead st /\ no_waiter s st.
Proof.
  eexists. eexists. split; [vm_compute; reflexivity|]. split; [reflexivity|].
  right. right. exists 0. eexists. split; [reflexivity|]. split; [reflexivity|reflexivity].
Qed.

(* hypotheses of C06_close_releases_serve / C06_return_releases_serve / C06_send_then_receive *)
Example ex_close_enabled :
  exists s s1, run (step true) init [LStart 7 iq; LSendOk 0; LArrive 7 iq true; LLookup; LDecide; LRecv 0; LDereg 0] = Some s /\
    step true s (LClose 0) = Some s1.
Proof. eexists. eexists. split; vm_compute; reflexivity. Qed.

Example ex_return_releases :
  exists s s1 st, run (step true) init [LStart 7 iq; LArrive 7 iq true; LLookup; LDecide; LSendFail 0] = Some s /\
    serve s = SOffer st 0 /\ step true s (LDereg 0) = Some s1.
Proof. eexists. eexists. eexists. split; [vm_compute; reflexivity|]. split; vm_compute; reflexivity. Qed.

Example ex_send_then_receive :
  exists s s1 st, run (step true) init [LStart 7 iq; LArrive 7 iq true; LLookup; LDecide] = Some s /\
    serve s = SOffer st 0 /\ step true s (LSendOk 0) = Some s1.
Proof. eexists. eexists. eexists. split; [vm_compute; reflexivity|]. split; vm_compute; reflexivity. Qed.

(* two calls with one id: the later registration owns the entry; the entry is
   by id, so the first return removes it *)
Example ex_same_id :
  exists s, run (step true) init
      [LStart 7 iq; LStart 7 iq; LSendOk 0; LSendOk 1; LArrive 7 iq true; LLookup; LDecide; LRecv 1; LDereg 1] = Some s /\
    map req_code (reqs s) = [CNone; CReply 0 false] /\ pend s = [].
Proof. eexists. split; [vm_compute; reflexivity|]. split; reflexivity. Qed.

(* the empty name space registered by EncodeIQ matches the peer's jabber:client reply *)
Example ex_empty_space_matches : name_match (mkname 0 1) (mkname 1 1) = true /\ name_match (mkname 2 1) (mkname 1 1) = false.
Proof. split; reflexivity. Qed.

(* case checkers accept what the model does and reject a wrong observation *)
Example ex_case_ok :
  case_ok (mkcase true round_trip [CReply 0 true] [1] 0 0) = true /\
  case_ok (mkcase true round_trip [CReply 0 true] [] 0 0) = false /\
  case_ok (mkcase true (round_trip ++ [LRecv 0]) [CReply 0 true] [1] 0 0) = false.
Proof. repeat split; vm_compute; reflexivity. Qed.

(* ---- receipts ---- *)

Example ex_rx_round_trip :
  exists s, run (rx_step true) rx_init
      [XStart 1; XSendOk 0; XArrive 1; XLookup; XNotify; XRecv 0; XArrive 1; XLookup; XUnhandled] = Some s /\
    map snd_code (rx_snd s) = [XCOk] /\ rx_unhandled s = 1 /\ rx_h s = HIdle /\
    rx_hist s = [RNotified 0 1 0; RUnhandled 1 1].
Proof. eexists. split; [vm_compute; reflexivity|]. repeat split. Qed.

(* the receipt arrives before the sender reaches its select: the handler does not wait *)
Example ex_rx_early_receipt :
  exists s, run (rx_step true) rx_init [XStart 1; XArrive 1; XLookup; XNotify; XSendOk 0; XRecv 0] = Some s /\
    map snd_code (rx_snd s) = [XCOk] /\ rx_h s = HIdle.
Proof. eexists. split; [vm_compute; reflexivity|]. split; reflexivity. Qed.

Example ex_rx_handler_at_notify :
  exists s, run (rx_step true) rx_init [XStart 1; XSendOk 0; XArrive 1; XLookup] = Some s /\ rx_h s = HNotify 0 1 0.
Proof. eexists. split; [vm_compute; reflexivity|reflexivity]. Qed.

Example ex_rx_case_ok :
  rx_case_ok (mkrxcase [XStart 1; XSendOk 0; XArrive 1; XLookup; XNotify; XRecv 0] [XCOk] 0 0) = true /\
  rx_case_ok (mkrxcase [XStart 1; XSendOk 0; XArrive 1; XLookup; XNotify; XRecv 0] [XCCtx] 0 0) = false.
Proof. split; vm_compute; reflexivity. Qed.

(* ---- muc ---- *)

Example ex_muc_join_leave :
  exists s, run (muc_step true) muc_init
      [MStartJoin; MEnter 0; MAvailArrive; MTake; MJoinRecv 0; MAvailArrive; MTake;
       MStartLeave; MEnter 1; MUnavailArrive; MDepartTo 1] = Some s /\
    map mcall_code (mu_calls s) = [MCJoined; MCLeft] /\ mu_user s = 1 /\ settled s /\ mu_h s = MHIdle.
Proof. eexists. split; [vm_compute; reflexivity|]. repeat split. discriminate. Qed.

(* hypotheses of C06_muc_single_leave: the departure is handled before the
   Leave call reaches its select; the notification waits for it, then it is taken *)
Example ex_muc_kept :
  exists s c, run (muc_step true) muc_init
      [MStartJoin; MEnter 0; MAvailArrive; MTake; MJoinRecv 0; MStartLeave; MUnavailArrive; MDepartKept; MEnter 1] = Some s /\
    settled s /\ length (mu_calls s) = 2 /\ nth_error (mu_calls s) 1 = Some c /\ m_pre c = true /\
    mu_dtok s = true /\ waiting_leave c = true.
Proof. eexists. eexists. split; [vm_compute; reflexivity|]. repeat split. discriminate. Qed.

(* a cancelled join attempt is skipped by the handler; the presence goes to the user handler *)
Example ex_muc_skip :
  exists s, run (muc_step true) muc_init [MStartJoin; MAvailArrive; MTake; MCancel 0; MSkip; MTake; MEnter 0; MCtx 0] = Some s /\
    map mcall_code (mu_calls s) = [MCCtx] /\ mu_user s = 1 /\ mu_h s = MHIdle.
Proof. eexists. split; [vm_compute; reflexivity|]. repeat split. Qed.

Example ex_muc_case_ok :
  muc_case_ok (mkmuccase drained_trace [MCJoined; MCNone; MCNone] 0 0) = true /\
  muc_case_ok (mkmuccase lost_depart_trace [MCJoined; MCNone] 0 0) = false.
Proof. split; vm_compute; reflexivity. Qed.

(* ---- ibb ---- *)

(* EOF after the peer's close, data first *)
Example ex_ibb_eof_after_close :
  exists s, run ibbf_step ibbf_init
      [FRead 4; FWait; FData CIq 3; FCheck; FNotify; FWake 4; FRead 4; FWait; FCloseRemote; FWake 4] = Some s /\
    fb_outs s = [RdData 3; RdEOF] /\ fb_closed s = true.
Proof. eexists. split; [vm_compute; reflexivity|]. split; reflexivity. Qed.

(* buffered data is still delivered after a close, then EOF *)
Example ex_ibb_drain_after_close :
  exists s, run ibbf_step ibbf_init
      [FData CIq 5; FCheck; FNotify; FCloseLocal; FRead 4; FRead 4; FRead 4; FWait; FWake 4; FWait; FWake 4] = Some s /\
    fb_outs s = [RdData 4; RdData 1; RdEOF].
Proof. eexists. split; [vm_compute; reflexivity|]. reflexivity. Qed.

(* hypotheses of C06_ibb_waiting_reader_is_woken *)
Example ex_ibb_waiting :
  exists s s1 s2, run ibbf_step ibbf_init [FRead 4; FWait] = Some s /\ fb_rd s = FWaiting /\ fb_h s = FHIdle /\
    ibbf_step s (FData CIq 2) = Some s1 /\ ibbf_step s1 FCheck = Some s2.
Proof. eexists. eexists. eexists. split; [vm_compute; reflexivity|]. repeat split. Qed.

(* a stale token: the reader wakes, finds nothing and waits again *)
Example ex_ibb_stale_token :
  exists s, run ibbf_step ibbf_init [FData CIq 2; FCheck; FNotify; FRead 4; FRead 4; FWait; FWake 4; FWait] = Some s /\
    fb_outs s = [RdData 2] /\ fb_rd s = FWaiting /\ fb_tok s = false.
Proof. eexists. split; [vm_compute; reflexivity|]. repeat split. Qed.

Example ex_ibb_case_ok :
  ibbf_case_ok (mkibbfcase [FRead 4; FData CIq 3; FCheck; FNotify; FWait] [] 3 3) = true /\
  ibbf_case_ok (mkibbfcase [FRead 4; FData CIq 3; FCheck; FNotify; FWait] [] 2 3) = false.
Proof. split; vm_compute; reflexivity. Qed.

(* ---- the life of a response ---- *)

(* IterIQ, reply ill-formed while it is being parsed: the failing Token closes
   through the guard, the deferred Close does nothing more *)
Example ex_life_iter_parse_error :
  exists s, run (rl_step (cfg_iter TCGuarded false)) rl_init (iter_parse_prog [RTokOk; RTokErr] true) = Some s /\
    rl_panic s = false /\ rl_released s = 1 /\ rl_once s = true.
Proof. eexists. split; [vm_compute; reflexivity|]. repeat split. Qed.

(* the caller iterates, hits the error, reads past it and closes twice *)
Example ex_life_iter_caller :
  exists s, run (rl_step (cfg_iter TCGuarded false)) rl_init [RTokOk; RTokOk; RTokErr; RTokErr; RClose; RClose] = Some s /\
    rl_panic s = false /\ rl_released s = 1.
Proof. eexists. split; [vm_compute; reflexivity|]. split; reflexivity. Qed.

(* hypothesis of C06_unmarshal_closes_once: reads only, some failing *)
Example ex_life_unmarshal :
  forallb (fun l => negb (is_close l)) [RTokOk; RTokErr] = true /\
  exists s, run (rl_step (cfg_raw false)) rl_init (unmarshal_prog [RTokOk; RTokErr]) = Some s /\ rl_released s = 1.
Proof. split; [reflexivity|]. eexists. split; [vm_compute; reflexivity|reflexivity]. Qed.

(* hypothesis of C06_raw_response_partial / _one_close *)
Example ex_life_raw_one_close : count_close [RTokOk; RTokErr; RTokErr; RClose] = 1.
Proof. reflexivity. Qed.

(* no token is read from a released response *)
Example ex_life_no_read_after_close :
  exists s, run (rl_step (cfg_raw false)) rl_init [RClose] = Some s /\ rl_step (cfg_raw false) s RTokOk = None.
Proof. eexists. split; [vm_compute; reflexivity|reflexivity]. Qed.

Example ex_life_case_ok :
  rl_case_ok (mkrlcase (cfg_iter TCGuarded false) [RTokErr; RClose] false 1) = true /\
  rl_case_ok (mkrlcase (cfg_iter TCDirect false) [RTokErr; RClose] false 1) = false /\
  rl_case_ok (mkrlcase (cfg_raw false) [RTokOk; RClose; RClose] true 1) = true /\
  rl_case_ok (mkrlcase (cfg_raw true) [RTokOk; RClose; RClose] false 1) = true.
Proof. repeat split; vm_compute; reflexivity. Qed.

(* ---- ibb writer vs. the peer's close ---- *)

(* hypotheses of C06_ibb_overtaken_writer_is_aborted / C06_ibb_close_completes *)
Example ex_iw_overtake :
  exists s, run (iw_step false false) iw_init [WStart; WSend; VCloseArrive] = Some s /\
    iw_v s = VClose /\ writer_holds s = true /\ iw_broken s = false.
Proof. eexists. split; [vm_compute; reflexivity|]. repeat split. Qed.

(* close on an idle stream goes through the flush; a later write fails at once *)
Example ex_iw_idle_close :
  exists s, run (iw_step false false) iw_init [VCloseArrive; VTry; VFlushDone; WStart] = Some s /\
    iw_closed s = true /\ iw_w s = WRet false /\ iw_v s = VIdle.
Proof. eexists. split; [vm_compute; reflexivity|]. repeat split. Qed.

(* the close after a refused packet is answered *)
Example ex_iw_close_after_refused_packet :
  iw_case_ok (mkiwcase [WStart; WSend; WAck false; VCloseArrive; VTry; VFlushDone] 4 0 true) = true.
Proof. vm_compute. reflexivity. Qed.

Example ex_iw_case_ok :
  iw_case_ok (mkiwcase (overtake_trace ++ [WAck true]) 3 0 true) = true /\
  iw_case_ok (mkiwcase overtake_trace 2 3 false) = false.
Proof. split; vm_compute; reflexivity. Qed.
