(* C09/Proofs.v — lemmas behind the property theorems of C09. *)
From XV Require Import lib.Bytes lib.Xml gen.C09Sites C09.Model.

(* a set of outcomes is safe when it contains neither a panic nor a wedge *)
Definition safe (s : cset) : Prop := mem CPanic s = false /\ mem CBlocked s = false.
Definition no_panic (s : cset) : Prop := mem CPanic s = false.

Lemma mem_app c a b : mem c (a ++ b) = mem c a || mem c b.
Proof. unfold mem. apply existsb_app. Qed.

Lemma safe_returns : safe returns.
Proof. split; reflexivity. Qed.

Lemma safe_ok : safe [COk].
Proof. split; reflexivity. Qed.

Lemma safe_err : safe [CErr].
Proof. split; reflexivity. Qed.

Lemma safe_nil : safe [].
Proof. split; reflexivity. Qed.

Lemma safe_app a b : safe a -> safe b -> safe (a ++ b).
Proof.
  intros [Ha1 Ha2] [Hb1 Hb2]. split; rewrite mem_app; [rewrite Ha1, Hb1 | rewrite Ha2, Hb2]; reflexivity.
Qed.

Lemma safe_cons_err s : safe s -> safe (CErr :: s).
Proof. intros [H1 H2]. split; cbn [mem existsb cls_eqb orb]; assumption. Qed.

Lemma safe_cons_ok s : safe s -> safe (COk :: s).
Proof. intros [H1 H2]. split; cbn [mem existsb cls_eqb orb]; assumption. Qed.

Lemma safe_at_end tm : safe (at_end tm).
Proof. destruct tm; [apply safe_ok | apply safe_err]. Qed.

Lemma safe_iter_end e tm : safe (iter_end e tm).
Proof. destruct e; [apply safe_ok | apply safe_at_end]. Qed.

Lemma safe_if (b : bool) a c : safe a -> safe c -> safe (if b then a else c).
Proof. destruct b; auto. Qed.

Lemma safe_no_panic s : safe s -> no_panic s.
Proof. intros [H _]. exact H. Qed.

(* ---- request helpers ---- *)

Lemma um_payload_safe l tm : safe (um_payload l tm).
Proof.
  induction l as [|t l IH]; cbn [um_payload]; [apply safe_at_end|].
  destruct t; try exact IH; [apply safe_returns | apply safe_ok].
Qed.

Lemma unmarshal_iq_safe vnil e r : safe (unmarshal_iq vnil e r).
Proof.
  unfold unmarshal_iq. destruct (iq_front e r) as [rest|]; [|apply safe_err].
  destruct vnil; [apply safe_ok | apply um_payload_safe].
Qed.

Lemma ping_send_safe e r : safe (ping_send e r).
Proof.
  unfold ping_send. destruct (r_toks r) as [|t l]; [apply safe_err|].
  destruct t; try apply safe_err.
  apply safe_if; [apply safe_returns | apply unmarshal_iq_safe].
Qed.

Lemma upload_slot_safe e r : safe (upload_slot e r).
Proof.
  unfold upload_slot. pose proof (unmarshal_iq_safe false e r) as H.
  destruct (mem COk (unmarshal_iq false e r)); [apply safe_cons_err|]; exact H.
Qed.

Lemma drain_decoding_safe l tm : safe (drain_decoding l tm).
Proof.
  unfold drain_decoding. destruct (kids 0 l) as [k e].
  apply safe_app; [apply safe_if; [apply safe_err | apply safe_nil] | apply safe_iter_end].
Qed.

Lemma drain_plain_safe l tm : safe (drain_plain l tm).
Proof.
  unfold drain_plain. destruct (kids 0 l) as [k e].
  apply safe_app; [apply safe_if; [apply safe_err | apply safe_nil] | apply safe_iter_end].
Qed.

Lemma iter_plain_safe e r : safe (iter_plain e r).
Proof. unfold iter_plain. destruct (iter_front e r); [apply drain_plain_safe | apply safe_err]. Qed.

Lemma iter_decoding_safe e r : safe (iter_decoding e r).
Proof. unfold iter_decoding. destruct (iter_front e r); [apply drain_decoding_safe | apply safe_err]. Qed.

Lemma items_pages_safe rs : forall e, safe (items_pages e rs).
Proof.
  induction rs as [|r rs IH]; intro e; cbn [items_pages]; [apply safe_err|].
  destruct (iter_front e r) as [l|]; [|apply safe_err].
  destruct (kids 0 l) as [k en].
  apply safe_app; [apply safe_if; [apply safe_err | apply safe_nil]|].
  apply safe_app; [apply safe_iter_end|].
  apply safe_if; [apply IH | apply safe_nil].
Qed.

Lemma pubsub_fetch_safe e r : safe (pubsub_fetch e r).
Proof. unfold pubsub_fetch. destruct (pubsub_front e r); [apply drain_plain_safe | apply safe_err]. Qed.

Lemma bookmarks_fetch_safe e r : safe (bookmarks_fetch e r).
Proof. unfold bookmarks_fetch. destruct (pubsub_front e r); [apply drain_decoding_safe | apply safe_err]. Qed.

Lemma exec_payload_safe l : safe (exec_payload l).
Proof.
  induction l as [|t l IH]; cbn [exec_payload]; [apply safe_err|].
  destruct t; try exact IH; [apply safe_if; [apply safe_ok | apply safe_err] | apply safe_err].
Qed.

Lemma commands_execute_safe e r : safe (commands_execute e r).
Proof. unfold commands_execute. destruct (iq_front e r); [apply exec_payload_safe | apply safe_err]. Qed.

(* ---- token-level functions ---- *)

Lemma forward_unwrap_safe l : safe (forward_unwrap l).
Proof.
  unfold forward_unwrap. destruct l as [|t l]; [apply safe_err|].
  destruct t; try apply safe_err. apply safe_if; [apply safe_ok | apply safe_err].
Qed.

Lemma carbons_unwrap_safe l : safe (carbons_unwrap l).
Proof.
  unfold carbons_unwrap. destruct l as [|t l]; [apply safe_err|].
  destruct t; try apply safe_err. apply safe_if; [apply forward_unwrap_safe | apply safe_err].
Qed.

(* ---- handlers ---- *)

Lemma hist_child_no_panic e l tm : no_panic (hist_child e l tm).
Proof.
  induction l as [|t l IH]; cbn [hist_child]; [reflexivity|].
  destruct t; try exact IH; [|reflexivity].
  destruct (tracked e _); [|reflexivity].
  destruct tm; [|reflexivity]. destruct (e_ready e); reflexivity.
Qed.

Lemma hist_child_ready e l tm : e_ready e = true -> safe (hist_child e l tm).
Proof.
  intro Hr. induction l as [|t l IH]; cbn [hist_child]; [apply safe_err|].
  destruct t; try exact IH; [|apply safe_ok].
  destruct (tracked e _); [|apply safe_returns].
  destruct tm; [|apply safe_err]. rewrite Hr. apply safe_returns.
Qed.

Lemma hist_child_blocked e l tm : mem CBlocked (hist_child e l tm) = true -> e_ready e = false.
Proof.
  induction l as [|t l IH]; cbn [hist_child]; [discriminate|].
  destruct t; try exact IH; [|discriminate].
  destruct (tracked e _); [|discriminate].
  destruct tm; [|discriminate]. destruct (e_ready e); [discriminate | reflexivity].
Qed.

Lemma history_no_panic e r : no_panic (history_handle e r).
Proof. unfold history_handle. destruct (r_toks r); [reflexivity | apply hist_child_no_panic]. Qed.

Lemma history_ready_safe e r : e_ready e = true -> safe (history_handle e r).
Proof. intro H. unfold history_handle. destruct (r_toks r); [apply safe_err | apply hist_child_ready; exact H]. Qed.

Lemma history_blocked e r : mem CBlocked (history_handle e r) = true -> e_ready e = false.
Proof. unfold history_handle. destruct (r_toks r); [discriminate | apply hist_child_blocked]. Qed.

Lemma carb_loop_safe l : forall d tm, safe (carb_loop d l tm).
Proof.
  induction l as [|t l IH]; intros d tm; cbn [carb_loop]; [apply safe_at_end|].
  destruct t; try apply IH.
  - destruct d; [|apply IH].
    apply safe_if; [destruct l; [apply safe_err | apply safe_returns] | apply IH].
  - destruct d; [apply safe_ok | apply IH].
Qed.

Lemma carbons_handle_safe r : safe (carbons_handle r).
Proof. unfold carbons_handle. destruct (r_toks r); [apply safe_err | apply carb_loop_safe]. Qed.

Lemma blocklist_handle_safe start r : safe (blocklist_handle start r).
Proof.
  unfold blocklist_handle. destruct start; try apply safe_returns.
  apply safe_if; [apply safe_returns|].
  destruct (kids 0 (r_toks r)) as [k e]. apply safe_if; [apply safe_returns | apply safe_iter_end].
Qed.

Lemma rcpt_loop_no_panic f ev k e tm : no_panic (rcpt_loop f ev k e tm).
Proof.
  induction k as [|c k IH]; cbn [rcpt_loop]; [apply safe_iter_end|].
  destruct c; [|exact IH].
  destruct (bytes_eqb (nlocal n) (str "received")).
  - destruct (r_state _ _) as [entry sig]. destruct (_ && _); [destruct sig|]; reflexivity.
  - destruct (bytes_eqb (nlocal n) (str "request")); [reflexivity | exact IH].
Qed.

Lemma receipts_no_panic f ev r : no_panic (receipts_handle f ev r).
Proof.
  unfold receipts_handle. destruct (r_toks r) as [|t l]; [reflexivity|].
  destruct (kids 0 l) as [k e]. apply rcpt_loop_no_panic.
Qed.

(* deleting first: an entry that is present has not been signalled yet *)
Lemma r_fold_inv h : forall st, (fst st = true -> snd st = 0) ->
  fst (fold_left (r_step true) h st) = true -> snd (fold_left (r_step true) h st) = 0.
Proof.
  induction h as [|o h IH]; intros [entry sig] Hst; cbn [fold_left]; [exact Hst|].
  apply IH. destruct o; cbn [r_step fst snd] in *; try exact Hst; try (intros; reflexivity); try discriminate.
  destruct entry; cbn [fst snd]; [discriminate | exact Hst].
Qed.

Lemma r_state_inv h : fst (r_state true h) = true -> snd (r_state true h) = 0.
Proof. unfold r_state. apply r_fold_inv. cbn. discriminate. Qed.

Lemma rcpt_loop_safe f ev k e tm : f_rcpt_delete_first f = true -> safe (rcpt_loop f ev k e tm).
Proof.
  intro Hd. induction k as [|c k IH]; cbn [rcpt_loop]; [apply safe_iter_end|].
  destruct c; [|exact IH].
  destruct (bytes_eqb (nlocal n) (str "received")).
  - rewrite Hd. pose proof (r_state_inv (e_hist ev)) as Hi.
    destruct (r_state true (e_hist ev)) as [entry sig]. cbn [fst snd] in Hi.
    destruct (existsb _ _); cbn [andb]; [|apply safe_returns].
    destruct entry; [|apply safe_returns]. rewrite (Hi eq_refl). apply safe_returns.
  - apply safe_if; [apply safe_returns | exact IH].
Qed.

Lemma receipts_handle_safe f ev r : f_rcpt_delete_first f = true -> safe (receipts_handle f ev r).
Proof.
  intro Hd. unfold receipts_handle. destruct (r_toks r) as [|t l]; [apply safe_err|].
  destruct (kids 0 l) as [k e]. apply rcpt_loop_safe. exact Hd.
Qed.

Lemma rcpt_loop_blocked f ev k e tm : mem CBlocked (rcpt_loop f ev k e tm) = true -> f_rcpt_delete_first f = false.
Proof.
  intro H. destruct (f_rcpt_delete_first f) eqn:Hd; [|reflexivity].
  pose proof (rcpt_loop_safe f ev k e tm Hd) as [_ Hb]. congruence.
Qed.

(* the witness of the pinned tree's panic: a message whose first child is character data *)
Definition receipts_witness : rd :=
  mkrd [TStart (mkname (str "jabber:client") (str "message")) []; TChar (str "text");
        TStart (mkname (str "urn:xmpp:receipts") (str "request")) []; TEnd (mkname (str "urn:xmpp:receipts") (str "request"));
        TEnd (mkname (str "jabber:client") (str "message"))] TmEOF.

(* ibb: with agreeing keys a closed listener never stays in the table *)
Lemma l_step_not_stale full st o : st <> LStale -> l_step true full st o <> LStale.
Proof.
  intro H. destruct o, st; cbn [l_step orb]; try exact H; try discriminate.
Qed.

Lemma l_fold_not_stale full h : forall st, st <> LStale -> fold_left (l_step true full) h st <> LStale.
Proof.
  induction h as [|o h IH]; intros st H; cbn [fold_left]; [exact H|].
  apply IH. apply l_step_not_stale. exact H.
Qed.

Lemma l_state_not_stale full h : l_state true full h <> LStale.
Proof. unfold l_state. apply l_fold_not_stale. discriminate. Qed.

(* a receipt repeated while the message still awaits it: [ARSend; ARSignal] then the same receipt *)
Definition rcpt_env : env := mkenv [str "r1"] true (str "chat") true true [ARSend; ARSignal] false.
Definition rcpt_msg : rd :=
  mkrd [TStart (mkname (str "jabber:client") (str "message")) [];
        TStart (mkname (str "urn:xmpp:receipts") (str "received")) [at_ (str "id") (str "r1")];
        TEnd (mkname (str "urn:xmpp:receipts") (str "received"));
        TEnd (mkname (str "jabber:client") (str "message"))] TmEOF.

Lemma receipts_no_delete_parks f : f_rcpt_delete_first f = false -> mem CBlocked (receipts_handle f rcpt_env rcpt_msg) = true.
Proof. destruct f as [a b c d w]. cbn [f_rcpt_delete_first]. intros ->. vm_compute. reflexivity. Qed.

(* ibb: with the owner check a waiting Expect call is always registered *)
Lemma e_step_not_lost st o : st <> ELost -> e_step true st o <> ELost.
Proof. intro H. destruct o, st; cbn [e_step]; try exact H; try discriminate. Qed.

Lemma e_fold_not_lost h : forall st, st <> ELost -> fold_left (e_step true) h st <> ELost.
Proof.
  induction h as [|o h IH]; intros st H; cbn [fold_left]; [exact H|].
  apply IH. apply e_step_not_lost. exact H.
Qed.

Lemma expect_live_registered h : expect_live h = true -> e_state true h = EReg.
Proof.
  unfold expect_live. pose proof (e_fold_not_lost h ENone) as Hn. unfold e_state in *.
  destruct (fold_left (e_step true) h ENone); [discriminate | reflexivity |].
  exfalso. apply Hn; [discriminate | reflexivity].
Qed.

Lemma ibb_iq_no_panic f e start : f_keys_agree f = true -> no_panic (ibb_iq f e start).
Proof.
  intro Hk. unfold ibb_iq. destruct start; try reflexivity.
  destruct (bytes_eqb (nlocal n) (str "open") && e_ok e); [|destruct (_ && _); reflexivity]. rewrite Hk.
  pose proof (l_state_not_stale (e_full e) (e_hist e)) as Hs.
  destruct (l_state true (e_full e) (e_hist e)) as [|acc|]; try reflexivity; [|congruence].
  destruct (if e_match e then _ else _); try reflexivity; destruct acc; reflexivity.
Qed.

(* the <open/> finds somebody to take the connection: no listener at all, a
   listener that is accepted from, or the Expect call registered for the session *)
Definition listener_served (f : facts) (e : env) : bool :=
  match l_state (f_keys_agree f) (e_full e) (e_hist e) with
  | LOpen false => e_match e && match e_state (f_expect_owner f) (e_hist e) with EReg => true | _ => false end
  | _ => true
  end.

Lemma ibb_iq_served f e start :
  f_keys_agree f = true -> f_close_no_wait f = true -> listener_served f e = true -> safe (ibb_iq f e start).
Proof.
  intros Hk Hc Hs. split; [apply ibb_iq_no_panic; exact Hk|].
  unfold ibb_iq, listener_served in *. destruct start; try reflexivity.
  destruct (bytes_eqb (nlocal n) (str "open") && e_ok e); [|rewrite Hc, andb_false_r; reflexivity].
  destruct (l_state (f_keys_agree f) (e_full e) (e_hist e)) as [|[|]|]; try reflexivity.
  - destruct (if e_match e then _ else _); reflexivity.
  - destruct (e_match e); [|discriminate]. cbn [andb] in Hs.
    destruct (e_state (f_expect_owner f) (e_hist e)); try discriminate. reflexivity.
Qed.

Lemma ibb_iq_blocked f e start : mem CBlocked (ibb_iq f e start) = true ->
  listener_served f e = false \/ f_close_no_wait f = false.
Proof.
  unfold ibb_iq, listener_served. destruct start; try discriminate.
  destruct (bytes_eqb (nlocal n) (str "open") && e_ok e);
    [left | destruct (f_close_no_wait f); [rewrite andb_false_r; discriminate | right; reflexivity]].
  destruct (l_state (f_keys_agree f) (e_full e) (e_hist e)) as [|[|]|]; try discriminate.
  - destruct (if e_match e then _ else _); discriminate.
  - destruct (e_match e); [|reflexivity]. cbn [andb].
    destruct (e_state (f_expect_owner f) (e_hist e)); try reflexivity. discriminate.
Qed.

(* an <open/> for the session a live Expect call is waiting for is delivered,
   with or without anybody in Accept *)
Lemma ibb_expected_open_delivered f e start :
  f_keys_agree f = true -> f_close_no_wait f = true -> f_expect_owner f = true ->
  e_match e = true -> expect_live (e_hist e) = true -> safe (ibb_iq f e start).
Proof.
  intros Hk Hc Ho Hm Hl. apply ibb_iq_served; [exact Hk|exact Hc|].
  unfold listener_served. rewrite Ho, Hm, (expect_live_registered _ Hl).
  destruct (l_state _ _ _) as [|[|]|]; reflexivity.
Qed.

(* the witness of a lost registration: Listen (nobody accepts), Expect, Expect again for the same session *)
Definition takeover_env : env := mkenv [] true (str "set") true true [ALListen; AEExpect; AEExpect] true.

Lemma ibb_lost_registration_parks f : f_expect_owner f = false ->
  mem CBlocked (ibb_iq f takeover_env (TStart (mkname (str "http://jabber.org/protocol/ibb") (str "open")) [])) = true.
Proof. destruct f as [a b c d w]. cbn [f_expect_owner]. intros ->. destruct a; vm_compute; reflexivity. Qed.

(* the witness of a close that waits for the writer: an acknowledged stream with a Write in progress *)
Definition writing_env : env := mkenv [] true (str "set") true true [ALListen; ALAcceptor; AEOpen; AWWrite] true.
Definition close_start : token := TStart (mkname (str "http://jabber.org/protocol/ibb") (str "close")) [].

Lemma ibb_close_waiting_parks f : f_close_no_wait f = false -> mem CBlocked (ibb_iq f writing_env close_start) = true.
Proof. destruct f as [a b c d w]. cbn [f_close_no_wait]. intros ->. vm_compute. reflexivity. Qed.

(* the witness of a key mismatch: full local JID, Listen, Close, then <open/> *)
Definition stale_env : env := mkenv [] true (str "set") true true [ALListen; ALAcceptor; ALClose] false.
Definition open_start : token := TStart (mkname (str "http://jabber.org/protocol/ibb") (str "open")) [].

Lemma ibb_key_mismatch_panics f : f_keys_agree f = false -> mem CPanic (ibb_iq f stale_env open_start) = true.
Proof. destruct f as [k d o r w]. cbn [f_keys_agree]. intros ->. vm_compute. reflexivity. Qed.

(* muc *)
Lemma muc_presence_no_panic f e : no_panic (muc_presence f e).
Proof. unfold muc_presence. destruct (m_state (e_hist e)) as [[m sl] p]. destruct (_ && _); reflexivity. Qed.

Lemma muc_presence_select f e : f_depart_select f = true -> safe (muc_presence f e).
Proof.
  intro H. unfold muc_presence. destruct (m_state (e_hist e)) as [[m sl] p].
  rewrite H, andb_false_r. apply safe_returns.
Qed.

Lemma muc_presence_blocked f e : mem CBlocked (muc_presence f e) = true -> f_depart_select f = false.
Proof.
  unfold muc_presence. destruct (m_state (e_hist e)) as [[m sl] p].
  destruct (f_depart_select f); [rewrite andb_false_r; discriminate | reflexivity].
Qed.

(* the witness of a blocking departure: joined, removed by the room, joined again, removed again *)
Definition depart_env : env := mkenv [] true (str "unavailable") true true [AMJoin; AMDepart; AMJoin] false.

Lemma muc_plain_send_parks f : f_depart_select f = false -> mem CBlocked (muc_presence f depart_env) = true.
Proof. destruct f as [k d o r w]. cbn [f_depart_select]. intros ->. vm_compute. reflexivity. Qed.

(* ---- every component, under the condition its environment must meet ---- *)

Definition comp_cond (f : facts) (c : comp) (e : env) : bool :=
  match c with
  | HHistory => e_ready e
  | HIbbIQ => listener_served f e && f_close_no_wait f
  | HMucPres => f_depart_select f
  | HReceipts => f_rcpt_delete_first f
  | _ => true
  end.

Lemma run_comp_safe f c e start rs :
  f_keys_agree f = true -> comp_cond f c e = true -> safe (run_comp f c e start rs).
Proof.
  intros Hk H. destruct c; cbn [run_comp comp_cond] in *;
    first [ apply safe_returns | apply safe_ok
          | apply history_ready_safe; exact H
          | (apply andb_true_iff in H; destruct H; apply ibb_iq_served; assumption)
          | apply muc_presence_select; exact H
          | apply receipts_handle_safe; exact H
          | apply carbons_handle_safe | apply blocklist_handle_safe | apply unmarshal_iq_safe | apply ping_send_safe
          | apply upload_slot_safe | apply items_pages_safe | apply iter_decoding_safe | apply pubsub_fetch_safe
          | apply bookmarks_fetch_safe | apply commands_execute_safe | apply iter_plain_safe
          | apply carbons_unwrap_safe | apply forward_unwrap_safe ].
Qed.

(* no component panics, whatever its environment and input, when the listener
   table is deleted from under the key it is inserted with *)
Lemma run_comp_no_panic f c e start rs : f_keys_agree f = true -> no_panic (run_comp f c e start rs).
Proof.
  intro Hk. destruct c; cbn [run_comp];
    first [ apply history_no_panic | apply ibb_iq_no_panic; exact Hk | apply muc_presence_no_panic | apply receipts_no_panic
          | apply safe_no_panic;
            first [ apply safe_returns | apply safe_ok
                  | apply carbons_handle_safe | apply blocklist_handle_safe | apply unmarshal_iq_safe | apply ping_send_safe
                  | apply upload_slot_safe | apply items_pages_safe | apply iter_decoding_safe | apply pubsub_fetch_safe
                  | apply bookmarks_fetch_safe | apply commands_execute_safe | apply iter_plain_safe
                  | apply carbons_unwrap_safe | apply forward_unwrap_safe ] ].
Qed.

(* ---- Serve ---- *)

Definition inv_cond (f : facts) (i : inv) : bool := comp_cond f (i_comp i) (i_env i).

Lemma existsb_false_of_all {A} (f : A -> bool) l : (forall x, In x l -> f x = false) -> existsb f l = false.
Proof.
  induction l as [|x l IH]; intro H; [reflexivity|].
  cbn [existsb]. rewrite (H x (or_introl eq_refl)). apply IH. intros y Hy. apply H. right. exact Hy.
Qed.

Lemma serve_returns f script :
  f_keys_agree f = true ->
  (forall el i, In el script -> In i el -> inv_cond f i = true) ->
  forall o, In o (serve_may f script) -> o = Returned.
Proof.
  intro Hk. induction script as [|el rest IH]; intros Hc o Ho; cbn [serve_may] in Ho.
  - destruct Ho as [<-|[]]. reflexivity.
  - assert (Hp : existsb (fun i => mem CPanic (run_inv f i)) el = false).
    { apply existsb_false_of_all. intros i Hi.
      apply (run_comp_safe f (i_comp i) (i_env i) (i_start i) (i_rds i) Hk). apply (Hc el i (or_introl eq_refl) Hi). }
    assert (Hb : existsb (fun i => mem CBlocked (run_inv f i)) el = false).
    { apply existsb_false_of_all. intros i Hi.
      apply (run_comp_safe f (i_comp i) (i_env i) (i_start i) (i_rds i) Hk). apply (Hc el i (or_introl eq_refl) Hi). }
    rewrite Hp, Hb in Ho. cbn [app] in Ho. destruct Ho as [<-|Ho]; [reflexivity|].
    apply IH; [|exact Ho]. intros el' i Hel Hi. apply (Hc el' i); [right; exact Hel | exact Hi].
Qed.

(* Serve never panics, whatever the script, the routing and the environments *)
Lemma serve_never_panics f script : f_keys_agree f = true -> ~ In Panicked (serve_may f script).
Proof.
  intro Hk. induction script as [|el rest IH]; cbn [serve_may]; intro H.
  - destruct H as [H|[]]. discriminate.
  - assert (Hp : existsb (fun i => mem CPanic (run_inv f i)) el = false).
    { apply existsb_false_of_all. intros i _. apply run_comp_no_panic. exact Hk. }
    rewrite Hp in H. cbn [app] in H. apply in_app_or in H. destruct H as [H|H].
    + destruct (existsb _ el); [destruct H as [H|[]]; discriminate | destruct H].
    + destruct H as [H|H]; [discriminate | exact (IH H)].
Qed.

Lemma serve_wedge_witness f :
  In Wedged (serve_may f [[mkinv HHistory (mkenv [str "q1"] false [] true true [] false) (TChar [])
     [mkrd [TStart (mkname [] (str "message")) []; TStart (mkname (str "urn:xmpp:mam:2") (str "result")) [at_ (str "queryid") (str "q1")]] TmEOF]]]).
Proof. vm_compute. left. reflexivity. Qed.

(* ---- the facts of this tree ---- *)

Lemma listener_table_keys_agree : f_keys_agree gen_facts = true.
Proof. vm_compute. reflexivity. Qed.

Lemma depart_is_select : f_depart_select gen_facts = true.
Proof. vm_compute. reflexivity. Qed.

Lemma expect_cleanup_checks_owner : f_expect_owner gen_facts = true.
Proof. vm_compute. reflexivity. Qed.

Lemma receipts_delete_first : f_rcpt_delete_first gen_facts = true.
Proof. vm_compute. reflexivity. Qed.

Lemma serve_close_never_waits_for_writer : f_close_no_wait gen_facts = true.
Proof. vm_compute. reflexivity. Qed.

Lemma session_maps_accessed_under_lock : session_maps_locked = true.
Proof. vm_compute. reflexivity. Qed.

Lemma locks_released_on_every_path : locks_released = true.
Proof. vm_compute. reflexivity. Qed.

(* ---- the site inventory ---- *)

Lemma sites_all_covered : forallb covered generated_sites = true.
Proof. vm_compute. reflexivity. Qed.

Lemma covered_spec s : covered s = true ->
  (owned s = false /\ dangerous_kind (s_kind s) = false) \/
  exists m, In m modelled_sites /\ site_loose_eqb s (fst m) = true.
Proof.
  unfold covered. destruct (owned s) eqn:Ho.
  - intro H. right. apply existsb_exists in H. destruct H as [m [Hin Hm]].
    exists m. split; [exact Hin|].
    unfold site_eqb in Hm. unfold site_loose_eqb.
    apply andb_true_iff in Hm. destruct Hm as [Hm _]. exact Hm.
  - intro H. apply orb_true_iff in H. destruct H as [H|H].
    + left. split; [reflexivity|]. destruct (dangerous_kind (s_kind s)); [discriminate | reflexivity].
    + right. apply existsb_exists in H. destruct H as [m [Hin Hm]]. exists m. split; assumption.
Qed.

Lemma sites_covered_in s : In s generated_sites ->
  (owned s = false /\ dangerous_kind (s_kind s) = false) \/
  exists m, In m modelled_sites /\ site_loose_eqb s (fst m) = true.
Proof.
  intro H. apply covered_spec.
  pose proof sites_all_covered as Hall. rewrite forallb_forall in Hall. apply Hall. exact H.
Qed.

(* in the files repaired for this property the only operations of a dangerous
   kind (unchecked assertion, Must call, unguarded nil start element, bare send)
   are the ones listed with their justification: an assertion on a token the
   calling application supplies, a send on a channel that has room for it *)
Lemma owned_sites_clean :
  forallb (fun s => negb (owned s && dangerous_kind (s_kind s)) || justified s) generated_sites = true.
Proof. vm_compute. reflexivity. Qed.

Lemma owned_dangerous_sites :
  map (fun s => (s_func s, s_kind s)) (filter (fun s => owned s && dangerous_kind (s_kind s)) generated_sites)
  = [(str "Handler.HandleMessage", KSend); (str "Handler.SendMessage", KAssert)].
Proof. vm_compute. reflexivity. Qed.

(* ---- the statements of Properties.v ---- *)

Definition helper_or_function (c : comp) : bool :=
  match c with
  | QUnmarshal _ | QPing | QUpload | QHistIter | QItems | QRoster | QBlocklist | QPubsub | QBookmarks
  | QExecute | QIterPlain | QSendOnly | FCarbonsUnwrap | FForwardUnwrap => true
  | _ => false
  end.

Lemma helpers_safe f c e start rs :
  helper_or_function c = true ->
  mem CPanic (run_comp f c e start rs) = false /\ mem CBlocked (run_comp f c e start rs) = false.
Proof.
  intro H. destruct c; try discriminate; cbn [run_comp];
    first [ apply safe_returns | apply safe_ok
          | apply unmarshal_iq_safe | apply ping_send_safe
          | apply upload_slot_safe | apply items_pages_safe | apply iter_decoding_safe | apply pubsub_fetch_safe
          | apply bookmarks_fetch_safe | apply commands_execute_safe | apply iter_plain_safe
          | apply carbons_unwrap_safe | apply forward_unwrap_safe ].
Qed.

Lemma np_unmarshal_iq vnil e r : mem CPanic (unmarshal_iq vnil e r) = false.
Proof. apply unmarshal_iq_safe. Qed.
Lemma nw_unmarshal_iq vnil e r : mem CBlocked (unmarshal_iq vnil e r) = false.
Proof. apply unmarshal_iq_safe. Qed.
Lemma np_iter_iq e r : mem CPanic (iter_plain e r) = false /\ mem CPanic (iter_decoding e r) = false.
Proof. split; [apply iter_plain_safe | apply iter_decoding_safe]. Qed.
Lemma nw_iter_iq e r : mem CBlocked (iter_plain e r) = false /\ mem CBlocked (iter_decoding e r) = false.
Proof. split; [apply iter_plain_safe | apply iter_decoding_safe]. Qed.
Lemma np_items_pages e rs : mem CPanic (items_pages e rs) = false.
Proof. apply items_pages_safe. Qed.
Lemma nw_items_pages e rs : mem CBlocked (items_pages e rs) = false.
Proof. apply items_pages_safe. Qed.
Lemma np_pubsub e r : mem CPanic (pubsub_fetch e r) = false /\ mem CPanic (bookmarks_fetch e r) = false.
Proof. split; [apply pubsub_fetch_safe | apply bookmarks_fetch_safe]. Qed.
Lemma np_commands_execute e r : mem CPanic (commands_execute e r) = false.
Proof. apply commands_execute_safe. Qed.
Lemma nw_commands_execute e r : mem CBlocked (commands_execute e r) = false.
Proof. apply commands_execute_safe. Qed.
Lemma np_ping_upload e r : mem CPanic (ping_send e r) = false /\ mem CPanic (upload_slot e r) = false.
Proof. split; [apply ping_send_safe | apply upload_slot_safe]. Qed.
Lemma np_unwrap l : mem CPanic (carbons_unwrap l) = false /\ mem CPanic (forward_unwrap l) = false.
Proof. split; [apply carbons_unwrap_safe | apply forward_unwrap_safe]. Qed.
Lemma np_history e r : mem CPanic (history_handle e r) = false.
Proof. apply history_no_panic. Qed.
Lemma nw_history e r : e_ready e = true -> mem CBlocked (history_handle e r) = false.
Proof. intro H. apply history_ready_safe. exact H. Qed.
Lemma np_carbons r : mem CPanic (carbons_handle r) = false /\ mem CBlocked (carbons_handle r) = false.
Proof. apply carbons_handle_safe. Qed.
Lemma np_blocklist start r : mem CPanic (blocklist_handle start r) = false /\ mem CBlocked (blocklist_handle start r) = false.
Proof. apply blocklist_handle_safe. Qed.
Lemma np_receipts f e r : mem CPanic (receipts_handle f e r) = false.
Proof. apply receipts_no_panic. Qed.

(* every sequence of receipts, duplicates included, whatever the application did before *)
Lemma nw_receipts f e r : f_rcpt_delete_first f = true -> mem CBlocked (receipts_handle f e r) = false.
Proof. intro H. apply receipts_handle_safe. exact H. Qed.

(* the repaired receipts handler on the input that panicked the pinned one: the
   text is skipped, the request is answered *)
Lemma receipts_witness_returns : receipts_handle gen_facts (mkenv [] true [] true true [] false) receipts_witness = returns.
Proof. vm_compute. reflexivity. Qed.

Lemma nw_ibb_partial f e start :
  f_keys_agree f = true -> f_close_no_wait f = true ->
  mem CPanic (ibb_iq f e start) = false /\
  (listener_served f e = true -> mem CBlocked (ibb_iq f e start) = false).
Proof.
  intros Hk Hc. split; [apply ibb_iq_no_panic; exact Hk|]. intro H. apply (ibb_iq_served f e start Hk Hc H).
Qed.

Lemma np_this_tree c e start rs : mem CPanic (run_comp gen_facts c e start rs) = false.
Proof. apply run_comp_no_panic. exact listener_table_keys_agree. Qed.

Lemma serve_never_panics_this_tree script : ~ In Panicked (serve_may gen_facts script).
Proof. apply serve_never_panics. exact listener_table_keys_agree. Qed.

(* without the table fact the statement is false *)
Lemma no_panic_needs_keys f : f_keys_agree f = false ->
  exists e start, mem CPanic (run_comp f HIbbIQ e start []) = true.
Proof. intro H. exists stale_env, open_start. cbn [run_comp]. apply ibb_key_mismatch_panics. exact H. Qed.

(* the unconditional no-wedge statement, and why it cannot hold as such *)
Definition no_wedge_statement : Prop :=
  forall f c e start rs, mem CBlocked (run_comp f c e start rs) = false.

Lemma no_wedge_statement_refuted : ~ no_wedge_statement.
Proof.
  intro H.
  specialize (H gen_facts HHistory (mkenv [str "q1"] false [] true true [] false) (TChar [])
    [mkrd [TStart (mkname [] (str "message")) []; TStart (mkname (str "urn:xmpp:mam:2") (str "result")) [at_ (str "queryid") (str "q1")]] TmEOF]).
  vm_compute in H. discriminate.
Qed.

Lemma no_wedge_partial f c e start rs :
  mem CBlocked (run_comp f c e start rs) = true ->
  (c = HHistory /\ e_ready e = false) \/
  (c = HIbbIQ /\ (listener_served f e = false \/ f_close_no_wait f = false)) \/
  (c = HMucPres /\ f_depart_select f = false) \/ (c = HReceipts /\ f_rcpt_delete_first f = false).
Proof.
  intro H.
  destruct c; cbn [run_comp] in H;
    try (exfalso;
         first [ (pose proof safe_returns as [_ Hb]; congruence) | (pose proof safe_ok as [_ Hb]; congruence)
               | (pose proof (carbons_handle_safe (first_rd rs)) as [_ Hb]; congruence)
               | (pose proof (blocklist_handle_safe start (first_rd rs)) as [_ Hb]; congruence)
               | (pose proof (unmarshal_iq_safe vnil e (first_rd rs)) as [_ Hb]; congruence)
               | (pose proof (ping_send_safe e (first_rd rs)) as [_ Hb]; congruence)
               | (pose proof (upload_slot_safe e (first_rd rs)) as [_ Hb]; congruence)
               | (pose proof (items_pages_safe rs e) as [_ Hb]; congruence)
               | (pose proof (iter_decoding_safe e (first_rd rs)) as [_ Hb]; congruence)
               | (pose proof (pubsub_fetch_safe e (first_rd rs)) as [_ Hb]; congruence)
               | (pose proof (bookmarks_fetch_safe e (first_rd rs)) as [_ Hb]; congruence)
               | (pose proof (commands_execute_safe e (first_rd rs)) as [_ Hb]; congruence)
               | (pose proof (iter_plain_safe e (first_rd rs)) as [_ Hb]; congruence)
               | (pose proof (carbons_unwrap_safe (r_toks (first_rd rs))) as [_ Hb]; congruence)
               | (pose proof (forward_unwrap_safe (r_toks (first_rd rs))) as [_ Hb]; congruence) ]).
  - left. split; [reflexivity | apply (history_blocked e (first_rd rs) H)].
  - right. right. right. split; [reflexivity|].
    unfold receipts_handle in H. destruct (r_toks (first_rd rs)); [discriminate|].
    destruct (kids 0 l) as [k en]. apply (rcpt_loop_blocked f e k en _ H).
  - right. left. split; [reflexivity | apply (ibb_iq_blocked f e start H)].
  - right. right. left. split; [reflexivity | apply (muc_presence_blocked f e H)].
Qed.
