(* C09/Model.v — "No peer input can panic or wedge the library."

   Panics and blocking are explicit.  Every component (a handler of the
   multiplexer, a request helper, a token-level library function) is modelled by
   the code that touches peer tokens BEFORE control reaches encoding/xml's
   reflection decoder, as a total function from what its token reader yields to
   the SET of ways the call can end:

       COk | CErr        it returns (nil / an error)
       CPanic            a partial Go operation fails (type assertion, nil start
                         element, index, a Must function)
       CBlocked          it parks on a channel operation with no partner

   A set, because three things are oracles whose answer the model does not
   compute: encoding/xml Decode/DecodeElement (value or error), jid.Parse, and
   callbacks supplied by the application (value or error).  Wherever one of
   them is reached both answers are in the set; everything before is exact.

   A reader is the list of tokens it yields followed by how it ends (io.EOF or
   an error: invalid XML, a stream-level error, a cut connection).

   The partial operations of the sources are regenerated from the repository on
   every run (gen/C09Sites.v); [modelled_sites] is the hand-kept list of the
   ones this model accounts for, and Proofs.v proves by computation that every
   generated site is covered.  Sites in files repaired for this property are
   matched exactly; sites in files owned by other properties are matched by
   (file, function, kind). *)
From XV Require Import lib.Bytes lib.Xml gen.C09Sites gen.HandOff.

(* ---- outcomes ---- *)

Inductive cls := COk | CErr | CPanic | CBlocked.

Definition cls_eqb (a b : cls) : bool :=
  match a, b with
  | COk, COk | CErr, CErr | CPanic, CPanic | CBlocked, CBlocked => true
  | _, _ => false
  end.

Definition cset := list cls.
Definition mem (c : cls) (s : cset) : bool := existsb (cls_eqb c) s.

(* returns, one way or the other *)
Definition returns : cset := [COk; CErr].

(* ---- readers ---- *)

Inductive term := TmEOF | TmErr.
Record rd := mkrd { r_toks : list token; r_term : term }.

(* what the application did to the state a handler keeps between stanzas, in
   the order it happened (calls of the application, and departures the muc
   handler processed) *)
Inductive aop :=
| ALListen     (* ibb.Handler.Listen on the session *)
| ALAcceptor   (* somebody accepts from the current listener from now on *)
| ALClose      (* Listener.Close *)
| AMJoin       (* muc Join / Channel.Join of the room occupant *)
| AMDepart     (* an unavailable presence of the occupant was processed *)
| AMLeave      (* Channel.Leave called *)
| AEExpect     (* Listener.Expect called for the session (from, sid) the peer will open; a call that is
                  already waiting for the same session is superseded (cancelled by the library) *)
| AECancel     (* the context of the waiting Expect call was cancelled by the application *)
| AEOpen       (* an <open/> for that session was handled *)
| ARSend       (* receipts: SendMessage registered a message that awaits its receipt *)
| ARGone       (* receipts: that call returned or was cancelled *)
| ARSignal     (* receipts: the handler processed a receipt for the id of that message *)
| AWWrite.     (* ibb: a local Write on the acknowledged stream (from, sid) is in progress: its data IQ is
                  out and it holds the stream's write lock until the peer acknowledges *)

(* what the environment of a call looks like *)
Record env := mkenv {
  e_tracked : list bytes;  (* history: ids of the queries being tracked *)
  e_ready : bool;          (* history: the iterator of the hand-over is (or becomes) ready: it is
                              advanced, closed or its context ends *)
  e_type : bytes;          (* stanza type as the multiplexer parsed it *)
  e_ok : bool;             (* an oracle's answer: stanza.NewIQ accepted the reply (jid.Parse); ibb: the
                              request is addressed to the session's local address; muc: the presence
                              comes from the occupant that joined *)
  e_full : bool;           (* the session's local address is a full JID *)
  e_hist : list aop;       (* application-side history *)
  e_match : bool           (* ibb: the <open/> or <close/> is for the session (from, sid) Expect was called
                              for / the local Write is on *)
}.

(* facts read from the sources by the translator (gen/C09Sites.v) *)
Record facts := mkfacts {
  f_keys_agree : bool;     (* the ibb listener table is deleted from under the key it is inserted with *)
  f_depart_select : bool;  (* muc: the departure notification is one alternative of a select *)
  f_expect_owner : bool;   (* ibb: an Expect call that gives up removes the registration only if it is its own *)
  f_rcpt_delete_first : bool; (* receipts: the handler deletes the table entry before it signals the sender *)
  f_close_no_wait : bool   (* ibb: the close handler never waits for the stream's write lock *)
}.

Definition is_start (t : token) : bool := match t with TStart _ _ => true | _ => false end.

(* the class with which a loop over a reader ends once the tokens ran out *)
Definition at_end (tm : term) : cset := match tm with TmEOF => [COk] | TmErr => [CErr] end.

(* ---- xmlstream.Iter over the children of the element being read ----
   [kids d l]: the children seen by successive Next calls, d = nesting depth
   inside the current child; iteration stops at the end tag of the parent
   (KParentEnd) or when the reader has nothing more (KRanOut: then its terminal
   condition decides whether Err() is set). *)
Inductive child := CElem (n : name) (a : list attr) | CTok (t : token).
Inductive kend := KParentEnd | KRanOut.

Fixpoint kids (d : nat) (l : list token) : list child * kend :=
  match l with
  | [] => ([], KRanOut)
  | TStart n a :: r =>
      match d with
      | O => let '(k, e) := kids 1 r in (CElem n a :: k, e)
      | S _ => kids (S d) r
      end
  | TEnd _ :: r =>
      match d with
      | O => ([], KParentEnd)
      | S d' => kids d' r
      end
  | t :: r =>
      match d with
      | O => let '(k, e) := kids 0 r in (CTok t :: k, e)
      | S _ => kids d r
      end
  end.

Definition iter_end (e : kend) (tm : term) : cset :=
  match e with KParentEnd => [COk] | KRanOut => at_end tm end.

Definition is_elem_child (c : child) : bool := match c with CElem _ _ => true | _ => false end.
Definition has_elem (k : list child) : bool := existsb is_elem_child k.

Definition ns_rsm : bytes := str "http://jabber.org/protocol/rsm".
Definition ns_carbons : bytes := str "urn:xmpp:carbons:2".
Definition ns_forward : bytes := str "urn:xmpp:forward:0".
Definition ns_commands : bytes := str "http://jabber.org/protocol/commands".

Definition is_rsm_set (c : child) : bool :=
  match c with
  | CElem n _ => bytes_eqb (nlocal n) (str "set") && bytes_eqb (nspace n) ns_rsm
  | _ => false
  end.

Definition attr_or_empty (local : bytes) (a : list attr) : bytes :=
  match attr_local local a with Some v => v | None => [] end.

Definition iq_is_error (a : list attr) : bool := bytes_eqb (attr_or_empty (str "type") a) (str "error").

(* ================= request helpers (session_iq.go and its callers) ================= *)

(* unmarshalIQ after stanza.UnmarshalIQError: the payload is looked for among
   the tokens inside the IQ (xmlstream.Inner stops at the IQ's own end tag);
   tokens that are not start elements are skipped (repaired: the pinned code
   asserted the first one to be a start element). *)
Fixpoint um_payload (l : list token) (tm : term) : cset :=
  match l with
  | [] => at_end tm
  | TStart _ _ :: _ => returns            (* d.DecodeElement: oracle *)
  | TEnd _ :: _ => [COk]                  (* the IQ's end tag: io.EOF from Inner, nothing to decode *)
  | _ :: r => um_payload r tm
  end.

(* A response reader returns its LAST token together with io.EOF (xmlstream.Wrap
   ends with xmlstream.Token); code that tests the error before looking at the
   token never sees that token.  A reader that breaks returns the error alone. *)
Definition last_with_eof (tm : term) : bool := match tm with TmEOF => true | TmErr => false end.

Definition usable (l : list token) (tm : term) : list token :=
  if last_with_eof tm then removelast l else l.

(* the front of every helper: first token must be the IQ start element,
   stanza.NewIQ must accept it, an error IQ ends in an error (UnmarshalError
   either finds and decodes the error payload or reports that there is none;
   its iteration over the children guards the nil start element) *)
Definition iq_front (e : env) (r : rd) : option (list token) :=
  match r_toks r with
  | TStart _ a :: rest =>
      if is_nil rest && last_with_eof (r_term r) then None   (* the token arrives together with io.EOF *)
      else if negb (e_ok e) then None else if iq_is_error a then None else Some rest
  | _ => None
  end.

Definition unmarshal_iq (vnil : bool) (e : env) (r : rd) : cset :=
  match iq_front e r with
  | None => [CErr]
  | Some rest => if vnil then [COk] else um_payload rest (r_term r)
  end.

(* ping.Send: a service-unavailable error reply counts as success; which
   condition the error payload decodes to is the decoder's business *)
Definition ping_send (e : env) (r : rd) : cset :=
  match r_toks r with
  | TStart _ a :: _ => if e_ok e && iq_is_error a then returns else unmarshal_iq true e r
  | _ => [CErr]
  end.

(* upload.GetSlot followed by Slot.Put (repaired: a slot without put URL is an error) *)
Definition upload_slot (e : env) (r : rd) : cset :=
  let s := unmarshal_iq false e r in if mem COk s then CErr :: s else s.

(* iterIQ: after the front, ONE token is popped as "the payload start" whatever
   it is; the iterator runs over what follows *)
Definition iter_front (e : env) (r : rd) : option (list token) :=
  match iq_front e r with
  | None => None
  | Some [] => match r_term r with TmEOF => Some [] | TmErr => None end
  | Some (_ :: rest) => Some rest
  end.

(* draining an iterator whose Next decodes element children (roster items,
   disco items, bookmarks) or parses an attribute (blocklist): a decode error
   stops the iteration with an error; children that are not elements are
   skipped (guarded nil start element) *)
Definition drain_decoding (l : list token) (tm : term) : cset :=
  let '(k, e) := kids 0 l in
  (if has_elem k then [CErr] else []) ++ iter_end e tm.

(* draining an iterator that does not decode (IterIQ used directly, pubsub
   items): only a paging <set/> is decoded *)
Definition drain_plain (l : list token) (tm : term) : cset :=
  let '(k, e) := kids 0 l in
  (if existsb is_rsm_set k then [CErr] else []) ++ iter_end e tm.

Definition iter_plain (e : env) (r : rd) : cset :=
  match iter_front e r with None => [CErr] | Some l => drain_plain l (r_term r) end.

Definition iter_decoding (e : env) (r : rd) : cset :=
  match iter_front e r with None => [CErr] | Some l => drain_decoding l (r_term r) end.

(* disco.FetchItems / commands.Fetch: pages.  When a page carried a paging
   <set/> the iterator may ask for the next page (that depends on what the set
   decodes to); a failing follow-up request ends the iteration with its error
   (repaired: the pinned code went on with a nil iterator).  Replies beyond
   the script are error replies. *)
Fixpoint items_pages (e : env) (replies : list rd) : cset :=
  match replies with
  | [] => [CErr]
  | r :: rest =>
      match iter_front e r with
      | None => [CErr]
      | Some l =>
          let '(k, en) := kids 0 l in
          (if has_elem k then [CErr] else []) ++ iter_end en (r_term r) ++
          (if existsb is_rsm_set k then items_pages (mkenv (e_tracked e) (e_ready e) (e_type e) true (e_full e) (e_hist e) (e_match e)) rest else [])
      end
  end.

(* pubsub.FetchIQ: the IQ error check is made only when the first token is a
   start element; then two tokens are popped whatever they are *)
Definition pop2 (rest : list token) (tm : term) : option (list token) :=
  match rest with
  | _ :: _ :: l => if is_nil l && last_with_eof tm then None else Some l
  | _ => None
  end.

Definition pubsub_front (e : env) (r : rd) : option (list token) :=
  match r_toks r with
  | [] => None
  | TStart _ a :: rest =>
      if is_nil rest && last_with_eof (r_term r) then None
      else if negb (e_ok e) || iq_is_error a then None
      else pop2 rest (r_term r)
  | _ :: rest => if is_nil rest && last_with_eof (r_term r) then None else pop2 rest (r_term r)
  end.

Definition pubsub_fetch (e : env) (r : rd) : cset :=
  match pubsub_front e r with None => [CErr] | Some l => drain_plain l (r_term r) end.

Definition bookmarks_fetch (e : env) (r : rd) : cset :=
  match pubsub_front e r with None => [CErr] | Some l => drain_decoding l (r_term r) end.

(* commands.ExecuteIQ (repaired): the payload is the first start element after
   the IQ start; anything else before it is skipped, an end tag means there is
   none *)
Fixpoint exec_payload (l : list token) : cset :=
  match l with
  | [] => [CErr]
  | TStart n _ :: _ =>
      if bytes_eqb (nlocal n) (str "command") && bytes_eqb (nspace n) ns_commands then [COk] else [CErr]
  | TEnd _ :: _ => [CErr]
  | _ :: r => exec_payload r
  end.

Definition commands_execute (e : env) (r : rd) : cset :=
  match iq_front e r with None => [CErr] | Some rest => exec_payload (usable rest (r_term r)) end.

(* ================= token-level library functions ================= *)

Definition forward_unwrap (l : list token) : cset :=
  match l with
  | TStart n _ :: _ =>
      if bytes_eqb (nlocal n) (str "forwarded") && bytes_eqb (nspace n) ns_forward then [COk] else [CErr]
  | _ => [CErr]
  end.

Definition carbons_unwrap (l : list token) : cset :=
  match l with
  | TStart n _ :: rest =>
      if (bytes_eqb (nlocal n) (str "sent") || bytes_eqb (nlocal n) (str "received")) && bytes_eqb (nspace n) ns_carbons
      then forward_unwrap rest else [CErr]
  | _ => [CErr]
  end.

(* ================= handlers ================= *)

(* history.Handler.HandleMessage (repaired): the reader yields the whole
   message.  After the message start, tokens are skipped up to the first child
   element; its queryid decides between the inner handler and the iterator. *)
Definition tracked (e : env) (q : bytes) : bool := existsb (bytes_eqb q) (e_tracked e).

Fixpoint hist_child (e : env) (l : list token) (tm : term) : cset :=
  match l with
  | [] => [CErr]
  | TStart _ a :: _ =>
      if tracked e (attr_or_empty (str "queryid") a)
      then match tm with
           | TmErr => [CErr]                      (* copying the message for the iterator fails *)
           | TmEOF => if e_ready e then returns else [CBlocked]
           end
      else returns                                 (* inner handler: application code *)
  | TEnd _ :: _ => [COk]
  | _ :: r => hist_child e r tm
  end.

Definition history_handle (e : env) (r : rd) : cset :=
  match r_toks r with
  | [] => [CErr]
  | _ :: rest => hist_child e rest (r_term r)
  end.

(* carbons.Handler.HandleMessage (repaired: children without start element are
   skipped).  The first carbons child ends the loop: one token of it is popped
   (an error if there is none), then the application's function runs. *)
Definition is_carbon (n : name) : bool :=
  bytes_eqb (nspace n) ns_carbons && (bytes_eqb (nlocal n) (str "received") || bytes_eqb (nlocal n) (str "sent")).

Fixpoint carb_loop (d : nat) (l : list token) (tm : term) : cset :=
  match l with
  | [] => at_end tm
  | TStart n _ :: r =>
      match d with
      | O => if is_carbon n then match r with [] => [CErr] | _ => returns end
             else carb_loop 1 r tm
      | S _ => carb_loop (S d) r tm
      end
  | TEnd _ :: r => match d with O => [COk] | S d' => carb_loop d' r tm end
  | _ :: r => carb_loop d r tm
  end.

Definition carbons_handle (r : rd) : cset :=
  match r_toks r with
  | [] => [CErr]
  | _ :: rest => carb_loop 0 rest (r_term r)
  end.

(* blocklist.Handler.HandleIQ (repaired: nil start skipped, jid attribute
   looked up by name, jid.Parse instead of jid.MustParse).  The reader yields the
   children of the payload. *)
Definition blocklist_handle (start : token) (r : rd) : cset :=
  match start with
  | TStart n _ =>
      if bytes_eqb (nlocal n) (str "blocklist") then returns
      else let '(k, e) := kids 0 (r_toks r) in
           if has_elem k then returns else iter_end e (r_term r)
  | _ => returns
  end.

(* receipts.Handler.HandleMessage (repaired: children without start element
   are skipped; the pinned code dereferenced the nil start element).  The first
   <received/> or <request/> child ends the loop.  A receipt for a message that
   awaits one is signalled on that message's channel, which has room for ONE
   token: the handler deletes the table entry first, so a repeated receipt finds
   nothing; if it did not, the second signal that nobody consumes would park. *)
Definition r_step (delfirst : bool) (st : bool * nat) (o : aop) : bool * nat :=
  let '(entry, sig) := st in
  match o with
  | ARSend => (true, 0)
  | ARGone => (false, sig)
  | ARSignal => if entry then (if delfirst then (false, 0) else (true, S sig)) else st
  | _ => st
  end.

Definition r_state (delfirst : bool) (h : list aop) : bool * nat := fold_left (r_step delfirst) h (false, 0).

Fixpoint rcpt_loop (f : facts) (ev : env) (k : list child) (e : kend) (tm : term) : cset :=
  match k with
  | [] => iter_end e tm
  | CTok _ :: r => rcpt_loop f ev r e tm
  | CElem n a :: r =>
      if bytes_eqb (nlocal n) (str "received") then
        let '(entry, sig) := r_state (f_rcpt_delete_first f) (e_hist ev) in
        if existsb (bytes_eqb (attr_or_empty (str "id") a)) (e_tracked ev) && entry
        then match sig with O => returns | S _ => CBlocked :: returns end
        else returns
      else if bytes_eqb (nlocal n) (str "request") then returns
      else rcpt_loop f ev r e tm
  end.

Definition receipts_handle (f : facts) (ev : env) (r : rd) : cset :=
  match r_toks r with
  | [] => [CErr]
  | _ :: rest => let '(k, e) := kids 0 rest in rcpt_loop f ev k e (r_term r)
  end.

(* ibb (owned by C15/C06).  The handler keeps a table of listeners keyed by an
   address of the session.  Listen inserts under LocalAddr().String() unless an
   entry is there; Close deletes and closes the accept channel.  If the key of
   the deletion is not the key of the insertion (and they differ: the local
   address is a full JID) the entry stays, with its channel closed. *)
Inductive lstate := LNone | LOpen (accepting : bool) | LStale.

(* the listener's table of expected sessions, for the one session the
   application calls Expect for: nobody waits; a waiting call is registered; a
   call is waiting but its registration is gone (a superseded call that gave up
   removed the registration of the call that replaced it) *)
Inductive estate := ENone | EReg | ELost.

Definition l_step (agree full : bool) (st : lstate) (o : aop) : lstate :=
  match o, st with
  | ALListen, LNone => LOpen false
  | ALAcceptor, LOpen _ => LOpen true
  | ALClose, LOpen _ => if agree || negb full then LNone else LStale
  | _, _ => st
  end.

Definition l_state (agree full : bool) (h : list aop) : lstate := fold_left (l_step agree full) h LNone.

Definition e_step (owner : bool) (st : estate) (o : aop) : estate :=
  match o, st with
  | AEExpect, ENone => EReg
  | AEExpect, _ => if owner then EReg else ELost   (* the superseded call gives up and cleans up *)
  | AECancel, _ => ENone
  | AEOpen, EReg => ENone                          (* handed over: the entry is consumed *)
  | _, _ => st
  end.

Definition e_state (owner : bool) (h : list aop) : estate := fold_left (e_step owner) h ENone.

(* a call of Expect is waiting (whatever the table says) *)
Definition expect_live (h : list aop) : bool :=
  match e_state true h with ENone => false | _ => true end.

(* a local Write is in progress on the stream *)
Definition writing (h : list aop) : bool := existsb (fun o => match o with AWWrite => true | _ => false end) h.

(* decode first; a <close/> for a stream with a Write in progress must not wait
   for the writer (it only makes it stop); an accepted <open/> addressed to the session is answered and the
   new connection handed to the Expect call registered for it (select with its
   done channel: never parks), otherwise to the listener over its unbuffered
   accept channel: parked until the application calls Accept, a panic if that
   channel has been closed *)
Definition ibb_iq (f : facts) (e : env) (start : token) : cset :=
  match start with
  | TStart n _ =>
      if bytes_eqb (nlocal n) (str "open") && e_ok e then
        match l_state (f_keys_agree f) (e_full e) (e_hist e) with
        | LNone => returns
        | LStale => CPanic :: returns
        | LOpen acc =>
            match (if e_match e then e_state (f_expect_owner f) (e_hist e) else ENone) with
            | EReg => returns
            | _ => if acc then returns else CBlocked :: returns
            end
        end
      else if bytes_eqb (nlocal n) (str "close") && e_match e && writing (e_hist e) && negb (f_close_no_wait f)
      then CBlocked :: returns   (* the writer waits for an acknowledgement only this goroutine can deliver *)
      else returns
  | _ => returns
  end.

(* muc.Client.HandlePresence (owned by C18): nothing happens for an occupant
   that is not managed; an unavailable presence of a managed one removes it and
   puts a notification into the one-slot depart channel — as one alternative of
   a select (never parks) or, if the inventory says otherwise, as a plain send
   that parks when the slot still holds a departure nobody waited for. *)
Definition m_step (st : bool * bool * bool) (o : aop) : bool * bool * bool :=
  let '(managed, slot, pending) := st in
  match o with
  | AMJoin => (true, slot, pending)
  | AMLeave => (managed, false, true)
  | AMDepart => if managed then (false, negb pending, false) else st
  | _ => st
  end.

Definition m_state (h : list aop) : bool * bool * bool := fold_left m_step h (false, false, false).

Definition muc_presence (f : facts) (e : env) : cset :=
  let '(managed, slot, _) := m_state (e_hist e) in
  if e_ok e && managed && bytes_eqb (e_type e) (str "unavailable") && slot && negb (f_depart_select f)
  then CBlocked :: returns else returns.

(* ---- components ---- *)

Inductive comp :=
| HHistory | HReceipts | HCarbons | HBlocklist | HRoster | HXtime | HPing | HIbbIQ | HIbbMsg | HMucPres | HMucMsg
| QUnmarshal (vnil : bool) | QPing | QUpload | QHistIter | QItems | QRoster | QBlocklist | QPubsub | QBookmarks
| QExecute | QIterPlain | QSendOnly
| FCarbonsUnwrap | FForwardUnwrap.

(* ---- the site inventory the model accounts for ---- *)

Inductive stag :=
| SSafe    (* cannot fail: map access, index bounded by a preceding length check or range *)
| SGuard   (* nil start element compared with nil before use *)
| SEnv     (* channel operation: outcome depends on the partner (env), or close guarded by a table entry *)
| SCaller  (* input supplied by the calling application, not by the peer *)
| SBuf     (* send on a channel that has room for it: buffered, one signal per table entry *)
| SOther.  (* modelled by another property (form: C19) *)

Definition modelled_sites : list (site * stag) := [
  (mksite (str "blocklist/blocking.go") (str "Iter.Next") KNilGuard (str "start, _ := i.iter.Current()"), SGuard);
  (mksite (str "blocklist/handler.go") (str "Handler.HandleIQ") KClose (str "close(c)"), SEnv);
  (mksite (str "blocklist/handler.go") (str "Handler.HandleIQ") KNilGuard (str "itemStart, child := iter.Current()"), SGuard);
  (mksite (str "carbons/handler.go") (str "Handler.HandleMessage") KNilGuard (str "start, child := iter.Current()"), SGuard);
  (mksite (str "disco/handler.go") (str "discoHandler.HandleIQ") KIndex (str "seen[f.Var]"), SSafe);
  (mksite (str "disco/handler.go") (str "discoHandler.HandleIQ") KIndex (str "seen[i.Node]"), SSafe);
  (mksite (str "disco/handler.go") (str "discoHandler.HandleIQ") KIndex (str "seen[loopKey]"), SSafe);
  (mksite (str "disco/info.go") (str "Info.AppendHash") KIndex (str "i.Features[a]"), SSafe);
  (mksite (str "disco/info.go") (str "Info.AppendHash") KIndex (str "i.Features[b]"), SSafe);
  (mksite (str "disco/info.go") (str "Info.AppendHash") KIndex (str "i.Identity[a]"), SSafe);
  (mksite (str "disco/info.go") (str "Info.AppendHash") KIndex (str "i.Identity[b]"), SSafe);
  (mksite (str "disco/info.go") (str "Info.AppendHash") KMake (str "make([]byte, base64.StdEncoding.EncodedLen(len(dst)))"), SSafe);
  (mksite (str "disco/info.go") (str "Info.AppendHash") KMake (str "make([]hashChunk, 0, infoForm.Len())"), SSafe);
  (mksite (str "disco/info.go") (str "Info.AppendHash") KMake (str "make([]hashChunk, 0, len(i.Form))"), SSafe);
  (mksite (str "disco/info.go") (str "Info.TokenReader") KIndex (str "i.Form[idx]"), SSafe);
  (mksite (str "disco/info.go") (str "sortChunks") KIndex (str "c[a]"), SSafe);
  (mksite (str "disco/info.go") (str "sortChunks") KIndex (str "c[b]"), SSafe);
  (mksite (str "disco/items.go") (str "ItemIter.Next") KNilGuard (str "start, r := i.iter.Current()"), SGuard);
  (mksite (str "disco/items.go") (str "appendItems") KIndex (str "items[itemIdx]"), SSafe);
  (mksite (str "disco/items.go") (str "walkItem") KIndex (str "items[itemIdx]"), SSafe);
  (mksite (str "disco/items.go") (str "walkItem") KSlice (str "items[last+1:]"), SSafe);
  (mksite (str "form/form.go") (str "Data.Get") KIndex (str "d.fields[fieldIDX]"), SOther);
  (mksite (str "form/form.go") (str "Data.Get") KIndex (str "field.value[0]"), SOther);
  (mksite (str "form/form.go") (str "Data.GetOptions") KIndex (str "d.fields[i]"), SOther);
  (mksite (str "form/form.go") (str "Data.Set") KIndex (str "d.values[id]"), SOther);
  (mksite (str "form/form.go") (str "Data.TokenReader") KMake (str "make([]string, 0, len(typed))"), SOther);
  (mksite (str "form/form.go") (str "Data.TokenReader") KSlice (str "instructions[:idx]"), SOther);
  (mksite (str "form/form.go") (str "Data.TokenReader") KSlice (str "instructions[idx+1:]"), SOther);
  (mksite (str "form/form.go") (str "Data.TokenReader") KSlice (str "typed[:idx]"), SOther);
  (mksite (str "form/form.go") (str "Data.TokenReader") KSlice (str "typed[idx+1:]"), SOther);
  (mksite (str "history/history.go") (str "Handler.FetchIQ") KIndex (str "h.tracked[filter.ID]"), SSafe);
  (mksite (str "history/history.go") (str "Handler.HandleMessage") KSendSel (str "iter.msgC <- &tokenReader{toks: buf}"), SEnv);
  (mksite (str "history/history.go") (str "Handler.HandleMessage") KSlice (str "buf[2:]"), SSafe);
  (mksite (str "history/history.go") (str "Handler.remove") KClose (str "close(iter.done)"), SEnv);
  (mksite (str "history/history.go") (str "tokenReader.Token") KIndex (str "r.toks[0]"), SSafe);
  (mksite (str "history/history.go") (str "tokenReader.Token") KSlice (str "r.toks[1:]"), SSafe);
  (mksite (str "ibb/conn.go") (str "Conn.closeRead") KClose (str "close(c.readReady)"), SEnv);
  (mksite (str "ibb/conn.go") (str "newConn") KMake (str "make([]byte, 0, blockSize)"), SSafe);
  (mksite (str "ibb/ibb.go") (str "Handler.Listen") KIndex (str "h.l[addrStr]"), SSafe);
  (mksite (str "ibb/ibb.go") (str "Handler.addStream") KIndex (str "h.streams[sid]"), SSafe);
  (mksite (str "ibb/ibb.go") (str "handleOpen") KSend (str "l.c <- conn"), SEnv);
  (mksite (str "ibb/ibb.go") (str "handleOpen") KSendSel (str "expect.c <- conn"), SEnv);
  (mksite (str "ibb/ibb.go") (str "handlePayload") KMake (str "make([]byte, dataLen)"), SSafe);
  (mksite (str "ibb/ibb.go") (str "handlePayload") KSendSel (str "conn.readReady <- struct{}{}"), SEnv);
  (mksite (str "ibb/ibb.go") (str "handlePayload") KSlice (str "decoded[:n]"), SSafe);
  (mksite (str "ibb/listen.go") (str "Listener.Close") KClose (str "close(l.c)"), SEnv);
  (mksite (str "ibb/listen.go") (str "Listener.Expect") KIndex (str "l.expected[key]"), SSafe);
  (mksite (str "muc/muc.go") (str "Client.HandlePresence") KSendSel (str "c.j <- p.From"), SEnv);
  (mksite (str "muc/muc.go") (str "Client.HandlePresence") KSendSel (str "channel.depart <- struct{}{}"), SEnv);
  (mksite (str "muc/muc.go") (str "Client.JoinPresence") KIndex (str "c.managed[p.To.String()]"), SSafe);
  (mksite (str "muc/room.go") (str "Channel.JoinPresence") KIndex (str "c.client.managed[p.To.String()]"), SSafe);
  (mksite (str "muc/room.go") (str "Channel.JoinPresence") KSendSel (str "c.join <- joinCtx"), SEnv);
  (mksite (str "muc/room.go") (str "Channel.JoinPresence") KSendSel (str "errChan <- err"), SEnv);
  (mksite (str "muc/room.go") (str "Channel.JoinPresence") KSendSel (str "errChan <- stanzaError"), SEnv);
  (mksite (str "muc/room.go") (str "Channel.LeavePresence") KSendSel (str "errChan <- err"), SEnv);
  (mksite (str "muc/room.go") (str "Channel.LeavePresence") KSendSel (str "errChan <- stanzaError"), SEnv);
  (mksite (str "mux/mux.go") (str "ServeMux.Handler") KIndex (str "m.patterns[n]"), SSafe);
  (mksite (str "mux/mux.go") (str "ServeMux.Handler") KIndex (str "m.patterns[name]"), SSafe);
  (mksite (str "mux/mux.go") (str "ServeMux.IQHandler") KIndex (str "m.iqPatterns[pattern]"), SSafe);
  (mksite (str "mux/mux.go") (str "ServeMux.MessageHandler") KIndex (str "m.msgPatterns[pattern]"), SSafe);
  (mksite (str "mux/mux.go") (str "ServeMux.PresenceHandler") KIndex (str "m.presencePatterns[pattern]"), SSafe);
  (mksite (str "mux/mux.go") (str "bufReader.Token") KIndex (str "r.buf[o]"), SSafe);
  (mksite (str "mux/mux.go") (str "forChildren") KNilGuard (str "start, _ := iterator.Current()"), SGuard);
  (mksite (str "paging/rsm.go") (str "Iter.Next") KNilGuard (str "start, r := i.iter.Current()"), SGuard);
  (mksite (str "pubsub/fetch.go") (str "Iter.Next") KNilGuard (str "start, r := i.iter.Current()"), SGuard);
  (mksite (str "receipts/receipts.go") (str "Handler.HandleMessage") KNilGuard (str "start, _ := i.Current()"), SGuard);
  (mksite (str "receipts/receipts.go") (str "Handler.HandleMessage") KSend (str "c <- struct{}{}"), SBuf);
  (mksite (str "receipts/receipts.go") (str "Handler.SendMessage") KAssert (str "tok.(xml.StartElement)"), SCaller);
  (mksite (str "receipts/receipts.go") (str "Handler.SendMessageElement") KIndex (str "h.sent[msg.ID]"), SSafe);
  (mksite (str "roster/roster.go") (str "DeleteIQ") KIndex (str "iq.Query.Item[i]"), SSafe);
  (mksite (str "roster/roster.go") (str "Iter.Next") KNilGuard (str "start, r := i.iter.Current()"), SGuard);
  (mksite (str "roster/roster.go") (str "itemMarshaler.Token") KIndex (str "m.items[0]"), SSafe);
  (mksite (str "roster/roster.go") (str "itemMarshaler.Token") KSlice (str "m.items[1:]"), SSafe);
  (mksite (str "session.go") (str "Session.sendResp") KIndex (str "s.sentStanzas[id]"), SSafe);
  (mksite (str "session.go") (str "handleInputStream") KIndex (str "start.Attr[i]"), SSafe);
  (mksite (str "session.go") (str "handleInputStream") KSendSel (str "readerChan.c <- iqResponder{ r: xmlstream.Wrap(inner, start), c: readerChan.c, }"), SEnv);
  (mksite (str "session.go") (str "iqResponder.Close") KClose (str "close(r.c)"), SEnv);
  (mksite (str "session.go") (str "setDeadline") KSend (str "done <- false"), SEnv);
  (mksite (str "session.go") (str "setDeadline") KSend (str "done <- true"), SEnv);
  (mksite (str "session.go") (str "stanzaEncoder.EncodeToken") KMake (str "make([]xml.Attr, 0, len(tok.Attr)+2)"), SSafe);
  (mksite (str "session.go") (str "stanzaEncoder.EncodeToken") KSlice (str "tok.Attr[:0]"), SSafe);
  (mksite (str "session_iq.go") (str "Session.SendIQ") KIndex (str "start.Attr[idx]"), SSafe);
  (mksite (str "session_iq.go") (str "Session.SendIQ") KMake (str "make([]xml.Attr, 0, len(start.Attr)+1)"), SSafe);
  (mksite (str "stanza/error.go") (str "Error.UnmarshalXML") KIndex (str "se.Text[text.Lang]"), SSafe);
  (mksite (str "stanza/error.go") (str "Error.Wrap") KIndex (str "se.Text[lang]"), SSafe);
  (mksite (str "stanza/error.go") (str "UnmarshalError") KNilGuard (str "start, p := iter.Current()"), SGuard)
].

Definition owned_files : list bytes := [
  str "session_iq.go"; str "history/history.go"; str "history/iter.go"; str "history/query.go"; str "history/fin.go";
  str "commands/commands.go"; str "commands/actions.go"; str "roster/roster.go"; str "pubsub/fetch.go";
  str "blocklist/blocking.go"; str "blocklist/handler.go"; str "bookmarks/iter.go"; str "carbons/carbons.go";
  str "carbons/handler.go"; str "forward/forward.go"; str "xtime/time.go"; str "version/version.go"; str "ping/ping.go";
  str "upload/upload.go"; str "disco/handler.go"; str "disco/items.go"; str "paging/rsm.go";
  str "receipts/receipts.go"].

Definition skind_eqb (a b : skind) : bool :=
  match a, b with
  | KAssert, KAssert | KIndex, KIndex | KSlice, KSlice | KMake, KMake | KSend, KSend | KSendSel, KSendSel
  | KClose, KClose | KMust, KMust | KNilDeref, KNilDeref | KNilGuard, KNilGuard => true
  | _, _ => false
  end.

Definition site_eqb (a b : site) : bool :=
  bytes_eqb (s_file a) (s_file b) && bytes_eqb (s_func a) (s_func b) && skind_eqb (s_kind a) (s_kind b)
  && bytes_eqb (s_expr a) (s_expr b).

Definition site_loose_eqb (a b : site) : bool :=
  bytes_eqb (s_file a) (s_file b) && bytes_eqb (s_func a) (s_func b) && skind_eqb (s_kind a) (s_kind b).

Definition owned (s : site) : bool := existsb (bytes_eqb (s_file s)) owned_files.

Definition dangerous_kind (k : skind) : bool :=
  match k with KAssert | KMust | KNilDeref | KSend => true | _ => false end.

(* Files repaired for this property: every site must be listed exactly.  Files
   of other properties: (file, function, kind) must be listed; kinds that are
   not dangerous by themselves (bounded index/slice/make, close, a send inside a
   select, a guarded start element) need no entry there, so that repairs made
   for those properties do not have to be mirrored here. *)
Definition covered (s : site) : bool :=
  if owned s then existsb (fun m => site_eqb s (fst m)) modelled_sites
  else negb (dangerous_kind (s_kind s)) || existsb (fun m => site_loose_eqb s (fst m)) modelled_sites.

(* a dangerous kind in a repaired file needs an exact entry that says why it is
   harmless there: the data is the application's, or the channel has room *)
Definition justified (s : site) : bool :=
  existsb (fun m => site_eqb s (fst m) && match snd m with SCaller | SBuf => true | _ => false end) modelled_sites.

(* ---- running a component ---- *)

Definition first_rd (rs : list rd) : rd := match rs with r :: _ => r | [] => mkrd [] TmEOF end.

Definition run_comp (f : facts) (c : comp) (e : env) (start : token) (rs : list rd) : cset :=
  let r := first_rd rs in
  match c with
  | HHistory => history_handle e r
  | HReceipts => receipts_handle f e r
  | HCarbons => carbons_handle r
  | HBlocklist => blocklist_handle start r
  | HRoster | HXtime | HPing | HIbbMsg | HMucMsg => returns
  | HMucPres => muc_presence f e
  | HIbbIQ => ibb_iq f e start
  | QUnmarshal vnil => unmarshal_iq vnil e r
  | QPing => ping_send e r
  | QUpload => upload_slot e r
  | QHistIter => [COk]
  | QItems => items_pages e rs
  | QRoster | QBlocklist => iter_decoding e r
  | QPubsub => pubsub_fetch e r
  | QBookmarks => bookmarks_fetch e r
  | QExecute => commands_execute e r
  | QIterPlain => iter_plain e r
  | QSendOnly => returns
  | FCarbonsUnwrap => carbons_unwrap (r_toks r)
  | FForwardUnwrap => forward_unwrap (r_toks r)
  end.

(* ---- Serve: one top-level element invokes some handlers in turn; an error or
   the end of input makes Serve return ---- *)

Inductive outcome := Returned | Panicked | Wedged.

Record inv := mkinv { i_comp : comp; i_env : env; i_start : token; i_rds : list rd }.

Definition run_inv (f : facts) (i : inv) : cset :=
  run_comp f (i_comp i) (i_env i) (i_start i) (i_rds i).

Fixpoint serve_may (f : facts) (script : list (list inv)) : list outcome :=
  match script with
  | [] => [Returned]
  | el :: rest =>
      (if existsb (fun i => mem CPanic (run_inv f i)) el then [Panicked] else []) ++
      (if existsb (fun i => mem CBlocked (run_inv f i)) el then [Wedged] else []) ++
      Returned :: serve_may f rest
  end.

(* ---- the facts of the tree the check runs on ---- *)

(* all insertions into and deletions from the listener table use the same key expression *)
Definition keys_agree (l : list (bool * bytes)) : bool :=
  match l with
  | [] => false
  | (_, k) :: r => forallb (fun x => bytes_eqb (snd x) k) r && existsb fst l && existsb (fun x => negb (fst x)) l
  end.

Definition muc_depart_site : site :=
  mksite (str "muc/muc.go") (str "Client.HandlePresence") KSendSel (str "channel.depart <- struct{}{}").

Definition gen_facts : facts :=
  mkfacts (keys_agree listener_table_keys) (existsb (site_eqb muc_depart_site) generated_sites)
          ho_ibb_expect_cleanup_checks_owner receipts_delete_precedes_send
          (Nat.eqb ho_ibb_serve_close_blocking_write_locks 0).

(* every access of the session's map of pending requests is inside a lock region of its mutex *)
Definition session_maps_locked : bool :=
  negb (is_nil session_map_accesses) && forallb (fun x => snd x) session_map_accesses.

(* every Lock in the handler files is released on every path of its function *)
Definition locks_released : bool :=
  negb (is_nil lock_paths) && forallb (fun x => snd x) lock_paths.

(* ---- correspondence ---- *)

Record ccase := mkcase { cc_comp : comp; cc_env : env; cc_start : token; cc_rds : list rd; cc_obs : cls }.

Definition case_ok (c : ccase) : bool :=
  mem (cc_obs c) (run_comp gen_facts (cc_comp c) (cc_env c) (cc_start c) (cc_rds c)).

Fixpoint failing {A} (ok : A -> bool) (i : nat) (l : list A) : list nat :=
  match l with
  | [] => []
  | x :: r => if ok x then failing ok (S i) r else i :: failing ok (S i) r
  end.
