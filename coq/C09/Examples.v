(* C09/Examples.v — non-vacuity and worked examples. *)
From XV Require Import lib.Bytes lib.Xml gen.C09Sites C09.Model C09.Proofs.

Definition iqn := mkname (str "jabber:client") (str "iq").
Definition qn := mkname (str "jabber:iq:version") (str "query").
Definition env0 := mkenv [] true [] true true [] false.

(* <iq type='result'>text<query/></iq>: the witness of the unmarshalIQ panic on the pinned
   tree; the repaired code skips the text and reaches the decoder *)
Example ex_text_first :
  unmarshal_iq false env0 (mkrd [TStart iqn [at_ (str "type") (str "result")]; TChar (str "text"); TStart qn []; TEnd qn; TEnd iqn] TmEOF)
  = [COk; CErr].
Proof. vm_compute. reflexivity. Qed.

(* <iq type='result'/>: nothing to decode *)
Example ex_empty_result :
  unmarshal_iq false env0 (mkrd [TStart iqn [at_ (str "type") (str "result")]; TEnd iqn] TmEOF) = [COk].
Proof. vm_compute. reflexivity. Qed.

(* the same reply to a command: an error, not a panic *)
Example ex_command_empty :
  commands_execute env0 (mkrd [TStart iqn [at_ (str "type") (str "result")]; TEnd iqn] TmEOF) = [CErr].
Proof. vm_compute. reflexivity. Qed.

(* an error reply *)
Example ex_error_reply :
  unmarshal_iq false env0 (mkrd [TStart iqn [at_ (str "type") (str "error")]; TEnd iqn] TmEOF) = [CErr].
Proof. vm_compute. reflexivity. Qed.

(* a result cut by invalid XML in the middle of the items *)
Example ex_cut_roster :
  iter_decoding env0 (mkrd [TStart iqn [at_ (str "type") (str "result")]; TStart (mkname (str "jabber:iq:roster") (str "query")) [];
                            TStart (mkname (str "jabber:iq:roster") (str "item")) []; TEnd (mkname (str "jabber:iq:roster") (str "item"))] TmErr)
  = [CErr; CErr].
Proof. vm_compute. reflexivity. Qed.

(* two pages of items, the second request answered with an error *)
Definition items_q := mkname (str "http://jabber.org/protocol/disco#items") (str "query").
Definition rsm_set := mkname ns_rsm (str "set").
Example ex_pages :
  mem COk (items_pages env0
    [mkrd [TStart iqn [at_ (str "type") (str "result")]; TStart items_q []; TStart rsm_set []; TEnd rsm_set; TEnd items_q; TEnd iqn] TmEOF;
     mkrd [TStart iqn [at_ (str "type") (str "error")]; TEnd iqn] TmEOF]) = true
  /\ mem CErr (items_pages env0
    [mkrd [TStart iqn [at_ (str "type") (str "result")]; TStart items_q []; TStart rsm_set []; TEnd rsm_set; TEnd items_q; TEnd iqn] TmEOF;
     mkrd [TStart iqn [at_ (str "type") (str "error")]; TEnd iqn] TmEOF]) = true.
Proof. vm_compute. split; reflexivity. Qed.

(* history: a tracked result with an iterator that is advanced; untracked; not released *)
Definition msgn := mkname (str "jabber:client") (str "message").
Definition resn := mkname (str "urn:xmpp:mam:2") (str "result").
Definition hist_msg := mkrd [TStart msgn []; TChar (str " "); TStart resn [at_ (str "queryid") (str "q1")]; TEnd resn; TEnd msgn] TmEOF.
Example ex_history_tracked : history_handle (mkenv [str "q1"] true (str "normal") true true [] false) hist_msg = [COk; CErr].
Proof. vm_compute. reflexivity. Qed.
Example ex_history_parked : history_handle (mkenv [str "q1"] false (str "normal") true true [] false) hist_msg = [CBlocked].
Proof. vm_compute. reflexivity. Qed.

(* hypotheses of the theorems are satisfiable in non-trivial ways *)
Example ex_cond_history : comp_cond gen_facts HHistory (mkenv [str "q1"] true (str "normal") true true [] false) = true.
Proof. reflexivity. Qed.
(* <message>text<request xmlns='urn:xmpp:receipts'/></message>: panicked the pinned receipts handler *)
Example ex_receipts_text_child : receipts_handle gen_facts env0 receipts_witness = [COk; CErr].
Proof. exact receipts_witness_returns. Qed.
Example ex_serve_script :
  serve_may gen_facts
    [[mkinv HHistory (mkenv [str "q1"] true (str "normal") true true [] false) (TChar []) [hist_msg]];
     [mkinv HCarbons env0 (TChar []) [mkrd [TStart msgn []; TChar (str "x"); TEnd msgn] TmEOF]]]
  = [Returned; Returned; Returned].
Proof. vm_compute. reflexivity. Qed.
Example ex_helper : helper_or_function QItems = true.
Proof. reflexivity. Qed.


(* ibb: Listen, an acceptor, Listener.Close, then <open/> on a session with a full local address *)
Example ex_ibb_after_close : ibb_iq gen_facts stale_env open_start = [COk; CErr].
Proof. vm_compute. reflexivity. Qed.
Example ex_ibb_key_mismatch : ibb_iq (mkfacts false true true true true) stale_env open_start = [CPanic; COk; CErr].
Proof. vm_compute. reflexivity. Qed.
(* the same mismatch is harmless on a bare local address *)
Example ex_ibb_key_mismatch_bare :
  ibb_iq (mkfacts false true true true true) (mkenv [] true (str "set") true false [ALListen; ALAcceptor; ALClose] false) open_start = [COk; CErr].
Proof. vm_compute. reflexivity. Qed.
(* a listener nobody accepts from *)
Example ex_ibb_unserved : ibb_iq gen_facts (mkenv [] true (str "set") true true [ALListen] false) open_start = [CBlocked; COk; CErr].
Proof. vm_compute. reflexivity. Qed.
(* muc: joined, removed, joined again, removed again *)
Example ex_muc_second_departure : muc_presence gen_facts depart_env = [COk; CErr].
Proof. vm_compute. reflexivity. Qed.
Example ex_muc_plain_send : muc_presence (mkfacts true false true true true) depart_env = [CBlocked; COk; CErr].
Proof. vm_compute. reflexivity. Qed.
(* a Leave in between drains the slot *)
Example ex_muc_leave_drains :
  muc_presence (mkfacts true false true true true) (mkenv [] true (str "unavailable") true true [AMJoin; AMDepart; AMLeave; AMJoin] false) = [COk; CErr].
Proof. vm_compute. reflexivity. Qed.
Example ex_served : listener_served gen_facts (mkenv [] true [] true true [ALListen; ALAcceptor] false) = true.
Proof. vm_compute. reflexivity. Qed.

(* ibb: Expect taken over by a second call for the same session, nobody in Accept, then the <open/> *)
Example ex_takeover_delivered : ibb_iq gen_facts takeover_env open_start = [COk; CErr].
Proof. vm_compute. reflexivity. Qed.
Example ex_takeover_lost : ibb_iq (mkfacts true true false true true) takeover_env open_start = [CBlocked; COk; CErr].
Proof. vm_compute. reflexivity. Qed.
Example ex_takeover_live : expect_live (e_hist takeover_env) = true /\ e_match takeover_env = true.
Proof. split; reflexivity. Qed.
(* the same <open/> for another session is the known stall *)
Example ex_unexpected_open :
  ibb_iq gen_facts (mkenv [] true (str "set") true true [ALListen; AEExpect] false) open_start = [CBlocked; COk; CErr].
Proof. vm_compute. reflexivity. Qed.
(* receipts: the same receipt three times while the message awaits it *)
Example ex_receipt_repeated : receipts_handle gen_facts rcpt_env rcpt_msg = [COk; CErr].
Proof. vm_compute. reflexivity. Qed.
Example ex_receipt_repeated_no_delete :
  receipts_handle (mkfacts true true true false true) rcpt_env rcpt_msg = [CBlocked; COk; CErr].
Proof. vm_compute. reflexivity. Qed.

(* ibb: <close/> while a local Write on the acknowledged stream waits for its ack *)
Example ex_close_while_writing : ibb_iq gen_facts writing_env close_start = [COk; CErr].
Proof. vm_compute. reflexivity. Qed.
Example ex_close_waits_for_writer : ibb_iq (mkfacts true true true true false) writing_env close_start = [CBlocked; COk; CErr].
Proof. vm_compute. reflexivity. Qed.
