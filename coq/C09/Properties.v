(* C09/Properties.v — the property theorems of C09 and nothing else.
   "No peer input can panic or wedge the library."

   Every statement is over the model of C09/Model.v: a component applied to
   what its token reader yields returns the SET of ways the call can end
   (COk | CErr | CPanic | CBlocked).  "For every byte string the peer sends"
   becomes "for every token list and either way for the reader to end" — the
   XML tokenizer is an oracle, and so is encoding/xml's Decode once control
   reaches it (both of its answers are in the set). *)
From XV Require Import lib.Bytes lib.Xml gen.C09Sites C09.Model C09.Proofs.

(* ---- request helpers: whatever the reply contains, a value or an error ---- *)

(* Session.UnmarshalIQ / UnmarshalIQElement and everything built on them (ping,
   version, xtime, carbons enable/disable, upload slot, history.Fetch,
   disco.GetInfo): never a panic, never parked. *)
Theorem C09_no_panic_unmarshal_iq : forall vnil e r, mem CPanic (unmarshal_iq vnil e r) = false.
Proof. exact np_unmarshal_iq. Qed.
Print Assumptions C09_no_panic_unmarshal_iq.

Theorem C09_no_wedge_unmarshal_iq : forall vnil e r, mem CBlocked (unmarshal_iq vnil e r) = false.
Proof. exact nw_unmarshal_iq. Qed.
Print Assumptions C09_no_wedge_unmarshal_iq.

(* Session.IterIQ / IterIQElement followed by draining and closing the iterator,
   with or without per-child decoding (roster.Fetch, blocklist.Fetch, direct use). *)
Theorem C09_no_panic_iter_iq : forall e r, mem CPanic (iter_plain e r) = false /\ mem CPanic (iter_decoding e r) = false.
Proof. exact np_iter_iq. Qed.
Print Assumptions C09_no_panic_iter_iq.

Theorem C09_no_wedge_iter_iq : forall e r, mem CBlocked (iter_plain e r) = false /\ mem CBlocked (iter_decoding e r) = false.
Proof. exact nw_iter_iq. Qed.
Print Assumptions C09_no_wedge_iter_iq.

(* disco.FetchItems / commands.Fetch over any number of pages, for every script of replies. *)
Theorem C09_no_panic_items_pages : forall e replies, mem CPanic (items_pages e replies) = false.
Proof. exact np_items_pages. Qed.
Print Assumptions C09_no_panic_items_pages.

Theorem C09_no_wedge_items_pages : forall e replies, mem CBlocked (items_pages e replies) = false.
Proof. exact nw_items_pages. Qed.
Print Assumptions C09_no_wedge_items_pages.

(* pubsub.Fetch and bookmarks.Fetch. *)
Theorem C09_no_panic_pubsub : forall e r, mem CPanic (pubsub_fetch e r) = false /\ mem CPanic (bookmarks_fetch e r) = false.
Proof. exact np_pubsub. Qed.
Print Assumptions C09_no_panic_pubsub.

(* commands.Command.Execute. *)
Theorem C09_no_panic_commands_execute : forall e r, mem CPanic (commands_execute e r) = false.
Proof. exact np_commands_execute. Qed.
Print Assumptions C09_no_panic_commands_execute.

Theorem C09_no_wedge_commands_execute : forall e r, mem CBlocked (commands_execute e r) = false.
Proof. exact nw_commands_execute. Qed.
Print Assumptions C09_no_wedge_commands_execute.

(* ping.Send; upload.GetSlot followed by Slot.Put. *)
Theorem C09_no_panic_ping_upload : forall e r, mem CPanic (ping_send e r) = false /\ mem CPanic (upload_slot e r) = false.
Proof. exact np_ping_upload. Qed.
Print Assumptions C09_no_panic_ping_upload.

(* carbons.Unwrap and forward.Unwrap on any token sequence. *)
Theorem C09_no_panic_unwrap : forall l, mem CPanic (carbons_unwrap l) = false /\ mem CPanic (forward_unwrap l) = false.
Proof. exact np_unwrap. Qed.
Print Assumptions C09_no_panic_unwrap.

(* every request helper and token-level function at once: neither panic nor wedge *)
Theorem C09_helpers_return : forall f c e start replies,
  helper_or_function c = true ->
  mem CPanic (run_comp f c e start replies) = false /\ mem CBlocked (run_comp f c e start replies) = false.
Proof. exact helpers_safe. Qed.
Print Assumptions C09_helpers_return.

(* ---- handlers ---- *)

(* history.Handler.HandleMessage: no panic whatever the message; it parks only
   while the iterator it hands the message to is neither advanced nor closed and
   its context is alive (e_ready = false), never otherwise. *)
Theorem C09_no_panic_history : forall e r, mem CPanic (history_handle e r) = false.
Proof. exact np_history. Qed.
Print Assumptions C09_no_panic_history.

Theorem C09_no_wedge_history : forall e r, e_ready e = true -> mem CBlocked (history_handle e r) = false.
Proof. exact nw_history. Qed.
Print Assumptions C09_no_wedge_history.

(* carbons.Handler.HandleMessage and blocklist.Handler.HandleIQ. *)
Theorem C09_no_panic_carbons : forall r, mem CPanic (carbons_handle r) = false /\ mem CBlocked (carbons_handle r) = false.
Proof. exact np_carbons. Qed.
Print Assumptions C09_no_panic_carbons.

Theorem C09_no_panic_blocklist : forall start r, mem CPanic (blocklist_handle start r) = false /\ mem CBlocked (blocklist_handle start r) = false.
Proof. exact np_blocklist. Qed.
Print Assumptions C09_no_panic_blocklist.

(* receipts.Handler.HandleMessage (repaired: children that are not elements are
   skipped): no panic; and for every sequence of receipts — duplicates included,
   while a message awaits its receipt and while none does, whatever the
   application did in between — it never parks, given that the handler deletes
   the table entry before it signals the sender (at most one signal per entry
   on a channel with room for one). *)
Theorem C09_no_panic_receipts : forall f e r, mem CPanic (receipts_handle f e r) = false.
Proof. exact np_receipts. Qed.
Print Assumptions C09_no_panic_receipts.

Theorem C09_no_wedge_receipts : forall f e r,
  f_rcpt_delete_first f = true -> mem CBlocked (receipts_handle f e r) = false.
Proof. exact nw_receipts. Qed.
Print Assumptions C09_no_wedge_receipts.

(* without that order a repeated receipt parks *)
Theorem C09_no_wedge_receipts_needs_order : forall f,
  f_rcpt_delete_first f = false -> mem CBlocked (receipts_handle f rcpt_env rcpt_msg) = true.
Proof. exact receipts_no_delete_parks. Qed.
Print Assumptions C09_no_wedge_receipts_needs_order.

(* ibb.Handler.HandleIQ (sources owned by C15/C06), for every history of
   Listen / Accept / Listener.Close calls of the application on a session with a
   full or a bare local address: when the listener table is deleted from under
   the key it is inserted with, an <open/> never meets a closed listener (no
   panic), and it parks only while a listener is registered that nobody accepts
   from. *)
Theorem C09_no_wedge_ibb_partial : forall f e start,
  f_keys_agree f = true -> f_close_no_wait f = true ->
  mem CPanic (ibb_iq f e start) = false /\
  (listener_served f e = true -> mem CBlocked (ibb_iq f e start) = false).
Proof. exact nw_ibb_partial. Qed.
Print Assumptions C09_no_wedge_ibb_partial.

(* An <open/> for the session a live Expect call is waiting for is delivered to
   it, with or without anybody in Accept: it never parks (this is what separates
   it from the known stall of an unexpected <open/>), given that an Expect call
   that gives up removes a registration only if it is its own; without that, the
   take-over history (Expect, Expect again for the same session) parks. *)
Theorem C09_expected_open_delivered : forall f e start,
  f_keys_agree f = true -> f_close_no_wait f = true -> f_expect_owner f = true ->
  e_match e = true -> expect_live (e_hist e) = true ->
  mem CPanic (ibb_iq f e start) = false /\ mem CBlocked (ibb_iq f e start) = false.
Proof. exact ibb_expected_open_delivered. Qed.
Print Assumptions C09_expected_open_delivered.

Theorem C09_expected_open_needs_owner_check : forall f, f_expect_owner f = false ->
  mem CBlocked (ibb_iq f takeover_env (TStart (mkname (str "http://jabber.org/protocol/ibb") (str "open")) [])) = true.
Proof. exact ibb_lost_registration_parks. Qed.
Print Assumptions C09_expected_open_needs_owner_check.

(* A <close/> for a stream on which a local Write is in progress (its data IQ is
   out, it holds the write lock and waits for an acknowledgement only the serving
   goroutine can deliver) parks exactly when the close handler waits for that lock. *)
Theorem C09_close_needs_no_wait : forall f, f_close_no_wait f = false ->
  mem CBlocked (ibb_iq f writing_env close_start) = true.
Proof. exact ibb_close_waiting_parks. Qed.
Print Assumptions C09_close_needs_no_wait.

(* muc.Client.HandlePresence (sources owned by C18), for every history of joins,
   departures and Leave calls: no panic; never parked when the departure
   notification is one alternative of a select. *)
Theorem C09_no_wedge_muc_presence : forall f e,
  f_depart_select f = true -> mem CPanic (muc_presence f e) = false /\ mem CBlocked (muc_presence f e) = false.
Proof. exact muc_presence_select. Qed.
Print Assumptions C09_no_wedge_muc_presence.

(* the two facts hold of the sources the check runs on (regenerated on every run):
   every insertion into and deletion from the listener table uses the same key
   expression; the departure notification is sent inside a select *)
Theorem C09_listener_table_keys_agree : f_keys_agree gen_facts = true.
Proof. exact listener_table_keys_agree. Qed.
Print Assumptions C09_listener_table_keys_agree.

Theorem C09_depart_is_select : f_depart_select gen_facts = true.
Proof. exact depart_is_select. Qed.
Print Assumptions C09_depart_is_select.

Theorem C09_expect_cleanup_checks_owner : f_expect_owner gen_facts = true.
Proof. exact expect_cleanup_checks_owner. Qed.
Print Assumptions C09_expect_cleanup_checks_owner.

Theorem C09_serve_close_never_waits_for_writer : f_close_no_wait gen_facts = true.
Proof. exact serve_close_never_waits_for_writer. Qed.
Print Assumptions C09_serve_close_never_waits_for_writer.

Theorem C09_receipts_delete_first : f_rcpt_delete_first gen_facts = true.
Proof. exact receipts_delete_first. Qed.
Print Assumptions C09_receipts_delete_first.

(* every access of the session's map of pending requests (read by the serve
   loop, written by request helpers in other goroutines) lies inside a lock
   region of its mutex: an access outside makes the runtime abort the process *)
Theorem C09_session_maps_accessed_under_lock : session_maps_locked = true.
Proof. exact session_maps_accessed_under_lock. Qed.
Print Assumptions C09_session_maps_accessed_under_lock.

(* every Lock (RLock) statement in the handler files has its Unlock on every path
   of the function: deferred, or explicit before each return and with the same
   state at the end of all branches (an early return or a conditional unlock leaves
   the mutex held: the NEXT stanza that needs it parks Serve for good) *)
Theorem C09_locks_released_on_every_path : locks_released = true.
Proof. exact locks_released_on_every_path. Qed.
Print Assumptions C09_locks_released_on_every_path.

(* ---- all components ---- *)

(* No component panics: for every component, environment (application history,
   full or bare local address), start element and readers (every token list,
   either way for a reader to end, every script of replies) — given the table
   fact, *)
Theorem C09_no_panic_given_keys : forall f c e start rs,
  f_keys_agree f = true -> mem CPanic (run_comp f c e start rs) = false.
Proof. exact run_comp_no_panic. Qed.
Print Assumptions C09_no_panic_given_keys.

(* hence unconditionally for the sources the check runs on; *)
Theorem C09_no_panic : forall c e start rs, mem CPanic (run_comp gen_facts c e start rs) = false.
Proof. exact np_this_tree. Qed.
Print Assumptions C09_no_panic.

(* and the table fact is needed: without it an <open/> after Listen and
   Listener.Close on a session with a full local address panics. *)
Theorem C09_no_panic_needs_keys : forall f, f_keys_agree f = false ->
  exists e start, mem CPanic (run_comp f HIbbIQ e start []) = true.
Proof. exact no_panic_needs_keys. Qed.
Print Assumptions C09_no_panic_needs_keys.

(* The unconditional no-wedge claim is false of the faithful model: a hand-over
   to a partner that never shows up parks ... *)
Theorem C09_no_wedge_refuted : ~ no_wedge_statement.
Proof. exact no_wedge_statement_refuted. Qed.
Print Assumptions C09_no_wedge_refuted.

(* ... and these are the only ways: the history iterator is neither advanced nor
   released, an <open/> finds a listener nobody accepts from and no Expect call
   registered for its session, or (not the case in these sources) the muc
   departure is a plain send / the receipt handler signals before deleting; *)
Theorem C09_no_wedge_partial : forall f c e start rs,
  mem CBlocked (run_comp f c e start rs) = true ->
  (c = HHistory /\ e_ready e = false) \/
  (c = HIbbIQ /\ (listener_served f e = false \/ f_close_no_wait f = false)) \/
  (c = HMucPres /\ f_depart_select f = false) \/ (c = HReceipts /\ f_rcpt_delete_first f = false).
Proof. exact no_wedge_partial. Qed.
Print Assumptions C09_no_wedge_partial.

(* under its condition every component returns. *)
Theorem C09_every_component_returns : forall f c e start rs,
  f_keys_agree f = true -> comp_cond f c e = true ->
  mem CPanic (run_comp f c e start rs) = false /\ mem CBlocked (run_comp f c e start rs) = false.
Proof. exact run_comp_safe. Qed.
Print Assumptions C09_every_component_returns.

(* ---- Serve ---- *)

(* For every script of top-level elements, whatever handlers each one reaches
   (any routing) and whatever their environments, Serve does not panic; *)
Theorem C09_serve_never_panics : forall script, ~ In Panicked (serve_may gen_facts script).
Proof. exact serve_never_panics_this_tree. Qed.
Print Assumptions C09_serve_never_panics.

(* and if every invocation meets its component's condition Serve returns — with
   nil at the end of input or with the error it reported. *)
Theorem C09_serve_returns_at_end_of_input : forall f script,
  f_keys_agree f = true ->
  (forall el i, In el script -> In i el -> inv_cond f i = true) ->
  forall o, In o (serve_may f script) -> o = Returned.
Proof. exact serve_returns. Qed.
Print Assumptions C09_serve_returns_at_end_of_input.

(* ---- the inventory of partial operations ---- *)

(* every partial operation the translator finds in the sources is accounted for
   by the model (in files of other properties: every one of a dangerous kind):
   a new unguarded assertion, a removed nil check, a Must call or a bare channel
   send breaks this obligation before any input is found *)
Theorem C09_sites_covered : forall s, In s generated_sites ->
  (owned s = false /\ dangerous_kind (s_kind s) = false) \/
  exists m, In m modelled_sites /\ site_loose_eqb s (fst m) = true.
Proof. exact sites_covered_in. Qed.
Print Assumptions C09_sites_covered.

Theorem C09_sites_covered_exactly : forallb covered generated_sites = true.
Proof. exact sites_all_covered. Qed.
Print Assumptions C09_sites_covered_exactly.

(* in the repaired files every operation of a dangerous kind (unchecked
   assertion, Must call, unguarded nil start element, bare channel send) is
   listed with its justification; there are exactly two: receipts.SendMessage
   asserts on a token supplied by the calling application, and the receipt
   handler's send goes to a channel that has room for it *)
Theorem C09_owned_sites_clean :
  forallb (fun s => negb (owned s && dangerous_kind (s_kind s)) || justified s) generated_sites = true.
Proof. exact owned_sites_clean. Qed.
Print Assumptions C09_owned_sites_clean.

Theorem C09_owned_dangerous_sites :
  map (fun s => (s_func s, s_kind s)) (filter (fun s => owned s && dangerous_kind (s_kind s)) generated_sites)
  = [(str "Handler.HandleMessage", KSend); (str "Handler.SendMessage", KAssert)].
Proof. exact owned_dangerous_sites. Qed.
Print Assumptions C09_owned_dangerous_sites.
