(* C09/Properties.v — the property theorems of C09 and nothing else.
   "No peer input can panic or wedge the library."

   Every statement is over the model of C09/Model.v: a component applied to
   what its token reader yields returns the SET of ways the call can end
   (COk | CErr | CPanic | CBlocked).  "For every byte string the peer sends"
   becomes "for every token list and either way for the reader to end" — the
   XML tokenizer is an oracle, and so is encoding/xml's Decode once control
   reaches it (both of its answers are in the set). *)
From XV Require Import lib.Bytes lib.Xml gen.C09Sites C09.Model C09.Proofs.

(* ---- request helpers: whatever the reply contains, a value or an error ---- *)

(* Session.UnmarshalIQ / UnmarshalIQElement and everything built on them (ping,
   version, xtime, carbons enable/disable, upload slot, history.Fetch,
   disco.GetInfo): never a panic, never parked. *)
Theorem C09_no_panic_unmarshal_iq : forall vnil e r, mem CPanic (unmarshal_iq vnil e r) = false.
Proof. exact np_unmarshal_iq. Qed.
Print Assumptions C09_no_panic_unmarshal_iq.

Theorem C09_no_wedge_unmarshal_iq : forall vnil e r, mem CBlocked (unmarshal_iq vnil e r) = false.
Proof. exact nw_unmarshal_iq. Qed.
Print Assumptions C09_no_wedge_unmarshal_iq.

(* Session.IterIQ / IterIQElement followed by draining and closing the iterator,
   with or without per-child decoding (roster.Fetch, blocklist.Fetch, direct use). *)
Theorem C09_no_panic_iter_iq : forall e r, mem CPanic (iter_plain e r) = false /\ mem CPanic (iter_decoding e r) = false.
Proof. exact np_iter_iq. Qed.
Print Assumptions C09_no_panic_iter_iq.

Theorem C09_no_wedge_iter_iq : forall e r, mem CBlocked (iter_plain e r) = false /\ mem CBlocked (iter_decoding e r) = false.
Proof. exact nw_iter_iq. Qed.
Print Assumptions C09_no_wedge_iter_iq.

(* disco.FetchItems / commands.Fetch over any number of pages, for every script of replies. *)
Theorem C09_no_panic_items_pages : forall e replies, mem CPanic (items_pages e replies) = false.
Proof. exact np_items_pages. Qed.
Print Assumptions C09_no_panic_items_pages.

Theorem C09_no_wedge_items_pages : forall e replies, mem CBlocked (items_pages e replies) = false.
Proof. exact nw_items_pages. Qed.
Print Assumptions C09_no_wedge_items_pages.

(* pubsub.Fetch and bookmarks.Fetch. *)
Theorem C09_no_panic_pubsub : forall e r, mem CPanic (pubsub_fetch e r) = false /\ mem CPanic (bookmarks_fetch e r) = false.
Proof. exact np_pubsub. Qed.
Print Assumptions C09_no_panic_pubsub.

(* commands.Command.Execute. *)
Theorem C09_no_panic_commands_execute : forall e r, mem CPanic (commands_execute e r) = false.
Proof. exact np_commands_execute. Qed.
Print Assumptions C09_no_panic_commands_execute.

Theorem C09_no_wedge_commands_execute : forall e r, mem CBlocked (commands_execute e r) = false.
Proof. exact nw_commands_execute. Qed.
Print Assumptions C09_no_wedge_commands_execute.

(* ping.Send; upload.GetSlot followed by Slot.Put. *)
Theorem C09_no_panic_ping_upload : forall e r, mem CPanic (ping_send e r) = false /\ mem CPanic (upload_slot e r) = false.
Proof. exact np_ping_upload. Qed.
Print Assumptions C09_no_panic_ping_upload.

(* carbons.Unwrap and forward.Unwrap on any token sequence. *)
Theorem C09_no_panic_unwrap : forall l, mem CPanic (carbons_unwrap l) = false /\ mem CPanic (forward_unwrap l) = false.
Proof. exact np_unwrap. Qed.
Print Assumptions C09_no_panic_unwrap.

(* every request helper and token-level function at once: neither panic nor wedge *)
Theorem C09_helpers_return : forall c e start replies,
  helper_or_function c = true ->
  mem CPanic (run_comp c e start replies) = false /\ mem CBlocked (run_comp c e start replies) = false.
Proof. exact helpers_safe. Qed.
Print Assumptions C09_helpers_return.

(* ---- handlers ---- *)

(* history.Handler.HandleMessage: no panic whatever the message; it parks only
   while the iterator it hands the message to is neither advanced nor closed and
   its context is alive (e_ready = false), never otherwise. *)
Theorem C09_no_panic_history : forall e r, mem CPanic (history_handle e r) = false.
Proof. exact np_history. Qed.
Print Assumptions C09_no_panic_history.

Theorem C09_no_wedge_history : forall e r, e_ready e = true -> mem CBlocked (history_handle e r) = false.
Proof. exact nw_history. Qed.
Print Assumptions C09_no_wedge_history.

(* carbons.Handler.HandleMessage and blocklist.Handler.HandleIQ. *)
Theorem C09_no_panic_carbons : forall r, mem CPanic (carbons_handle r) = false /\ mem CBlocked (carbons_handle r) = false.
Proof. exact np_carbons. Qed.
Print Assumptions C09_no_panic_carbons.

Theorem C09_no_panic_blocklist : forall start r, mem CPanic (blocklist_handle start r) = false /\ mem CBlocked (blocklist_handle start r) = false.
Proof. exact np_blocklist. Qed.
Print Assumptions C09_no_panic_blocklist.

(* receipts.Handler.HandleMessage (repaired: children that are not elements are
   skipped; the receipt is signalled on a channel that has room for it). *)
Theorem C09_no_panic_receipts : forall r, mem CPanic (receipts_handle r) = false /\ mem CBlocked (receipts_handle r) = false.
Proof. exact np_receipts. Qed.
Print Assumptions C09_no_panic_receipts.

(* ibb.Handler.HandleIQ (sources owned by C15/C06): no panic before the decoder;
   an accepted <open/> parks only while nobody accepts from the listener. *)
Theorem C09_no_wedge_ibb_partial : forall e start rs,
  mem CPanic (run_comp HIbbIQ e start rs) = false /\
  (e_ready e = true -> mem CBlocked (run_comp HIbbIQ e start rs) = false).
Proof. exact nw_ibb_partial. Qed.
Print Assumptions C09_no_wedge_ibb_partial.

(* ---- all components ---- *)

(* No component panics: for every component, environment, start element and
   readers (every token list, either way for a reader to end, every script of
   replies). *)
Theorem C09_no_panic : forall c e start rs, mem CPanic (run_comp c e start rs) = false.
Proof. exact run_comp_no_panic. Qed.
Print Assumptions C09_no_panic.

(* The unconditional no-wedge claim is false of the faithful model: a hand-over
   to a partner that never shows up parks ... *)
Theorem C09_no_wedge_refuted : ~ no_wedge_statement.
Proof. exact no_wedge_statement_refuted. Qed.
Print Assumptions C09_no_wedge_refuted.

(* ... and that is the only way: a component parks only in a hand-over whose
   partner is absent (the history iterator, the ibb listener); *)
Theorem C09_no_wedge_partial : forall c e start rs,
  mem CBlocked (run_comp c e start rs) = true -> e_ready e = false /\ (c = HHistory \/ c = HIbbIQ).
Proof. exact no_wedge_partial. Qed.
Print Assumptions C09_no_wedge_partial.

(* under its condition every component returns. *)
Theorem C09_every_component_returns : forall c e start rs,
  comp_cond c e = true ->
  mem CPanic (run_comp c e start rs) = false /\ mem CBlocked (run_comp c e start rs) = false.
Proof. exact run_comp_safe. Qed.
Print Assumptions C09_every_component_returns.

(* ---- Serve ---- *)

(* For every script of top-level elements, whatever handlers each one reaches
   (any routing) and whatever their environments, Serve does not panic; *)
Theorem C09_serve_never_panics : forall script, ~ In Panicked (serve_may script).
Proof. exact serve_never_panics. Qed.
Print Assumptions C09_serve_never_panics.

(* and if every invocation meets its component's condition Serve returns — with
   nil at the end of input or with the error it reported. *)
Theorem C09_serve_returns_at_end_of_input : forall script,
  (forall el i, In el script -> In i el -> inv_cond i = true) ->
  forall o, In o (serve_may script) -> o = Returned.
Proof. exact serve_returns. Qed.
Print Assumptions C09_serve_returns_at_end_of_input.

(* ---- the inventory of partial operations ---- *)

(* every partial operation the translator finds in the sources is accounted for
   by the model (in files of other properties: every one of a dangerous kind):
   a new unguarded assertion, a removed nil check, a Must call or a bare channel
   send breaks this obligation before any input is found *)
Theorem C09_sites_covered : forall s, In s generated_sites ->
  (owned s = false /\ dangerous_kind (s_kind s) = false) \/
  exists m, In m modelled_sites /\ site_loose_eqb s (fst m) = true.
Proof. exact sites_covered_in. Qed.
Print Assumptions C09_sites_covered.

Theorem C09_sites_covered_exactly : forallb covered generated_sites = true.
Proof. exact sites_all_covered. Qed.
Print Assumptions C09_sites_covered_exactly.

(* in the repaired files every operation of a dangerous kind (unchecked
   assertion, Must call, unguarded nil start element, bare channel send) is
   listed with its justification; there are exactly two: receipts.SendMessage
   asserts on a token supplied by the calling application, and the receipt
   handler's send goes to a channel that has room for it *)
Theorem C09_owned_sites_clean :
  forallb (fun s => negb (owned s && dangerous_kind (s_kind s)) || justified s) generated_sites = true.
Proof. exact owned_sites_clean. Qed.
Print Assumptions C09_owned_sites_clean.

Theorem C09_owned_dangerous_sites :
  map (fun s => (s_func s, s_kind s)) (filter (fun s => owned s && dangerous_kind (s_kind s)) generated_sites)
  = [(str "Handler.HandleMessage", KSend); (str "Handler.SendMessage", KAssert)].
Proof. exact owned_dangerous_sites. Qed.
Print Assumptions C09_owned_dangerous_sites.
