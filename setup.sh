#!/bin/sh
# Build the framework from files on disk only (offline).
set -e
cd "$(dirname "$0")"
export GOFLAGS=-mod=mod GOPROXY=off GOSUMDB=off GOTOOLCHAIN=local
mkdir -p work evidence replays
( cd translator && go run . -repo "${VERIF_REPO:-/repo}" -outdir ../coq/gen ) || echo "translator reported errors"
python3 tools/coqproject.py
( cd coq && timeout 3000 make -j16 >/dev/null 2>&1 ) || echo "coq build incomplete (checks rebuild what they need)"
cp "${VERIF_REPO:-/repo}/go.sum" harness/go.sum
( cd harness && go build -tags verif ./... ) || echo "harness build incomplete"
echo setup done
