// Command c17 is the correspondence harness and implementation oracle for
// property C17 (styling/styling.go): the message-styling decoder is lossless,
// chunk-independent and well-bracketed.
package main

import (
	"bufio"
	"bytes"
	"encoding/json"
	"errors"
	"fmt"
	"io"
	"os"
	"strings"
	"time"
	"unicode"
	"unicode/utf8"

	"mellium.im/xmpp/styling"
	"verifharness/hx"
)

const imports = "From XV Require Import lib.Bytes gen.Styling C17.Model.\n"

// ---------------------------------------------------------------- observation

type tokObs struct {
	Data  []byte
	Info  []byte
	Style styling.Style
	Quote uint
}

type runObs struct {
	Toks  []tokObs
	End   string // EEOF | ETooLong | EOther | EPanic | EHang
	Err   string
	Reads []int // sizes of the reads that delivered data
	DEOF  bool  // the read delivering the last byte reported io.EOF with it
}

// planned reader: delivers b in reads of the planned sizes.
type planReader struct {
	b     []byte
	sizes []int // planned sizes; after they run out: everything left
	i     int
	deof  bool
	reads []int
}

func (p *planReader) Read(dst []byte) (int, error) {
	if len(p.b) == 0 {
		return 0, io.EOF
	}
	n := len(p.b)
	if p.i < len(p.sizes) {
		n = p.sizes[p.i]
		p.i++
		if n < 1 {
			n = 1
		}
	}
	if n > len(dst) {
		n = len(dst)
	}
	if n > len(p.b) {
		n = len(p.b)
	}
	copy(dst, p.b[:n])
	p.b = p.b[n:]
	p.reads = append(p.reads, n)
	if len(p.b) == 0 && p.deof {
		return n, io.EOF
	}
	return n, nil
}

func decodeWith(doc []byte, sizes []int, deof bool) runObs {
	pr := &planReader{b: doc, sizes: sizes, deof: deof}
	var o runObs
	done := make(chan string, 1)
	go func() {
		done <- hx.Catch(func() {
			d := styling.NewDecoder(pr)
			for d.Next() {
				t := d.Token()
				o.Toks = append(o.Toks, tokObs{
					Data:  append([]byte(nil), t.Data...),
					Info:  append([]byte(nil), t.Info...),
					Style: d.Style(), Quote: d.Quote(),
				})
			}
			switch err := d.Err(); {
			case errors.Is(err, io.EOF):
				o.End = "EEOF"
			case errors.Is(err, bufio.ErrTooLong):
				o.End = "ETooLong"
			default:
				o.End = "EOther"
				o.Err = fmt.Sprint(err)
			}
		})
	}()
	select {
	case p := <-done:
		if p != "" {
			o.End, o.Err = "EPanic", p
		}
	case <-time.After(60 * time.Second):
		return runObs{End: "EHang", Reads: nil, DEOF: deof}
	}
	o.Reads, o.DEOF = pr.reads, deof
	return o
}

func sameToks(a, b []tokObs) (int, bool) {
	n := len(a)
	if len(b) < n {
		n = len(b)
	}
	for i := 0; i < n; i++ {
		if !bytes.Equal(a[i].Data, b[i].Data) || !bytes.Equal(a[i].Info, b[i].Info) ||
			a[i].Style != b[i].Style || a[i].Quote != b[i].Quote {
			return i, false
		}
	}
	if len(a) != len(b) {
		return n, false
	}
	return 0, true
}

// ---------------------------------------------------------------- oracle: bracket discipline

type kind struct{ style, start, end styling.Style }

var spanKinds = []kind{
	{styling.SpanEmph, styling.SpanEmphStart, styling.SpanEmphEnd},
	{styling.SpanStrong, styling.SpanStrongStart, styling.SpanStrongEnd},
	{styling.SpanStrike, styling.SpanStrikeStart, styling.SpanStrikeEnd},
	{styling.SpanPre, styling.SpanPreStart, styling.SpanPreEnd},
}
var blockKinds = []kind{
	{styling.BlockPre, styling.BlockPreStart, styling.BlockPreEnd},
	{styling.BlockQuote, styling.BlockQuoteStart, styling.BlockQuoteEnd},
}

// brackets states the bracket clause of the property on a token sequence and
// returns the name of the first clause that fails ("" if none).
func brackets(toks []tokObs, end string) (string, int) {
	var stack []styling.Style
	for i, t := range toks {
		m := t.Style
		for _, k := range append(append([]kind{}, spanKinds...), blockKinds...) {
			if m&k.start != 0 && m&k.style == 0 {
				return "start-without-style", i
			}
			if m&k.end != 0 && m&k.style == 0 {
				return "end-without-style", i
			}
		}
		if len(stack) > 0 && bytes.IndexByte(t.Data, '\n') >= 0 {
			return "span-crosses-line", i
		}
		inPre := false
		for _, s := range stack {
			if s == styling.SpanPre {
				inPre = true
			}
		}
		if inPre && m&styling.StartDirective != 0 {
			return "start-inside-pre-span", i
		}
		var starts, ends []kind
		for _, k := range spanKinds {
			if m&k.start != 0 {
				starts = append(starts, k)
			}
			if m&k.end != 0 {
				ends = append(ends, k)
			}
		}
		if len(starts)+len(ends) > 1 {
			return "two-directives-on-one-token", i
		}
		if len(starts) == 1 {
			for _, s := range stack {
				if s == starts[0].style {
					return "span-reopened", i
				}
			}
			stack = append(stack, starts[0].style)
		}
		var open styling.Style
		for _, s := range stack {
			open |= s
		}
		if m&styling.Span != open {
			return "style-bits-differ-from-open-spans", i
		}
		if len(ends) == 1 {
			if len(stack) == 0 || stack[len(stack)-1] != ends[0].style {
				return "end-does-not-match-innermost", i
			}
			stack = stack[:len(stack)-1]
		}
	}
	if len(stack) > 0 && end != "ETooLong" {
		return "span-never-closed", len(toks)
	}
	return "", 0
}

// ---------------------------------------------------------------- case records

type decCase struct {
	Kind  string `json:"kind"` // decoder
	Doc   string `json:"doc"`  // hex
	Reads []int  `json:"reads"`
	DEOF  bool   `json:"deof"`
	Plan  string `json:"plan,omitempty"`
	Note  string `json:"note,omitempty"`
}

type callRec struct {
	Off int  `json:"off"`
	Len int  `json:"len"`
	EOF bool `json:"eof"`
}

type scanCase struct {
	Kind  string    `json:"kind"` // scan
	Doc   string    `json:"doc"`
	Calls []callRec `json:"calls"`
	Note  string    `json:"note,omitempty"`
}

type utfCase struct {
	Kind string `json:"kind"` // utf8
	Src  string `json:"src"`
}

type runner struct {
	res     *hx.Result
	uc      hx.CaseFile
	sc      hx.CaseFile
	dc      hx.CaseFile
	emitted map[string]bool
	termB   int
}

func coqNatList(xs []int) string {
	var sb strings.Builder
	sb.WriteString("[")
	for i, x := range xs {
		if i > 0 {
			sb.WriteString(";")
		}
		sb.WriteString(hx.CoqNat(x))
	}
	sb.WriteString("]")
	return sb.String()
}

func docClass(doc []byte) string {
	switch {
	case len(doc) >= 60000:
		return "len>=60000"
	case len(doc) >= 4000:
		return "len>=4000"
	case len(doc) >= 64:
		return "len>=64"
	case len(doc) >= 8:
		return "len>=8"
	}
	return "len<8"
}

func nontrivial(doc []byte) bool {
	return bytes.IndexAny(doc, "*_`~>") >= 0
}

// tokensTerm renders the observed tokens in the compact form of Model.expand;
// ok is false if a token is not the next slice of the document or its info is
// not the slice of its data after the fence (then the case is not written and
// the oracle has already reported what is wrong).
func tokensTerm(doc []byte, toks []tokObs) (string, bool) {
	var sb strings.Builder
	pos := 0
	sb.WriteString("[")
	for i, t := range toks {
		if pos+len(t.Data) > len(doc) || !bytes.Equal(doc[pos:pos+len(t.Data)], t.Data) {
			return "", false
		}
		if len(t.Info) > 0 && (len(t.Data) < 3+len(t.Info) || !bytes.Equal(t.Data[3:3+len(t.Info)], t.Info)) {
			return "", false
		}
		pos += len(t.Data)
		if i > 0 {
			sb.WriteString(";")
		}
		fmt.Fprintf(&sb, "mktokd %s %s %d%%N %s", hx.CoqNat(len(t.Data)), hx.CoqNat(len(t.Info)), uint32(t.Style), hx.CoqNat(int(t.Quote)))
	}
	sb.WriteString("]")
	return sb.String(), true
}

// ---------------------------------------------------------------- one document through the Decoder

type plan struct {
	name  string
	sizes []int
	deof  bool
}

func plansFor(r *hx.Rand, doc []byte, exhaustiveSplits bool) []plan {
	n := len(doc)
	var ps []plan
	ps = append(ps, plan{"whole+eof", nil, true})
	if n == 0 {
		return ps
	}
	big := n > 8192
	if !big {
		ones := make([]int, n)
		for i := range ones {
			ones[i] = 1
		}
		ps = append(ps, plan{"1-byte", ones, r.Bool()})
	}
	// fixed k
	k := 2 + r.Intn(6)
	if big {
		k = []int{1024, 4096, 5000, 65536, 30000}[r.Intn(5)]
	}
	var ks []int
	for s := 0; s < n; s += k {
		ks = append(ks, k)
	}
	ps = append(ps, plan{fmt.Sprintf("fixed-%d", k), ks, r.Bool()})
	// random sizes
	var rs []int
	for s := 0; s < n; {
		c := 1 + r.Intn(1+r.Intn(9))
		if big {
			c = 512 + r.Intn(9000)
		}
		rs = append(rs, c)
		s += c
	}
	ps = append(ps, plan{"random", rs, r.Bool()})
	if exhaustiveSplits && n <= 24 {
		for p := 1; p < n; p++ {
			ps = append(ps, plan{fmt.Sprintf("split@%d", p), []int{p}, p%2 == 0})
		}
	} else if n > 1 {
		p := 1 + r.Intn(n-1)
		ps = append(ps, plan{"split@rand", []int{p}, r.Bool()})
		// a split right behind a '>' or inside a multi-byte rune, when there is one
		for i := 0; i+1 < n; i++ {
			if doc[i] == '>' || doc[i] >= 0xc2 {
				off := 1
				if doc[i] == '>' {
					off = 1 + r.Intn(2)
				}
				if i+off < n {
					ps = append(ps, plan{"split@quote-or-rune", []int{i + off}, r.Bool()})
				}
				break
			}
		}
	}
	return ps
}

func chunkKey(ref, got []tokObs, i int) string {
	var m styling.Style
	if i < len(ref) {
		m |= ref[i].Style
	}
	if i < len(got) {
		m |= got[i].Style
	}
	switch {
	case m&styling.BlockQuoteStart != 0:
		return "quote-start"
	case m&styling.BlockPre != 0:
		return "pre-eof"
	}
	return "other"
}

// document runs one document through the Decoder under several chunkings,
// evaluates the oracle and writes the model cases. emit: 0 none, 1 reference
// case only, 2 reference + every chunking.
func (x *runner) document(r *hx.Rand, doc []byte, exhaustiveSplits bool, emit int, note string) {
	hexDoc := hx.Hex(doc)
	ref := decodeWith(doc, nil, false)
	x.check(doc, hexDoc, "whole", ref, nil, note)
	x.res.Count("d|whole|"+hexDoc, nontrivial(doc), "decoder/whole", "doc/"+docClass(doc), "end/"+ref.End)
	if emit >= 1 {
		x.emitDec(doc, hexDoc, ref, true, "whole")
	}
	for _, p := range plansFor(r, doc, exhaustiveSplits) {
		got := decodeWith(doc, p.sizes, p.deof)
		cls := strings.SplitN(p.name, "@", 2)[0]
		cls = strings.SplitN(cls, "-", 2)[0]
		x.res.Count(fmt.Sprintf("d|%v|%v|%s", got.Reads, got.DEOF, hexDoc), nontrivial(doc), "decoder/"+cls)
		x.check(doc, hexDoc, p.name, got, &ref, note)
		if emit >= 2 && len(doc)*len(got.Reads) <= 400000 {
			x.emitDec(doc, hexDoc, got, false, p.name)
		}
	}
}

func (x *runner) check(doc []byte, hexDoc, planName string, o runObs, ref *runObs, note string) {
	c := decCase{Kind: "decoder", Doc: hexDoc, Reads: o.Reads, DEOF: o.DEOF, Plan: planName, Note: note}
	if len(doc) > 4096 {
		c.Doc = "" // too long for a replay file: regenerated from the note
		c.Note = note
	}
	switch o.End {
	case "EPanic":
		x.res.Fail("C17/decoder/panic", "Decoder panics: "+o.Err, c)
		return
	case "EHang":
		x.res.Fail("C17/decoder/hang", "Decoder does not terminate within 60 s", c)
		return
	case "EOther":
		x.res.Fail("C17/decoder/error", "unexpected error from a reader that does not fail: "+o.Err, c)
		return
	}
	// lossless
	var cat []byte
	for _, t := range o.Toks {
		cat = append(cat, t.Data...)
	}
	switch {
	case o.End == "ETooLong":
		if len(doc)-len(cat) >= 65536 {
			x.res.Fail("C17/decoder/lossless/too-long",
				fmt.Sprintf("decoding stops with bufio.ErrTooLong after %d of %d bytes (a token needs more than 64 KiB to be delimited)", len(cat), len(doc)), c)
		} else {
			// bufio.Scanner's limit cannot be the reason: fewer than 64 KiB were left
			x.res.Fail("C17/decoder/lossless/too-long-early",
				fmt.Sprintf("decoding stops with bufio.ErrTooLong after %d of %d bytes although fewer than 65536 bytes were left", len(cat), len(doc)), c)
		}
		if !bytes.HasPrefix(doc, cat) {
			x.res.Fail("C17/decoder/lossless/not-a-prefix", "token data before ErrTooLong is not a prefix of the input", c)
		}
	case !bytes.Equal(cat, doc):
		x.res.Fail("C17/decoder/lossless/mismatch", "concatenation of token data differs from the input", c)
	}
	// brackets
	if clause, i := brackets(o.Toks, o.End); clause != "" {
		x.res.Fail("C17/decoder/brackets/"+clause, fmt.Sprintf("bracket discipline broken at token %d (%s)", i, clause), c)
	}
	// chunk independence
	if ref != nil {
		i, ok := sameToks(ref.Toks, o.Toks)
		n := len(ref.Toks)
		if len(o.Toks) < n {
			n = len(o.Toks)
		}
		tooLong := (ref.End == "ETooLong") != (o.End == "ETooLong")
		// the boundary of the limit: the run that stopped with ErrTooLong stopped
		// exactly 65536 bytes before the end of the input
		short := o.Toks
		if ref.End == "ETooLong" {
			short = ref.Toks
		}
		left := len(doc)
		for _, t := range short {
			left -= len(t.Data)
		}
		switch {
		case tooLong && (ok || i == n) && left == 65536:
			// same tokens as far as both runs go, but only one of them hit the 64 KiB limit
			x.res.Fail("C17/decoder/chunk/too-long-boundary",
				fmt.Sprintf("end state %s (%d tokens) in one piece, %s (%d tokens) with plan %s (reads %v, EOF with data %v): whether an undecided token of exactly 65536 bytes is ErrTooLong depends on when the scanner sees EOF",
					ref.End, len(ref.Toks), o.End, len(o.Toks), planName, head(o.Reads, 12), o.DEOF), c)
		case !ok:
			x.res.Fail("C17/decoder/chunk/"+chunkKey(ref.Toks, o.Toks, i),
				fmt.Sprintf("token %d differs between reading in one piece and plan %s (reads %v, EOF with data %v)", i, planName, head(o.Reads, 12), o.DEOF), c)
		case ref.End != o.End:
			x.res.Fail("C17/decoder/chunk/end-state", fmt.Sprintf("end state %s in one piece, %s with plan %s", ref.End, o.End, planName), c)
		}
	}
}

func head(xs []int, n int) []int {
	if len(xs) > n {
		return xs[:n]
	}
	return xs
}

func (x *runner) emitDec(doc []byte, hexDoc string, o runObs, withRef bool, planName string) {
	if o.End != "EEOF" && o.End != "ETooLong" {
		return
	}
	toks, ok := tokensTerm(doc, o.Toks)
	if !ok {
		x.res.Fail("C17/harness/encoding", "token data is not the next slice of the document", decCase{Kind: "decoder", Doc: hexDoc, Reads: o.Reads, DEOF: o.DEOF})
		return
	}
	key := fmt.Sprintf("%s|%v|%v", hexDoc, o.Reads, o.DEOF)
	if x.emitted[key] && !withRef {
		return
	}
	x.emitted[key] = true
	c := decCase{Kind: "decoder", Doc: hexDoc, Reads: o.Reads, DEOF: o.DEOF, Plan: planName}
	if len(doc) > 4096 {
		c.Doc = fmt.Sprintf("(%d bytes)", len(doc))
	}
	term := fmt.Sprintf("mkdcase %s %s %s %s %s %s", hx.CoqBytes(doc), coqNatList(o.Reads), hx.CoqBool(o.DEOF), hx.CoqBool(withRef), toks, o.End)
	x.dc.Add(term, c)
	x.termB += len(term)
	x.res.Sample(c)
}

// ---------------------------------------------------------------- direct calls of the split function

func (x *runner) scanSeq(r *hx.Rand, doc []byte, adversarial bool) {
	d := &styling.Decoder{}
	split := styling.VerifSplit(d)
	c := scanCase{Kind: "scan", Doc: hx.Hex(doc)}
	var terms []string
	call := func(off, ln int, eof bool) (int, bool) {
		data := doc[off : off+ln]
		var adv int
		var tok []byte
		var err error
		var st styling.Style
		var q uint
		c.Calls = append(c.Calls, callRec{off, ln, eof})
		p := hx.Catch(func() {
			adv, tok, err = split(data, eof)
			st, q = d.Style(), d.Quote()
		})
		x.res.Histogram["scan/calls"]++
		if p != "" {
			x.res.Fail("C17/scan/panic", "split function panics: "+p, c)
			return 0, false
		}
		switch {
		case err != nil:
			x.res.Fail("C17/scan/contract/error", "split function returns an error: "+err.Error(), c)
			return 0, false
		case adv < 0 || adv > len(data):
			x.res.Fail("C17/scan/contract/advance-out-of-range", fmt.Sprintf("advance %d for %d bytes", adv, len(data)), c)
			return 0, false
		case adv == 0 && tok != nil:
			x.res.Fail("C17/scan/contract/token-without-advance", "token returned with advance 0", c)
			return 0, false
		case adv > 0 && !bytes.Equal(tok, data[:adv]):
			x.res.Fail("C17/scan/contract/token-not-prefix", "token differs from data[:advance]", c)
			return 0, false
		case adv == 0 && eof && len(data) > 0:
			x.res.Fail("C17/scan/contract/no-token-at-eof", "no token although atEOF with data left", c)
			return 0, false
		}
		if adv == 0 {
			x.res.Histogram["scan/more"]++
		}
		terms = append(terms, fmt.Sprintf("mkcall %s %s %s %s %d%%N %s", hx.CoqNat(off), hx.CoqNat(ln), hx.CoqBool(eof), hx.CoqNat(adv), uint32(st), hx.CoqNat(int(q))))
		return adv, true
	}
	if adversarial {
		n := 3 + r.Intn(10)
		for i := 0; i < n; i++ {
			off := r.Intn(len(doc) + 1)
			ln := r.Intn(len(doc) - off + 1)
			if ln > 14 && r.Chance(2, 3) {
				ln = r.Intn(14)
			}
			if _, ok := call(off, ln, r.Chance(1, 3)); !ok {
				return
			}
		}
	} else {
		pos, end, eof := 0, 0, false
		needMore := true
		for steps := 0; steps < 4*len(doc)+8; steps++ {
			if needMore {
				if end == len(doc) {
					eof = true
				} else {
					end += 1 + r.Intn(1+r.Intn(8))
					if end > len(doc) {
						end = len(doc)
					}
					if end == len(doc) && r.Chance(1, 3) {
						eof = true
					}
				}
			}
			if end == pos && !eof {
				needMore = true
				continue
			}
			adv, ok := call(pos, end-pos, eof)
			if !ok {
				return
			}
			pos += adv
			needMore = adv == 0
			if adv == 0 && eof {
				break
			}
		}
	}
	kind := "scanner-like"
	if adversarial {
		kind = "adversarial"
	}
	x.res.Count("s|"+kind+fmt.Sprint(c.Calls)+c.Doc, nontrivial(doc), "scan/"+kind)
	term := fmt.Sprintf("mkscase %s [%s]", hx.CoqBytes(doc), strings.Join(terms, ";"))
	x.sc.Add(term, c)
	x.termB += len(term)
}

// ---------------------------------------------------------------- utf8 helpers

func isSpace(r rune) bool { return unicode.IsSpace(r) || unicode.Is(unicode.Space, r) }

func (x *runner) utf(src []byte) {
	r, n := utf8.DecodeRune(src)
	lr, ln := utf8.DecodeLastRune(src)
	x.res.Count("u|"+hx.Hex(src), len(src) > 0 && src[0] >= 0x80, "utf8")
	x.uc.Add(fmt.Sprintf("mkucase %s %d%%N %s %d%%N %s %s %s", hx.CoqBytes(src), r, hx.CoqNat(n), lr, hx.CoqNat(ln),
		hx.CoqBool(utf8.FullRune(src)), hx.CoqBool(isSpace(r))), utfCase{"utf8", hx.Hex(src)})
}

func (x *runner) utfCases(r *hx.Rand, n int) {
	// every space rune and its neighbours, boundaries of the encoding lengths,
	// surrogates, RuneError, the last rune; each also truncated and corrupted
	var runes []rune
	for c := rune(0); c < 0x3100; c++ {
		if isSpace(c) || isSpace(c+1) || (c > 0 && isSpace(c-1)) {
			runes = append(runes, c)
		}
	}
	runes = append(runes, 0, 0x7f, 0x80, 0x7ff, 0x800, 0xfffd, 0xffff, 0x10000, 0x10ffff, 0xd7ff, 0xe000, 0x1f600)
	for _, c := range runes {
		b := utf8.AppendRune(nil, c)
		x.utf(b)
		for k := 1; k < len(b); k++ {
			x.utf(b[:k])
			x.utf(append(append([]byte{}, b[:k]...), 'a'))
		}
		x.utf(append(append([]byte{'a'}, b...), b...))
	}
	special := [][]byte{{}, {0xed, 0xa0, 0x80}, {0xed, 0xbf, 0xbf}, {0xc0, 0x80}, {0xc1, 0xbf}, {0xe0, 0x80, 0x80}, {0xe0, 0x9f, 0xbf},
		{0xf0, 0x80, 0x80, 0x80}, {0xf0, 0x8f, 0xbf, 0xbf}, {0xf4, 0x90, 0x80, 0x80}, {0xf5, 0x80, 0x80, 0x80}, {0xff}, {0xfe},
		{0x80}, {0xbf}, {0x80, 0x80, 0x80, 0x80, 0x80}, {0xe2, 0x80, 0x80, 0x80, 0x80}, {'a', 0x80, 0x80, 0x80, 0x80}, {0xe2, 0x80, 0x83, 0x80}}
	for _, b := range special {
		x.utf(b)
	}
	pool := []byte{0x20, 0x61, 0x80, 0x83, 0x85, 0xa0, 0xbf, 0xc2, 0xe0, 0xe1, 0xe2, 0xe3, 0xed, 0xef, 0xf0, 0xf4, 0x9a, 0x90, 0x8f, 0x9f, 0xa8, 0xaf}
	for i := 0; i < n; i++ {
		b := make([]byte, r.Intn(7))
		for j := range b {
			if r.Chance(1, 8) {
				b[j] = byte(r.Intn(256))
			} else {
				b[j] = pool[r.Intn(len(pool))]
			}
		}
		x.utf(b)
	}
}

// ---------------------------------------------------------------- generators

var words = []string{"a", "bc", "plain text", "x y", "\u00e9", "\u65e5\u672c", "1", "a.b", "end"}
var spaces = []string{" ", "  ", "\t", "\u00a0", "\u2003", "\u3000", "\u0085", "\u1680", "\u2028", "\u202f", "\r", "\v"}
var invalid = []string{"\x80", "\xe2\x80", "\xf0\x9f", "\xc2", "\xff", "\xed\xa0\x80", "\xe2", "\xf0\x9f\x98"}
var broken = []string{"*", "**", "***", "****", "* a*", "*a *", "_a*", "`a *b* c`", "*a _b* c_", "*a* b*", "~~", "_ _", "*a\u2003*", "*\u2003a*", "a*b*", "*a*b", "`*`", "*`*", "_*a*_", "*_a_*", "~_*a*_~"}
var quotes = []string{">", "> ", ">>", "> > ", ">\u2003", ">  ", ">\t", ">>> ", "> >", ">\xe2\x80", "> \u00a0"}
var dirs = []byte{'*', '_', '~', '`'}

func genSpan(r *hx.Rand, depth int) string {
	d := string(dirs[r.Intn(4)])
	var in string
	switch r.Intn(5) {
	case 0:
		in = words[r.Intn(len(words))]
	case 1:
		in = words[r.Intn(len(words))] + spaces[r.Intn(len(spaces))] + words[r.Intn(len(words))]
	case 2:
		if depth < 3 {
			in = words[r.Intn(len(words))] + " " + genSpan(r, depth+1) + " " + words[r.Intn(len(words))]
		} else {
			in = "deep"
		}
	case 3:
		if depth < 3 {
			in = genSpan(r, depth+1)
		} else {
			in = "x"
		}
	default:
		in = words[r.Intn(len(words))] + string(dirs[r.Intn(4)]) + words[r.Intn(len(words))]
	}
	return d + in + d
}

func genBody(r *hx.Rand) string {
	var sb strings.Builder
	n := r.Intn(6)
	for i := 0; i < n; i++ {
		switch r.Intn(12) {
		case 0, 1, 2:
			sb.WriteString(words[r.Intn(len(words))])
		case 3, 4, 5:
			sb.WriteString(genSpan(r, 0))
		case 6:
			sb.WriteString(broken[r.Intn(len(broken))])
		case 7, 8:
			sb.WriteString(spaces[r.Intn(len(spaces))])
		case 9:
			sb.WriteString(invalid[r.Intn(len(invalid))])
		case 10:
			sb.WriteString([]string{"```", "``", "````", "`", "```x"}[r.Intn(5)])
		default:
			sb.WriteString([]string{"\U0001F600", ">", "> ", "\\", "<b>"}[r.Intn(5)])
		}
	}
	return sb.String()
}

func genLine(r *hx.Rand) string {
	var sb strings.Builder
	if r.Chance(2, 5) {
		sb.WriteString(quotes[r.Intn(len(quotes))])
		if r.Chance(1, 4) {
			sb.WriteString(quotes[r.Intn(len(quotes))])
		}
	}
	sb.WriteString(genBody(r))
	return sb.String()
}

func genDoc(r *hx.Rand) []byte {
	var sb strings.Builder
	n := 1 + r.Intn(5)
	for i := 0; i < n; i++ {
		switch {
		case r.Chance(1, 6):
			// preformatted block, possibly quoted, possibly unterminated
			q := ""
			if r.Chance(1, 3) {
				q = quotes[r.Intn(3)]
			}
			sb.WriteString(q + "```" + []string{"", "go", "info string", "`", " "}[r.Intn(5)] + "\n")
			for k := r.Intn(3); k > 0; k-- {
				sb.WriteString(q + []string{"pre *not strong*", "", "```x", " ```", "> a", "``"}[r.Intn(6)] + "\n")
			}
			switch r.Intn(5) {
			case 0:
			case 1:
				sb.WriteString(q + "```")
			case 2:
				sb.WriteString(q + "```trailing\n")
			default:
				sb.WriteString(q + "```\n")
			}
		default:
			sb.WriteString(genLine(r))
			if i+1 < n || r.Chance(1, 2) {
				if r.Chance(1, 8) {
					sb.WriteString("\r") // CRLF line ending
				}
				sb.WriteString("\n")
			}
		}
	}
	return []byte(sb.String())
}

var malAlpha = []string{"*", "_", "`", "~", ">", " ", "\n", "a", "```", "\xe2", "\x80", "\x83", "\t", "b", "\u2003", "\u00a0", "\xf0\x9f\x98\x80", "\xc2", "\x85", "**", "\r"}

func genMalformed(r *hx.Rand) []byte {
	n := r.Intn(16)
	var b []byte
	switch r.Intn(3) {
	case 0:
		for i := 0; i < n; i++ {
			b = append(b, byte(r.Intn(256)))
		}
	default:
		for i := 0; i < n; i++ {
			b = append(b, malAlpha[r.Intn(len(malAlpha))]...)
		}
	}
	return b
}

// long lines around the scanner's 4096-byte first buffer and its 64 KiB limit
func longDoc(kind string, n int) []byte {
	fill := bytes.Repeat([]byte("a"), n)
	switch kind {
	case "plain":
		return append(fill, []byte("\n*b*\n")...)
	case "plain-eof":
		return fill
	case "span":
		return append(append([]byte("*"), fill...), []byte("*\nx")...)
	case "quote-spaces":
		return append(append([]byte(">"), bytes.Repeat([]byte(" "), n)...), []byte("q\n")...)
	case "pre-info":
		return append(append([]byte("```"), fill...), []byte("\nx\n```\n")...)
	case "pre-line":
		return append(append([]byte("```\n"), fill...), []byte("\n```\nafter *s*\n")...)
	case "after-short":
		return append(append([]byte("*s* t\n> q\n"), fill...), []byte(" _e_\n")...)
	case "directives":
		return append(bytes.Repeat([]byte("* "), n/2), '\n')
	}
	return fill
}

func parseLong(note string) ([]byte, bool) {
	var kind string
	var n int
	if _, err := fmt.Sscanf(note, "long:%s %d", &kind, &n); err != nil {
		return nil, false
	}
	return longDoc(kind, n), true
}

func enumerate(alpha []string, n int, f func([]byte)) {
	idx := make([]int, n)
	for {
		var b []byte
		for _, i := range idx {
			b = append(b, alpha[i]...)
		}
		f(b)
		k := n - 1
		for k >= 0 {
			idx[k]++
			if idx[k] < len(alpha) {
				break
			}
			idx[k] = 0
			k--
		}
		if k < 0 {
			return
		}
	}
}

var smallAlpha = []string{"*", "_", "`", ">", " ", "\n", "a", "\u2003", "~"}

// corpus: witnesses of the defects found on the pinned tree and the test
// suite's documents; always run first.
var corpus = []string{
	">  a", "> \n```\n\n>", ">\u2003\t", "> \x80", ">\n>", "\n>> \u2003```\n>\xe2", // quote start token cut by a read
	"```\n```\n", "```\na\nb", "~\n```\n`b```\u2003\n```\n", "```\n```x\ny", "```\n```", "```\n```abc", // pre block and early EOF
	"````", "one\ntwo", "```\npre *fmt* ```\n```\nplain", "````\na\n```", "```\na```", "```newtoken\n",
	">  quoted\nnot", ">  quoted\n>> deeper\n> back\nout", "> ", "> ```\n> pre\n> ```\nplain", "> ``` \n> pre\nplain",
	"*strong* _emph_~strike~  `pre`", "*strong*plain*", "* plain *strong*", "not strong*", "*not strong", "*not \n strong*",
	"*not *strong", "**", "***", "****", "*this cannot _overlap*_", "_no pre `with *children*`_",
	"*a*```\nb", "*a*> b", "> a\n```info\n", ">> a\nb", "*a\u2003b*", "*\u2003a*", "*a\u2003*", "a *\xe2\x80", "*a _b_ c*\n*d*",
}

func main() {
	o := hx.ParseFlags()
	res := hx.NewResult("C17")
	x := &runner{res: res, emitted: map[string]bool{}}
	x.uc = hx.CaseFile{Name: "utf", Imports: imports, Ok: "ucase_ok", Type: "ucase"}
	x.sc = hx.CaseFile{Name: "scan", Imports: imports, Ok: "scase_ok", Type: "scase"}
	x.dc = hx.CaseFile{Name: "dec", Imports: imports, Ok: "dcase_ok", Type: "dcase"}
	r := hx.NewRand(o.Seed)

	if o.Replay != "" {
		b, err := os.ReadFile(o.Replay)
		if err != nil {
			fmt.Fprintln(os.Stderr, err)
			os.Exit(2)
		}
		var rp struct {
			Case struct {
				Kind  string    `json:"kind"`
				Doc   string    `json:"doc"`
				Reads []int     `json:"reads"`
				DEOF  bool      `json:"deof"`
				Calls []callRec `json:"calls"`
				Note  string    `json:"note"`
				Src   string    `json:"src"`
			} `json:"case"`
		}
		if err := json.Unmarshal(b, &rp); err != nil {
			fmt.Fprintln(os.Stderr, err)
			os.Exit(2)
		}
		switch rp.Case.Kind {
		case "utf8":
			x.utf(hx.UnHex(rp.Case.Src))
		case "scan":
			doc := hx.UnHex(rp.Case.Doc)
			x.replayScan(doc, rp.Case.Calls)
		default:
			var doc []byte
			if d, ok := parseLong(rp.Case.Note); ok {
				doc = d
			} else {
				doc = hx.UnHex(rp.Case.Doc)
			}
			ref := decodeWith(doc, nil, false)
			x.check(doc, hx.Hex(doc), "whole", ref, nil, rp.Case.Note)
			x.emitDec(doc, hx.Hex(doc), ref, true, "whole")
			got := decodeWith(doc, rp.Case.Reads, rp.Case.DEOF)
			x.check(doc, hx.Hex(doc), "replayed", got, &ref, rp.Case.Note)
			x.emitDec(doc, hx.Hex(doc), got, false, "replayed")
			x.document(r, doc, true, 0, rp.Case.Note)
		}
	} else {
		nDocs, nMal, depth, nScan, nUtf := 1500, 700, 4, 1200, 1200
		longKinds := []string{"plain", "span", "quote-spaces", "pre-line"}
		if o.Thorough() {
			nDocs, nMal, depth, nScan, nUtf = 9000, 4000, 5, 6000, 5000
			longKinds = []string{"plain", "plain-eof", "span", "quote-spaces", "pre-info", "pre-line", "after-short", "directives"}
		}
		if o.Search {
			nDocs, nMal, depth, nScan, nUtf = 40000, 20000, 5, 2000, 500
		}
		// corpus
		for _, s := range corpus {
			x.document(r, []byte(s), true, 2, "corpus")
			x.scanSeq(r, []byte(s), false)
		}
		// exhaustive small scope: every chunking in two pieces, with and without EOF on the last read
		nSmall := 0
		for l := 0; l <= depth; l++ {
			enumerate(smallAlpha, l, func(b []byte) {
				emit := 0
				if !o.Search && (l <= 3 || nSmall%(3*(l-3)*(l-3)) == 0) {
					emit = 1
				}
				nSmall++
				x.document(r, b, true, emit, "small-scope")
			})
		}
		res.Extra["exhaustive_small_scope"] = fmt.Sprintf("all documents over %q up to %d symbols (%d documents), each read whole, byte by byte, and split at every position", smallAlpha, depth, nSmall)
		// structured documents
		for i := 0; i < nDocs; i++ {
			doc := genDoc(r)
			emit := 1
			if i%3 == 0 {
				emit = 2
			}
			if o.Search {
				emit = 0
			}
			x.document(r, doc, len(doc) <= 12, emit, "grammar")
			if i < nScan {
				x.scanSeq(r, doc, i%4 == 3)
			}
		}
		// malformed stream
		for i := 0; i < nMal; i++ {
			doc := genMalformed(r)
			emit := 1
			if i%3 == 0 {
				emit = 2
			}
			if o.Search {
				emit = 0
			}
			x.document(r, doc, true, emit, "malformed")
			if i < nScan/2 {
				x.scanSeq(r, doc, i%3 == 2)
			}
		}
		// long lines
		for _, k := range longKinds {
			for _, n := range []int{900 + r.Intn(400), 4090 + r.Intn(12), 65531 + r.Intn(3), 65536 + r.Intn(40)} {
				if (k == "directives" || k == "quote-spaces") && n > 5000 && !o.Thorough() {
					n = 65536
				}
				note := fmt.Sprintf("long:%s %d", k, n)
				emit := 1
				if n < 5000 {
					emit = 2
				}
				if o.Search {
					emit = 0
				}
				x.document(r, longDoc(k, n), false, emit, note)
			}
		}
		// the boundary of the limit: an unterminated line of exactly 65536 bytes
		{
			emit := 1
			if o.Search {
				emit = 0
			}
			x.document(r, longDoc("plain-eof", 65536), false, emit, "long:plain-eof 65536")
		}
		if !o.Search {
			x.utfCases(r, nUtf)
		}
	}
	res.Rule = "inputs: corpus (defect witnesses + the test suite's documents), every document over {* _ ` > space newline a U+2003 ~} up to a length bound, " +
		"seeded documents from a grammar (quotes, fences, nested/broken spans, Unicode spaces, invalid UTF-8, unterminated constructs), a malformed byte stream, " +
		"lines around 4096 and 65536 bytes; per document: Decoder runs reading in one piece, byte by byte, fixed and random read sizes, split at every/one position, " +
		"each with EOF reported with or after the last bytes; direct split-function call sequences (scanner-like and adversarial); utf8 helper cases; " +
		"distinct = hash of (entry point, document, actual read sizes, EOF mode / call sequence); non-trivial = document contains a directive character or '>'"
	per := 1500
	res.CaseFiles = append(res.CaseFiles, x.uc.Write(o.Out, 4000)...)
	res.CaseFiles = append(res.CaseFiles, x.sc.Write(o.Out, per)...)
	res.CaseFiles = append(res.CaseFiles, x.dc.Write(o.Out, per)...)
	res.Extra["model_cases"] = x.uc.Len() + x.sc.Len() + x.dc.Len()
	res.Extra["model_case_bytes"] = x.termB
	res.Write(o.Out)
}

func (x *runner) replayScan(doc []byte, calls []callRec) {
	d := &styling.Decoder{}
	split := styling.VerifSplit(d)
	c := scanCase{Kind: "scan", Doc: hx.Hex(doc), Calls: calls}
	var terms []string
	for _, k := range calls {
		if k.Off < 0 || k.Len < 0 || k.Off+k.Len > len(doc) {
			continue
		}
		data := doc[k.Off : k.Off+k.Len]
		var adv int
		var tok []byte
		var err error
		var st styling.Style
		var q uint
		if p := hx.Catch(func() { adv, tok, err = split(data, k.EOF); st, q = d.Style(), d.Quote() }); p != "" {
			x.res.Fail("C17/scan/panic", "split function panics: "+p, c)
			return
		}
		if err != nil || adv < 0 || adv > len(data) || (adv > 0 && !bytes.Equal(tok, data[:adv])) {
			x.res.Fail("C17/scan/contract/replay", "split function breaks its contract", c)
			return
		}
		terms = append(terms, fmt.Sprintf("mkcall %s %s %s %s %d%%N %s", hx.CoqNat(k.Off), hx.CoqNat(k.Len), hx.CoqBool(k.EOF), hx.CoqNat(adv), uint32(st), hx.CoqNat(int(q))))
	}
	x.res.Count("s|replay"+c.Doc, true, "scan/replay")
	x.sc.Add(fmt.Sprintf("mkscase %s [%s]", hx.CoqBytes(doc), strings.Join(terms, ";")), c)
}
