package main

import (
	"fmt"
	"strconv"
	"strings"
)

// The implementation oracle: property C18 restated on what the harness did
// (calls started, contexts cancelled, stanzas written to the session) and what
// it saw (return values, Joined() results, callback logs). It does not use the
// Coq model or the driver's book-keeping of the library's internals.

type verdict struct{ Key, What string }

type ocall struct {
	join                        bool
	a                           int // occupant address of its Channel
	h                           int // its Channel
	pushed, released, cancelled bool
	returned                    bool
	outcome                     string
	selfSeen, unavSeen, errSeen bool   // a reason to return arrived after the call started
	due                         string // reason that arrived while the call was published and not cancelled
	owed                        string // ... and the call was in its select, uncancelled: it must return with it
	intact                      bool   // no unavailable presence for the address since the call started
}

func runOracle(tr []Label, cbPres, cbInv []int, died bool) []verdict {
	var out []verdict
	fail := func(k, w string) { out = append(out, verdict{k, w}) }
	calls := map[int]*ocall{}
	// per occupant address: tracked = a join was requested and no unavailable
	// presence arrived since; reg = the Channel of the latest join request (the one
	// the room's presence is for: last registration wins)
	var tracked, everJoin [nAddr]bool
	reg := [nAddr]int{-1, -1, -1, -1}
	// per Channel: member = a join on it succeeded and the unavailable presence of
	// its address has not arrived since; orphaned = that presence arrived while
	// another Channel was the registered one (known finding)
	member, leaveErr, orphaned := map[int]bool{}, map[int]bool{}, map[int]bool{}
	chanAddr := map[int]int{}
	availWhileTracked := [nAddr]int{}
	badWhileTracked := [nAddr]int{}
	kindOf := func(c *ocall) string {
		if c.join {
			return "join"
		}
		return "leave"
	}
	settle := func(c *ocall) {
		if c.due != "" && c.released && !c.cancelled && !c.returned && c.owed == "" {
			c.owed = c.due
		}
	}
	for _, l := range tr {
		switch l.T {
		case "new":
			chanAddr[l.H] = l.A
		case "call":
			c := &ocall{join: l.O == "join", a: l.A, h: l.H, intact: true}
			calls[l.K] = c
			chanAddr[l.H] = l.A
			if c.join {
				tracked[l.A], everJoin[l.A] = true, true
				reg[l.A] = l.H
			} else {
				c.pushed = true
			}
		case "push":
			// publishing has started: contexts ahead of it in the buffer belong to
			// calls that returned, so the next self-presence must reach this call
			calls[l.K].pushed = true
		case "release":
			calls[l.K].released = true
			settle(calls[l.K])
		case "cancel":
			calls[l.K].cancelled = true
		case "deliver":
			switch l.O {
			case "avail":
				if tracked[l.A] {
					availWhileTracked[l.A]++
				}
				for _, c := range calls {
					if c.join && c.a == l.A && !c.returned {
						c.selfSeen = true
						// the presence answers the latest request for the address: it is owed
						// to the pending join of that Channel only
						if c.h == reg[l.A] && c.pushed && c.intact && !c.cancelled && c.due == "" {
							c.due = "self"
						}
						settle(c)
					}
				}
			case "unavail":
				for h, a := range chanAddr {
					if a == l.A && member[h] {
						member[h] = false
						if h != reg[l.A] {
							orphaned[h] = true
						}
					}
				}
				for _, c := range calls {
					if c.a != l.A || c.returned {
						continue
					}
					if c.join {
						c.intact = false
						if c.due == "self" && c.owed == "" {
							c.due = ""
						}
					} else if tracked[l.A] {
						c.unavSeen = true
						if !c.cancelled && c.due == "" {
							if c.h == reg[l.A] {
								c.due = "unavail"
							} else {
								c.due = "unavail-orphan"
							}
						}
						settle(c)
					}
				}
				tracked[l.A] = false
				reg[l.A] = -1
			case "bad":
				// a presence whose payload does not decode. From an address no join
				// was ever requested for it must be ignored like any other (checked
				// below through the callback log and the Serve loop); from any other
				// address the property does not say what it is worth: it may count as
				// the room's presence or not.
				if tracked[l.A] {
					badWhileTracked[l.A]++
				}
				if everJoin[l.A] {
					for _, c := range calls {
						if c.a == l.A && !c.returned {
							if c.join {
								c.selfSeen = true
							} else {
								c.unavSeen = true
							}
						}
					}
				}
			case "err":
				if c := calls[l.K]; c != nil && !c.returned && c.pushed && !c.errSeen {
					c.errSeen = true
					if !c.cancelled && c.due == "" {
						c.due = "err"
					}
					settle(c)
				}
			}
		case "ret":
			c := calls[l.K]
			c.returned, c.outcome = true, l.O
			switch l.O {
			case "success":
				if c.join {
					if !c.selfSeen {
						fail("C18/join/success-without-self-presence", "Join returned nil although no available presence from the requested occupant address arrived after the call started")
					}
					member[c.h], leaveErr[c.h], orphaned[c.h] = true, false, false
				} else if !c.unavSeen {
					fail("C18/leave/success-without-unavailable", "Leave returned nil although no unavailable presence for the occupant arrived after the call started")
				}
			case "stanzaerr":
				if !c.join {
					leaveErr[c.h] = true
				}
				if !c.errSeen {
					fail("C18/"+kindOf(c)+"/stanza-error-without-error-reply", "the call returned a stanza error although the room sent no error reply to its request")
				}
			case "ctxerr":
				if !c.cancelled {
					fail("C18/"+kindOf(c)+"/context-error-without-cancel", "the call returned a context error although its context was not cancelled")
				}
			default:
				fail("C18/"+kindOf(c)+"/unexpected-error", "the call returned an error that is neither the room's stanza error nor the context's error")
			}
		case "query":
			who := fmt.Sprintf("channel %d (%s)", l.H, addrs[l.A])
			switch {
			case l.B && !member[l.H] && orphaned[l.H]:
				fail("C18/joined/orphaned-channel-after-second-client-join", fmt.Sprintf("Joined() is still true for %s after the occupant's unavailable presence: it arrived while another Channel for the same address (there are several since a second Client.Join) was the registered one", who))
			case l.B && !member[l.H]:
				fail("C18/joined/true-while-not-joined", fmt.Sprintf("Joined() is true for %s outside the window from a successful join to the unavailable presence", who))
			case !l.B && member[l.H] && leaveErr[l.H]:
				fail("C18/joined/false-after-leave-error", fmt.Sprintf("Joined() is false for %s after Leave returned the room's error, although no unavailable presence for the occupant arrived (the room refused the departure)", who))
			case !l.B && member[l.H]:
				fail("C18/joined/false-while-joined", fmt.Sprintf("Joined() is false for %s after a successful join and before any unavailable presence", who))
			}
		}
	}
	for k, c := range calls {
		if died {
			break // the history ends where the Serve loop ended: nothing is owed any more
		}
		if !c.returned {
			if c.cancelled {
				fail("C18/"+kindOf(c)+"/cancel-ignored", fmt.Sprintf("call %d did not return after its context was cancelled", k))
			}
		}
		if c.owed != "" && (!c.returned || c.outcome == "ctxerr") {
			switch c.owed {
			case "self":
				fail("C18/join/self-presence-ignored", fmt.Sprintf("call %d: the room's self-presence for the requested address arrived while the join was waiting, uncancelled, but Join did not return success", k))
			case "unavail-orphan":
				fail("C18/joined/orphaned-channel-after-second-client-join", fmt.Sprintf("call %d: Leave on a Channel that another Channel for the same address has replaced in the routing table was not told about the occupant's unavailable presence", k))
			case "unavail":
				fail("C18/leave/lost-depart-notification", fmt.Sprintf("call %d: the occupant's unavailable presence arrived after Leave had sent its request, but Leave did not return", k))
			case "err":
				fail("C18/"+kindOf(c)+"/error-reply-ignored", fmt.Sprintf("call %d: the room answered the request with an error but the call did not return it", k))
			}
		}
	}
	// presences of rooms that were never joined are ignored
	cnt := [nAddr]int{}
	for _, a := range cbPres {
		if a < 0 || a >= nAddr || !everJoin[a] {
			fail("C18/presence/callback-for-unjoined-room", "the user presence callback ran for an address no join was ever requested for")
			continue
		}
		cnt[a]++
	}
	// one available presence is handed to one pending join or reported once, not both
	joinOK := [nAddr]int{}
	for _, c := range calls {
		if c.join && c.returned && c.outcome == "success" {
			joinOK[c.a]++
		}
	}
	for a := range cnt {
		if cnt[a] <= availWhileTracked[a] && cnt[a]+joinOK[a] > availWhileTracked[a]+badWhileTracked[a] {
			fail("C18/presence/handled-twice", "an available presence both completed a join and was reported to the user presence callback (or was reported twice)")
		}
	}
	for a := range cnt {
		if cnt[a] > availWhileTracked[a] {
			fail("C18/presence/callback-without-presence", "more user presence callbacks than available presences delivered for a tracked address")
		}
	}
	// the Serve loop must survive everything the property calls ignorable
	if died {
		last := Label{}
		for _, l := range tr {
			if l.T == "deliver" {
				last = l
			}
		}
		switch {
		case (last.O == "bad" || last.O == "avail" || last.O == "unavail") && !everJoin[last.A]:
			fail("C18/presence/unjoined-room-not-ignored", fmt.Sprintf("a presence from %s, for which no join was ever requested, was not ignored: its handling ended the Serve loop (payload kind %q)", addrs[last.A], last.O))
		case last.O == "bad":
			// undecodable payload from a room that is or was joined: outside the property
		default:
			fail("C18/serve/ended", fmt.Sprintf("the Serve loop ended while handling a stanza (%s)", last.O))
		}
	}
	// each invite element of each delivered message exactly once, in order
	type inv struct {
		variant int
		multi   bool // its message carries several muc#user payloads
	}
	sent := map[int]inv{}
	var order []int
	for _, l := range tr {
		if l.T != "deliver" || l.O != "msg" {
			continue
		}
		userx := 0
		for _, c := range l.C {
			if c == "u" || strings.HasPrefix(c, "i") {
				userx++
			}
		}
		for _, c := range l.C {
			if strings.HasPrefix(c, "i") {
				n, _ := strconv.Atoi(c[1:])
				sent[n] = inv{l.V, userx > 1}
				order = append(order, n)
			}
		}
	}
	seen := map[int]int{}
	for _, i := range cbInv {
		seen[i]++
	}
	for _, i := range order {
		v := sent[i]
		switch {
		case seen[i] != 1 && v.multi:
			fail("C18/invite/several-muc-user-payloads", fmt.Sprintf("a message with several muc#user payloads: its invitation was delivered to HandleInvite %d times (the multiplexer runs the handler once per payload and every run decodes the whole message)", seen[i]))
		case seen[i] == 0 && v.variant&1 == 1:
			fail("C18/invite/untyped-message-not-delivered", "a mediated invitation carried by a message without a type attribute (the form XEP-0045 shows) was not delivered to HandleInvite")
		case seen[i] == 0:
			fail("C18/invite/not-delivered", "a mediated invitation was not delivered to HandleInvite")
		case seen[i] > 1:
			fail("C18/invite/duplicated", fmt.Sprintf("a mediated invitation was delivered to HandleInvite %d times", seen[i]))
		}
	}
	if len(out) == 0 {
		last := -1
		for _, i := range cbInv {
			if _, ok := sent[i]; !ok {
				fail("C18/invite/spurious", "HandleInvite ran for something that is not one of the invitations sent")
			} else if i < last {
				fail("C18/invite/reordered", "invitations were delivered out of order")
			}
			last = i
		}
	}
	return out
}
