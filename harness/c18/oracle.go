package main

import (
	"fmt"
	"strconv"
	"strings"
)

// The implementation oracle: property C18 restated on what the harness did
// (calls started, contexts cancelled, stanzas written to the session) and what
// it saw (return values, Joined() results, callback logs). It does not use the
// Coq model or the driver's book-keeping of the library's internals.

type verdict struct{ Key, What string }

type ocall struct {
	join                        bool
	a                           int
	pushed, released, cancelled bool
	returned                    bool
	outcome                     string
	selfSeen, unavSeen, errSeen bool   // a reason to return arrived after the call started
	due                         string // reason that arrived while the call was published and not cancelled
	owed                        string // ... and the call was in its select, uncancelled: it must return with it
	intact                      bool   // no unavailable presence for the address since the call started
}

func runOracle(tr []Label, cbPres, cbInv []int, died bool) []verdict {
	var out []verdict
	fail := func(k, w string) { out = append(out, verdict{k, w}) }
	calls := map[int]*ocall{}
	var tracked, member, everJoin, leaveErr [nAddr]bool
	availWhileTracked := [nAddr]int{}
	badWhileTracked := [nAddr]int{}
	kindOf := func(c *ocall) string {
		if c.join {
			return "join"
		}
		return "leave"
	}
	settle := func(c *ocall) {
		if c.due != "" && c.released && !c.cancelled && !c.returned && c.owed == "" {
			c.owed = c.due
		}
	}
	for _, l := range tr {
		switch l.T {
		case "call":
			c := &ocall{join: l.O == "join", a: l.A, intact: true}
			calls[l.K] = c
			if c.join {
				tracked[l.A], everJoin[l.A] = true, true
			} else {
				c.pushed = true
			}
		case "push":
			// publishing has started: contexts ahead of it in the buffer belong to
			// calls that returned, so the next self-presence must reach this call
			calls[l.K].pushed = true
		case "release":
			calls[l.K].released = true
			settle(calls[l.K])
		case "cancel":
			calls[l.K].cancelled = true
		case "deliver":
			switch l.O {
			case "avail":
				if tracked[l.A] {
					availWhileTracked[l.A]++
				}
				for _, c := range calls {
					if c.join && c.a == l.A && !c.returned {
						c.selfSeen = true
						if c.pushed && c.intact && !c.cancelled && c.due == "" {
							c.due = "self"
						}
						settle(c)
					}
				}
			case "unavail":
				member[l.A] = false
				for _, c := range calls {
					if c.a != l.A || c.returned {
						continue
					}
					if c.join {
						c.intact = false
						if c.due == "self" && c.owed == "" {
							c.due = ""
						}
					} else if tracked[l.A] {
						c.unavSeen = true
						if !c.cancelled && c.due == "" {
							c.due = "unavail"
						}
						settle(c)
					}
				}
				tracked[l.A] = false
			case "bad":
				// a presence whose payload does not decode. From an address no join
				// was ever requested for it must be ignored like any other (checked
				// below through the callback log and the Serve loop); from any other
				// address the property does not say what it is worth: it may count as
				// the room's presence or not.
				if tracked[l.A] {
					badWhileTracked[l.A]++
				}
				if everJoin[l.A] {
					for _, c := range calls {
						if c.a == l.A && !c.returned {
							if c.join {
								c.selfSeen = true
							} else {
								c.unavSeen = true
							}
						}
					}
				}
			case "err":
				if c := calls[l.K]; c != nil && !c.returned && c.pushed && !c.errSeen {
					c.errSeen = true
					if !c.cancelled && c.due == "" {
						c.due = "err"
					}
					settle(c)
				}
			}
		case "ret":
			c := calls[l.K]
			c.returned, c.outcome = true, l.O
			switch l.O {
			case "success":
				if c.join {
					if !c.selfSeen {
						fail("C18/join/success-without-self-presence", "Join returned nil although no available presence from the requested occupant address arrived after the call started")
					}
					member[c.a], leaveErr[c.a] = true, false
				} else if !c.unavSeen {
					fail("C18/leave/success-without-unavailable", "Leave returned nil although no unavailable presence for the occupant arrived after the call started")
				}
			case "stanzaerr":
				if !c.join {
					leaveErr[c.a] = true
				}
				if !c.errSeen {
					fail("C18/"+kindOf(c)+"/stanza-error-without-error-reply", "the call returned a stanza error although the room sent no error reply to its request")
				}
			case "ctxerr":
				if !c.cancelled {
					fail("C18/"+kindOf(c)+"/context-error-without-cancel", "the call returned a context error although its context was not cancelled")
				}
			default:
				fail("C18/"+kindOf(c)+"/unexpected-error", "the call returned an error that is neither the room's stanza error nor the context's error")
			}
		case "query":
			if l.B && !member[l.A] {
				fail("C18/joined/true-while-not-joined", fmt.Sprintf("Joined() is true for %s outside the window from a successful join to the unavailable presence", addrs[l.A]))
			}
			if !l.B && member[l.A] && leaveErr[l.A] {
				fail("C18/joined/false-after-leave-error", fmt.Sprintf("Joined() is false for %s after Leave returned the room's error, although no unavailable presence for the occupant arrived (the room refused the departure)", addrs[l.A]))
			} else if !l.B && member[l.A] {
				fail("C18/joined/false-while-joined", fmt.Sprintf("Joined() is false for %s after a successful join and before any unavailable presence", addrs[l.A]))
			}
		}
	}
	for k, c := range calls {
		if died {
			break // the history ends where the Serve loop ended: nothing is owed any more
		}
		if !c.returned {
			if c.cancelled {
				fail("C18/"+kindOf(c)+"/cancel-ignored", fmt.Sprintf("call %d did not return after its context was cancelled", k))
			}
		}
		if c.owed != "" && (!c.returned || c.outcome == "ctxerr") {
			switch c.owed {
			case "self":
				fail("C18/join/self-presence-ignored", fmt.Sprintf("call %d: the room's self-presence for the requested address arrived while the join was waiting, uncancelled, but Join did not return success", k))
			case "unavail":
				fail("C18/leave/lost-depart-notification", fmt.Sprintf("call %d: the occupant's unavailable presence arrived after Leave had sent its request, but Leave did not return", k))
			case "err":
				fail("C18/"+kindOf(c)+"/error-reply-ignored", fmt.Sprintf("call %d: the room answered the request with an error but the call did not return it", k))
			}
		}
	}
	// presences of rooms that were never joined are ignored
	cnt := [nAddr]int{}
	for _, a := range cbPres {
		if a < 0 || a >= nAddr || !everJoin[a] {
			fail("C18/presence/callback-for-unjoined-room", "the user presence callback ran for an address no join was ever requested for")
			continue
		}
		cnt[a]++
	}
	// one available presence is handed to one pending join or reported once, not both
	joinOK := [nAddr]int{}
	for _, c := range calls {
		if c.join && c.returned && c.outcome == "success" {
			joinOK[c.a]++
		}
	}
	for a := range cnt {
		if cnt[a] <= availWhileTracked[a] && cnt[a]+joinOK[a] > availWhileTracked[a]+badWhileTracked[a] {
			fail("C18/presence/handled-twice", "an available presence both completed a join and was reported to the user presence callback (or was reported twice)")
		}
	}
	for a := range cnt {
		if cnt[a] > availWhileTracked[a] {
			fail("C18/presence/callback-without-presence", "more user presence callbacks than available presences delivered for a tracked address")
		}
	}
	// the Serve loop must survive everything the property calls ignorable
	if died {
		last := Label{}
		for _, l := range tr {
			if l.T == "deliver" {
				last = l
			}
		}
		switch {
		case (last.O == "bad" || last.O == "avail" || last.O == "unavail") && !everJoin[last.A]:
			fail("C18/presence/unjoined-room-not-ignored", fmt.Sprintf("a presence from %s, for which no join was ever requested, was not ignored: its handling ended the Serve loop (payload kind %q)", addrs[last.A], last.O))
		case last.O == "bad":
			// undecodable payload from a room that is or was joined: outside the property
		default:
			fail("C18/serve/ended", fmt.Sprintf("the Serve loop ended while handling a stanza (%s)", last.O))
		}
	}
	// each invite element of each delivered message exactly once, in order
	type inv struct {
		variant int
		multi   bool // its message carries several muc#user payloads
	}
	sent := map[int]inv{}
	var order []int
	for _, l := range tr {
		if l.T != "deliver" || l.O != "msg" {
			continue
		}
		userx := 0
		for _, c := range l.C {
			if c == "u" || strings.HasPrefix(c, "i") {
				userx++
			}
		}
		for _, c := range l.C {
			if strings.HasPrefix(c, "i") {
				n, _ := strconv.Atoi(c[1:])
				sent[n] = inv{l.V, userx > 1}
				order = append(order, n)
			}
		}
	}
	seen := map[int]int{}
	for _, i := range cbInv {
		seen[i]++
	}
	for _, i := range order {
		v := sent[i]
		switch {
		case seen[i] != 1 && v.multi:
			fail("C18/invite/several-muc-user-payloads", fmt.Sprintf("a message with several muc#user payloads: its invitation was delivered to HandleInvite %d times (the multiplexer runs the handler once per payload and every run decodes the whole message)", seen[i]))
		case seen[i] == 0 && v.variant&1 == 1:
			fail("C18/invite/untyped-message-not-delivered", "a mediated invitation carried by a message without a type attribute (the form XEP-0045 shows) was not delivered to HandleInvite")
		case seen[i] == 0:
			fail("C18/invite/not-delivered", "a mediated invitation was not delivered to HandleInvite")
		case seen[i] > 1:
			fail("C18/invite/duplicated", fmt.Sprintf("a mediated invitation was delivered to HandleInvite %d times", seen[i]))
		}
	}
	if len(out) == 0 {
		last := -1
		for _, i := range cbInv {
			if _, ok := sent[i]; !ok {
				fail("C18/invite/spurious", "HandleInvite ran for something that is not one of the invitations sent")
			} else if i < last {
				fail("C18/invite/reordered", "invitations were delivered out of order")
			}
			last = i
		}
	}
	return out
}
