package main

import (
	"context"
	"fmt"
	"time"

	"mellium.im/xmpp/jid"
	"mellium.im/xmpp/muc"
	"mellium.im/xmpp/stanza"
	"verifharness/hx"
)

// nickScenario is outside the model (which identifies a Channel with its
// occupant address): a join that carries the muc.Nick option asks for the
// occupant address room/<nick>. The scripted service behaves like a real one:
// it answers the request with the self-presence of the address the request was
// sent to. Oracle only: Join may return success only after the self-presence of
// the REQUESTED occupant address has arrived.
//
// rejoin == false: Client.Join(room1/nick, Nick("other"))
// rejoin == true:  Client.Join(room1/nick) completes, then Channel.Join(Nick("other"))
func nickScenario(rejoin bool) []verdict {
	w, err := newWorld()
	if err != nil {
		return []verdict{{"C18/driver/anomaly", "setup: " + err.Error()}}
	}
	defer w.close()
	w.serve.setBlock("muc.presence.join.taken", false)
	const requested = 2 // addrs[2] = room1@muc.example/other
	type res struct {
		ch  *muc.Channel
		err error
	}
	// join runs f (a join call), waits for its request on the wire, answers it
	// with the self-presence of the address it was sent to and returns that
	// address, the channel and the error of the call.
	join := func(f func(ctx context.Context) (*muc.Channel, error)) (string, *muc.Channel, error, bool) {
		rc := make(chan res, 1)
		ctx, cancel := context.WithCancel(context.Background())
		defer cancel()
		go func() {
			ch, err := f(ctx)
			rc <- res{ch, err}
		}()
		to := ""
		n := w.nreq
		if !waitFor(watchdog, func() bool {
			els, _, _, _ := hx.ParseTopLevel(w.pipe.Written(), stanza.NSClient)
			c := 0
			for _, e := range els {
				if e.Local == "presence" {
					c++
					if c == n+1 {
						to, _ = e.Attr("to")
						return true
					}
				}
			}
			return false
		}) {
			return "", nil, nil, false
		}
		w.nreq++
		time.Sleep(grace)
		s := `<presence from="` + to + `" to="` + me + `"><x xmlns="http://jabber.org/protocol/muc#user">` +
			`<item affiliation="member" role="participant"/><status code="110"/></x></presence>`
		if !w.sendRaw(s) {
			return "", nil, nil, false
		}
		w.finishIter()
		if !waitFor(watchdog, func() bool { return len(rc) > 0 }) {
			cancel() // the call then returns its context's error
			if !waitFor(watchdog, func() bool { return len(rc) > 0 }) {
				return to, nil, nil, false
			}
		}
		r := <-rc
		return to, r.ch, r.err, true
	}
	var ch *muc.Channel
	if rejoin {
		to, c, err, ok := join(func(ctx context.Context) (*muc.Channel, error) {
			return w.client.Join(ctx, jid.MustParse(addrs[0]), w.sess)
		})
		if !ok || err != nil || c == nil || to != addrs[0] {
			return []verdict{{"C18/driver/anomaly", fmt.Sprintf("nick scenario: the plain join did not complete (to=%q err=%v)", to, err)}}
		}
		ch = c
	}
	to, c, err, ok := join(func(ctx context.Context) (*muc.Channel, error) {
		if rejoin {
			return ch, ch.Join(ctx, muc.Nick("other"))
		}
		return w.client.Join(ctx, jid.MustParse(addrs[0]), w.sess, muc.Nick("other"))
	})
	if !ok {
		return []verdict{{"C18/driver/anomaly", "nick scenario: the join with the Nick option sent no request or did not return"}}
	}
	how := "Client.Join(room/nick, Nick(\"other\"))"
	if rejoin {
		how = "Channel.Join(Nick(\"other\")) on a joined channel"
	}
	if err == nil && to != addrs[requested] {
		return []verdict{{"C18/join/nick-option-ignored", fmt.Sprintf("%s returned success after the self-presence of %s; the requested occupant address %s was never asked for (the request went to %s) and its self-presence never arrived", how, to, addrs[requested], to)}}
	}
	if err != nil {
		return []verdict{{"C18/join/self-presence-ignored", fmt.Sprintf("%s: the room's self-presence for the address the request was sent to (%s) arrived but Join returned %v", how, to, err)}}
	}
	if c == nil {
		return []verdict{{"C18/driver/anomaly", "nick scenario: no channel returned"}}
	}
	if !c.Me().Equal(jid.MustParse(addrs[requested])) || !c.Joined() {
		return []verdict{{"C18/join/wrong-address", fmt.Sprintf("%s succeeded for %s but the channel reports Me()=%v Joined()=%v", how, addrs[requested], c.Me(), c.Joined())}}
	}
	return nil
}
