package main

import (
	"runtime"
	"sync"
	"sync/atomic"
	"time"
)

// A per-goroutine gate over the library's `verif` yield points. The hook is
// process global, so it dispatches on the calling goroutine: only goroutines
// registered as actors of a world (the call goroutines and the Serve
// goroutine) are ever parked; every other goroutine (request senders, the
// harness itself) passes through. Several worlds can therefore run in parallel.

type actor struct {
	mu      sync.Mutex
	block   map[string]bool
	arrived map[string]int
	parked  string        // point the actor is parked at ("" if running)
	wake    chan struct{} // closed to release
}

var (
	actorsMu sync.RWMutex
	actors   = map[uint64]*actor{}
)

func goid() uint64 {
	var buf [64]byte
	n := runtime.Stack(buf[:], false)
	// "goroutine 123 ["
	var id uint64
	for i := len("goroutine "); i < n; i++ {
		c := buf[i]
		if c < '0' || c > '9' {
			break
		}
		id = id*10 + uint64(c-'0')
	}
	return id
}

func newActor(points ...string) *actor {
	a := &actor{block: map[string]bool{}, arrived: map[string]int{}}
	for _, p := range points {
		a.block[p] = true
	}
	return a
}

// enter registers the calling goroutine as actor a (call first thing in it).
func (a *actor) enter() {
	actorsMu.Lock()
	actors[goid()] = a
	actorsMu.Unlock()
}

func (a *actor) leave() {
	actorsMu.Lock()
	delete(actors, goid())
	actorsMu.Unlock()
}

// hook is installed with xmpp.VerifSetHook.
func hook(point string) {
	actorsMu.RLock()
	a := actors[goid()]
	actorsMu.RUnlock()
	if a == nil {
		return
	}
	a.mu.Lock()
	a.arrived[point]++
	if !a.block[point] {
		a.mu.Unlock()
		return
	}
	c := make(chan struct{})
	a.parked, a.wake = point, c
	a.mu.Unlock()
	<-c
}

func (a *actor) setBlock(point string, on bool) {
	a.mu.Lock()
	a.block[point] = on
	a.mu.Unlock()
}

func (a *actor) parkedAt() string {
	a.mu.Lock()
	defer a.mu.Unlock()
	return a.parked
}

func (a *actor) count(point string) int {
	a.mu.Lock()
	defer a.mu.Unlock()
	return a.arrived[point]
}

// release lets the actor continue from the point it is parked at.
func (a *actor) release() bool {
	a.mu.Lock()
	if a.parked == "" {
		a.mu.Unlock()
		return false
	}
	c := a.wake
	a.parked, a.wake = "", nil
	a.mu.Unlock()
	close(c)
	return true
}

// releaseAll unblocks every point and releases the actor.
func (a *actor) releaseAll() {
	a.mu.Lock()
	a.block = map[string]bool{}
	c := a.wake
	a.parked, a.wake = "", nil
	a.mu.Unlock()
	if c != nil {
		close(c)
	}
}

// waitFor polls cond until it holds or the watchdog d is exhausted. The
// watchdog counts the time during which this polling loop itself was running:
// a pause between two polls counts for at most 5 ms, so a stall of the whole
// process or machine (the library's goroutines could not run either) does not
// exhaust it.
func waitFor(d time.Duration, cond func() bool) bool {
	var virt time.Duration
	last := time.Now()
	for i := 0; ; i++ {
		if cond() {
			return true
		}
		now := time.Now()
		step := now.Sub(last)
		last = now
		if step > 5*time.Millisecond {
			step = 5 * time.Millisecond
		}
		virt += step
		if virt >= d {
			return false
		}
		if i < 50 {
			runtime.Gosched()
		} else {
			time.Sleep(50 * time.Microsecond)
		}
	}
}

// within runs f in its own goroutine and waits for it under waitFor's watchdog.
func within(d time.Duration, f func()) bool {
	var done atomic.Bool
	go func() { f(); done.Store(true) }()
	return waitFor(d, done.Load)
}
