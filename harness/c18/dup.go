package main

import (
	"context"
	"time"

	"mellium.im/xmpp/jid"
	"mellium.im/xmpp/muc"
	"mellium.im/xmpp/stanza"
	"verifharness/hx"
)

// dupScenario is outside the model (which has one Channel per occupant
// address): Client.Join is called a second time for an address that already has
// a Channel. The second call replaces the table entry, so the first Channel no
// longer sees the room's presence. Oracle only.
func dupScenario() []verdict {
	w, err := newWorld()
	if err != nil {
		return []verdict{{"C18/driver/anomaly", "setup: " + err.Error()}}
	}
	defer w.close()
	w.serve.setBlock("muc.presence.join.taken", false)
	var out []verdict
	join := func() *muc.Channel {
		type res struct {
			ch  *muc.Channel
			err error
		}
		rc := make(chan res, 1)
		ctx, cancel := context.WithCancel(context.Background())
		defer cancel()
		go func() {
			ch, err := w.client.Join(ctx, jid.MustParse(addrs[0]), w.sess)
			rc <- res{ch, err}
		}()
		n := w.nreq
		if !waitFor(watchdog, func() bool {
			els, _, _, _ := hx.ParseTopLevel(w.pipe.Written(), stanza.NSClient)
			c := 0
			for _, e := range els {
				if e.Local == "presence" {
					c++
				}
			}
			return c > n
		}) {
			return nil
		}
		w.nreq++
		time.Sleep(grace)
		if !w.sendRaw(presenceXML(0, "", 2, "")) {
			return nil
		}
		w.finishIter()
		if !waitFor(watchdog, func() bool { return len(rc) > 0 }) {
			cancel()
			if !waitFor(watchdog, func() bool { return len(rc) > 0 }) {
				return nil
			}
		}
		r := <-rc
		if r.err != nil {
			return nil
		}
		return r.ch
	}
	ch1 := join()
	ch2 := join()
	if ch1 == nil || ch2 == nil {
		return []verdict{{"C18/driver/anomaly", "second Client.Join scenario: a join did not complete"}}
	}
	if !ch1.Joined() || !ch2.Joined() {
		out = append(out, verdict{"C18/joined/false-while-joined", "second Client.Join for the same address: a channel reports not joined after its join succeeded"})
	}
	if w.sendRaw(presenceXML(0, "unavailable", 2, "")) {
		w.finishIter()
	}
	if ch2.Joined() {
		out = append(out, verdict{"C18/joined/true-while-not-joined", "Joined() true after the unavailable presence"})
	}
	if ch1.Joined() {
		out = append(out, verdict{"C18/joined/orphaned-channel-after-second-client-join", "Client.Join was called twice for one occupant address: the first Channel still reports Joined() after the occupant's unavailable presence (the second call replaced its table entry)"})
	}
	return out
}
