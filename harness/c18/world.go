package main

import (
	"context"
	"errors"
	"fmt"
	"strings"
	"sync"
	"time"

	"mellium.im/xmpp"
	"mellium.im/xmpp/jid"
	"mellium.im/xmpp/muc"
	"mellium.im/xmpp/mux"
	"mellium.im/xmpp/stanza"
	"verifharness/hx"
)

// ---- scripts ----

// Op is one step of a forced schedule.
//
//	join a      start a join of address a (Client.Join the first time, Channel.Join on that Channel later; with
//	            h > 0: Channel.Join on Channel h-1); parks before publishing its context
//	cjoin a     Client.Join for address a, also when a Channel for a exists already: makes another Channel
//	push k      let call k publish its join context (it then parks before its final select, or blocks on a full buffer)
//	leave a     start Channel.Leave on address a; parks before its final select
//	wait k      let call k enter its final select
//	cancel k    cancel the context of call k
//	race k      let call k enter its final select and cancel it at the same time
//	avail a / unavail a / err k / invite / msg / other   the service sends a stanza (v selects a variant,
//	            p the shape of a presence's muc#user payload, c the children of a message)
//	query a     call Joined() on the channel of address a
type Op struct {
	Op string `json:"op"`
	A  int    `json:"a,omitempty"`
	K  int    `json:"k,omitempty"`
	V  int    `json:"v,omitempty"`
	H  int    `json:"h,omitempty"` // join/leave/query: Channel number + 1 (0: the first Channel made for address a)
	P  int    `json:"p,omitempty"` // presence payload shape (payloads)
	C  string `json:"c,omitempty"` // children of a message (msg op), see childXML
}

type Case struct {
	Name string `json:"name,omitempty"`
	Ops  []Op   `json:"ops"`
}

// Label is one label of the model's transition system (coq/C18/Model.v).
type Label struct {
	T string   `json:"t"`
	K int      `json:"k,omitempty"`
	A int      `json:"a,omitempty"`
	O string   `json:"o,omitempty"` // outcome of a return / kind of a call / stanza kind
	B bool     `json:"b,omitempty"`
	H int      `json:"h,omitempty"` // Channel number (new, call, query)
	V int      `json:"v,omitempty"` // message variant (type attribute etc.)
	C []string `json:"c,omitempty"` // children of a delivered message: "i<n>" invite n, "u" muc#user x without invite, "f" x of another namespace, "o" other
}

const nAddr = 4

var addrs = [nAddr]string{
	"room1@muc.example/nick",
	"room2@muc.example/nick",
	"room1@muc.example/other",
	"room3@muc.example/ghost",
}

const me = "me@example.net/r"

var errConds = []string{"conflict", "forbidden", "registration-required", "not-allowed", "service-unavailable"}

// watchdog bounds every wait for something the library must do. It is generous
// because the machine may be heavily loaded; it is only ever exhausted when the
// library fails to do what it must (a passing run never waits for it). Once a
// world has exhausted it, that world is already failing and its later waits use
// shortdog so that a broken library does not cost minutes per case.
const watchdog = 10 * time.Second
const shortdog = 300 * time.Millisecond
const grace = 2 * time.Millisecond

type phase int

const (
	phStart   phase = iota // parked before the publish select
	phBlocked              // in the publish select, buffer full
	phParked               // published (or leave started), parked before the final select
	phSelect               // in the final select
	phRet
)

type callRec struct {
	k       int
	join    bool
	a       int // occupant address of its Channel
	h       int // its Channel
	ph      phase
	done    bool // context cancelled (or returned)
	replied bool // its sender consumed an error reply
	reqID   string
	act     *actor
	cancel  context.CancelFunc
	ret     chan error
	err     error
	outcome string
	errCond string // condition of the error reply sent for it
}

// chanRec is the driver's book-keeping for one muc.Channel object.
type chanRec struct {
	a   int // its occupant address
	obj *muc.Channel
	jq  []int
	dep bool
}

type world struct {
	pipe   *hx.Pipe
	sess   *xmpp.Session
	client *muc.Client
	serve  *actor
	sdone  chan error

	mu      sync.Mutex
	cbPres  []int
	cbInv   []int
	cbOther []string

	calls    []*callRec
	chs      []*chanRec // Channels in order of creation
	table    [nAddr]int // the Channel registered for an address (-1: none): last registration wins
	srv      string     // "idle" | "offer" | "await"
	srvK     int
	srvH     int // the Channel whose join buffer the presence handler works on
	sent     int // stanzas written to the session
	nreq     int // presences seen on the wire
	invSeq   int
	trace    []Label
	anomaly  []string
	usedAddr [nAddr]bool
	stuck    bool // a watchdog expired in this world
	died     bool // the Serve loop ended while handling a stanza
}

func newWorld() (*world, error) {
	w := &world{srv: "idle"}
	for a := range w.table {
		w.table[a] = -1
	}
	w.pipe = hx.NewPipe()
	local, remote := jid.MustParse(me), jid.MustParse("example.net")
	s, err := hx.NewReadySession(w.pipe.Sess, stanza.NSClient, 0, local, remote)
	if err != nil {
		return nil, err
	}
	w.sess = s
	w.client = &muc.Client{
		HandleInvite: func(i muc.Invitation) {
			w.mu.Lock()
			n := -1
			if _, err := fmt.Sscanf(i.Reason, "inv-%d", &n); err != nil {
				fmt.Sscanf(i.Password, "inv-%d", &n)
			}
			w.cbInv = append(w.cbInv, n)
			w.mu.Unlock()
		},
		HandleUserPresence: func(p stanza.Presence, _ muc.Item) {
			w.mu.Lock()
			a := -1
			for i, s := range addrs {
				if p.From.String() == s {
					a = i
				}
			}
			w.cbPres = append(w.cbPres, a)
			w.mu.Unlock()
		},
	}
	m := mux.New(stanza.NSClient, muc.HandleClient(w.client))
	w.serve = newActor("muc.presence.join.taken")
	w.sdone = make(chan error, 1)
	go func() {
		w.serve.enter()
		defer w.serve.leave()
		w.sdone <- s.Serve(m)
	}()
	if !waitFor(watchdog, func() bool { return w.serve.count("serve.iter") >= 1 }) {
		return nil, errors.New("serve did not start")
	}
	return w, nil
}

func (w *world) wd() time.Duration {
	if w.stuck {
		return shortdog
	}
	return watchdog
}

// waitFor waits for cond under the world's watchdog.
func (w *world) waitFor(cond func() bool) bool {
	if waitFor(w.wd(), cond) {
		return true
	}
	w.stuck = true
	return false
}

func (w *world) close() {
	w.serve.releaseAll()
	for _, c := range w.calls {
		c.cancel()
		c.act.releaseAll()
	}
	w.pipe.Close()
	waitFor(w.wd(), func() bool { return len(w.sdone) > 0 })
	for _, c := range w.calls {
		if c.ph != phRet {
			waitFor(w.wd(), func() bool { return len(c.ret) > 0 })
		}
	}
}

func (w *world) lab(l Label)    { w.trace = append(w.trace, l) }
func (w *world) anom(s string)  { w.anomaly = append(w.anomaly, s) }
func (w *world) iterDone() bool { return w.serve.count("serve.iter") >= w.sent+1 }
func (w *world) serveDead() bool {
	select {
	case err := <-w.sdone:
		w.sdone <- err
		return true
	default:
		return false
	}
}

// ---- calls ----

func classify(err error) string {
	switch {
	case err == nil:
		return "ok"
	case errors.Is(err, context.Canceled) || errors.Is(err, context.DeadlineExceeded):
		return "ctx"
	}
	var se stanza.Error
	if errors.As(err, &se) {
		return "stanza"
	}
	return "other"
}

func (w *world) inflight(h int) bool {
	for _, c := range w.calls {
		if c.h == h && c.ph != phRet {
			return true
		}
	}
	return false
}

// firstChan is the first Channel made for address a (-1 if none).
func (w *world) firstChan(a int) int {
	for i, ch := range w.chs {
		if ch.a == a {
			return i
		}
	}
	return -1
}

// resolve names the Channel an op is about: Channel h-1 if h > 0, else the first Channel of address a.
func (w *world) resolve(a, h int) int {
	if h > 0 {
		if h-1 < len(w.chs) {
			return h - 1
		}
		return -1
	}
	if a < 0 || a >= nAddr {
		return -1
	}
	return w.firstChan(a)
}

func (w *world) objOf(h int) *muc.Channel {
	w.mu.Lock()
	defer w.mu.Unlock()
	return w.chs[h].obj
}

// startJoin starts Client.Join for address a (fresh: a new Channel) or Channel.Join on a Channel.
func (w *world) startJoin(a, hsel int, forceNew bool) bool {
	if w.srv == "offer" {
		return false // the registration needs the lock the presence handler holds
	}
	h := -1
	if !forceNew {
		h = w.resolve(a, hsel)
		if hsel > 0 && h < 0 {
			return false
		}
	}
	fresh := h < 0
	var obj *muc.Channel
	if fresh {
		if a < 0 || a >= 3 {
			return false
		}
	} else {
		a = w.chs[h].a
		obj = w.objOf(h)
		if obj == nil || w.inflight(h) {
			return false
		}
	}
	ctx, cancel := context.WithCancel(context.Background())
	c := &callRec{k: len(w.calls), join: true, a: a, ph: phStart, cancel: cancel, ret: make(chan error, 1)}
	c.act = newActor("muc.join.push.before", "muc.join.wait.before")
	if fresh {
		h = len(w.chs)
		w.chs = append(w.chs, &chanRec{a: a})
		w.lab(Label{T: "new", H: h, A: a})
	}
	c.h = h
	rec := w.chs[h]
	w.calls = append(w.calls, c)
	go func() {
		c.act.enter()
		defer c.act.leave()
		var err error
		if p := hx.Catch(func() {
			if fresh {
				var o *muc.Channel
				o, err = w.client.Join(ctx, jid.MustParse(addrs[a]), w.sess)
				w.mu.Lock()
				rec.obj = o
				w.mu.Unlock()
			} else {
				err = obj.Join(ctx)
			}
		}); p != "" {
			err = fmt.Errorf("panic: %s", p)
		}
		c.ret <- err
	}()
	w.lab(Label{T: "call", K: c.k, H: h, A: a, O: "join"})
	w.table[a] = h
	if !w.waitFor(func() bool { return c.act.parkedAt() == "muc.join.push.before" }) {
		w.anom(fmt.Sprintf("call %d did not reach the publish point", c.k))
	}
	w.collect()
	return true
}

// awaitRequest waits until the request presence of call c is on the wire.
func (w *world) awaitRequest(c *callRec) {
	ok := w.waitFor(func() bool {
		els, _, _, _ := hx.ParseTopLevel(w.pipe.Written(), stanza.NSClient)
		n := 0
		for _, e := range els {
			if e.Local == "presence" {
				n++
				if n == w.nreq+1 {
					c.reqID, _ = e.Attr("id")
					to, _ := e.Attr("to")
					typ, _ := e.Attr("type")
					wantTyp := "unavailable"
					if c.join {
						wantTyp = ""
					}
					if to != addrs[c.a] || typ != wantTyp || c.reqID == "" {
						w.anom(fmt.Sprintf("wrong-request: call %d (join=%v, %s) sent <presence to=%q type=%q id=%q>", c.k, c.join, addrs[c.a], to, typ, c.reqID))
					}
					return true
				}
			}
		}
		return false
	})
	if ok {
		w.nreq++
	} else {
		w.anom(fmt.Sprintf("request of call %d not seen on the wire", c.k))
	}
}

func (w *world) push(k int) bool {
	if k >= len(w.calls) || w.calls[k].ph != phStart {
		return false
	}
	c := w.calls[k]
	ch := w.chs[c.h]
	c.act.release()
	if c.done {
		// select between a ready send (if the buffer has room) and a done context
		w.waitFor(func() bool {
			return c.act.parkedAt() == "muc.join.wait.before" || len(c.ret) > 0
		})
		if len(c.ret) > 0 {
			w.collect()
			return true
		}
	}
	if len(ch.jq) == 0 {
		if !w.waitFor(func() bool { return c.act.parkedAt() == "muc.join.wait.before" }) {
			w.anom(fmt.Sprintf("call %d did not publish its join context", k))
			w.collect()
			return true
		}
		ch.jq = append(ch.jq, k)
		w.lab(Label{T: "push", K: k})
		w.lab(Label{T: "pushed", K: k})
		c.ph = phParked
		w.awaitRequest(c)
	} else {
		// buffer holds a stale context: the publish blocks
		time.Sleep(grace)
		if c.act.parkedAt() == "muc.join.wait.before" {
			w.anom(fmt.Sprintf("call %d published into a full buffer", k))
		}
		ch.jq = append(ch.jq, k)
		w.lab(Label{T: "push", K: k})
		c.ph = phBlocked
		if c.done {
			w.expectReturn(c)
		}
	}
	w.collect()
	return true
}

func (w *world) startLeave(a, hsel int) bool {
	h := w.resolve(a, hsel)
	if h < 0 {
		return false
	}
	ch := w.chs[h]
	a = ch.a
	obj := w.objOf(h)
	if obj == nil || w.inflight(h) {
		return false
	}
	ctx, cancel := context.WithCancel(context.Background())
	c := &callRec{k: len(w.calls), join: false, a: a, h: h, ph: phParked, cancel: cancel, ret: make(chan error, 1)}
	c.act = newActor("muc.leave.wait.before")
	w.calls = append(w.calls, c)
	go func() {
		c.act.enter()
		defer c.act.leave()
		var err error
		if p := hx.Catch(func() { err = obj.Leave(ctx, "") }); p != "" {
			err = fmt.Errorf("panic: %s", p)
		}
		c.ret <- err
	}()
	w.lab(Label{T: "call", K: c.k, H: h, A: a, O: "leave"})
	ch.dep = false
	if !w.waitFor(func() bool { return c.act.parkedAt() == "muc.leave.wait.before" }) {
		w.anom(fmt.Sprintf("leave call %d did not reach its wait point", c.k))
	}
	w.awaitRequest(c)
	w.collect()
	return true
}

// noteReturn records the return of c (err already received).
func (w *world) noteReturn(c *callRec, err error) {
	c.err, c.outcome, c.ph, c.done = err, classify(err), phRet, true
	o := c.outcome
	switch o {
	case "ok":
		w.lab(Label{T: "ret", K: c.k, O: "success"})
		if c.join {
			// the hand-over came from the presence handler
		} else {
			w.chs[c.h].dep = false
		}
	case "stanza":
		w.lab(Label{T: "ret", K: c.k, O: "stanzaerr"})
	case "ctx":
		w.lab(Label{T: "ret", K: c.k, O: "ctxerr"})
		ch := w.chs[c.h]
		for i := 1; i < len(ch.jq); i++ { // a blocked publisher withdraws
			if ch.jq[i] == c.k {
				ch.jq = append(ch.jq[:i:i], ch.jq[i+1:]...)
				break
			}
		}
	default:
		w.lab(Label{T: "ret", K: c.k, O: "other"})
		w.anom(fmt.Sprintf("call %d returned an unexpected error: %v", c.k, err))
	}
}

// expectReturn waits for c to return and records it; false on the watchdog.
func (w *world) expectReturn(c *callRec) bool {
	if c.ph == phRet {
		return true
	}
	return w.waitFor(func() bool {
		select {
		case err := <-c.ret:
			w.noteReturn(c, err)
			return true
		default:
			return false
		}
	})
}

// collect records returns that have happened.
func (w *world) collect() {
	for _, c := range w.calls {
		if c.ph != phRet {
			select {
			case err := <-c.ret:
				w.noteReturn(c, err)
			default:
			}
		}
	}
}

// reason says what (if anything) call c can return with right now, by the driver's book-keeping.
func (w *world) ready(c *callRec) bool {
	if c.done {
		return true
	}
	if w.srv == "offer" && w.srvK == c.k || w.srv == "await" && w.srvK == c.k {
		return true
	}
	return !c.join && w.chs[c.h].dep
}

func (w *world) wait(k int) bool {
	if k >= len(w.calls) || w.calls[k].ph != phParked {
		return false
	}
	c := w.calls[k]
	rdy := w.ready(c)
	c.ph = phSelect
	w.lab(Label{T: "release", K: k})
	c.act.release()
	if rdy {
		w.afterReadyRelease(c)
	}
	w.collect()
	return true
}

// afterReadyRelease: c entered its select with something ready.
func (w *world) afterReadyRelease(c *callRec) {
	if !w.expectReturn(c) {
		return
	}
	w.afterReturn(c)
}

// afterReturn propagates the consequences of c's return to the Serve goroutine.
func (w *world) afterReturn(c *callRec) {
	if w.srv == "offer" && w.srvK == c.k {
		if c.outcome == "ok" {
			w.srv = "idle"
			w.finishIter()
		} else {
			w.handlerMovesOn()
		}
	} else if w.srv == "await" && w.srvK == c.k {
		if c.outcome != "stanza" {
			w.lab(Label{T: "senderquit", K: c.k})
		}
		w.srv = "idle"
		w.finishIter()
	}
}

func (w *world) finishIter() {
	if !w.waitFor(func() bool { return w.iterDone() || w.serveDead() }) {
		w.anom("the serve loop did not finish handling a stanza")
		return
	}
	if !w.iterDone() && w.serveDead() {
		w.died = true
	}
}

func (w *world) cancelCall(k int) bool {
	if k >= len(w.calls) || w.calls[k].ph == phRet || w.calls[k].done {
		return false
	}
	c := w.calls[k]
	c.cancel()
	c.done = true
	w.lab(Label{T: "cancel", K: k})
	if c.ph == phSelect || c.ph == phBlocked {
		w.expectReturn(c)
	}
	if w.srv == "offer" && w.srvK == k {
		w.handlerMovesOn()
	} else if w.srv == "await" && w.srvK == k {
		w.lab(Label{T: "senderquit", K: k})
		w.srv = "idle"
		w.finishIter()
	}
	w.collect()
	return true
}

// race releases a parked call into its select while cancelling it.
func (w *world) race(k int) bool {
	if k >= len(w.calls) || w.calls[k].ph != phParked || w.calls[k].done {
		return false
	}
	c := w.calls[k]
	c.ph = phSelect
	w.lab(Label{T: "cancel", K: k})
	w.lab(Label{T: "release", K: k})
	var wg sync.WaitGroup
	wg.Add(2)
	go func() { defer wg.Done(); c.act.release() }()
	go func() { defer wg.Done(); c.cancel() }()
	wg.Wait()
	c.done = true
	if w.expectReturn(c) {
		w.afterReturn(c)
	}
	w.collect()
	return true
}

// ---- the service ----

func (w *world) sendRaw(s string) bool {
	var err error
	if !within(w.wd(), func() { _, err = w.pipe.Peer.Write([]byte(s)) }) {
		w.stuck = true
		w.anom("write to the session failed: the session stopped reading")
		return false
	}
	if err != nil {
		w.anom("write to the session failed: " + err.Error())
		return false
	}
	w.sent++
	return true
}

// payloads are the contents of the muc#user x of a presence. The first nGood
// decode into the library's presence type (whatever they lack or carry in
// excess), the rest do not: unknown role or affiliation values, malformed jids,
// a status code that is not a number.
var payloads = []string{
	`<item affiliation="member" role="participant"/>`,
	``,
	`<item/>`,
	`<item affiliation="owner" role="moderator" jid="a@b.example/c" nick="n"><reason>r</reason><actor nick="z"/></item>`,
	`text<item affiliation="none" role="none">more text</item>tail`,
	`<item affiliation="admin" role="visitor"/><item affiliation="outcast" role="none"/><status code="210"/><unknown xmlns="urn:x"><deep/></unknown>`,
	`<item affiliation="member"/>`,
	`<status/><item role="moderator"/>`,
	// undecodable
	`<item role="bot" affiliation="none"/>`,
	`<item affiliation="superuser" role="participant"/>`,
	`<item affiliation="member" role=""/>`,
	`<item affiliation="member" role="participant" jid="@example.net"/>`,
	`<item affiliation="member" role="participant"/><status code="abc"/>`,
	`<item affiliation="" role="participant"/>`,
	`<item affiliation="member" role="participant" jid="a@b/"/>`,
	`<item affiliation="Member" role="participant"/>`,
}

const nGood = 8

func badPayload(p int) bool { return p%len(payloads) >= nGood }

func presenceShapeXML(a int, typ string, v int, id string, p int) string {
	var sb strings.Builder
	sb.WriteString(`<presence from="` + addrs[a] + `" to="` + me + `"`)
	if typ != "" {
		sb.WriteString(` type="` + typ + `"`)
	}
	if v&1 == 1 && id != "" {
		sb.WriteString(` id="` + id + `"`)
	}
	sb.WriteString(`>`)
	if v&4 == 4 {
		sb.WriteString(`<priority>1</priority>`)
	}
	if v&8 == 8 {
		// the x elements of other namespaces that presences commonly carry
		sb.WriteString(`<x xmlns="vcard-temp:x:update"><photo>abc</photo></x>`)
	}
	sb.WriteString(`<x xmlns="http://jabber.org/protocol/muc#user">` + payloads[p%len(payloads)])
	if v&2 == 2 {
		sb.WriteString(`<status code="110"/>`)
	}
	sb.WriteString(`</x>`)
	if v&16 == 16 {
		// (no x element AFTER the payload: HandlePresence decodes into a field tagged
		// `x` without a name space, the last x wins, and the user presence callback is
		// then skipped: a quirk outside the property that the model does not have)
		sb.WriteString(`<c xmlns="http://jabber.org/protocol/caps" hash="sha-1" node="n" ver="v"/><delay xmlns="urn:xmpp:delay" stamp="2002-09-10T23:08:25Z"/>`)
	}
	sb.WriteString(`</presence>`)
	return sb.String()
}

// deliverBad: a presence whose muc#user payload does not decode.
func (w *world) deliverBad(a int, typ string, v, p int) bool {
	if w.srv != "idle" {
		return false
	}
	w.lab(Label{T: "deliver", O: "bad", A: a})
	if !w.sendRaw(presenceShapeXML(a, typ, v, w.lastReq(a), p)) {
		return true
	}
	w.finishIter()
	w.collect()
	return true
}

func presenceXML(a int, typ string, v int, id string) string {
	var sb strings.Builder
	sb.WriteString(`<presence from="` + addrs[a] + `" to="` + me + `"`)
	if typ != "" {
		sb.WriteString(` type="` + typ + `"`)
	}
	if v&1 == 1 && id != "" {
		sb.WriteString(` id="` + id + `"`)
	}
	sb.WriteString(`>`)
	if v&4 == 4 {
		sb.WriteString(`<priority>1</priority>`)
	}
	sb.WriteString(`<x xmlns="http://jabber.org/protocol/muc#user"><item affiliation="member" role="participant"/>`)
	if v&2 == 2 {
		sb.WriteString(`<status code="110"/>`)
	}
	sb.WriteString(`</x></presence>`)
	return sb.String()
}

// lastReq returns the id of the latest request sent for address a ("" if none).
func (w *world) lastReq(a int) string {
	for i := len(w.calls) - 1; i >= 0; i-- {
		if w.calls[i].a == a && w.calls[i].reqID != "" {
			return w.calls[i].reqID
		}
	}
	return ""
}

func (w *world) deliverAvail(a, v, p int) bool {
	if w.srv != "idle" {
		return false
	}
	if badPayload(p) {
		return w.deliverBad(a, "", v, p)
	}
	w.lab(Label{T: "deliver", O: "avail", A: a})
	if !w.sendRaw(presenceShapeXML(a, "", v, w.lastReq(a), p)) {
		return true
	}
	h := w.table[a]
	if h < 0 || len(w.chs[h].jq) == 0 {
		w.finishIter()
		w.collect()
		return true
	}
	w.srvH = h
	w.handlerTakes()
	w.collect()
	return true
}

// handlerTakes: the presence handler, having found Channel srvH in the table, is about to take the head of its join buffer.
func (w *world) handlerTakes() {
	ch := w.chs[w.srvH]
	for {
		if len(ch.jq) == 0 {
			// falls through to the user presence callback
			w.srv = "idle"
			w.finishIter()
			return
		}
		if !w.waitFor(func() bool { return w.serve.parkedAt() == "muc.presence.join.taken" || w.iterDone() }) || w.iterDone() {
			w.anom("the presence handler did not take the pending join context")
			w.srv = "idle"
			return
		}
		k := ch.jq[0]
		ch.jq = ch.jq[1:]
		w.srv, w.srvK = "offer", k
		// a publisher blocked on the full buffer gets through now
		if len(ch.jq) > 0 {
			p := w.calls[ch.jq[0]]
			if p.ph == phBlocked {
				if w.waitFor(func() bool { return p.act.parkedAt() == "muc.join.wait.before" }) {
					w.lab(Label{T: "pushed", K: p.k})
					p.ph = phParked
					w.awaitRequest(p)
				} else {
					w.anom(fmt.Sprintf("blocked call %d did not get through", p.k))
				}
			}
		}
		w.serve.release()
		c := w.calls[k]
		switch {
		case c.done:
			w.lab(Label{T: "seedone"})
			continue
		case c.ph == phSelect:
			if w.expectReturn(c) {
				w.srv = "idle"
				w.finishIter()
			}
			return
		default:
			time.Sleep(grace)
			if w.iterDone() || w.serve.parkedAt() != "" {
				w.anom("the presence handler did not wait for the joining call")
			}
			return
		}
	}
}

// handlerMovesOn: the context the handler was offering to is done.
func (w *world) handlerMovesOn() {
	w.lab(Label{T: "seedone"})
	w.handlerTakes()
}

func (w *world) deliverUnavail(a, v, p int) bool {
	if w.srv != "idle" {
		return false
	}
	if badPayload(p) {
		return w.deliverBad(a, "unavailable", v, p)
	}
	w.lab(Label{T: "deliver", O: "unavail", A: a})
	if !w.sendRaw(presenceShapeXML(a, "unavailable", v, w.lastReq(a), p)) {
		return true
	}
	w.finishIter()
	if h := w.table[a]; h >= 0 {
		w.table[a] = -1
		w.chs[h].dep = true
		for _, c := range w.calls {
			if !c.join && c.h == h && c.ph == phSelect {
				w.expectReturn(c)
			}
		}
	}
	w.collect()
	return true
}

func (w *world) deliverErr(k, v int) bool {
	if w.srv != "idle" || k >= len(w.calls) || w.calls[k].reqID == "" {
		return false
	}
	c := w.calls[k]
	cond := errConds[v%len(errConds)]
	w.lab(Label{T: "deliver", O: "err", K: k})
	eff := (c.ph == phParked || c.ph == phSelect) && !c.done && !c.replied
	before := w.serve.count("serve.awaitclose.before")
	s := `<presence from="` + addrs[c.a] + `" to="` + me + `" type="error" id="` + c.reqID + `">` +
		`<x xmlns="http://jabber.org/protocol/muc"/><error type="cancel"><` + cond +
		` xmlns="urn:ietf:params:xml:ns:xmpp-stanzas"/></error></presence>`
	if !w.sendRaw(s) {
		return true
	}
	if !eff {
		w.finishIter()
		w.collect()
		return true
	}
	c.replied, c.errCond = true, cond
	w.srv, w.srvK = "await", k
	if c.ph == phSelect {
		if w.expectReturn(c) {
			w.srv = "idle"
			w.finishIter()
		}
	} else if !w.waitFor(func() bool { return w.serve.count("serve.awaitclose.before") > before }) {
		w.anom("the error reply was not handed to the waiting request")
		w.srv = "idle"
	}
	w.collect()
	return true
}

// childXML renders one child of a normal message. Letters of a msg op:
//
//	i  muc#user x with an invite (the next invitation number; identified by its reason, or by
//	   its password when the variant has v&8)
//	d  muc#user x with a declined invitation     s  muc#user x with a status code
//	c  legacy jabber:x:conference x (XEP-0045 7.8.2)   y  jabber:x:delay x   f  jabber:x:data x
//	m  x of the muc namespace (not muc#user)     b  body    t  thread
//	q  an element of the muc#user namespace that is not x
func (w *world) childXML(ch byte, v int, lab *[]string) string {
	switch ch {
	case 'i':
		i := w.invSeq
		w.invSeq++
		*lab = append(*lab, fmt.Sprintf("i%d", i))
		id := fmt.Sprintf("inv-%d", i)
		reason, extra := `<reason>`+id+`</reason>`, ""
		if v&2 == 2 {
			extra = `<password>pw</password>`
		}
		if v&8 == 8 {
			reason, extra = `<continue thread="t1"/>`, `<password>`+id+`</password>`
		}
		return `<x xmlns="http://jabber.org/protocol/muc#user"><invite from="inviter@example.org/x">` + reason + `</invite>` + extra + `</x>`
	case 'd':
		*lab = append(*lab, "u")
		return `<x xmlns="http://jabber.org/protocol/muc#user"><decline from="a@b.example"><reason>no</reason></decline></x>`
	case 's':
		*lab = append(*lab, "u")
		return `<x xmlns="http://jabber.org/protocol/muc#user"><status code="104"/></x>`
	case 'c':
		*lab = append(*lab, "f")
		return `<x xmlns="jabber:x:conference" jid="room1@muc.example" reason="inv-77"/>`
	case 'y':
		*lab = append(*lab, "f")
		return `<x xmlns="jabber:x:delay" stamp="20020910T23:08:25" from="room1@muc.example"/>`
	case 'f':
		*lab = append(*lab, "f")
		return `<x xmlns="jabber:x:data" type="form"><title>t</title></x>`
	case 'm':
		*lab = append(*lab, "f")
		return `<x xmlns="http://jabber.org/protocol/muc"><password>inv-78</password></x>`
	case 't':
		*lab = append(*lab, "o")
		return `<thread>t1</thread>`
	case 'q':
		// an element of the muc#user namespace that is not the x payload
		*lab = append(*lab, "o")
		return `<note xmlns="http://jabber.org/protocol/muc#user">inv-79</note>`
	default:
		*lab = append(*lab, "o")
		return `<body>You have been invited</body>`
	}
}

// deliverMsg: a normal message (no type attribute if v&1) with the children c.
func (w *world) deliverMsg(c string, v int) bool {
	if w.srv != "idle" {
		return false
	}
	typ := ` type="normal"`
	if v&1 == 1 {
		typ = ""
	}
	var lab []string
	var sb strings.Builder
	sb.WriteString(`<message from="room1@muc.example" to="` + me + `"` + typ + `>`)
	for i := 0; i < len(c); i++ {
		sb.WriteString(w.childXML(c[i], v, &lab))
	}
	sb.WriteString(`</message>`)
	w.lab(Label{T: "deliver", O: "msg", V: v, C: lab})
	if w.sendRaw(sb.String()) {
		w.finishIter()
	}
	w.collect()
	return true
}

// deliverInvite: the plain invitation (optionally after a body).
func (w *world) deliverInvite(v int) bool {
	if v&4 == 4 {
		return w.deliverMsg("bi", v)
	}
	return w.deliverMsg("i", v)
}

var others = []string{
	`<message from="room1@muc.example/nick" to="` + me + `" type="groupchat"><body>hi</body></message>`,
	`<presence from="room1@muc.example/nick" to="` + me + `"><show>away</show></presence>`,
	`<presence from="friend@example.org/x" to="` + me + `"/>`,
	`<iq from="room1@muc.example" to="` + me + `" type="result" id="nope"/>`,
	`<presence from="room2@muc.example/nick" to="` + me + `" type="error" id="unknown-id"><error type="cancel"><conflict xmlns="urn:ietf:params:xml:ns:xmpp-stanzas"/></error></presence>`,
	`<message from="room2@muc.example" to="` + me + `" type="normal"><x xmlns="jabber:x:conference" jid="room2@muc.example"/></message>`,
	`<presence from="room1@muc.example/nick" to="` + me + `" type="unavailable"/>`,
	`<message from="room1@muc.example/nick" to="` + me + `" type="chat"><x xmlns="http://jabber.org/protocol/muc#user"><invite from="a@b"><reason>inv-99</reason></invite></x></message>`,
	// muc#user payloads of normal messages that are not invitations
	`<message from="room1@muc.example" to="` + me + `" type="normal"><x xmlns="http://jabber.org/protocol/muc#user"><decline from="a@b"><reason>no</reason></decline></x></message>`,
	`<message from="room1@muc.example" to="` + me + `"><x xmlns="http://jabber.org/protocol/muc#user"><status code="104"/></x></message>`,
	// error presences from rooms that were never joined, with muc#user payloads
	`<presence from="room3@muc.example/ghost" to="` + me + `" type="error" id="none-1"><x xmlns="http://jabber.org/protocol/muc#user"><item role="bot"/></x><error type="cancel"><conflict xmlns="urn:ietf:params:xml:ns:xmpp-stanzas"/></error></presence>`,
	`<presence from="room3@muc.example/ghost" to="` + me + `" type="error"><x xmlns="http://jabber.org/protocol/muc#user"><item affiliation="member" role="participant"/></x><error type="auth"><forbidden xmlns="urn:ietf:params:xml:ns:xmpp-stanzas"/></error></presence>`,
	`<presence from="room3@muc.example/ghost" to="` + me + `" type="subscribe"><x xmlns="http://jabber.org/protocol/muc#user"><item affiliation="superuser"/></x></presence>`,
}

func (w *world) deliverOther(v int) bool {
	if w.srv != "idle" {
		return false
	}
	w.lab(Label{T: "deliver", O: "other"})
	if w.sendRaw(others[v%len(others)]) {
		w.finishIter()
	}
	w.collect()
	return true
}

func (w *world) query(a, hsel int) bool {
	h := w.resolve(a, hsel)
	if h < 0 || w.srv == "offer" {
		return false
	}
	obj := w.objOf(h)
	if obj == nil {
		return false
	}
	var b bool
	if !within(watchdog, func() { b = obj.Joined() }) {
		w.anom("Joined() blocked")
		return true
	}
	w.lab(Label{T: "query", H: h, A: w.chs[h].a, B: b})
	return true
}

// apply performs one op; false if the op is not applicable in the current state (skipped).
func (w *world) apply(o Op) bool {
	switch o.Op {
	case "join":
		return w.startJoin(o.A, o.H, false)
	case "cjoin":
		return w.startJoin(o.A, 0, true)
	case "push":
		return w.push(o.K)
	case "leave":
		return w.startLeave(o.A, o.H)
	case "wait":
		return w.wait(o.K)
	case "cancel":
		return w.cancelCall(o.K)
	case "race":
		return w.race(o.K)
	case "avail":
		return w.deliverAvail(o.A, o.V, o.P)
	case "unavail":
		return w.deliverUnavail(o.A, o.V, o.P)
	case "err":
		return w.deliverErr(o.K, o.V)
	case "invite":
		return w.deliverInvite(o.V)
	case "msg":
		return w.deliverMsg(o.C, o.V)
	case "other":
		return w.deliverOther(o.V)
	case "query":
		return w.query(o.A, o.H)
	}
	return false
}

// finish drives every call to its return: calls are released into their
// selects, whatever is ready is taken, and what remains is cancelled.
func (w *world) finish() {
	if w.died {
		return
	}
	for round := 0; round < 3; round++ {
		for _, c := range w.calls {
			switch c.ph {
			case phStart:
				w.push(c.k)
			}
		}
		for _, c := range w.calls {
			if c.ph == phParked {
				w.wait(c.k)
			}
		}
	}
	for _, c := range w.calls {
		if c.ph != phRet && !c.done {
			w.cancelCall(c.k)
		}
	}
	for _, c := range w.calls {
		if c.ph == phStart {
			w.push(c.k)
		}
		if c.ph == phParked {
			w.wait(c.k)
		}
	}
	for _, c := range w.calls {
		if c.ph != phRet {
			w.expectReturn(c)
		}
	}
	for h := range w.chs {
		w.query(0, h+1)
	}
}
