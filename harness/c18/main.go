// Harness for property C18: MUC membership follows the room's presence exactly.
//
// A muc.Client is driven on a served session (in-memory pipe, no negotiation)
// against a scripted MUC service. Every case is a forced schedule: calls are
// parked at the library's `verif` yield points and released one at a time, the
// service's stanzas are written between those releases, and the harness records
// the label sequence of the model's transition system together with every
// observed return value, Joined() result and callback invocation. The label
// sequence is replayed through the Coq model (coq/C18/Model.v, case_ok); the
// implementation oracle (oracle.go) states the property on the same history.
package main

import (
	"encoding/json"
	"errors"
	"fmt"
	"os"
	"os/exec"
	"path/filepath"
	"strconv"
	"strings"
	"sync"
	"sync/atomic"

	"mellium.im/xmpp"
	"mellium.im/xmpp/jid"
	"mellium.im/xmpp/stanza"
	"verifharness/hx"
)

type outcome struct {
	Case     Case      `json:"case"`
	Trace    []Label   `json:"trace"`
	CbPres   []int     `json:"cb_pres"`
	CbInv    []int     `json:"cb_inv"`
	Anomaly  []string  `json:"anomalies,omitempty"`
	Verdicts []verdict `json:"verdicts,omitempty"`
}

// stuckWorlds counts the worlds in which a watchdog expired (the library did not
// do something it must). Random generation stops early once there are many: the
// run has its failing cases and every further one costs a watchdog.
var stuckWorlds atomic.Int32

// drive runs ops on a fresh world. next, if not nil, supplies further ops
// on line (random generation against the live state).
func drive(c Case, next func(w *world, step int) (Op, bool)) outcome {
	w, err := newWorld()
	if err != nil {
		return outcome{Case: c, Anomaly: []string{"setup: " + err.Error()}}
	}
	var applied []Op
	do := func(o Op) {
		if w.serveDead() {
			return
		}
		if w.apply(o) {
			applied = append(applied, o)
		}
	}
	for _, o := range c.Ops {
		do(o)
	}
	if next != nil {
		for i := 0; ; i++ {
			o, ok := next(w, i)
			if !ok {
				break
			}
			do(o)
		}
	}
	w.finish()
	if w.stuck {
		stuckWorlds.Add(1)
	}
	died := w.died
	if w.serveDead() && !died {
		w.anom("the serve loop ended: a handler returned an error or the stream broke")
	}
	// returned values beyond their class
	for _, cl := range w.calls {
		if cl.outcome == "stanza" {
			var se stanza.Error
			if errors.As(cl.err, &se) && string(se.Condition) != cl.errCond {
				w.anom(fmt.Sprintf("wrong-stanza-error: call %d returned condition %q, the room sent %q", cl.k, se.Condition, cl.errCond))
			}
		}
		if cl.outcome == "ok" && cl.join {
			obj := w.objOf(cl.h)
			if obj == nil || !obj.Me().Equal(jid.MustParse(addrs[cl.a])) || !obj.Addr().Equal(jid.MustParse(addrs[cl.a]).Bare()) {
				w.anom(fmt.Sprintf("wrong-address: call %d joined %s but the channel reports another address", cl.k, addrs[cl.a]))
			}
		}
	}
	w.mu.Lock()
	o := outcome{Case: Case{Name: c.Name, Ops: applied}, Trace: w.trace, CbPres: append([]int{}, w.cbPres...), CbInv: append([]int{}, w.cbInv...), Anomaly: w.anomaly}
	w.mu.Unlock()
	w.close()
	o.Verdicts = runOracle(o.Trace, o.CbPres, o.CbInv, died)
	if len(o.Verdicts) == 0 {
		for _, a := range o.Anomaly {
			key := "C18/driver/anomaly"
			switch {
			case strings.HasPrefix(a, "wrong-stanza-error"):
				key = "C18/join/wrong-stanza-error"
			case strings.HasPrefix(a, "wrong-request"):
				key = "C18/request/wrong-presence"
			case strings.HasPrefix(a, "wrong-address"):
				key = "C18/join/wrong-address"
			case strings.HasPrefix(a, "the serve loop ended"):
				key = "C18/serve/ended"
			case strings.Contains(a, "panic"):
				key = "C18/panic"
			}
			o.Verdicts = append(o.Verdicts, verdict{key, a})
		}
	}
	return o
}

// ---- Coq emission ----

func coqLabel(l Label) (string, bool) {
	n := hx.CoqNat
	switch l.T {
	case "new":
		return fmt.Sprintf("LNew %s %s", n(l.H), n(l.A)), true
	case "call":
		kd := "KLeave"
		if l.O == "join" {
			kd = "KJoin"
		}
		return fmt.Sprintf("LCall %s %s %s", n(l.K), kd, n(l.H)), true
	case "push":
		return "LPush " + n(l.K), true
	case "pushed":
		return "LPushed " + n(l.K), true
	case "ret":
		o := map[string]string{"success": "OSuccess", "stanzaerr": "OStanzaErr", "ctxerr": "OCtxErr"}[l.O]
		if o == "" {
			o = "OOther"
		}
		return fmt.Sprintf("LRet %s %s", n(l.K), o), true
	case "cancel":
		return "LCancel " + n(l.K), true
	case "seedone":
		return "LSeeDone", true
	case "senderquit":
		return "LSenderQuit " + n(l.K), true
	case "query":
		return fmt.Sprintf("LQuery %s %s", n(l.H), hx.CoqBool(l.B)), true
	case "deliver":
		switch l.O {
		case "avail":
			return "LDeliver (PresAvail " + n(l.A) + ")", true
		case "unavail":
			return "LDeliver (PresUnavail " + n(l.A) + ")", true
		case "err":
			return "LDeliver (ErrReply " + n(l.K) + ")", true
		case "bad":
			return "LDeliver (PresBad " + n(l.A) + ")", true
		case "msg":
			var cs []string
			for _, c := range l.C {
				switch {
				case strings.HasPrefix(c, "i"):
					k, _ := strconv.Atoi(c[1:])
					cs = append(cs, "CInvite "+n(k))
				case c == "u":
					cs = append(cs, "CUserX")
				case c == "f":
					cs = append(cs, "CForeignX")
				default:
					cs = append(cs, "COther")
				}
			}
			return "LDeliver (Msg [" + strings.Join(cs, "; ") + "])", true
		default:
			return "LDeliver Other", true
		}
	}
	return "", false
}

func coqNats(xs []int) string {
	var p []string
	for _, x := range xs {
		if x < 0 {
			x = 99
		}
		p = append(p, hx.CoqNat(x))
	}
	return "[" + strings.Join(p, ";") + "]"
}

func coqCase(o outcome) string {
	var ls []string
	for _, l := range o.Trace {
		if s, ok := coqLabel(l); ok {
			ls = append(ls, s)
		}
	}
	return fmt.Sprintf("mkcase [%s] %s %s", strings.Join(ls, "; "), coqNats(o.CbPres), coqNats(o.CbInv))
}

// ---- corpus: the shapes named by the property and the witnesses of the defects found ----

func corpus() []Case {
	j := func(a int) Op { return Op{Op: "join", A: a} }
	p := func(k int) Op { return Op{Op: "push", K: k} }
	wt := func(k int) Op { return Op{Op: "wait", K: k} }
	av := func(a, v int) Op { return Op{Op: "avail", A: a, V: v} }
	un := func(a, v int) Op { return Op{Op: "unavail", A: a, V: v} }
	er := func(k, v int) Op { return Op{Op: "err", K: k, V: v} }
	q := func(a int) Op { return Op{Op: "query", A: a} }
	lv := func(a int) Op { return Op{Op: "leave", A: a} }
	cn := func(k int) Op { return Op{Op: "cancel", K: k} }
	avp := func(a, v, p int) Op { return Op{Op: "avail", A: a, V: v, P: p} }
	unp := func(a, v, p int) Op { return Op{Op: "unavail", A: a, V: v, P: p} }
	msg := func(c string, v int) Op { return Op{Op: "msg", C: c, V: v} }
	ot := func(v int) Op { return Op{Op: "other", V: v} }
	cj := func(a int) Op { return Op{Op: "cjoin", A: a} }
	jh := func(h int) Op { return Op{Op: "join", H: h + 1} }
	lh := func(h int) Op { return Op{Op: "leave", H: h + 1} }
	qh := func(h int) Op { return Op{Op: "query", H: h + 1} }
	// presences with every payload shape from addresses that were never joined,
	// then a join that must still work
	var strangers, oddJoined []Op
	for p := 0; p < len(payloads); p++ {
		strangers = append(strangers, avp(3, p%8, p), unp(3, (p+3)%8, p), avp(1, 2, p))
		if !badPayload(p) {
			oddJoined = append(oddJoined, avp(0, p%8, p))
		}
	}
	strangers = append(strangers, ot(10), ot(11), ot(12), j(0), p(0), wt(0), avp(3, 2, 9), av(0, 2), q(0), unp(3, 2, 12), lv(0), wt(1), un(0, 2), q(0))
	// Channel 0 joined for address 0 (call 0)
	joined0 := []Op{j(0), p(0), wt(0), av(0, 2), q(0)}
	with := func(ops ...Op) []Op { return append(append([]Op{}, joined0...), ops...) }
	return []Case{
		// several Channels for one occupant address: a second Client.Join (Channel 1, call 1) that is
		// given up / refused / answered, then operations on the first Channel
		{"second-join-cancelled-then-resync", with(cj(0), p(1), wt(1), cn(1), qh(0), qh(1), jh(0), p(2), wt(2), av(0, 2), qh(0), lh(0), wt(3), un(0, 2), qh(0), qh(1))},
		{"second-join-cancelled-before-publish-then-resync", with(cj(0), cn(1), p(1), jh(0), p(2), av(0, 2), wt(2), qh(0))},
		{"second-join-refused-then-resync", with(cj(0), p(1), wt(1), er(1, 0), qh(0), jh(0), p(2), wt(2), av(0, 3), qh(0), qh(1))},
		{"second-join-refused-then-leave-first", with(cj(0), p(1), wt(1), er(1, 1), lh(0), wt(2), un(0, 2), qh(0), cn(2))},
		{"second-join-succeeds-then-resync-first", with(cj(0), p(1), wt(1), av(0, 2), qh(0), qh(1), jh(0), p(2), wt(2), av(0, 2), qh(0), qh(1), un(0, 2), qh(0), qh(1))},
		{"second-join-succeeds-then-leave-second", with(cj(0), p(1), wt(1), av(0, 2), lh(1), wt(2), un(0, 2), qh(1), qh(0))},
		{"second-join-succeeds-then-leave-first", with(cj(0), p(1), wt(1), av(0, 2), lh(0), wt(2), un(0, 2), qh(1), qh(0), cn(2))},
		{"second-join-pending-presence-to-it", with(cj(0), p(1), wt(1), un(0, 2), qh(0), qh(1), av(0, 2), qh(1))},
		{"second-join-pending-first-resyncs", with(cj(0), p(1), wt(1), jh(0), p(2), wt(2), av(0, 2), qh(0), qh(1), cn(1), av(0, 0))},
		{"two-fresh-channels-one-address", []Op{j(0), cj(0), p(0), p(1), wt(0), wt(1), av(0, 2), qh(0), qh(1), av(0, 2), cn(0), qh(0)}},
		{"second-join-times-out-then-presence-then-resync", with(cj(0), p(1), wt(1), cn(1), av(0, 0), jh(0), p(2), wt(2), av(0, 2), qh(0), un(0, 0), qh(0), jh(1), p(3), wt(3), av(0, 2), qh(1), qh(0))},
		{"strangers-any-payload-then-join", strangers},
		{"joined-odd-payloads", append(append([]Op{j(0), p(0), wt(0), avp(0, 2, 1), q(0)}, oddJoined...), lv(0), wt(1), unp(0, 0, 4), q(0))},
		{"self-presence-odd-payloads", []Op{j(0), p(0), wt(0), avp(0, 0, 4), q(0), j(1), p(1), wt(1), avp(1, 4, 2), q(1), j(2), p(2), wt(2), avp(2, 1, 7), q(2), lv(1), wt(3), unp(1, 1, 1), q(1)}},
		{"presence-with-foreign-x", []Op{avp(3, 24, 0), j(0), p(0), wt(0), avp(0, 10, 0), q(0), avp(0, 26, 3), avp(0, 16, 1), lv(0), wt(1), unp(0, 27, 0), q(0), avp(0, 8, 0)}},
		{"joined-bad-payload", []Op{j(0), p(0), wt(0), av(0, 2), q(0), avp(0, 2, 8)}},
		{"pending-join-bad-payload", []Op{j(0), p(0), wt(0), avp(0, 2, 9)}},
		{"leaving-bad-payload", []Op{j(0), p(0), wt(0), av(0, 2), lv(0), wt(1), unp(0, 2, 13)}},
		{"left-room-bad-payload", []Op{j(0), p(0), wt(0), av(0, 2), lv(0), wt(1), un(0, 2), avp(0, 2, 8), unp(0, 0, 10), q(0), j(1), p(2), wt(2), av(1, 2), q(1)}},
		{"failed-join-bad-payload", []Op{j(0), p(0), wt(0), er(0, 0), q(0), avp(0, 2, 11)}},
		{"invites-with-extra-children", []Op{msg("ic", 0), msg("ci", 1), msg("yic", 2), msg("bift", 0), msg("im", 8), msg("tcyfmib", 3), msg("qi", 0), msg("iq", 1), msg("q", 0), msg("c", 0), msg("cy", 1), msg("", 0), msg("b", 0)}},
		{"declines-and-status", []Op{msg("i", 0), msg("d", 0), msg("s", 1), msg("dc", 0), msg("cs", 0), msg("i", 2), msg("bdt", 0)}},
		{"several-muc-user-payloads", []Op{msg("id", 0), msg("si", 0), msg("ii", 0), msg("dis", 1), msg("ds", 0), msg("icd", 0)}},
		{"join-then-joined", []Op{j(0), p(0), wt(0), av(0, 3), q(0)}},
		{"join-leave", []Op{j(0), p(0), wt(0), av(0, 3), q(0), lv(0), wt(1), un(0, 3), q(0)}},
		{"join-error", []Op{j(0), p(0), wt(0), er(0, 0), q(0)}},
		{"join-error-then-presence", []Op{j(0), p(0), wt(0), er(0, 1), q(0), av(0, 2), q(0)}},
		{"part-error", []Op{j(0), p(0), wt(0), av(0, 1), lv(0), wt(1), er(1, 3), q(0)}},
		{"join-precancelled", []Op{j(0), cn(0), p(0), q(0)}},
		{"join-cancel-waiting", []Op{j(0), p(0), wt(0), cn(0), q(0), av(0, 2), q(0)}},
		{"leave-notify-before-select", []Op{j(0), p(0), wt(0), av(0, 2), lv(0), un(0, 2), wt(1), q(0)}},
		{"rejoin-after-leave", []Op{j(0), p(0), wt(0), av(0, 2), lv(0), wt(1), un(0, 2), j(0), p(2), wt(2), av(0, 2), q(0)}},
		{"rejoin-after-error", []Op{j(0), p(0), wt(0), er(0, 0), j(0), p(1), av(0, 2), wt(1), q(0)}},
		{"rejoin-while-joined", []Op{j(0), p(0), wt(0), av(0, 2), j(0), p(1), wt(1), q(0), av(0, 2), q(0)}},
		{"presence-before-publish", []Op{j(0), av(0, 2), p(0), wt(0), q(0), av(0, 2), q(0)}},
		{"offer-before-select", []Op{j(0), p(0), av(0, 2), wt(0), q(0)}},
		{"offer-then-cancel", []Op{j(0), p(0), av(0, 2), cn(0), wt(0), q(0)}},
		{"offer-race-cancel", []Op{j(0), p(0), av(0, 2), {Op: "race", K: 0}, q(0)}},
		{"error-before-select", []Op{j(0), p(0), er(0, 2), wt(0), q(0)}},
		{"error-then-cancel", []Op{j(0), p(0), er(0, 2), cn(0), wt(0), q(0)}},
		{"error-race-cancel", []Op{j(0), p(0), er(0, 2), {Op: "race", K: 0}, q(0)}},
		{"two-rooms-crossed", []Op{j(0), j(1), p(0), p(1), wt(0), wt(1), av(1, 2), q(0), q(1), av(0, 2), q(0), q(1), un(1, 0), q(0), q(1)}},
		{"same-room-two-nicks", []Op{j(0), p(0), wt(0), av(0, 2), j(2), p(1), wt(1), q(0), q(2), av(2, 2), q(2), un(0, 0), q(0), q(2)}},
		{"other-occupant-while-joining", []Op{j(0), p(0), wt(0), av(2, 0), un(2, 0), q(0), av(0, 2), q(0), av(2, 2), un(2, 2), q(0)}},
		{"other-occupant-while-leaving", []Op{j(0), p(0), wt(0), av(0, 2), lv(0), wt(1), un(2, 2), av(2, 0), q(0), un(0, 2), q(0)}},
		{"unjoined-room-presence", []Op{av(3, 2), un(3, 2), j(0), p(0), wt(0), av(3, 2), av(1, 2), un(1, 2), q(0), av(0, 2), q(0)}},
		{"unavailable-while-joining", []Op{j(0), p(0), wt(0), un(0, 2), av(0, 2), q(0)}},
		{"kicked-then-leave", []Op{j(0), p(0), wt(0), av(0, 2), un(0, 2), q(0), lv(0), wt(1), cn(1)}},
		{"kicked-rejoin-leave", []Op{j(0), p(0), wt(0), av(0, 2), un(0, 2), j(0), p(1), wt(1), av(0, 2), lv(0), wt(2), q(0), un(0, 2), q(0)}},
		{"invites", []Op{{Op: "invite", V: 0}, {Op: "invite", V: 2}, {Op: "other", V: 0}, {Op: "invite", V: 6}, {Op: "other", V: 7}, {Op: "other", V: 5}}},
		{"invite-untyped", []Op{{Op: "invite", V: 1}, {Op: "invite", V: 3}, {Op: "invite", V: 8}, {Op: "invite", V: 13}}},
		{"not-an-invitation", []Op{{Op: "invite", V: 0}, {Op: "other", V: 8}, {Op: "other", V: 9}, {Op: "invite", V: 2}}},
		{"others", []Op{j(0), p(0), wt(0), {Op: "other", V: 0}, {Op: "other", V: 1}, {Op: "other", V: 2}, {Op: "other", V: 3}, {Op: "other", V: 4}, {Op: "other", V: 6}, q(0), av(0, 0), q(0), {Op: "other", V: 6}, q(0)}},
		{"stale-context-blocks-publish", []Op{j(0), p(0), wt(0), cn(0), j(0), p(1), av(0, 2), wt(1), q(0)}},
		{"blocked-publish-cancelled", []Op{j(0), p(0), wt(0), er(0, 0), j(0), p(1), cn(1), j(0), p(2), av(0, 2), wt(2), q(0)}},
		{"leave-cancel", []Op{j(0), p(0), wt(0), av(0, 2), lv(0), wt(1), cn(1), q(0), un(0, 2), q(0)}},
		{"late-error-reply", []Op{j(0), p(0), wt(0), av(0, 2), er(0, 0), q(0), lv(0), wt(1), un(0, 2), er(1, 1), q(0)}},
	}
}

// ---- random schedules ----

func genOp(r *hx.Rand, w *world) Op {
	var pend, parked, start, withReq, pendJoinAddr, pendLeaveAddr, member []int
	for _, c := range w.calls {
		if c.ph != phRet {
			pend = append(pend, c.k)
			if c.join && c.ph != phStart {
				pendJoinAddr = append(pendJoinAddr, c.a)
			}
			if !c.join {
				pendLeaveAddr = append(pendLeaveAddr, c.a)
			}
		}
		if c.ph == phParked {
			parked = append(parked, c.k)
		}
		if c.ph == phStart {
			start = append(start, c.k)
		}
		if c.reqID != "" {
			withReq = append(withReq, c.k)
		}
	}
	// Channels: registered and idle (candidates for Leave), all idle ones with an object, addresses that have one
	var idleChans, haveChan []int
	for h, ch := range w.chs {
		if w.objOf(h) == nil || w.inflight(h) {
			continue
		}
		idleChans = append(idleChans, h)
		if w.table[ch.a] == h {
			member = append(member, h)
		}
	}
	for a := 0; a < 3; a++ {
		if w.firstChan(a) >= 0 {
			haveChan = append(haveChan, a)
		}
	}
	pick := func(xs []int) int { return xs[r.Intn(len(xs))] }
	anyAddr := func() int {
		if len(w.calls) > 0 && r.Chance(7, 10) {
			return w.calls[r.Intn(len(w.calls))].a
		}
		return r.Intn(nAddr)
	}
	type choice struct {
		w  int
		op func() Op
	}
	// payload shape of a presence from a: mostly the standard one; undecodable
	// ones mostly where the address is not managed (elsewhere they end the case)
	shape := func(a int) int {
		switch x := r.Intn(100); {
		case x < 60:
			return 0
		case x < 85:
			return 1 + r.Intn(nGood-1)
		case w.table[a] < 0 || x >= 97:
			return nGood + r.Intn(len(payloads)-nGood)
		default:
			return r.Intn(nGood)
		}
	}
	msgs := []string{"i", "ic", "ci", "bi", "yic", "ift", "im", "d", "s", "dc", "c", "cy", "b", "", "tcfi", "iq", "qic", "id", "si", "ii", "dis"}
	cs := []choice{
		{10, func() Op { return Op{Op: "join", A: []int{0, 0, 1, 2}[r.Intn(4)]} }},
		{3, func() Op { return Op{Op: "invite", V: r.Intn(16)} }},
		{4, func() Op {
			c := msgs[r.Intn(len(msgs)-4)]
			if r.Chance(1, 8) {
				c = msgs[r.Intn(len(msgs))]
			}
			return Op{Op: "msg", C: c, V: r.Intn(16)}
		}},
		{4, func() Op {
			// a room that was never joined, any payload
			op := "avail"
			if r.Bool() {
				op = "unavail"
			}
			return Op{Op: op, A: 3, V: r.Intn(32), P: r.Intn(len(payloads))}
		}},
		{3, func() Op { return Op{Op: "other", V: r.Intn(len(others))} }},
		{8, func() Op { return Op{Op: "query", A: anyAddr()} }},
		{5, func() Op { a := anyAddr(); return Op{Op: "avail", A: a, V: r.Intn(32), P: shape(a)} }},
		{4, func() Op { a := anyAddr(); return Op{Op: "unavail", A: a, V: r.Intn(32), P: shape(a)} }},
		{2, func() Op { return Op{Op: "leave", A: anyAddr()} }},
	}
	if len(start) > 0 {
		cs = append(cs, choice{14, func() Op { return Op{Op: "push", K: pick(start)} }})
	}
	if len(parked) > 0 {
		cs = append(cs, choice{14, func() Op { return Op{Op: "wait", K: pick(parked)} }},
			choice{2, func() Op { return Op{Op: "race", K: pick(parked)} }})
	}
	if len(pend) > 0 {
		cs = append(cs, choice{4, func() Op { return Op{Op: "cancel", K: pick(pend)} }})
	}
	if len(pendJoinAddr) > 0 {
		cs = append(cs, choice{14, func() Op { a := pick(pendJoinAddr); return Op{Op: "avail", A: a, V: r.Intn(32), P: shape(a)} }})
	}
	if len(pendLeaveAddr) > 0 {
		cs = append(cs, choice{12, func() Op { a := pick(pendLeaveAddr); return Op{Op: "unavail", A: a, V: r.Intn(32), P: shape(a)} }})
	}
	if len(member) > 0 {
		cs = append(cs, choice{9, func() Op { h := pick(member); return Op{Op: "leave", A: w.chs[h].a, H: h + 1} }},
			choice{3, func() Op { a := w.chs[pick(member)].a; return Op{Op: "unavail", A: a, V: r.Intn(32), P: shape(a)} }})
	}
	if len(haveChan) > 0 {
		// another Client.Join for an address that already has a Channel
		cs = append(cs, choice{5, func() Op { return Op{Op: "cjoin", A: pick(haveChan)} }})
	}
	if len(w.chs) > 1 && len(idleChans) > 0 {
		// operations on a particular Channel, registered or not
		cs = append(cs,
			choice{6, func() Op { h := pick(idleChans); return Op{Op: "join", A: w.chs[h].a, H: h + 1} }},
			choice{3, func() Op { h := pick(idleChans); return Op{Op: "leave", A: w.chs[h].a, H: h + 1} }},
			choice{6, func() Op { h := r.Intn(len(w.chs)); return Op{Op: "query", A: w.chs[h].a, H: h + 1} }})
	}
	if len(withReq) > 0 {
		cs = append(cs, choice{6, func() Op {
			k := withReq[len(withReq)-1]
			if r.Chance(1, 4) {
				k = pick(withReq)
			}
			return Op{Op: "err", K: k, V: r.Intn(5)}
		}})
	}
	tot := 0
	for _, c := range cs {
		tot += c.w
	}
	x := r.Intn(tot)
	for _, c := range cs {
		if x < c.w {
			return c.op()
		}
		x -= c.w
	}
	return Op{Op: "query", A: 0}
}

func randomCase(r *hx.Rand) outcome {
	n := 5 + r.Intn(16)
	return drive(Case{}, func(w *world, step int) (Op, bool) {
		if step >= 2*n || len(w.trace) > 60 {
			return Op{}, false
		}
		return genOp(r, w), true
	})
}

// ---- main ----

func canon(o outcome) string {
	b, _ := json.Marshal(o.Trace)
	return string(b)
}

func nontrivial(o outcome) bool {
	calls, stanzas := 0, 0
	for _, l := range o.Trace {
		if l.T == "call" {
			calls++
		}
		if l.T == "deliver" && l.O != "other" {
			stanzas++
		}
	}
	return calls > 0 && stanzas > 0
}

func classes(o outcome) []string {
	cs := []string{fmt.Sprintf("trace-len-%02d", (len(o.Trace)/5)*5)}
	seen := map[string]bool{}
	for _, l := range o.Trace {
		k := l.T
		if l.T == "ret" || l.T == "deliver" {
			k = l.T + "-" + l.O
		}
		if l.T == "call" {
			k = "call-" + l.O
		}
		if !seen[k] {
			seen[k] = true
			cs = append(cs, "has-"+k)
		}
	}
	return cs
}

func main() {
	// the race detector's reports are collected from a child process
	if os.Getenv("C18_CHILD") == "" {
		o := hx.ParseFlags()
		cmd := exec.Command(os.Args[0], os.Args[1:]...)
		cmd.Env = append(os.Environ(), "C18_CHILD=1", "GORACE=exitcode=0 log_path="+filepath.Join(o.Out, "race"))
		cmd.Stdout, cmd.Stderr = os.Stdout, os.Stderr
		err := cmd.Run()
		races, _ := filepath.Glob(filepath.Join(o.Out, "race.*"))
		if len(races) > 0 {
			b, _ := os.ReadFile(races[0])
			rp := filepath.Join(o.Out, "result.json")
			var res map[string]any
			if rb, e := os.ReadFile(rp); e == nil && json.Unmarshal(rb, &res) == nil {
				txt := string(b)
				if len(txt) > 1500 {
					txt = txt[:1500]
				}
				fs, _ := res["oracle_failures"].([]any)
				res["oracle_failures"] = append(fs, map[string]any{"key": "C18/race/data-race", "what": "the race detector reported a data race during forced schedules: " + txt, "case": map[string]any{"ops": []any{}}})
				nb, _ := json.MarshalIndent(res, "", " ")
				os.WriteFile(rp, nb, 0o644)
			}
			for _, f := range races {
				os.Remove(f)
			}
		}
		if err != nil {
			fmt.Fprintln(os.Stderr, "child:", err)
			os.Exit(1)
		}
		return
	}
	opts := hx.ParseFlags()
	xmpp.VerifSetHook(hook)
	res := hx.NewResult("C18")
	res.Rule = "non-trivial = the schedule contains at least one join/leave call and at least one presence, error reply or invitation from the service; distinct = distinct label sequences"
	cf := &hx.CaseFile{Name: "sched", Imports: "From Coq Require Import List.\nImport ListNotations.\nFrom XV Require Import C18.Model.", Ok: "case_ok", Type: "tcase"}

	record := func(o outcome) {
		res.Count(canon(o), nontrivial(o), classes(o)...)
		if len(o.Trace) > 4 {
			res.Sample(map[string]any{"ops": o.Case.Ops, "trace": o.Trace})
		}
		for _, v := range o.Verdicts {
			res.Fail(v.Key, v.What, o.Case)
		}
		cf.Add(coqCase(o), map[string]any{"case": o.Case, "trace": o.Trace, "cb_pres": o.CbPres, "cb_inv": o.CbInv, "anomalies": o.Anomaly})
	}

	if opts.Replay != "" {
		b, err := os.ReadFile(opts.Replay)
		if err != nil {
			fmt.Fprintln(os.Stderr, err)
			os.Exit(2)
		}
		var rp struct {
			Case Case `json:"case"`
		}
		if err := json.Unmarshal(b, &rp); err != nil {
			fmt.Fprintln(os.Stderr, err)
			os.Exit(2)
		}
		if rp.Case.Name == "second-client-join" {
			for _, v := range dupScenario() {
				res.Fail(v.Key, v.What, rp.Case)
			}
			res.Count("second-client-join", true, "second-client-join")
		} else if rp.Case.Name == "nick-option-first-join" || rp.Case.Name == "nick-option-rejoin" {
			for _, v := range nickScenario(rp.Case.Name == "nick-option-rejoin") {
				res.Fail(v.Key, v.What, rp.Case)
			}
			res.Count(rp.Case.Name, true, "nick-option")
		} else {
			for i := 0; i < 5; i++ {
				record(drive(rp.Case, nil))
			}
		}
		res.CaseFiles = cf.Write(opts.Out, 400)
		res.Extra["model_cases"] = cf.Len()
		res.Write(opts.Out)
		return
	}

	for _, c := range corpus() {
		o := drive(c, nil)
		if os.Getenv("C18_DEBUG") != "" {
			tb, _ := json.Marshal(o.Trace)
			fmt.Printf("%-30s verdicts=%v anomalies=%v cb=%v/%v\n   %s\n", c.Name, o.Verdicts, o.Anomaly, o.CbPres, o.CbInv, tb)
		}
		record(o)
	}
	for _, v := range dupScenario() {
		res.Fail(v.Key, v.What, Case{Name: "second-client-join", Ops: []Op{}})
	}
	res.Count("second-client-join", true, "second-client-join")
	for _, v := range nickScenario(false) {
		res.Fail(v.Key, v.What, Case{Name: "nick-option-first-join", Ops: []Op{}})
	}
	res.Count("nick-option-first-join", true, "nick-option")
	for _, v := range nickScenario(true) {
		res.Fail(v.Key, v.What, Case{Name: "nick-option-rejoin", Ops: []Op{}})
	}
	res.Count("nick-option-rejoin", true, "nick-option")
	if os.Getenv("C18_DEBUG") == "corpus" {
		res.CaseFiles = cf.Write(opts.Out, 400)
		res.Write(opts.Out)
		return
	}
	n := 3000
	if opts.Thorough() {
		n = 40000
	}
	if opts.Search {
		n *= 4
	}
	master := hx.NewRand(opts.Seed)
	const workers = 8
	outs := make([][]outcome, workers)
	var wg sync.WaitGroup
	for wi := 0; wi < workers; wi++ {
		r := master.Fork()
		wg.Add(1)
		go func(wi int, r *hx.Rand) {
			defer wg.Done()
			for i := 0; i < n/workers && stuckWorlds.Load() < 16; i++ {
				outs[wi] = append(outs[wi], randomCase(r))
			}
		}(wi, r)
	}
	wg.Wait()
	for _, os := range outs {
		for _, o := range os {
			record(o)
		}
	}
	if !opts.Search {
		res.CaseFiles = cf.Write(opts.Out, 400)
	}
	res.Extra["model_cases"] = cf.Len()
	res.Write(opts.Out)
}
