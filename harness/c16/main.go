// Command c16 is the correspondence harness and implementation oracle for
// property C16 (jid/escape.go).
package main

import (
	"bytes"
	"encoding/json"
	"errors"
	"fmt"
	"io"
	"os"
	"strings"

	"golang.org/x/text/transform"

	"mellium.im/xmpp/jid"
	"verifharness/hx"
)

const imports = "From XV Require Import lib.Bytes C16.Model.\n"

type trCase struct {
	Kind  string `json:"kind"` // transform | span | whole | string
	Which string `json:"which"`
	Cap   int    `json:"cap,omitempty"`
	EOF   bool   `json:"eof,omitempty"`
	Src   string `json:"src"` // hex
	Out   string `json:"out,omitempty"`
	NSrc  int    `json:"nsrc,omitempty"`
	Err   string `json:"err,omitempty"`
	Via   string `json:"via,omitempty"`
}

func tr(which string) jid.Transformer {
	if which == "escape" {
		return jid.Escape
	}
	return jid.Unescape
}

func coqWhich(which string) string {
	if which == "escape" {
		return "WEscape"
	}
	return "WUnescape"
}

func errName(err error) string {
	switch {
	case err == nil:
		return "ENil"
	case errors.Is(err, transform.ErrShortDst):
		return "EShortDst"
	case errors.Is(err, transform.ErrShortSrc):
		return "EShortSrc"
	case errors.Is(err, transform.ErrEndOfSpan):
		return "EEndOfSpan"
	}
	return "EOther"
}

// ---- independent reference (oracle side; not the Coq model) ----

const forbidden = " \"&'/:<>@"

var seqs = map[string]byte{
	"20": ' ', "22": '"', "26": '&', "27": '\'', "2f": '/', "3a": ':', "3c": '<', "3e": '>', "40": '@', "5c": '\\',
}

func refUnescape(s []byte) []byte {
	var out []byte
	for i := 0; i < len(s); {
		if s[i] == '\\' && i+2 < len(s) {
			if c, ok := seqs[strings.ToLower(string(s[i+1:i+3]))]; ok {
				out = append(out, c)
				i += 3
				continue
			}
		}
		out = append(out, s[i])
		i++
	}
	return out
}

func refEscape(s []byte) []byte {
	var out []byte
	for _, c := range s {
		if strings.IndexByte(forbidden+"\\", c) >= 0 {
			out = append(out, []byte(fmt.Sprintf("\\%02x", c))...)
		} else {
			out = append(out, c)
		}
	}
	return out
}

// ---- generators ----

var alphabet = []byte{'a', '\\', '2', '0', 'f', 'F', '@', ' ', '5', 'c', 'C', '3', 'e', ':', 'g', '/', 0xc3, 0xa9, 0x00, '4'}
var small = []byte{'a', '\\', '2', '0', 'f', '@', ' '}

func genString(r *hx.Rand) []byte {
	var n int
	switch r.Intn(10) {
	case 0, 1, 2, 3, 4:
		n = r.Intn(9)
	case 5, 6:
		n = r.Intn(24)
	case 7:
		n = 120 + r.Intn(20) // transform.String's 128-byte first chunk
	case 8:
		n = 250 + r.Intn(12)
	default:
		n = 60 + r.Intn(200)
	}
	b := make([]byte, n)
	mode := r.Intn(4)
	for i := range b {
		switch mode {
		case 0:
			b[i] = small[r.Intn(len(small))]
		case 1:
			b[i] = alphabet[r.Intn(len(alphabet))]
		case 2: // mostly plain with escape sequences sprinkled in
			b[i] = 'a' + byte(r.Intn(3))
		default:
			b[i] = alphabet[r.Intn(len(alphabet))]
			if r.Chance(1, 12) {
				b[i] = byte(r.Intn(256))
			}
		}
	}
	if mode == 2 && n >= 3 {
		esc := []string{"\\20", "\\5c", "\\5C", "\\2F", "\\40", "\\3a", "\\2", "\\", "\\\\", "\\g0", "@", " ", "\\27"}
		for k := 0; k < 1+r.Intn(4); k++ {
			e := esc[r.Intn(len(esc))]
			p := r.Intn(n)
			copy(b[p:], e)
		}
	}
	return b
}

type runner struct {
	res   *hx.Result
	tc    hx.CaseFile
	sc    hx.CaseFile
	wc    hx.CaseFile
	seenW map[string]bool
}

func nontrivial(src []byte) bool {
	return bytes.IndexAny(src, forbidden+"\\") >= 0
}

// direct Transform call with a destination of exactly cap bytes.
func (x *runner) transformCase(which string, cap int, eof bool, src []byte) {
	c := trCase{Kind: "transform", Which: which, Cap: cap, EOF: eof, Src: hx.Hex(src)}
	var nDst, nSrc int
	var err error
	dst := make([]byte, cap)
	p := hx.Catch(func() { nDst, nSrc, err = tr(which).Transform(dst, append([]byte(nil), src...), eof) })
	x.res.Count("t|"+which+fmt.Sprint(cap, eof)+c.Src, nontrivial(src), "transform/"+which)
	if p != "" {
		x.res.Fail("C16/"+which+"/transform/panic", "Transform panics: "+p, c)
		return
	}
	if nDst < 0 || nDst > cap || nSrc < 0 || nSrc > len(src) {
		x.res.Fail("C16/"+which+"/transform/out-of-range", fmt.Sprintf("nDst=%d nSrc=%d outside cap=%d len=%d", nDst, nSrc, cap, len(src)), c)
		return
	}
	c.Out, c.NSrc, c.Err = hx.Hex(dst[:nDst]), nSrc, errName(err)
	x.res.Histogram["err/"+c.Err]++
	if c.Err == "EOther" {
		x.res.Fail("C16/"+which+"/transform/unknown-error", fmt.Sprint(err), c)
		return
	}
	x.tc.Add(fmt.Sprintf("mkcase %s %s %s %s %s %s %s", coqWhich(which), hx.CoqNat(cap), hx.CoqBool(eof), hx.CoqBytes(src), hx.CoqBytes(dst[:nDst]), hx.CoqNat(nSrc), c.Err), c)
	x.res.Sample(c)
}

func (x *runner) spanCase(which string, eof bool, src []byte) {
	c := trCase{Kind: "span", Which: which, EOF: eof, Src: hx.Hex(src)}
	var n int
	var err error
	p := hx.Catch(func() { n, err = tr(which).Span(append([]byte(nil), src...), eof) })
	x.res.Count("s|"+which+fmt.Sprint(eof)+c.Src, nontrivial(src), "span/"+which)
	if p != "" {
		x.res.Fail("C16/"+which+"/span/panic", "Span panics: "+p, c)
		return
	}
	c.NSrc, c.Err = n, errName(err)
	if n < 0 || n > len(src) {
		x.res.Fail("C16/"+which+"/span/out-of-range", fmt.Sprintf("n=%d len=%d", n, len(src)), c)
		return
	}
	// oracle: the spanned prefix is left unchanged, the cut is a safe one, and
	// the reported reason for stopping is the true one
	ref := refEscape
	if which == "unescape" {
		ref = refUnescape
	}
	whole := ref(src)
	if !bytes.Equal(whole, append(append([]byte(nil), src[:n]...), ref(src[n:])...)) {
		x.res.Fail("C16/"+which+"/span/prefix-changed", "Span covers bytes the transform would change", c)
	}
	switch c.Err {
	case "ENil":
		if n != len(src) {
			x.res.Fail("C16/"+which+"/span/nil-but-short", "Span returns nil before the end of the input", c)
		}
	case "EEndOfSpan":
		k := 1
		if which == "unescape" {
			k = 3
		}
		if n+k > len(src) || bytes.Equal(ref(src[n:n+k]), src[n:n+k]) {
			x.res.Fail("C16/"+which+"/span/early-end", "ErrEndOfSpan where nothing changes", c)
		}
	case "EShortSrc":
		if eof || which == "escape" {
			x.res.Fail("C16/"+which+"/span/short-src-at-eof", "ErrShortSrc although no more input can come", c)
		}
	default:
		x.res.Fail("C16/"+which+"/span/unknown-error", fmt.Sprint(err), c)
	}
	x.sc.Add(fmt.Sprintf("mkscase %s %s %s %s %s", coqWhich(which), hx.CoqBool(eof), hx.CoqBytes(src), hx.CoqNat(n), c.Err), c)
}

func min(a, b int) int {
	if a < b {
		return a
	}
	return b
}

type chunkReader struct {
	b []byte
	r *hx.Rand
	k int
}

func (c *chunkReader) Read(p []byte) (int, error) {
	if len(c.b) == 0 {
		return 0, io.EOF
	}
	n := c.k
	if n == 0 {
		n = 1 + c.r.Intn(5)
	}
	if n > len(p) {
		n = len(p)
	}
	if n > len(c.b) {
		n = len(c.b)
	}
	copy(p, c.b[:n])
	c.b = c.b[n:]
	return n, nil
}

// manualDriver drives Transform with random chunk sizes and destination
// capacities, the way any transform driver is allowed to.
func manualDriver(r *hx.Rand, which string, src []byte) (out []byte, fail string) {
	t := tr(which)
	rest := src
	stuck := 0
	for steps := 0; ; steps++ {
		if len(rest) == 0 && r.Chance(1, 2) {
			return out, ""
		}
		k := r.Intn(len(rest) + 1)
		cap := r.Intn(9)
		eof := k == len(rest) && r.Chance(2, 3)
		if stuck > 20 {
			k, cap, eof = len(rest), 16+r.Intn(8), true
		}
		dst := make([]byte, cap)
		nDst, nSrc, err := t.Transform(dst, append([]byte(nil), rest[:k]...), eof)
		if nDst < 0 || nDst > cap || nSrc < 0 || nSrc > k {
			return out, fmt.Sprintf("out-of-range nDst=%d nSrc=%d cap=%d k=%d", nDst, nSrc, cap, k)
		}
		out = append(out, dst[:nDst]...)
		rest = rest[nSrc:]
		if nSrc == 0 && nDst == 0 {
			stuck++
		} else {
			stuck = 0
		}
		if len(rest) == 0 && err == nil && eof {
			return out, ""
		}
		if stuck > 40 || steps > 20*len(src)+200 {
			return out, fmt.Sprintf("no progress (err=%v, %d bytes left)", err, len(rest))
		}
	}
}

// wholeString evaluates every whole-input interface and the oracle on them.
func (x *runner) wholeString(r *hx.Rand, src []byte) {
	for _, which := range []string{"escape", "unescape"} {
		t := tr(which)
		c := trCase{Kind: "string", Which: which, Src: hx.Hex(src)}
		x.res.Count("w|"+which+c.Src, nontrivial(src), "whole/"+which)
		outs := map[string][]byte{}
		p := hx.Catch(func() { outs["String"] = []byte(t.String(string(src))) })
		if p != "" {
			x.res.Fail("C16/"+which+"/string/panic", "String panics: "+p, c)
			continue
		}
		if p := hx.Catch(func() { outs["Bytes"] = t.Bytes(append([]byte(nil), src...)) }); p != "" {
			x.res.Fail("C16/"+which+"/bytes/panic", "Bytes panics: "+p, c)
		}
		for _, k := range []int{1, 2, 3, 0} {
			name := fmt.Sprintf("Reader/%d", k)
			if p := hx.Catch(func() {
				b, err := io.ReadAll(transform.NewReader(&chunkReader{b: src, r: r, k: k}, t))
				if err != nil {
					x.res.Fail("C16/"+which+"/reader/error", fmt.Sprintf("%s: %v", name, err), c)
				}
				outs[name] = b
			}); p != "" {
				x.res.Fail("C16/"+which+"/reader/panic", name+" panics: "+p, c)
			}
		}
		for _, k := range []int{1, 2, 0} {
			name := fmt.Sprintf("Writer/%d", k)
			if p := hx.Catch(func() {
				var buf bytes.Buffer
				w := transform.NewWriter(&buf, t)
				rest := src
				for len(rest) > 0 {
					n := k
					if n == 0 {
						n = 1 + r.Intn(4)
					}
					if n > len(rest) {
						n = len(rest)
					}
					if _, err := w.Write(rest[:n]); err != nil {
						x.res.Fail("C16/"+which+"/writer/error", fmt.Sprintf("%s: %v", name, err), c)
						break
					}
					rest = rest[n:]
				}
				if err := w.Close(); err != nil {
					x.res.Fail("C16/"+which+"/writer/error", fmt.Sprintf("%s close: %v", name, err), c)
				}
				outs[name] = buf.Bytes()
			}); p != "" {
				x.res.Fail("C16/"+which+"/writer/panic", name+" panics: "+p, c)
			}
		}
		for k := 0; k < 3; k++ {
			name := fmt.Sprintf("Driver/%d", k)
			if p := hx.Catch(func() {
				b, fail := manualDriver(r, which, src)
				if fail != "" {
					x.res.Fail("C16/"+which+"/driver/"+strings.SplitN(fail, " ", 2)[0], name+": "+fail, c)
					return
				}
				outs[name] = b
			}); p != "" {
				x.res.Fail("C16/"+which+"/driver/panic", name+" panics: "+p, c)
			}
		}
		// oracle: all interfaces agree with the reference semantics
		var ref []byte
		if which == "escape" {
			ref = refEscape(src)
		} else {
			ref = refUnescape(src)
		}
		for name, o := range outs {
			if !bytes.Equal(o, ref) {
				via := strings.SplitN(name, "/", 2)[0]
				cc := c
				cc.Via, cc.Out = name, hx.Hex(o)
				x.res.Fail("C16/"+which+"/"+strings.ToLower(via)+"/wrong-output",
					fmt.Sprintf("%s output differs from the XEP-0106 reference (chunk/size dependent or wrong)", name), cc)
			}
			key := which + "|" + c.Src + "|" + hx.Hex(o)
			if !x.seenW[key] {
				x.seenW[key] = true
				cc := c
				cc.Kind, cc.Via, cc.Out = "whole", name, hx.Hex(o)
				x.wc.Add(fmt.Sprintf("mkwcase %s %s %s", coqWhich(which), hx.CoqBytes(src), hx.CoqBytes(o)), cc)
			}
		}
		if which == "escape" {
			if o, ok := outs["String"]; ok {
				if bytes.IndexAny(o, forbidden) >= 0 {
					x.res.Fail("C16/escape/string/forbidden-char", "escaped output contains a forbidden character", c)
				}
				var back string
				if p := hx.Catch(func() { back = jid.Unescape.String(string(o)) }); p != "" {
					x.res.Fail("C16/unescape/string/panic", "Unescape.String(Escape.String(s)) panics: "+p, c)
				} else if back != string(src) {
					x.res.Fail("C16/roundtrip", "Unescape(Escape(s)) != s", c)
				}
			}
		}
	}
}

func (x *runner) one(r *hx.Rand, src []byte) {
	x.wholeString(r, src)
	for _, which := range []string{"escape", "unescape"} {
		x.spanCase(which, true, src)
		x.spanCase(which, false, src)
		need := len(src)*3 + 2
		caps := []int{0, 1, 2, 3, need, r.Intn(need + 1), r.Intn(need + 1)}
		for _, cap := range caps {
			x.transformCase(which, cap, r.Bool(), src)
		}
		if len(src) > 0 { // a strict prefix as a non-final chunk
			k := r.Intn(len(src))
			x.transformCase(which, need, false, src[:k])
			x.spanCase(which, false, src[:k])
		}
	}
}

func enumerate(alpha []byte, n int, f func([]byte)) {
	buf := make([]byte, n)
	var rec func(i int)
	rec = func(i int) {
		if i == n {
			f(append([]byte(nil), buf...))
			return
		}
		for _, c := range alpha {
			buf[i] = c
			rec(i + 1)
		}
	}
	rec(0)
}

func main() {
	o := hx.ParseFlags()
	res := hx.NewResult("C16")
	x := &runner{res: res, seenW: map[string]bool{}}
	x.tc = hx.CaseFile{Name: "tr", Imports: imports, Ok: "case_ok", Type: "tcase"}
	x.sc = hx.CaseFile{Name: "span", Imports: imports, Ok: "span_ok", Type: "scase"}
	x.wc = hx.CaseFile{Name: "whole", Imports: imports, Ok: "whole_ok", Type: "wcase"}
	r := hx.NewRand(o.Seed)

	if o.Replay != "" {
		b, err := os.ReadFile(o.Replay)
		if err != nil {
			fmt.Fprintln(os.Stderr, err)
			os.Exit(2)
		}
		var rp struct {
			Case trCase `json:"case"`
		}
		if err := json.Unmarshal(b, &rp); err != nil {
			fmt.Fprintln(os.Stderr, err)
			os.Exit(2)
		}
		src := hx.UnHex(rp.Case.Src)
		switch rp.Case.Kind {
		case "transform":
			x.transformCase(rp.Case.Which, rp.Case.Cap, rp.Case.EOF, src)
		case "span":
			x.spanCase(rp.Case.Which, rp.Case.EOF, src)
		}
		x.one(r, src)
	} else {
		// corpus first
		for _, s := range corpus {
			x.one(r, []byte(s))
		}
		// exhaustive small scope
		depth := 3
		n := 700
		if o.Thorough() {
			depth, n = 5, 6000
		}
		if o.Search {
			depth, n = 5, 20000
		}
		for l := 0; l <= depth; l++ {
			enumerate(small, l, func(b []byte) { x.one(r, b) })
		}
		res.Extra["exhaustive_small_scope"] = fmt.Sprintf("all strings over %q up to length %d", small, depth)
		for i := 0; i < n; i++ {
			x.one(r, genString(r))
		}
	}
	res.Rule = "inputs: corpus, all strings over {a \\ 2 0 f @ space} up to a length bound, seeded random strings " +
		"(escape-heavy alphabets, lengths around 128/256); per input: String/Bytes/Reader/Writer/manual-driver runs, " +
		"Span and direct Transform calls with capacities {0,1,2,3,need,random}; distinct = hash of (call kind, arguments); " +
		"non-trivial = input contains a backslash or one of the ten characters"
	per := 4000
	res.CaseFiles = append(res.CaseFiles, x.tc.Write(o.Out, per)...)
	res.CaseFiles = append(res.CaseFiles, x.sc.Write(o.Out, per)...)
	res.CaseFiles = append(res.CaseFiles, x.wc.Write(o.Out, per)...)
	res.Extra["model_cases"] = x.tc.Len() + x.sc.Len() + x.wc.Len()
	res.Write(o.Out)
}

// corpus: minimised inputs of defects found earlier; always run first.
var corpus = []string{
	"ab\\20", "ab\\20cd", "abcd@", "\\\\20", "\\\\", "a\\2", "\\5c20", "\\5C\\5c",
	"abcdef@gh", "x@y/z", "\\2f\\2F\\3a\\3A\\3c\\3C\\3e\\3E\\40\\5c", "\\g0\\", "\\2\\20",
}
