package main

// Destinations of AppendHash as Go slices: every (length, capacity) shape, spare
// capacity holding junk, buffers shared between calls, results reused as the
// next destination.  A history is a list of calls; each takes known[src][lo:hi]
// as its destination, where known holds the caller's buffers followed by every
// result so far.
//
// Implementation oracle (independent of the Coq model): a call with an EMPTY
// destination returns exactly what Hash returns, which is the base64 of the
// digest (computed by an independent reference of the hash function) of the
// verification string — whatever the capacity of the destination, whatever its
// spare capacity holds, whatever happened to the buffer before; and a string
// returned by an earlier call still reads the same after a later call unless
// the caller itself handed its cells to that call as spare capacity.
// Correspondence: the same history is run by the heap model (C20/TailModel.v,
// which interprets the tail of AppendHash as read from the source): every
// returned string, and at the end every slice the caller holds read up to its
// capacity, must agree.

import (
	"bytes"
	"encoding/base64"
	"fmt"
	"hash"
	"strings"
	"unsafe"

	xcrypto "mellium.im/xmpp/crypto"
	"verifharness/hx"
)

const tailImports = "From XV Require Import lib.Bytes C20.Model C20.TailModel.\n"

// bufD is one buffer of the caller: Fill is the whole backing array (its
// length is the capacity), Len the length of the slice; Nil: a nil slice.
type bufD struct {
	Len  int  `json:"len"`
	Fill HS   `json:"fill"`
	Nil  bool `json:"nil,omitempty"`
}

// stepD is one call AppendHash(known[Src][Lo:Hi], h).  The hash: Algo names a
// function of crypto/crypto.go; otherwise HSize = 0 is the recording hash
// (digest = the string) and HSize = k > 0 the k-byte folding hash.
type stepD struct {
	Src   int    `json:"src"`
	Lo    int    `json:"lo"`
	Hi    int    `json:"hi"`
	HSize int    `json:"hsize"`
	Algo  string `json:"algo,omitempty"`
}

// ---- a computable hash of fixed size (the model computes the same: fold_hash) ----

func foldDigest(k int, s []byte) []byte {
	d := make([]byte, k)
	for j := range d {
		d[j] = byte(j)
	}
	j := 0
	for _, c := range s {
		d[j] += c
		if j++; j == k {
			j = 0
		}
	}
	return d
}

type foldHash struct {
	k   int
	buf []byte
}

func (f *foldHash) Write(p []byte) (int, error) { f.buf = append(f.buf, p...); return len(p), nil }
func (f *foldHash) Sum(b []byte) []byte         { return append(b, foldDigest(f.k, f.buf)...) }
func (f *foldHash) Reset()                      { f.buf = nil }
func (f *foldHash) Size() int                   { return f.k }
func (f *foldHash) BlockSize() int              { return 64 }

// hashOf returns a fresh hash for a step and an independent reference of its
// digest; ok=false: the function is not available in this build.
func hashOf(st stepD) (h hash.Hash, ref func([]byte) []byte, ok bool) {
	if st.Algo != "" {
		for _, al := range algos {
			if al.name == st.Algo {
				ah, err := xcrypto.Parse(al.name)
				if err != nil || !ah.Available() {
					return nil, nil, false
				}
				mk := al.ref
				return ah.New(), func(s []byte) []byte { r := mk(); r.Write(s); return r.Sum(nil) }, true
			}
		}
		return nil, nil, false
	}
	if st.HSize == 0 {
		return &recHash{}, func(s []byte) []byte { return append([]byte(nil), s...) }, true
	}
	k := st.HSize
	return &foldHash{k: k}, func(s []byte) []byte {
		// written again, not shared with foldDigest
		d := make([]byte, k)
		for i, c := range s {
			d[i%k] += c
		}
		for j := range d {
			d[j] += byte(j)
		}
		return d
	}, true
}

// reachesInto: a[:len(a)] shares a cell with the spare capacity dst[len(dst):cap(dst)].
func reachesInto(a, dst []byte) bool {
	if len(a) == 0 || cap(dst) == len(dst) {
		return false
	}
	a0 := uintptr(unsafe.Pointer(unsafe.SliceData(a)))
	d0 := uintptr(unsafe.Pointer(unsafe.SliceData(dst)))
	return a0 < d0+uintptr(cap(dst)) && d0+uintptr(len(dst)) < a0+uintptr(len(a))
}

func dstClass(dst []byte, encLen int) string {
	switch {
	case cap(dst) == 0:
		return "nil-or-zero-capacity"
	case cap(dst) >= encLen:
		return "spare-capacity>=encoded-length"
	}
	return "spare-capacity<encoded-length"
}

// history runs the calls on the real code, evaluates the oracle and emits the
// case for the heap model.
func (x *runner) history(via string, d infoD, bufs []bufD, steps []stepD, emit bool) {
	c := hCase{Kind: "dst", Via: via, Info: d, Bufs: bufs, Steps: steps}
	_, s0, p := verString(x.build(via, cloneInfo(d)), nil)
	if p != "" || s0 == "\x00undecodable" {
		return // reported by one()
	}
	var known [][]byte
	for _, b := range bufs {
		if b.Nil {
			known = append(known, nil)
			continue
		}
		arr := append(make([]byte, 0, len(b.Fill)), b.Fill...)
		if b.Len > len(arr) {
			return
		}
		known = append(known, arr[:b.Len])
	}
	type obs struct {
		panicked bool
		out      []byte
	}
	var seen []obs
	coq := emit
	for k, st := range steps {
		if st.Src < 0 || st.Src >= len(known) || st.Lo < 0 || st.Lo > st.Hi || st.Hi > cap(known[st.Src]) {
			return // not a history a caller can write
		}
		h, ref, ok := hashOf(st)
		if !ok {
			x.res.Histogram["algo-unavailable:"+st.Algo]++
			return
		}
		if st.Algo != "" {
			coq = false
		}
		dst := known[st.Src][st.Lo:st.Hi]
		before := append([]byte(nil), dst...)
		digest := ref([]byte(s0))
		want := base64.StdEncoding.EncodeToString(append(append([]byte(nil), before...), digest...))
		encLen := base64.StdEncoding.EncodedLen(len(digest))
		in := x.build(via, cloneInfo(d))
		var out []byte
		// what the earlier calls returned, as the caller reads it now
		var earlier [][]byte
		for _, r := range known[len(bufs):] {
			earlier = append(earlier, append([]byte(nil), r...))
		}
		if p := hx.Catch(func() { out = in.AppendHash(dst, h) }); p != "" {
			x.res.Fail("C20/appendhash/panic:destination", fmt.Sprintf("AppendHash panics with a destination of length %d and capacity %d (call %d of the history): %s", len(dst), cap(dst), k+1, p), c)
			seen = append(seen, obs{panicked: true})
			continue
		}
		seen = append(seen, obs{out: append([]byte(nil), out...)})
		for j, r := range known[len(bufs):] {
			if !bytes.Equal(r, earlier[j]) && !reachesInto(r, dst) {
				x.res.Fail("C20/appendhash/earlier-result-overwritten", fmt.Sprintf("the string returned by call %d of the history reads %q after call %d (destination of length %d, capacity %d, not sharing a cell of its spare capacity with it); it was %q",
					j+1, r, k+1, len(dst), cap(dst), earlier[j]), c)
			}
		}
		cls := dstClass(dst, encLen)
		x.res.Histogram["dst:"+map[bool]string{true: "empty", false: "non-empty"}[len(dst) == 0]+":"+cls]++
		if st.Src >= len(bufs) || k > 0 {
			x.res.Histogram["dst:reused-buffer-or-result"]++
		}
		if len(dst) == 0 {
			// the clause of the property: Hash and AppendHash with an empty destination agree
			h2, _, _ := hashOf(st)
			var viaHash string
			if p := hx.Catch(func() { viaHash = x.build(via, cloneInfo(d)).Hash(h2) }); p != "" {
				x.res.Fail(panicKey(d), "Info.Hash panics: "+p, c)
			} else if string(out) != viaHash {
				key := "C20/appendhash/empty-dst"
				if cls != "nil-or-zero-capacity" {
					key += ":" + cls
				}
				x.res.Fail(key, fmt.Sprintf("AppendHash with an empty destination of capacity %d (call %d of the history, digest of %d bytes, base64 of %d) returns %q; Hash returns %q; base64 of the digest of the verification string is %q",
					cap(dst), k+1, len(digest), encLen, out, viaHash, want), c)
			} else if string(out) != want {
				// Hash and AppendHash agree with each other but not with the reference
				key := "C20/appendhash/not-base64-of-digest"
				if st.Algo != "" {
					key = "C20/hash/algo" // the library's handle for the function computes something else
				}
				x.res.Fail(key, fmt.Sprintf("Hash and AppendHash(empty destination) return %q but the base64 of the %s digest of the recorded string is %q", out, st.Algo, want), c)
			}
		}
		known = append(known, out)
	}
	if !coq || x.tbytes > x.tlimit {
		if coq {
			x.res.Histogram["coq-case-skipped:budget(dst)"]++
		}
		return
	}
	var sb strings.Builder
	sb.WriteString("mktcase " + coqInfo(d) + " [")
	for k, b := range bufs {
		if k > 0 {
			sb.WriteString("; ")
		}
		if b.Nil {
			sb.WriteString("([], 0%nat)")
		} else {
			fmt.Fprintf(&sb, "(%s, %s)", hx.CoqBytes([]byte(b.Fill)), hx.CoqNat(b.Len))
		}
	}
	sb.WriteString("] [")
	for k, st := range steps {
		if k > 0 {
			sb.WriteString("; ")
		}
		fmt.Fprintf(&sb, "mkstep %s %s %s %s %s %s", hx.CoqNat(st.Src), hx.CoqNat(st.Lo), hx.CoqNat(st.Hi), hx.CoqNat(st.HSize), hx.CoqBool(seen[k].panicked), hx.CoqBytes(seen[k].out))
	}
	sb.WriteString("] [")
	for k, s := range known {
		if k > 0 {
			sb.WriteString("; ")
		}
		sb.WriteString(hx.CoqBytes(s[:cap(s)]))
	}
	sb.WriteString("]")
	x.tbytes += sb.Len()
	x.tc.Add(sb.String(), c)
}

// junk fills a backing array with bytes that are neither zero nor base64 text
// of anything the call writes, so that stale cells are recognisable.
func junk(r *hx.Rand, n int) HS {
	b := make([]byte, n)
	for i := range b {
		if r == nil {
			b[i] = 0xA0 + byte(i%64)
		} else {
			b[i] = 0x80 + byte(r.Intn(128))
		}
	}
	return HS(b)
}

func mkbuf(r *hx.Rand, l, c int) bufD { return bufD{Len: l, Fill: junk(r, c)} }

// fixed hash sizes: the digest sizes of the supported functions (20 sha-1, 28,
// 32, 48, 64) and degenerate ones
var foldSizes = []int{1, 2, 3, 20, 28, 32, 48, 64}

// dstCorpus: deterministic witnesses, run first.
func (x *runner) dstCorpus() {
	tiny := infoD{Feats: hs("a")}
	for _, e := range []struct {
		via string
		d   infoD
	}{{"struct", tiny}, {"struct", xepComplex}, {"xml", xepSimple}, {"struct", infoD{}}} {
		// an empty destination of every interesting capacity, every hash size and real function
		var kinds []stepD
		for _, k := range []int{20, 28, 32, 48, 64, 0} {
			kinds = append(kinds, stepD{HSize: k})
		}
		for _, a := range []string{"sha-1", "sha-256", "sha-512", "sha3-256", "blake2b512"} {
			kinds = append(kinds, stepD{Algo: a})
		}
		for _, kind := range kinds {
			for _, c := range []int{0, 1, 16, 20, 27, 28, 29, 32, 43, 44, 45, 63, 64, 87, 88, 89, 128, 256, 4096} {
				if c == 4096 && kind.HSize == 0 && kind.Algo == "" {
					continue
				}
				x.history(e.via, e.d, []bufD{mkbuf(nil, 0, c)}, []stepD{kind}, c <= 128)
			}
			x.history(e.via, e.d, []bufD{{Nil: true}}, []stepD{kind}, true)
			// a buffer reused between calls: buf = AppendHash(buf[:0], h), three times
			r1, r2, r3 := kind, kind, kind
			r1.Src, r2.Src, r3.Src = 0, 1, 2
			x.history(e.via, e.d, []bufD{mkbuf(nil, 0, 256)}, []stepD{r1, r2, r3}, true)
			// the same buffer handed to three calls, the results kept
			x.history(e.via, e.d, []bufD{mkbuf(nil, 0, 200)}, []stepD{kind, kind, kind}, true)
			// calls with different hash functions on one buffer and on each other's results:
			// every digest and every string differs, a stale or shared cell shows
			if kind.Algo == "" {
				a, b, c3 := stepD{HSize: 32}, kind, stepD{HSize: 3}
				x.history(e.via, e.d, []bufD{mkbuf(nil, 0, 300)}, []stepD{a, b, c3, a}, true)
				b.Src, c3.Src = 1, 1
				x.history(e.via, e.d, []bufD{mkbuf(nil, 0, 300), {Nil: true}}, []stepD{a, b, c3, {Src: 1, HSize: 1}, {Src: 3, HSize: 20}}, true)
			}
			// a buffer that held something longer before: buf[:0] after a non-empty use
			s1, s2 := kind, kind
			s1.Hi = 7
			x.history(e.via, e.d, []bufD{mkbuf(nil, 7, 300)}, []stepD{s1, s2}, true)
			// non-empty destinations with and without spare capacity, in the middle of an array
			for _, lc := range [][2]int{{3, 3}, {3, 4}, {3, 40}, {3, 200}, {30, 31}, {30, 130}} {
				st := kind
				st.Hi = lc[0]
				x.history(e.via, e.d, []bufD{mkbuf(nil, lc[0], lc[1])}, []stepD{st}, true)
				st.Lo, st.Hi = 1, lc[0]
				x.history(e.via, e.d, []bufD{mkbuf(nil, lc[0], lc[1])}, []stepD{st}, true)
			}
		}
	}
}

// dstScope: exhaustive small scope — every length in {0,1,2,3,5} x every spare
// capacity 0..128 (and the boundaries of the digest and of its base64) x every
// hash size, on two info values. All are judged by the oracle; the heap model
// gets the boundary shapes.
func (x *runner) dstScope() int {
	n := 0
	tiny := infoD{Feats: hs("a")}
	mid := infoD{Ids: []identD{{"client", "pc", "", "x"}}, Feats: hs("urn:xmpp:ping", "a")}
	for ii, d := range []infoD{tiny, mid} {
		_, s0, _ := verString(buildStruct(cloneInfo(d)), nil)
		for _, k := range append([]int{0}, foldSizes...) {
			dl := k
			if k == 0 {
				dl = len(s0)
			}
			enc := base64.StdEncoding.EncodedLen(dl)
			for _, l := range []int{0, 1, 2, 3, 5} {
				encl := base64.StdEncoding.EncodedLen(l + dl)
				spares := map[int]bool{}
				for s := 0; s <= 128; s++ {
					spares[s] = true
				}
				edge := map[int]bool{0: true, 1: true, 128: true}
				for _, b := range []int{dl, enc, encl, encl - l, dl + enc} {
					for _, s := range []int{b - 1, b, b + 1} {
						if s >= 0 {
							spares[s] = true
							edge[s] = true
						}
					}
				}
				for s := 0; s <= 2*enc+8 || s <= 128; s++ {
					if !spares[s] {
						continue
					}
					n++
					x.history("struct", d, []bufD{mkbuf(nil, l, l+s)}, []stepD{{Hi: l, HSize: k}}, edge[s] || (s+ii+l)%16 == 0)
				}
			}
		}
	}
	return n
}

// genHistory: a seeded history for an info value whose verification string has
// sLen bytes: one or two buffers of boundary-biased shapes, one to four calls,
// destinations cut from buffers and from earlier results.
func (x *runner) genHistory(sLen int) ([]bufD, []stepD) {
	r := x.r
	hs := stepD{}
	switch r.Intn(8) {
	case 0:
		hs.HSize = 0
	case 1:
		hs.Algo = algos[r.Intn(len(algos))].name
	default:
		hs.HSize = foldSizes[r.Intn(len(foldSizes))]
	}
	dl := hs.HSize
	if hs.Algo != "" {
		for _, al := range algos {
			if al.name == hs.Algo {
				dl = al.ref().Size()
			}
		}
	} else if dl == 0 {
		dl = sLen
	}
	enc := base64.StdEncoding.EncodedLen(dl)
	size := func(l int) int {
		e := base64.StdEncoding.EncodedLen(l + dl)
		switch r.Intn(10) {
		case 0:
			return 0
		case 1:
			return dl + r.Intn(3) - 1
		case 2, 3:
			return e + r.Intn(3) - 1
		case 4:
			return enc + r.Intn(3) - 1
		case 5:
			return e + 1 + r.Intn(64)
		case 6:
			return r.Intn(129)
		case 7:
			return 2*e + r.Intn(9)
		case 8:
			return r.Intn(e + 1)
		}
		return e + dl + r.Intn(5)
	}
	var bufs []bufD
	for k := 0; k < 1+r.Intn(2); k++ {
		switch r.Intn(8) {
		case 0:
			bufs = append(bufs, bufD{Nil: true})
		case 1, 2, 3, 4:
			s := size(0)
			if s < 0 {
				s = 0
			}
			bufs = append(bufs, mkbuf(r, 0, s))
		default:
			l := []int{1, 1, 2, 3, 5, 8}[r.Intn(6)]
			s := size(l)
			if s < 0 {
				s = 0
			}
			bufs = append(bufs, mkbuf(r, l, l+s))
		}
	}
	// capacities as the implementation makes them are not assumed: a destination
	// cut from an earlier result stays within the LENGTH of that result
	lens := make([]int, len(bufs))
	caps := make([]int, len(bufs))
	for k, b := range bufs {
		lens[k], caps[k] = b.Len, len(b.Fill)
	}
	var steps []stepD
	for k := 0; k < 1+r.Intn(4); k++ {
		st := hs
		if k > 0 && hs.Algo == "" && r.Chance(1, 2) {
			// another hash function on the same buffers (fold sizes: the model follows)
			st.HSize = foldSizes[r.Intn(len(foldSizes))]
		}
		st.Src = r.Intn(len(lens))
		switch r.Intn(6) {
		case 0, 1, 2: // src[:0]
		case 3: // src as it is
			st.Hi = lens[st.Src]
		case 4: // src[lo:hi] within the length
			st.Hi = r.Intn(lens[st.Src] + 1)
			st.Lo = r.Intn(st.Hi + 1)
		case 5: // reslice beyond the length, into the spare capacity
			st.Hi = r.Intn(caps[st.Src] + 1)
			if st.Hi > 12 {
				st.Hi = r.Intn(13)
			}
		}
		steps = append(steps, st)
		sdl := dl
		if st.HSize != hs.HSize {
			sdl = st.HSize
		}
		rl := base64.StdEncoding.EncodedLen(st.Hi - st.Lo + sdl)
		lens = append(lens, rl)
		caps = append(caps, rl)
	}
	return bufs, steps
}

