// Command c20 is the correspondence harness and implementation oracle for
// property C20: the entity-capabilities verification string of disco.Info
// (disco/info.go Info.Hash / Info.AppendHash).
//
// The implementation is run with a recording hash.Hash whose Sum returns what
// was written, so the verification string itself is observed. The oracle
// re-states the property on those observables: no panic, the string is a
// construction of XEP-0115 section 5.1 (independent re-implementation, relational
// on ties), it does not change under permutation of identities, features,
// forms, fields and values, Hash equals AppendHash with an empty destination,
// and every supported hash function receives that same string.
package main

import (
	"bytes"
	"crypto/sha1"
	"crypto/sha256"
	"crypto/sha512"
	"encoding/base64"
	"encoding/hex"
	"encoding/json"
	"encoding/xml"
	"fmt"
	"hash"
	"os"
	"sort"
	"strings"

	"golang.org/x/crypto/blake2b"
	"golang.org/x/crypto/sha3"

	xcrypto "mellium.im/xmpp/crypto"
	"mellium.im/xmpp/disco"
	"mellium.im/xmpp/disco/info"
	"mellium.im/xmpp/form"
	"verifharness/hx"
)

const imports = "From XV Require Import lib.Bytes C20.Model.\n"

// ---- case description (JSON, strings hex encoded so that any bytes replay) ----

type HS string

func (s HS) MarshalJSON() ([]byte, error) { return json.Marshal(hex.EncodeToString([]byte(s))) }
func (s *HS) UnmarshalJSON(b []byte) error {
	var h string
	if err := json.Unmarshal(b, &h); err != nil {
		return err
	}
	d, err := hex.DecodeString(h)
	*s = HS(d)
	return err
}

type identD struct {
	Cat, Typ, Lang, Name HS
}

type fieldD struct {
	Var  HS     `json:"var"`
	Typ  string `json:"typ"` // field type attribute; "" = none
	Vals []HS   `json:"vals"`
}

type formD struct {
	Fields []fieldD `json:"fields"`
	Zero   bool     `json:"zero,omitempty"`   // form.Data{} zero value (struct construction only)
	SetFT  *HS      `json:"set_ft,omitempty"` // Data.Set("FORM_TYPE", v) after construction (struct only)
}

type infoD struct {
	Ids   []identD `json:"ids"`
	Feats []HS     `json:"feats"`
	Forms []formD  `json:"forms"`
}

type hCase struct {
	Kind  string `json:"kind"`            // hash | order | xml | dst
	Via   string `json:"via"`             // struct | xml | rawxml
	Info  infoD  `json:"info"`            // the value hashed (for rawxml: as decoded)
	Perm  *infoD `json:"perm,omitempty"`  // order failures: the permuted value
	Level string `json:"level,omitempty"` // order failures: what was permuted
	Raw   HS     `json:"raw,omitempty"`   // rawxml: the document
	Dst   HS     `json:"dst,omitempty"`
	Bufs  []bufD  `json:"bufs,omitempty"`  // kind dst: the caller's buffers
	Steps []stepD `json:"steps,omitempty"` // kind dst: the calls (dst.go)
}

func cloneInfo(d infoD) infoD {
	var c infoD
	c.Ids = append([]identD(nil), d.Ids...)
	c.Feats = append([]HS(nil), d.Feats...)
	for _, f := range d.Forms {
		nf := formD{Zero: f.Zero, SetFT: f.SetFT}
		for _, fl := range f.Fields {
			nf.Fields = append(nf.Fields, fieldD{Var: fl.Var, Typ: fl.Typ, Vals: append([]HS(nil), fl.Vals...)})
		}
		c.Forms = append(c.Forms, nf)
	}
	return c
}

// ---- recording hash ----

type recHash struct{ buf []byte }

func (r *recHash) Write(p []byte) (int, error) { r.buf = append(r.buf, p...); return len(p), nil }
func (r *recHash) Sum(b []byte) []byte         { return append(b, r.buf...) }
func (r *recHash) Reset()                      { r.buf = nil }
func (r *recHash) Size() int                   { return len(r.buf) }
func (r *recHash) BlockSize() int              { return 64 }

// ---- building the real value ----

func fieldOf(f fieldD) form.Field {
	var opts []form.Option
	for _, v := range f.Vals {
		opts = append(opts, form.Value(string(v)))
	}
	id := string(f.Var)
	switch f.Typ {
	case "boolean":
		return form.Boolean(id, opts...)
	case "fixed":
		return form.Fixed(opts...)
	case "hidden":
		return form.Hidden(id, opts...)
	case "jid-multi":
		return form.JIDMulti(id, opts...)
	case "jid-single":
		return form.JID(id, opts...)
	case "list-multi":
		return form.ListMulti(id, opts...)
	case "list-single":
		return form.List(id, opts...)
	case "text-multi":
		return form.TextMulti(id, opts...)
	case "text-private":
		return form.TextPrivate(id, opts...)
	}
	return form.Text(id, opts...)
}

var structTypes = []string{"boolean", "hidden", "jid-multi", "jid-single", "list-multi", "list-single", "text-multi", "text-private", "text-single"}

func buildStruct(d infoD) disco.Info {
	var in disco.Info
	for _, i := range d.Ids {
		in.Identity = append(in.Identity, info.Identity{Category: string(i.Cat), Type: string(i.Typ), Lang: string(i.Lang), Name: string(i.Name)})
	}
	for _, f := range d.Feats {
		in.Features = append(in.Features, info.Feature{Var: string(f)})
	}
	for _, f := range d.Forms {
		if f.Zero {
			in.Form = append(in.Form, form.Data{})
			continue
		}
		var fs []form.Field
		for _, fl := range f.Fields {
			fs = append(fs, fieldOf(fl))
		}
		if len(in.Form)%2 == 0 {
			fs = append(fs, form.Result)
		}
		data := form.New(fs...)
		if f.SetFT != nil {
			_, _ = data.Set("FORM_TYPE", string(*f.SetFT))
		}
		in.Form = append(in.Form, *data)
	}
	return in
}

func esc(s HS) string {
	var b bytes.Buffer
	_ = xml.EscapeText(&b, []byte(s))
	return b.String()
}

// toXML writes a disco#info result; the children are interleaved as order says.
func toXML(d infoD, r *hx.Rand) string {
	var parts []string
	for _, i := range d.Ids {
		s := "<identity category='" + esc(i.Cat) + "' type='" + esc(i.Typ) + "'"
		if i.Lang != "" {
			s += " xml:lang='" + esc(i.Lang) + "'"
		}
		if i.Name != "" {
			s += " name='" + esc(i.Name) + "'"
		}
		parts = append(parts, s+"/>")
	}
	var feats []string
	for _, f := range d.Feats {
		feats = append(feats, "<feature var='"+esc(f)+"'/>")
	}
	var forms []string
	for k, f := range d.Forms {
		var sb strings.Builder
		if len(f.Fields) == 0 && k%2 == 1 {
			sb.WriteString("<x xmlns='jabber:x:data' type='result'/>")
		} else {
			sb.WriteString("<x xmlns='jabber:x:data' type='result'>")
			for _, fl := range f.Fields {
				sb.WriteString("<field")
				if fl.Var != "" {
					sb.WriteString(" var='" + esc(fl.Var) + "'")
				}
				if fl.Typ != "" {
					sb.WriteString(" type='" + esc(HS(fl.Typ)) + "'")
				}
				sb.WriteString(">")
				for _, v := range fl.Vals {
					if v == "" {
						sb.WriteString("<value/>")
					} else {
						sb.WriteString("<value>" + esc(v) + "</value>")
					}
				}
				sb.WriteString("</field>")
			}
			sb.WriteString("</x>")
		}
		forms = append(forms, sb.String())
	}
	// interleave the three kinds, keeping the relative order inside each kind
	var out strings.Builder
	out.WriteString("<query xmlns='http://jabber.org/protocol/disco#info'>")
	a, b, c := 0, 0, 0
	for a < len(parts) || b < len(feats) || c < len(forms) {
		k := 0
		if r != nil {
			k = r.Intn(3)
		}
		for t := 0; t < 3; t++ {
			switch (k + t) % 3 {
			case 0:
				if a < len(parts) {
					out.WriteString(parts[a])
					a++
					t = 3
				}
			case 1:
				if b < len(feats) {
					out.WriteString(feats[b])
					b++
					t = 3
				}
			case 2:
				if c < len(forms) {
					out.WriteString(forms[c])
					c++
					t = 3
				}
			}
		}
	}
	out.WriteString("</query>")
	return out.String()
}

func decodeXML(doc string) (disco.Info, error) {
	var in disco.Info
	err := xml.Unmarshal([]byte(doc), &in)
	return in, err
}

// describe reads back a decoded value through the public API.
func describe(in disco.Info) infoD {
	var d infoD
	for _, i := range in.Identity {
		d.Ids = append(d.Ids, identD{HS(i.Category), HS(i.Type), HS(i.Lang), HS(i.Name)})
	}
	for _, f := range in.Features {
		d.Feats = append(d.Feats, HS(f.Var))
	}
	for k := range in.Form {
		var fd formD
		in.Form[k].ForFields(func(f form.FieldData) {
			fl := fieldD{Var: HS(f.Var), Typ: string(f.Type)}
			for _, v := range f.Raw {
				fl.Vals = append(fl.Vals, HS(v))
			}
			fd.Fields = append(fd.Fields, fl)
		})
		d.Forms = append(d.Forms, fd)
	}
	return d
}

// sameContent compares what the hash may depend on: identities, features and
// per form the (var, values) of every field, in order.
func sameContent(a, b infoD) bool {
	if len(a.Ids) != len(b.Ids) || len(a.Feats) != len(b.Feats) || len(a.Forms) != len(b.Forms) {
		return false
	}
	for i := range a.Ids {
		if a.Ids[i] != b.Ids[i] {
			return false
		}
	}
	for i := range a.Feats {
		if a.Feats[i] != b.Feats[i] {
			return false
		}
	}
	for i := range a.Forms {
		fa, fb := a.Forms[i].Fields, b.Forms[i].Fields
		if len(fa) != len(fb) {
			return false
		}
		for j := range fa {
			if fa[j].Var != fb[j].Var || len(fa[j].Vals) != len(fb[j].Vals) {
				return false
			}
			for k := range fa[j].Vals {
				if fa[j].Vals[k] != fb[j].Vals[k] {
					return false
				}
			}
		}
	}
	return true
}

// ---- independent reference: XEP-0115 section 5.1 ----

// idKey identifies the sort key of an identity (equality only, never ordered).
func idKey(i identD) string {
	return fmt.Sprintf("%d:%s%d:%s%d:%s", len(i.Cat), i.Cat, len(i.Typ), i.Typ, len(i.Lang), i.Lang)
}

func idLess(a, b identD) bool {
	if a.Cat != b.Cat {
		return string(a.Cat) < string(b.Cat)
	}
	if a.Typ != b.Typ {
		return string(a.Typ) < string(b.Typ)
	}
	return string(a.Lang) < string(b.Lang)
}

// permsOf calls f with every order of idx (at most limit orders); false if cut.
func permsOf(idx []int, limit *int, f func([]int)) bool {
	n := len(idx)
	p := append([]int(nil), idx...)
	var rec func(k int) bool
	rec = func(k int) bool {
		if k == n {
			if *limit <= 0 {
				return false
			}
			*limit--
			f(append([]int(nil), p...))
			return true
		}
		for i := k; i < n; i++ {
			p[k], p[i] = p[i], p[k]
			if !rec(k + 1) {
				return false
			}
			p[k], p[i] = p[i], p[k]
		}
		return true
	}
	return rec(0)
}

// tieOrders returns every order of 0..n-1 that is sorted for less (ties in any
// order), or ok=false when there are more than limit.
func tieOrders(n int, less func(i, j int) bool, limit int) (res [][]int, ok bool) {
	idx := make([]int, n)
	for i := range idx {
		idx[i] = i
	}
	sort.SliceStable(idx, func(a, b int) bool { return less(idx[a], idx[b]) })
	res = [][]int{nil}
	for lo := 0; lo < n; {
		hi := lo + 1
		for hi < n && !less(idx[lo], idx[hi]) {
			hi++
		}
		var next [][]int
		lim := limit
		for _, pre := range res {
			if !permsOf(idx[lo:hi], &lim, func(p []int) {
				next = append(next, append(append([]int(nil), pre...), p...))
			}) {
				return nil, false
			}
		}
		if len(next) > limit {
			return nil, false
		}
		res = next
		lo = hi
	}
	return res, true
}

func distinctStrings(l []string) []string {
	seen := map[string]bool{}
	var out []string
	for _, s := range l {
		if !seen[s] {
			seen[s] = true
			out = append(out, s)
		}
	}
	return out
}

func fieldText(f fieldD) string {
	vals := make([]string, 0, len(f.Vals))
	for _, v := range f.Vals {
		vals = append(vals, string(v))
	}
	sort.Strings(vals)
	s := string(f.Var) + "<"
	for _, v := range vals {
		s += v + "<"
	}
	return s
}

// formTypes lists the distinct character data of FORM_TYPE values of a form.
func formTypes(f formD) []string {
	var l []string
	for _, fl := range f.Fields {
		if fl.Var == "FORM_TYPE" {
			for _, v := range fl.Vals {
				l = append(l, string(v))
			}
		}
	}
	return distinctStrings(l)
}

// formCand is one way section 5.1 can render a form: a form type (any of the
// FORM_TYPE values when a malformed form carries several) and the text.
type formCand struct{ ft, text string }

// formCands lists every rendering of a form (fields with equal var in any
// order, any of the FORM_TYPE values). ok=false: too many.
func formCands(f formD) (cands []formCand, ok bool) {
	fts := formTypes(f)
	if len(fts) == 0 {
		fts = []string{""}
	}
	var fields []fieldD
	for _, fl := range f.Fields {
		if fl.Var != "FORM_TYPE" {
			fields = append(fields, fl)
		}
	}
	orders, ok := tieOrders(len(fields), func(i, j int) bool { return string(fields[i].Var) < string(fields[j].Var) }, 64)
	if !ok {
		return nil, false
	}
	var bodies []string
	for _, o := range orders {
		s := ""
		for _, i := range o {
			s += fieldText(fields[i])
		}
		bodies = append(bodies, s)
	}
	bodies = distinctStrings(bodies)
	for _, ft := range fts {
		for _, b := range bodies {
			cands = append(cands, formCand{ft, ft + "<" + b})
		}
	}
	return cands, len(cands) <= 64
}

// ref is the set of strings section 5.1 allows for d (one string unless keys tie).
type ref struct {
	ids, forms []string
	feats      string
	ok         bool // false: too many admissible constructions to enumerate
}

func reference(d infoD) ref {
	var r ref
	orders, ok := tieOrders(len(d.Ids), func(i, j int) bool { return idLess(d.Ids[i], d.Ids[j]) }, 64)
	if !ok {
		return r
	}
	for _, o := range orders {
		s := ""
		for _, i := range o {
			x := d.Ids[i]
			s += string(x.Cat) + "/" + string(x.Typ) + "/" + string(x.Lang) + "/" + string(x.Name) + "<"
		}
		r.ids = append(r.ids, s)
	}
	r.ids = distinctStrings(r.ids)
	feats := make([]string, 0, len(d.Feats))
	for _, f := range d.Feats {
		feats = append(feats, string(f))
	}
	sort.Strings(feats)
	for _, f := range feats {
		r.feats += f + "<"
	}
	cands := make([][]formCand, len(d.Forms))
	total := 1
	for k, f := range d.Forms {
		var ok bool
		cands[k], ok = formCands(f)
		if !ok {
			return r
		}
		total *= len(cands[k])
		if total > 512 {
			return r
		}
	}
	// every choice of a rendering per form, then every FORM_TYPE-sorted order
	choice := make([]formCand, len(d.Forms))
	var rec func(k int) bool
	rec = func(k int) bool {
		if k == len(d.Forms) {
			forders, ok := tieOrders(len(choice), func(i, j int) bool { return choice[i].ft < choice[j].ft }, 64)
			if !ok {
				return false
			}
			for _, o := range forders {
				s := ""
				for _, i := range o {
					s += choice[i].text
				}
				r.forms = append(r.forms, s)
			}
			return len(r.forms) <= 8192
		}
		for _, c := range cands[k] {
			choice[k] = c
			if !rec(k + 1) {
				return false
			}
		}
		return true
	}
	if !rec(0) {
		return r
	}
	r.forms = distinctStrings(r.forms)
	r.ok = true
	return r
}

func (r ref) accepts(s string) bool {
	for _, a := range r.ids {
		pre := a + r.feats
		if strings.HasPrefix(s, pre) {
			rest := s[len(pre):]
			for _, f := range r.forms {
				if rest == f {
					return true
				}
			}
		}
	}
	return false
}

// ---- shape predicates (which oracle clauses apply) ----

func dupIDKeys(d infoD) bool {
	seen := map[string]HS{}
	for _, i := range d.Ids {
		if n, ok := seen[idKey(i)]; ok && n != i.Name {
			return true
		}
		seen[idKey(i)] = i.Name
	}
	return false
}

func multiFT(d infoD) bool {
	for _, f := range d.Forms {
		if len(formTypes(f)) > 1 {
			return true
		}
	}
	return false
}

func hasEmptyForm(d infoD) bool {
	for _, f := range d.Forms {
		if len(f.Fields) == 0 {
			return true
		}
	}
	return false
}

var stringFT = map[string]bool{"": true, "hidden": true, "text-single": true, "text-private": true, "list-single": true}

// ftNotPlain: some FORM_TYPE field is not of a single-string type, or a value
// was Set over it, or a form has several FORM_TYPE fields.
func ftNotPlain(d infoD) bool {
	for _, f := range d.Forms {
		if f.SetFT != nil {
			return true
		}
		n := 0
		for _, fl := range f.Fields {
			if fl.Var == "FORM_TYPE" {
				n++
				if !stringFT[fl.Typ] || n > 1 {
					return true
				}
			}
		}
	}
	return false
}

func dupVars(d infoD) bool {
	for _, f := range d.Forms {
		seen := map[HS]bool{}
		for _, fl := range f.Fields {
			if fl.Var != "FORM_TYPE" && seen[fl.Var] {
				return true
			}
			seen[fl.Var] = true
		}
	}
	return false
}

// ---- running the implementation ----

type runner struct {
	res   *hx.Result
	hc    hx.CaseFile
	r     *hx.Rand
	bytes int
	limit int // budget of Coq term bytes

	tc     hx.CaseFile // histories of calls for the heap model (dst.go)
	tbytes int
	tlimit int

	dstEvery int // one() runs a seeded history per info; every dstEvery-th goes to the heap model (0: none)
	dstCount int
}

func (x *runner) build(via string, d infoD) disco.Info {
	if via == "xml" {
		in, _ := decodeXML(toXML(d, nil))
		return in
	}
	return buildStruct(d)
}

// verString runs AppendHash(dst, recording hash) on a fresh value and returns
// the decoded dst ++ string.
func verString(in disco.Info, dst []byte) (out string, s string, panicked string) {
	var o []byte
	panicked = hx.Catch(func() { o = in.AppendHash(dst, &recHash{}) })
	if panicked != "" {
		return "", "", panicked
	}
	raw, err := base64.StdEncoding.DecodeString(string(o))
	if err != nil || !bytes.HasPrefix(raw, dst) {
		return string(o), "\x00undecodable", ""
	}
	return string(o), string(raw[len(dst):]), ""
}

func coqInfo(d infoD) string {
	var sb strings.Builder
	sb.WriteString("(mkinfo [")
	for k, i := range d.Ids {
		if k > 0 {
			sb.WriteString("; ")
		}
		fmt.Fprintf(&sb, "mkid %s %s %s %s", hx.CoqBytes([]byte(i.Cat)), hx.CoqBytes([]byte(i.Typ)), hx.CoqBytes([]byte(i.Lang)), hx.CoqBytes([]byte(i.Name)))
	}
	sb.WriteString("] [")
	for k, f := range d.Feats {
		if k > 0 {
			sb.WriteString("; ")
		}
		sb.WriteString(hx.CoqBytes([]byte(f)))
	}
	sb.WriteString("] [")
	for k, f := range d.Forms {
		if k > 0 {
			sb.WriteString("; ")
		}
		sb.WriteString("[")
		for j, fl := range f.Fields {
			if j > 0 {
				sb.WriteString("; ")
			}
			sb.WriteString("mkfield " + hx.CoqBytes([]byte(fl.Var)) + " [")
			for m, v := range fl.Vals {
				if m > 0 {
					sb.WriteString("; ")
				}
				sb.WriteString(hx.CoqBytes([]byte(v)))
			}
			sb.WriteString("]")
		}
		sb.WriteString("]")
	}
	sb.WriteString("])")
	return sb.String()
}

func (x *runner) emit(c hCase, dst []byte, panicked bool, out string) {
	if x.bytes > x.limit {
		x.res.Histogram["coq-case-skipped:budget"]++
		return
	}
	if dupIDKeys(c.Info) && len(c.Info.Ids) > 12 {
		// sort.Slice is not stable beyond 12 elements: order among equal keys unspecified
		x.res.Histogram["coq-case-skipped:unstable-sort"]++
		return
	}
	term := fmt.Sprintf("mkhcase %s %s %s %s", coqInfo(c.Info), hx.CoqBytes(dst), hx.CoqBool(panicked), hx.CoqBytes([]byte(out)))
	x.bytes += len(term)
	x.hc.Add(term, c)
}

func panicKey(d infoD) string {
	if hasEmptyForm(d) {
		return "C20/hash/panic:empty-form"
	}
	return "C20/hash/panic:other"
}

// algos: the hash functions of crypto/crypto.go by their XMPP names, each with
// an independently constructed reference.
var algos = []struct {
	name string
	ref  func() hash.Hash
}{
	{"sha-1", sha1.New}, {"sha-224", sha256.New224}, {"sha-256", sha256.New}, {"sha-384", sha512.New384},
	{"sha-512", sha512.New}, {"sha3-256", sha3.New256}, {"sha3-512", sha3.New512},
	{"blake2b256", func() hash.Hash { h, _ := blake2b.New256(nil); return h }},
	{"blake2b512", func() hash.Hash { h, _ := blake2b.New512(nil); return h }},
}

// xepKey classifies a disagreement with section 5.1 by the part of the string
// that differs; for the forms part every form is hashed on its own to tell a
// wrong order of correct forms from a wrong form type or wrong fields.
func (x *runner) xepKey(via string, d infoD, r ref, s string) string {
	idsOK := false
	for _, a := range r.ids {
		if strings.HasPrefix(s, a) {
			idsOK = true
			if strings.HasPrefix(s, a+r.feats) {
				for _, f := range d.Forms {
					one := infoD{Forms: []formD{f}}
					_, sk, p := verString(x.build(via, cloneInfo(one)), nil)
					cands, ok := formCands(f)
					if p != "" || !ok {
						continue
					}
					good, typeOK := false, false
					for _, c := range cands {
						if sk == c.text {
							good = true
						}
						if strings.HasPrefix(sk, c.ft+"<") {
							typeOK = true
						}
					}
					if !good && !typeOK {
						return "C20/hash/xep:forms/form-type"
					}
					if !good {
						return "C20/hash/xep:forms/fields"
					}
				}
				return "C20/hash/xep:forms/order"
			}
		}
	}
	if idsOK {
		return "C20/hash/xep:features"
	}
	return "C20/hash/xep:identities"
}

// one evaluates every oracle clause on one info value.
func (x *runner) one(via string, d infoD, emit bool) {
	r := x.r
	if via == "xml" && !sameContent(describe(x.build(via, d)), d) {
		// the reply does not decode to the described value: a matter of the
		// form/info decoders (C19/C13), not of the hash
		x.res.Histogram["xml:decodes-differently(skipped)"]++
		return
	}
	c := hCase{Kind: "hash", Via: via, Info: d}
	classes := []string{"via:" + via, fmt.Sprintf("forms:%d", min(len(d.Forms), 4)), fmt.Sprintf("ids:%s", bucket(len(d.Ids))), fmt.Sprintf("feats:%s", bucket(len(d.Feats)))}
	if hasEmptyForm(d) {
		classes = append(classes, "shape:empty-form")
	}
	if multiFT(d) {
		classes = append(classes, "shape:several-form-types")
	}
	if dupVars(d) {
		classes = append(classes, "shape:duplicate-var")
	}
	if ftNotPlain(d) {
		classes = append(classes, "shape:form-type-not-plain")
	}
	if dupIDKeys(d) {
		classes = append(classes, "shape:duplicate-identity-key")
	}
	canon, _ := json.Marshal(d)
	x.res.Count(via+string(canon), len(d.Ids)+len(d.Feats) > 1 || len(d.Forms) > 0, classes...)
	x.res.Sample(c)

	// 1. no panic; the string
	_, s0, p := verString(x.build(via, d), nil)
	if p != "" {
		x.res.Fail(panicKey(d), "Info.AppendHash panics: "+p, c)
		if emit {
			x.emit(c, nil, true, "")
		}
		return
	}
	if s0 == "\x00undecodable" {
		x.res.Fail("C20/appendhash/not-base64", "AppendHash(nil, h) is not the base64 of the sum", c)
		return
	}
	// 2. section 5.1
	rf := reference(d)
	if rf.ok && !rf.accepts(s0) {
		x.res.Fail(x.xepKey(via, d, rf, s0), fmt.Sprintf("verification string %q is not a construction of XEP-0115 5.1 (e.g. %q)", s0, rf.ids[0]+rf.feats+rf.forms[0]), c)
	}
	// 3. Hash = AppendHash(nil) = AppendHash(empty); repeatable on the same value
	{
		in := x.build(via, d)
		var a, b, e, again string
		if p := hx.Catch(func() {
			a = in.Hash(&recHash{})
			b = string(in.AppendHash(nil, &recHash{}))
			e = string(in.AppendHash([]byte{}, &recHash{}))
			again = in.Hash(&recHash{})
		}); p != "" {
			x.res.Fail(panicKey(d), "Info.Hash panics on a value already hashed: "+p, c)
		} else {
			if a != b || a != e {
				x.res.Fail("C20/appendhash/empty-dst", fmt.Sprintf("Hash=%q AppendHash(nil)=%q AppendHash(empty)=%q", a, b, e), c)
			}
			if a != again || a != base64.StdEncoding.EncodeToString([]byte(s0)) {
				x.res.Fail("C20/hash/repeat", "hashing the same value again gives a different string", c)
			}
		}
	}
	// 4. every supported hash function sees the same string
	if r.Chance(1, 3) {
		for _, al := range algos {
			ah, err := xcrypto.Parse(al.name)
			if err != nil || !ah.Available() {
				x.res.Histogram["algo-unavailable:"+al.name]++
				continue
			}
			in := x.build(via, d)
			var got string
			if p := hx.Catch(func() { got = in.Hash(ah.New()) }); p != "" {
				x.res.Fail(panicKey(d), "Info.Hash("+al.name+") panics: "+p, c)
				continue
			}
			hh := al.ref()
			hh.Write([]byte(s0))
			if want := base64.StdEncoding.EncodeToString(hh.Sum(nil)); got != want {
				x.res.Fail("C20/hash/algo", fmt.Sprintf("Hash(%s)=%q but the %s of the recorded string is %q", al.name, got, al.name, want), c)
			}
			x.res.Histogram["algo:"+al.name]++
		}
	}
	// 5. permutation invariance, level by level
	for _, level := range []string{"identities", "features", "forms", "fields", "values", "all"} {
		for _, pd := range x.perms(level, d) {
			pd := pd
			if (level == "identities" || level == "all") && dupIDKeys(d) {
				continue // outside the property's quantifier (distinct identity keys)
			}
			_, s1, p := verString(x.build(via, pd), nil)
			cc := hCase{Kind: "order", Via: via, Info: d, Perm: &pd, Level: level}
			if p != "" {
				x.res.Fail(panicKey(pd), "Info.AppendHash panics: "+p, cc)
				continue
			}
			x.res.Histogram["perm:"+level]++
			if s1 != s0 {
				key := level
				if level == "all" {
					key = "combined"
				}
				x.res.Fail("C20/hash/order:"+key, fmt.Sprintf("permuting %s changes the verification string: %q vs %q", level, s0, s1), cc)
			}
			if emit && level == "all" && s1 == s0 && x.r.Bool() {
				x.emit(hCase{Kind: "hash", Via: via, Info: pd}, nil, false, base64.StdEncoding.EncodeToString([]byte(s1)))
			}
		}
	}
	// the correspondence case, with a destination that is sometimes not empty
	if emit {
		var dst []byte
		if r.Chance(1, 4) {
			dst = randBytes(r, 1+r.Intn(5))
		}
		out, _, p := verString(x.build(via, d), dst)
		c.Dst = HS(dst)
		x.emit(c, dst, p != "", out)
	}
	// 6. the destination as a slice: capacities, spare contents, reused buffers
	if x.dstEvery > 0 {
		x.dstCount++
		bufs, steps := x.genHistory(len(s0))
		x.history(via, d, bufs, steps, emit && x.dstCount%x.dstEvery == 0)
	}
}

// pair re-checks one recorded permutation (replay of an order failure).
func (x *runner) pair(via string, d, pd infoD, level string) {
	_, s0, p0 := verString(x.build(via, d), nil)
	_, s1, p1 := verString(x.build(via, pd), nil)
	cc := hCase{Kind: "order", Via: via, Info: d, Perm: &pd, Level: level}
	if p0 != "" || p1 != "" {
		return // reported by one()
	}
	if s0 != s1 {
		key := level
		if level == "all" || level == "" {
			key = "combined"
		}
		x.res.Fail("C20/hash/order:"+key, fmt.Sprintf("permuting %s changes the verification string: %q vs %q", level, s0, s1), cc)
	}
}

func bucket(n int) string {
	switch {
	case n <= 3:
		return fmt.Sprint(n)
	case n <= 12:
		return "4-12"
	}
	return ">12"
}

// ---- permutations ----

func shuffle[T any](r *hx.Rand, l []T) {
	for i := len(l) - 1; i > 0; i-- {
		j := r.Intn(i + 1)
		l[i], l[j] = l[j], l[i]
	}
}

func allPerms[T any](l []T, f func([]T)) {
	idx := make([]int, len(l))
	for i := range idx {
		idx[i] = i
	}
	lim := 1 << 30
	permsOf(idx, &lim, func(p []int) {
		o := make([]T, len(l))
		for i, j := range p {
			o[i] = l[j]
		}
		f(o)
	})
}

// perms returns permuted copies of d at one level: every permutation when the
// level has at most 4 elements (3 for nested levels), otherwise reversal,
// rotation and seeded shuffles.
func (x *runner) perms(level string, d infoD) []infoD {
	var out []infoD
	few := func(n int) bool { return n >= 2 && n <= 4 }
	switch level {
	case "identities":
		if few(len(d.Ids)) {
			allPerms(d.Ids, func(p []identD) { c := cloneInfo(d); c.Ids = p; out = append(out, c) })
		} else if len(d.Ids) > 4 {
			for k := 0; k < 3; k++ {
				c := cloneInfo(d)
				x.scramble3(k, func() { shuffle(x.r, c.Ids) }, func() { reverse(c.Ids) }, func() { rotate(c.Ids) })
				out = append(out, c)
			}
		}
	case "features":
		if few(len(d.Feats)) {
			allPerms(d.Feats, func(p []HS) { c := cloneInfo(d); c.Feats = p; out = append(out, c) })
		} else if len(d.Feats) > 4 {
			for k := 0; k < 3; k++ {
				c := cloneInfo(d)
				x.scramble3(k, func() { shuffle(x.r, c.Feats) }, func() { reverse(c.Feats) }, func() { rotate(c.Feats) })
				out = append(out, c)
			}
		}
	case "forms":
		if few(len(d.Forms)) {
			allPerms(d.Forms, func(p []formD) { c := cloneInfo(d); c.Forms = cloneInfo(infoD{Forms: p}).Forms; out = append(out, c) })
		} else if len(d.Forms) > 4 {
			for k := 0; k < 3; k++ {
				c := cloneInfo(d)
				x.scramble3(k, func() { shuffle(x.r, c.Forms) }, func() { reverse(c.Forms) }, func() { rotate(c.Forms) })
				out = append(out, c)
			}
		}
	case "fields":
		for fi := range d.Forms {
			n := len(d.Forms[fi].Fields)
			if n >= 2 && n <= 3 {
				fi := fi
				allPerms(d.Forms[fi].Fields, func(p []fieldD) {
					c := cloneInfo(d)
					c.Forms[fi].Fields = cloneInfo(infoD{Forms: []formD{{Fields: p}}}).Forms[0].Fields
					out = append(out, c)
				})
			} else if n > 3 {
				for k := 0; k < 3; k++ {
					c := cloneInfo(d)
					fl := c.Forms[fi].Fields
					x.scramble3(k, func() { shuffle(x.r, fl) }, func() { reverse(fl) }, func() { rotate(fl) })
					out = append(out, c)
				}
			}
		}
	case "values":
		any := false
		c1, c2 := cloneInfo(d), cloneInfo(d)
		for fi := range d.Forms {
			for fj := range d.Forms[fi].Fields {
				if len(d.Forms[fi].Fields[fj].Vals) >= 2 {
					any = true
					reverse(c1.Forms[fi].Fields[fj].Vals)
					shuffle(x.r, c2.Forms[fi].Fields[fj].Vals)
				}
			}
		}
		if any {
			out = append(out, c1, c2)
		}
	case "all":
		for k := 0; k < 2; k++ {
			c := cloneInfo(d)
			shuffle(x.r, c.Ids)
			shuffle(x.r, c.Feats)
			shuffle(x.r, c.Forms)
			for fi := range c.Forms {
				shuffle(x.r, c.Forms[fi].Fields)
				for fj := range c.Forms[fi].Fields {
					shuffle(x.r, c.Forms[fi].Fields[fj].Vals)
				}
			}
			out = append(out, c)
		}
	}
	return out
}

func (x *runner) scramble3(k int, a, b, c func()) {
	switch k {
	case 0:
		a()
	case 1:
		b()
	default:
		c()
	}
}

func reverse[T any](l []T) {
	for i, j := 0, len(l)-1; i < j; i, j = i+1, j-1 {
		l[i], l[j] = l[j], l[i]
	}
}

func rotate[T any](l []T) {
	if len(l) > 1 {
		first := l[0]
		copy(l, l[1:])
		l[len(l)-1] = first
	}
}

// ---- generators ----

func randBytes(r *hx.Rand, n int) []byte {
	b := make([]byte, n)
	for i := range b {
		b[i] = byte(r.Intn(256))
	}
	return b
}

// atoms: short strings that order differently under bytewise comparison,
// comparison of the '<'-terminated text, case folding, rune or UTF-16 order.
var atoms = []string{
	"", "a", "a ", "a!", "a1", "a:", "a<", "a<b", "a=", "aa", "ab", "b", "B", "A", "Z", "z", "_", "a/b", "/", "<", "<<",
	"é", "e", "f", "É", "Ψ 0.11", "～", "\U0001F600", "�", "10", "9", "2", " ", "a\nb", "a&b", "a'b", "a\"b", "ab<",
}

var realFeatures = []string{
	"http://jabber.org/protocol/caps", "http://jabber.org/protocol/disco#info", "http://jabber.org/protocol/disco#items",
	"http://jabber.org/protocol/muc", "urn:xmpp:ping", "urn:xmpp:time", "jabber:iq:version", "urn:xmpp:receipts",
	"http://jabber.org/protocol/disco#info ", "http://jabber.org/protocol/disco", "urn:xmpp:mam:2", "urn:xmpp:carbons:2",
	"vcard-temp", "jabber:iq:last", "http://jabber.org/protocol/commands", "urn:xmpp:sid:0", "urn:xmpp:avatar:metadata+notify",
}

var realFormTypes = []string{"urn:xmpp:dataforms:softwareinfo", "http://jabber.org/network/serverinfo", "http://jabber.org/protocol/muc#roominfo", "urn:xmpp:dataforms:softwareinfo2"}
var realVars = []string{"ip_version", "os", "os_version", "software", "software_version", "abuse-addresses", "admin-addresses", "muc#roominfo_description", "os2"}
var cats = []string{"client", "server", "conference", "Client", "client ", "clien", "account", ""}
var types = []string{"pc", "phone", "im", "text", "pc2", "p", "", "bot"}
var langs = []string{"", "en", "el", "de", "en-US", "EN", "e"}

func (x *runner) str(xmlSafe bool) HS {
	r := x.r
	switch r.Intn(12) {
	case 0, 1, 2, 3, 4, 5:
		return HS(atoms[r.Intn(len(atoms))])
	case 6, 7:
		return HS(atoms[r.Intn(len(atoms))] + atoms[r.Intn(len(atoms))])
	case 8:
		return HS(realFeatures[r.Intn(len(realFeatures))])
	case 9:
		n := r.Intn(6)
		b := make([]byte, n)
		for i := range b {
			b[i] = " !09:;<=>?@AZaz~"[r.Intn(16)]
		}
		return HS(b)
	case 10:
		if !xmlSafe {
			return HS(randBytes(r, r.Intn(5)))
		}
		return HS(strings.Repeat("ab", r.Intn(4)))
	}
	return HS(realVars[r.Intn(len(realVars))])
}

func (x *runner) genIdentity(xmlSafe bool) identD {
	r := x.r
	if r.Chance(1, 6) {
		return identD{x.str(xmlSafe), x.str(xmlSafe), x.str(xmlSafe), x.str(xmlSafe)}
	}
	return identD{HS(cats[r.Intn(len(cats))]), HS(types[r.Intn(len(types))]), HS(langs[r.Intn(len(langs))]), x.str(xmlSafe)}
}

func (x *runner) genField(xmlSafe bool, via string) fieldD {
	r := x.r
	f := fieldD{Var: x.str(xmlSafe)}
	if r.Chance(1, 2) {
		f.Var = HS(realVars[r.Intn(len(realVars))])
	}
	if via == "xml" {
		f.Typ = []string{"", "", "hidden", "text-single", "text-multi", "list-multi", "boolean", "fixed", "jid-single", "bogus", "list-single", "text-private", "jid-multi"}[r.Intn(13)]
	} else {
		f.Typ = structTypes[r.Intn(len(structTypes))]
		if r.Chance(1, 12) {
			f.Typ, f.Var = "fixed", ""
		}
	}
	nv := []int{0, 1, 1, 1, 2, 2, 3, 4}[r.Intn(8)]
	if r.Chance(1, 40) {
		nv = 13 + r.Intn(6)
	}
	for i := 0; i < nv; i++ {
		f.Vals = append(f.Vals, x.str(xmlSafe))
	}
	if nv >= 2 && r.Chance(1, 4) {
		f.Vals[nv-1] = f.Vals[0]
	}
	return f
}

func (x *runner) genForm(xmlSafe bool, via string) formD {
	r := x.r
	var f formD
	switch r.Intn(14) {
	case 0:
		if via == "struct" && r.Bool() {
			f.Zero = true
		}
		return f // empty form
	}
	nf := []int{0, 1, 2, 2, 3, 3, 4, 5}[r.Intn(8)]
	if r.Chance(1, 30) {
		nf = 13 + r.Intn(5)
	}
	for i := 0; i < nf; i++ {
		f.Fields = append(f.Fields, x.genField(xmlSafe, via))
	}
	if nf >= 2 && r.Chance(1, 8) { // duplicate var
		f.Fields[nf-1].Var = f.Fields[0].Var
		if via == "struct" && f.Fields[nf-1].Typ == "fixed" {
			f.Fields[nf-1].Typ = "text-single" // form.Fixed has no var
		}
		if r.Bool() {
			f.Fields[nf-1].Vals = append([]HS(nil), f.Fields[0].Vals...)
		}
	}
	// FORM_TYPE
	k := r.Intn(10)
	if k < 7 {
		ft := fieldD{Var: "FORM_TYPE", Typ: "hidden", Vals: []HS{HS(realFormTypes[r.Intn(len(realFormTypes))])}}
		if r.Chance(1, 3) {
			ft.Vals[0] = x.str(xmlSafe)
		}
		switch r.Intn(16) {
		case 0:
			ft.Vals = nil
		case 1:
			ft.Vals = append(ft.Vals, ft.Vals[0])
		case 2:
			ft.Vals = append(ft.Vals, x.str(xmlSafe))
		case 3, 4:
			if via == "xml" {
				ft.Typ = []string{"", "text-single", "boolean", "text-multi", "list-multi", "fixed", "bogus", "jid-single"}[r.Intn(8)]
			} else {
				ft.Typ = structTypes[r.Intn(len(structTypes))]
			}
		}
		pos := r.Intn(len(f.Fields) + 1)
		f.Fields = append(f.Fields[:pos], append([]fieldD{ft}, f.Fields[pos:]...)...)
		if r.Chance(1, 20) { // a second FORM_TYPE field
			ft2 := fieldD{Var: "FORM_TYPE", Typ: "hidden", Vals: []HS{ft.Vals0()}}
			if r.Bool() {
				ft2.Vals = []HS{x.str(xmlSafe)}
			}
			f.Fields = append(f.Fields, ft2)
		}
		if via == "struct" && r.Chance(1, 25) {
			v := x.str(xmlSafe)
			f.SetFT = &v
		}
	}
	return f
}

func (f fieldD) Vals0() HS {
	if len(f.Vals) > 0 {
		return f.Vals[0]
	}
	return ""
}

func (x *runner) genInfo(via string) infoD {
	r := x.r
	xmlSafe := via == "xml"
	var d infoD
	ni := []int{0, 1, 1, 2, 2, 3, 4, 6}[r.Intn(8)]
	if r.Chance(1, 25) {
		ni = 13 + r.Intn(8)
	}
	seen := map[string]bool{}
	for len(d.Ids) < ni {
		i := x.genIdentity(xmlSafe)
		if seen[idKey(i)] && !r.Chance(1, 30) {
			if ni > 13 {
				i.Lang = HS(fmt.Sprintf("x%d", len(d.Ids)))
			} else {
				continue
			}
		}
		seen[idKey(i)] = true
		d.Ids = append(d.Ids, i)
	}
	if len(d.Ids) >= 2 && len(d.Ids) <= 12 && r.Chance(1, 15) {
		// equal category/type/lang: outside the property's quantifier for permutations,
		// still hashed (stable order) and compared with the model
		k := len(d.Ids) - 1
		d.Ids[k] = d.Ids[0]
		if r.Chance(2, 3) {
			d.Ids[k].Name = x.str(xmlSafe)
		}
	}
	nf := []int{0, 1, 2, 3, 4, 5, 8}[r.Intn(7)]
	if r.Chance(1, 25) {
		nf = 13 + r.Intn(20)
	}
	for i := 0; i < nf; i++ {
		if r.Chance(2, 3) {
			d.Feats = append(d.Feats, HS(realFeatures[r.Intn(len(realFeatures))]))
		} else {
			d.Feats = append(d.Feats, x.str(xmlSafe))
		}
	}
	nx := []int{0, 0, 1, 1, 2, 2, 3, 4}[r.Intn(8)]
	if r.Chance(1, 60) {
		nx = 5 + r.Intn(9)
	}
	for i := 0; i < nx; i++ {
		d.Forms = append(d.Forms, x.genForm(xmlSafe, via))
	}
	if nx >= 2 && r.Chance(1, 6) { // two forms with the same FORM_TYPE, or copies
		src := d.Forms[0]
		cp := cloneInfo(infoD{Forms: []formD{src}}).Forms[0]
		if r.Bool() && len(cp.Fields) > 0 {
			cp.Fields = cp.Fields[:len(cp.Fields)-1]
		}
		d.Forms[nx-1] = cp
	}
	return d
}

func xmlOK(d infoD) bool {
	ok := func(s HS) bool {
		for _, c := range string(s) {
			if c == 0xfffd || c < 0x20 && c != '\n' && c != '\t' {
				return false
			}
		}
		return true
	}
	for _, i := range d.Ids {
		if !ok(i.Cat) || !ok(i.Typ) || !ok(i.Lang) || !ok(i.Name) {
			return false
		}
	}
	for _, f := range d.Feats {
		if !ok(f) {
			return false
		}
	}
	for _, f := range d.Forms {
		for _, fl := range f.Fields {
			if !ok(fl.Var) {
				return false
			}
			for _, v := range fl.Vals {
				if !ok(v) {
					return false
				}
			}
		}
	}
	return true
}

// rawXML runs a document as a peer's reply: decoded (errors allowed), described
// through the public API, then every clause.
func (x *runner) rawXML(doc string, emit bool) {
	var in disco.Info
	var err error
	if p := hx.Catch(func() { in, err = decodeXML(doc) }); p != "" {
		x.res.Histogram["rawxml:decode-panic(not C20)"]++
		return
	}
	if err != nil {
		x.res.Histogram["rawxml:decode-error"]++
	} else {
		x.res.Histogram["rawxml:decoded"]++
	}
	// the decoded value itself (not a rebuilt one) must hash without panicking
	d := describe(in)
	var o []byte
	if p := hx.Catch(func() { o = in.AppendHash(nil, &recHash{}) }); p != "" {
		x.res.Fail(panicKey(d), "Info.AppendHash panics on a decoded reply: "+p, hCase{Kind: "xml", Via: "rawxml", Info: d, Raw: HS(doc)})
	} else if emit {
		x.emit(hCase{Kind: "xml", Via: "rawxml", Info: d, Raw: HS(doc)}, nil, false, string(o))
	}
	if xmlOK(d) {
		x.one("xml", d, false)
	}
}

func (x *runner) mangle(doc string) string {
	r := x.r
	junk := []string{"<foo/>", "<reported><field var='a'/></reported>", "<item/>", "<title>t</title>", "<instructions>i</instructions>",
		"text", "<value>v</value>", "<field/>", "<field var='FORM_TYPE'/>", "<x xmlns='jabber:x:data'/>", "<!-- c -->", "<required/>", "<desc>d</desc>",
		"<option label='l'><value>o</value></option>", "<field var='FORM_TYPE' type='hidden'><value>z</value></field>", "<value><b/></value>"}
	for k := 0; k < 1+r.Intn(2); k++ {
		switch r.Intn(5) {
		case 0, 1, 2: // insert junk after some '>'
			var pos []int
			for i := 0; i < len(doc); i++ {
				if doc[i] == '>' {
					pos = append(pos, i+1)
				}
			}
			if len(pos) > 0 {
				p := pos[r.Intn(len(pos))]
				doc = doc[:p] + junk[r.Intn(len(junk))] + doc[p:]
			}
		case 3: // truncate
			if len(doc) > 0 {
				doc = doc[:r.Intn(len(doc))]
			}
		case 4: // drop the content of a form
			if i := strings.Index(doc, "<x xmlns='jabber:x:data' type='result'>"); i >= 0 {
				if j := strings.Index(doc[i:], "</x>"); j >= 0 {
					doc = doc[:i] + "<x xmlns='jabber:x:data'/>" + doc[i+j+4:]
				}
			}
		}
	}
	return doc
}

// ---- corpus ----

func hs(l ...string) []HS {
	var o []HS
	for _, s := range l {
		o = append(o, HS(s))
	}
	return o
}

func fld(v, typ string, vals ...string) fieldD {
	return fieldD{Var: HS(v), Typ: typ, Vals: hs(vals...)}
}

var xepSimple = infoD{
	Ids:   []identD{{"client", "pc", "", "Exodus 0.9.1"}},
	Feats: hs("http://jabber.org/protocol/caps", "http://jabber.org/protocol/disco#info", "http://jabber.org/protocol/disco#items", "http://jabber.org/protocol/muc"),
}

var softwareInfo = formD{Fields: []fieldD{
	fld("FORM_TYPE", "hidden", "urn:xmpp:dataforms:softwareinfo"),
	fld("ip_version", "text-multi", "ipv4", "ipv6"),
	fld("os", "text-single", "Mac"),
	fld("os_version", "text-single", "10.5.1"),
	fld("software", "text-single", "Psi"),
	fld("software_version", "text-single", "0.11"),
}}

var xepComplex = infoD{
	Ids:   []identD{{"client", "pc", "en", "Psi 0.11"}, {"client", "pc", "el", "Ψ 0.11"}},
	Feats: xepSimple.Feats,
	Forms: []formD{softwareInfo},
}

var serverInfo = formD{Fields: []fieldD{
	fld("FORM_TYPE", "hidden", "http://jabber.org/network/serverinfo"),
	fld("abuse-addresses", "list-multi", "mailto:abuse@shakespeare.lit", "xmpp:abuse@shakespeare.lit"),
	fld("admin-addresses", "list-multi", "xmpp:admin@shakespeare.lit"),
}}

func corpus() []struct {
	via string
	d   infoD
} {
	type e = struct {
		via string
		d   infoD
	}
	zz := HS("zzz")
	return []e{
		{"struct", xepSimple}, {"struct", xepComplex}, {"xml", xepSimple}, {"xml", xepComplex},
		// defect seen on the pinned tree: a form without fields (make with capacity -1)
		{"struct", infoD{Feats: hs("a"), Forms: []formD{{}}}},
		{"struct", infoD{Feats: hs("a"), Forms: []formD{{Zero: true}}}},
		{"xml", infoD{Ids: xepSimple.Ids, Feats: hs("a"), Forms: []formD{{}}}},
		{"xml", infoD{Forms: []formD{softwareInfo, {}}}},
		// defect seen on the pinned tree: forms are not sorted by FORM_TYPE
		{"struct", infoD{Ids: xepSimple.Ids, Feats: hs("a"), Forms: []formD{softwareInfo, serverInfo}}},
		{"xml", infoD{Ids: xepSimple.Ids, Feats: hs("a"), Forms: []formD{softwareInfo, serverInfo}}},
		// form type order is not the order of the '<'-terminated text: "a" < "a1" but "a1<" < "a<"
		{"struct", infoD{Forms: []formD{{Fields: []fieldD{fld("FORM_TYPE", "hidden", "a1"), fld("x", "text-single", "1")}}, {Fields: []fieldD{fld("FORM_TYPE", "hidden", "a"), fld("x", "text-single", "1")}}}}},
		{"struct", infoD{Forms: []formD{{Fields: []fieldD{fld("FORM_TYPE", "hidden", "t"), fld("a1", "text-single", "1"), fld("a", "text-single", "2")}}}}},
		// forms without FORM_TYPE, permuted
		{"struct", infoD{Forms: []formD{{Fields: []fieldD{fld("b", "text-single", "1")}}, {Fields: []fieldD{fld("a", "text-single", "2")}}}}},
		{"xml", infoD{Forms: []formD{{Fields: []fieldD{fld("b", "", "1")}}, {Fields: []fieldD{fld("a", "", "2")}}, softwareInfo}}},
		// FORM_TYPE field that is not a single-string field, or has a value Set over it
		{"xml", infoD{Forms: []formD{{Fields: []fieldD{fld("FORM_TYPE", "boolean", "urn:xmpp:dataforms:softwareinfo"), fld("os", "", "Mac")}}}}},
		{"xml", infoD{Forms: []formD{{Fields: []fieldD{fld("FORM_TYPE", "text-multi", "t", "t"), fld("os", "", "Mac")}}}}},
		{"struct", infoD{Forms: []formD{{Fields: []fieldD{fld("FORM_TYPE", "list-multi", "t"), fld("os", "text-single", "Mac")}}}}},
		{"struct", infoD{Forms: []formD{{Fields: []fieldD{fld("FORM_TYPE", "hidden", "t"), fld("os", "text-single", "Mac")}, SetFT: &zz}}}},
		// two fields with the same var and different values
		{"struct", infoD{Forms: []formD{{Fields: []fieldD{fld("FORM_TYPE", "hidden", "t"), fld("a", "text-single", "x"), fld("a", "text-single", "y")}}}}},
		{"xml", infoD{Forms: []formD{{Fields: []fieldD{fld("FORM_TYPE", "hidden", "t"), fld("", "fixed", "Section 2"), fld("", "fixed", "Section 1")}}}}},
		// multi-valued fields out of order; duplicate values; empty value
		{"struct", infoD{Forms: []formD{{Fields: []fieldD{fld("FORM_TYPE", "hidden", "t"), fld("m", "list-multi", "b", "a", "", "b", "a1", "a<", "a")}}}}},
		// identities differing in one key only; keys that are prefixes of each other
		{"struct", infoD{Ids: []identD{{"client", "pc", "en", "n"}, {"client", "pc", "", "n"}, {"client", "p", "en", "n"}, {"clien", "pc", "en", "n"}, {"client", "pc", "EN", "m"}}}},
		{"struct", infoD{Ids: []identD{{"a", "b/c", "", ""}, {"a/b", "c", "", ""}}, Feats: hs("b", "a<", "a", "a1", "B", "")}},
		// non-ASCII: bytewise order differs from UTF-16 order for U+FF5E vs U+1F600
		{"struct", infoD{Feats: hs("\U0001F600", "～", "é", "e", "z"), Ids: []identD{{"client", "pc", "el", "Ψ 0.11"}, {"client", "pc", "de", "Ψ"}}}},
		// bytes that are not UTF-8
		{"struct", infoD{Feats: hs("\xff", "\x80a", "a"), Forms: []formD{{Fields: []fieldD{fld("FORM_TYPE", "hidden", "\xfe"), fld("\xc3", "text-single", "\x00")}}}}},
		// several FORM_TYPE fields / values
		{"xml", infoD{Forms: []formD{{Fields: []fieldD{fld("FORM_TYPE", "hidden"), fld("FORM_TYPE", "hidden", "t"), fld("a", "", "1")}}}}},
		{"xml", infoD{Forms: []formD{{Fields: []fieldD{fld("FORM_TYPE", "hidden", "u", "t"), fld("a", "", "1")}}}}},
		{"struct", infoD{}},
	}
}

var rawCorpus = []string{
	`<query xmlns='http://jabber.org/protocol/disco#info'><identity category='client' type='pc'/><feature var='a'/><x xmlns='jabber:x:data' type='result'/></query>`,
	`<query xmlns='http://jabber.org/protocol/disco#info'><x xmlns='jabber:x:data'></x><x xmlns='jabber:x:data' type='result'><field var='FORM_TYPE' type='hidden'><value>t</value></field></x></query>`,
	`<query xmlns='http://jabber.org/protocol/disco#info'><x xmlns='jabber:x:data' type='result'><title>only a title</title></x></query>`,
	`<query xmlns='http://jabber.org/protocol/disco#info'><x xmlns='jabber:x:data' type='result'><foo/></x><feature var='b'/></query>`,
	`<query xmlns='http://jabber.org/protocol/disco#info'><x xmlns='jabber:x:data' type='result'><field><value/></field><field var='FORM_TYPE'/></x></query>`,
	`<query xmlns='http://jabber.org/protocol/disco#info'><x xmlns='jabber:x:data' type='result'><reported><field var='a'/></reported><item><field var='a'><value>1</value></field></item></x></query>`,
	`<query xmlns='http://jabber.org/protocol/disco#info'><x xmlns='jabber:x:data' type='result'><field var='a'><value>1`,
	`<query xmlns='http://jabber.org/protocol/disco#info' node='n'/>`,
	``,
}

// xepExamples: the published verification strings of XEP-0115 5.2 and 5.3,
// with the hash function taken from a decoded <c/> element (disco/caps.go).
func (x *runner) xepExamples() {
	for _, e := range []struct {
		d    infoD
		caps string
	}{
		{xepSimple, `<c xmlns='http://jabber.org/protocol/caps' hash='sha-1' node='http://code.google.com/p/exodus' ver='QgayPKawpkPSDYmwT/WM94uAlu0='/>`},
		{xepComplex, `<c xmlns='http://jabber.org/protocol/caps' hash='sha-1' node='http://psi-im.org' ver='q07IKJEyjvHSyhy//CH0CxmKi8w='/>`},
	} {
		var c disco.Caps
		if err := xml.Unmarshal([]byte(e.caps), &c); err != nil || !c.Hash.Available() {
			x.res.Histogram["xep-example:caps-not-decoded(not C20)"]++
			continue
		}
		for _, via := range []string{"struct", "xml"} {
			for _, d := range append([]infoD{e.d}, x.perms("all", e.d)...) {
				var got string
				cc := hCase{Kind: "hash", Via: via, Info: d}
				if p := hx.Catch(func() { got = x.build(via, d).Hash(c.Hash.New()) }); p != "" {
					x.res.Fail(panicKey(d), "Info.Hash panics on the XEP example: "+p, cc)
				} else if got != c.Ver {
					x.res.Fail("C20/hash/xep-example", fmt.Sprintf("XEP-0115 example: Hash = %q, published ver = %q", got, c.Ver), cc)
				}
				x.res.Histogram["xep-example"]++
			}
		}
	}
}

// ---- exhaustive small scope ----

func (x *runner) smallScope(emitEvery int) int {
	formPool := []formD{
		{},
		{Fields: []fieldD{fld("a", "text-single", "1")}},
		{Fields: []fieldD{fld("FORM_TYPE", "hidden", "x")}},
		{Fields: []fieldD{fld("b", "text-single", "2"), fld("FORM_TYPE", "hidden", "y"), fld("a", "list-multi", "2", "1")}},
		{Fields: []fieldD{fld("FORM_TYPE", "hidden", "x"), fld("b", "text-single", "2")}},
		{Fields: []fieldD{fld("FORM_TYPE", "hidden", "x1"), fld("a", "text-single", "1")}},
	}
	idPool := []identD{{"a", "b", "", "n"}, {"a", "b", "c", "m"}, {"a", "", "b", ""}, {"", "a", "b", "k"}}
	featPool := hs("a", "a<", "b", "")
	n := 0
	seqs := func(k, depth int, f func([]int)) {
		var rec func(cur []int)
		rec = func(cur []int) {
			f(cur)
			if len(cur) == depth {
				return
			}
			for i := 0; i < k; i++ {
				rec(append(append([]int(nil), cur...), i))
			}
		}
		rec(nil)
	}
	seqs(len(formPool), 3, func(s []int) {
		var d infoD
		for _, i := range s {
			d.Forms = append(d.Forms, formPool[i])
		}
		d.Feats = hs("f")
		n++
		x.one([]string{"struct", "xml"}[n%2], cloneInfo(d), n%emitEvery == 0)
	})
	seqs(len(idPool), 3, func(s []int) {
		seen := map[int]bool{}
		var d infoD
		for _, i := range s {
			if seen[i] {
				return
			}
			seen[i] = true
			d.Ids = append(d.Ids, idPool[i])
		}
		n++
		x.one("struct", d, n%emitEvery == 0)
	})
	seqs(len(featPool), 3, func(s []int) {
		var d infoD
		for _, i := range s {
			d.Feats = append(d.Feats, featPool[i])
		}
		n++
		x.one("struct", d, n%emitEvery == 0)
	})
	return n
}

func main() {
	o := hx.ParseFlags()
	res := hx.NewResult("C20")
	x := &runner{res: res, r: hx.NewRand(o.Seed), limit: 4500000}
	x.hc = hx.CaseFile{Name: "hash", Imports: imports, Ok: "case_ok", Type: "hcase"}
	x.tc = hx.CaseFile{Name: "tail", Imports: tailImports, Ok: "tcase_ok", Type: "tcase"}
	x.tlimit = 3000000

	if o.Replay != "" {
		b, err := os.ReadFile(o.Replay)
		if err != nil {
			fmt.Fprintln(os.Stderr, err)
			os.Exit(2)
		}
		var rp struct {
			Case hCase `json:"case"`
		}
		if err := json.Unmarshal(b, &rp); err != nil {
			fmt.Fprintln(os.Stderr, err)
			os.Exit(2)
		}
		c := rp.Case
		switch {
		case c.Kind == "dst":
			x.history(c.Via, c.Info, c.Bufs, c.Steps, true)
		case c.Via == "rawxml":
			x.rawXML(string(c.Raw), true)
		default:
			x.one(c.Via, c.Info, true)
			if c.Perm != nil {
				x.pair(c.Via, c.Info, *c.Perm, c.Level)
				x.one(c.Via, *c.Perm, true)
			}
		}
	} else {
		n, nraw := 2000, 500
		every := 6
		if o.Thorough() {
			n, nraw, every = 20000, 5000, 3
			x.limit = 30000000
			x.tlimit = 20000000
		}
		if o.Search {
			n, nraw = 10000, 2500
			x.limit = 0
			x.tlimit = 0
		}
		for _, e := range corpus() {
			x.one(e.via, cloneInfo(e.d), true)
		}
		for _, doc := range rawCorpus {
			x.rawXML(doc, true)
		}
		x.xepExamples()
		x.dstCorpus()
		nd := x.dstScope()
		res.Extra["exhaustive_destination_scope"] = fmt.Sprintf("%d calls: destinations of length 0,1,2,3,5 x every spare capacity 0..128 and the boundaries of the digest and of its base64 x hash sizes 1,2,3,20,28,32,48,64 and the recording hash x 2 info values; every one judged by the oracle, the boundary shapes also by the heap model", nd)
		x.dstEvery = 3
		if o.Thorough() {
			x.dstEvery = 2
		}
		ns := x.smallScope(every)
		res.Extra["exhaustive_small_scope"] = fmt.Sprintf("%d infos: every sequence of up to 3 forms over a pool of 6 shapes (empty, no FORM_TYPE, equal and prefix-related FORM_TYPEs), every duplicate-free sequence of up to 3 identities over 4, every sequence of up to 3 features over 4; each with every permutation at every level", ns)
		total := x.limit
		x.limit = total * 7 / 10 // the rest is kept for the decoded-reply stream
		for i := 0; i < n; i++ {
			via := "struct"
			if i%3 == 2 {
				via = "xml"
			}
			d := x.genInfo(via)
			x.one(via, d, true)
		}
		x.limit = total
		for i := 0; i < nraw; i++ {
			d := x.genInfo("xml")
			doc := toXML(d, x.r)
			if i%4 != 0 {
				doc = x.mangle(doc)
			}
			x.rawXML(doc, i%2 == 0)
		}
	}
	res.Rule = "inputs: corpus (XEP-0115 5.2/5.3 examples, minimised defects), exhaustive small scope, seeded info values built as Go values " +
		"(form.New, any bytes) and decoded from generated disco#info replies (interleaved children, every field type, missing type/var, empty forms) " +
		"plus a mangled-reply stream (junk elements, truncation, emptied forms); per input: AppendHash/Hash with a recording hash, section 5.1 reference, " +
		"Hash vs AppendHash(nil/empty), nine hash functions on a third of the inputs, permutations of identities/features/forms/fields/values " +
		"(all permutations up to 4 elements, else reverse/rotate/shuffle); destinations of AppendHash as slices: corpus and exhaustive scope of (length, capacity) shapes " +
		"(nil, empty with capacity 0..128 and around the digest and base64 lengths, non-empty with spare capacity, windows in the middle of an array, junk in the spare cells), " +
		"buffers reused between calls and results reused as destinations, for hash sizes 1..64, the recording hash and the real functions, plus one seeded history of 1-4 calls per info value: " +
		"an empty destination must give what Hash gives, every history is replayed by the heap model; distinct = hash of (construction path, info value); " +
		"non-trivial = at least two identities+features or at least one form"
	res.CaseFiles = append(res.CaseFiles, x.hc.Write(o.Out, 400)...)
	res.CaseFiles = append(res.CaseFiles, x.tc.Write(o.Out, 400)...)
	res.Extra["model_cases"] = x.hc.Len() + x.tc.Len()
	res.Extra["model_case_bytes"] = x.bytes + x.tbytes
	res.Extra["model_cases_heap"] = x.tc.Len()
	res.Write(o.Out)
}
