// Command c08 is the correspondence harness and implementation oracle for
// property C08: handlers see one element at a time; stream-level input never
// reaches them (session.go Serve / handleInputStream, internal/stream reader).
package main

import (
	"bytes"
	"encoding/json"
	"encoding/xml"
	"fmt"
	"io"
	"os"
	"strings"

	"mellium.im/xmpp"
	"mellium.im/xmpp/stream"
	"verifharness/c07/sv"
	"verifharness/hx"
)

const imports = "From XV Require Import lib.Bytes C08.Model C08.Case.\n"

type runner struct {
	res *hx.Result
	cf  hx.CaseFile // served sessions
	rf  hx.CaseFile // the stream reader alone
	noModel bool
}

func (x *runner) one(sp sv.Spec, classes ...string) {
	o := sv.Run(sp)
	for _, f := range sv.CheckC08(sp, o) {
		x.res.Fail(f.Key, f.What, sp)
	}
	exp := sp.Expected()
	b, _ := json.Marshal(sp)
	cl := append([]string{"ns/" + sp.NS, "ret/" + o.Ret.String(), "terminal/" + exp.Terminal,
		fmt.Sprintf("elements/%d", len(exp.Elems)), fmt.Sprintf("invocations/%d", len(o.Invs))}, classes...)
	dirty := false
	for _, e := range exp.Elems {
		if e.DirtyAt >= 0 {
			dirty = true
		}
	}
	if dirty {
		cl = append(cl, "nested-stream-level-construct")
	}
	x.res.Count(string(b), len(o.Invs) > 0 || exp.Terminal != "decode", cl...)
	if len(x.res.Samples) < 8 && len(o.Invs) > 1 {
		x.res.Sample(map[string]interface{}{"spec": sp, "returned": o.Ret.String(), "invocations": o.Invs})
	}
	if x.noModel {
		return
	}
	if !sv.Encodable(sp, o) || len(sp.Pend) > 0 { // outstanding requests: model cases are the C07 harness's
		x.res.Histogram["not-in-model-scope"]++
		return
	}
	x.cf.Add(hx.CoqBytes(sv.EncodeCase(sp, o, false)), sp)
}

// readerCase runs internal/stream.Reader over the tokenizer, as the session
// stacks it, until its first error.
type readerCase struct {
	Kind   string `json:"kind"`
	WS     bool   `json:"ws"`
	NS     string `json:"ns"`
	Script string `json:"script"`
}

func (x *runner) reader(rc readerCase) {
	hdr := `<stream:stream id="1" version="1.0" xmlns="` + rc.NS + `" xmlns:stream="` + stream.NS + `">`
	d := xml.NewDecoder(io.MultiReader(strings.NewReader(hdr), bytes.NewReader([]byte(rc.Script))))
	if _, err := d.Token(); err != nil {
		return
	}
	r := xmpp.VerifStreamReader(d, rc.WS)
	toks := sv.Tokenize([]byte(rc.Script), rc.NS)
	var seen []sv.RRes
	p := hx.Catch(func() {
		for i := 0; i <= len(toks)+1; i++ {
			tok, err := r.Token()
			rr := sv.RRes{Err: sv.Classify(err)}
			if tok != nil {
				s := sv.FromXML(xml.CopyToken(tok))
				rr.Tok = &s
			}
			seen = append(seen, rr)
			if err != nil {
				break
			}
		}
	})
	b, _ := json.Marshal(rc)
	x.res.Count(string(b), len(seen) > 1, "reader", fmt.Sprintf("reader/ws=%v", rc.WS))
	if p != "" {
		x.res.Fail("C08/reader/panic", "stream reader panicked: "+p, rc)
		return
	}
	// oracle: nothing stream-level is ever returned as a token without an error
	for _, rr := range seen {
		if rr.Tok != nil && rr.Err.Code == 0 {
			t := *rr.Tok
			if t.K == 4 || ((t.K == 1 || t.K == 2) && t.Space == stream.NS) ||
				(rc.WS && t.K == 1 && t.Space == "urn:ietf:params:xml:ns:xmpp-framing") {
				x.res.Fail("C08/reader/stream-level-passed", fmt.Sprintf("the stream reader returned %+v", t), rc)
			}
		}
	}
	// WebSocket framing: the first framing element met ends the reading: a
	// top-level <close/> as the end of the input, anything else as a restart
	if rc.WS {
		depth := 0
		for i, t := range toks {
			if i >= len(seen) || seen[i].Err.Code != 0 && !(t.K == 1 && t.Space == wsNS) {
				break
			}
			if t.K == 1 && t.Space == wsNS {
				want := 4
				if depth == 0 && t.Local == "close" {
					want = 1
				}
				if seen[i].Err.Code != want || seen[i].Tok != nil {
					key := "C08/reader/ws-framing-element"
					if depth > 0 && seen[i].Err.Code == 1 {
						key = "C08/reader/nested-ws-close-ends-input"
					}
					x.res.Fail(key, fmt.Sprintf("framing element <%s> at depth %d: the stream reader returned %v", t.Local, depth, seen[i].Err), rc)
				}
				break
			}
			switch t.K {
			case 1:
				if t.Space == stream.NS {
					depth = -1 << 20 // a stream-level element ends the reading first
				}
				depth++
			case 2:
				depth--
			case 4:
				depth = -1 << 20
			}
			if depth < 0 {
				break
			}
		}
	}
	if x.noModel {
		return
	}
	var bl sv.Blob
	bl.Bool(rc.WS)
	bl.Toks(toks)
	bl.U16(len(seen))
	for _, rr := range seen {
		bl.RRes(rr)
	}
	x.rf.Add(hx.CoqBytes(bl.Bytes()), rc)
}

// ---- generators ----

// items of the exhaustive small scope
var items = []string{
	"<iq type='get' id='x' from='me@example.net'><query xmlns='urn:example:q'/></iq>",
	"<message from='a@example.net/r'><body>hi</body><x xmlns='urn:example:other'><y>z</y></x></message>",
	"<a/>",
	"<stream><error xmlns='urn:example:other'/></stream>",
	"<presence from='me@example.net/res'/>",
	"<presence xmlns='jabber:server' from='me@example.net'/>",
	"<message><body><!-- c --></body>t</message>",
	"<iq type='set' id='y'><q xmlns='urn:example:q'><?pi?></q></iq>",
	"<b><stream:error><reset xmlns='urn:ietf:params:xml:ns:xmpp-streams'/></stream:error><c/></b>",
	" ", "\n\t",
	"<!-- c -->", "<?pi x?>", "<!DOCTYPE x>", "junk", " \u00a0",
	"<stream:error><host-gone xmlns='urn:ietf:params:xml:ns:xmpp-streams'/></stream:error>",
	"<stream:error><text xmlns='urn:ietf:params:xml:ns:xmpp-streams'>no condition</text></stream:error>",
	"<stream:features/>", "<stream:stream>", "</stream:stream>", "<a><b>",
}

var patterns = map[string][]sv.Op{
	"none":           nil,
	"one":            {{K: "read", N: 1}},
	"all":            {{K: "readret", N: 40}},
	"beyond":         {{K: "read", N: 40, Stop: true}, {K: "read", N: 3}},
	"beyond-swallow": {{K: "read", N: 14}},
	"skip":           {{K: "read", N: 1}, {K: "skip", N: 40}, {K: "read", N: 2}},
	"write-partial":  {{K: "read", N: 1}, sv.W(sv.GenWrite("message", "x")[:2]...), {K: "read", N: 40, Stop: true}},
	"ret-other":      {{K: "read", N: 2}, {K: "ret", Ret: "other"}},
	"ret-eof":        {{K: "readret", N: 40}, {K: "ret", Ret: "eof"}},
	"ret-wrapeof":    {{K: "readret", N: 40}, {K: "ret", Ret: "wrapeof"}},
	"ret-iseof":      {{K: "read", N: 1}, {K: "ret", Ret: "iseof"}},
}

// consumption patterns of the block served with the output stream already closed
var closedPatterns = []string{"all", "none", "write-partial"}

func (x *runner) exhaustive(depth int) {
	pk := make([]string, 0, len(patterns))
	for k := range patterns {
		pk = append(pk, k)
	}
	for i := 1; i < len(pk); i++ {
		for j := i; j > 0 && pk[j] < pk[j-1]; j-- {
			pk[j], pk[j-1] = pk[j-1], pk[j]
		}
	}
	var rec func(prefix string, d int)
	n := 0
	rec = func(prefix string, d int) {
		if d == 0 {
			for _, tail := range []string{"</stream:stream>", ""} {
				for _, k := range pk {
					n++
					ns := "jabber:client"
					if n%3 == 0 {
						ns = "jabber:server"
					}
					x.one(sv.Spec{NS: ns, Own: sv.OwnFull, Script: prefix + tail, Progs: [][]sv.Op{patterns[k]}, Label: "exh/" + k}, "pattern/"+k)
				}
			}
			return
		}
		for _, it := range items {
			rec(prefix+it, d-1)
		}
	}
	for d := 1; d <= depth; d++ {
		rec("", d)
	}
}

// ---- WebSocket framing: served sessions negotiated with websocket.Negotiator ----

const wsNS = "urn:ietf:params:xml:ns:xmpp-framing"

var wsItems = []string{
	"<iq xmlns='jabber:client' type='get' id='x' from='me@example.net'><query xmlns='urn:example:q'/></iq>",
	"<message xmlns='jabber:client' from='a@example.net/r'><body>hi</body></message>",
	"<a xmlns='urn:example:other'/>",
	"<iq xmlns='jabber:client' type='set' id='y'><q xmlns='urn:example:q'/><close xmlns='" + wsNS + "'/><b/></iq>",
	"<message xmlns='jabber:client'><body><open xmlns='" + wsNS + "'/></body></message>",
	"<close xmlns='urn:example:other'/>",
	" ", "<!-- c -->", "junk",
	"<close xmlns='" + wsNS + "'/>",
	"<open xmlns='" + wsNS + "' version='1.0'/>",
	"<error xmlns='http://etherx.jabber.org/streams'><host-gone xmlns='urn:ietf:params:xml:ns:xmpp-streams'/></error>",
	"<a xmlns='urn:example:other'><b>",
}

var wsPatterns = []string{"all", "beyond-swallow", "none", "ret-other", "skip"}

func (x *runner) exhaustiveWS(depth int) {
	var rec func(prefix string, d int)
	rec = func(prefix string, d int) {
		if d == 0 {
			for _, tail := range []string{"<close xmlns='" + wsNS + "'/>", "<"} {
				for _, k := range wsPatterns {
					x.one(sv.Spec{NS: "jabber:client", Own: sv.OwnFull, WS: true, Script: prefix + tail, Progs: [][]sv.Op{patterns[k]}, Label: "exh-ws/" + k}, "ws", "pattern/"+k)
				}
			}
			return
		}
		for _, it := range wsItems {
			rec(prefix+it, d-1)
		}
	}
	for d := 1; d <= depth; d++ {
		rec("", d)
	}
}

// exhaustiveClosed: the same items served after a local Close(): whatever arrives,
// stream-level constructs and errors still end Serve with that error, the
// peer's closing tag with nil.
func (x *runner) exhaustiveClosed(depth int) {
	var rec func(prefix string, d int)
	n := 0
	rec = func(prefix string, d int) {
		if d == 0 {
			for _, tail := range []string{"</stream:stream>", ""} {
				n++
				k := closedPatterns[n%len(closedPatterns)]
				x.one(sv.Spec{NS: "jabber:client", Own: sv.OwnFull, OutClosed: true, Script: prefix + tail, Progs: [][]sv.Op{patterns[k]}, Label: "exh-closed/" + k}, "out-closed", "pattern/"+k)
			}
			return
		}
		for _, it := range items {
			rec(prefix+it, d-1)
		}
	}
	for d := 1; d <= depth; d++ {
		rec("", d)
	}
}

func randTree(r *hx.Rand, depth int, dirtyOK bool) string {
	name := sv.Pick(r, []string{"a", "b", "body", "query", "iq", "x", "stream", "error"})
	ns := ""
	if r.Chance(1, 4) {
		ns = " xmlns='" + sv.Pick(r, []string{"urn:example:q", "urn:example:other", "jabber:client", "jabber:server"}) + "'"
	}
	attrs := ""
	if r.Chance(1, 3) {
		attrs = fmt.Sprintf(" k='%d'", r.Intn(3))
	}
	if depth == 0 || r.Chance(1, 4) {
		if r.Bool() {
			return "<" + name + ns + attrs + "/>"
		}
		return "<" + name + ns + attrs + ">" + sv.Pick(r, []string{"", "t", " ", "a&amp;b", "<![CDATA[<]]>"}) + "</" + name + ">"
	}
	var sb strings.Builder
	sb.WriteString("<" + name + ns + attrs + ">")
	for i, k := 0, 1+r.Intn(3); i < k; i++ {
		switch {
		case dirtyOK && r.Chance(1, 12):
			sb.WriteString(sv.Pick(r, sv.DirtyPayloads))
		case r.Chance(1, 4):
			sb.WriteString(sv.Pick(r, []string{"text", " ", "\n"}))
		default:
			sb.WriteString(randTree(r, depth-1, dirtyOK))
		}
	}
	sb.WriteString("</" + name + ">")
	return sb.String()
}

func (x *runner) random(r *hx.Rand) {
	ns := "jabber:client"
	if r.Chance(1, 3) {
		ns = "jabber:server"
	}
	own := sv.OwnFull
	if r.Chance(1, 8) {
		own = ""
	}
	var sb strings.Builder
	var progs [][]sv.Op
	for i, n := 0, 1+r.Intn(5); i < n; i++ {
		switch k := r.Intn(16); {
		case k < 4:
			e := sv.RandIQ(r, ns)
			if r.Chance(1, 3) {
				e.Inner = randTree(r, 1+r.Intn(3), true)
			}
			sb.WriteString(e.String())
			progs = append(progs, sv.RandProg(r, e.ID, true))
		case k < 7:
			e := sv.RandStanza(r)
			if r.Chance(1, 3) {
				e.Inner = randTree(r, 1+r.Intn(3), true) + e.Inner
			}
			sb.WriteString(e.String())
			progs = append(progs, sv.RandProg(r, "x", true))
		case k < 10:
			if r.Bool() {
				sb.WriteString(sv.RandOther(r).String())
			} else {
				sb.WriteString(randTree(r, r.Intn(4), true))
			}
			progs = append(progs, sv.RandProg(r, "x", true))
		case k < 13:
			sb.WriteString(sv.Pick(r, sv.Keepalives))
		case k < 15:
			sb.WriteString(sv.Pick(r, sv.TopLevel))
		default:
			sb.WriteString(sv.Pick(r, sv.Malformed))
		}
	}
	if r.Chance(2, 3) {
		sb.WriteString("</stream:stream>")
	}
	x.one(sv.Spec{NS: ns, Own: own, Script: sb.String(), Progs: progs, OutClosed: r.Chance(1, 6), Label: "random"}, "random")
}

func (x *runner) randomReader(r *hx.Rand) {
	var sb strings.Builder
	for i, n := 0, 1+r.Intn(5); i < n; i++ {
		switch k := r.Intn(12); {
		case k < 5:
			sb.WriteString(randTree(r, r.Intn(4), true))
		case k < 7:
			sb.WriteString(sv.Pick(r, sv.Keepalives))
		case k < 10:
			sb.WriteString(sv.Pick(r, sv.TopLevel))
		case k < 11:
			sb.WriteString(sv.Pick(r, []string{"<open xmlns='urn:ietf:params:xml:ns:xmpp-framing'/>", "<close xmlns='urn:ietf:params:xml:ns:xmpp-framing'/>",
				"<a><open xmlns='urn:ietf:params:xml:ns:xmpp-framing'/></a>", "<stream:error><a xmlns='urn:ietf:params:xml:ns:xmpp-streams'><text xmlns='urn:ietf:params:xml:ns:xmpp-streams'/></a><text xmlns='urn:ietf:params:xml:ns:xmpp-streams'><b/>t</text></stream:error>",
				"<stream:error>", "<a><b><close xmlns='urn:ietf:params:xml:ns:xmpp-framing'/></b>t</a>", "<close xmlns='urn:example:other'/>"}))
		default:
			sb.WriteString(sv.Pick(r, sv.Malformed))
		}
	}
	ns := "jabber:client"
	if r.Bool() {
		ns = "jabber:server"
	}
	x.reader(readerCase{Kind: "reader", WS: r.Bool(), NS: ns, Script: sb.String()})
}

func main() {
	o := hx.ParseFlags()
	res := hx.NewResult("C08")
	x := &runner{res: res, noModel: o.Search}
	x.cf = hx.CaseFile{Name: "c08", Imports: imports, Ok: "case_ok8", Type: "bytes"}
	x.rf = hx.CaseFile{Name: "c08r", Imports: imports, Ok: "reader_ok", Type: "bytes"}
	r := hx.NewRand(o.Seed)

	if o.Replay != "" {
		b, err := os.ReadFile(o.Replay)
		if err != nil {
			fmt.Fprintln(os.Stderr, err)
			os.Exit(2)
		}
		var probe struct {
			Case struct {
				Kind string `json:"kind"`
			} `json:"case"`
		}
		_ = json.Unmarshal(b, &probe)
		if probe.Case.Kind == "reader" {
			var rp struct {
				Case readerCase `json:"case"`
			}
			if err := json.Unmarshal(b, &rp); err != nil {
				fmt.Fprintln(os.Stderr, err)
				os.Exit(2)
			}
			x.reader(rp.Case)
		} else {
			var rp struct {
				Case sv.Spec `json:"case"`
			}
			if err := json.Unmarshal(b, &rp); err != nil {
				fmt.Fprintln(os.Stderr, err)
				os.Exit(2)
			}
			x.one(rp.Case, "replay")
		}
	} else {
		for _, sp := range corpus {
			x.one(sp, "corpus")
		}
		for _, it := range items {
			for _, ws := range []bool{false, true} {
				x.reader(readerCase{Kind: "reader", WS: ws, NS: "jabber:client", Script: it + "<z/>"})
			}
		}
		depth, n, nr := 2, 1500, 800
		if o.Thorough() {
			depth, n, nr = 3, 10000, 6000
		}
		if o.Search {
			depth, n, nr = 3, 40000, 10000
		}
		x.exhaustive(depth)
		x.exhaustiveWS(2)
		x.exhaustiveClosed(2)
		for i := 0; i < n; i++ {
			x.random(r)
		}
		for i := 0; i < nr; i++ {
			x.randomReader(r)
		}
	}
	res.Rule = "inputs: corpus; exhaustive small scope (all sequences of up to 2 (thorough: 3) items from 22 kinds of top-level input " +
		"— stanzas, other elements, elements holding comments / PIs / stream errors, keep-alives, comment, PI, directive, text, non-ASCII white space, " +
		"stream error, stream features, restart, close, truncated element — with and without closing tag x 9 handler consumption patterns); " +
		"seeded random scripts of 1-5 items with element trees of depth 0-3 and a drawn handler program per element (partial writes included); " +
		"the 22 items again after a local Close() (sequences up to 2); handler results include errors that wrap io.EOF or claim to be it; served WebSocket sessions (13 items, sequences up to 2); " +
		"the stream reader alone on random documents with and without websocket framing; distinct = hash of the case; " +
		"non-trivial = at least one handler invocation or a stream-level terminal"
	res.CaseFiles = append(res.CaseFiles, x.cf.Write(o.Out, 400)...)
	res.CaseFiles = append(res.CaseFiles, x.rf.Write(o.Out, 1000)...)
	res.Extra["model_cases"] = x.cf.Len() + x.rf.Len()
	res.Write(o.Out)
}

var corpus = []sv.Spec{
	// a handler that ignores read errors read on past a comment inside its element, and the session went on
	{NS: "jabber:client", Own: sv.OwnFull, Script: "<message><!-- c --><body/></message><a/></stream:stream>", Progs: [][]sv.Op{{{K: "read", N: 9}}}, Label: "corpus/comment-swallowed"},
	{NS: "jabber:client", Own: sv.OwnFull, Script: "<message><x><?pi?></x><body/></message><a/></stream:stream>", Progs: [][]sv.Op{{{K: "read", N: 3}, {K: "read", N: 20, Stop: true}}}, Label: "corpus/pi-swallowed"},
	{NS: "jabber:client", Own: sv.OwnFull, Script: "<message><stream:features/><body/></message><a/></stream:stream>", Progs: [][]sv.Op{{{K: "read", N: 9}}}, Label: "corpus/stream-element-swallowed"},
	// a handler returning io.EOF ended Serve with nil although the peer had not closed
	{NS: "jabber:client", Own: sv.OwnFull, Script: "<a/><b/><c/></stream:stream>", Progs: [][]sv.Op{{{K: "readret", N: 5}, {K: "ret", Ret: "eof"}}}, Label: "corpus/handler-eof"},
	// qualified from attributes
	{NS: "jabber:client", Own: sv.OwnFull, Script: "<message xmlns:x='urn:example:x' x:from='me@example.net' from='me@example.net'/><presence xmlns:x='urn:example:x' from='a@example.net' x:from='me@example.net'/></stream:stream>", Label: "corpus/qualified-from"},
	// serveTests case 14: the end-of-element boundary
	{NS: "jabber:client", Own: sv.OwnFull, Script: "<iq type='get' id='1234'><unknownpayload xmlns='unknown'/></iq><iq type='get' id='5'/></stream:stream>", Progs: [][]sv.Op{{{K: "read", N: 8}}}, Label: "corpus/read-beyond-end"},
	{NS: "jabber:server", Own: "example.net", Script: " <presence from='example.net'/>\n<message from='example.net/x'><body>a</body></message> </stream:stream>", Progs: [][]sv.Op{{{K: "skip", N: 9}}, nil}, Label: "corpus/server-ns"},
	// from normalisation is for stanzas of the stream's content name space only
	{NS: "jabber:client", Own: sv.OwnFull, Script: "<iq xmlns='jabber:server' type='result' id='1' from='me@example.net'/><message xmlns='' from='me@example.net'/><presence xmlns='urn:example:other' from='me@example.net'/><message from='me@example.net'/></stream:stream>", Label: "corpus/from-other-namespaces"},
	{NS: "jabber:server", Own: "example.net", Script: "<message xmlns='jabber:client' from='example.net'/><message from='example.net'/></stream:stream>", Label: "corpus/from-other-namespace-s2s"},
	// only the peer's closing tag ends Serve with nil: not a handler error that wraps io.EOF or says it is io.EOF
	{NS: "jabber:client", Own: sv.OwnFull, Script: "<a/><b/><c/></stream:stream>", Progs: [][]sv.Op{{{K: "readret", N: 5}, {K: "ret", Ret: "wrapeof"}}}, Label: "corpus/handler-wrapped-eof"},
	{NS: "jabber:client", Own: sv.OwnFull, Script: "<a/><b/></stream:stream>", Progs: [][]sv.Op{{{K: "ret", Ret: "iseof"}}}, Label: "corpus/handler-is-eof"},
	// after a local Close() a stream-level construct or a received stream error still ends Serve with that error
	{NS: "jabber:client", Own: sv.OwnFull, OutClosed: true, Script: "<a/><!-- c --><b/></stream:stream>", Label: "corpus/closed-then-comment"},
	{NS: "jabber:client", Own: sv.OwnFull, OutClosed: true, Script: " <stream:error><host-gone xmlns='urn:ietf:params:xml:ns:xmpp-streams'/></stream:error>", Label: "corpus/closed-then-stream-error"},
	{NS: "jabber:client", Own: sv.OwnFull, OutClosed: true, Script: "<message/><a><b></a>", Label: "corpus/closed-then-malformed"},
	{NS: "jabber:client", Own: sv.OwnFull, OutClosed: true, Script: "<iq type='get' id='x'/><a/></stream:stream>", Label: "corpus/closed-then-request"},
	// a received stream error without a defined condition is returned as such (text kept)
	{NS: "jabber:client", Own: sv.OwnFull, Script: "<a/><stream:error><text xmlns='urn:ietf:params:xml:ns:xmpp-streams' xml:lang='en'>going down</text></stream:error>", Label: "corpus/conditionless-stream-error"},
	{NS: "jabber:client", Own: sv.OwnFull, Script: "<stream:error><app xmlns='urn:example:other'/></stream:error></stream:stream>", Label: "corpus/app-only-stream-error"},
	// WebSocket framing: the peer's <close/> ends Serve without error, <open/> is a restart, neither reaches a handler
	{NS: "jabber:client", Own: sv.OwnFull, WS: true, Script: "<message xmlns='jabber:client' from='me@example.net'><body>hi</body></message> <close xmlns='" + wsNS + "'/>", Progs: [][]sv.Op{{{K: "readret", N: 40}}}, Label: "corpus/ws-close"},
	{NS: "jabber:client", Own: sv.OwnFull, WS: true, Script: "<a xmlns='urn:example:other'/><open xmlns='" + wsNS + "'/><b xmlns='urn:example:other'/>", Label: "corpus/ws-open-midstream"},
	// ... and a <close/> inside an element is not the end of anything (it made the element look complete to the handler)
	{NS: "jabber:client", Own: sv.OwnFull, WS: true, Script: "<iq xmlns='jabber:client' type='get' id='x'><q xmlns='urn:example:q'/><close xmlns='" + wsNS + "'/><b/></iq><message xmlns='jabber:client'/><close xmlns='" + wsNS + "'/>", Progs: [][]sv.Op{{{K: "readret", N: 40}}}, Label: "corpus/ws-nested-close"},
	// responses to outstanding requests of the session go to the waiting call, the rest to the handler
	{NS: "jabber:client", Own: sv.OwnFull, Script: "<iq type='get' id='x'/><iq type='result' id='x'><q xmlns='urn:example:q'/></iq><message id='x'/></stream:stream>",
		Pend: []sv.PendSpec{{ID: "x", Kind: "iq", Type: "get", Prog: []sv.Op{{K: "read", N: 1}, {K: "readret", N: 40}}}}, Label: "corpus/response-to-waiter"},
	// ... and a stream-level construct inside such a response must end the session too (known finding: it does not)
	{NS: "jabber:client", Own: sv.OwnFull, Script: "<iq type='result' id='x'><!-- c --><a/></iq><iq type='get' id='y'/></stream:stream>",
		Pend: []sv.PendSpec{{ID: "x", Kind: "iq", Type: "get", Prog: []sv.Op{{K: "read", N: 1}, {K: "readret", N: 40}}}}, Label: "corpus/comment-in-response"},
	{NS: "jabber:client", Own: sv.OwnFull, Script: "<iq type='error' id='x'><e><?pi?></e></iq> <b/></stream:stream>",
		Pend: []sv.PendSpec{{ID: "x", Kind: "iq", Type: "set", Prog: []sv.Op{{K: "read", N: 1}}}}, Label: "corpus/pi-in-response"},
	{NS: "jabber:client", Own: sv.OwnFull, Script: "<iq type='result' id='x'><stream:features/></iq></stream:stream>",
		Pend: []sv.PendSpec{{ID: "x", Kind: "iq", Type: "get", Cancel: true, Prog: []sv.Op{{K: "read", N: 1}}}}, Label: "corpus/stream-element-in-dropped-response"},
	{NS: "jabber:client", Own: sv.OwnFull, Script: "<a><b><c>deep</c></b></a><d/>", Progs: [][]sv.Op{{{K: "read", N: 2}}, {{K: "read", N: 2}}}, Label: "corpus/no-close"},
}
