// Command c01 is the correspondence harness and implementation oracle for
// property C01 (stream features are negotiated only when allowed, in order, at
// most once): features.go, negotiator.go, session.go negotiateSession,
// websocket/negotiator.go.
//
// Every case runs the real NewSession / ReceiveSession with the default
// negotiator (TCP or WebSocket framing) over a scripted in-memory connection,
// with instrumented stream features whose callbacks log what they are asked and
// answer from the script.  The unified log (items delivered, bytes written,
// callbacks with the session state they saw) is (1) checked by the oracle below,
// which restates C01's clauses on that log and does not use the Coq model, and
// (2) written, with the inputs, as a Coq term that coq/Neg/Model.v's [run] must
// reproduce exactly.
package main

import (
	"bytes"
	"context"
	"encoding/json"
	"fmt"
	"io"
	"os"
	"time"

	"mellium.im/xmpp"
	"mellium.im/xmpp/jid"
	"mellium.im/xmpp/websocket"
	"verifharness/hx"
)

const imports = "From XV Require Import lib.Bytes gen.NegTables Neg.Model C01.Model.\n"

type recCase struct {
	hx.NegCase
	Note string `json:"note,omitempty"`
}

// ---------------------------------------------------------------- running one case

type runner struct {
	res *hx.Result
	cf  hx.CaseFile
}

func isInitiator(c *hx.NegCase) bool { return c.Bits&hx.NegReceived == 0 }

// execute runs the real code on c. With gen != nil the peer's items and the
// features' outcomes are produced on demand (and recorded into c); otherwise
// they are taken from c.
func execute(c *hx.NegCase, gen *adaptive) hx.Observed {
	c.TeeFirst = teeFirst
	log := &hx.NegLog{}
	initiator := isInitiator(c)
	s2s := c.Bits&hx.NegS2S != 0
	conn := &hx.ScriptConn{Log: log, Render: func(it hx.Item) []byte { return hx.RenderItem(it, c.WS, initiator, s2s, false) }}
	outs := c.Outs
	var next func(f hx.FeatSpec, st uint8) hx.Outcome
	if gen != nil {
		gen.log = log
		c.In, c.Outs = nil, nil
		conn.Next = func() (hx.Item, bool) { return gen.nextItem() }
		next = func(f hx.FeatSpec, st uint8) hx.Outcome {
			o := gen.nextOutcome(f, st)
			c.Outs = append(c.Outs, o)
			return o
		}
	} else {
		conn.Items = c.In
		next = func(f hx.FeatSpec, st uint8) hx.Outcome {
			if len(outs) == 0 {
				return hx.Outcome{}
			}
			o := outs[0]
			outs = outs[1:]
			return o
		}
	}
	var feats []xmpp.StreamFeature
	for _, f := range c.Feats {
		feats = append(feats, hx.AbstractFeature(f, log, next))
	}
	var teeIn, teeOut bytes.Buffer
	cfgf := func(*xmpp.Session, *xmpp.StreamConfig) xmpp.StreamConfig {
		sc := xmpp.StreamConfig{Features: feats}
		if c.Tee&1 != 0 {
			sc.TeeIn = &teeIn
		}
		if c.Tee&2 != 0 {
			sc.TeeOut = &teeOut
		}
		return sc
	}
	var neg xmpp.Negotiator
	if c.WS {
		neg = websocket.Negotiator(cfgf)
	} else {
		neg = xmpp.NewNegotiator(cfgf)
	}
	var sess *xmpp.Session
	var err error
	var pmsg string
	ctx := context.Background()
	done := hx.WithTimeout(5*time.Second, func() {
		pmsg = hx.Catch(func() {
			var rw io.ReadWriter = conn
			if c.NetConn {
				rw = hx.ScriptNetConn{ScriptConn: conn}
			}
			if initiator {
				origin, location := jid.MustParse("me@example.net"), jid.MustParse("example.net")
				if s2s {
					origin, location = jid.MustParse("example.org"), jid.MustParse("example.net")
				}
				sess, err = xmpp.NewSession(ctx, location, origin, rw, xmpp.SessionState(c.Bits), neg)
			} else {
				sess, err = xmpp.ReceiveSession(ctx, rw, xmpp.SessionState(c.Bits&^hx.NegReceived), neg)
			}
		})
	})
	if gen != nil {
		c.In = conn.Items
	}
	obs := hx.Observed{Trace: log.Finish()}
	switch {
	case !done:
		obs.Class = "timeout"
	case pmsg != "":
		obs.Class, obs.ErrText = "panic", pmsg
	default:
		obs.Class = hx.ErrClass(err)
		if err != nil {
			obs.ErrText = err.Error()
		}
	}
	if sess != nil {
		obs.Bits = uint8(sess.State())
	}
	if initiator {
		for _, e := range obs.Trace {
			if e.K == "neg" {
				obs.Choices = append(obs.Choices, e.Space)
			}
		}
	}
	return obs
}

// teeFirst says which negotiator.go is under test: whether `first` survives the
// tee-wrapping call (coq: c_teefirst). It is observed once, on a probe (tee on,
// STARTTLS configured, empty first list: the forced attempt is made or not), and
// passed to the model as part of every case's configuration.
var teeFirst bool

func probeTeeFirst() bool {
	c := hx.NegCase{Domain: "example.net", Tee: 3,
		Feats: []hx.FeatSpec{{Space: hx.NSStartTLS, Local: "starttls", Proh: hx.NegSecure, Neg: true, LReq: true}},
		In:    []hx.Item{{Kind: "header"}, {Kind: "features"}, {Kind: "header"}, {Kind: "features"}},
		Outs:  []hx.Outcome{{Mask: hx.NegSecure, Restart: true}}}
	o := execute(&c, nil)
	for _, e := range o.Trace {
		if e.K == "neg" {
			return true
		}
	}
	return false
}

// ---------------------------------------------------------------- implementation oracle

func eligible(f hx.FeatSpec, st uint8) bool { return st&f.Nec == f.Nec && st&f.Proh == 0 }

func getFeature(fs []hx.FeatSpec, sp, lo string) *hx.FeatSpec {
	for i := range fs {
		if fs[i].Space == sp && fs[i].Local == lo {
			return &fs[i]
		}
	}
	return nil
}

type centry struct {
	req bool
	f   hx.FeatSpec
}

// selectionSpace: the name space under which a receiver looks an element up;
// ok=false when the element cannot be a selection at all.
func selectionSpace(it *hx.Item, ws bool) (string, bool) {
	if it.Sp {
		return "", false
	}
	switch it.Kind {
	case "elem":
		if it.Local == "iq" && (it.Space == "jabber:client" || it.Space == "jabber:server") {
			return "", false
		}
		return it.Space, true
	case "iq":
		return it.Space, true
	case "features", "streamerr":
		return hx.NSStream, true
	case "header":
		if ws {
			return hx.NSFraming, true
		}
	}
	return "", false
}

// oracle restates the clauses of C01 on the observation log of one run. It
// returns (clause, explanation) pairs; the finding key is
// C01/<role>/<clause>.
func oracle(c *hx.NegCase, o *hx.Observed) [][2]string {
	var fails [][2]string
	fail := func(clause, what string) {
		for _, f := range fails {
			if f[0] == clause {
				return
			}
		}
		fails = append(fails, [2]string{clause, what})
	}
	initiator := isInitiator(c)
	cur := c.Bits               // state bits as far as the log determines them
	negd := map[string]bool{}   // name spaces negotiated on the current stream
	adv := map[[2]string]bool{} // names advertised by the last list of the current stream
	cache := map[string]centry{}
	var advAll []centry // configured features the last list read named (with the required flag), eligible then or not
	nlists := 0
	needHeader := false
	selfReady := false         // some feature's own mask contained Ready
	atHeader := true           // receiver: the next item is read as a stream header
	var expectNeg *hx.FeatSpec // receiver: a legitimate selection was read, its feature must run next
	refused := false
	negFailed := false // some Negotiate call returned an error
	pendingRequired := func() bool {
		for _, e := range cache {
			if e.req && e.f.Neg && !negd[e.f.Space] && eligible(e.f, cur) {
				return true
			}
		}
		return false
	}
	for i := range o.Trace {
		e := &o.Trace[i]
		if needHeader && e.K != "out-header" && e.K != "in" && e.K != "eof" {
			fail("restart-header", fmt.Sprintf("after a restart the first thing done is %s, not sending a stream header", e.K))
		}
		if expectNeg != nil && e.K != "neg" {
			fail("refuse", "an advertised, eligible, not yet negotiated feature was selected but not run")
			expectNeg = nil
		}
		switch e.K {
		case "out-header":
			needHeader = false
			negd = map[string]bool{}
			adv = map[[2]string]bool{}
			cache = map[string]centry{}
			advAll = nil
		case "in":
			if needHeader && initiator {
				fail("restart-header", "after a restart input was consumed before a stream header was sent")
			}
			if initiator && e.Item.Kind == "features" && !e.Item.Sp {
				nlists++
				adv = map[[2]string]bool{}
				cache = map[string]centry{}
				advAll = nil
				for _, ch := range e.Item.Children {
					if ch.Text {
						break
					}
					adv[[2]string{ch.Space, ch.Local}] = true
					if g := getFeature(c.Feats, ch.Space, ch.Local); g != nil {
						if ch.PErr {
							break
						}
						advAll = append(advAll, centry{ch.Req, *g})
						// remembered whether or not its prerequisites hold yet; the map is keyed by
						// name space, a later child in the same name space replaces an earlier one
						cache[g.Space] = centry{ch.Req, *g}
					}
				}
			}
			if !initiator && atHeader {
				// read by Expect: not a selection
				atHeader = false
			} else if !initiator {
				// a selection (or something that cannot be one)
				sp, ok := selectionSpace(e.Item, c.WS)
				ce, sent := cache[sp]
				if ok && sent && !negd[sp] && ce.f.Neg && eligible(ce.f, cur) {
					f := ce.f
					expectNeg = &f
				} else {
					refused = true
					if ok && o.Class != "policy" {
						fail("refuse", "a selection that was unsent, repeated, informational or no longer allowed did not end in policy-violation")
					}
				}
			}
		case "out-features":
			if !initiator && e.Closed {
				var want [][2]string
				cache = map[string]centry{}
				adv = map[[2]string]bool{}
				for _, f := range c.Feats {
					if eligible(f, cur) {
						want = append(want, [2]string{f.Space, f.Local})
						cache[f.Space] = centry{f.LReq, f}
						adv[[2]string{f.Space, f.Local}] = true
					}
				}
				if fmt.Sprint(want) != fmt.Sprint(e.Names) {
					fail("advertises-eligible", fmt.Sprintf("advertised %v, the configured features whose prerequisites hold are %v", e.Names, want))
				}
			}
		case "neg":
			f := getFeature(c.Feats, e.Space, e.Local)
			if ce, ok := cache[e.Space]; ok && ce.f.Local == e.Local {
				// several configured features may carry the same name: the one that
				// was advertised is the one meant
				f = &ce.f
			}
			if f == nil {
				fail("advertised", "a feature that is not configured was negotiated")
				continue
			}
			st := e.St
			if refused {
				fail("refuse", "a feature ran after a selection that had to be refused")
			}
			if expectNeg != nil {
				if expectNeg.Space != f.Space || expectNeg.Local != f.Local {
					fail("refuse", "the feature that ran is not the one selected")
				}
				expectNeg = nil
			}
			// advertised, literally: an element child with this name in the last list of the
			// current stream (initiator) / listed by us in the last list (receiver)
			advertised := adv[[2]string{f.Space, f.Local}]
			// the one exception: the unconditional STARTTLS attempt on the first list
			forced := initiator && f.Space == hx.NSStartTLS && nlists == 1 && st&hx.NegSecure == 0 && !advertised
			if st&^cur != 0 {
				fail("bits-accounted", fmt.Sprintf("Negotiate saw state %d: bits beyond the initial state and the masks of the successful negotiations (%d)", st, cur))
			}
			if st&cur != cur {
				fail("monotone", fmt.Sprintf("state bits %d seen by Negotiate lost bits of the earlier state %d", st, cur))
			}
			if negd[f.Space] {
				fail("once", "feature negotiated twice on one stream: "+f.Space)
			}
			if !advertised && !forced {
				fail("advertised", "negotiated a feature the peer did not advertise on this stream: "+f.Space)
			}
			if !eligible(*f, st) { // the forced STARTTLS attempt is an exception to `advertised` only
				fail("prerequisites", fmt.Sprintf("feature %s (necessary %d, prohibited %d) negotiated in state %d", f.Space, f.Nec, f.Proh, st))
			}
			if ce, ok := cache[f.Space]; ok && ce.req && initiator && !forced {
				for _, v := range cache {
					if !v.req && v.f.Neg && !negd[v.f.Space] && eligible(v.f, st) {
						fail("voluntary-first", "required feature "+f.Space+" taken while voluntary "+v.f.Space+" was still open")
					}
				}
				// the literal reading: also a voluntary feature that is not in the cache because
				// a later child in the same name space replaced it
				for _, a := range advAll {
					if cv, cached := cache[a.f.Space]; a.req || (cached && cv.f.Local == a.f.Local) {
						continue // required, or in the cache (a repeated child: the later required flag counts)
					}
					if a.f.Neg && !negd[a.f.Space] && eligible(a.f, st) {
						fail("same-namespace-shadowed/voluntary-first", "required feature "+f.Space+" taken while voluntary "+a.f.Space+" "+a.f.Local+", replaced in the cache by a later child in the same name space, was still open")
					}
				}
			}
			negd[f.Space] = true
			cur = st
			if e.O.Err {
				negFailed = true
			}
			if !e.O.Err {
				// Ready is not a bit a feature can add while the list is being worked on: it
				// takes effect when the feature set is done and no restart is pending
				cur |= e.O.Mask &^ hx.NegReady
				selfReady = selfReady || e.O.Mask&hx.NegReady != 0
				if e.O.Restart {
					needHeader = true
					atHeader = true
				}
			}
		}
	}
	if o.Class != "panic" && o.Class != "timeout" {
		// every bit seen earlier, the initial ones included, is still there at the end
		// (Ready apart when the run ends in an error)
		want := cur
		if o.Class != "ok" {
			want &^= hx.NegReady
		}
		if o.Bits&want != want {
			fail("monotone", fmt.Sprintf("final state %d lost bits of the earlier state %d", o.Bits, want))
		}
	}
	if o.Class == "ok" {
		if o.Bits&hx.NegReady == 0 {
			fail("established/not-ready", "session reported established without the Ready bit")
		}
		if o.Bits&cur != cur {
			fail("monotone", "final state lost bits")
		}
		if needHeader {
			fail("restart-header", "session established although the last negotiated feature asked for a stream restart")
		}
		// the literal reading: a feature the last list marked required that is not in the
		// cache because a later child in the same name space replaced it
		for _, a := range advAll {
			g := a.f
			if ce, cached := cache[g.Space]; !a.req || (cached && ce.f.Local == g.Local) {
				continue // voluntary, or in the cache (covered by pendingRequired below; a repeated child: the later required flag counts)
			}
			if g.Neg && !negd[g.Space] && eligible(g, cur) {
				fail("same-namespace-shadowed/established", "session established while a feature the last advertisement marked required was not negotiated: a later child in the same name space replaced it in the cache: "+g.Space+" "+g.Local)
			}
		}
		if pendingRequired() && !selfReady {
			fail("established/required-pending-no-self-ready", "session established while an eligible required feature of the last advertisement was not negotiated, and no feature reported Ready itself")
		} else if pendingRequired() {
			fail("established/required-pending", "session established while an eligible required feature of the last advertisement was not negotiated")
		}
	}
	if o.Class != "panic" && o.Class != "timeout" && o.Bits != 0 && o.Bits&^(cur|hx.NegReady) != 0 {
		fail("bits-accounted", fmt.Sprintf("final state %d has bits beyond the initial state, the masks of the successful negotiations (%d) and Ready", o.Bits, cur))
	}
	if (o.Class == "policy" || o.Class == "feature" || o.Class == "other") && o.Bits&hx.NegReady != 0 {
		fail("error-ready", "negotiation ended in an error and the session that was returned has the Ready bit")
	}
	if o.Class == "ok" && negFailed {
		fail("feature-error", "a feature's Negotiate returned an error and the session was reported established all the same")
	}
	if o.Class == "panic" || o.Class == "timeout" {
		fail(o.Class, "negotiation "+o.Class+": "+o.ErrText)
	}
	return fails
}

// ---------------------------------------------------------------- generators

var (
	spaces = []string{"urn:x:a", "urn:x:b", "urn:x:c", hx.NSStartTLS}
	locals = []string{"a", "b", "c", "starttls"}
)

func pick(r *hx.Rand, vals []uint8, weights []int) uint8 {
	t := 0
	for _, w := range weights {
		t += w
	}
	k := r.Intn(t)
	for i, w := range weights {
		if k < w {
			return vals[i]
		}
		k -= w
	}
	return vals[0]
}

const (
	S = hx.NegSecure
	A = hx.NegAuthn
	R = hx.NegReady
)

func genFeats(r *hx.Rand) []hx.FeatSpec {
	if r.Chance(3, 10) { // the shape of the built-in trio, as abstract features
		fs := []hx.FeatSpec{
			{Space: hx.NSStartTLS, Local: "starttls", Nec: 0, Proh: S, Neg: true, LReq: r.Bool()},
			{Space: "urn:x:a", Local: "a", Nec: S, Proh: A, Neg: true, LReq: true},
			{Space: "urn:x:b", Local: "b", Nec: A, Proh: R, Neg: true, LReq: true},
		}
		if r.Bool() {
			fs = append(fs, hx.FeatSpec{Space: "urn:x:c", Local: "c", Nec: pick(r, []uint8{0, S, A}, []int{1, 1, 2}), Proh: pick(r, []uint8{0, R}, []int{1, 1}), Neg: r.Chance(3, 4), LReq: r.Chance(1, 4)})
		}
		if r.Chance(1, 4) {
			fs = fs[1:]
		}
		return fs
	}
	n := 1 + r.Intn(4)
	var fs []hx.FeatSpec
	perm := []int{0, 1, 2, 3}
	for i := range perm {
		j := i + r.Intn(len(perm)-i)
		perm[i], perm[j] = perm[j], perm[i]
	}
	for i := 0; i < n; i++ {
		k := perm[i]
		f := hx.FeatSpec{Space: spaces[k], Local: locals[k]}
		if i > 0 && r.Chance(1, 12) { // two features in one name space
			f.Space, f.Local = fs[i-1].Space, fs[i-1].Local+"2"
			if r.Chance(1, 4) {
				f.Local = fs[i-1].Local // exact duplicate
			}
		}
		f.Nec = pick(r, []uint8{0, S, A, S | A, R, hx.NegS2S}, []int{50, 20, 15, 8, 4, 3})
		f.Proh = pick(r, []uint8{0, S, A, R, A | R, S | R}, []int{40, 15, 20, 15, 5, 5})
		f.Neg = r.Chance(22, 25)
		f.LReq = r.Chance(9, 20)
		f.LErr = r.Chance(1, 40)
		fs = append(fs, f)
	}
	return fs
}

func genBits(r *hx.Rand) uint8 {
	b := pick(r, []uint8{0, S, A, S | A}, []int{50, 25, 8, 17})
	if r.Chance(1, 10) {
		b |= hx.NegS2S
	}
	if r.Chance(1, 50) {
		b |= R
	}
	if r.Bool() {
		b |= hx.NegReceived
	}
	return b
}

// adaptive produces the peer's next item by looking at what the code under
// test did last: mostly what a well-behaved peer would send, sometimes not.
type adaptive struct {
	r      *hx.Rand
	c      *hx.NegCase
	log    *hx.NegLog
	n, max int
	noise  int // deviations per 100 items
}

func (g *adaptive) features() hx.Item {
	r := g.r
	it := hx.Item{Kind: "features"}
	if r.Chance(1, 12) {
		return it
	}
	for _, f := range g.c.Feats {
		if r.Chance(4, 5) {
			ch := hx.Child{Space: f.Space, Local: f.Local, Req: r.Chance(9, 20), PErr: r.Chance(1, 40)}
			if r.Chance(1, 25) {
				ch.Local += "x" // right name space, wrong element
			}
			it.Children = append(it.Children, ch)
		}
	}
	if r.Chance(1, 6) {
		it.Children = append(it.Children, hx.Child{Space: "urn:x:unknown", Local: "u", Req: r.Bool()})
	}
	if r.Chance(1, 10) && len(it.Children) > 0 { // repeated child
		ch := it.Children[r.Intn(len(it.Children))]
		ch.Req = r.Bool()
		it.Children = append(it.Children, ch)
	}
	if r.Chance(1, 40) {
		it.Children = append(it.Children, hx.Child{Text: true})
	}
	for i := range it.Children { // advertisement order is the peer's choice
		j := i + r.Intn(len(it.Children)-i)
		it.Children[i], it.Children[j] = it.Children[j], it.Children[i]
	}
	return it
}

// open lists the configured features a well-behaved initiating peer could
// select now: negotiable, eligible in the state the log determines, not yet
// negotiated since the last restart.
func (g *adaptive) open() []hx.FeatSpec {
	cur := g.c.Bits
	negd := map[string]bool{}
	if g.log != nil {
		for _, e := range g.log.Ev {
			if e.K != "neg" {
				continue
			}
			negd[e.Space] = true
			if !e.O.Err {
				cur |= e.O.Mask
				if e.O.Restart {
					negd = map[string]bool{}
				}
			}
		}
	}
	var out []hx.FeatSpec
	for _, f := range g.c.Feats {
		if f.Neg && !negd[f.Space] && eligible(f, cur) {
			out = append(out, f)
		}
	}
	return out
}

func (g *adaptive) selection() hx.Item {
	r := g.r
	it := hx.Item{Kind: "elem"}
	if r.Chance(1, 4) {
		it.Kind = "iq"
	}
	open := g.open()
	switch {
	case r.Chance(1, 10):
		it.Space, it.Local = "urn:x:unknown", "u"
	case len(open) > 0 && r.Chance(3, 5):
		f := open[r.Intn(len(open))]
		it.Space, it.Local = f.Space, f.Local
	default:
		f := g.c.Feats[r.Intn(len(g.c.Feats))]
		it.Space, it.Local = f.Space, f.Local
		if r.Chance(1, 10) {
			it.Local = "other"
		}
	}
	return it
}

func (g *adaptive) random() hx.Item {
	r := g.r
	switch r.Intn(8) {
	case 0:
		return hx.Item{Kind: "header", Bad: r.Chance(1, 3)}
	case 1:
		return g.features()
	case 2:
		return hx.Item{Kind: "streamerr"}
	case 3:
		return g.selection()
	case 4:
		return hx.Item{Kind: "iqbad"}
	case 5:
		return hx.Item{Kind: "garbage"}
	case 6:
		return hx.Item{Kind: "elem", Space: "jabber:client", Local: "iq"}
	}
	it := g.selection()
	it.Sp = true
	return it
}

func (g *adaptive) nextItem() (hx.Item, bool) {
	r := g.r
	if g.n >= g.max || r.Chance(1, 40) {
		return hx.Item{}, false
	}
	g.n++
	initiator := isInitiator(g.c)
	last := ""
	lastRestart := false
	var lastItem *hx.Item
	if n := len(g.log.Ev); n > 0 {
		e := g.log.Ev[n-1]
		last = e.K
		if e.K == "neg" {
			lastRestart = e.O.Restart && !e.O.Err
		}
		lastItem = e.Item
	}
	// a stream header is what the code is waiting for
	headerExpected := (!initiator && (last == "" || lastRestart)) || (initiator && last == "w")
	if r.Intn(100) < g.noise {
		it := g.random()
		if headerExpected && it.Kind == "streamerr" {
			// internal/stream panics on a stream error in place of a header (reported to
			// the owner of that package; outside C01): not generated
			it.Kind = "garbage"
		}
		return it, true
	}
	var it hx.Item
	switch {
	case last == "" || (!initiator && lastRestart):
		it = hx.Item{Kind: "header", Bad: r.Chance(1, 30)}
	case initiator && last == "w":
		// the initiator has just written (a header): answer with ours
		it = hx.Item{Kind: "header", Bad: r.Chance(1, 30)}
	case initiator:
		it = g.features()
	case last == "in" && lastItem != nil && lastItem.Kind == "header":
		it = g.selection()
	default:
		it = g.selection()
	}
	it.Sp = r.Chance(1, 20)
	return it, true
}

func (g *adaptive) nextOutcome(f hx.FeatSpec, st uint8) hx.Outcome {
	r := g.r
	var o hx.Outcome
	if r.Chance(1, 2) {
		o.Mask = f.Proh &^ (hx.NegReceived) // the usual shape: a feature sets what prohibits it
	} else {
		o.Mask = pick(r, []uint8{0, S, A, R, S | A, A | R, hx.NegS2S}, []int{35, 15, 15, 15, 8, 8, 4})
	}
	o.Restart = r.Chance(7, 20)
	if o.Mask&(S|A) != 0 && r.Chance(1, 2) {
		o.Restart = true
	}
	if o.Restart {
		o.RW = []string{"", "same", "plain", "tls"}[r.Intn(4)]
	}
	o.Err = r.Chance(1, 14)
	return o
}

func genCase(r *hx.Rand) (*hx.NegCase, *adaptive) {
	c := &hx.NegCase{Feats: genFeats(r), Bits: genBits(r), Domain: "example.net"}
	if r.Chance(1, 2) { // start in a state in which some configured feature can run
		f := c.Feats[r.Intn(len(c.Feats))]
		c.Bits = (c.Bits | f.Nec&^R) &^ (f.Proh &^ hx.NegReceived)
	}
	if r.Chance(1, 4) {
		c.Tee = 1 + r.Intn(3)
	}
	c.WS = r.Chance(1, 5)
	c.NetConn = r.Bool()
	g := &adaptive{r: r.Fork(), c: c, max: 2 + r.Intn(9), noise: 12}
	if r.Chance(1, 6) {
		g.noise = 45 // the malformed stream
	}
	return c, g
}

// ---------------------------------------------------------------- bookkeeping

func (x *runner) record(c *hx.NegCase, o *hx.Observed, note string) {
	role := "receiver"
	if isInitiator(c) {
		role = "initiator"
	}
	nneg, nref := 0, 0
	for _, e := range o.Trace {
		if e.K == "neg" {
			nneg++
		}
	}
	if o.Class == "policy" {
		nref = 1
	}
	b, _ := json.Marshal(c)
	classes := []string{"role:" + role, "result:" + o.Class, fmt.Sprintf("negotiations:%d", min(nneg, 4)), fmt.Sprintf("items:%d", min(len(c.In), 8))}
	if nneg == 0 { // why nothing was negotiated
		why := "none"
		if n := len(o.Trace); n > 0 {
			why = o.Trace[n-1].K
			if o.Trace[n-1].Item != nil {
				why += ":" + o.Trace[n-1].Item.Kind
			}
		}
		classes = append(classes, "no-negotiation-after:"+why+"/"+o.Class)
	}
	if c.Tee != 0 {
		classes = append(classes, "tee")
	}
	if c.WS {
		classes = append(classes, "websocket")
	}
	x.res.Count(string(b), nneg+nref > 0, classes...)
	rc := recCase{NegCase: *c, Note: note}
	for _, f := range oracle(c, o) {
		x.res.Fail("C01/"+role+"/"+f[0], f[1], rc)
	}
	x.cf.Add(hx.CoqNegCase(*c, *o), rc)
	x.res.Sample(map[string]interface{}{"case": rc, "observed": o})
}

// runFixed runs a fully specified case (corpus, replay, enumeration).
func (x *runner) runFixed(c hx.NegCase, note string, repeat int) {
	for i := 0; i < repeat; i++ {
		cc := c
		o := execute(&cc, nil)
		if os.Getenv("VERIF_DEBUG") != "" && i == 0 {
			b, _ := json.MarshalIndent(o, "", " ")
			fmt.Fprintln(os.Stderr, string(b))
		}
		x.record(&cc, &o, note)
	}
}

func main() {
	o := hx.ParseFlags()
	res := hx.NewResult("C01")
	x := &runner{res: res}
	x.cf = hx.CaseFile{Name: "neg", Imports: imports, Ok: "case_ok", Type: "ncase"}
	r := hx.NewRand(o.Seed)
	teeFirst = probeTeeFirst()
	res.Extra["negotiator_first_survives_tee"] = teeFirst

	if o.Replay != "" {
		b, err := os.ReadFile(o.Replay)
		if err != nil {
			fmt.Fprintln(os.Stderr, err)
			os.Exit(2)
		}
		var rp struct {
			Case recCase `json:"case"`
		}
		if err := json.Unmarshal(b, &rp); err != nil {
			fmt.Fprintln(os.Stderr, err)
			os.Exit(2)
		}
		x.runFixed(rp.Case.NegCase, "replay", 8)
	} else {
		for _, cc := range corpus() {
			x.runFixed(cc.NegCase, cc.Note, 6)
		}
		n, sys := 5000, 700
		if o.Thorough() {
			n, sys = 40000, 4096
		}
		if o.Search {
			n, sys = 60000, 4096
		}
		systematic(x, r, sys)
		for i := 0; i < n; i++ {
			c, g := genCase(r)
			obs := execute(c, g)
			x.record(c, &obs, "")
			if isInitiator(c) && len(obs.Choices) > 1 {
				// the same script again: other map iteration orders
				for k := 0; k < 2; k++ {
					cc := *c
					o2 := execute(&cc, nil)
					x.record(&cc, &o2, "")
				}
			}
		}
	}
	res.Rule = "cases: corpus (witnesses of defects seen earlier), a systematic sweep over two-feature configurations " +
		"(Necessary/Prohibited over {0,Secure,Authn,Ready}, required/voluntary, both roles), seeded random configurations of 1-4 " +
		"abstract features (any masks, mandatory/voluntary, restarting or not, informational, shared name spaces) x initial state " +
		"(plain/secure/authenticated, c2s/s2s, TCP/WebSocket framing, tee on/off) x peer scripts produced adaptively (mostly what a " +
		"well-behaved peer sends next, with out-of-order/repeated/unknown/malformed items mixed in); initiator scripts with several " +
		"negotiations are re-run to see other map iteration orders; distinct = hash of the full case; non-trivial = at least one " +
		"Negotiate call or a refused selection"
	res.CaseFiles = append(res.CaseFiles, x.cf.Write(o.Out, 400)...)
	res.Extra["model_cases"] = x.cf.Len()
	res.Write(o.Out)
}

// systematic sweeps two-feature configurations with a well-behaved peer.
func systematic(x *runner, r *hx.Rand, budget int) {
	masks := []uint8{0, S, A, R}
	total := 4 * 4 * 4 * 4 * 4 * 2
	step := 1
	if budget < total {
		step = total / budget
	}
	off := r.Intn(step)
	for i := off; i < total; i += step {
		k := i
		n1, k := masks[k%4], k/4
		p1, k := masks[k%4], k/4
		n2, k := masks[k%4], k/4
		p2, k := masks[k%4], k/4
		req1, req2 := k%2 == 1, (k/2)%2 == 1
		k /= 4
		recv := k%2 == 1
		c := &hx.NegCase{Domain: "example.net", Feats: []hx.FeatSpec{
			{Space: "urn:x:a", Local: "a", Nec: n1, Proh: p1, Neg: true, LReq: req1},
			{Space: "urn:x:b", Local: "b", Nec: n2, Proh: p2, Neg: true, LReq: req2},
		}}
		c.Bits = pick(r, []uint8{0, S, S | A}, []int{2, 1, 1})
		if recv {
			c.Bits |= hx.NegReceived
		}
		c.NetConn = r.Bool()
		g := &adaptive{r: r.Fork(), c: c, max: 7, noise: 0}
		obs := execute(c, g)
		x.record(c, &obs, "")
	}
}

// corpus: witnesses of the defects found on the pinned tree; always run first.
func corpus() []recCase {
	hdr := hx.Item{Kind: "header"}
	a := hx.FeatSpec{Space: "urn:x:a", Local: "a", Neg: true}
	b := hx.FeatSpec{Space: "urn:x:b", Local: "b", Neg: true}
	tls := hx.FeatSpec{Space: hx.NSStartTLS, Local: "starttls", Proh: S, Neg: true, LReq: true}
	fl := func(cs ...hx.Child) hx.Item { return hx.Item{Kind: "features", Children: cs} }
	ch := func(f hx.FeatSpec, req bool) hx.Child { return hx.Child{Space: f.Space, Local: f.Local, Req: req} }
	var out []recCase
	// a voluntary feature sets a bit the other voluntary feature prohibits
	bp := b
	bp.Proh = A
	out = append(out, recCase{Note: "prerequisites not re-tested after a voluntary feature changed the state (initiator)", NegCase: hx.NegCase{
		Feats: []hx.FeatSpec{a, bp}, In: []hx.Item{hdr, fl(ch(a, false), ch(bp, false))},
		Outs: []hx.Outcome{{Mask: A}, {Mask: 0}}}})
	al := a
	al.LReq = false
	out = append(out, recCase{Note: "prerequisites not re-tested after a voluntary feature changed the state (receiver)", NegCase: hx.NegCase{
		Bits: hx.NegReceived, Feats: []hx.FeatSpec{al, bp},
		In:   []hx.Item{hdr, {Kind: "elem", Space: a.Space, Local: a.Local}, {Kind: "elem", Space: bp.Space, Local: bp.Local}},
		Outs: []hx.Outcome{{Mask: A}, {Mask: R}}}})
	// two required features, the one taken first reports Ready itself
	out = append(out, recCase{Note: "Ready from a required feature while another required one is pending (initiator)", NegCase: hx.NegCase{
		Feats: []hx.FeatSpec{a, b}, In: []hx.Item{hdr, fl(ch(a, true), ch(b, true))},
		Outs: []hx.Outcome{{Mask: R}}}})
	ar, br := a, b
	ar.LReq, br.LReq = true, true
	out = append(out, recCase{Note: "Ready from a required feature while another required one is pending (receiver)", NegCase: hx.NegCase{
		Bits: hx.NegReceived, Feats: []hx.FeatSpec{ar, br},
		In:   []hx.Item{hdr, {Kind: "elem", Space: a.Space, Local: a.Local}},
		Outs: []hx.Outcome{{Mask: R}}}})
	// the error of a failing voluntary feature must end the negotiation
	out = append(out, recCase{Note: "error of a voluntary feature", NegCase: hx.NegCase{
		Feats: []hx.FeatSpec{a}, In: []hx.Item{hdr, fl(ch(a, false))},
		Outs: []hx.Outcome{{Err: true}}}})
	out = append(out, recCase{Note: "error of a voluntary feature, another one open", NegCase: hx.NegCase{
		Feats: []hx.FeatSpec{a, b}, In: []hx.Item{hdr, fl(ch(a, false), ch(b, false))},
		Outs: []hx.Outcome{{Err: true}, {Mask: 0}}}})
	// forced STARTTLS on the first list, with and without tee
	for tee := 0; tee < 4; tee++ {
		out = append(out, recCase{Note: "STARTTLS configured, empty first list", NegCase: hx.NegCase{
			Tee: tee, Feats: []hx.FeatSpec{tls, a}, In: []hx.Item{hdr, fl(), hdr, fl()},
			Outs: []hx.Outcome{{Mask: S, Restart: true}}}})
	}
	out = append(out, recCase{Note: "STARTTLS not advertised on a later list is not forced", NegCase: hx.NegCase{
		Feats: []hx.FeatSpec{tls, a}, In: []hx.Item{hdr, fl(ch(a, true)), fl()},
		Outs: []hx.Outcome{{Mask: 0}}}})
	// repeated, unsent and informational selections
	info := b
	info.Neg = false
	out = append(out, recCase{Note: "repeated selection", NegCase: hx.NegCase{
		Bits: hx.NegReceived, Feats: []hx.FeatSpec{al, b},
		In: []hx.Item{hdr, {Kind: "elem", Space: a.Space, Local: a.Local}, {Kind: "iq", Space: a.Space, Local: a.Local}}}})
	out = append(out, recCase{Note: "informational selection", NegCase: hx.NegCase{
		Bits: hx.NegReceived, Feats: []hx.FeatSpec{al, info},
		In: []hx.Item{hdr, {Kind: "elem", Space: b.Space, Local: b.Local}}}})
	out = append(out, recCase{Note: "unsent selection", NegCase: hx.NegCase{
		Bits: hx.NegReceived | S, Feats: []hx.FeatSpec{al, tls},
		In: []hx.Item{hdr, {Kind: "elem", Space: tls.Space, Local: tls.Local}}}})
	// an informational feature in the STARTTLS name space that the first list does not advertise
	tlsInfo := tls
	tlsInfo.Neg = false
	out = append(out, recCase{Note: "informational STARTTLS-namespace feature, not advertised on the first list (nil Negotiate)", NegCase: hx.NegCase{
		Feats: []hx.FeatSpec{tlsInfo, a}, In: []hx.Item{hdr, fl(ch(a, true)), fl()},
		Outs: []hx.Outcome{{Mask: 0}}}})
	// a voluntary feature that restarts the stream, no required feature in the list
	out = append(out, recCase{Note: "voluntary restarting feature, nothing required (initiator)", NegCase: hx.NegCase{
		Feats: []hx.FeatSpec{a, b}, In: []hx.Item{hdr, fl(ch(a, false)), hdr, fl()},
		Outs: []hx.Outcome{{Mask: S, Restart: true}}}})
	out = append(out, recCase{Note: "voluntary restarting feature, nothing required (receiver)", NegCase: hx.NegCase{
		Bits: hx.NegReceived, Feats: []hx.FeatSpec{al, b},
		In:   []hx.Item{hdr, {Kind: "elem", Space: a.Space, Local: a.Local}, hdr, {Kind: "elem", Space: b.Space, Local: b.Local}},
		Outs: []hx.Outcome{{Mask: S, Restart: true}, {Mask: R}}}})
	// a STARTTLS-namespace feature whose own prerequisites do not hold must not be forced
	tlsNec := tls
	tlsNec.Nec, tlsNec.Proh = S, 0
	out = append(out, recCase{Note: "forced STARTTLS although the feature's prerequisites do not hold (advertised, not eligible)", NegCase: hx.NegCase{
		Feats: []hx.FeatSpec{tlsNec, a}, In: []hx.Item{hdr, fl(ch(tlsNec, false), ch(a, true)), fl()},
		Outs: []hx.Outcome{{Mask: 0}}}})
	tlsProh := tls
	tlsProh.Proh = A
	out = append(out, recCase{Note: "forced STARTTLS although the feature's prerequisites do not hold (not advertised, prohibited bit set)", NegCase: hx.NegCase{
		Bits: A, Feats: []hx.FeatSpec{tlsProh, a}, In: []hx.Item{hdr, fl(ch(a, true)), fl()},
		Outs: []hx.Outcome{{Mask: 0}}}})
	// a required feature that becomes eligible through a voluntary one of the same list (known finding)
	bn := b
	bn.Nec = A
	out = append(out, recCase{Note: "advertised as required while not eligible, eligible after a voluntary feature", NegCase: hx.NegCase{
		Feats: []hx.FeatSpec{a, bn}, In: []hx.Item{hdr, fl(ch(a, false), ch(bn, true))},
		Outs: []hx.Outcome{{Mask: A}}}})
	vn := b
	vn.Nec = A
	cr := hx.FeatSpec{Space: "urn:x:c", Local: "c", Neg: true}
	out = append(out, recCase{Note: "voluntary feature advertised while not eligible, eligible when the required one is taken", NegCase: hx.NegCase{
		Feats: []hx.FeatSpec{a, vn, cr}, In: []hx.Item{hdr, fl(ch(a, false), ch(vn, false), ch(cr, true)), fl()},
		Outs: []hx.Outcome{{Mask: A}, {Mask: 0}}}})
	// two configured features in one name space: the later advertised child shadows the earlier one (known finding)
	a2 := hx.FeatSpec{Space: a.Space, Local: "a2"}
	out = append(out, recCase{Note: "required feature shadowed by a later informational child in the same name space", NegCase: hx.NegCase{
		Feats: []hx.FeatSpec{a, a2}, In: []hx.Item{hdr, fl(ch(a, true), ch(a2, false))}}})
	// a caller-asserted Secure bit survives restarts, whatever connection the features return
	auth := hx.FeatSpec{Space: "urn:x:a", Local: "a", Nec: S, Proh: A, Neg: true, LReq: true}
	need := hx.FeatSpec{Space: "urn:x:b", Local: "b", Nec: S | A, Proh: R, Neg: true, LReq: true}
	for _, kind := range []string{"", "same", "plain", "tls"} {
		for _, nc := range []bool{false, true} {
			out = append(out, recCase{Note: "initial Secure, restart returning kind '" + kind + "', then a feature that needs Secure (initiator)", NegCase: hx.NegCase{
				Bits: S, NetConn: nc, Feats: []hx.FeatSpec{auth, need},
				In:   []hx.Item{hdr, fl(ch(auth, true)), hdr, fl(ch(need, true))},
				Outs: []hx.Outcome{{Mask: A, Restart: true, RW: kind}, {Mask: R}}}})
			out = append(out, recCase{Note: "initial Secure, restart returning kind '" + kind + "', then a feature that needs Secure (receiver)", NegCase: hx.NegCase{
				Bits: S | hx.NegReceived, NetConn: nc, Feats: []hx.FeatSpec{auth, need},
				In:   []hx.Item{hdr, {Kind: "elem", Space: auth.Space, Local: auth.Local}, hdr, {Kind: "iq", Space: need.Space, Local: need.Local}},
				Outs: []hx.Outcome{{Mask: A, Restart: true, RW: kind}, {Mask: R}}}})
		}
	}
	// Ready together with a restart
	out = append(out, recCase{Note: "Ready in the mask of a restarting feature", NegCase: hx.NegCase{
		Feats: []hx.FeatSpec{a}, In: []hx.Item{hdr, fl(ch(a, false))},
		Outs: []hx.Outcome{{Mask: R, Restart: true}}}})
	for i := range out {
		out[i].Domain = "example.net"
	}
	return out
}
