package main

import (
	"bytes"
	"encoding/xml"
	"fmt"
	"hash/fnv"
	"reflect"
	"sort"
	"strings"

	"mellium.im/xmlstream"
	"verifharness/hx"
)

// typeDesc describes one payload type to the generic driver.
type typeDesc struct {
	name  string // Go name, e.g. "version.Query"
	codec string // Coq codec (C19/Types.v); "" = no hand model: oracle only (level C)
	level string // "A" hand model + theorems, "B" model + theorems through lib/Schema, "C" differential only

	gen    func(r *hx.Rand) interface{}              // a value through the exported API
	tr     func(v interface{}) xml.TokenReader       // TokenReader()
	write  func(v interface{}, e *xml.Encoder) error // WriteXML(e); nil: copy TokenReader
	marsh  func(v interface{}) ([]byte, error)       // xml.Marshal in the idiomatic way (MarshalXML or reflection)
	fresh  func() interface{}                        // pointer to a zero value, for unmarshalling
	proj   func(p interface{}) interface{}           // *T or T -> projection (comparable, Coq-printable)
	norm   func(p interface{}) interface{}           // documented normal form of a projection (oracle side)
	oracle func(v interface{}, o *orTab)             // oracle entries the encoder model needs for v
	needs  needs                                     // oracles the decoder model consults
	both   bool                                      // supports encoding and decoding
	noEnc  bool                                      // decoding only
	timeOK func(v interface{}) bool                  // false: a time outside RFC 3339's range is involved
	seeds  []string                                  // literal documents for the unmarshaller
	// unordered: compare encodings up to the order of children (map iteration)
	unordered bool
	corpus    []interface{} // literal values always run first (witnesses of defects found earlier)
	// panicsDocumented: the value is outside the documented domain of TokenReader (skip)
	valid func(v interface{}) bool
	// eq: projection used for comparisons on the Go side (default: proj)
	eq func(p interface{}) interface{}
	// canon: normalise an observed tree before it is compared (e.g. sort children whose order is Go map order)
	canon func(t *Tree)
	// marsh2: a second reflection encoding (for types without TokenReader)
	marsh2 func(v interface{}) ([]byte, error)
	// lossyTokens: decoding from a token stream is known to lose part of the value; when the bytes
	// cannot be compared (text XML cannot carry) the round trip is not judged
	lossyTokens bool
	// trigger: a minimal trigger class of the value, appended to finding keys ("" = none)
	trigger func(v interface{}, field string) string
	// keeps: fields of the projection that UnmarshalXML leaves alone (or, for slices, appends
	// to) when the document does not mention them — Go's convention for decoding into a
	// non-zero value, kept where the code keeps it. Every other field must not depend on what
	// the destination held before. "*" = the whole (non-struct) value may be kept.
	keeps []string
	// intoChecker / intoOld: the model's decode-into-a-destination function for this type (Coq
	// checker name) and the Coq term of the destination before the call
	intoChecker string
	intoOld     func(dst interface{}) string
	// dirty: a destination that already holds a value (default: built from gen by reflection)
	dirty func(r *hx.Rand) interface{}
	// dirtyCheck overrides the field-wise comparison (old, fresh and dirty results as projections)
	dirtyCheck func(old, fresh, got interface{}) string
	// direct: a clause of the property stated directly on the tokens TokenReader yields for v
	// (independent of decoding and of the model); returns (clause, what) or ("", "")
	direct func(v interface{}, raw []*Tree) (string, string)
}

type caseRec struct {
	Type  string `json:"type"`
	Kind  string `json:"kind"` // value | doc | form
	Seed  uint64 `json:"case_seed,omitempty"`
	Index int    `json:"index,omitempty"` // corpus index
	Doc   string `json:"doc,omitempty"`   // hex
	Value string `json:"value,omitempty"`
	Note  string `json:"note,omitempty"`
}

type runner struct {
	res   *hx.Result
	cases hx.CaseFile
	quick bool
}

func (x *runner) fail(td *typeDesc, clause, what string, c caseRec) {
	x.res.Fail("C19/"+td.name+"/"+clause, td.name+": "+what, c)
}

func encodeTokens(toks []xml.Token) ([]byte, error) {
	var buf bytes.Buffer
	e := xml.NewEncoder(&buf)
	for _, t := range toks {
		if err := e.EncodeToken(t); err != nil {
			return nil, err
		}
	}
	if err := e.Flush(); err != nil {
		return nil, err
	}
	return buf.Bytes(), nil
}

func sortKids(t *Tree) {
	for _, k := range t.Kids {
		sortKids(k)
	}
	sort.SliceStable(t.Kids, func(i, j int) bool { return t.Kids[i].String() < t.Kids[j].String() })
}

// sortAttrs orders the attributes and drops the empty ones: from="" and no
// from attribute are the same to every decoder in the library (the decoded
// values are compared separately).
func sortAttrs(t *Tree) {
	t.walk(func(n *Tree) {
		var as []xml.Attr
		for _, a := range n.Attrs {
			if a.Value != "" {
				as = append(as, a)
			}
		}
		n.Attrs = as
		sort.SliceStable(n.Attrs, func(i, j int) bool {
			return n.Attrs[i].Name.Space+" "+n.Attrs[i].Name.Local < n.Attrs[j].Name.Space+" "+n.Attrs[j].Name.Local
		})
	})
}

// sameForest compares two encodings: the order of attributes is not significant in XML.
func sameForest(a, b []*Tree, unordered bool) bool {
	ca, cb := make([]*Tree, len(a)), make([]*Tree, len(b))
	for i := range a {
		ca[i] = cloneTree(a[i])
		sortAttrs(ca[i])
	}
	for i := range b {
		cb[i] = cloneTree(b[i])
		sortAttrs(cb[i])
	}
	a, b = ca, cb
	if unordered {
		for _, t := range a {
			sortKids(t)
		}
		for _, t := range b {
			sortKids(t)
		}
	}
	return forestString(a) == forestString(b)
}

// names must not be empty and must be XML names made of ordinary characters.
func badNames(f []*Tree) string {
	bad := ""
	for _, t := range f {
		t.walk(func(n *Tree) {
			if n.Kind != 0 {
				return
			}
			if n.Name.Local == "" || strings.ContainsAny(n.Name.Local, " <>&\"'=/\t\r\n") {
				bad = fmt.Sprintf("element name %q", n.Name.Local)
			}
			for _, a := range n.Attrs {
				if a.Name.Local == "" || strings.ContainsAny(a.Name.Local, " <>&\"'=/\t\r\n") {
					bad = fmt.Sprintf("attribute name %q", a.Name.Local)
				}
			}
		})
	}
	return bad
}

func diffProj(a, b interface{}) string {
	if reflect.DeepEqual(a, b) {
		return ""
	}
	va, vb := reflect.ValueOf(a), reflect.ValueOf(b)
	if va.Kind() == reflect.Struct && vb.Kind() == reflect.Struct && va.Type() == vb.Type() {
		for i := 0; i < va.NumField(); i++ {
			if !reflect.DeepEqual(va.Field(i).Interface(), vb.Field(i).Interface()) {
				return va.Type().Field(i).Name
			}
		}
	}
	return "value"
}

// oneValue runs every clause of the property on one value of one type.
func (x *runner) oneValue(td *typeDesc, seed uint64) {
	r := hx.NewRand(seed)
	v := td.gen(r)
	if td.valid != nil && !td.valid(v) {
		return
	}
	x.runValue(td, v, caseRec{Type: td.name, Kind: "value", Seed: seed})
}

func (x *runner) runValue(td *typeDesc, v interface{}, c caseRec) {
	pv := td.proj(v)
	eq := td.eq
	if eq == nil {
		eq = td.proj
	}
	canon := func(f []*Tree) {
		if td.canon != nil {
			for _, t := range f {
				td.canon(t)
			}
		}
	}
	c.Value = fmt.Sprintf("%+v", pv)
	if len(c.Value) > 600 {
		c.Value = c.Value[:600] + "..."
	}
	if td.tr == nil {
		x.reflectOnly(td, v, c, eq)
		return
	}
	inRange := td.timeOK == nil || td.timeOK(v)
	trig := func(field string) string {
		if td.trigger != nil {
			if t := td.trigger(v, field); t != "" {
				return ":" + t
			}
		}
		return ""
	}
	classes := []string{"type/" + td.name}
	if !inRange {
		classes = append(classes, "time/out-of-rfc3339-range")
	}

	// 1. TokenReader: no panic, no error, well-bracketed
	var toks []xml.Token
	var terr error
	p := hx.Catch(func() { toks, terr = readTokens(td.tr(v)) })
	or := newOr()
	if td.oracle != nil {
		td.oracle(v, or)
	}
	if p != "" {
		x.fail(td, "tokenreader/panic", "TokenReader panics: "+p, c)
		if td.codec != "" {
			x.cases.Add(fmt.Sprintf("enc_ok %s %s %s Panic", td.codec, or.Coq(), coqOf(pv)), c)
		}
		x.res.Count(td.name+c.Value, true, classes...)
		return
	}
	if terr != nil {
		x.fail(td, "tokenreader/error", "TokenReader fails: "+terr.Error(), c)
		return
	}
	raw, ferr := forestOf(toks)
	if ferr != nil {
		x.fail(td, "tokenreader/unbalanced", "TokenReader output is not well-bracketed: "+ferr.Error(), c)
		return
	}
	canon(raw)
	if b := badNames(raw); b != "" {
		x.fail(td, "tokenreader/bad-name", "TokenReader output has "+b, c)
	}
	if td.codec != "" {
		x.cases.Add(fmt.Sprintf("enc_ok %s %s %s (Ok %s)", td.codec, or.Coq(), coqOf(pv), coqForest(raw)), c)
	}
	if td.direct != nil && inRange {
		if clause, what := td.direct(v, raw); clause != "" {
			x.fail(td, clause, what, c)
		}
	}
	clean := true
	for _, t := range raw {
		if !t.clean() {
			clean = false
		}
	}
	if !clean {
		classes = append(classes, "text/not-xml-clean")
	} else {
		classes = append(classes, "text/xml-clean")
	}
	x.res.Count(td.name+c.Value, true, classes...)

	// 2. the two byte encodings: MarshalXML (xml.Marshal) and WriteXML
	var bm, bw []byte
	var em, ew error
	if p := hx.Catch(func() { bm, em = td.marsh(v) }); p != "" {
		x.fail(td, "marshal/panic", "xml.Marshal panics: "+p, c)
		return
	}
	if p := hx.Catch(func() {
		var buf bytes.Buffer
		e := xml.NewEncoder(&buf)
		if td.write != nil {
			ew = td.write(v, e)
		} else {
			_, ew = xmlstream.Copy(e, td.tr(v))
		}
		if ew == nil {
			ew = e.Flush()
		}
		bw = buf.Bytes()
	}); p != "" {
		x.fail(td, "writexml/panic", "WriteXML panics: "+p, c)
		return
	}
	if em != nil || ew != nil {
		x.fail(td, "marshal/error", fmt.Sprintf("encoding fails: Marshal: %v, WriteXML: %v", em, ew), c)
		return
	}
	fm, e1 := wholeDoc(bm)
	fw, e2 := wholeDoc(bw)
	if e1 != nil || e2 != nil {
		x.fail(td, "wellformed", fmt.Sprintf("output is not well-formed XML: Marshal: %v, WriteXML: %v", e1, e2), c)
		return
	}
	canon(fm)
	canon(fw)
	if len(fm) != len(raw) || len(fw) != len(raw) {
		x.fail(td, "wellformed/element-count", fmt.Sprintf("top-level items: TokenReader %d, Marshal %d, WriteXML %d", len(raw), len(fm), len(fw)), c)
		return
	}
	if b := badNames(fm); b != "" {
		x.fail(td, "wellformed/bad-name", "output has "+b, c)
	}
	if !sameForest(fm, fw, td.unordered) {
		x.fail(td, "paths-differ/encoding", "MarshalXML and WriteXML write different XML: "+string(bm)+" vs "+string(bw), c)
	}
	if len(raw) == 0 {
		return
	}
	// the encoder/decoder passage, as the model has it
	if clean && len(raw) == 1 && len(fw) == 1 {
		x.cases.Add(fmt.Sprintf("wire_ok %s %s", raw[0].Coq(), fw[0].Coq()), c)
	}
	if td.fresh == nil {
		return
	}

	// 3. decoding: from both encodings and from the token stream directly
	type dec struct {
		name string
		run  func(p interface{}) error
		tree *Tree
	}
	decs := []dec{
		{"marshal", func(p interface{}) error { return xml.Unmarshal(bm, p) }, fm[0]},
		{"writexml", func(p interface{}) error { return xml.Unmarshal(bw, p) }, fw[0]},
		{"tokens", func(p interface{}) error { return xml.NewTokenDecoder(td.tr(v)).Decode(p) }, raw[0]},
	}
	var got []interface{}
	for _, d := range decs {
		ptr := td.fresh()
		var err error
		if p := hx.Catch(func() { err = d.run(ptr) }); p != "" {
			x.fail(td, "unmarshal/panic", "unmarshalling own output ("+d.name+") panics: "+p, c)
			return
		}
		if err != nil {
			if !inRange {
				x.res.Fail("C19/time/year-outside-rfc3339", td.name+": a time whose year is outside 0000-9999 is written but cannot be read back: "+err.Error(), c)
				return
			}
			if !clean && d.name != "tokens" {
				got = append(got, nil)
				continue
			}
			x.fail(td, "roundtrip/error"+trig("error"), "own output ("+d.name+") does not unmarshal: "+err.Error(), c)
			return
		}
		pg := td.proj(ptr)
		got = append(got, eq(ptr))
		if td.codec != "" && (clean || d.name == "tokens") {
			o := newOr()
			o.fromTree(d.tree, td.needs)
			x.cases.Add(fmt.Sprintf("dec_ok %s %s %s (Ok %s)", td.codec, o.Coq(), d.tree.Coq(), coqOf(pg)), c)
		}
	}
	if got[0] != nil && got[1] != nil {
		if f := diffProj(got[0], got[1]); f != "" {
			x.fail(td, "paths-differ/decoded/"+f, fmt.Sprintf("MarshalXML and WriteXML output decode differently: %+v vs %+v", got[0], got[1]), c)
		}
	}
	if got[1] != nil && clean {
		if f := diffProj(got[1], got[2]); f != "" {
			x.fail(td, "paths-differ/tokens/"+f, fmt.Sprintf("decoding the bytes and decoding the token stream differ: %+v vs %+v", got[1], got[2]), c)
		}
	}
	// 4. round trip
	if td.both && inRange && (clean || !td.lossyTokens) {
		want := eq(v)
		if td.norm != nil {
			want = td.norm(want)
		}
		g := got[2]
		if got[1] != nil && clean {
			g = got[1]
		}
		if f := diffProj(want, g); f != "" {
			x.fail(td, "roundtrip/"+f+trig(f), fmt.Sprintf("decoded value differs from the original: want %+v got %+v", want, g), c)
		}
	}
}

// oneDoc offers a document to the type's unmarshaller.
func (x *runner) oneDoc(td *typeDesc, doc []byte, note string) {
	c := caseRec{Type: td.name, Kind: "doc", Doc: hx.Hex(doc), Note: note}
	ptr := td.fresh()
	var err error
	p := hx.Catch(func() { err = xml.Unmarshal(doc, ptr) })
	tree, perr := parseDoc(doc)
	cls := "doc/malformed"
	if perr == nil {
		cls = "doc/well-formed"
	}
	x.res.Count(td.name+c.Doc, true, "type/"+td.name, cls)
	if p != "" {
		x.fail(td, "unmarshal/panic", "unmarshalling a document panics: "+p, c)
	}
	if perr == nil && p == "" {
		x.dirtyDecode(td, doc, err, ptr, c)
	}
	if perr != nil || td.codec == "" {
		return
	}
	o := newOr()
	o.fromTree(tree, td.needs)
	obs := "Err"
	if p != "" {
		obs = "Panic"
	} else if err == nil {
		obs = "(Ok " + coqOf(td.proj(ptr)) + ")"
	}
	x.cases.Add(fmt.Sprintf("dec_ok %s %s %s %s", td.codec, o.Coq(), tree.Coq(), obs), c)
}

// reflectOnly: a type without TokenReader: the two encodings are xml.Marshal of
// the value and of a pointer to it.
func (x *runner) reflectOnly(td *typeDesc, v interface{}, c caseRec, eq func(interface{}) interface{}) {
	x.res.Count(td.name+c.Value, true, "type/"+td.name)
	var b1, b2 []byte
	var e1, e2 error
	if p := hx.Catch(func() { b1, e1 = td.marsh(v); b2, e2 = td.marsh2(v) }); p != "" {
		x.fail(td, "marshal/panic", "xml.Marshal panics: "+p, c)
		return
	}
	if e1 != nil || e2 != nil {
		x.fail(td, "marshal/error", fmt.Sprint("xml.Marshal fails: ", e1, e2), c)
		return
	}
	f1, p1 := wholeDoc(b1)
	f2, p2 := wholeDoc(b2)
	if p1 != nil || p2 != nil || len(f1) != 1 || len(f2) != 1 {
		x.fail(td, "wellformed", fmt.Sprint("output is not one well-formed element: ", p1, p2), c)
		return
	}
	if !sameForest(f1, f2, false) {
		x.fail(td, "paths-differ/encoding", "marshalling the value and a pointer to it write different XML: "+string(b1)+" vs "+string(b2), c)
	}
	clean := f1[0].clean() && f2[0].clean()
	var got []interface{}
	for i, b := range [][]byte{b1, b2} {
		ptr := td.fresh()
		var err error
		if p := hx.Catch(func() { err = xml.Unmarshal(b, ptr) }); p != "" {
			x.fail(td, "unmarshal/panic", "unmarshalling own output panics: "+p, c)
			return
		}
		if err != nil {
			if clean {
				x.fail(td, fmt.Sprintf("roundtrip/error:encoding-%d", i+1), "own output does not unmarshal: "+err.Error()+": "+string(b), c)
			}
			got = append(got, nil)
			continue
		}
		got = append(got, eq(ptr))
	}
	if !clean {
		return
	}
	want := eq(v)
	if td.norm != nil {
		want = td.norm(want)
	}
	for _, g := range got {
		if g == nil {
			continue
		}
		if f := diffProj(want, g); f != "" {
			x.fail(td, "roundtrip/"+f, fmt.Sprintf("decoded value differs from the original: want %+v got %+v", want, g), c)
		}
	}
}

// ---- decoding into a destination that already holds a value ----

func deepCopy(v reflect.Value) reflect.Value {
	switch v.Kind() {
	case reflect.Ptr:
		if v.IsNil() {
			return v
		}
		n := reflect.New(v.Type().Elem())
		n.Elem().Set(deepCopy(v.Elem()))
		return n
	case reflect.Slice:
		if v.IsNil() {
			return v
		}
		n := reflect.MakeSlice(v.Type(), v.Len(), v.Len())
		for i := 0; i < v.Len(); i++ {
			n.Index(i).Set(deepCopy(v.Index(i)))
		}
		return n
	case reflect.Struct:
		n := reflect.New(v.Type()).Elem()
		for i := 0; i < v.NumField(); i++ {
			if n.Field(i).CanSet() {
				n.Field(i).Set(deepCopy(v.Field(i)))
			}
		}
		return n
	case reflect.Interface:
		if v.IsNil() {
			return v
		}
		n := reflect.New(v.Type()).Elem()
		n.Set(deepCopy(v.Elem()))
		return n
	}
	return v
}

func snapshot(p interface{}) interface{} {
	if p == nil {
		return nil
	}
	return deepCopy(reflect.ValueOf(p)).Interface()
}

// dirtyDest: a pointer to a value of the type, the largest of three generated ones.
func dirtyDest(td *typeDesc, r *hx.Rand) interface{} {
	if td.dirty != nil {
		return td.dirty(r)
	}
	if td.gen == nil || td.fresh == nil {
		return nil
	}
	ft := reflect.TypeOf(td.fresh())
	var best interface{}
	bestLen := -1
	for i := 0; i < 3; i++ {
		var v interface{}
		if p := hx.Catch(func() { v = td.gen(r) }); p != "" || v == nil {
			continue
		}
		if td.valid != nil && !td.valid(v) {
			continue
		}
		rv := reflect.ValueOf(v)
		var ptr interface{}
		switch {
		case rv.Type() == ft:
			ptr = v
		case rv.Type() == ft.Elem():
			n := reflect.New(ft.Elem())
			n.Elem().Set(rv)
			ptr = n.Interface()
		default:
			continue
		}
		if l := len(fmt.Sprintf("%+v", td.proj(ptr))); l > bestLen {
			best, bestLen = ptr, l
		}
	}
	return best
}

// sliceAppend: got = old ++ fresh, for slice-valued fields
func sliceAppend(old, fresh, got reflect.Value) bool {
	if old.Kind() != reflect.Slice || fresh.Kind() != reflect.Slice || got.Kind() != reflect.Slice {
		return false
	}
	if got.Len() != old.Len()+fresh.Len() {
		return false
	}
	for i := 0; i < old.Len(); i++ {
		if !reflect.DeepEqual(got.Index(i).Interface(), old.Index(i).Interface()) {
			return false
		}
	}
	for i := 0; i < fresh.Len(); i++ {
		if !reflect.DeepEqual(got.Index(old.Len()+i).Interface(), fresh.Index(i).Interface()) {
			return false
		}
	}
	return true
}

// mixOK: a kept field holds the new value, the old value, the old slice followed by the new
// one, or (structs, pointers) a field-wise mixture of those — never anything else.
func mixOK(o, f, g reflect.Value) bool {
	if sameVal(g, f) || sameVal(g, o) || sliceAppend(o, f, g) {
		return true
	}
	if o.Kind() != g.Kind() || f.Kind() != g.Kind() {
		return false
	}
	switch g.Kind() {
	case reflect.Struct:
		for i := 0; i < g.NumField(); i++ {
			if !mixOK(o.Field(i), f.Field(i), g.Field(i)) {
				return false
			}
		}
		return true
	case reflect.Ptr:
		if o.IsNil() || f.IsNil() || g.IsNil() {
			return false
		}
		return mixOK(o.Elem(), f.Elem(), g.Elem())
	}
	return false
}

func emptyish(v reflect.Value) bool {
	switch v.Kind() {
	case reflect.Slice, reflect.String:
		return v.Len() == 0
	}
	return false
}

func sameVal(a, b reflect.Value) bool {
	if emptyish(a) && emptyish(b) {
		return true
	}
	return reflect.DeepEqual(a.Interface(), b.Interface())
}

// dirtyDecode: the document decoded into a fresh value (already done by the caller: ferr,
// fptr) and into a destination that already holds another value must agree, except for the
// fields the type keeps by Go's convention; no field may be anything else than the new value,
// the old value, or (slices) the old value followed by the new one.
func (x *runner) dirtyDecode(td *typeDesc, doc []byte, ferr error, fptr interface{}, c caseRec) {
	h := fnv.New64a()
	h.Write([]byte(td.name))
	h.Write(doc)
	dst := dirtyDest(td, hx.NewRand(h.Sum64()))
	if dst == nil {
		return
	}
	eq := td.eq
	if eq == nil {
		eq = td.proj
	}
	old := snapshot(eq(dst))
	c.Note += fmt.Sprintf(" dirty-destination=%+v", old)
	if len(c.Note) > 700 {
		c.Note = c.Note[:700] + "..."
	}
	oldCoq := ""
	if td.intoOld != nil {
		oldCoq = td.intoOld(dst)
	}
	var derr error
	if p := hx.Catch(func() { derr = xml.Unmarshal(doc, dst) }); p != "" {
		x.fail(td, "unmarshal/panic:dirty-destination", "unmarshalling into a destination that holds a value panics: "+p, c)
		return
	}
	x.res.Count(td.name+c.Doc+"dirty", true, "type/"+td.name, "doc/dirty-destination")
	if td.intoChecker != "" {
		if tree, perr := parseDoc(doc); perr == nil {
			o := newOr()
			o.fromTree(tree, td.needs)
			obs := "Err"
			if derr == nil {
				obs = "(Ok " + coqOf(td.proj(dst)) + ")"
			}
			x.cases.Add(fmt.Sprintf("%s %s %s %s %s", td.intoChecker, o.Coq(), oldCoq, tree.Coq(), obs), c)
		}
	}
	if (ferr == nil) != (derr == nil) {
		x.fail(td, "unmarshal/depends-on-destination/error", fmt.Sprintf("fresh destination: %v; destination holding a value: %v", ferr, derr), c)
		return
	}
	if ferr != nil {
		return
	}
	fresh, got := eq(fptr), eq(dst)
	if td.dirtyCheck != nil {
		if f := td.dirtyCheck(old, fresh, got); f != "" {
			x.fail(td, "unmarshal/depends-on-destination/"+f, fmt.Sprintf("old %+v, into fresh %+v, into old %+v", old, fresh, got), c)
		}
		return
	}
	keeps := map[string]bool{}
	for _, k := range td.keeps {
		keeps[k] = true
	}
	vo, vf, vg := reflect.ValueOf(old), reflect.ValueOf(fresh), reflect.ValueOf(got)
	check := func(name string, o, f, g reflect.Value) {
		if sameVal(g, f) {
			return
		}
		if (keeps[name] || keeps["ALL"]) && mixOK(o, f, g) {
			return
		}
		x.fail(td, "unmarshal/depends-on-destination/"+name, fmt.Sprintf("field %s: old %+v, decoded into a fresh value %+v, decoded into the old value %+v", name, o.Interface(), f.Interface(), g.Interface()), c)
	}
	if vf.Kind() == reflect.Struct && vg.Kind() == reflect.Struct && vo.Kind() == reflect.Struct {
		for i := 0; i < vf.NumField(); i++ {
			check(vf.Type().Field(i).Name, vo.Field(i), vf.Field(i), vg.Field(i))
		}
		return
	}
	check("*", vo, vf, vg)
}
