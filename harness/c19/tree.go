package main

import (
	"bytes"
	"encoding/xml"
	"errors"
	"fmt"
	"io"
	"reflect"
	"strings"
	"unicode/utf8"

	"verifharness/hx"
)

// Tree is a well-bracketed token sequence: the shape lib/Xml.v calls tree.
type Tree struct {
	Kind  int // 0 element, 1 text, 2 misc
	Name  xml.Name
	Attrs []xml.Attr
	Kids  []*Tree
	Text  string
	Misc  int // 0 comment, 1 procinst, 2 directive
}

// readTokens drains a TokenReader, copying every token.
func readTokens(r xml.TokenReader) ([]xml.Token, error) {
	var out []xml.Token
	for i := 0; i < 1<<20; i++ {
		t, err := r.Token()
		if t != nil {
			out = append(out, xml.CopyToken(t))
		}
		if err == io.EOF {
			return out, nil
		}
		if err != nil {
			return out, err
		}
		if t == nil {
			// (nil, nil) is allowed by the interface; keep reading
			continue
		}
	}
	return out, errors.New("token stream does not end")
}

// forestOf builds the forest of a token sequence; an error means the sequence
// is not well-bracketed.
func forestOf(toks []xml.Token) ([]*Tree, error) {
	root := &Tree{}
	stack := []*Tree{root}
	for _, t := range toks {
		top := stack[len(stack)-1]
		switch x := t.(type) {
		case xml.StartElement:
			n := &Tree{Kind: 0, Name: x.Name, Attrs: append([]xml.Attr(nil), x.Attr...)}
			top.Kids = append(top.Kids, n)
			stack = append(stack, n)
		case xml.EndElement:
			if len(stack) == 1 {
				return nil, fmt.Errorf("end element %v without start", x.Name)
			}
			if top.Name != x.Name {
				return nil, fmt.Errorf("end element %v closes %v", x.Name, top.Name)
			}
			stack = stack[:len(stack)-1]
		case xml.CharData:
			top.Kids = append(top.Kids, &Tree{Kind: 1, Text: string(x)})
		case xml.Comment:
			top.Kids = append(top.Kids, &Tree{Kind: 2, Misc: 0, Text: string(x)})
		case xml.ProcInst:
			top.Kids = append(top.Kids, &Tree{Kind: 2, Misc: 1, Text: x.Target + " " + string(x.Inst)})
		case xml.Directive:
			top.Kids = append(top.Kids, &Tree{Kind: 2, Misc: 2, Text: string(x)})
		default:
			return nil, fmt.Errorf("unexpected token %T", t)
		}
	}
	if len(stack) != 1 {
		return nil, fmt.Errorf("%d elements left open", len(stack)-1)
	}
	return root.Kids, nil
}

// parseDoc tokenises a document with encoding/xml exactly as xml.Unmarshal
// would and returns the first element as a tree (nil, err if the document is
// not well-formed up to the end of that element).
func parseDoc(doc []byte) (*Tree, error) {
	d := xml.NewDecoder(bytes.NewReader(doc))
	var toks []xml.Token
	depth := 0
	started := false
	for {
		t, err := d.Token()
		if err != nil {
			return nil, err
		}
		switch t.(type) {
		case xml.StartElement:
			started = true
			depth++
		case xml.EndElement:
			depth--
		}
		if started {
			toks = append(toks, xml.CopyToken(t))
			if depth == 0 {
				break
			}
		}
		if started && depth == 0 {
			break
		}
	}
	f, err := forestOf(toks)
	if err != nil || len(f) != 1 {
		return nil, fmt.Errorf("not a single element: %v", err)
	}
	return f[0], nil
}

// wholeDoc checks that doc is a well-formed document: tokenises to EOF.
func wholeDoc(doc []byte) ([]*Tree, error) {
	d := xml.NewDecoder(bytes.NewReader(doc))
	var toks []xml.Token
	for {
		t, err := d.Token()
		if err == io.EOF {
			break
		}
		if err != nil {
			return nil, err
		}
		toks = append(toks, xml.CopyToken(t))
	}
	return forestOf(toks)
}

func coqName(n xml.Name) string {
	if n.Space == "" {
		return "(ln " + hx.CoqBytes([]byte(n.Local)) + ")"
	}
	return "(mkname " + hx.CoqBytes([]byte(n.Space)) + " " + hx.CoqBytes([]byte(n.Local)) + ")"
}

func (t *Tree) Coq() string {
	switch t.Kind {
	case 1:
		return "(Text " + hx.CoqBytes([]byte(t.Text)) + ")"
	case 2:
		return fmt.Sprintf("(Misc %d%%nat %s)", t.Misc, hx.CoqBytes([]byte(t.Text)))
	}
	var sb strings.Builder
	sb.WriteString("(Elem ")
	sb.WriteString(coqName(t.Name))
	sb.WriteString(" [")
	for i, a := range t.Attrs {
		if i > 0 {
			sb.WriteByte(';')
		}
		sb.WriteString("mkattr " + coqName(a.Name) + " " + hx.CoqBytes([]byte(a.Value)))
	}
	sb.WriteString("] ")
	sb.WriteString(coqForest(t.Kids))
	sb.WriteString(")")
	return sb.String()
}

func coqForest(f []*Tree) string {
	var sb strings.Builder
	sb.WriteString("[")
	for i, k := range f {
		if i > 0 {
			sb.WriteByte(';')
		}
		sb.WriteString(k.Coq())
	}
	sb.WriteString("]")
	return sb.String()
}

func (t *Tree) String() string {
	switch t.Kind {
	case 1:
		return fmt.Sprintf("%q", t.Text)
	case 2:
		return fmt.Sprintf("<!%d %q>", t.Misc, t.Text)
	}
	var sb strings.Builder
	fmt.Fprintf(&sb, "<{%s}%s", t.Name.Space, t.Name.Local)
	for _, a := range t.Attrs {
		fmt.Fprintf(&sb, " {%s}%s=%q", a.Name.Space, a.Name.Local, a.Value)
	}
	sb.WriteString(">")
	for _, k := range t.Kids {
		sb.WriteString(k.String())
	}
	sb.WriteString("</>")
	return sb.String()
}

func forestString(f []*Tree) string {
	var sb strings.Builder
	for _, t := range f {
		sb.WriteString(t.String())
	}
	return sb.String()
}

// walk visits every node.
func (t *Tree) walk(f func(*Tree)) {
	f(t)
	for _, k := range t.Kids {
		k.walk(f)
	}
}

// directText is the character data directly inside an element.
func (t *Tree) directText() string {
	var sb strings.Builder
	for _, k := range t.Kids {
		if k.Kind == 1 {
			sb.WriteString(k.Text)
		}
	}
	return sb.String()
}

// xmlClean reports whether s survives the encoder and the decoder unchanged:
// valid UTF-8 made of characters XML 1.0 allows.
func xmlClean(s string) bool {
	if !utf8.ValidString(s) {
		return false
	}
	for _, r := range s {
		ok := r == 0x09 || r == 0x0A || r == 0x0D || (r >= 0x20 && r <= 0xD7FF) || (r >= 0xE000 && r <= 0xFFFD) || (r >= 0x10000 && r <= 0x10FFFF)
		if !ok || r == utf8.RuneError {
			return false
		}
	}
	return true
}

func (t *Tree) clean() bool {
	ok := true
	t.walk(func(n *Tree) {
		if n.Kind == 1 && !xmlClean(n.Text) {
			ok = false
		}
		if n.Kind == 2 {
			ok = false
		}
		for _, a := range n.Attrs {
			if !xmlClean(a.Value) {
				ok = false
			}
		}
	})
	return ok
}

// ---- generic Coq printer for projection values ----

type coqCtor interface{ CoqCtor() string }

// TM is the model's view of a time.Time.
type TM struct {
	Sec  int64
	Nsec uint64
	Off  int64
}

func (TM) CoqCtor() string { return "mktm" }

// RawCoq is a Coq term printed as is.
type RawCoq string

func coqVal(v reflect.Value) string {
	if v.Type() == reflect.TypeOf(RawCoq("")) {
		return v.String()
	}
	switch v.Kind() {
	case reflect.String:
		return hx.CoqBytes([]byte(v.String()))
	case reflect.Bool:
		return hx.CoqBool(v.Bool())
	case reflect.Uint64, reflect.Uint32, reflect.Uint8, reflect.Uint:
		return fmt.Sprintf("(%d)%%N", v.Uint())
	case reflect.Int64, reflect.Int:
		return fmt.Sprintf("(%d)%%Z", v.Int())
	case reflect.Ptr:
		if v.IsNil() {
			return "None"
		}
		return "(Some " + coqVal(v.Elem()) + ")"
	case reflect.Slice:
		if v.Type().Elem().Kind() == reflect.Uint8 {
			return hx.CoqBytes(v.Bytes())
		}
		var sb strings.Builder
		sb.WriteString("[")
		for i := 0; i < v.Len(); i++ {
			if i > 0 {
				sb.WriteByte(';')
			}
			sb.WriteString(coqVal(v.Index(i)))
		}
		sb.WriteString("]")
		return sb.String()
	case reflect.Struct:
		c, ok := v.Interface().(coqCtor)
		if !ok {
			panic("no CoqCtor for " + v.Type().String())
		}
		var sb strings.Builder
		sb.WriteString("(" + c.CoqCtor())
		for i := 0; i < v.NumField(); i++ {
			sb.WriteString(" ")
			sb.WriteString(coqVal(v.Field(i)))
		}
		sb.WriteString(")")
		return sb.String()
	}
	panic("coqVal: unsupported " + v.Type().String())
}

func coqOf(x interface{}) string { return coqVal(reflect.ValueOf(x)) }
