package main

import (
	"encoding/xml"
	"fmt"
	"math"
	"regexp"
	"strings"
	"time"

	"mellium.im/xmpp/bin"
	"mellium.im/xmpp/blocklist"
	"mellium.im/xmpp/commands"
	"mellium.im/xmpp/crypto"
	"mellium.im/xmpp/delay"
	"mellium.im/xmpp/disco"
	"mellium.im/xmpp/disco/info"
	"mellium.im/xmpp/disco/items"
	"mellium.im/xmpp/file"
	"mellium.im/xmpp/forward"
	"mellium.im/xmpp/history"
	"mellium.im/xmpp/jid"
	"mellium.im/xmpp/oob"
	"mellium.im/xmpp/paging"
	"mellium.im/xmpp/pubsub"
	"mellium.im/xmpp/receipts"
	"mellium.im/xmpp/roster"
	"mellium.im/xmpp/stanza"
	"mellium.im/xmpp/styling"
	"mellium.im/xmpp/upload"
	"mellium.im/xmpp/version"
	"mellium.im/xmpp/xtime"
	"verifharness/hx"
)

func marshalV(v interface{}) ([]byte, error) { return xml.Marshal(v) }

// ---- projections (field order = constructor argument order in C19/Types.v) ----

type pVersion struct{ Name, Version, OS string }

func (pVersion) CoqCtor() string { return "mkversion" }

type pOOB struct{ URL, Desc string }

func (pOOB) CoqCtor() string { return "mkoob" }

type pDItem struct{ JID, Name, Node string }

func (pDItem) CoqCtor() string { return "mkditem" }

type pIdent struct{ Cat, Type, Name, Lang string }

func (pIdent) CoqCtor() string { return "mkident" }

type pRNext struct {
	Max   uint64
	After string
}

func (pRNext) CoqCtor() string { return "mkrnext" }

type pRPrev struct {
	Max    uint64
	Before string
}

func (pRPrev) CoqCtor() string { return "mkrprev" }

type pRIndex struct{ Max, Index uint64 }

func (pRIndex) CoqCtor() string { return "mkrindex" }

type pRSet struct {
	First string
	Index *uint64
	Last  string
	Count *uint64
}

func (pRSet) CoqCtor() string { return "mkrset" }

type pDelay struct {
	From   string
	Time   TM
	Reason string
}

func (pDelay) CoqCtor() string { return "mkdelay" }

type pRItem struct {
	JID, Name, Sub string
	Groups         []string
}

func (pRItem) CoqCtor() string { return "mkritem" }

type pSID struct{ ID, By string }

func (pSID) CoqCtor() string { return "mksid" }

type pBItem struct {
	JID, Reason string
	IDs         []pSID
	Text        string
}

func (pBItem) CoqCtor() string { return "mkbitem" }

type pUFile struct {
	Name string
	Size int64
	Type string
}

func (pUFile) CoqCtor() string { return "mkufile" }

type pBob struct {
	CID     string
	MaxAge  int64
	NoCache bool
	Type    string
	Data    []byte
}

func (pBob) CoqCtor() string { return "mkbob" }

type pHashOut struct {
	Hash uint64
	Out  []byte
}

func (pHashOut) CoqCtor() string { return "mkhashout" }

type pKey struct {
	Trusted bool
	ID      []byte
}

func (pKey) CoqCtor() string { return "mkckey" }

type pOwned struct {
	Owner string
	Keys  []pKey
}

func (pOwned) CoqCtor() string { return "mkowned" }

type pTrust struct {
	Usage, Enc string
	Keys       []pOwned
}

func (pTrust) CoqCtor() string { return "mktrust" }

type pHResult struct {
	Complete, Unstable bool
	Set                pRSet
}

func (pHResult) CoqCtor() string { return "mkhresult" }

type pMeta struct {
	Media, Name           string
	Date                  TM
	Size                  uint64
	Hash                  pHashOut
	Width, Height, Length uint64
}

func (pMeta) CoqCtor() string { return "mkfmeta" }

func nz(b []byte) []byte {
	if len(b) == 0 {
		return []byte{}
	}
	return b
}

func nzs(s []string) []string {
	if len(s) == 0 {
		return []string{}
	}
	return s
}

func cpU(p *uint64) *uint64 {
	if p == nil {
		return nil
	}
	v := *p
	return &v
}

func projSet(s paging.Set) pRSet {
	return pRSet{First: s.First.ID, Index: cpU(s.First.Index), Last: s.Last, Count: cpU(s.Count)}
}

func genSet(r *hx.Rand) paging.Set {
	var s paging.Set
	s.First.ID = genText(r)
	s.First.Index = genUintPtr(r)
	s.Last = genText(r)
	s.Count = genUintPtr(r)
	return s
}

func projDelay(d delay.Delay) pDelay {
	return pDelay{From: d.From.String(), Time: tmOf(d.Time), Reason: d.Reason}
}

func utcNorm(t TM) TM { t.Off = 0; return t }

var hashes = []crypto.Hash{crypto.SHA1, crypto.SHA224, crypto.SHA256, crypto.SHA384, crypto.SHA512, crypto.SHA3_256, crypto.SHA3_512, crypto.BLAKE2b_256, crypto.BLAKE2b_512}

func genKey(r *hx.Rand) crypto.Key { return crypto.Key{Trusted: r.Bool(), KeyID: genBytes(r)} }

func projKey(k crypto.Key) pKey { return pKey{Trusted: k.Trusted, ID: nz(k.KeyID)} }

func genOwned(r *hx.Rand) crypto.OwnedKeys {
	o := crypto.OwnedKeys{Owner: genJID(r)}
	for i, n := 0, r.Intn(4); i < n; i++ {
		o.Keys = append(o.Keys, genKey(r))
	}
	return o
}

func projOwned(o crypto.OwnedKeys) pOwned {
	p := pOwned{Owner: o.Owner.String(), Keys: []pKey{}}
	for _, k := range o.Keys {
		p.Keys = append(p.Keys, projKey(k))
	}
	return p
}

func projHashOut(h crypto.HashOutput) pHashOut { return pHashOut{Hash: uint64(h.Hash), Out: nz(h.Out)} }

// roundSeconds is the documented normalisation of bin.Data.MaxAge: whole
// seconds, nearest, ties to even (what max-age can carry).
func roundSeconds(d time.Duration) int64 { return int64(math.RoundToEven(d.Seconds())) }

// keepsTable: what UnmarshalXML leaves alone in a destination that already holds a value, read
// type by type from the code. ALL: the type has no UnmarshalXML of its own (or one that only
// assigns what the document mentions): encoding/xml's convention — a field the document does not
// mention keeps its value and a slice is appended to. Listed fields: a hand-written UnmarshalXML
// that assigns them only when the attribute / child / text is present. Every type not listed
// overwrites its whole destination (it decodes into a local zero struct and assigns every field):
// the result must not depend on the destination at all.
var keepsTable = map[string][]string{
	"version.Query": {"ALL"}, "oob.Query": {"ALL"}, "oob.Data": {"ALL"}, "oob.IQ": {"ALL"},
	"disco.ItemsQuery": {"ALL"}, "disco.InfoQuery": {"ALL"}, "disco.Info": {"ALL"}, "disco.Caps": {"ALL"},
	"info.Feature": {"ALL"}, "info.Identity": {"ALL"}, "items.Item": {"ALL"},
	"paging.RequestCount": {"ALL"}, "paging.RequestNext": {"ALL"}, "paging.RequestPrev": {"ALL"}, "paging.RequestIndex": {"ALL"}, "paging.Set": {"ALL"},
	"roster.Item": {"ALL"}, "roster.IQ": {"ALL"}, "stanza.ID": {"ALL"}, "stanza.OriginID": {"ALL"},
	"muc.Item": {"ALL"}, "commands.Command": {"ALL"}, "commands.Note": {"ALL"}, "upload.File": {"ALL"},
	"upload.Slot":       {"ALL"}, // URLs only when present, headers added to the existing ones
	"delay.Delay":       {"From", "Time", "Reason"},
	"stanza.Delay":      {"From", "Time", "Reason"},
	"forward.Forwarded": {"From", "Time", "Reason"},
	"history.Result":    {"Complete", "Unstable", "Set"},
	"saslerr.Condition": {"*"},
	"saslerr.Error":     {"Lang", "Text"},
	"pubsub.Condition":  {"*"},
}

func td0(t *typeDesc) *typeDesc { return t }

// intoTable: the types whose decode-into-a-destination behaviour is modelled in Coq (buffer
// re-use, fields kept): the observed result is compared with the model's on every document.
var intoTable = map[string]struct{ checker string }{
	"crypto.Key": {"ckey_into_ok"}, "crypto.HashOutput": {"hashout_into_ok"},
	"delay.Delay": {"delay_into_ok"}, "saslerr.Error": {"saslerr_into_ok"},
}

var tzoRE = regexp.MustCompile(`^(Z|[+-][0-9][0-9]:[0-9][0-9])$`)

// xtimeDirect: XEP-0202 stated on the tokens: <tzo/> is a XEP-0082 time zone
// definition (Z or a sign, two digits of hours, a colon, two digits of minutes)
// and <utc/> together with it denotes the original instant and the original zone
// offset in whole minutes. The texts are read here by hand, not with the
// library's decoder and not with the layout the library formats with.
func xtimeDirect(v interface{}, raw []*Tree) (string, string) {
	t := v.(xtime.Time).Time
	if len(raw) != 1 {
		return "tokenreader/tzo:shape", "not one element"
	}
	var tzo, utc string
	n := 0
	for _, k := range raw[0].Kids {
		if k.Kind != 0 {
			continue
		}
		switch k.Name.Local {
		case "tzo":
			tzo = k.directText()
			n++
		case "utc":
			utc = k.directText()
			n++
		}
	}
	if n != 2 {
		return "tokenreader/tzo:shape", fmt.Sprintf("expected one <tzo/> and one <utc/>, found %d", n)
	}
	if !tzoRE.MatchString(tzo) {
		return "tokenreader/tzo:not-a-time-zone-definition", fmt.Sprintf("<tzo>%s</tzo> is not Z or (+|-)hh:mm (zone offset %d s)", tzo, tmOf(t).Off)
	}
	min := 0
	if tzo != "Z" {
		h := int(tzo[1]-'0')*10 + int(tzo[2]-'0')
		m := int(tzo[4]-'0')*10 + int(tzo[5]-'0')
		if m > 59 {
			return "tokenreader/tzo:not-a-time-zone-definition", fmt.Sprintf("<tzo>%s</tzo>: minutes out of range", tzo)
		}
		min = h*60 + m
		if tzo[0] == '-' {
			min = -min
		}
	}
	if want := int(tmOf(t).Off) / 60; min != want {
		return "tokenreader/tzo:wrong-offset", fmt.Sprintf("<tzo>%s</tzo> denotes %d minutes, the zone offset is %d minutes (%d s)", tzo, min, want, tmOf(t).Off)
	}
	u, err := time.Parse(time.RFC3339Nano, utc)
	if err != nil || !strings.HasSuffix(utc, "Z") {
		return "tokenreader/utc:not-utc", fmt.Sprintf("<utc>%s</utc> is not a UTC date-time: %v", utc, err)
	}
	if !u.Equal(t) {
		return "tokenreader/utc:wrong-instant", fmt.Sprintf("<utc>%s</utc> is not the instant %s", utc, t.UTC().Format(time.RFC3339Nano))
	}
	return "", ""
}

func allTypes() []*typeDesc {
	var ts []*typeDesc
	add := func(t *typeDesc) { ts = append(ts, t) }

	add(&typeDesc{name: "version.Query", codec: "version_c", level: "B", both: true,
		gen: func(r *hx.Rand) interface{} {
			return version.Query{Name: genMaybe(r, genText), Version: genMaybe(r, genText), OS: genMaybe(r, genText)}
		},
		tr:    func(v interface{}) xml.TokenReader { return v.(version.Query).TokenReader() },
		marsh: marshalV,
		fresh: func() interface{} { return &version.Query{} },
		proj: func(p interface{}) interface{} {
			var q version.Query
			switch x := p.(type) {
			case version.Query:
				q = x
			case *version.Query:
				q = *x
			}
			return pVersion{q.Name, q.Version, q.OS}
		},
		seeds: []string{`<query xmlns='jabber:iq:version'><name>Exodus</name><version>0.7.0.4</version><os>Windows-XP 5.01.2600</os></query>`},
	})

	oobProj := func(p interface{}) interface{} {
		switch x := p.(type) {
		case oob.Query:
			return pOOB{x.URL, x.Desc}
		case *oob.Query:
			return pOOB{x.URL, x.Desc}
		case oob.Data:
			return pOOB{x.URL, x.Desc}
		case *oob.Data:
			return pOOB{x.URL, x.Desc}
		}
		panic("oob")
	}
	add(&typeDesc{name: "oob.Query", codec: "oobq_c", level: "B", both: true,
		gen:   func(r *hx.Rand) interface{} { return oob.Query{URL: genText(r), Desc: genMaybe(r, genText)} },
		tr:    func(v interface{}) xml.TokenReader { return v.(oob.Query).TokenReader() },
		marsh: marshalV, fresh: func() interface{} { return &oob.Query{} }, proj: oobProj,
		seeds: []string{`<query xmlns='jabber:iq:oob'><url>http://www.jabber.org/images/psa-license.jpg</url><desc>A license to Jabber!</desc></query>`},
	})
	add(&typeDesc{name: "oob.Data", codec: "oobx_c", level: "B", both: true,
		gen:   func(r *hx.Rand) interface{} { return oob.Data{URL: genText(r), Desc: genMaybe(r, genText)} },
		tr:    func(v interface{}) xml.TokenReader { return v.(oob.Data).TokenReader() },
		marsh: marshalV, fresh: func() interface{} { return &oob.Data{} }, proj: oobProj,
		seeds: []string{`<x xmlns='jabber:x:oob'><url>http://www.jabber.org/images/psa-license.jpg</url></x>`},
	})

	add(&typeDesc{name: "disco.ItemsQuery", codec: "itemsq_c", level: "B", both: true,
		gen:   func(r *hx.Rand) interface{} { return disco.ItemsQuery{Node: genMaybe(r, genText)} },
		tr:    func(v interface{}) xml.TokenReader { return v.(disco.ItemsQuery).TokenReader() },
		marsh: marshalV, fresh: func() interface{} { return &disco.ItemsQuery{} },
		proj: func(p interface{}) interface{} {
			switch x := p.(type) {
			case disco.ItemsQuery:
				return x.Node
			case *disco.ItemsQuery:
				return x.Node
			}
			panic("itemsq")
		},
		seeds: []string{`<query xmlns='http://jabber.org/protocol/disco#items' node='music'/>`},
	})

	add(&typeDesc{name: "items.Item", codec: "ditem_c", level: "B", both: true, needs: needs{jid: true},
		gen: func(r *hx.Rand) interface{} {
			return items.Item{JID: genJID(r), Name: genMaybe(r, genText), Node: genMaybe(r, genText)}
		},
		tr:    func(v interface{}) xml.TokenReader { return v.(items.Item).TokenReader() },
		marsh: marshalV, fresh: func() interface{} { return &items.Item{} },
		proj: func(p interface{}) interface{} {
			var q items.Item
			switch x := p.(type) {
			case items.Item:
				q = x
			case *items.Item:
				q = *x
			}
			return pDItem{q.JID.String(), q.Name, q.Node}
		},
		seeds: []string{`<item xmlns='http://jabber.org/protocol/disco#items' jid='people.shakespeare.lit' name='Directory of Characters' node='n'/>`},
	})

	add(&typeDesc{name: "info.Feature", codec: "feature_c", level: "B", both: true,
		gen:   func(r *hx.Rand) interface{} { return info.Feature{Var: genText(r)} },
		tr:    func(v interface{}) xml.TokenReader { return v.(info.Feature).TokenReader() },
		marsh: marshalV, fresh: func() interface{} { return &info.Feature{} },
		proj: func(p interface{}) interface{} {
			switch x := p.(type) {
			case info.Feature:
				return x.Var
			case *info.Feature:
				return x.Var
			}
			panic("feature")
		},
		seeds: []string{`<feature xmlns='http://jabber.org/protocol/disco#info' var='jabber:iq:time'/>`},
	})

	add(&typeDesc{name: "info.Identity", codec: "ident_c", level: "B", both: true,
		gen: func(r *hx.Rand) interface{} {
			return info.Identity{Category: genText(r), Type: genText(r), Name: genMaybe(r, genText), Lang: genMaybe(r, genText)}
		},
		tr:    func(v interface{}) xml.TokenReader { return v.(info.Identity).TokenReader() },
		marsh: marshalV, fresh: func() interface{} { return &info.Identity{} },
		proj: func(p interface{}) interface{} {
			var q info.Identity
			switch x := p.(type) {
			case info.Identity:
				q = x
			case *info.Identity:
				q = *x
			}
			return pIdent{q.Category, q.Type, q.Name, q.Lang}
		},
		seeds: []string{`<identity xmlns='http://jabber.org/protocol/disco#info' category='conference' type='text' name='Play-Specific Chatrooms' xml:lang='en'/>`},
	})

	// ---- paging ----
	add(&typeDesc{name: "paging.RequestCount", codec: "rcount_c", level: "B", both: true,
		gen:   func(r *hx.Rand) interface{} { return &paging.RequestCount{} },
		tr:    func(v interface{}) xml.TokenReader { return v.(*paging.RequestCount).TokenReader() },
		marsh: marshalV, fresh: func() interface{} { return &paging.RequestCount{} },
		proj:  func(p interface{}) interface{} { return RawCoq("tt") },
		seeds: []string{`<set xmlns='http://jabber.org/protocol/rsm'><max>0</max></set>`},
	})
	add(&typeDesc{name: "paging.RequestNext", codec: "rnext_c", level: "B", both: true,
		gen:   func(r *hx.Rand) interface{} { return &paging.RequestNext{Max: genUint(r), After: genMaybe(r, genText)} },
		tr:    func(v interface{}) xml.TokenReader { return v.(*paging.RequestNext).TokenReader() },
		marsh: marshalV, fresh: func() interface{} { return &paging.RequestNext{} },
		proj: func(p interface{}) interface{} {
			x := p.(*paging.RequestNext)
			return pRNext{x.Max, x.After}
		},
		seeds: []string{`<set xmlns='http://jabber.org/protocol/rsm'><max>10</max><after>peterpan@neverland.lit</after></set>`},
	})
	add(&typeDesc{name: "paging.RequestPrev", codec: "rprev_c", level: "B", both: true,
		gen: func(r *hx.Rand) interface{} {
			return &paging.RequestPrev{Max: genUint(r), Before: genMaybe(r, genText)}
		},
		tr:    func(v interface{}) xml.TokenReader { return v.(*paging.RequestPrev).TokenReader() },
		marsh: marshalV, fresh: func() interface{} { return &paging.RequestPrev{} },
		proj: func(p interface{}) interface{} {
			x := p.(*paging.RequestPrev)
			return pRPrev{x.Max, x.Before}
		},
		seeds: []string{`<set xmlns='http://jabber.org/protocol/rsm'><max>10</max><before/></set>`},
	})
	add(&typeDesc{name: "paging.RequestIndex", codec: "rindex_c", level: "B", both: true,
		gen:   func(r *hx.Rand) interface{} { return &paging.RequestIndex{Max: genUint(r), Index: genUint(r)} },
		tr:    func(v interface{}) xml.TokenReader { return v.(*paging.RequestIndex).TokenReader() },
		marsh: marshalV, fresh: func() interface{} { return &paging.RequestIndex{} },
		proj: func(p interface{}) interface{} {
			x := p.(*paging.RequestIndex)
			return pRIndex{x.Max, x.Index}
		},
		seeds: []string{`<set xmlns='http://jabber.org/protocol/rsm'><max>10</max><index>371</index></set>`},
	})
	add(&typeDesc{name: "paging.Set", codec: "rset_c", level: "B", both: true,
		gen:   func(r *hx.Rand) interface{} { s := genSet(r); return &s },
		tr:    func(v interface{}) xml.TokenReader { return v.(*paging.Set).TokenReader() },
		marsh: marshalV, fresh: func() interface{} { return &paging.Set{} },
		proj:  func(p interface{}) interface{} { return projSet(*p.(*paging.Set)) },
		seeds: []string{`<set xmlns='http://jabber.org/protocol/rsm'><first index='0'>stpeter@jabber.org</first><last>peterpan@neverland.lit</last><count>800</count></set>`},
	})

	// ---- delayed delivery, time ----
	add(&typeDesc{name: "delay.Delay", codec: "delay_c", level: "B", both: true, needs: needs{jid: true, time: true},
		gen: func(r *hx.Rand) interface{} {
			return delay.Delay{From: genJID(r), Time: genTime(r), Reason: genMaybe(r, genText)}
		},
		tr:    func(v interface{}) xml.TokenReader { return v.(delay.Delay).TokenReader() },
		marsh: marshalV, fresh: func() interface{} { return &delay.Delay{} },
		proj: func(p interface{}) interface{} {
			switch x := p.(type) {
			case delay.Delay:
				return projDelay(x)
			case *delay.Delay:
				return projDelay(*x)
			}
			panic("delay")
		},
		norm:   func(p interface{}) interface{} { d := p.(pDelay); d.Time = utcNorm(d.Time); return d },
		oracle: func(v interface{}, o *orTab) { o.tfmt(lUTCNano, v.(delay.Delay).Time) },
		timeOK: func(v interface{}) bool { return timeInRange(v.(delay.Delay).Time) },
		seeds:  []string{`<delay xmlns='urn:xmpp:delay' from='capulet.com' stamp='2002-09-10T23:08:25Z'>Offline Storage</delay>`},
	})
	projSDelay := func(d stanza.Delay) pDelay {
		return pDelay{From: d.From.String(), Time: tmOf(d.Stamp), Reason: d.Reason}
	}
	add(&typeDesc{name: "stanza.Delay", codec: "sdelay_c", level: "B", both: true, needs: needs{jid: true, time: true},
		gen: func(r *hx.Rand) interface{} {
			return stanza.Delay{From: genJID(r), Stamp: genTime(r), Reason: genMaybe(r, genText)}
		},
		tr:    func(v interface{}) xml.TokenReader { return v.(stanza.Delay).TokenReader() },
		marsh: marshalV, fresh: func() interface{} { return &stanza.Delay{} },
		proj: func(p interface{}) interface{} {
			switch x := p.(type) {
			case stanza.Delay:
				return projSDelay(x)
			case *stanza.Delay:
				return projSDelay(*x)
			}
			panic("sdelay")
		},
		norm:   func(p interface{}) interface{} { d := p.(pDelay); d.Time = utcNorm(d.Time); return d },
		oracle: func(v interface{}, o *orTab) { o.tfmt(lUTCNano, v.(stanza.Delay).Stamp) },
		timeOK: func(v interface{}) bool { return timeInRange(v.(stanza.Delay).Stamp) },
		seeds:  []string{`<delay xmlns='urn:xmpp:delay' from='capulet.com' stamp='2002-09-10T23:08:25Z'>Offline Storage</delay>`},
	})
	add(&typeDesc{name: "xtime.Time", codec: "xtime_c", level: "B", both: true, needs: needs{time: true},
		gen:   func(r *hx.Rand) interface{} { return xtime.Time{Time: genTime(r)} },
		tr:    func(v interface{}) xml.TokenReader { return v.(xtime.Time).TokenReader() },
		marsh: marshalV, fresh: func() interface{} { return &xtime.Time{} },
		proj: func(p interface{}) interface{} {
			switch x := p.(type) {
			case xtime.Time:
				return tmOf(x.Time)
			case *xtime.Time:
				return tmOf(x.Time)
			}
			panic("xtime")
		},
		// the zone offset is carried in whole minutes
		norm: func(p interface{}) interface{} { t := p.(TM); t.Off = t.Off / 60 * 60; return t },
		// the tzo text is computed by the model (format_tzo), not handed to it
		oracle: func(v interface{}, o *orTab) { o.tfmt(lUTCNano, v.(xtime.Time).Time) },
		timeOK: func(v interface{}) bool { return timeInRange(v.(xtime.Time).Time) },
		direct: xtimeDirect,
		seeds:  []string{`<time xmlns='urn:xmpp:time'><tzo>-06:00</tzo><utc>2006-12-19T17:58:35Z</utc></time>`},
	})
	add(&typeDesc{name: "forward.Forwarded", codec: "forwarded_c", level: "B", both: true, needs: needs{jid: true, time: true},
		gen: func(r *hx.Rand) interface{} {
			return forward.Forwarded{Delay: delay.Delay{From: genJID(r), Time: genTime(r), Reason: genMaybe(r, genText)}}
		},
		tr:    func(v interface{}) xml.TokenReader { return v.(forward.Forwarded).TokenReader() },
		marsh: marshalV, fresh: func() interface{} { return &forward.Forwarded{} },
		proj: func(p interface{}) interface{} {
			switch x := p.(type) {
			case forward.Forwarded:
				return projDelay(x.Delay)
			case *forward.Forwarded:
				return projDelay(x.Delay)
			}
			panic("fwd")
		},
		norm:   func(p interface{}) interface{} { d := p.(pDelay); d.Time = utcNorm(d.Time); return d },
		oracle: func(v interface{}, o *orTab) { o.tfmt(lUTCNano, v.(forward.Forwarded).Delay.Time) },
		timeOK: func(v interface{}) bool { return timeInRange(v.(forward.Forwarded).Delay.Time) },
		seeds:  []string{`<forwarded xmlns='urn:xmpp:forward:0'><delay xmlns='urn:xmpp:delay' stamp='2010-07-10T23:08:25Z'/><message xmlns='jabber:client'><body>x</body></message></forwarded>`},
	})

	// ---- roster, blocklist ----
	add(&typeDesc{name: "roster.Item", codec: "ritem_c", level: "B", both: true, needs: needs{jid: true},
		gen: func(r *hx.Rand) interface{} {
			return roster.Item{JID: genJID(r), Name: genMaybe(r, genText), Subscription: genMaybe(r, genText), Group: genStrings(r, genText)}
		},
		tr:    func(v interface{}) xml.TokenReader { return v.(roster.Item).TokenReader() },
		marsh: marshalV, fresh: func() interface{} { return &roster.Item{} },
		proj: func(p interface{}) interface{} {
			var q roster.Item
			switch x := p.(type) {
			case roster.Item:
				q = x
			case *roster.Item:
				q = *x
			}
			return pRItem{q.JID.String(), q.Name, q.Subscription, nzs(q.Group)}
		},
		seeds: []string{`<item jid='romeo@example.net' name='Romeo' subscription='both'><group>Friends</group><group>Lovers</group></item>`},
	})
	add(&typeDesc{name: "stanza.ID", codec: "sid_c", level: "B", both: true, needs: needs{jid: true},
		gen:   func(r *hx.Rand) interface{} { return stanza.ID{ID: genText(r), By: genJID(r)} },
		tr:    func(v interface{}) xml.TokenReader { return v.(stanza.ID).TokenReader() },
		marsh: marshalV, fresh: func() interface{} { return &stanza.ID{} },
		proj: func(p interface{}) interface{} {
			switch x := p.(type) {
			case stanza.ID:
				return pSID{x.ID, x.By.String()}
			case *stanza.ID:
				return pSID{x.ID, x.By.String()}
			}
			panic("sid")
		},
		seeds: []string{`<stanza-id xmlns='urn:xmpp:sid:0' id='de305d54-75b4-431b-adb2-eb6b9e546013' by='room@muc.example.com'/>`},
	})
	add(&typeDesc{name: "stanza.OriginID", codec: "oid_c", level: "B", both: true,
		gen:   func(r *hx.Rand) interface{} { return stanza.OriginID{ID: genText(r)} },
		tr:    func(v interface{}) xml.TokenReader { return v.(stanza.OriginID).TokenReader() },
		marsh: marshalV, fresh: func() interface{} { return &stanza.OriginID{} },
		proj: func(p interface{}) interface{} {
			switch x := p.(type) {
			case stanza.OriginID:
				return x.ID
			case *stanza.OriginID:
				return x.ID
			}
			panic("oid")
		},
		seeds: []string{`<origin-id xmlns='urn:xmpp:sid:0' id='de305d54-75b4-431b-adb2-eb6b9e546013'/>`},
	})
	add(&typeDesc{name: "blocklist.Item", codec: "bitem_c", level: "B", both: true, needs: needs{jid: true},
		gen: func(r *hx.Rand) interface{} {
			it := &blocklist.Item{JID: genJID(r)}
			if r.Chance(2, 3) {
				it.Reason = blocklist.ReportReason(genMaybe(r, func(r *hx.Rand) string {
					return []string{string(blocklist.ReasonSpam), string(blocklist.ReasonAbuse), genNonEmpty(r)}[r.Intn(3)]
				}))
				for i, n := 0, r.Intn(3); i < n; i++ {
					it.StanzaIDs = append(it.StanzaIDs, stanza.ID{ID: genText(r), By: genJID(r)})
				}
				it.Text = genMaybe(r, genText)
			}
			return it
		},
		tr:    func(v interface{}) xml.TokenReader { return v.(*blocklist.Item).TokenReader() },
		marsh: marshalV, fresh: func() interface{} { return &blocklist.Item{} },
		proj: func(p interface{}) interface{} {
			x := p.(*blocklist.Item)
			o := pBItem{JID: x.JID.String(), Reason: string(x.Reason), IDs: []pSID{}, Text: x.Text}
			for _, i := range x.StanzaIDs {
				o.IDs = append(o.IDs, pSID{i.ID, i.By.String()})
			}
			return o
		},
		// a report without a reason is sent as spam
		norm: func(p interface{}) interface{} {
			b := p.(pBItem)
			if b.Reason == "" && (len(b.IDs) > 0 || b.Text != "") {
				b.Reason = string(blocklist.ReasonSpam)
			}
			return b
		},
		seeds: []string{`<item jid='romeo@montague.net'><report xmlns='urn:xmpp:reporting:1' reason='urn:xmpp:reporting:spam'><stanza-id xmlns='urn:xmpp:sid:0' by='romeo@example.net' id='28482-98726-73623'/><text>Never came trouble to my house like this.</text></report></item>`},
	})

	// ---- upload, bob ----
	add(&typeDesc{name: "upload.File", codec: "ufile_c", level: "B", both: true,
		gen: func(r *hx.Rand) interface{} {
			return upload.File{Name: genText(r), Size: genInt(r), Type: genMaybe(r, genText)}
		},
		tr:    func(v interface{}) xml.TokenReader { return v.(upload.File).TokenReader() },
		marsh: marshalV, fresh: func() interface{} { return &upload.File{} },
		proj: func(p interface{}) interface{} {
			var q upload.File
			switch x := p.(type) {
			case upload.File:
				q = x
			case *upload.File:
				q = *x
			}
			return pUFile{q.Name, int64(q.Size), q.Type}
		},
		seeds: []string{`<request xmlns='urn:xmpp:http:upload:0' filename='très cool.jpg' size='23456' content-type='image/jpeg'/>`},
	})
	add(&typeDesc{name: "bin.Data", codec: "bob_c", level: "B", both: true, needs: needs{b64: true},
		gen: func(r *hx.Rand) interface{} {
			d := &bin.Data{CID: genMaybe(r, genText), Type: genMaybe(r, genText), Data: genBytes(r), NoCache: r.Chance(1, 4)}
			switch r.Intn(6) {
			case 0:
			case 1:
				d.MaxAge = time.Duration(r.Intn(100000)) * time.Second
			case 2:
				d.MaxAge = time.Duration(r.Intn(3000)) * time.Millisecond
			case 3:
				d.MaxAge = time.Duration(r.Intn(20))*time.Second + 500*time.Millisecond
			case 4:
				d.MaxAge = -time.Duration(r.Intn(100)) * time.Second
			default:
				d.MaxAge = time.Duration(r.Uint64() >> uint(1+r.Intn(62)))
			}
			return d
		},
		tr:    func(v interface{}) xml.TokenReader { return v.(*bin.Data).TokenReader() },
		marsh: marshalV, fresh: func() interface{} { return &bin.Data{} },
		proj: func(p interface{}) interface{} {
			x := p.(*bin.Data)
			return pBob{x.CID, int64(x.MaxAge), x.NoCache, x.Type, nz(x.Data)}
		},
		// max-age carries whole seconds; no-cache is max-age 0; a non-positive age is not sent
		norm: func(p interface{}) interface{} {
			b := p.(pBob)
			switch {
			case b.NoCache:
				b.MaxAge = 0
			case b.MaxAge > 0:
				s := roundSeconds(time.Duration(b.MaxAge))
				b.MaxAge = s * int64(time.Second)
				b.NoCache = s == 0
			default:
				b.MaxAge = 0
			}
			return b
		},
		oracle: func(v interface{}, o *orTab) { o.dur(v.(*bin.Data).MaxAge) },
		seeds:  []string{`<data xmlns='urn:xmpp:bob' cid='sha1+8f35fef110ffc5df08d579a50083ff9308fb6242@bob.xmpp.org' max-age='86400' type='image/png'>iVBORw0KGgo=</data>`},
	})

	// ---- crypto ----
	add(&typeDesc{name: "crypto.Hash", codec: "hash_c", level: "B", both: true,
		gen:   func(r *hx.Rand) interface{} { return hashes[r.Intn(len(hashes))] },
		tr:    func(v interface{}) xml.TokenReader { return v.(crypto.Hash).TokenReader() },
		marsh: marshalV, fresh: func() interface{} { h := crypto.Hash(0); return &h },
		proj: func(p interface{}) interface{} {
			switch x := p.(type) {
			case crypto.Hash:
				return uint64(x)
			case *crypto.Hash:
				return uint64(*x)
			}
			panic("hash")
		},
		seeds: []string{`<hash-used xmlns='urn:xmpp:hashes:2' algo='sha-256'/>`},
	})
	add(&typeDesc{name: "crypto.HashOutput", codec: "hashout_c", level: "B", both: true, needs: needs{b64: true},
		gen: func(r *hx.Rand) interface{} {
			return crypto.HashOutput{Hash: hashes[r.Intn(len(hashes))], Out: genBytes(r)}
		},
		tr:    func(v interface{}) xml.TokenReader { return v.(crypto.HashOutput).TokenReader() },
		marsh: marshalV, fresh: func() interface{} { return &crypto.HashOutput{} },
		proj: func(p interface{}) interface{} {
			switch x := p.(type) {
			case crypto.HashOutput:
				return projHashOut(x)
			case *crypto.HashOutput:
				return projHashOut(*x)
			}
			panic("hashout")
		},
		trigger: func(v interface{}, field string) string {
			if field == "error" && len(v.(crypto.HashOutput).Out) == 0 {
				return "empty-output"
			}
			return ""
		},
		seeds: []string{`<hash xmlns='urn:xmpp:hashes:2' algo='sha-256'>2XarmwTlNxDAMkvymloX3S5+VbylNrJt/l5QyPa+YoU=</hash>`},
	})
	add(&typeDesc{name: "crypto.Key", codec: "ckey_c", level: "B", both: true, needs: needs{b64: true},
		gen:   func(r *hx.Rand) interface{} { return genKey(r) },
		tr:    func(v interface{}) xml.TokenReader { return v.(crypto.Key).TokenReader() },
		marsh: marshalV, fresh: func() interface{} { return &crypto.Key{} },
		proj: func(p interface{}) interface{} {
			switch x := p.(type) {
			case crypto.Key:
				return projKey(x)
			case *crypto.Key:
				return projKey(*x)
			}
			panic("key")
		},
		seeds: []string{`<trust>6850019d7ed0feb6d3823072498ceb4f616c6025586f8f666dc6b9c81ef7e0a4</trust>`, `<distrust>YWJj</distrust>`},
	})
	add(&typeDesc{name: "crypto.OwnedKeys", codec: "owned_c", level: "B", both: true, needs: needs{jid: true, b64: true},
		gen:   func(r *hx.Rand) interface{} { return genOwned(r) },
		tr:    func(v interface{}) xml.TokenReader { return v.(crypto.OwnedKeys).TokenReader() },
		marsh: marshalV, fresh: func() interface{} { return &crypto.OwnedKeys{} },
		proj: func(p interface{}) interface{} {
			switch x := p.(type) {
			case crypto.OwnedKeys:
				return projOwned(x)
			case *crypto.OwnedKeys:
				return projOwned(*x)
			}
			panic("owned")
		},
		seeds: []string{`<key-owner jid='alice@example.org'><trust>YWJj</trust><distrust>ZGVm</distrust></key-owner>`},
	})
	add(&typeDesc{name: "crypto.TrustMessage", codec: "trust_c", level: "B", both: true, needs: needs{jid: true, b64: true},
		gen: func(r *hx.Rand) interface{} {
			t := crypto.TrustMessage{Usage: genText(r), Encryption: genText(r)}
			for i, n := 0, r.Intn(3); i < n; i++ {
				t.Keys = append(t.Keys, genOwned(r))
			}
			return t
		},
		tr:    func(v interface{}) xml.TokenReader { return v.(crypto.TrustMessage).TokenReader() },
		marsh: marshalV, fresh: func() interface{} { return &crypto.TrustMessage{} },
		proj: func(p interface{}) interface{} {
			var q crypto.TrustMessage
			switch x := p.(type) {
			case crypto.TrustMessage:
				q = x
			case *crypto.TrustMessage:
				q = *x
			}
			o := pTrust{Usage: q.Usage, Enc: q.Encryption, Keys: []pOwned{}}
			for _, k := range q.Keys {
				o.Keys = append(o.Keys, projOwned(k))
			}
			return o
		},
		seeds: []string{`<trust-message xmlns='urn:xmpp:tm:1' usage='urn:xmpp:atm:1' encryption='urn:xmpp:omemo:2'><key-owner jid='alice@example.org'><trust>YWJj</trust></key-owner><key-owner jid='bob@example.com'><distrust>ZGVm</distrust></key-owner></trust-message>`},
	})

	// ---- hints ----
	add(&typeDesc{name: "styling.Unstyled", codec: "unstyled_c", level: "B", both: true,
		gen:   func(r *hx.Rand) interface{} { return styling.Unstyled{Value: r.Bool()} },
		tr:    func(v interface{}) xml.TokenReader { return v.(styling.Unstyled).TokenReader() },
		marsh: marshalV, fresh: func() interface{} { return &styling.Unstyled{} },
		proj: func(p interface{}) interface{} {
			switch x := p.(type) {
			case styling.Unstyled:
				return x.Value
			case *styling.Unstyled:
				return x.Value
			}
			panic("unstyled")
		},
		trigger: func(v interface{}, field string) string {
			if field == "value" && !v.(styling.Unstyled).Value {
				return "false-written-as-present"
			}
			return ""
		},
		seeds: []string{`<unstyled xmlns='urn:xmpp:styling:0'/>`},
	})
	add(&typeDesc{name: "receipts.Requested", codec: "requested_c", level: "B", both: true,
		gen:   func(r *hx.Rand) interface{} { return receipts.Requested(r.Bool()) },
		tr:    func(v interface{}) xml.TokenReader { return v.(receipts.Requested).TokenReader() },
		marsh: marshalV, fresh: func() interface{} { q := receipts.Requested(false); return &q },
		proj: func(p interface{}) interface{} {
			switch x := p.(type) {
			case receipts.Requested:
				return bool(x)
			case *receipts.Requested:
				return bool(*x)
			}
			panic("requested")
		},
		seeds: []string{`<request xmlns='urn:xmpp:receipts'/>`},
	})

	// ---- commands, history ----
	add(&typeDesc{name: "commands.Actions", codec: "actions_c", level: "B", both: true,
		gen:   func(r *hx.Rand) interface{} { return commands.Actions(r.Intn(256)) },
		tr:    func(v interface{}) xml.TokenReader { return v.(commands.Actions).TokenReader() },
		marsh: marshalV, fresh: func() interface{} { q := commands.Actions(0); return &q },
		proj: func(p interface{}) interface{} {
			switch x := p.(type) {
			case commands.Actions:
				return uint64(x)
			case *commands.Actions:
				return uint64(*x)
			}
			panic("actions")
		},
		// only the three action bits and a single default action are carried
		norm: func(p interface{}) interface{} {
			a := p.(uint64)
			ex := (a >> 3) & 7
			out := a & 7
			if ex == 1 || ex == 2 || ex == 4 {
				out |= ex << 3
			}
			return out
		},
		seeds: []string{`<actions execute='next'><prev/><next/></actions>`},
	})
	add(&typeDesc{name: "history.Result", codec: "hresult_c", level: "B", both: true,
		gen: func(r *hx.Rand) interface{} {
			return &history.Result{Complete: r.Bool(), Unstable: r.Bool(), Set: genSet(r)}
		},
		tr:    func(v interface{}) xml.TokenReader { return v.(*history.Result).TokenReader() },
		marsh: marshalV, fresh: func() interface{} { return &history.Result{} },
		proj: func(p interface{}) interface{} {
			x := p.(*history.Result)
			return pHResult{x.Complete, x.Unstable, projSet(x.Set)}
		},
		seeds: []string{`<fin xmlns='urn:xmpp:mam:2' complete='true' stable='false'><set xmlns='http://jabber.org/protocol/rsm'><first index='0'>23452-4534-1</first><last>390-2342-22</last><count>16</count></set></fin>`},
	})

	// ---- file metadata ----
	add(&typeDesc{name: "file.Meta", codec: "fmeta_c", level: "B", both: true, needs: needs{time: true, b64: true},
		gen: func(r *hx.Rand) interface{} {
			m := &file.Meta{MediaType: genText(r), Name: genText(r), Date: genTime(r), Size: genUint(r), Width: genUint(r), Height: genUint(r), Length: genUint(r)}
			if r.Chance(2, 3) {
				m.Hash = crypto.HashOutput{Hash: hashes[r.Intn(len(hashes))], Out: genBytes(r)}
			}
			return m
		},
		tr:    func(v interface{}) xml.TokenReader { return v.(*file.Meta).TokenReader() },
		marsh: marshalV, fresh: func() interface{} { return &file.Meta{} },
		proj: func(p interface{}) interface{} {
			x := p.(*file.Meta)
			return pMeta{x.MediaType, x.Name, tmOf(x.Date), x.Size, projHashOut(x.Hash), x.Width, x.Height, x.Length}
		},
		norm:   func(p interface{}) interface{} { m := p.(pMeta); m.Date = utcNorm(m.Date); return m },
		oracle: func(v interface{}, o *orTab) { o.tfmt(lUTCNano, v.(*file.Meta).Date) },
		timeOK: func(v interface{}) bool { return timeInRange(v.(*file.Meta).Date) },
		trigger: func(v interface{}, field string) string {
			m := v.(*file.Meta)
			if field == "error" && m.Hash.Hash != 0 && len(m.Hash.Out) == 0 {
				return "empty-hash-output"
			}
			return ""
		},
		seeds: []string{`<file xmlns='urn:xmpp:file:metadata:0'><media-type>text/plain</media-type><name>test.txt</name><date>2015-07-26T21:46:00+01:00</date><size>6144</size><hash xmlns='urn:xmpp:hashes:2' algo='sha-1'>w0mcJylzCn+AfvuGdqkty2+KP48=</hash><width>0</width><height>0</height><length>0</length></file>`},
	})

	// ---- decoding only ----
	add(&typeDesc{name: "pubsub.Condition", codec: "pcond_c", level: "B", noEnc: true,
		fresh: func() interface{} { q := pubsub.Condition(0); return &q },
		dirty: func(r *hx.Rand) interface{} { q := pubsub.Condition(1 + r.Intn(22)); return &q },
		proj:  func(p interface{}) interface{} { return uint64(*p.(*pubsub.Condition)) },
		seeds: []string{`<closed-node xmlns='http://jabber.org/protocol/pubsub#errors'/>`, `<unsupported-access-model xmlns='http://jabber.org/protocol/pubsub#errors'/>`, `<payload-too-big/>`, `<CondNone/>`},
	})

	_ = jid.JID{}
	ts = append(ts, moreTypes()...)
	ts = append(ts, extraTypes()...)
	for _, t := range ts {
		t.corpus = extraCorpus[t.name]
		if k, ok := keepsTable[t.name]; ok {
			t.keeps = k
		}
		if in, ok := intoTable[t.name]; ok {
			t.intoChecker, t.intoOld = in.checker, func(dst interface{}) string { return coqOf(td0(t).proj(dst)) }
		}
	}
	return ts
}
