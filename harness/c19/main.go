// Command c19 is the correspondence harness and implementation oracle for
// property C19: extension payloads encode consistently, safely and round-trip.
package main

import (
	"encoding/json"
	"fmt"
	"io"
	"os"
	"time"

	"verifharness/hx"
)

const imports = "From Coq Require Import ZArith.\nFrom XV Require Import lib.Bytes lib.Xml lib.Schema C19.Form C19.Types C19.Model.\n"

var errEOF = io.EOF

func main() {
	o := hx.ParseFlags()
	time.Local = time.UTC
	res := hx.NewResult("C19")
	x := &runner{res: res}
	x.cases = hx.CaseFile{Name: "c19", Imports: imports, Ok: "idb", Type: "bool"}
	r := hx.NewRand(o.Seed)
	types := allTypes()
	byName := map[string]*typeDesc{}
	for _, t := range types {
		byName[t.name] = t
	}

	if o.Replay != "" {
		b, err := os.ReadFile(o.Replay)
		if err != nil {
			fmt.Fprintln(os.Stderr, err)
			os.Exit(2)
		}
		var rp struct {
			Case caseRec `json:"case"`
		}
		if err := json.Unmarshal(b, &rp); err != nil {
			fmt.Fprintln(os.Stderr, err)
			os.Exit(2)
		}
		c := rp.Case
		switch c.Kind {
		case "form":
			x.oneForm(c.Seed)
		case "form-corpus":
			x.runForm(formCorpus[c.Index], c)
		case "nil-submit":
			x.nilSubmit()
		case "value":
			x.oneValue(byName[c.Type], c.Seed)
		case "corpus":
			td := byName[c.Type]
			x.runValue(td, td.corpus[c.Index], c)
		case "doc":
			if c.Type == "form.Data" {
				x.oneDoc(formTD(), hx.UnHex(c.Doc), c.Note)
			} else {
				x.oneDoc(byName[c.Type], hx.UnHex(c.Doc), c.Note)
			}
		case "wrapper":
			x.oneWrapper(&typeDesc{name: "forward+carbons"}, c.Seed)
		case "tzo":
			x.tzoCases(hx.NewRand(o.Seed), 0)
		}
	} else {
		nForm, nVal, nDoc := 700, 70, 110
		if o.Thorough() {
			nForm, nVal, nDoc = 6000, 600, 900
		}
		if o.Search {
			nForm, nVal, nDoc = 12000, 1200, 1500
		}
		// corpus first
		x.nilSubmit()
		x.tzoCases(r, nVal*3)
		for i, s := range formCorpus {
			x.runForm(s, caseRec{Type: "form.Data", Kind: "form-corpus", Index: i})
		}
		for _, td := range types {
			for i, v := range td.corpus {
				x.runValue(td, v, caseRec{Type: td.name, Kind: "corpus", Index: i})
			}
		}
		for i := 0; i < nForm; i++ {
			x.oneForm(r.Uint64())
		}
		x.formDocs(r, nDoc*3)
		x.wrappers(r, nVal*2)
		for _, td := range types {
			var docs [][]byte
			for _, s := range td.seeds {
				docs = append(docs, []byte(s))
			}
			if !td.noEnc {
				for i := 0; i < nVal; i++ {
					x.oneValue(td, r.Uint64())
				}
				// documents to mutate: the type's own output for a few values
				for i := 0; i < 6; i++ {
					v := td.gen(hx.NewRand(r.Uint64()))
					var b []byte
					if p := hx.Catch(func() { b, _ = td.marsh(v) }); p == "" && len(b) > 0 {
						// children written in Go map order: fix the order, so that the run
						// is a function of the seed
						if td.canon != nil {
							if t, err := parseDoc(b); err == nil {
								td.canon(t)
								b = renderDoc(t, false)
							}
						}
						docs = append(docs, b)
					}
				}
			}
			if td.fresh == nil {
				continue
			}
			for _, d := range docs {
				x.oneDoc(td, d, "seed")
			}
			x.mutatedDocs(td, r, docs, nDoc)
		}
	}
	levels := map[string][]string{}
	for _, t := range types {
		levels[t.level] = append(levels[t.level], t.name)
	}
	levels["A"] = append(levels["A"], "form.Data")
	levels["C"] = append(levels["C"], "forward.Wrap/Unwrap", "carbons.WrapReceived/WrapSent/Unwrap")
	res.Extra["types_by_level"] = levels
	res.Extra["levels"] = "A: hand model of every function + theorems; B: hand model of TokenReader and of the unmarshaller (token loop or struct-tag schema through lib/Schema) + theorems; C: implementation oracle and differential checks only"
	res.Rule = "per type: values generated through the exported API from a per-case seed (optional fields present/absent, 0/1/many children, XML-special, multi-line, non-ASCII and XML-unrepresentable text, extreme integers, times in many zones incl. sub-second and out-of-range years); " +
		"documents offered to every unmarshaller: literal XEP examples, the type's own output, and structured (well-formed) and byte-level (malformed) mutations of those; forms: scripts of constructor options, Set, Get, then TokenReader or Submit. " +
		"distinct = hash of (type, value or document); every case exercises an encoder or a decoder of the property, so all are counted non-trivial"
	res.CaseFiles = append(res.CaseFiles, x.cases.Write(o.Out, 600)...)
	res.Extra["model_cases"] = x.cases.Len()
	res.Write(o.Out)
}

// mutatedDocs offers n mutated documents to the type's unmarshaller.
func (x *runner) mutatedDocs(td *typeDesc, r *hx.Rand, docs [][]byte, n int) {
	if len(docs) == 0 {
		return
	}
	for i := 0; i < n; i++ {
		base := docs[r.Intn(len(docs))]
		if r.Chance(1, 5) {
			d, how := mutateBytes(r, base)
			x.oneDoc(td, d, how)
			continue
		}
		t, err := parseDoc(base)
		if err != nil {
			continue
		}
		t = cloneTree(t)
		note := ""
		for k, m := 0, 1+r.Intn(3); k < m; k++ {
			if h := mutateTree(r, t); h != "" {
				note += h + " "
			}
		}
		x.oneDoc(td, renderDoc(t, r.Chance(1, 8)), note)
	}
}

// tzoCases ties the model's zone offset formatter and reader (format_tzo,
// parse_tzo) to package time's "Z07:00" layout: for every zone of the generator
// and n more offsets, the text the standard library writes and the offset it
// reads back from it.
func (x *runner) tzoCases(r *hx.Rand, n int) {
	var offs []int
	for _, l := range zones {
		_, o := time.Unix(0, 0).In(l).Zone()
		offs = append(offs, o)
	}
	for i := 0; i < n; i++ {
		switch r.Intn(3) {
		case 0:
			offs = append(offs, (r.Intn(2*1439+1)-1439)*60) // whole minutes within a day
		case 1:
			offs = append(offs, r.Intn(2*86399+1)-86399) // any second within a day
		default:
			offs = append(offs, (r.Intn(2*23+1)-23)*3600+[]int{0, 15, 30, 45}[r.Intn(4)]*60*(1-2*r.Intn(2)))
		}
	}
	for _, o := range offs {
		if o <= -86400 || o >= 86400 {
			continue
		}
		txt := time.Unix(0, 0).In(time.FixedZone("", o)).Format("Z07:00")
		back := "None"
		if t, err := time.Parse("Z07:00", txt); err == nil {
			_, b := t.Zone()
			back = fmt.Sprintf("(Some (%d)%%Z)", b)
		}
		c := caseRec{Type: "time/tzo", Kind: "tzo", Value: fmt.Sprintf("offset=%d text=%q", o, txt)}
		x.res.Count("tzo"+c.Value, true, "type/time-zone-offset")
		x.cases.Add(fmt.Sprintf("tzo_ok (%d)%%Z %s %s", o, hx.CoqBytes([]byte(txt)), back), c)
	}
}
