package main

import (
	"encoding/base64"
	"fmt"
	"net/url"
	"sort"
	"strconv"
	"strings"
	"time"

	"mellium.im/xmpp/jid"
	"verifharness/hx"
)

// orTab collects the answers of the external functions the model treats as
// oracles (jid.Parse, time formatting and parsing, base64 decoding, url.Parse,
// float formatting of durations) for the texts and values one case needs.
type orTab struct {
	jids    map[string]string
	tfmts   map[string]string
	tparses map[string]string
	b64s    map[string]string
	urls    map[string]string
	durs    map[int64]string
}

func newOr() *orTab {
	return &orTab{jids: map[string]string{}, tfmts: map[string]string{}, tparses: map[string]string{},
		b64s: map[string]string{}, urls: map[string]string{}, durs: map[int64]string{}}
}

func tmOf(t time.Time) TM {
	_, off := t.Zone()
	return TM{Sec: t.Unix(), Nsec: uint64(t.Nanosecond()), Off: int64(off)}
}

func optBytes(s string, ok bool) string {
	if !ok {
		return "None"
	}
	return "(Some " + hx.CoqBytes([]byte(s)) + ")"
}

func (o *orTab) jid(s string) {
	if _, ok := o.jids[s]; ok {
		return
	}
	j, err := jid.Parse(s)
	o.jids[s] = "(" + hx.CoqBytes([]byte(s)) + ", " + optBytes(j.String(), err == nil) + ")"
	if err == nil {
		o.jid(j.String()) // the canonical form may be parsed again
	}
}

const (
	lUTCNano  = 0
	lUTCSec   = 1
	lZoneSec  = 2
	lTzo      = 3
	lZoneNano = 4
	pRFC3339  = 0
	pTzo      = 1
	pText     = 2
)

func fmtTime(l int, t time.Time) string {
	switch l {
	case lUTCNano:
		return t.UTC().Format(time.RFC3339Nano)
	case lUTCSec:
		return t.UTC().Format(time.RFC3339)
	case lZoneSec:
		return t.Format(time.RFC3339)
	case lTzo:
		return t.Format("Z07:00")
	case lZoneNano:
		return t.Format(time.RFC3339Nano)
	}
	panic("layout")
}

func (o *orTab) tfmt(l int, t time.Time) {
	m := tmOf(t)
	k := fmt.Sprint(l, m)
	o.tfmts[k] = fmt.Sprintf("(%d%%nat, %s, %s)", l, coqOf(m), hx.CoqBytes([]byte(fmtTime(l, t))))
}

func parseTime(k int, s string) (time.Time, error) {
	switch k {
	case pRFC3339:
		return time.Parse(time.RFC3339, s)
	case pTzo:
		return time.Parse("Z07:00", s)
	case pText:
		var t time.Time
		err := t.UnmarshalText([]byte(s))
		return t, err
	}
	panic("kind")
}

func (o *orTab) tparse(k int, s string) {
	key := fmt.Sprint(k, "|", s)
	if _, ok := o.tparses[key]; ok {
		return
	}
	t, err := parseTime(k, s)
	v := "None"
	if err == nil {
		v = "(Some " + coqOf(tmOf(t)) + ")"
	}
	o.tparses[key] = fmt.Sprintf("(%d%%nat, %s, %s)", k, hx.CoqBytes([]byte(s)), v)
}

func b64Decode(s string) (string, bool) {
	buf := make([]byte, base64.StdEncoding.DecodedLen(len(s)))
	n, err := base64.StdEncoding.Decode(buf, []byte(s))
	return string(buf[:n]), err == nil
}

func (o *orTab) b64(s string) {
	if _, ok := o.b64s[s]; ok || s == "" {
		return
	}
	d, ok := b64Decode(s)
	o.b64s[s] = "(" + hx.CoqBytes([]byte(s)) + ", " + optBytes(d, ok) + ")"
}

func (o *orTab) url(s string) {
	if _, ok := o.urls[s]; ok {
		return
	}
	u, err := url.Parse(s)
	r := ""
	if err == nil {
		r = u.String()
	}
	o.urls[s] = "(" + hx.CoqBytes([]byte(s)) + ", " + optBytes(r, err == nil) + ")"
}

func (o *orTab) dur(d time.Duration) {
	o.durs[int64(d)] = fmt.Sprintf("((%d)%%Z, %s)", int64(d), hx.CoqBytes([]byte(strconv.FormatFloat(d.Seconds(), 'f', 0, 64))))
}

func sortedVals(m map[string]string) string {
	ks := make([]string, 0, len(m))
	for k := range m {
		ks = append(ks, k)
	}
	sort.Strings(ks)
	vs := make([]string, 0, len(ks))
	for _, k := range ks {
		vs = append(vs, m[k])
	}
	return "[" + strings.Join(vs, ";") + "]"
}

func (o *orTab) Coq() string {
	if len(o.jids)+len(o.tfmts)+len(o.tparses)+len(o.b64s)+len(o.urls)+len(o.durs) == 0 {
		return "no_or"
	}
	dk := make([]int64, 0, len(o.durs))
	for k := range o.durs {
		dk = append(dk, k)
	}
	sort.Slice(dk, func(i, j int) bool { return dk[i] < dk[j] })
	dv := make([]string, 0, len(dk))
	for _, k := range dk {
		dv = append(dv, o.durs[k])
	}
	return "(mk_or " + sortedVals(o.jids) + " " + sortedVals(o.tfmts) + " " + sortedVals(o.tparses) + " " +
		sortedVals(o.b64s) + " " + sortedVals(o.urls) + " [" + strings.Join(dv, ";") + "])"
}

// needs says which oracles a type's unmarshaller consults, so that the table
// for a document can be filled from the texts occurring in it.
type needs struct{ jid, time, b64, url bool }

func (o *orTab) fromTree(t *Tree, n needs) {
	t.walk(func(x *Tree) {
		if x.Kind != 0 {
			return
		}
		texts := []string{"", x.directText()}
		for _, a := range x.Attrs {
			texts = append(texts, a.Value)
		}
		for _, k := range x.Kids {
			if k.Kind == 1 {
				texts = append(texts, k.Text)
			}
		}
		for _, s := range texts {
			if n.jid {
				o.jid(s)
			}
			if n.time {
				o.tparse(pRFC3339, s)
				o.tparse(pTzo, s)
				o.tparse(pText, s)
			}
			if n.b64 {
				o.b64(s)
			}
			if n.url {
				o.url(s)
			}
		}
	})
}
