package main

import (
	"encoding/xml"
	"fmt"
	"strings"
	"time"

	"mellium.im/xmpp"
	"mellium.im/xmpp/bin"
	"mellium.im/xmpp/crypto"
	"mellium.im/xmpp/delay"
	"mellium.im/xmpp/disco"
	"mellium.im/xmpp/disco/info"
	"mellium.im/xmpp/file"
	"mellium.im/xmpp/form"
	"mellium.im/xmpp/forward"
	"mellium.im/xmpp/history"
	"mellium.im/xmpp/jid"
	"mellium.im/xmpp/muc"
	"mellium.im/xmpp/stanza"
	"mellium.im/xmpp/styling"
	"mellium.im/xmpp/xtime"
	"verifharness/hx"
)

// formCorpus: minimised scripts of defects found earlier; always run first.
var formCorpus = []formScript{
	// text-multi value ending in a line break / empty: TokenReader sliced typed[:-1]
	{Ctor: "new", Opts: []formOpt{{Kind: "field", A: "text-multi", ID: "t"}}, Sets: []setOp{{ID: "t", Kind: "str", S: "a\n"}}, Submit: true},
	{Ctor: "new", Opts: []formOpt{{Kind: "field", A: "text-multi", ID: "t"}}, Sets: []setOp{{ID: "t", Kind: "str", S: ""}}, Submit: true},
	{Ctor: "new", Opts: []formOpt{{Kind: "field", A: "text-multi", ID: "t", Opts: []fieldOpt{{Kind: "value", A: ""}}}}, Submit: true},
	{Ctor: "new", Opts: []formOpt{{Kind: "field", A: "text-multi", ID: "t", Opts: []fieldOpt{{Kind: "required"}}}}, Submit: true},
	{Ctor: "new", Opts: []formOpt{{Kind: "field", A: "text-multi", ID: "t"}}, Sets: []setOp{{ID: "t", Kind: "str", S: "a\r\n\r\nb\n"}}, Gets: []string{"t"}, Submit: true},
	// Set on the zero value assigned into a nil map
	{Ctor: "zero", Sets: []setOp{{ID: "x", Kind: "str", S: "y"}}, Gets: []string{"x"}, Submit: true},
	{Ctor: "zero"},
	// title and instructions with every kind of line break
	{Ctor: "new", Opts: []formOpt{{Kind: "title", A: "a\r\nb\n\rc\nd\re\n\nf"}, {Kind: "instr", A: "\n1\r\n\r\n2\r3\n"}}},
	{Ctor: "cancel", A: "t", B: "i1\ni2"},
	// one of each field type with defaults, submitted unset
	{Ctor: "new", Opts: []formOpt{
		{Kind: "field", A: "boolean", ID: "b", Opts: []fieldOpt{{Kind: "value", A: "maybe"}, {Kind: "value", A: "1"}}},
		{Kind: "field", A: "fixed", Opts: []fieldOpt{{Kind: "value", A: "section"}}},
		{Kind: "field", A: "hidden", ID: "FORM_TYPE", Opts: []fieldOpt{{Kind: "value", A: "urn:x"}, {Kind: "value", A: "second"}}},
		{Kind: "field", A: "jid-multi", ID: "jm", Opts: []fieldOpt{{Kind: "value", A: "a@b"}, {Kind: "value", A: "@"}, {Kind: "value", A: "C@D/e"}}},
		{Kind: "field", A: "jid-single", ID: "js", Opts: []fieldOpt{{Kind: "value", A: "@"}, {Kind: "value", A: "a@B"}, {Kind: "required"}}},
		{Kind: "field", A: "list-multi", ID: "lm", Opts: []fieldOpt{{Kind: "item", A: "l", B: "v"}, {Kind: "value", A: "v"}, {Kind: "value", A: ""}, {Kind: "value", A: "w"}}},
		{Kind: "field", A: "list-single", ID: "ls", Opts: []fieldOpt{{Kind: "item", A: "", B: ""}, {Kind: "label", A: "L"}, {Kind: "desc", A: "D"}}},
		{Kind: "field", A: "text-multi", ID: "tm", Opts: []fieldOpt{{Kind: "value", A: "l1"}, {Kind: "value", A: "l2"}}},
		{Kind: "field", A: "text-private", ID: "tp", Opts: []fieldOpt{{Kind: "required"}}},
		{Kind: "field", A: "text-single", ID: "ts", Opts: []fieldOpt{{Kind: "value", A: "one"}, {Kind: "value", A: "two"}}},
	}, Gets: []string{"b", "FORM_TYPE", "jm", "js", "lm", "ls", "tm", "tp", "ts", "nope"}, Submit: true},
}

var formSeeds = []string{
	`<x xmlns='jabber:x:data' type='form'><title>Bot Configuration</title><instructions>Fill out this form to configure your new bot!</instructions><instructions>second</instructions><field type='hidden' var='FORM_TYPE'><value>jabber:bot</value></field><field type='fixed'><value>Section 1: Bot Info</value></field><field type='text-single' label='The name of your bot' var='botname'/><field type='text-multi' label='Helpful description of your bot' var='description'><value>a</value><value/><value>b</value></field><field type='boolean' label='Public bot?' var='public'><required/></field><field type='list-multi' label='What features will the bot support?' var='features'><option label='Contests'><value>contests</value></option><option label='News'><value>news</value></option><value>news</value><value>search</value></field><field type='jid-multi' label='People to invite' var='invitelist'><desc>Tell all your friends about your new bot!</desc><value>a@b</value><value>@</value></field></x>`,
	`<x xmlns='jabber:x:data' type='submit'><field var='x'><value>1</value></field></x>`,
	`<x xmlns='jabber:x:data'/>`,
	`<x xmlns='jabber:x:data' type='result'><reported><field var='a'/></reported></x>`,
}

// formDocs offers documents to (*form.Data).UnmarshalXML.
func (x *runner) formDocs(r *hx.Rand, n int) {
	td := formTD()
	var docs [][]byte
	for _, s := range formSeeds {
		docs = append(docs, []byte(s))
	}
	for i := 0; i < 12; i++ {
		s := genFormScript(hx.NewRand(r.Uint64()))
		var b []byte
		if p := hx.Catch(func() { b, _ = xml.Marshal(s.build()) }); p == "" && len(b) > 0 {
			docs = append(docs, b)
		}
	}
	for _, d := range docs {
		x.oneDoc(td, d, "seed")
	}
	x.mutatedDocs(td, r, docs, n)
	// a decoded form can be used: Get/Set/Submit on it never panic
	for i := 0; i < n/4; i++ {
		base := docs[r.Intn(len(docs))]
		t, err := parseDoc(base)
		if err != nil {
			continue
		}
		t = cloneTree(t)
		mutateTree(r, t)
		doc := renderDoc(t, false)
		var d form.Data
		if xml.Unmarshal(doc, &d) != nil {
			continue
		}
		c := caseRec{Type: "form.Data", Kind: "doc", Doc: hx.Hex(doc), Note: "use-decoded"}
		if p := hx.Catch(func() {
			d.ForFields(func(f form.FieldData) {
				d.Get(f.Var)
				d.GetOptions(f.Var)
			})
			d.Set("x", "y")
			tr, _ := d.Submit()
			if _, err := readTokens(tr); err != nil {
				panic(fmt.Sprint("token error: ", err))
			}
		}); p != "" {
			x.fail(td, "submit/decoded-panic", "using a decoded form panics: "+p, c)
		}
	}
}

func formTD() *typeDesc {
	return &typeDesc{name: "form.Data", codec: "form_c", level: "A",
		fresh: func() interface{} { return &form.Data{} },
		proj:  func(p interface{}) interface{} { return RawCoq(coqData(p.(*form.Data))) },
		eq:    func(p interface{}) interface{} { return projForm(p.(*form.Data)) },
		dirty: func(r *hx.Rand) interface{} {
			var d *form.Data
			if p := hx.Catch(func() { d = genFormScript(r).build() }); p != "" || d == nil {
				return nil
			}
			return d
		},
		intoChecker: "form_into_ok",
		intoOld:     func(dst interface{}) string { return coqData(dst.(*form.Data)) },
		// form.Data.UnmarshalXML: type and title only when present, instruction lines and fields
		// added to the ones the form has (encoding/xml's convention for repeated children)
		dirtyCheck: func(old, fresh, got interface{}) string {
			o, f, g := old.(pForm), fresh.(pForm), got.(pForm)
			if g.Typ != f.Typ && g.Typ != o.Typ {
				return "Typ"
			}
			if g.Title != f.Title && g.Title != o.Title {
				return "Title"
			}
			// the instruction lines of the document follow the ones the form had; an empty
			// <instructions/> is a line too once there is a previous one (a fresh destination
			// cannot show it), so the lines are compared up to empty ones
			lines := func(s string) string {
				return strings.Join(strings.FieldsFunc(s, func(r rune) bool { return r == '\n' }), "\n")
			}
			if g.Instr != f.Instr && g.Instr != o.Instr &&
				!(strings.HasPrefix(g.Instr, o.Instr+"\n") && lines(g.Instr[len(o.Instr)+1:]) == lines(f.Instr)) {
				return "Instr"
			}
			if len(g.Fields) != len(o.Fields)+len(f.Fields) || fmt.Sprint(g.Fields) != fmt.Sprint(append(append([]form.VerifField{}, o.Fields...), f.Fields...)) {
				return "Fields"
			}
			return ""
		},
	}
}

func init() {
	extraCorpus = map[string][]interface{}{
		"stanza.Delay":     {stanza.Delay{Stamp: time.Unix(1000, 5)}, stanza.Delay{}},
		"bin.Data":         {&bin.Data{Data: []byte("a")}, &bin.Data{Data: []byte("ab"), MaxAge: 400 * time.Millisecond}, &bin.Data{MaxAge: 1500 * time.Millisecond}},
		"styling.Unstyled": {styling.Unstyled{Value: false}, styling.Unstyled{Value: true}},
		"file.Meta": {&file.Meta{}, &file.Meta{Name: "n", Date: time.Unix(1000, 123456789).In(time.FixedZone("", 3600))},
			// a zone offset with seconds: the date was written in its own zone and came back 15 s off
			&file.Meta{Name: "lmt", Date: time.Unix(1000, 0).In(time.FixedZone("LMT", 5*3600+30*60+15))}},
		// marshalled by value the affiliation and role were written as numbers
		"muc.Item": {muc.Item{JID: jid.MustParse("a@b/c"), Affiliation: muc.AffiliationAdmin, Role: muc.RoleModerator}, muc.Item{Affiliation: muc.AffiliationOutcast}},
		// the extended-info forms were never written
		"disco.Info": {disco.Info{Identity: []info.Identity{{Category: "client", Type: "pc"}}, Features: []info.Feature{{Var: "urn:x"}},
			Form: []form.Data{*form.New(form.Hidden("FORM_TYPE", form.Value("urn:xmpp:dataforms:softwareinfo")), form.Text("os", form.Value("Mac")))}}},
		"disco.Caps": {disco.Caps{Hash: crypto.SHA1, Node: "n", Ver: ""}},
		// the boundaries of the condition table: none, first, last, one past the last, the ends of uint16
		"saslerr.Condition": {xmpp.VerifSASLCondition(0), xmpp.VerifSASLCondition(1), xmpp.VerifSASLCondition(11), xmpp.VerifSASLCondition(12),
			xmpp.VerifSASLCondition(13), xmpp.VerifSASLCondition(65535)},
		"saslerr.Error": {xmpp.VerifSASLError{}, xmpp.VerifSASLError{Condition: 11, Lang: "en", Text: "t<&>"}, xmpp.VerifSASLError{Condition: 12, Text: "x"},
			xmpp.VerifSASLError{Condition: 12}, xmpp.VerifSASLError{Condition: 65535, Lang: "en"}, xmpp.VerifSASLError{Condition: 1, Lang: "en"}},
		"crypto.HashOutput": {crypto.HashOutput{Hash: crypto.SHA1}},
		"crypto.Key":        {crypto.Key{Trusted: true, KeyID: []byte("abc")}},
		"history.Query":     {&history.Query{ID: "q", PageID: "p1", Limit: 3, Start: time.Unix(1000, 500000000)}, &history.Query{Last: true, PageID: "p"}},
	}
	// every type carrying a time, over every zone of the generator (offsets of both
	// signs with and without minutes and seconds): deterministic witnesses
	for _, t := range zoneSweep() {
		extraCorpus["xtime.Time"] = append(extraCorpus["xtime.Time"], xtime.Time{Time: t})
		extraCorpus["delay.Delay"] = append(extraCorpus["delay.Delay"], delay.Delay{Time: t})
		extraCorpus["stanza.Delay"] = append(extraCorpus["stanza.Delay"], stanza.Delay{Stamp: t})
		extraCorpus["forward.Forwarded"] = append(extraCorpus["forward.Forwarded"], forward.Forwarded{Delay: delay.Delay{Time: t, Reason: "r"}})
		extraCorpus["file.Meta"] = append(extraCorpus["file.Meta"], &file.Meta{Name: "z", Date: t})
		extraCorpus["history.Query"] = append(extraCorpus["history.Query"], &history.Query{ID: "z", Start: t, End: t.Add(90 * time.Minute)})
	}
}

var extraCorpus map[string][]interface{}
