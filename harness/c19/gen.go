package main

import (
	"strings"
	"time"

	"mellium.im/xmpp/jid"
	"verifharness/hx"
)

// ---- text ----

var specials = []string{"<", ">", "&", "'", "\"", "]]>", "&amp;", "<a>", "</x>", "<!--", "\n", "\r", "\r\n", "\n\r", "\t", " ", "  ",
	"\u00e9", "\u00df", "\u6f22\u5b57", "\U0001F600", "\u00a0", "\u2028", "\ufeff", "a\u0301", "=", "%", "\\", "/", ":", "@"}

var words = []string{"a", "b", "abc", "node", "urn:xmpp:x", "http://example.com/?a=1&b=2", "x y", "0", "1", "true", "false",
	"Romeo", "juliet@capulet.lit", "-1", "18446744073709551615", "text/plain", "sha-256", "2020-01-02T03:04:05Z"}

var unclean = []string{"\x00", "\x0b", "\x1f", "\xff", "\xc3", "\uFFFE", "\uFFFF", "\xed\xa0\x80"}

// genText produces text content: empty, plain, XML-special, multi-line,
// non-ASCII; with probability 1/12 text XML cannot carry.
func genText(r *hx.Rand) string {
	switch r.Intn(12) {
	case 0:
		return ""
	case 1, 2:
		return words[r.Intn(len(words))]
	case 3:
		return specials[r.Intn(len(specials))]
	case 4:
		var sb strings.Builder
		for i, n := 0, 1+r.Intn(5); i < n; i++ {
			sb.WriteString(unclean[r.Intn(len(unclean))])
			sb.WriteString(words[r.Intn(len(words))])
		}
		return sb.String()
	case 5:
		return strings.Repeat(words[r.Intn(len(words))]+specials[r.Intn(len(specials))], 1+r.Intn(40))
	}
	var sb strings.Builder
	for i, n := 0, 1+r.Intn(6); i < n; i++ {
		if r.Chance(1, 2) {
			sb.WriteString(words[r.Intn(len(words))])
		} else {
			sb.WriteString(specials[r.Intn(len(specials))])
		}
	}
	return sb.String()
}

// genClean is genText restricted to text XML can carry.
func genClean(r *hx.Rand) string {
	for {
		s := genText(r)
		if xmlClean(s) {
			return s
		}
	}
}

func genNonEmpty(r *hx.Rand) string {
	for {
		if s := genText(r); s != "" {
			return s
		}
	}
}

// genLines produces multi-line text with every kind of line break, leading,
// trailing and doubled.
func genLines(r *hx.Rand) string {
	seps := []string{"\n", "\r", "\r\n", "\n\r", "\n\n", "\r\r"}
	var sb strings.Builder
	if r.Chance(1, 4) {
		sb.WriteString(seps[r.Intn(len(seps))])
	}
	for i, n := 0, r.Intn(4); i < n; i++ {
		if r.Chance(3, 4) {
			sb.WriteString(words[r.Intn(len(words))])
		}
		if i+1 < n || r.Chance(1, 2) {
			sb.WriteString(seps[r.Intn(len(seps))])
		}
	}
	return sb.String()
}

func genMaybe(r *hx.Rand, f func(*hx.Rand) string) string {
	if r.Chance(1, 3) {
		return ""
	}
	return f(r)
}

func genStrings(r *hx.Rand, f func(*hx.Rand) string) []string {
	var n int
	switch r.Intn(5) {
	case 0:
		n = 0
	case 1, 2:
		n = 1
	default:
		n = 2 + r.Intn(4)
	}
	var out []string
	for i := 0; i < n; i++ {
		out = append(out, f(r))
	}
	return out
}

func genBytes(r *hx.Rand) []byte {
	var n int
	switch r.Intn(8) {
	case 0:
		n = 0
	case 1:
		n = 1
	case 2:
		n = 2
	case 3:
		n = 3
	case 4:
		n = 4
	default:
		n = r.Intn(70)
	}
	if n == 0 && r.Bool() {
		return nil
	}
	b := make([]byte, n)
	for i := range b {
		b[i] = byte(r.Intn(256))
	}
	return b
}

func genUint(r *hx.Rand) uint64 {
	switch r.Intn(8) {
	case 0:
		return 0
	case 1:
		return 1
	case 2:
		return 1<<64 - 1
	case 3:
		return 1 << 63
	case 4:
		return 1<<63 - 1
	case 5:
		return uint64(r.Intn(100))
	}
	return r.Uint64() >> uint(r.Intn(64))
}

func genInt(r *hx.Rand) int {
	switch r.Intn(8) {
	case 0:
		return 0
	case 1:
		return -1
	case 2:
		return 1<<63 - 1
	case 3:
		return -1 << 63
	case 4:
		return r.Intn(1000)
	}
	return int(r.Uint64() >> uint(r.Intn(64)))
}

func genUintPtr(r *hx.Rand) *uint64 {
	if r.Chance(1, 3) {
		return nil
	}
	v := genUint(r)
	return &v
}

// ---- addresses ----

var jidPool = []string{"example.net", "juliet@example.net", "juliet@example.net/balcony", "example.net/r", "a@b/c d",
	"ß@ÉXAMPLE.net/Ｒ", "user@[::1]/x", "l@d/r@x/y", "d'artagnan\\40x@musketeers.lit", "пример.рф", "a@b/😀"}

func genJID(r *hx.Rand) jid.JID {
	if r.Chance(1, 5) {
		return jid.JID{}
	}
	for {
		j, err := jid.Parse(jidPool[r.Intn(len(jidPool))])
		if err == nil {
			return j
		}
	}
}

func genSomeJID(r *hx.Rand) jid.JID {
	for {
		if j := genJID(r); !j.Equal(jid.JID{}) {
			return j
		}
	}
}

// ---- times ----

// zones: UTC and fixed zones with offsets of both signs x {whole hours, :30,
// :45, :15, odd minutes, sub-minute seconds}, including -00:30 (sign carried by
// the minutes alone) and the extremes of real zones (+14:00, -12:00) and of what
// a two-digit hour field can carry.
var zones = func() []*time.Location {
	offs := []int{0,
		-5 * 3600, 1 * 3600, 14 * 3600, -12 * 3600, 23 * 3600, -23 * 3600, // whole hours
		5*3600 + 30*60, -(3*3600 + 30*60), -(9*3600 + 30*60), 30 * 60, -30 * 60, // :30
		5*3600 + 45*60, 12*3600 + 45*60, -(8*3600 + 45*60), 45 * 60, -45 * 60, // :45
		15 * 60, -15 * 60, -(4*3600 + 15*60), 13*3600 + 15*60, // :15
		3600 + 7*60, -(2*3600 + 53*60), 60, -60, 23*3600 + 59*60, -(23*3600 + 59*60), // odd minutes
		5*3600 + 30*60 + 15, -(3*3600 + 7), -(3*3600 + 30*60 + 20), -59, 59, 30, -(45*60 + 1), // sub-minute seconds
	}
	ls := []*time.Location{time.UTC}
	for _, o := range offs {
		ls = append(ls, time.FixedZone("", o))
	}
	return append(ls, time.FixedZone("EST", -5*3600), time.FixedZone("LMT", 5*3600+30*60+15))
}()

// zoneSweep: deterministic witnesses, one time per zone (alternating a whole
// second and sub-second precision), for the corpus of every type carrying a time.
func zoneSweep() []time.Time {
	var ts []time.Time
	for i, l := range zones {
		if i%2 == 0 {
			ts = append(ts, time.Unix(1185383397, 123456789).In(l))
		} else {
			ts = append(ts, time.Unix(1000, 0).In(l))
		}
	}
	return ts
}

// genTime: zero value, epoch, sub-second precision, every kind of zone, and
// (rarely) years RFC 3339 cannot express. inRange says whether the UTC year is
// within 0000-9999.
func genTime(r *hx.Rand) time.Time {
	loc := zones[r.Intn(len(zones))]
	switch r.Intn(12) {
	case 0:
		return time.Time{}
	case 1:
		return time.Unix(0, 0).In(loc)
	case 2:
		return time.Date(9999, 12, 31, 23, 59, 59, 999999999, time.UTC).In(loc)
	case 3:
		return time.Date(0, 1, 1, 0, 0, 0, 0, time.UTC).In(loc)
	case 4:
		if r.Chance(1, 2) {
			return time.Date(10000+r.Intn(5000), 1, 1, 0, 0, 0, 0, loc)
		}
		return time.Date(-1-r.Intn(300), 6, 1, 0, 0, 0, 0, loc)
	case 5:
		return time.Unix(int64(r.Intn(1<<31)), 0).In(loc)
	case 6:
		return time.Unix(int64(r.Intn(1<<31)), int64(r.Intn(1000))*1000000).In(loc)
	case 7:
		return time.Unix(int64(r.Intn(1<<31)), 500000000).In(loc)
	}
	sec := int64(r.Uint64()%(253402300800+62167219200)) - 62167219200 // within years 0..9999 (UTC)
	return time.Unix(sec, int64(r.Intn(1000000000))).In(loc)
}

func timeInRange(t time.Time) bool {
	y := t.UTC().Year()
	ly := t.Year()
	return y >= 0 && y <= 9999 && ly >= 0 && ly <= 9999
}
