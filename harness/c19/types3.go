package main

import (
	"encoding/xml"
	"fmt"
	"regexp"

	"mellium.im/xmpp"
	"mellium.im/xmpp/commands"
	"mellium.im/xmpp/disco"
	"mellium.im/xmpp/disco/info"
	"mellium.im/xmpp/form"
	"verifharness/hx"
)

// Level C (implementation oracle and differential checks only, no hand model):
// the service discovery info payloads and entity capabilities of disco/info.go
// and disco/caps.go (owned by the C20 engineer: C20 proves the hash; here only
// the encode/decode clauses of C19 are checked) and commands.Note.
func extraTypes() []*typeDesc {
	var ts []*typeDesc
	add := func(t *typeDesc) { ts = append(ts, t) }

	add(&typeDesc{name: "disco.InfoQuery", level: "C", both: true,
		gen:   func(r *hx.Rand) interface{} { return disco.InfoQuery{Node: genMaybe(r, genText)} },
		tr:    func(v interface{}) xml.TokenReader { return v.(disco.InfoQuery).TokenReader() },
		marsh: marshalV, fresh: func() interface{} { return &disco.InfoQuery{} },
		proj: func(p interface{}) interface{} {
			switch x := p.(type) {
			case disco.InfoQuery:
				return x.Node
			case *disco.InfoQuery:
				return x.Node
			}
			return nil
		},
		seeds: []string{`<query xmlns='http://jabber.org/protocol/disco#info' node='http://jabber.org/protocol/commands'/>`},
	})

	type eqIdent struct{ Cat, Typ, Name, Lang string }
	type eqInfo struct {
		Node     string
		Idents   []eqIdent
		Features []string
		Forms    []int // one entry per extended-info form: its number of fields
	}
	projInfo := func(p interface{}) interface{} {
		var i disco.Info
		switch x := p.(type) {
		case disco.Info:
			i = x
		case *disco.Info:
			i = *x
		}
		o := eqInfo{Node: i.Node}
		for k := range i.Form {
			o.Forms = append(o.Forms, i.Form[k].Len())
		}
		for _, id := range i.Identity {
			o.Idents = append(o.Idents, eqIdent{id.Category, id.Type, id.Name, id.Lang})
		}
		for _, f := range i.Features {
			o.Features = append(o.Features, f.Var)
		}
		return o
	}
	add(&typeDesc{name: "disco.Info", level: "C", both: true,
		gen: func(r *hx.Rand) interface{} {
			i := disco.Info{InfoQuery: disco.InfoQuery{Node: genMaybe(r, genText)}}
			for k, n := 0, r.Intn(4); k < n; k++ {
				i.Identity = append(i.Identity, info.Identity{Category: genText(r), Type: genText(r), Name: genMaybe(r, genText), Lang: []string{"", "en", "de-CH"}[r.Intn(3)]})
			}
			for k, n := 0, r.Intn(4); k < n; k++ {
				i.Features = append(i.Features, info.Feature{Var: genText(r)})
			}
			if r.Chance(1, 4) {
				i.Form = append(i.Form, *form.New(form.Hidden("FORM_TYPE", form.Value("urn:xmpp:dataforms:softwareinfo")), form.Text("os", form.Value(genClean(r)))))
			}
			return i
		},
		tr:    func(v interface{}) xml.TokenReader { return v.(disco.Info).TokenReader() },
		marsh: marshalV, fresh: func() interface{} { return &disco.Info{} },
		proj: projInfo,
		trigger: func(v interface{}, field string) string {
			if field == "Forms" {
				return "extended-info-not-written"
			}
			return ""
		},
		seeds: []string{`<query xmlns='http://jabber.org/protocol/disco#info'><identity category='conference' type='text' name='Play-Specific Chatrooms'/><feature var='http://jabber.org/protocol/disco#info'/><x xmlns='jabber:x:data' type='result'><field var='FORM_TYPE' type='hidden'><value>urn:xmpp:dataforms:softwareinfo</value></field></x></query>`},
	})

	type eqCaps struct {
		Hash      uint64
		Node, Ver string
	}
	add(&typeDesc{name: "disco.Caps", level: "C", both: true,
		gen: func(r *hx.Rand) interface{} {
			return disco.Caps{Hash: hashes[r.Intn(len(hashes))], Node: genText(r), Ver: genText(r)}
		},
		tr:    func(v interface{}) xml.TokenReader { return v.(disco.Caps).TokenReader() },
		marsh: marshalV, fresh: func() interface{} { return &disco.Caps{} },
		proj: func(p interface{}) interface{} {
			var c disco.Caps
			switch x := p.(type) {
			case disco.Caps:
				c = x
			case *disco.Caps:
				c = *x
			}
			return eqCaps{uint64(c.Hash), c.Node, c.Ver}
		},
		seeds: []string{`<c xmlns='http://jabber.org/protocol/caps' hash='sha-1' node='http://code.google.com/p/exodus' ver='QgayPKawpkPSDYmwT/WM94uAlu0='/>`},
	})

	type eqNote struct {
		Type  int
		Value string
	}
	add(&typeDesc{name: "commands.Note", level: "C", both: true,
		gen: func(r *hx.Rand) interface{} {
			return commands.Note{Type: commands.NoteType(r.Intn(3)), Value: genMaybe(r, genText)}
		},
		tr:    func(v interface{}) xml.TokenReader { return v.(commands.Note).TokenReader() },
		marsh: marshalV, fresh: func() interface{} { return &commands.Note{} },
		proj: func(p interface{}) interface{} {
			var c commands.Note
			switch x := p.(type) {
			case commands.Note:
				c = x
			case *commands.Note:
				c = *x
			}
			return eqNote{int(c.Type), c.Value}
		},
		seeds: []string{`<note type='info'>Service 'httpd' has been configured.</note>`, `<note type='bogus'/>`},
	})

	// ---- internal/saslerr through the verif aliases of the root package (level B) ----
	add(&typeDesc{name: "saslerr.Error", codec: "saslerr_c", level: "B", both: true,
		gen: func(r *hx.Rand) interface{} {
			return xmpp.VerifSASLError{Condition: genSASLCond(r), Lang: []string{"", "en", "de-CH", genText(r)}[r.Intn(4)], Text: genMaybe(r, genText)}
		},
		tr:    func(v interface{}) xml.TokenReader { return v.(xmpp.VerifSASLError).TokenReader() },
		write: func(v interface{}, e *xml.Encoder) error { _, err := v.(xmpp.VerifSASLError).WriteXML(e); return err },
		marsh: marshalV, fresh: func() interface{} { return &xmpp.VerifSASLError{} },
		proj: func(p interface{}) interface{} {
			var c xmpp.VerifSASLError
			switch x := p.(type) {
			case xmpp.VerifSASLError:
				c = x
			case *xmpp.VerifSASLError:
				c = *x
			}
			return pSASLErr{uint64(c.Condition), c.Lang, c.Text}
		},
		// an undefined condition is not written; the language exists only with a text
		norm: func(p interface{}) interface{} {
			e := p.(pSASLErr)
			if e.Cond < 1 || e.Cond > 11 {
				e.Cond = 0
			}
			if e.Text == "" {
				e.Lang = ""
			}
			return e
		},
		direct: func(v interface{}, raw []*Tree) (string, string) {
			// RFC 6120 6.5: one <failure/> in the SASL name space, at most one condition child, whatever the value
			if len(raw) != 1 || raw[0].Name.Local != "failure" || raw[0].Name.Space != "urn:ietf:params:xml:ns:xmpp-sasl" {
				return "tokenreader/failure-shape", "not one {urn:ietf:params:xml:ns:xmpp-sasl}failure element"
			}
			n := 0
			for _, k := range raw[0].Kids {
				if k.Kind == 0 && k.Name.Local != "text" {
					n++
					if !saslNameRE.MatchString(k.Name.Local) {
						return "tokenreader/condition-name", fmt.Sprintf("condition element %q is not a name (condition value %d)", k.Name.Local, v.(xmpp.VerifSASLError).Condition)
					}
				}
			}
			if c := v.(xmpp.VerifSASLError).Condition; (c >= 1 && c <= 11) != (n == 1) || n > 1 {
				return "tokenreader/condition-count", fmt.Sprintf("%d condition elements for condition value %d", n, c)
			}
			return "", ""
		},
		seeds: []string{`<failure xmlns='urn:ietf:params:xml:ns:xmpp-sasl'><not-authorized/><text xml:lang='en'>Password incorrect</text></failure>`,
			`<failure xmlns='urn:ietf:params:xml:ns:xmpp-sasl'><text>a</text><aborted/><text xml:lang='de'>b</text><bogus/><none/></failure>`,
			`<failure xmlns='urn:ietf:params:xml:ns:xmpp-sasl'/>`},
	})
	add(&typeDesc{name: "saslerr.Condition", codec: "scond_c", level: "B", both: true,
		gen: func(r *hx.Rand) interface{} { return genSASLCond(r) },
		tr:  func(v interface{}) xml.TokenReader { return v.(xmpp.VerifSASLCondition).TokenReader() },
		write: func(v interface{}, e *xml.Encoder) error {
			_, err := v.(xmpp.VerifSASLCondition).WriteXML(e)
			return err
		},
		marsh: marshalV, fresh: func() interface{} { c := xmpp.VerifSASLCondition(0); return &c },
		proj: func(p interface{}) interface{} {
			switch x := p.(type) {
			case xmpp.VerifSASLCondition:
				return uint64(x)
			case *xmpp.VerifSASLCondition:
				return uint64(*x)
			}
			return nil
		},
		seeds: []string{`<aborted xmlns='urn:ietf:params:xml:ns:xmpp-sasl'/>`, `<temporary-auth-failure/>`, `<none/>`, `<Condition/>`},
	})
	return ts
}

var saslNameRE = regexp.MustCompile(`^[a-z][a-z-]*$`)

type pSASLErr struct {
	Cond       uint64
	Lang, Text string
}

func (pSASLErr) CoqCtor() string { return "mksaslerr" }

// genSASLCond: every defined condition and the boundaries of the table: 0
// (ConditionNone), the last defined one, one past it, and the ends of uint16.
func genSASLCond(r *hx.Rand) xmpp.VerifSASLCondition {
	switch r.Intn(4) {
	case 0:
		return xmpp.VerifSASLCondition([]int{0, 1, 11, 12, 13, 255, 256, 65534, 65535}[r.Intn(9)])
	case 1:
		return xmpp.VerifSASLCondition(r.Intn(65536))
	}
	return xmpp.VerifSASLCondition(r.Intn(14))
}
