package main

import (
	"encoding/xml"

	"mellium.im/xmpp/commands"
	"mellium.im/xmpp/disco"
	"mellium.im/xmpp/disco/info"
	"mellium.im/xmpp/form"
	"verifharness/hx"
)

// Level C (implementation oracle and differential checks only, no hand model):
// the service discovery info payloads and entity capabilities of disco/info.go
// and disco/caps.go (owned by the C20 engineer: C20 proves the hash; here only
// the encode/decode clauses of C19 are checked) and commands.Note.
func extraTypes() []*typeDesc {
	var ts []*typeDesc
	add := func(t *typeDesc) { ts = append(ts, t) }

	add(&typeDesc{name: "disco.InfoQuery", level: "C", both: true,
		gen:   func(r *hx.Rand) interface{} { return disco.InfoQuery{Node: genMaybe(r, genText)} },
		tr:    func(v interface{}) xml.TokenReader { return v.(disco.InfoQuery).TokenReader() },
		marsh: marshalV, fresh: func() interface{} { return &disco.InfoQuery{} },
		proj: func(p interface{}) interface{} {
			switch x := p.(type) {
			case disco.InfoQuery:
				return x.Node
			case *disco.InfoQuery:
				return x.Node
			}
			return nil
		},
		seeds: []string{`<query xmlns='http://jabber.org/protocol/disco#info' node='http://jabber.org/protocol/commands'/>`},
	})

	type eqIdent struct{ Cat, Typ, Name, Lang string }
	type eqInfo struct {
		Node     string
		Idents   []eqIdent
		Features []string
		Forms    int
	}
	projInfo := func(p interface{}) interface{} {
		var i disco.Info
		switch x := p.(type) {
		case disco.Info:
			i = x
		case *disco.Info:
			i = *x
		}
		o := eqInfo{Node: i.Node, Forms: len(i.Form)}
		for _, id := range i.Identity {
			o.Idents = append(o.Idents, eqIdent{id.Category, id.Type, id.Name, id.Lang})
		}
		for _, f := range i.Features {
			o.Features = append(o.Features, f.Var)
		}
		return o
	}
	add(&typeDesc{name: "disco.Info", level: "C", both: true,
		gen: func(r *hx.Rand) interface{} {
			i := disco.Info{InfoQuery: disco.InfoQuery{Node: genMaybe(r, genText)}}
			for k, n := 0, r.Intn(4); k < n; k++ {
				i.Identity = append(i.Identity, info.Identity{Category: genText(r), Type: genText(r), Name: genMaybe(r, genText), Lang: []string{"", "en", "de-CH"}[r.Intn(3)]})
			}
			for k, n := 0, r.Intn(4); k < n; k++ {
				i.Features = append(i.Features, info.Feature{Var: genText(r)})
			}
			if r.Chance(1, 4) {
				i.Form = append(i.Form, *form.New(form.Hidden("FORM_TYPE", form.Value("urn:xmpp:dataforms:softwareinfo")), form.Text("os", form.Value(genClean(r)))))
			}
			return i
		},
		tr:    func(v interface{}) xml.TokenReader { return v.(disco.Info).TokenReader() },
		marsh: marshalV, fresh: func() interface{} { return &disco.Info{} },
		proj: projInfo,
		trigger: func(v interface{}, field string) string {
			if field == "Forms" {
				return "extended-info-not-written"
			}
			return ""
		},
		seeds: []string{`<query xmlns='http://jabber.org/protocol/disco#info'><identity category='conference' type='text' name='Play-Specific Chatrooms'/><feature var='http://jabber.org/protocol/disco#info'/><x xmlns='jabber:x:data' type='result'><field var='FORM_TYPE' type='hidden'><value>urn:xmpp:dataforms:softwareinfo</value></field></x></query>`},
	})

	type eqCaps struct {
		Hash      uint64
		Node, Ver string
	}
	add(&typeDesc{name: "disco.Caps", level: "C", both: true,
		gen: func(r *hx.Rand) interface{} {
			return disco.Caps{Hash: hashes[r.Intn(len(hashes))], Node: genText(r), Ver: genText(r)}
		},
		tr:    func(v interface{}) xml.TokenReader { return v.(disco.Caps).TokenReader() },
		marsh: marshalV, fresh: func() interface{} { return &disco.Caps{} },
		proj: func(p interface{}) interface{} {
			var c disco.Caps
			switch x := p.(type) {
			case disco.Caps:
				c = x
			case *disco.Caps:
				c = *x
			}
			return eqCaps{uint64(c.Hash), c.Node, c.Ver}
		},
		seeds: []string{`<c xmlns='http://jabber.org/protocol/caps' hash='sha-1' node='http://code.google.com/p/exodus' ver='QgayPKawpkPSDYmwT/WM94uAlu0='/>`},
	})

	type eqNote struct {
		Type  int
		Value string
	}
	add(&typeDesc{name: "commands.Note", level: "C", both: true,
		gen: func(r *hx.Rand) interface{} {
			return commands.Note{Type: commands.NoteType(r.Intn(3)), Value: genMaybe(r, genText)}
		},
		tr:    func(v interface{}) xml.TokenReader { return v.(commands.Note).TokenReader() },
		marsh: marshalV, fresh: func() interface{} { return &commands.Note{} },
		proj: func(p interface{}) interface{} {
			var c commands.Note
			switch x := p.(type) {
			case commands.Note:
				c = x
			case *commands.Note:
				c = *x
			}
			return eqNote{int(c.Type), c.Value}
		},
		seeds: []string{`<note type='info'>Service 'httpd' has been configured.</note>`, `<note type='bogus'/>`},
	})
	return ts
}
