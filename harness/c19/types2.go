package main

import (
	"bytes"
	"encoding/xml"
	"fmt"
	"net/http"
	"net/url"
	"sort"
	"strings"
	"time"

	"mellium.im/xmlstream"
	"mellium.im/xmpp/bookmarks"
	"mellium.im/xmpp/carbons"
	"mellium.im/xmpp/commands"
	"mellium.im/xmpp/delay"
	"mellium.im/xmpp/forward"
	"mellium.im/xmpp/history"
	"mellium.im/xmpp/jid"
	"mellium.im/xmpp/muc"
	"mellium.im/xmpp/oob"
	"mellium.im/xmpp/roster"
	"mellium.im/xmpp/stanza"
	"mellium.im/xmpp/upload"
	"verifharness/hx"
)

type pHQuery struct {
	ID, With      string
	Start, End    TM
	Before, After string
	IDs           []string
	Limit         uint64
	Last          bool
	Page          string
	Reverse       bool
}

func (pHQuery) CoqCtor() string { return "mkhquery" }

type pChannel struct {
	Autojoin             bool
	Name, Nick, Password string
	HasExt               bool
	Ext                  RawCoq
}

func (pChannel) CoqCtor() string { return "mkchannel" }

type eqChannel struct {
	Autojoin             bool
	Name, Nick, Password string
	Ext                  string
}

type pSlot struct {
	Put, Get              *string
	Auth, Cookie, Expires []string
}

func (pSlot) CoqCtor() string { return "mkslot" }

var extPool = []string{"", "", "<a xmlns='urn:x'/>", "<a/><b xmlns='urn:y' k='v'>t &amp; u</b>", "text", " ", "<!-- c -->", "<e xmlns='urn:x'><f>1</f><f>2</f></e>"}

func extForest(b []byte) ([]*Tree, error) {
	d := xml.NewDecoder(bytes.NewReader(b))
	var toks []xml.Token
	for {
		t, err := d.Token()
		if t != nil {
			toks = append(toks, xml.CopyToken(t))
		}
		if err != nil {
			break
		}
	}
	return forestOf(toks)
}

// canonExt: the extensions as a forest, name space declarations dropped, for
// comparison across encodings.
func canonExt(b []byte) string {
	f, err := extForest(b)
	if err != nil {
		return "ERR " + err.Error()
	}
	for _, t := range f {
		t.walk(func(n *Tree) {
			var as []xml.Attr
			for _, a := range n.Attrs {
				if a.Name.Local != "xmlns" && a.Name.Space != "xmlns" {
					as = append(as, a)
				}
			}
			n.Attrs = as
		})
	}
	return forestString(f)
}

var urlPool = []string{"https://upload.example.org/a%20b?x=1&y=%3Cz%3E", "http://h/p", "mailto:x@y", "//host/path", "https://[::1]:5443/ü", "/rel/ative", "https://u:p@h/?q#frag"}

func genURL(r *hx.Rand) *url.URL {
	if r.Chance(1, 5) {
		return nil
	}
	if r.Chance(1, 8) {
		return &url.URL{}
	}
	u, err := url.Parse(urlPool[r.Intn(len(urlPool))])
	if err != nil {
		return nil
	}
	return u
}

func urlStr(u *url.URL) *string {
	if u == nil {
		return nil
	}
	s := u.String()
	return &s
}

func moreTypes() []*typeDesc {
	var ts []*typeDesc
	add := func(t *typeDesc) { ts = append(ts, t) }

	add(&typeDesc{name: "history.Query", codec: "hquery_c", level: "B", both: true, needs: needs{jid: true, time: true},
		gen: func(r *hx.Rand) interface{} {
			q := &history.Query{ID: genText(r), With: genJID(r), BeforeID: genMaybe(r, genText), AfterID: genMaybe(r, genText),
				Limit: genUint(r), Last: r.Bool(), PageID: genMaybe(r, genText), Reverse: r.Bool()}
			if r.Chance(2, 3) {
				q.Start = genTime(r)
			}
			if r.Chance(1, 2) {
				q.End = genTime(r)
			}
			if r.Chance(1, 2) {
				q.IDs = genStrings(r, genText)
			}
			return q
		},
		tr:    func(v interface{}) xml.TokenReader { return v.(*history.Query).TokenReader() },
		marsh: marshalV, fresh: func() interface{} { return &history.Query{} },
		proj: func(p interface{}) interface{} {
			x := p.(*history.Query)
			return pHQuery{x.ID, x.With.String(), tmOf(x.Start), tmOf(x.End), x.BeforeID, x.AfterID, nzs(x.IDs), x.Limit, x.Last, x.PageID, x.Reverse}
		},
		// times travel in UTC; empty message ids are not sent
		norm: func(p interface{}) interface{} {
			q := p.(pHQuery)
			q.Start, q.End = utcNorm(q.Start), utcNorm(q.End)
			ids := []string{}
			for _, s := range q.IDs {
				if s != "" {
					ids = append(ids, s)
				}
			}
			q.IDs = ids
			return q
		},
		oracle: func(v interface{}, o *orTab) {
			q := v.(*history.Query)
			o.tfmt(lUTCNano, q.Start)
			o.tfmt(lUTCNano, q.End)
			o.jid(q.With.String())
		},
		timeOK: func(v interface{}) bool {
			q := v.(*history.Query)
			return timeInRange(q.Start) && timeInRange(q.End)
		},
		seeds: []string{
			`<query xmlns='urn:xmpp:mam:2' queryid='f27'><x xmlns='jabber:x:data' type='submit'><field var='FORM_TYPE' type='hidden'><value>urn:xmpp:mam:2</value></field><field var='with'><value>juliet@capulet.lit</value></field><field var='start'><value>2010-08-07T00:00:00Z</value></field></x><set xmlns='http://jabber.org/protocol/rsm'><max>10</max><before>09af3-cc343-b409f</before></set><flip-page/></query>`,
			`<query xmlns='urn:xmpp:mam:2' queryid='a'/>`,
			`<query xmlns='urn:xmpp:mam:2'><set xmlns='http://jabber.org/protocol/rsm'><max>5</max><after>x</after></set></query>`,
		},
		corpus: nil,
	})

	chanProj := func(p interface{}) interface{} {
		switch x := p.(type) {
		case bookmarks.Channel:
			f, _ := extForest(x.Extensions)
			return pChannel{x.Autojoin, x.Name, x.Nick, x.Password, len(x.Extensions) > 0, RawCoq(coqForest(f))}
		case *bookmarks.Channel:
			return pChannel{x.Autojoin, x.Name, x.Nick, x.Password, false, RawCoq("[]")}
		}
		panic("channel")
	}
	add(&typeDesc{name: "bookmarks.Channel", codec: "channel_c", level: "B", both: true, lossyTokens: true,
		gen: func(r *hx.Rand) interface{} {
			return bookmarks.Channel{JID: genJID(r), Autojoin: r.Bool(), Name: genMaybe(r, genText), Nick: genMaybe(r, genText),
				Password: genMaybe(r, genText), Extensions: []byte(extPool[r.Intn(len(extPool))])}
		},
		tr:    func(v interface{}) xml.TokenReader { return v.(bookmarks.Channel).TokenReader() },
		marsh: marshalV, fresh: func() interface{} { return &bookmarks.Channel{} },
		proj: chanProj,
		eq: func(p interface{}) interface{} {
			switch x := p.(type) {
			case bookmarks.Channel:
				return eqChannel{x.Autojoin, x.Name, x.Nick, x.Password, canonExt(x.Extensions)}
			case *bookmarks.Channel:
				return eqChannel{x.Autojoin, x.Name, x.Nick, x.Password, canonExt(x.Extensions)}
			}
			panic("channel")
		},
		seeds: []string{`<conference xmlns='urn:xmpp:bookmarks:1' name='Council of Oberon' autojoin='true'><nick>Puck</nick><password>p</password><extensions><state xmlns='http://myclient.example/bookmark/state' minimized='true'/></extensions></conference>`},
	})

	slotProj := func(p interface{}) interface{} {
		var s upload.Slot
		switch x := p.(type) {
		case upload.Slot:
			s = x
		case *upload.Slot:
			s = *x
		}
		o := pSlot{Put: urlStr(s.PutURL), Get: urlStr(s.GetURL), Auth: []string{}, Cookie: []string{}, Expires: []string{}}
		// only the three allowed names are ever written or read
		for k, vs := range s.Header {
			switch http.CanonicalHeaderKey(k) {
			case "Authorization":
				o.Auth = append(o.Auth, vs...)
			case "Cookie":
				o.Cookie = append(o.Cookie, vs...)
			case "Expires":
				o.Expires = append(o.Expires, vs...)
			}
		}
		return o
	}
	add(&typeDesc{name: "upload.Slot", codec: "slot_c", level: "B", both: true, needs: needs{url: true}, unordered: true,
		gen: func(r *hx.Rand) interface{} {
			s := upload.Slot{PutURL: genURL(r), GetURL: genURL(r)}
			if r.Chance(3, 4) {
				s.Header = http.Header{}
				names := []string{"Authorization", "Cookie", "Expires", "X-Other", "Content-Type", "authorization", "COOKIE"}
				for i, n := 0, r.Intn(5); i < n; i++ {
					s.Header.Add(names[r.Intn(len(names))], genText(r))
				}
			}
			return s
		},
		tr:    func(v interface{}) xml.TokenReader { return v.(upload.Slot).TokenReader() },
		marsh: marshalV, fresh: func() interface{} { return &upload.Slot{} },
		proj: slotProj,
		canon: func(t *Tree) {
			for _, k := range t.Kids {
				if k.Kind == 0 && k.Name.Local == "put" {
					name := func(h *Tree) string {
						for _, a := range h.Attrs {
							if a.Name.Local == "name" {
								return a.Value
							}
						}
						return ""
					}
					sort.SliceStable(k.Kids, func(i, j int) bool { return name(k.Kids[i]) < name(k.Kids[j]) })
				}
			}
		},
		// a URL comes back as url.Parse of its String; an empty one as nil
		norm: func(p interface{}) interface{} {
			s := p.(pSlot)
			re := func(u *string) *string {
				if u == nil || *u == "" {
					return nil
				}
				v, err := url.Parse(*u)
				if err != nil {
					return u
				}
				return urlStr(v)
			}
			s.Put, s.Get = re(s.Put), re(s.Get)
			return s
		},
		seeds: []string{`<slot xmlns='urn:xmpp:http:upload:0'><put url='https://upload.montague.tld/4a771ac1-f0b2-4a4a-9700-f2a26fa2bb67/tr%C3%A8s%20cool.jpg'><header name='Authorization'>Basic Base64String==</header><header name='Cookie'>foo=bar; user=romeo</header><header name='x-evil'>1</header></put><get url='https://download.montague.tld/4a771ac1/tr%C3%A8s%20cool.jpg'/></slot>`},
	})

	// ---------------- level C: no hand model; implementation oracle and differential checks only ----------------

	type eqMucItem struct {
		JID         string
		Affiliation uint64
		Nick        string
		Role        uint64
		Reason      string
	}
	mucItemEq := func(p interface{}) interface{} {
		var i muc.Item
		switch x := p.(type) {
		case muc.Item:
			i = x
		case *muc.Item:
			i = *x
		}
		return eqMucItem{i.JID.String(), uint64(i.Affiliation), i.Nick, uint64(i.Role), i.Reason}
	}
	add(&typeDesc{name: "muc.Item", level: "C", both: true,
		gen: func(r *hx.Rand) interface{} {
			return muc.Item{JID: genJID(r), Affiliation: muc.Affiliation(r.Intn(5)), Nick: genMaybe(r, genText), Role: muc.Role(r.Intn(4)), Reason: genMaybe(r, genText)}
		},
		marsh:  marshalV,
		marsh2: func(v interface{}) ([]byte, error) { i := v.(muc.Item); return xml.Marshal(&i) },
		fresh:  func() interface{} { return &muc.Item{} }, proj: mucItemEq,
		seeds: []string{`<item affiliation='member' jid='hag66@shakespeare.lit/pda' role='participant' nick='n'><reason>r</reason></item>`, `<item affiliation='boss' role='king'/>`},
	})

	type eqInvite struct {
		Space, Local             string
		Continue                 bool
		JID, Password, Reason, T string
	}
	inviteEq := func(p interface{}) interface{} {
		var i muc.Invitation
		switch x := p.(type) {
		case muc.Invitation:
			i = x
		case *muc.Invitation:
			i = *x
		}
		return eqInvite{i.XMLName.Space, i.XMLName.Local, i.Continue, i.JID.String(), i.Password, i.Reason, i.Thread}
	}
	add(&typeDesc{name: "muc.Invitation", level: "C", both: true,
		gen: func(r *hx.Rand) interface{} {
			i := muc.Invitation{Continue: r.Bool(), JID: genJID(r), Password: genMaybe(r, genText), Reason: genMaybe(r, genText), Thread: genMaybe(r, genText)}
			if r.Bool() {
				i.XMLName = xml.Name{Space: muc.NSConf, Local: "x"}
			} else if r.Bool() {
				i.XMLName = xml.Name{Space: muc.NSUser, Local: "x"}
			}
			return i
		},
		tr:    func(v interface{}) xml.TokenReader { return v.(muc.Invitation).TokenReader() },
		marsh: marshalV, fresh: func() interface{} { return &muc.Invitation{} }, proj: inviteEq,
		// a mediated invitation is the default form; the thread only travels with continue
		norm: func(p interface{}) interface{} {
			i := p.(eqInvite)
			if i.Space != muc.NSConf || i.Local != "x" {
				i.Space, i.Local = muc.NSUser, "x"
			}
			if !i.Continue {
				i.T = ""
			}
			return i
		},
		seeds: []string{`<x xmlns='jabber:x:conference' continue='true' jid='darkcave@macbeth.shakespeare.lit' password='cauldronburn' reason='Hey Hecate' thread='e0ffe42b28561960c6b12b944a092794b9683a38'/>`,
			`<x xmlns='http://jabber.org/protocol/muc#user'><invite to='hecate@shakespeare.lit'><reason>Hey</reason><continue thread='t'/></invite><password>cauldronburn</password></x>`},
	})

	type eqCommand struct{ JID, Action, Name, Node, SID string }
	add(&typeDesc{name: "commands.Command", level: "C", both: true,
		gen: func(r *hx.Rand) interface{} {
			return commands.Command{JID: genJID(r), Action: genMaybe(r, genText), Name: genMaybe(r, genText), Node: genText(r), SID: genMaybe(r, genText)}
		},
		tr:    func(v interface{}) xml.TokenReader { return v.(commands.Command).TokenReader() },
		marsh: marshalV, fresh: func() interface{} { return &commands.Command{} },
		proj: func(p interface{}) interface{} {
			var c commands.Command
			switch x := p.(type) {
			case commands.Command:
				c = x
			case *commands.Command:
				c = *x
			}
			return eqCommand{c.JID.String(), c.Action, c.Name, c.Node, c.SID}
		},
		seeds: []string{`<command xmlns='http://jabber.org/protocol/commands' node='list' action='execute' sessionid='s' jid='a@b'/>`},
	})

	type eqResponse struct{ ID, To, From, Lang, Type, Node, SID, Status string }
	add(&typeDesc{name: "commands.Response", level: "C", both: true,
		gen: func(r *hx.Rand) interface{} {
			return commands.Response{IQ: stanza.IQ{ID: genClean(r), To: genJID(r), From: genJID(r), Type: stanza.ResultIQ},
				Node: genText(r), SID: genText(r), Status: []string{"executing", "completed", "canceled", genText(r)}[r.Intn(4)]}
		},
		tr:    func(v interface{}) xml.TokenReader { return v.(commands.Response).TokenReader() },
		marsh: marshalV, fresh: func() interface{} { return &commands.Response{} },
		proj: func(p interface{}) interface{} {
			var c commands.Response
			switch x := p.(type) {
			case commands.Response:
				c = x
			case *commands.Response:
				c = *x
			}
			return eqResponse{c.ID, c.To.String(), c.From.String(), c.Lang, string(c.Type), c.Node, c.SID, c.Status}
		},
		seeds: []string{`<iq type='result' id='1'><command xmlns='http://jabber.org/protocol/commands' node='n' sessionid='s' status='executing'/></iq>`},
	})

	type eqRosterIQ struct {
		ID, To, From, Type, Ver string
		Items                   []pRItem
	}
	add(&typeDesc{name: "roster.IQ", level: "C", both: true,
		gen: func(r *hx.Rand) interface{} {
			iq := roster.IQ{IQ: stanza.IQ{ID: genClean(r), To: genJID(r), From: genJID(r), Type: []stanza.IQType{stanza.GetIQ, stanza.SetIQ, stanza.ResultIQ}[r.Intn(3)]}}
			iq.Query.Ver = genMaybe(r, genText)
			for i, n := 0, r.Intn(4); i < n; i++ {
				iq.Query.Item = append(iq.Query.Item, roster.Item{JID: genJID(r), Name: genMaybe(r, genText), Subscription: genMaybe(r, genText), Group: genStrings(r, genText)})
			}
			return iq
		},
		tr:    func(v interface{}) xml.TokenReader { return v.(roster.IQ).TokenReader() },
		marsh: marshalV, fresh: func() interface{} { return &roster.IQ{} },
		proj: func(p interface{}) interface{} {
			var c roster.IQ
			switch x := p.(type) {
			case roster.IQ:
				c = x
			case *roster.IQ:
				c = *x
			}
			o := eqRosterIQ{c.ID, c.To.String(), c.From.String(), string(c.Type), c.Query.Ver, []pRItem{}}
			for _, q := range c.Query.Item {
				o.Items = append(o.Items, pRItem{q.JID.String(), q.Name, q.Subscription, nzs(q.Group)})
			}
			return o
		},
		seeds: []string{`<iq id='bv1bs71f' to='juliet@example.com/chamber' type='result'><query xmlns='jabber:iq:roster' ver='ver7'><item jid='nurse@example.com'/><item jid='romeo@example.net' name='R'><group>g</group></item></query></iq>`},
	})

	type eqOOBIQ struct{ ID, To, From, Type, URL, Desc string }
	add(&typeDesc{name: "oob.IQ", level: "C", both: true,
		gen: func(r *hx.Rand) interface{} {
			return oob.IQ{IQ: stanza.IQ{ID: genClean(r), To: genJID(r), From: genJID(r), Type: stanza.SetIQ}, Query: oob.Query{URL: genText(r), Desc: genMaybe(r, genText)}}
		},
		tr:    func(v interface{}) xml.TokenReader { return v.(oob.IQ).TokenReader() },
		marsh: marshalV, fresh: func() interface{} { return &oob.IQ{} },
		proj: func(p interface{}) interface{} {
			var c oob.IQ
			switch x := p.(type) {
			case oob.IQ:
				c = x
			case *oob.IQ:
				c = *x
			}
			return eqOOBIQ{c.ID, c.To.String(), c.From.String(), string(c.Type), c.Query.URL, c.Query.Desc}
		},
		seeds: []string{`<iq type='set' id='oob1'><query xmlns='jabber:iq:oob'><url>http://x/</url><desc>d</desc></query></iq>`},
	})
	return ts
}

// wrappers: forward.Forwarded.Wrap / forward.Unwrap and carbons.WrapReceived /
// WrapSent / Unwrap carry a payload unchanged and the delay through a round
// trip (level C: oracle only).
func (x *runner) wrappers(r *hx.Rand, n int) {
	td := &typeDesc{name: "forward+carbons"}
	for i := 0; i < n; i++ {
		seed := r.Uint64()
		x.oneWrapper(td, seed)
	}
}

func (x *runner) oneWrapper(td *typeDesc, seed uint64) {
	r := hx.NewRand(seed)
	d := delay.Delay{From: genJID(r), Time: genTime(r), Reason: genMaybe(r, genClean)}
	for !timeInRange(d.Time) {
		d.Time = genTime(r)
	}
	body := genClean(r)
	mode := r.Intn(3)
	c := caseRec{Type: td.name, Kind: "wrapper", Seed: seed, Value: fmt.Sprintf("mode=%d delay=%+v body=%q", mode, projDelay(d), body)}
	x.res.Count(c.Value, true, "type/forward+carbons", fmt.Sprint("wrapper/mode", mode))
	payload := func() xml.TokenReader {
		return stanza.Message{To: jid.MustParse("a@b"), Type: stanza.ChatMessage}.Wrap(
			xmlstream.Wrap(xmlstream.Token(xml.CharData(body)), xml.StartElement{Name: xml.Name{Local: "body"}}))
	}
	wantToks, _ := readTokens(payload())
	want, _ := forestOf(wantToks)
	var got []*Tree
	var gd delay.Delay
	var err error
	p := hx.Catch(func() {
		var wrapped xml.TokenReader
		switch mode {
		case 0:
			wrapped = forward.Forwarded{Delay: d}.Wrap(payload())
		case 1:
			wrapped = carbons.WrapReceived(d, payload())
		default:
			wrapped = carbons.WrapSent(d, payload())
		}
		toks, e := readTokens(wrapped)
		if e != nil {
			err = e
			return
		}
		if _, e := forestOf(toks); e != nil {
			err = fmt.Errorf("wrapped stream not well-bracketed: %v", e)
			return
		}
		b, e := encodeTokens(toks)
		if e != nil {
			err = e
			return
		}
		// read it back through a real decoder
		dec := xml.NewDecoder(bytes.NewReader(b))
		var inner xml.TokenReader
		if mode == 0 {
			inner, e = forward.Unwrap(&gd, dec)
		} else {
			var se xml.StartElement
			inner, se, e = carbons.Unwrap(&gd, dec)
			if e == nil && (se.Name.Space != carbons.NS || (mode == 1) != (se.Name.Local == "received")) {
				e = fmt.Errorf("wrong carbon element %v", se.Name)
			}
		}
		if e != nil {
			err = e
			return
		}
		it, e := readTokens(inner)
		if e != nil {
			err = e
			return
		}
		got, err = forestOf(it)
	})
	if p != "" {
		x.fail(td, "wrap/panic", "wrapping or unwrapping panics: "+p, c)
		return
	}
	if err != nil {
		x.fail(td, "wrap/error", "wrap then unwrap fails: "+err.Error(), c)
		return
	}
	strip := func(f []*Tree) string {
		for _, t := range f {
			t.walk(func(n *Tree) {
				var as []xml.Attr
				for _, a := range n.Attrs {
					if a.Name.Local != "xmlns" {
						as = append(as, a)
					}
				}
				n.Attrs = as
				if n.Kind == 0 {
					n.Name.Space = ""
				}
			})
		}
		return strings.ReplaceAll(forestString(f), `""`, "")
	}
	if strip(want) != strip(got) {
		x.fail(td, "wrap/payload-changed", "payload changed by wrap+unwrap: "+strip(want)+" vs "+strip(got), c)
	}
	wd := projDelay(d)
	wd.Time = utcNorm(wd.Time)
	if f := diffProj(wd, projDelay(gd)); f != "" {
		x.fail(td, "wrap/delay/"+f, fmt.Sprintf("delay changed: want %+v got %+v", wd, projDelay(gd)), c)
	}
	_ = time.Second
}
