package main

import (
	"bytes"
	"encoding/xml"
	"fmt"
	"strings"

	"mellium.im/xmpp/form"
	"mellium.im/xmpp/jid"
	"verifharness/hx"
)

// A form script: construct a form through the exported constructors, Set some
// fields, Get some, then TokenReader or Submit. Everything is replayable from
// the seed.

type fieldOpt struct {
	Kind string // required desc value label item
	A, B string
}

type formOpt struct {
	Kind string // title instr result field
	A    string // text / field type
	ID   string
	Opts []fieldOpt
}

type setOp struct {
	ID   string
	Kind string // nil bool str jid jids strs other
	B    bool
	S    string
	L    []string
}

type formScript struct {
	Ctor   string // new cancel zero
	Opts   []formOpt
	A, B   string // cancel title / instructions
	Sets   []setOp
	Gets   []string
	Submit bool
}

var fieldTypes = []string{"boolean", "fixed", "hidden", "jid-multi", "jid-single", "list-multi", "list-single", "text-multi", "text-private", "text-single"}

func fieldCtor(typ, id string, o ...form.Option) form.Field {
	switch typ {
	case "boolean":
		return form.Boolean(id, o...)
	case "fixed":
		return form.Fixed(o...)
	case "hidden":
		return form.Hidden(id, o...)
	case "jid-multi":
		return form.JIDMulti(id, o...)
	case "jid-single":
		return form.JID(id, o...)
	case "list-multi":
		return form.ListMulti(id, o...)
	case "list-single":
		return form.List(id, o...)
	case "text-multi":
		return form.TextMulti(id, o...)
	case "text-private":
		return form.TextPrivate(id, o...)
	}
	return form.Text(id, o...)
}

var varNames = []string{"a", "b", "c", "FORM_TYPE", "muc#roomconfig_roomname", "x y", "é"}

func genFieldValue(r *hx.Rand, typ string) string {
	switch typ {
	case "boolean":
		return []string{"true", "false", "0", "1", "yes", "TRUE", ""}[r.Intn(7)]
	case "jid-single", "jid-multi":
		if r.Chance(1, 4) {
			return []string{"", "@", "a@b@c", "not a jid/"}[r.Intn(4)]
		}
		return jidPool[r.Intn(len(jidPool))]
	case "text-multi":
		if r.Chance(1, 2) {
			return genLines(r)
		}
	}
	return genText(r)
}

func genFormScript(r *hx.Rand) formScript {
	var s formScript
	switch r.Intn(10) {
	case 0:
		s.Ctor = "cancel"
		s.A, s.B = genMaybe(r, genText), genMaybe(r, genLines)
	case 1:
		s.Ctor = "zero"
	default:
		s.Ctor = "new"
	}
	if s.Ctor == "new" {
		if r.Chance(1, 2) {
			s.Opts = append(s.Opts, formOpt{Kind: "title", A: []func(*hx.Rand) string{genText, genLines}[r.Intn(2)](r)})
		}
		if r.Chance(1, 2) {
			s.Opts = append(s.Opts, formOpt{Kind: "instr", A: []func(*hx.Rand) string{genText, genLines}[r.Intn(2)](r)})
		}
		if r.Chance(1, 4) {
			s.Opts = append(s.Opts, formOpt{Kind: "result"})
		}
		for i, n := 0, r.Intn(6); i < n; i++ {
			typ := fieldTypes[r.Intn(len(fieldTypes))]
			f := formOpt{Kind: "field", A: typ, ID: varNames[r.Intn(len(varNames))]}
			if typ == "fixed" {
				f.ID = ""
			}
			for j, m := 0, r.Intn(5); j < m; j++ {
				switch r.Intn(6) {
				case 0:
					f.Opts = append(f.Opts, fieldOpt{Kind: "required"})
				case 1:
					f.Opts = append(f.Opts, fieldOpt{Kind: "desc", A: genText(r)})
				case 2, 3:
					f.Opts = append(f.Opts, fieldOpt{Kind: "value", A: genFieldValue(r, typ)})
				case 4:
					f.Opts = append(f.Opts, fieldOpt{Kind: "label", A: genText(r)})
				default:
					f.Opts = append(f.Opts, fieldOpt{Kind: "item", A: genText(r), B: genText(r)})
				}
			}
			s.Opts = append(s.Opts, f)
		}
	}
	// Sets: mostly well-typed for the field they address, sometimes not
	var fields []formOpt
	for _, o := range s.Opts {
		if o.Kind == "field" {
			fields = append(fields, o)
		}
	}
	for i, n := 0, r.Intn(5); i < n; i++ {
		var op setOp
		typ := ""
		if len(fields) > 0 && r.Chance(4, 5) {
			f := fields[r.Intn(len(fields))]
			op.ID, typ = f.ID, f.A
		} else {
			op.ID = varNames[r.Intn(len(varNames))]
		}
		kind := map[string]string{"boolean": "bool", "jid-single": "jid", "jid-multi": "jids", "list-multi": "strs"}[typ]
		if kind == "" {
			kind = "str"
		}
		if r.Chance(1, 6) {
			kind = []string{"nil", "bool", "str", "jid", "jids", "strs", "other"}[r.Intn(7)]
		}
		op.Kind = kind
		switch kind {
		case "bool":
			op.B = r.Bool()
		case "str":
			if typ == "text-multi" || r.Chance(1, 4) {
				op.S = genLines(r)
			} else {
				op.S = genText(r)
			}
		case "jid":
			op.S = genJID(r).String()
		case "jids":
			for k, m := 0, r.Intn(4); k < m; k++ {
				op.L = append(op.L, genJID(r).String())
			}
		case "strs":
			op.L = genStrings(r, genText)
		}
		s.Sets = append(s.Sets, op)
	}
	for _, f := range fields {
		if r.Chance(2, 3) {
			s.Gets = append(s.Gets, f.ID)
		}
	}
	if r.Chance(1, 3) {
		s.Gets = append(s.Gets, varNames[r.Intn(len(varNames))])
	}
	s.Submit = r.Chance(3, 5)
	return s
}

func mustJID(s string) jid.JID {
	if s == "" {
		return jid.JID{}
	}
	return jid.MustParse(s)
}

func (op setOp) goValue() interface{} {
	switch op.Kind {
	case "nil":
		return nil
	case "bool":
		return op.B
	case "str":
		return op.S
	case "jid":
		return mustJID(op.S)
	case "jids":
		js := []jid.JID{}
		for _, s := range op.L {
			js = append(js, mustJID(s))
		}
		return js
	case "strs":
		if op.L == nil {
			return []string(nil)
		}
		return op.L
	}
	return 42
}

func coqStrs(l []string) string {
	parts := make([]string, len(l))
	for i, s := range l {
		parts[i] = hx.CoqBytes([]byte(s))
	}
	return "[" + strings.Join(parts, ";") + "]"
}

func (op setOp) coq() string {
	switch op.Kind {
	case "nil":
		return "VNil"
	case "bool":
		return "(VBool " + hx.CoqBool(op.B) + ")"
	case "str":
		return "(VStr " + hx.CoqBytes([]byte(op.S)) + ")"
	case "jid":
		return "(VJid " + hx.CoqBytes([]byte(op.S)) + ")"
	case "jids":
		return "(VJids " + coqStrs(op.L) + ")"
	case "strs":
		return "(VStrs " + coqStrs(op.L) + ")"
	}
	return "VOther"
}

func coqFval(v interface{}) string {
	switch x := v.(type) {
	case nil:
		return "VNil"
	case bool:
		return "(VBool " + hx.CoqBool(x) + ")"
	case string:
		return "(VStr " + hx.CoqBytes([]byte(x)) + ")"
	case jid.JID:
		return "(VJid " + hx.CoqBytes([]byte(x.String())) + ")"
	case []jid.JID:
		var l []string
		for _, j := range x {
			l = append(l, j.String())
		}
		return "(VJids " + coqStrs(l) + ")"
	case []string:
		return "(VStrs " + coqStrs(x) + ")"
	}
	return "VOther"
}

func (s formScript) build() *form.Data {
	switch s.Ctor {
	case "cancel":
		return form.Cancel(s.A, s.B)
	case "zero":
		return &form.Data{}
	}
	var fs []form.Field
	for _, o := range s.Opts {
		switch o.Kind {
		case "title":
			fs = append(fs, form.Title(o.A))
		case "instr":
			fs = append(fs, form.Instructions(o.A))
		case "result":
			fs = append(fs, form.Result)
		case "field":
			var opts []form.Option
			for _, fo := range o.Opts {
				switch fo.Kind {
				case "required":
					opts = append(opts, form.Required)
				case "desc":
					opts = append(opts, form.Desc(fo.A))
				case "value":
					opts = append(opts, form.Value(fo.A))
				case "label":
					opts = append(opts, form.Label(fo.A))
				case "item":
					opts = append(opts, form.ListItem(fo.A, fo.B))
				}
			}
			fs = append(fs, fieldCtor(o.A, o.ID, opts...))
		}
	}
	return form.New(fs...)
}

func (s formScript) coqCtor() string {
	switch s.Ctor {
	case "cancel":
		return "(CCancel " + hx.CoqBytes([]byte(s.A)) + " " + hx.CoqBytes([]byte(s.B)) + ")"
	case "zero":
		return "CZero"
	}
	var parts []string
	for _, o := range s.Opts {
		switch o.Kind {
		case "title":
			parts = append(parts, "FTitle "+hx.CoqBytes([]byte(o.A)))
		case "instr":
			parts = append(parts, "FInstr "+hx.CoqBytes([]byte(o.A)))
		case "result":
			parts = append(parts, "FResult")
		case "field":
			var fo []string
			for _, x := range o.Opts {
				switch x.Kind {
				case "required":
					fo = append(fo, "ORequired")
				case "desc":
					fo = append(fo, "ODesc "+hx.CoqBytes([]byte(x.A)))
				case "value":
					fo = append(fo, "OValue "+hx.CoqBytes([]byte(x.A)))
				case "label":
					fo = append(fo, "OLabel "+hx.CoqBytes([]byte(x.A)))
				case "item":
					fo = append(fo, "OListItem "+hx.CoqBytes([]byte(x.A))+" "+hx.CoqBytes([]byte(x.B)))
				}
			}
			parts = append(parts, "FField "+hx.CoqBytes([]byte(o.A))+" "+hx.CoqBytes([]byte(o.ID))+" ["+strings.Join(fo, ";")+"]")
		}
	}
	return "(CNew [" + strings.Join(parts, ";") + "])"
}

// projection of a decoded form (through the verif dump)
func coqData(d *form.Data) string {
	typ, fields, _ := form.VerifDump(d)
	var fs []string
	for _, f := range fields {
		var opts []string
		for _, o := range f.Option {
			opts = append(opts, "mkopt "+hx.CoqBytes([]byte(o.Label))+" "+hx.CoqBytes([]byte(o.Value)))
		}
		fs = append(fs, fmt.Sprintf("mkfld %s %s %s %s %s [%s] %s", hx.CoqBytes([]byte(f.Type)), hx.CoqBytes([]byte(f.Var)),
			hx.CoqBytes([]byte(f.Label)), hx.CoqBytes([]byte(f.Desc)), coqStrs(f.Value), strings.Join(opts, ";"), hx.CoqBool(f.Required)))
	}
	return fmt.Sprintf("(mkdata %s %s %s [%s] (Some []))", hx.CoqBytes([]byte(d.Title())), hx.CoqBytes([]byte(d.Instructions())),
		hx.CoqBytes([]byte(typ)), strings.Join(fs, ";"))
}

type pForm struct {
	Title, Instr, Typ string
	Fields            []form.VerifField
}

func projForm(d *form.Data) pForm {
	typ, fields, _ := form.VerifDump(d)
	for i := range fields {
		if len(fields[i].Value) == 0 {
			fields[i].Value = nil
		}
		if len(fields[i].Option) == 0 {
			fields[i].Option = nil
		}
	}
	if len(fields) == 0 {
		fields = nil
	}
	return pForm{d.Title(), d.Instructions(), typ, fields}
}

// oracleJIDs registers jid.Parse answers for every text the form model may
// try to parse.
func (s formScript) oracleJIDs(o *orTab) {
	o.jid("true") // a boolean default can end up in a JID field of the same name
	o.jid("false")
	for _, f := range s.Opts {
		for _, x := range f.Opts {
			if x.Kind == "value" {
				o.jid(x.A)
			}
		}
	}
	for _, op := range s.Sets {
		if op.Kind == "jid" || op.Kind == "str" {
			o.jid(op.S)
		}
		for _, l := range op.L {
			o.jid(l)
		}
	}
}

// independent re-statement of what a data form may look like on the wire
// (XEP-0004): used by the oracle on the decoded output.
func checkFormTree(t *Tree) string {
	if t.Name.Local != "x" || t.Name.Space != "jabber:x:data" {
		return "root is not {jabber:x:data}x"
	}
	for _, k := range t.Kids {
		if k.Kind != 0 {
			continue
		}
		switch k.Name.Local {
		case "title", "instructions":
			if strings.ContainsAny(k.directText(), "\r\n") {
				return k.Name.Local + " contains a line break"
			}
			if k.Name.Local == "instructions" && k.directText() == "" {
				return "empty instructions element"
			}
		case "field":
			typ := ""
			for _, a := range k.Attrs {
				if a.Name.Local == "type" {
					typ = a.Value
				}
			}
			nv := 0
			for _, v := range k.Kids {
				if v.Kind == 0 && v.Name.Local == "value" {
					nv++
					if v.directText() == "" {
						return "empty value element"
					}
				}
			}
			multi := typ == "list-multi" || typ == "jid-multi" || typ == "text-multi"
			if nv > 1 && !multi {
				return "more than one value in a single-valued field"
			}
		default:
			return "unexpected child " + k.Name.Local
		}
	}
	return ""
}

func (x *runner) oneForm(seed uint64) {
	r := hx.NewRand(seed)
	x.runForm(genFormScript(r), caseRec{Type: "form.Data", Kind: "form", Seed: seed})
}

func (x *runner) runForm(s formScript, c caseRec) {
	c.Value = fmt.Sprintf("%+v", s)
	if len(c.Value) > 800 {
		c.Value = c.Value[:800] + "..."
	}
	td := &typeDesc{name: "form.Data"}
	or := newOr()
	s.oracleJIDs(or)
	classes := []string{"type/form.Data", "form/ctor/" + s.Ctor}
	if s.Submit {
		classes = append(classes, "form/submit")
	} else {
		classes = append(classes, "form/tokenreader")
	}
	x.res.Count(c.Value, true, classes...)

	var d *form.Data
	if p := hx.Catch(func() { d = s.build() }); p != "" {
		x.fail(td, "constructors/panic", "a constructor panics: "+p, c)
		return
	}
	var sets, gets []string
	for _, op := range s.Sets {
		var ok bool
		var err error
		if p := hx.Catch(func() { ok, err = d.Set(op.ID, op.goValue()) }); p != "" {
			x.fail(td, "set/panic", "Set panics: "+p, c)
			return
		}
		sets = append(sets, fmt.Sprintf("(%s, %s)", hx.CoqBool(ok), hx.CoqBool(err != nil)))
		if err != nil && ok {
			x.fail(td, "set/ok-with-error", "Set returns ok together with an error", c)
		}
	}
	// texts the submission may hand to jid.Parse: whatever Get answers for any field
	hx.Catch(func() {
		d.ForFields(func(f form.FieldData) {
			v, _ := d.Get(f.Var)
			switch t := v.(type) {
			case string:
				or.jid(t)
			case []string:
				for _, e := range t {
					or.jid(e)
				}
			}
		})
	})
	for _, id := range s.Gets {
		var v interface{}
		var ok bool
		if p := hx.Catch(func() { v, ok = d.Get(id) }); p != "" {
			x.fail(td, "get/panic", "Get panics: "+p, c)
			return
		}
		gets = append(gets, fmt.Sprintf("(%s, %s)", coqFval(v), hx.CoqBool(ok)))
		// typed getters never panic and agree with Get
		if p := hx.Catch(func() {
			d.GetString(id)
			d.GetStrings(id)
			d.GetBool(id)
			d.GetJID(id)
			d.GetJIDs(id)
			d.Raw(id)
			d.GetOptions(id)
			d.Len()
		}); p != "" {
			x.fail(td, "get/panic", "a typed getter panics: "+p, c)
		}
	}
	if !x.formHistory(td, c, d) {
		return
	}
	var toks []xml.Token
	var terr error
	subOK := true
	p := hx.Catch(func() {
		var tr xml.TokenReader
		if s.Submit {
			tr, subOK = d.Submit()
		} else {
			tr = d.TokenReader()
		}
		toks, terr = readTokens(tr)
	})
	act := "ATokenReader"
	if s.Submit {
		act = "ASubmit"
	}
	emit := func(out string) {
		x.cases.Add(fmt.Sprintf("form_ok %s %s [%s] %s %s (mkfobs [%s] [%s] %s)", or.Coq(), s.coqCtor(), setsCoq(s.Sets),
			coqStrs(s.Gets), act, strings.Join(sets, ";"), strings.Join(gets, ";"), out), c)
	}
	if p != "" {
		clause := "tokenreader/panic"
		if s.Submit {
			clause = "submit/panic"
		}
		x.fail(td, clause, "building the tokens panics: "+p, c)
		emit("Panic")
		return
	}
	if terr != nil {
		x.fail(td, "tokenreader/error", terr.Error(), c)
		return
	}
	raw, ferr := forestOf(toks)
	if ferr != nil || len(raw) != 1 {
		x.fail(td, "tokenreader/unbalanced", fmt.Sprint("not one well-bracketed element: ", ferr), c)
		return
	}
	emit(fmt.Sprintf("(Ok (%s, %s))", raw[0].Coq(), hx.CoqBool(subOK)))
	if b := badNames(raw); b != "" {
		x.fail(td, "tokenreader/bad-name", "output has "+b, c)
	}

	// the two byte encodings
	final := d
	if s.Submit {
		// Submit returns only a token reader; encode those tokens
		final = nil
	}
	bw, eerr := encodeTokens(toks)
	if eerr != nil {
		x.fail(td, "marshal/error", eerr.Error(), c)
		return
	}
	var bm []byte
	if final != nil {
		var em error
		if p := hx.Catch(func() { bm, em = xml.Marshal(final) }); p != "" || em != nil {
			x.fail(td, "marshal/panic", fmt.Sprint("xml.Marshal: ", p, em), c)
			return
		}
	} else {
		bm = bw
	}
	fm, e1 := wholeDoc(bm)
	fw, e2 := wholeDoc(bw)
	if e1 != nil || e2 != nil || len(fm) != 1 || len(fw) != 1 {
		x.fail(td, "wellformed", fmt.Sprintf("output is not one well-formed element: %v %v", e1, e2), c)
		return
	}
	if !sameForest(fm, fw, false) {
		x.fail(td, "paths-differ/encoding", "MarshalXML and the token stream differ: "+string(bm)+" vs "+string(bw), c)
	}
	clean := raw[0].clean()
	if clean {
		x.cases.Add(fmt.Sprintf("wire_ok %s %s", raw[0].Coq(), fw[0].Coq()), c)
		if why := checkFormTree(fw[0]); why != "" {
			x.fail(td, "wellformed/xep0004", "output is not a valid data form: "+why, c)
		}
	}
	// decoding both ways
	var d1, d2 form.Data
	var u1, u2 error
	if p := hx.Catch(func() {
		u1 = xml.Unmarshal(bw, &d1)
		u2 = xml.NewTokenDecoder(&sliceReader{toks: toks}).Decode(&d2)
	}); p != "" {
		x.fail(td, "unmarshal/panic", "unmarshalling own output panics: "+p, c)
		return
	}
	if u2 != nil || (clean && u1 != nil) {
		x.fail(td, "roundtrip/error", fmt.Sprint("own output does not unmarshal: ", u1, u2), c)
		return
	}
	x.cases.Add(fmt.Sprintf("dec_ok form_c no_or %s (Ok %s)", raw[0].Coq(), coqData(&d2)), c)
	if clean {
		x.cases.Add(fmt.Sprintf("dec_ok form_c no_or %s (Ok %s)", fw[0].Coq(), coqData(&d1)), c)
		if f := diffProj(projForm(&d1), projForm(&d2)); f != "" {
			x.fail(td, "paths-differ/tokens/"+f, fmt.Sprintf("decoding bytes and decoding tokens differ: %+v vs %+v", projForm(&d1), projForm(&d2)), c)
		}
	}
	// round trip: encoding the decoded form again gives the same XML
	// (the decoded form is in normal form; this is norm's idempotence seen
	// from outside) — only for forms that are not submissions, whose values
	// are re-derived from the fields.
	var toks2 []xml.Token
	if p := hx.Catch(func() { toks2, _ = readTokens(d2.TokenReader()) }); p != "" {
		x.fail(td, "tokenreader/panic", "TokenReader of a decoded form panics: "+p, c)
		return
	}
	raw2, _ := forestOf(toks2)
	if !s.Submit && !sameForest(raw, raw2, false) {
		x.fail(td, "roundtrip/re-encode", "decode then encode changes the XML: "+forestString(raw)+" vs "+forestString(raw2), c)
	}
	// and the decoded form keeps what the original said, field by field
	if !s.Submit {
		x.formEquiv(td, c, d, &d2)
	}
}

// formEquiv: the original and the decoded form agree on what a reader of the
// form can see: title (line breaks as spaces), instruction lines, type, and per
// field its type, name, label, description, required flag, effective values
// (Get) and options.
func (x *runner) formEquiv(td *typeDesc, c caseRec, a, b *form.Data) {
	flat := func(s string) string {
		return strings.NewReplacer("\r\n", " ", "\n\r", " ", "\n", " ", "\r", " ").Replace(s)
	}
	lines := func(s string) []string {
		var out []string
		for _, l := range strings.FieldsFunc(s, func(r rune) bool { return r == '\n' || r == '\r' }) {
			out = append(out, l)
		}
		return out
	}
	if flat(a.Title()) != b.Title() {
		x.fail(td, "roundtrip/title", fmt.Sprintf("title %q became %q", a.Title(), b.Title()), c)
	}
	if strings.Join(lines(a.Instructions()), "\n") != b.Instructions() {
		x.fail(td, "roundtrip/instructions", fmt.Sprintf("instructions %q became %q", a.Instructions(), b.Instructions()), c)
	}
	ta, fa, _ := form.VerifDump(a)
	tb, fb, _ := form.VerifDump(b)
	if ta != tb {
		x.fail(td, "roundtrip/type", fmt.Sprintf("type %q became %q", ta, tb), c)
	}
	if len(fa) != len(fb) {
		x.fail(td, "roundtrip/field-count", fmt.Sprintf("%d fields became %d", len(fa), len(fb)), c)
		return
	}
	for i := range fa {
		f, g := fa[i], fb[i]
		if f.Type != g.Type || f.Var != g.Var || f.Label != g.Label || f.Desc != g.Desc || f.Required != g.Required {
			x.fail(td, "roundtrip/field-attrs", fmt.Sprintf("field %+v became %+v", f, g), c)
		}
		if (f.Type == "list-single" || f.Type == "list-multi") && fmt.Sprint(f.Option) != fmt.Sprint(g.Option) && len(f.Option)+len(g.Option) > 0 {
			x.fail(td, "roundtrip/options", fmt.Sprintf("options %+v became %+v", f.Option, g.Option), c)
		}
		if want := wireValues(string(f.Type), f.Value); fmt.Sprint(want) != fmt.Sprint(g.Value) && len(want)+len(g.Value) > 0 {
			x.fail(td, "roundtrip/values", fmt.Sprintf("field %q (%s): values %q should read back as %q, got %q", f.Var, f.Type, f.Value, want, g.Value), c)
		}
	}
}

// wireValues: the values of a field that XEP-0004 allows on the wire, stated
// independently of the library: no empty value; a boolean is one of true,
// false, 0, 1; a JID field holds addresses; only the multi-valued types carry
// more than one value (the first that qualifies is kept).
func wireValues(typ string, vals []string) []string {
	multi := typ == "list-multi" || typ == "jid-multi" || typ == "text-multi"
	var out []string
	for _, v := range vals {
		if v == "" {
			continue
		}
		if len(out) > 0 && !multi {
			break
		}
		switch typ {
		case "boolean":
			if v != "true" && v != "false" && v != "0" && v != "1" {
				continue
			}
		case "jid-single", "jid-multi":
			if _, err := jid.Parse(v); err != nil {
				continue
			}
		}
		out = append(out, v)
	}
	return out
}

// formHistory: a history on one value — encode, Submit, encode again, TokenReader, read the
// accessors. Submit (and TokenReader) derive a new token stream: they must leave the form they
// were derived from unchanged (its type, fields, raw values, what Get answers), and MarshalXML and
// WriteXML must agree at every point of the history.
func (x *runner) formHistory(td *typeDesc, c caseRec, d *form.Data) bool {
	type snap struct {
		dump, gets string
		bm, bw     []byte
	}
	ok := true
	take := func(at string) snap {
		var sn snap
		if p := hx.Catch(func() {
			typ, fields, _ := form.VerifDump(d)
			sn.dump = fmt.Sprintf("%q %q %q %+v", d.Title(), d.Instructions(), typ, fields)
			d.ForFields(func(f form.FieldData) {
				v, set := d.Get(f.Var)
				raw, _ := d.Raw(f.Var)
				sn.gets += fmt.Sprintf("%q=%v,%v,%q,%q;", f.Var, v, set, raw, f.Raw)
			})
			var em, ew error
			sn.bm, em = xml.Marshal(d)
			var buf bytes.Buffer
			e := xml.NewEncoder(&buf)
			_, ew = d.WriteXML(e)
			if ew == nil {
				ew = e.Flush()
			}
			sn.bw = buf.Bytes()
			if em != nil || ew != nil {
				panic(fmt.Sprint("encoding fails: ", em, ew))
			}
		}); p != "" {
			x.fail(td, "history/panic", "at "+at+": "+p, c)
			ok = false
			return sn
		}
		fm, e1 := wholeDoc(sn.bm)
		fw, e2 := wholeDoc(sn.bw)
		if e1 != nil || e2 != nil || !sameForest(fm, fw, false) {
			x.fail(td, "history/paths-differ:"+at, fmt.Sprintf("MarshalXML and WriteXML differ %s: %s vs %s", at, sn.bm, sn.bw), c)
			ok = false
		}
		return sn
	}
	s0 := take("before Submit")
	if !ok {
		return false
	}
	if p := hx.Catch(func() {
		tr, _ := d.Submit()
		if _, err := readTokens(tr); err != nil {
			panic(err)
		}
	}); p != "" {
		return true // reported by the main script as submit/panic
	}
	s1 := take("after Submit")
	if !ok {
		return false
	}
	same := func(a, b snap, what string) {
		switch {
		case a.dump != b.dump:
			x.fail(td, "history/"+what+"-changes-form/fields", fmt.Sprintf("the form's own fields changed: %s became %s", a.dump, b.dump), c)
			ok = false
		case a.gets != b.gets:
			x.fail(td, "history/"+what+"-changes-form/accessors", fmt.Sprintf("Get/Raw answers changed: %s became %s", a.gets, b.gets), c)
			ok = false
		case string(a.bm) != string(b.bm):
			x.fail(td, "history/"+what+"-changes-form/encoding", fmt.Sprintf("MarshalXML before: %s, after: %s", a.bm, b.bm), c)
			ok = false
		}
	}
	same(s0, s1, "submit")
	if !ok {
		return false
	}
	if p := hx.Catch(func() {
		if _, err := readTokens(d.TokenReader()); err != nil {
			panic(err)
		}
	}); p != "" {
		return true
	}
	s2 := take("after TokenReader")
	if ok {
		same(s1, s2, "tokenreader")
	}
	x.res.Count("history"+c.Value, true, "type/form.Data", "form/history")
	return ok
}

func setsCoq(ops []setOp) string {
	var parts []string
	for _, op := range ops {
		parts = append(parts, "("+hx.CoqBytes([]byte(op.ID))+", "+op.coq()+")")
	}
	return strings.Join(parts, ";")
}

type sliceReader struct {
	toks []xml.Token
	i    int
}

func (s *sliceReader) Token() (xml.Token, error) {
	if s.i >= len(s.toks) {
		return nil, errEOF
	}
	t := s.toks[s.i]
	s.i++
	return t, nil
}

// nilSubmit: Submit through a nil *Data.
func (x *runner) nilSubmit() {
	td := &typeDesc{name: "form.Data"}
	c := caseRec{Type: "form.Data", Kind: "nil-submit"}
	var toks []xml.Token
	var ok bool
	p := hx.Catch(func() {
		var d *form.Data
		tr, o := d.Submit()
		ok = o
		toks, _ = readTokens(tr)
		d.Len()
		d.Raw("x")
	})
	x.res.Count("nil-submit", true, "type/form.Data", "form/nil-receiver")
	if p != "" {
		x.fail(td, "submit/nil-panic", "Submit on a nil *Data panics: "+p, c)
		x.cases.Add("nil_submit_ok Panic", c)
		return
	}
	raw, err := forestOf(toks)
	if err != nil || len(raw) != 1 {
		x.fail(td, "submit/nil-unbalanced", "Submit on a nil *Data: bad tokens", c)
		return
	}
	x.cases.Add(fmt.Sprintf("nil_submit_ok (Ok (%s, %s))", raw[0].Coq(), hx.CoqBool(ok)), c)
}
