package main

import (
	"encoding/xml"
	"fmt"
	"strings"
	"unicode/utf8"

	"verifharness/hx"
)

const xmlNS = "http://www.w3.org/XML/1998/namespace"

func escText(s string) string {
	var sb strings.Builder
	_ = xml.EscapeText(&sb, []byte(s))
	return sb.String()
}

// render serialises a tree by hand (not with encoding/xml) so that the
// mutator controls name space declarations; dflt is the default name space in
// scope.
func render(sb *strings.Builder, t *Tree, dflt string, cdata bool) {
	switch t.Kind {
	case 1:
		if cdata && !strings.Contains(t.Text, "]]>") && xmlClean(t.Text) {
			sb.WriteString("<![CDATA[" + t.Text + "]]>")
		} else {
			sb.WriteString(escText(t.Text))
		}
		return
	case 2:
		switch t.Misc {
		case 0:
			sb.WriteString("<!--" + strings.ReplaceAll(t.Text, "--", "-") + "-->")
		case 1:
			sb.WriteString("<?target " + strings.ReplaceAll(t.Text, "?>", "") + "?>")
		default:
			sb.WriteString("<!DOCTYPE x>")
		}
		return
	}
	sb.WriteString("<" + t.Name.Local)
	if t.Name.Space != dflt {
		sb.WriteString(` xmlns="` + escText(t.Name.Space) + `"`)
	}
	np := 0
	for _, a := range t.Attrs {
		if a.Name.Local == "xmlns" || a.Name.Space == "xmlns" {
			continue
		}
		switch a.Name.Space {
		case "":
			fmt.Fprintf(sb, ` %s="%s"`, a.Name.Local, escText(a.Value))
		case xmlNS:
			fmt.Fprintf(sb, ` xml:%s="%s"`, a.Name.Local, escText(a.Value))
		default:
			np++
			fmt.Fprintf(sb, ` xmlns:p%d="%s" p%d:%s="%s"`, np, escText(a.Name.Space), np, a.Name.Local, escText(a.Value))
		}
	}
	if len(t.Kids) == 0 && len(t.Name.Local)%2 == 0 {
		sb.WriteString("/>")
		return
	}
	sb.WriteString(">")
	for _, k := range t.Kids {
		render(sb, k, t.Name.Space, cdata)
	}
	sb.WriteString("</" + t.Name.Local + ">")
}

func renderDoc(t *Tree, cdata bool) []byte {
	var sb strings.Builder
	render(&sb, t, "", cdata)
	return []byte(sb.String())
}

func cloneTree(t *Tree) *Tree {
	n := *t
	n.Attrs = append([]xml.Attr(nil), t.Attrs...)
	n.Kids = nil
	for _, k := range t.Kids {
		n.Kids = append(n.Kids, cloneTree(k))
	}
	return &n
}

func elements(t *Tree) []*Tree {
	var out []*Tree
	t.walk(func(n *Tree) {
		if n.Kind == 0 {
			out = append(out, n)
		}
	})
	return out
}

var attrValues = []string{"", "0", "1", "true", "false", "TRUE", "False", "t", "abc", " 5 ", "+7", "-3", "18446744073709551616", "99999999999999999999999",
	"2020-01-02T03:04:05Z", "2020-01-02T03:04:05.123456789+05:30", "2020-13-45T99:99:99Z", "+05:30", "Z", "-00:00",
	"juliet@example.net/balcony", "@", "a@b@c", "YWJj", "YQ==", "YQ=", "Y Q = =", "!!!!", "sha-256", "sha-999", "prev", "complete",
	"submit", "form", "text-multi", "jid-single", "boolean", "http://example.com/a b", "://", "a\nb", "x<y&z"}

// mutateTree applies one structured mutation that keeps the document
// well-formed: the decoder must cope with every one of them.
func mutateTree(r *hx.Rand, root *Tree) string {
	els := elements(root)
	e := els[r.Intn(len(els))]
	// attribute values decide most decoders' branches (booleans, numbers, times,
	// addresses): every fourth mutation rewrites one, on an element that has some
	if r.Chance(1, 4) {
		var with []*Tree
		for _, x := range els {
			if len(x.Attrs) > 0 {
				with = append(with, x)
			}
		}
		if len(with) > 0 {
			x := with[r.Intn(len(with))]
			x.Attrs[r.Intn(len(x.Attrs))].Value = attrValues[r.Intn(len(attrValues))]
			return "attr-value"
		}
	}
	switch r.Intn(16) {
	case 0:
		if len(e.Kids) > 0 {
			k := e.Kids[r.Intn(len(e.Kids))]
			e.Kids = append(e.Kids, cloneTree(k))
			return "dup-child"
		}
	case 1:
		if len(e.Kids) > 0 {
			i := r.Intn(len(e.Kids))
			e.Kids = append(e.Kids[:i:i], e.Kids[i+1:]...)
			return "drop-child"
		}
	case 2:
		if len(e.Kids) > 1 {
			i, j := r.Intn(len(e.Kids)), r.Intn(len(e.Kids))
			e.Kids[i], e.Kids[j] = e.Kids[j], e.Kids[i]
			return "swap-children"
		}
	case 3:
		i := r.Intn(len(e.Kids) + 1)
		txt := []string{" ", "\n  ", "text", "\t"}[r.Intn(4)]
		e.Kids = append(e.Kids[:i:i], append([]*Tree{{Kind: 1, Text: txt}}, e.Kids[i:]...)...)
		return "insert-text"
	case 4:
		i := r.Intn(len(e.Kids) + 1)
		n := &Tree{Kind: 0, Name: xml.Name{Space: []string{e.Name.Space, "urn:example:other", ""}[r.Intn(3)], Local: []string{"unknown", "value", "x", "item", "set", "delay", "field", "title", "trust", "hash"}[r.Intn(10)]}}
		if r.Bool() {
			n.Kids = []*Tree{{Kind: 1, Text: attrValues[r.Intn(len(attrValues))]}}
		}
		e.Kids = append(e.Kids[:i:i], append([]*Tree{n}, e.Kids[i:]...)...)
		return "insert-element"
	case 5:
		i := r.Intn(len(e.Kids) + 1)
		e.Kids = append(e.Kids[:i:i], append([]*Tree{{Kind: 2, Misc: r.Intn(2), Text: "c"}}, e.Kids[i:]...)...)
		return "insert-misc"
	case 6:
		e.Name.Local = []string{"x", "query", "item", e.Name.Local + "x", "set", "trust", "distrust"}[r.Intn(7)]
		return "rename-element"
	case 7:
		e.Name.Space = []string{"", "urn:example:other", "jabber:x:data", "urn:xmpp:delay", e.Name.Space + "x"}[r.Intn(5)]
		return "renamespace-element"
	case 8:
		if len(e.Attrs) > 0 {
			i := r.Intn(len(e.Attrs))
			e.Attrs[i].Value = attrValues[r.Intn(len(attrValues))]
			return "attr-value"
		}
	case 9:
		if len(e.Attrs) > 0 {
			i := r.Intn(len(e.Attrs))
			e.Attrs = append(e.Attrs[:i:i], e.Attrs[i+1:]...)
			return "drop-attr"
		}
	case 10:
		if len(e.Attrs) > 0 {
			i := r.Intn(len(e.Attrs))
			e.Attrs[i].Name.Space = []string{"urn:example:other", xmlNS, e.Name.Space}[r.Intn(3)]
			return "renamespace-attr"
		}
	case 11:
		names := []string{"type", "jid", "stamp", "from", "node", "var", "algo", "max-age", "index", "execute", "complete", "stable", "lang", "id", "by", "size", "unknown"}
		e.Attrs = append(e.Attrs, xml.Attr{Name: xml.Name{Local: names[r.Intn(len(names))]}, Value: attrValues[r.Intn(len(attrValues))]})
		return "add-attr"
	case 12:
		for _, k := range e.Kids {
			if k.Kind == 1 {
				k.Text = attrValues[r.Intn(len(attrValues))]
				return "text-value"
			}
		}
		e.Kids = append(e.Kids, &Tree{Kind: 1, Text: attrValues[r.Intn(len(attrValues))]})
		return "text-value"
	case 13:
		if len(e.Kids) > 0 {
			e.Kids = nil
			return "empty-element"
		}
	case 14:
		if len(e.Attrs) > 1 {
			i, j := r.Intn(len(e.Attrs)), r.Intn(len(e.Attrs))
			e.Attrs[i], e.Attrs[j] = e.Attrs[j], e.Attrs[i]
			return "swap-attrs"
		}
	case 15:
		// split a text node around a comment: two CharData tokens
		for i, k := range e.Kids {
			if k.Kind == 1 && len(k.Text) > 1 {
				h := len(k.Text) / 2
				for h < len(k.Text) && !utf8.RuneStart(k.Text[h]) {
					h++
				}
				a, b := k.Text[:h], k.Text[h:]
				if xmlClean(a) && xmlClean(b) {
					e.Kids = append(e.Kids[:i:i], append([]*Tree{{Kind: 1, Text: a}, {Kind: 2, Misc: 0, Text: "c"}, {Kind: 1, Text: b}}, e.Kids[i+1:]...)...)
					return "split-text"
				}
			}
		}
	}
	return ""
}

// mutateBytes damages a document at the byte level (usually not well-formed).
func mutateBytes(r *hx.Rand, doc []byte) ([]byte, string) {
	if len(doc) == 0 {
		return []byte("<"), "bytes"
	}
	d := append([]byte(nil), doc...)
	switch r.Intn(5) {
	case 0:
		return d[:r.Intn(len(d))], "truncate"
	case 1:
		i := r.Intn(len(d))
		return append(d[:i:i], d[i+1:]...), "delete-byte"
	case 2:
		i := r.Intn(len(d))
		ins := []string{"<", ">", "&", "\"", "'", "</x>", "<x>", "\x00", "]]>", "<!--", "&#x0;", "&bogus;"}[r.Intn(12)]
		return append(d[:i:i], append([]byte(ins), d[i:]...)...), "insert-bytes"
	case 3:
		i := r.Intn(len(d))
		d[i] = byte(r.Intn(256))
		return d, "flip-byte"
	}
	i, j := r.Intn(len(d)), r.Intn(len(d))
	if i > j {
		i, j = j, i
	}
	return append(d[:j:j], append(append([]byte(nil), d[i:j]...), d[j:]...)...), "dup-span"
}
